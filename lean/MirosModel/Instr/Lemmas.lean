import MirosModel.Instr.Spy
import MirosModel.Queue.Lemmas
import MirosModel.Hsm.Lemmas
import MirosModel.Hsm.BufLemmas
/-!
# Helper lemmas for layer 3 (spy / trace / live output)

Property theorems live in `MirosModel/Props/C18.lean` … `C21.lean`.
-/
namespace Miros.Instr
open Miros.Hsm Miros.Queue

/-! ### ring algebra -/

theorem ring_of_le {α : Type} (c : Nat) (l : List α) (h : l.length ≤ c) : ring c l = l := by
  unfold ring
  have : l.length - c = 0 := by omega
  rw [this]; rfl

theorem ring_length_le {α : Type} (c : Nat) (l : List α) : (ring c l).length ≤ c := by
  unfold ring
  rw [List.length_drop]; omega

theorem ring_length {α : Type} (c : Nat) (l : List α) : (ring c l).length = min c l.length := by
  unfold ring
  rw [List.length_drop]; omega

theorem ring_suffix {α : Type} (c : Nat) (l : List α) : ring c l <:+ l := by
  unfold ring
  exact List.drop_suffix _ _

@[simp] theorem ring_nil {α : Type} (c : Nat) : ring c ([] : List α) = [] := by simp [ring]

theorem ring_ring_append {α : Type} (c : Nat) (a b : List α) :
    ring c (ring c a ++ b) = ring c (a ++ b) := by
  by_cases h : a.length ≤ c
  · rw [ring_of_le c a h]
  · unfold ring
    have hk : a.length - c ≤ a.length := by omega
    rw [← List.drop_append_of_le_length hk, List.drop_drop]
    congr 1
    simp only [List.length_append, List.length_drop]
    omega

theorem ring_idem {α : Type} (c : Nat) (l : List α) : ring c (ring c l) = ring c l := by
  have := ring_ring_append c l []
  simpa using this

/-- appending to a ring that is then cut again: only the cut of the whole matters -/
theorem ring_append_ring {α : Type} (c : Nat) (a b d : List α) :
    ring c (ring c (a ++ b) ++ d) = ring c (a ++ b ++ d) := ring_ring_append c (a ++ b) d

/-! ### the call lines of a step log -/

/-- the handler invocation a spy line records, if it is a call line -/
def asCall : Line → Option Call
  | .call s sg => some ⟨s, sg⟩
  | _ => none

theorem effLines_asCall (s : QState) (e : Eff) : (effLines s e).filterMap asCall = [] := by
  cases e <;> simp [effLines, asCall]
  cases s.dq <;> simp

theorem effsLines_asCall : ∀ (l : List Eff) (s : QState), (effsLines s l).1.filterMap asCall = [] := by
  intro l
  induction l with
  | nil => intro s; simp [effsLines]
  | cons e rest ih =>
    intro s
    simp only [effsLines, List.filterMap_append, effLines_asCall, ih, List.append_nil]

/-- the queue-state component of `effsLines` is the fold of `applyEff` -/
theorem effsLines_state : ∀ (l : List Eff) (s : QState), (effsLines s l).2 = l.foldl applyEff s := by
  intro l
  induction l with
  | nil => intro s; rfl
  | cons e rest ih => intro s; simp only [effsLines, List.foldl_cons, ih]

theorem effsLines_cons (s : QState) (e : Eff) (rest : List Eff) :
    (effsLines s (e :: rest)).1 = effLines s e ++ (effsLines (applyEff s e) rest).1 := rfl

theorem effsLines_append : ∀ (l1 l2 : List Eff) (s : QState),
    (effsLines s (l1 ++ l2)).1 = (effsLines s l1).1 ++ (effsLines (l1.foldl applyEff s) l2).1 := by
  intro l1
  induction l1 with
  | nil => intro l2 s; simp [effsLines]
  | cons e rest ih =>
    intro l2 s
    simp only [List.cons_append, effsLines_cons, ih, List.foldl_cons, List.append_assoc]

theorem logLines_cons (qc : QChart) (s : QState) (call : Call) (rest : Log) :
    (logLines qc s (call :: rest)).1 =
      Line.call call.s call.sig :: (effsLines s (qc.eff call.s call.sig)).1 ++
        (match isHook qc.chart call with | some n => [Line.hook call.s n] | none => []) ++
        (logLines qc (effsLines s (qc.eff call.s call.sig)).2 rest).1 := rfl

theorem logLines_cons_state (qc : QChart) (s : QState) (call : Call) (rest : Log) :
    (logLines qc s (call :: rest)).2 =
      (logLines qc (effsLines s (qc.eff call.s call.sig)).2 rest).2 := rfl

theorem logLines_state (qc : QChart) : ∀ (log : Log) (s : QState),
    (logLines qc s log).2 = applyLog qc s log := by
  intro log
  induction log with
  | nil => intro s; rfl
  | cons call rest ih =>
    intro s
    rw [logLines_cons_state, ih, effsLines_state]
    rfl

theorem hookLine_asCall (c : Chart) (call : Call) :
    (match isHook c call with | some n => [Line.hook call.s n] | none => []).filterMap asCall = [] := by
  cases isHook c call <;> simp [asCall]

theorem logLines_calls (qc : QChart) : ∀ (log : Log) (s : QState),
    (logLines qc s log).1.filterMap asCall = log := by
  intro log
  induction log with
  | nil => intro s; rfl
  | cons call rest ih =>
    intro s
    rw [logLines_cons]
    simp only [List.cons_append, List.filterMap_cons, asCall, List.filterMap_append,
      effsLines_asCall, hookLine_asCall, ih, List.nil_append]

theorem logLines_append (qc : QChart) : ∀ (l1 l2 : Log) (s : QState),
    (logLines qc s (l1 ++ l2)).1 = (logLines qc s l1).1 ++ (logLines qc (applyLog qc s l1) l2).1 := by
  intro l1
  induction l1 with
  | nil => intro l2 s; simp [logLines, applyLog]
  | cons call rest ih =>
    intro l2 s
    rw [List.cons_append, logLines_cons, logLines_cons, ih, effsLines_state]
    simp [applyLog, List.append_assoc]

/-- every call contributes at least its call line -/
theorem logLines_length_ge (qc : QChart) : ∀ (log : Log) (s : QState),
    log.length ≤ (logLines qc s log).1.length := by
  intro log s
  have h := logLines_calls qc log s
  have := List.length_filterMap_le asCall (logLines qc s log).1
  rw [h] at this; exact this

theorem isHook_iff (c : Chart) (call : Call) (n : Nat) :
    isHook c call = some n ↔ call.sig = .user n ∧ c.react call.s n = .handled := by
  obtain ⟨s, sg⟩ := call
  cases sg <;> simp [isHook]
  rename_i m
  by_cases h : c.react s m = .handled
  · simp [h]
    intro e; subst e; exact h
  · simp [h]
    intro e; subst e; exact h

/-! ### the user-signal calls of a step are exactly the spec's offers -/

/-- a call that offers a user signal to a state -/
def isUserCall (x : Call) : Bool := match x.sig with | .user _ => true | _ => false

/-- the user-signal calls of a log -/
def ucalls (l : Log) : Log := l.filter isUserCall

@[simp] theorem ucalls_nil : ucalls [] = [] := rfl
@[simp] theorem ucalls_append (a b : Log) : ucalls (a ++ b) = ucalls a ++ ucalls b := by
  simp [ucalls]
@[simp] theorem ucalls_search (s : St) : ucalls [⟨s, .search⟩] = [] := rfl
@[simp] theorem ucalls_empty (s : St) : ucalls [⟨s, .empty⟩] = [] := rfl
@[simp] theorem ucalls_entry (s : St) : ucalls [⟨s, .entry⟩] = [] := rfl
@[simp] theorem ucalls_exit (s : St) : ucalls [⟨s, .exit⟩] = [] := rfl
@[simp] theorem ucalls_init (s : St) : ucalls [⟨s, .init⟩] = [] := rfl
@[simp] theorem ucalls_user (s : St) (n : Nat) : ucalls [⟨s, .user n⟩] = [⟨s, .user n⟩] := rfl

@[simp] theorem ucalls_cons (x : Call) (l : Log) :
    ucalls (x :: l) = if isUserCall x then x :: ucalls l else ucalls l := by
  simp [ucalls, List.filter_cons]
@[simp] theorem isUserCall_user (s : St) (n : Nat) : isUserCall ⟨s, .user n⟩ = true := rfl
@[simp] theorem isUserCall_empty (s : St) : isUserCall ⟨s, .empty⟩ = false := rfl
@[simp] theorem isUserCall_search (s : St) : isUserCall ⟨s, .search⟩ = false := rfl
@[simp] theorem isUserCall_entry (s : St) : isUserCall ⟨s, .entry⟩ = false := rfl
@[simp] theorem isUserCall_exit (s : St) : isUserCall ⟨s, .exit⟩ = false := rfl
@[simp] theorem isUserCall_init (s : St) : isUserCall ⟨s, .init⟩ = false := rfl

theorem ucalls_actions (l : Log) : ucalls (actions l) = ucalls l := by
  unfold ucalls actions
  rw [List.filter_filter]
  congr 1
  funext x
  obtain ⟨s, sg⟩ := x
  cases sg <;> rfl

theorem ucalls_probe (x : St) (k : Ctx) : ucalls (probe x k).log = ucalls k.log := by
  cases x <;> simp [probe]

theorem ucalls_probeNone (x : St) (k : Ctx) : ucalls (probeNone x k).log = ucalls k.log := by
  simp [probeNone]

theorem ucalls_probeAny (c : Chart) (x : St) (k : Ctx) : ucalls (probeAny c x k).log = ucalls k.log := by
  unfold probeAny
  split
  · exact ucalls_probeNone x k
  · exact ucalls_probe x k

theorem ucalls_callExit (c : Chart) (x : St) (k : Ctx) : ucalls (callExit c x k).2.log = ucalls k.log := by
  cases x with
  | nil => rfl
  | cons a p =>
    unfold callExit
    by_cases h : c.exitH (a :: p) <;> by_cases h' : c.fall (a :: p) <;> simp [h, h']

theorem ucalls_exitStep (c : Chart) (x : St) (k : Ctx) : ucalls (exitStep c x k).log = ucalls k.log := by
  unfold exitStep
  split
  · rw [ucalls_probe, ucalls_callExit]
  · rw [ucalls_callExit]

theorem ucalls_callEntry (x : St) (k : Ctx) : ucalls (callEntry x k).log = ucalls k.log := by
  cases x <;> simp [callEntry]

theorem ucalls_callInit (c : Chart) (x : St) (k : Ctx) : ucalls (callInit c x k).2.log = ucalls k.log := by
  cases x with
  | nil => rfl
  | cons a p =>
    unfold callInit
    cases c.init (a :: p) <;> simp

theorem ucalls_exitWalk (c : Chart) (s : St) : ∀ (t : St) (k k' : Ctx),
    exitWalk c s t k = .ok k' → ucalls k'.log = ucalls k.log := by
  intro t
  induction t with
  | nil =>
    intro k k' h
    rw [exitWalk] at h
    split at h
    · cases h; rfl
    · cases h
  | cons a p ih =>
    intro k k' h
    rw [exitWalk] at h
    split at h
    · cases h; rfl
    · split at h
      · cases h
      · have := ih _ _ h
        rw [this]
        exact ucalls_exitStep c (a :: p) k

theorem ucalls_eLoop (c : Chart) (S : St) : ∀ (x : St) (tp : List St) (mx ip : Nat) (k : Ctx) (o : EOut),
    eLoop c S x tp mx ip k = .ok o → ucalls o.k.log = ucalls k.log := by
  intro x
  induction x with
  | nil =>
    intro tp mx ip k o h
    rw [eLoop] at h
    split at h
    · cases h
    · split at h <;> (cases h; rfl)
  | cons a p ih =>
    intro tp mx ip k o h
    rw [eLoop] at h
    split at h
    · cases h
    · split at h
      · cases h; rfl
      · simp only at h
        split at h
        · cases h
        · rw [ih _ _ _ _ _ h, ucalls_probe]

theorem ucalls_gLoop (c : Chart) (tp : List St) (ip : Nat) : ∀ (t : St) (k : Ctx) (r : Int × Ctx),
    gLoop c tp ip t k = .ok r → ucalls r.2.log = ucalls k.log := by
  intro t
  induction t with
  | nil => intro k r h; rw [gLoop] at h; cases h
  | cons a p ih =>
    intro k r h
    cases hfa : c.fall (a :: p) with
    | true => simp only [gLoop, hfa, if_true] at h; cases h
    | false =>
      cases hsc : scan p tp ip with
      | some iq =>
        simp only [gLoop, hsc, hfa, Bool.false_eq_true, if_false] at h
        cases h; exact ucalls_exitStep c (a :: p) k
      | none =>
        simp only [gLoop, hsc, hfa, Bool.false_eq_true, if_false] at h
        rw [ih _ _ h]; exact ucalls_exitStep c (a :: p) k

theorem ucalls_enterDown (tp : List St) : ∀ (ip : Nat) (k : Ctx),
    ucalls (enterDown tp ip k).log = ucalls k.log := by
  intro ip
  induction ip with
  | zero => intro k; rw [enterDown, ucalls_callEntry]
  | succ n ih => intro k; rw [enterDown, ih, ucalls_callEntry]

theorem ucalls_climb (c : Chart) (goal : St) : ∀ (x : St) (tp : List St) (mx ip : Nat) (k : Ctx)
    (ip' : Nat) (tp' : List St) (mx' : Nat) (k' : Ctx),
    climb c goal x tp mx ip k = .done ip' tp' mx' k' → ucalls k'.log = ucalls k.log := by
  intro x
  induction x with
  | nil =>
    intro tp mx ip k ip' tp' mx' k' h
    rw [climb] at h
    split at h
    · cases h; rfl
    · cases h
  | cons a p ih =>
    intro tp mx ip k ip' tp' mx' k' h
    rw [climb] at h
    split at h
    · cases h; rfl
    · split at h
      · cases h
      · split at h
        · cases h
        · rw [ih _ _ _ _ _ _ _ _ h, ucalls_probe]

theorem ucalls_drill (c : Chart) (g : Cfg) : ∀ (fuel : Nat) (t : St) (tp : List St) (mx : Nat) (k : Ctx)
    (r : St × Ctx), drill c g fuel t tp mx k = .ok r → ucalls r.2.log = ucalls k.log := by
  intro fuel
  induction fuel with
  | zero => intro t tp mx k r h; rw [drill] at h; cases h
  | succ n ih =>
    intro t tp mx k r h
    have hci := ucalls_callInit c t k
    cases hc : callInit c t k with
    | mk tr k1 =>
      rw [hc] at hci
      simp only [drill, hc] at h
      split at h
      · cases h; exact hci
      · split at h
        · cases h
        · split at h
          · cases h
          · split at h
            · split at h <;> cases h
            · cases h
            · split at h <;> cases h
            · rename_i ip tp2 mx2 k3 hcl
              have h1 := ucalls_climb _ _ _ _ _ _ _ _ _ _ _ hcl
              rw [ih _ _ _ _ _ h, ucalls_enterDown]
              simp only at h1 ⊢
              rw [h1, ucalls_probeAny]; exact hci

theorem ucalls_trans (c : Chart) (tp0 : List St) (mx : Nat) (T S : St) (k : Ctx) (o : TOut)
    (h : trans_ c tp0 mx T S k = .ok o) : ucalls o.k.log = ucalls k.log := by
  unfold trans_ at h
  split at h
  · cases h; exact ucalls_callExit c S k
  · simp only at h
    split at h
    · cases h
    split at h
    · cases h; exact ucalls_probe T k
    · split at h
      · cases h
      split at h
      · cases h; simp only [ucalls_callExit, ucalls_probe]
      · split at h
        · cases h; simp only [ucalls_callExit, ucalls_probe]
        · split at h
          · cases h
          split at h
          · cases h
          · cases h
          · rename_i found ip tp2 mx2 k4 he
            have hk4 : ucalls k4.log = ucalls k.log := by
              split at he
              · cases he; simp only [ucalls_probe]
              · have := ucalls_eLoop _ _ _ _ _ _ _ _ he
                simp only at this
                rw [this]; simp only [ucalls_probe]
            split at h
            · cases h; exact hk4
            · split at h
              · cases h; simp only [ucalls_callExit, hk4]
              · split at h
                · rename_i ip' k6 hg
                  cases h
                  have := ucalls_gLoop _ _ _ _ _ _ hg
                  simp only at this ⊢
                  rw [this, ucalls_callExit, hk4]
                · cases h
                · cases h

/-- the outward search offers the event exactly as the spec says, unless it meets a malformed handler -/
theorem ucalls_searchLoop (c : Chart) (n : Nat) : ∀ (cur : St) (k : Ctx),
    (searchLoop c n cur k).1 matches .bad ∨
      ucalls (searchLoop c n cur k).2.log = ucalls k.log ++ (offers c n cur).1 := by
  intro cur
  induction cur with
  | nil => intro k; right; simp [searchLoop, offers]
  | cons a p ih =>
    intro k
    cases hr : c.react (a :: p) n with
    | tran t => right; simp [searchLoop, offers, hr]
    | handled => right; simp [searchLoop, offers, hr]
    | none => left; simp [searchLoop, hr]
    | unhandled =>
      cases hfa : c.fall (a :: p) with
      | true => left; simp [searchLoop, hr, hfa]
      | false =>
        rcases ih { temp := p, log := k.log ++ [⟨a :: p, .user n⟩] ++ [⟨a :: p, .empty⟩] } with h | h
        · left; simpa only [searchLoop, hr, hfa, Bool.false_eq_true, if_false] using h
        · right; simp only [searchLoop, offers, hr, hfa, Bool.false_eq_true, if_false]; rw [h]; simp
    | pass =>
      cases hfa : c.fall (a :: p) with
      | true => left; simp [searchLoop, hr, hfa]
      | false =>
        rcases ih { temp := p, log := k.log ++ [⟨a :: p, .user n⟩] } with h | h
        · left; simpa only [searchLoop, hr, hfa, Bool.false_eq_true, if_false] using h
        · right; simp only [searchLoop, offers, hr, hfa, Bool.false_eq_true, if_false]; rw [h]; simp

/-- **key lemma for C20**: the user-signal calls of a successful dispatch are exactly the offers of
the spec; everything `dispatch` does after the search (exit walk, `trans_`, entries, init drill)
only makes entry / exit / init / search calls -/
theorem dispatch_user_calls (c : Chart) (g : Cfg) (cur : St) (n : Nat) (r : Res)
    (h : dispatch c g cur n = .ok r) : r.log.filter isUserCall = (offers c n cur).1 := by
  have hs := ucalls_searchLoop c n cur { temp := cur, log := [] }
  unfold dispatch at h
  simp only at h
  cases hsl : searchLoop c n cur { temp := cur, log := [] } with
  | mk f k =>
    rw [hsl] at h hs
    simp only [ucalls_nil, List.nil_append] at hs
    cases f with
    | bad => simp at h
    | ignored =>
      simp only at h; cases h
      rcases hs with hs | hs
      · simp at hs
      · exact hs
    | handled =>
      simp only at h; cases h
      rcases hs with hs | hs
      · simp at hs
      · exact hs
    | tran S =>
      rcases hs with hs | hs
      · simp at hs
      · simp only at h
        split at h
        · cases h
        · cases h
        · rename_i k1 he
          have h1 := ucalls_exitWalk _ _ _ _ _ he
          split at h
          · cases h
          · cases h
          · rename_i ip tp mx' k2 ht
            have h2 := ucalls_trans _ _ _ _ _ _ _ ht
            simp only at h2
            split at h
            · cases h
            · cases h
            · rename_i t k4 hd
              have h3 := ucalls_drill _ _ _ _ _ _ _ _ hd
              simp only at h3
              cases h
              show ucalls k4.log = _
              rw [h3, ← hs, ← h1, ← h2]
              split
              · rfl
              · exact ucalls_enterDown _ _ _

/-! ### `hooked`, the `ignored` flag and `offeredSig` of `iNext` against the spec's `Answer` -/

/-- the `ignored` flag `iNext` computes from the step log: no user-signal call was answered
HANDLED or with a transition -/
def ignoredLog (c : Chart) (log : Log) : Bool :=
  log.all fun call => match call.sig with
    | .user n => decide (c.react call.s n ≠ .handled) &&
        !(match c.react call.s n with | .tran _ => true | _ => false)
    | _ => true

/-- the trace records `iNext` appends for a dispatched event -/
def nextRecs (c : Chart) (cur : St) (r : Res) : List TraceRec :=
  if !hooked c r.log && !ignoredLog c r.log then [⟨cur, offeredSig r.log, r.state⟩] else []

/-- the trace records `iStart` appends -/
def startRecs (caps : Caps) (r : Res) : List TraceRec :=
  if r.log.length + 1 ≤ caps.rtc then [⟨[], none, r.state⟩] else []

theorem hooked_cons (c : Chart) (x : Call) (l : Log) :
    hooked c (x :: l) = ((isHook c x).isSome || hooked c l) := rfl

theorem ignoredLog_cons_user (c : Chart) (s : St) (n : Nat) (l : Log) :
    ignoredLog c (⟨s, .user n⟩ :: l) = ((decide (c.react s n ≠ .handled) &&
        !(match c.react s n with | .tran _ => true | _ => false)) && ignoredLog c l) := rfl

theorem all_ucalls (f : Call → Bool) (hf : ∀ x, isUserCall x = false → f x = true) (l : Log) :
    l.all f = (ucalls l).all f := by
  induction l with
  | nil => rfl
  | cons x l ih =>
    cases hx : isUserCall x with
    | false => simp only [ucalls_cons, hx, List.all_cons, hf x hx, Bool.true_and, ih, Bool.false_eq_true, if_false]
    | true => simp only [ucalls_cons, hx, List.all_cons, ih, if_true]

theorem any_ucalls (f : Call → Bool) (hf : ∀ x, isUserCall x = false → f x = false) (l : Log) :
    l.any f = (ucalls l).any f := by
  induction l with
  | nil => rfl
  | cons x l ih =>
    cases hx : isUserCall x with
    | false => simp only [ucalls_cons, hx, List.any_cons, hf x hx, Bool.false_or, ih, Bool.false_eq_true, if_false]
    | true => simp only [ucalls_cons, hx, List.any_cons, ih, if_true]

theorem hooked_ucalls (c : Chart) (log : Log) : hooked c log = hooked c (ucalls log) := by
  unfold hooked
  apply any_ucalls
  intro x hx
  obtain ⟨s, sg⟩ := x
  cases sg <;> first | rfl | simp at hx

theorem ignoredLog_ucalls (c : Chart) (log : Log) : ignoredLog c log = ignoredLog c (ucalls log) := by
  unfold ignoredLog
  apply all_ucalls
  intro x hx
  obtain ⟨s, sg⟩ := x
  cases sg <;> first | rfl | simp at hx

theorem offeredSig_ucalls (log : Log) : offeredSig log = offeredSig (ucalls log) := by
  unfold offeredSig
  congr 1
  induction log with
  | nil => rfl
  | cons x l ih =>
    obtain ⟨s, sg⟩ := x
    cases sg <;> simp [isUserCall, ih]

theorem offeredSig_cons_user (s : St) (n : Nat) (l : Log) (h : offeredSig l = some n ∨ l = []) :
    offeredSig (⟨s, .user n⟩ :: l) = some n := by
  unfold offeredSig at h ⊢
  simp only [List.filterMap_cons, List.getLast?_cons]
  rcases h with h | h
  · rw [h]; rfl
  · subst h; rfl

/-- the event caused a transition: no hook, not ignored, the offered signal is the event -/
theorem offers_tran (c : Chart) (n : Nat) : ∀ (cur S T : St), (offers c n cur).2 = .tran S T →
    hooked c (offers c n cur).1 = false ∧ ignoredLog c (offers c n cur).1 = false ∧
      offeredSig (offers c n cur).1 = some n := by
  intro cur
  induction cur with
  | nil => intro S T h; simp [offers] at h
  | cons a p ih =>
    intro S T h
    cases hr : c.react (a :: p) n with
    | tran t => simp [offers, hr, hooked, isHook, ignoredLog, offeredSig]
    | handled => simp [offers, hr] at h
    | unhandled =>
      simp only [offers, hr] at h ⊢
      obtain ⟨h1, h2, h3⟩ := ih S T h
      refine ⟨?_, ?_, offeredSig_cons_user _ _ _ (Or.inl h3)⟩
      · rw [hooked_cons, h1]; simp [isHook, hr]
      · rw [ignoredLog_cons_user, h2]; simp
    | pass =>
      simp only [offers, hr] at h ⊢
      obtain ⟨h1, h2, h3⟩ := ih S T h
      refine ⟨?_, ?_, offeredSig_cons_user _ _ _ (Or.inl h3)⟩
      · rw [hooked_cons, h1]; simp [isHook, hr]
      · rw [ignoredLog_cons_user, h2]; simp
    | none =>
      simp only [offers, hr] at h ⊢
      obtain ⟨h1, h2, h3⟩ := ih S T h
      refine ⟨?_, ?_, offeredSig_cons_user _ _ _ (Or.inl h3)⟩
      · rw [hooked_cons, h1]; simp [isHook, hr]
      · rw [ignoredLog_cons_user, h2]; simp

/-- the event was handled internally: some offer was hooked -/
theorem offers_handled (c : Chart) (n : Nat) : ∀ (cur s : St), (offers c n cur).2 = .handled s →
    hooked c (offers c n cur).1 = true := by
  intro cur
  induction cur with
  | nil => intro s h; simp [offers] at h
  | cons a p ih =>
    intro s h
    cases hr : c.react (a :: p) n with
    | tran t => simp [offers, hr] at h
    | handled => simp [offers, hr, hooked, isHook]
    | unhandled =>
      simp only [offers, hr] at h ⊢
      have h1 := ih s h
      rw [hooked_cons, h1]; simp
    | pass =>
      simp only [offers, hr] at h ⊢
      have h1 := ih s h
      rw [hooked_cons, h1]; simp
    | none =>
      simp only [offers, hr] at h ⊢
      have h1 := ih s h
      rw [hooked_cons, h1]; simp

/-- nobody answered: every offer was declined or passed outward -/
theorem offers_ignored (c : Chart) (n : Nat) : ∀ (cur : St), (offers c n cur).2 = .ignored →
    hooked c (offers c n cur).1 = false ∧ ignoredLog c (offers c n cur).1 = true := by
  intro cur
  induction cur with
  | nil => intro _; simp [offers, hooked, ignoredLog]
  | cons a p ih =>
    intro h
    cases hr : c.react (a :: p) n with
    | tran t => simp [offers, hr] at h
    | handled => simp [offers, hr] at h
    | unhandled =>
      simp only [offers, hr] at h ⊢
      obtain ⟨h1, h2⟩ := ih h
      constructor
      · rw [hooked_cons, h1]; simp [isHook, hr]
      · rw [ignoredLog_cons_user, h2]; simp [hr]
    | pass =>
      simp only [offers, hr] at h ⊢
      obtain ⟨h1, h2⟩ := ih h
      constructor
      · rw [hooked_cons, h1]; simp [isHook, hr]
      · rw [ignoredLog_cons_user, h2]; simp [hr]
    | none =>
      simp only [offers, hr] at h ⊢
      obtain ⟨h1, h2⟩ := ih h
      constructor
      · rw [hooked_cons, h1]; simp [isHook, hr]
      · rw [ignoredLog_cons_user, h2]; simp [hr]

/-- the records of a step, from the spec's answer -/
theorem nextRecs_of_answer (c : Chart) (g : Cfg) (cur : St) (n : Nat) (r : Res)
    (h : dispatch c g cur n = .ok r) :
    nextRecs c cur r =
      match (offers c n cur).2 with
      | .tran _ _ => [⟨cur, some n, r.state⟩]
      | .handled _ => []
      | .ignored => [] := by
  have hu := dispatch_user_calls c g cur n r h
  unfold nextRecs
  rw [hooked_ucalls, ignoredLog_ucalls, offeredSig_ucalls]
  change ite (_ = true) _ _ = _
  rw [show ucalls r.log = (offers c n cur).1 from hu]
  cases ha : (offers c n cur).2 with
  | tran S T =>
    obtain ⟨h1, h2, h3⟩ := offers_tran c n cur S T ha
    simp [h1, h2, h3]
  | handled s =>
    simp [offers_handled c n cur s ha]
  | ignored =>
    obtain ⟨h1, h2⟩ := offers_ignored c n cur ha
    simp [h1, h2]

/-! ### one instrumented step, field by field -/

/-- the queue state a step starts from: head popped, recorded as dispatched, new current state -/
def popQ (s : QState) (e : Ev) (rest : List Ev) (r : Res) : QState :=
  { s with q := rest, dispatched := s.dispatched ++ [e], cur := r.state }

/-- the queue state `start_at` starts from: the current state is already the resting state -/
def withCur (s : QState) (cur : St) : QState := { s with cur := cur }

theorem iNext_nil (caps : Caps) (qc : QChart) (g : Cfg) (st : IState) (hq : st.q.q = []) :
    iNext caps qc g st = some { st with
      rtcSpy := [reflLine st.q],
      fullSpy := ring caps.spy (st.fullSpy ++ [reflLine st.q]),
      liveSpy := st.liveSpy ++ [reflLine st.q] } := by
  unfold iNext; simp only [hq]

theorem iNext_cons (caps : Caps) (qc : QChart) (g : Cfg) (st : IState) (e : Ev) (rest : List Ev) (r : Res)
    (hq : st.q.q = e :: rest) (hd : dispatch qc.chart g st.q.cur e.sig = .ok r) :
    iNext caps qc g st = some { st with
      q := (logLines qc (popQ st.q e rest r) r.log).2,
      rtcSpy := ring caps.rtc (ring caps.rtc (logLines qc (popQ st.q e rest r) r.log).1 ++
        [reflLine (logLines qc (popQ st.q e rest r) r.log).2]),
      fullSpy := ring caps.spy (ring caps.spy (st.fullSpy ++
          ring caps.rtc (logLines qc (popQ st.q e rest r) r.log).1) ++
        [reflLine (logLines qc (popQ st.q e rest r) r.log).2]),
      trace := ring caps.trc (st.trace ++ nextRecs qc.chart st.q.cur r),
      liveSpy := st.liveSpy ++ ring caps.rtc (ring caps.rtc (logLines qc (popQ st.q e rest r) r.log).1 ++
        [reflLine (logLines qc (popQ st.q e rest r) r.log).2]),
      liveTrace := st.liveTrace ++ nextRecs qc.chart st.q.cur r } := by
  unfold iNext; simp only [hq, hd]; rfl

theorem iNext_fail (caps : Caps) (qc : QChart) (g : Cfg) (st : IState) (e : Ev) (rest : List Ev)
    (hq : st.q.q = e :: rest) (hd : ∀ r, dispatch qc.chart g st.q.cur e.sig ≠ .ok r) :
    iNext caps qc g st = none := by
  unfold iNext; simp only [hq]

theorem iStart_ok (caps : Caps) (qc : QChart) (g : Cfg) (st : IState) (target : St) (r : Res)
    (hs : startAt qc.chart g target = .ok r) :
    iStart caps qc g st target = some { st with
      q := (logLines qc (withCur st.q r.state) r.log).2,
      rtcSpy := ring caps.rtc (ring caps.rtc (st.rtcSpy ++ [Line.start] ++
          (logLines qc (withCur st.q r.state) r.log).1) ++
        [reflLine (logLines qc (withCur st.q r.state) r.log).2]),
      fullSpy := ring caps.spy (ring caps.spy (st.fullSpy ++ ring caps.rtc (st.rtcSpy ++ [Line.start] ++
          (logLines qc (withCur st.q r.state) r.log).1)) ++
        [reflLine (logLines qc (withCur st.q r.state) r.log).2]),
      trace := ring caps.trc (st.trace ++ startRecs caps r),
      liveSpy := st.liveSpy ++ ring caps.rtc (ring caps.rtc (st.rtcSpy ++ [Line.start] ++
          (logLines qc (withCur st.q r.state) r.log).1) ++
        [reflLine (logLines qc (withCur st.q r.state) r.log).2]),
      liveTrace := st.liveTrace ++ startRecs caps r,
      started := true } := by
  unfold iStart; simp only [hs]; rfl

theorem iStart_fail (caps : Caps) (qc : QChart) (g : Cfg) (st : IState) (target : St)
    (hs : ∀ r, startAt qc.chart g target ≠ .ok r) : iStart caps qc g st target = none := by
  unfold iStart
  split
  · exact absurd ‹_› (hs _)
  · rfl

/-! ### runs of operations -/

/-- what a client does with an instrumented queued chart -/
inductive IOp
  | start (target : St)     -- `start_at(target)`
  | post (e : Eff)          -- a client `post_fifo` / `post_lifo` / `defer` / `recall` / `scribble` between steps
  | next                    -- `next_rtc()`
deriving DecidableEq, Repr

def iStep (caps : Caps) (qc : QChart) (g : Cfg) (st : IState) : IOp → Option IState
  | .start t => iStart caps qc g st t
  | .post e => some (clientPost caps st e)
  | .next => iNext caps qc g st

def iRun (caps : Caps) (qc : QChart) (g : Cfg) : IState → List IOp → Option IState
  | st, [] => some st
  | st, op :: rest =>
    match iStep caps qc g st op with
    | some st1 => iRun caps qc g st1 rest
    | none => none

/-- the same operation on the un-instrumented queued chart (layer 2) -/
def qStep (qc : QChart) (g : Cfg) (s : QState) : IOp → Option QState
  | .start t =>
    match startQ qc g s t with
    | .stepped s1 _ => some s1
    | .idle s1 => some s1
    | .failed => none
  | .post e => some (applyEff s e)
  | .next =>
    match nextRtc qc g s with
    | .idle s1 => some s1
    | .stepped s1 _ => some s1
    | .failed => none

def qRun (qc : QChart) (g : Cfg) : QState → List IOp → Option QState
  | s, [] => some s
  | s, op :: rest =>
    match qStep qc g s op with
    | some s1 => qRun qc g s1 rest
    | none => none

/-- the layer-2 client operation (`Miros.Queue.Op`) an `IOp` is, when layer 2 has it
(`start_at` and client scribbles are not `Op`s) -/
def IOp.toOp : IOp → Option Op
  | .post (.fifo sg) => some (.postFifo sg)
  | .post (.lifo sg) => some (.postLifo sg)
  | .post (.defer sg) => some (.defer sg)
  | .post .recall => some .recall
  | .next => some .nextRtc
  | _ => none

theorem qStep_eq_stepOp (qc : QChart) (g : Cfg) (s : QState) (op : IOp) (o : Op) (h : op.toOp = some o) :
    qStep qc g s op = stepOp qc g s o := by
  cases op with
  | start t => simp [IOp.toOp] at h
  | next => simp only [IOp.toOp, Option.some.injEq] at h; subst h; rfl
  | post e =>
    cases e <;> simp only [IOp.toOp, Option.some.injEq, reduceCtorEq] at h <;> subst h <;> rfl

theorem qRun_eq_runOps (qc : QChart) (g : Cfg) : ∀ (ops : List IOp) (os : List Op) (s : QState),
    ops.map IOp.toOp = os.map some → qRun qc g s ops = runOps qc g s os := by
  intro ops
  induction ops with
  | nil => intro os s h; cases os with | nil => rfl | cons _ _ => simp at h
  | cons op rest ih =>
    intro os s h
    cases os with
    | nil => simp at h
    | cons o os =>
      simp only [List.map_cons, List.cons.injEq] at h
      simp only [qRun, runOps, qStep_eq_stepOp qc g s op o h.1]
      cases stepOp qc g s o with
      | none => rfl
      | some s1 => exact ih os s1 h.2

/-- the queue component of an instrumented step is the layer-2 step -/
theorem iStep_q (caps : Caps) (qc : QChart) (g : Cfg) (st : IState) (op : IOp) :
    (iStep caps qc g st op).map IState.q = qStep qc g st.q op := by
  cases op with
  | post e =>
    simp only [iStep, qStep, clientPost, Option.map_some, Option.some.injEq]
    show (effsLines st.q [e]).2 = _
    rw [effsLines_state]; rfl
  | start t =>
    simp only [iStep, qStep, startQ]
    cases hs : startAt qc.chart g t with
    | ok r => rw [iStart_ok caps qc g st t r hs]; simp [logLines_state, withCur]
    | raise l => rw [iStart_fail caps qc g st t (by intro r; rw [hs]; simp)]; rfl
    | diverge l => rw [iStart_fail caps qc g st t (by intro r; rw [hs]; simp)]; rfl
  | next =>
    simp only [iStep, qStep]
    cases hq : st.q.q with
    | nil => rw [iNext_nil caps qc g st hq, nextRtc_nil qc g st.q hq]; rfl
    | cons e rest =>
      cases hd : dispatch qc.chart g st.q.cur e.sig with
      | ok r =>
        rw [iNext_cons caps qc g st e rest r hq hd, nextRtc_cons qc g st.q e rest r hq hd]
        simp [logLines_state, popQ]
      | raise l =>
        rw [iNext_fail caps qc g st e rest hq (by intro r; rw [hd]; simp)]
        simp [nextRtc, hq, hd]
      | diverge l =>
        rw [iNext_fail caps qc g st e rest hq (by intro r; rw [hd]; simp)]
        simp [nextRtc, hq, hd]

theorem iRun_q (caps : Caps) (qc : QChart) (g : Cfg) : ∀ (ops : List IOp) (st : IState),
    (iRun caps qc g st ops).map IState.q = qRun qc g st.q ops := by
  intro ops
  induction ops with
  | nil => intro st; rfl
  | cons op rest ih =>
    intro st
    have h := iStep_q caps qc g st op
    simp only [iRun, qRun]
    cases hs : iStep caps qc g st op with
    | none => rw [hs] at h; simp only [Option.map_none] at h; rw [← h]; rfl
    | some st1 =>
      rw [hs] at h; simp only [Option.map_some] at h; rw [← h]
      exact ih st1

/-! ### what a step contributes to the full spy, the trace and the live streams -/

/-- lines a step appends to the full spy (before the `spyCap` truncation): its per-step ring as it
stood before the reflection, then the reflection line -/
def spyContrib (caps : Caps) (qc : QChart) (g : Cfg) (st : IState) : IOp → List Line
  | .post _ => []
  | .start t =>
    match startAt qc.chart g t with
    | .ok r =>
      ring caps.rtc (st.rtcSpy ++ [Line.start] ++ (logLines qc (withCur st.q r.state) r.log).1) ++
        [reflLine (logLines qc (withCur st.q r.state) r.log).2]
    | _ => []
  | .next =>
    match st.q.q with
    | [] => [reflLine st.q]
    | e :: rest =>
      match dispatch qc.chart g st.q.cur e.sig with
      | .ok r =>
        ring caps.rtc (logLines qc (popQ st.q e rest r) r.log).1 ++
          [reflLine (logLines qc (popQ st.q e rest r) r.log).2]
      | _ => []

/-- trace records a step appends (before the `trcCap` truncation) -/
def stepRecs (caps : Caps) (qc : QChart) (g : Cfg) (st : IState) : IOp → List TraceRec
  | .post _ => []
  | .start t =>
    match startAt qc.chart g t with
    | .ok r => startRecs caps r
    | _ => []
  | .next =>
    match st.q.q with
    | [] => []
    | e :: _ =>
      match dispatch qc.chart g st.q.cur e.sig with
      | .ok r => nextRecs qc.chart st.q.cur r
      | _ => []

/-- lines a step hands to the live-spy callback: the step log (`rtc.spy`) it leaves behind;
client posts between steps hand over nothing -/
def stepLive (op : IOp) (st' : IState) : List Line :=
  match op with
  | .post _ => []
  | _ => st'.rtcSpy

/-- the stored rings respect their bounds (true of `iInit`, kept by every step) -/
def Bounded (caps : Caps) (st : IState) : Prop :=
  st.fullSpy.length ≤ caps.spy ∧ st.trace.length ≤ caps.trc

theorem Bounded.iInit (caps : Caps) (cap : Nat) : Bounded caps (iInit cap) := by
  simp [Bounded, Miros.Instr.iInit]

theorem iStep_fields (caps : Caps) (qc : QChart) (g : Cfg) (st st' : IState) (op : IOp)
    (hb : Bounded caps st) (h : iStep caps qc g st op = some st') :
    st'.fullSpy = ring caps.spy (st.fullSpy ++ spyContrib caps qc g st op) ∧
    st'.trace = ring caps.trc (st.trace ++ stepRecs caps qc g st op) ∧
    st'.liveTrace = st.liveTrace ++ stepRecs caps qc g st op ∧
    st'.liveSpy = st.liveSpy ++ stepLive op st' := by
  cases op with
  | post e =>
    simp only [iStep, Option.some.injEq] at h
    subst h
    simp only [clientPost, spyContrib, stepRecs, stepLive, List.append_nil]
    exact ⟨(ring_of_le _ _ hb.1).symm, (ring_of_le _ _ hb.2).symm, trivial, trivial⟩
  | start t =>
    simp only [iStep] at h
    cases hs : startAt qc.chart g t with
    | ok r =>
      rw [iStart_ok caps qc g st t r hs] at h
      simp only [Option.some.injEq] at h
      subst h
      simp only [spyContrib, stepRecs, stepLive, hs]
      refine ⟨?_, trivial, trivial, trivial⟩
      rw [ring_ring_append, List.append_assoc]
    | raise l => rw [iStart_fail caps qc g st t (by intro r; rw [hs]; simp)] at h; cases h
    | diverge l => rw [iStart_fail caps qc g st t (by intro r; rw [hs]; simp)] at h; cases h
  | next =>
    simp only [iStep] at h
    cases hq : st.q.q with
    | nil =>
      rw [iNext_nil caps qc g st hq] at h
      simp only [Option.some.injEq] at h
      subst h
      simp only [spyContrib, stepRecs, stepLive, hq, List.append_nil]
      exact ⟨trivial, (ring_of_le _ _ hb.2).symm, trivial, trivial⟩
    | cons e rest =>
      cases hd : dispatch qc.chart g st.q.cur e.sig with
      | ok r =>
        rw [iNext_cons caps qc g st e rest r hq hd] at h
        simp only [Option.some.injEq] at h
        subst h
        simp only [spyContrib, stepRecs, stepLive, hq, hd]
        refine ⟨?_, trivial, trivial, trivial⟩
        rw [ring_ring_append, List.append_assoc]
      | raise l => rw [iNext_fail caps qc g st e rest hq (by intro r; rw [hd]; simp)] at h; cases h
      | diverge l => rw [iNext_fail caps qc g st e rest hq (by intro r; rw [hd]; simp)] at h; cases h

theorem Bounded.iStep (caps : Caps) (qc : QChart) (g : Cfg) (st st' : IState) (op : IOp)
    (hb : Bounded caps st) (h : iStep caps qc g st op = some st') : Bounded caps st' := by
  obtain ⟨h1, h2, _, _⟩ := iStep_fields caps qc g st st' op hb h
  exact ⟨by rw [h1]; exact ring_length_le _ _, by rw [h2]; exact ring_length_le _ _⟩

/-- contributions of a whole run, in order -/
def runSpy (caps : Caps) (qc : QChart) (g : Cfg) : IState → List IOp → List Line
  | _, [] => []
  | st, op :: rest =>
    spyContrib caps qc g st op ++
      match iStep caps qc g st op with
      | some st1 => runSpy caps qc g st1 rest
      | none => []

def runRecs (caps : Caps) (qc : QChart) (g : Cfg) : IState → List IOp → List TraceRec
  | _, [] => []
  | st, op :: rest =>
    stepRecs caps qc g st op ++
      match iStep caps qc g st op with
      | some st1 => runRecs caps qc g st1 rest
      | none => []

def runLive (caps : Caps) (qc : QChart) (g : Cfg) : IState → List IOp → List Line
  | _, [] => []
  | st, op :: rest =>
    match iStep caps qc g st op with
    | some st1 => stepLive op st1 ++ runLive caps qc g st1 rest
    | none => []

theorem iRun_fields (caps : Caps) (qc : QChart) (g : Cfg) : ∀ (ops : List IOp) (st st' : IState),
    Bounded caps st → iRun caps qc g st ops = some st' →
    Bounded caps st' ∧
    st'.fullSpy = ring caps.spy (st.fullSpy ++ runSpy caps qc g st ops) ∧
    st'.trace = ring caps.trc (st.trace ++ runRecs caps qc g st ops) ∧
    st'.liveTrace = st.liveTrace ++ runRecs caps qc g st ops ∧
    st'.liveSpy = st.liveSpy ++ runLive caps qc g st ops := by
  intro ops
  induction ops with
  | nil =>
    intro st st' hb h
    simp only [iRun, Option.some.injEq] at h
    subst h
    simp only [runSpy, runRecs, runLive, List.append_nil]
    exact ⟨hb, (ring_of_le _ _ hb.1).symm, (ring_of_le _ _ hb.2).symm, trivial, trivial⟩
  | cons op rest ih =>
    intro st st' hb h
    simp only [iRun] at h
    cases hs : iStep caps qc g st op with
    | none => rw [hs] at h; cases h
    | some st1 =>
      rw [hs] at h
      simp only at h
      obtain ⟨f1, f2, f3, f4⟩ := iStep_fields caps qc g st st1 op hb hs
      obtain ⟨b, g1, g2, g3, g4⟩ := ih st1 st' (hb.iStep caps qc g st st1 op hs) h
      simp only [runSpy, runRecs, runLive, hs]
      refine ⟨b, ?_, ?_, ?_, ?_⟩
      · rw [g1, f1, ring_ring_append, List.append_assoc]
      · rw [g2, f2, ring_ring_append, List.append_assoc]
      · rw [g3, f3, List.append_assoc]
      · rw [g4, f4, List.append_assoc]

/-! ### a small concrete fixture for the non-vacuity examples of the property files -/
namespace Ex

/-- three states: `[1]` with children `[2,1]` and `[3,1]`.  In `[2,1]` signal 0 meets a guard that
declines (UNHANDLED) and bubbles to `[1]`, which handles it internally and posts signal 1;
signal 1 in `[2,1]` is a transition to `[3,1]`; signal 2 is ignored everywhere. Entering `[3,1]`
scribbles. -/
def qc1 : QChart :=
  { chart :=
      { react := fun s n =>
          if s = [2, 1] ∧ n = 0 then .unhandled
          else if s = [1] ∧ n = 0 then .handled
          else if s = [2, 1] ∧ n = 1 then .tran [3, 1]
          else .pass
        init := fun _ => none
        exitH := fun _ => true
        depth := 3
        fall := fun _ => false },
    eff := fun s sig =>
      if s = [1] ∧ sig = .user 0 then [.fifo 1]
      else if s = [3, 1] ∧ sig = .entry then [.scribble 7]
      else [] }

def g1 : Cfg := { resync := true, drillGuard := true, initGuard := true, superGuard := true }

/-- the real ring sizes are far larger than anything the fixture writes -/
def caps1 : Caps := { rtc := 250, spy := 500, trc := 500 }

/-- rings so small that the per-step ring overflows during `start_at` -/
def capsTiny : Caps := { rtc := 2, spy := 500, trc := 500 }

/-- start in `[2,1]`, post 0 (handled by `[1]` after the guard of `[2,1]` declined, posts 1),
step, step (1: transition), post 2, step (ignored) -/
def ops1 : List IOp := [.start [2, 1], .post (.fifo 0), .next, .next, .post (.fifo 2), .next]

end Ex

end Miros.Instr
