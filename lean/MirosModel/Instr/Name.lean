import MirosModel.Hsm.Model
/-!
# `state_name` / `state_fn` as a function of the call trace

The `spy_on` wrapper writes `chart.state_name = <name of the called state>` on every handler
invocation; `dispatch`, `start_at` (and, when repaired, `is_in` / `child_state`) write the name
of the current state explicitly at their end; the instrumented hosts call the current state
once more (REFLECTION_SIGNAL) afterwards.  The value read between steps is the last write.
-/
namespace Miros.Instr
open Miros.Hsm

/-- writes made by the decorator during a call trace -/
def nameWrites (spied : Bool) (log : Log) : List St := if spied then log.map (·.s) else []

/-- last element of a list, or the default -/
def lastOr (d : St) : List St → St
  | [] => d
  | x :: xs => lastOr x xs

/-- `state_name` after `is_in` / `child_state` -/
def nameAfterQuery (restores spied : Bool) (before cur : St) (log : Log) : St :=
  if restores then cur else lastOr before (nameWrites spied log)

/-- `state_name` after `start_at` / `dispatch`: decorator writes, then the processor's explicit
write of the final state, then the host's reflection calls `post` on spied charts -/
def nameAfterStep (spied : Bool) (before : St) (log : Log) (final : St) (post : List St) : St :=
  lastOr before (nameWrites spied log ++ [final] ++ (if spied then post else []))

end Miros.Instr
