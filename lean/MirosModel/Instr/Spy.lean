import MirosModel.Queue.Model
/-!
# Layer 3 — spy log, trace and live output of an instrumented queued chart

Everything here is a function of the layer-1/2 call trace of a step: the `spy_on` wrapper writes
`"SIG:state"` before calling the handler and `"SIG:state:HOOK"` after it when a non-inner signal was
answered HANDLED; posts / defers / recalls / scribbles made by the handler write their markers at
the position of the effect; `next_rtc` / `start_at` append the queue reflection last.
`rtc.spy` is a ring of `rtcCap` lines, `full.spy` a ring of `spyCap`, `full.trace` a ring of `trcCap`.
-/
namespace Miros.Instr
open Miros.Hsm Miros.Queue

inductive Line
  | start
  | call (s : St) (sig : Sig)
  | hook (s : St) (n : Nat)
  | postFifo (sig : Nat) | postLifo (sig : Nat) | postDeferred (sig : Nat) | recall (sig : Nat)
  | scribble (id : Nat)
  | refl (q d : Nat)            -- "<- Queued:(q) Deferred:(d)"
deriving DecidableEq, Repr

/-- `collections.deque(maxlen=cap)`: keep the most recent `cap` entries -/
def ring {α : Type} (cap : Nat) (l : List α) : List α := l.drop (l.length - cap)

/-- markers written by one effect, in the queue state it meets -/
def effLines (s : QState) : Eff → List Line
  | .fifo sg => [.postFifo sg]
  | .lifo sg => [.postLifo sg]
  | .defer sg => [.postDeferred sg]
  | .recall =>
    match s.dq with
    | [] => []
    | e :: _ => [.recall e.sig, .postFifo e.sig]     -- RECALL:… then the post_fifo inside recall()
  | .scribble i => [.scribble i]

/-- lines and queue state after the effects of one handler call -/
def effsLines (s : QState) : List Eff → List Line × QState
  | [] => ([], s)
  | e :: rest =>
    let l := effLines s e
    let (l2, s2) := effsLines (applyEff s e) rest
    (l ++ l2, s2)

/-- is the call a hook (non-inner signal answered HANDLED)? -/
def isHook (c : Chart) (call : Call) : Option Nat :=
  match call.sig with
  | .user n => if c.react call.s n = .handled then some n else none
  | _ => none

/-- spy lines of a call trace, threading the queue state through the handlers' effects -/
def logLines (qc : QChart) : QState → Log → List Line × QState
  | s, [] => ([], s)
  | s, call :: rest =>
    let (el, s1) := effsLines s (qc.eff call.s call.sig)
    let hk := match isHook qc.chart call with | some n => [Line.hook call.s n] | none => []
    let (rl, s2) := logLines qc s1 rest
    (Line.call call.s call.sig :: el ++ hk ++ rl, s2)

/-- a trace record -/
structure TraceRec where
  startState : St
  signal : Option Nat      -- none = the start_at record
  endState : St
deriving DecidableEq, Repr

/-- instrumentation state of a queued chart -/
structure IState where
  q : QState
  rtcSpy : List Line
  fullSpy : List Line
  trace : List TraceRec
  liveSpy : List Line          -- everything handed to the live-spy callback so far
  liveTrace : List TraceRec    -- everything handed to the live-trace callback so far
  started : Bool
deriving Repr

structure Caps where
  rtc : Nat
  spy : Nat
  trc : Nat

def reflLine (s : QState) : Line := .refl s.q.length s.dq.length

/-- was some user-signal call of the step answered HANDLED (`is_signal_hooked`), and which signal was offered -/
def hooked (c : Chart) (log : Log) : Bool := log.any fun call => (isHook c call).isSome

def offeredSig (log : Log) : Option Nat :=
  (log.filterMap fun call => match call.sig with | .user n => some n | _ => none).getLast?

/-- client posts between steps write their marker into `rtc.spy` only -/
def clientPost (caps : Caps) (st : IState) (e : Eff) : IState :=
  let (l, q') := effsLines st.q [e]
  { st with q := q', rtcSpy := ring caps.rtc (st.rtcSpy ++ l) }

/-- `start_at` of an instrumented queued chart -/
def iStart (caps : Caps) (qc : QChart) (g : Cfg) (st : IState) (target : St) : Option IState :=
  match startAt qc.chart g target with
  | .ok r =>
    let (ll, q1) := logLines qc { st.q with cur := r.state } r.log
    let rtc1 := ring caps.rtc (st.rtcSpy ++ [Line.start] ++ ll)
    let full1 := ring caps.spy (st.fullSpy ++ rtc1)
    let rf := reflLine q1
    let rtc2 := ring caps.rtc (rtc1 ++ [rf])
    let full2 := ring caps.spy (full1 ++ [rf])
    -- the start marker tuple must still be in the 250-entry tuple ring: 1 + number of handler calls ≤ rtcCap
    let rec_ := if r.log.length + 1 ≤ caps.rtc then [(⟨[], none, r.state⟩ : TraceRec)] else []
    some { st with q := q1, rtcSpy := rtc2, fullSpy := full2, trace := ring caps.trc (st.trace ++ rec_),
                   liveSpy := st.liveSpy ++ rtc2, liveTrace := st.liveTrace ++ rec_, started := true }
  | _ => none

/-- `next_rtc` of an instrumented queued chart -/
def iNext (caps : Caps) (qc : QChart) (g : Cfg) (st : IState) : Option IState :=
  match st.q.q with
  | [] =>
    let rf := reflLine st.q
    some { st with rtcSpy := [rf], fullSpy := ring caps.spy (st.fullSpy ++ [rf]), liveSpy := st.liveSpy ++ [rf] }
  | e :: rest =>
    match dispatch qc.chart g st.q.cur e.sig with
    | .ok r =>
      let q0 : QState := { st.q with q := rest, dispatched := st.q.dispatched ++ [e], cur := r.state }
      let (ll, q1) := logLines qc q0 r.log
      let rtc1 := ring caps.rtc ll
      let full1 := ring caps.spy (st.fullSpy ++ rtc1)
      let rf := reflLine q1
      let rtc2 := ring caps.rtc (rtc1 ++ [rf])
      let full2 := ring caps.spy (full1 ++ [rf])
      let ignored := r.log.all fun call => match call.sig with
        | .user n => decide (qc.chart.react call.s n ≠ .handled) && !(match qc.chart.react call.s n with | .tran _ => true | _ => false)
        | _ => true
      let rec_ : List TraceRec :=
        if !hooked qc.chart r.log && !ignored then [⟨st.q.cur, offeredSig r.log, r.state⟩] else []
      some { st with q := q1, rtcSpy := rtc2, fullSpy := full2, trace := ring caps.trc (st.trace ++ rec_),
                     liveSpy := st.liveSpy ++ rtc2, liveTrace := st.liveTrace ++ rec_ }
    | _ => none

def iInit (cap : Nat) : IState :=
  { q := { cap := cap, q := [], dq := [], cur := [], next := 0, dispatched := [] },
    rtcSpy := [], fullSpy := [], trace := [], liveSpy := [], liveTrace := [], started := false }

end Miros.Instr
