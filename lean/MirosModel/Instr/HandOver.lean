/-!
# The live-spy hand-over when the callback registers another callback (`HandOver`)

After a step the decorator `print_spy_after_rtc_if_live` of `miros/hsm.py` hands the step's spy
lines to the live-spy callback:

```
result = fn(self)
if self.instrumented and self.live_spy:
    for line in list(self.rtc.spy):
        self.live_spy_callback(line)          # the attribute is read at EVERY iteration
return result
```

and `register_live_spy_callback(cb)` is `self.live_spy_callback = cb`.  A callback may replace
itself while it is being handed a line (`chart.register_live_spy_callback(other)`: a sink that
rotates on a marker line, a capture callback that unregisters itself).  Because the attribute is
read for every line, the lines that follow go to the newly registered callback.

`Tags.readEachLine = true` is that source.  `readEachLine = false` is a seeded change
(`cb = self.live_spy_callback` once before the loop, then `cb(line)`): the rest of the step's lines
go to the replaced callback.

A sink (callback) and a line are numbers.  What a sink does when it is handed a line is given by a
`Behaviour`: it may register another sink (`some k'`) or not (`none`).  `S.handed` is the ghost log
of every hand-over so far, in order: (sink that was called, line).  The model is sequential.
-/
namespace Miros.Instr.HandOver

structure Tags where
  /-- true = current source: `self.live_spy_callback` is read for every line -/
  readEachLine : Bool
  deriving DecidableEq, Repr

abbrev Sink := Nat
abbrev Line := Nat

/-- what a sink does when handed a line: maybe register another sink -/
abbrev Behaviour := Sink → Line → Option Sink

structure S where
  /-- `chart.live_spy_callback` -/
  registered : Sink
  /-- every call of a live-spy callback so far, in order: (the sink called, the line) -/
  handed : List (Sink × Line)
  deriving DecidableEq, Repr

/-- a chart on which sink `k` is registered and nothing was handed over yet -/
def S.init (k : Sink) : S := ⟨k, []⟩

/-- sink `k` is called with line `l`: the call is logged, and if the sink registers another one,
`chart.live_spy_callback` is replaced -/
def handLine (b : Behaviour) (k : Sink) (s : S) (l : Line) : S :=
  ⟨(b k l).getD s.registered, s.handed ++ [(k, l)]⟩

/-- current source: for each line the registered sink is read NOW and called -/
def handEach (b : Behaviour) (s : S) : List Line → S
  | [] => s
  | l :: r => handEach b (handLine b s.registered s l) r

/-- seeded change: every line is handed to `k0`, the sink read once before the loop -/
def handOnce (b : Behaviour) (k0 : Sink) (s : S) : List Line → S
  | [] => s
  | l :: r => handOnce b k0 (handLine b k0 s l) r

/-- the hand-over of one step's spy lines -/
def handOver (t : Tags) (b : Behaviour) (s : S) (lines : List Line) : S :=
  if t.readEachLine then handEach b s lines else handOnce b s.registered s lines

/-- several steps in a row, one list of lines per step -/
def runSteps (t : Tags) (b : Behaviour) (s : S) : List (List Line) → S
  | [] => s
  | ls :: r => runSteps t b (handOver t b s ls) r

/-- what happens to the chart: a step that produced these lines, or (between steps) the client
calls `register_live_spy_callback(k)` -/
inductive Op where
  | step (lines : List Line)
  | register (k : Sink)
  deriving DecidableEq, Repr

def applyOp (t : Tags) (b : Behaviour) (s : S) : Op → S
  | .step ls => handOver t b s ls
  | .register k => { s with registered := k }

def runOps (t : Tags) (b : Behaviour) (s : S) : List Op → S
  | [] => s
  | o :: r => runOps t b (applyOp t b s o) r

/-! ### the reference: what was produced, and who was registered -/

/-- the lines of one op -/
def Op.lines : Op → List Line
  | .step ls => ls
  | .register _ => []

/-- all lines produced by the steps of an op list, in production order -/
def linesOf : List Op → List Line
  | [] => []
  | o :: r => o.lines ++ linesOf r

/-- the sink registered after sink `k` was handed line `l` while it was the registered one -/
def regNext (b : Behaviour) (k : Sink) (l : Line) : Sink := (b k l).getD k

/-- the registered sink before each line of one step, when `k` is registered at its start and each
line goes to the sink registered at that moment -/
def regTraceLines (b : Behaviour) (k : Sink) : List Line → List Sink
  | [] => []
  | l :: r => k :: regTraceLines b (regNext b k l) r

/-- the sink registered after such a step -/
def regAfterLines (b : Behaviour) (k : Sink) : List Line → Sink
  | [] => k
  | l :: r => regAfterLines b (regNext b k l) r

/-- the registered sink before each line of an op list, `k` registered at its start -/
def regTrace (b : Behaviour) (k : Sink) : List Op → List Sink
  | [] => []
  | .step ls :: r => regTraceLines b k ls ++ regTrace b (regAfterLines b k ls) r
  | .register k' :: r => regTrace b k' r

/-- the sink registered after the op list -/
def regAfter (b : Behaviour) (k : Sink) : List Op → Sink
  | [] => k
  | .step ls :: r => regAfter b (regAfterLines b k ls) r
  | .register k' :: r => regAfter b k' r

/-- a behaviour given by a rule table (sink, line, new sink): the first matching rule decides -/
def ruleB (rules : List (Sink × Line × Sink)) : Behaviour := fun k l =>
  (rules.find? fun r => r.1 == k && r.2.1 == l).map fun r => r.2.2

end Miros.Instr.HandOver
