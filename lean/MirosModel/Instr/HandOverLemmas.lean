import MirosModel.Instr.HandOver
/-! Lemmas about `Miros.Instr.HandOver` (the live-spy hand-over with a re-registering callback). -/
namespace Miros.Instr.HandOver

@[simp] theorem handLine_registered (b : Behaviour) (k : Sink) (s : S) (l : Line) :
    (handLine b k s l).registered = (b k l).getD s.registered := rfl

@[simp] theorem handLine_handed (b : Behaviour) (k : Sink) (s : S) (l : Line) :
    (handLine b k s l).handed = s.handed ++ [(k, l)] := rfl

theorem handOver_each (b : Behaviour) (s : S) (ls : List Line) :
    handOver ⟨true⟩ b s ls = handEach b s ls := rfl

theorem handOver_once (b : Behaviour) (s : S) (ls : List Line) :
    handOver ⟨false⟩ b s ls = handOnce b s.registered s ls := rfl

/-! ### the loops, split -/

theorem handEach_append (b : Behaviour) (s : S) (xs ys : List Line) :
    handEach b s (xs ++ ys) = handEach b (handEach b s xs) ys := by
  induction xs generalizing s with
  | nil => rfl
  | cons l r ih => exact ih _

theorem handOnce_append (b : Behaviour) (k0 : Sink) (s : S) (xs ys : List Line) :
    handOnce b k0 s (xs ++ ys) = handOnce b k0 (handOnce b k0 s xs) ys := by
  induction xs generalizing s with
  | nil => rfl
  | cons l r ih => exact ih _

theorem runOps_append (t : Tags) (b : Behaviour) (s : S) (xs ys : List Op) :
    runOps t b s (xs ++ ys) = runOps t b (runOps t b s xs) ys := by
  induction xs generalizing s with
  | nil => rfl
  | cons o r ih => exact ih _

theorem runOps_cons (t : Tags) (b : Behaviour) (s : S) (o : Op) (r : List Op) :
    runOps t b s (o :: r) = runOps t b (applyOp t b s o) r := rfl

theorem runSteps_eq_runOps (t : Tags) (b : Behaviour) (s : S) (steps : List (List Line)) :
    runSteps t b s steps = runOps t b s (steps.map Op.step) := by
  induction steps generalizing s with
  | nil => rfl
  | cons ls r ih => exact ih _

/-! ### what the reference functions look like -/

@[simp] theorem regTraceLines_length (b : Behaviour) (k : Sink) (ls : List Line) :
    (regTraceLines b k ls).length = ls.length := by
  induction ls generalizing k with
  | nil => rfl
  | cons l r ih => simp [regTraceLines, ih]

theorem regTrace_length (b : Behaviour) (k : Sink) (ops : List Op) :
    (regTrace b k ops).length = (linesOf ops).length := by
  induction ops generalizing k with
  | nil => rfl
  | cons o r ih =>
    cases o with
    | step ls => simp [regTrace, linesOf, Op.lines, ih]
    | register k' => simp [regTrace, linesOf, Op.lines, ih]

theorem linesOf_append (xs ys : List Op) : linesOf (xs ++ ys) = linesOf xs ++ linesOf ys := by
  induction xs with
  | nil => rfl
  | cons o r ih => simp [linesOf, ih]

theorem linesOf_steps (steps : List (List Line)) : linesOf (steps.map Op.step) = steps.flatten := by
  induction steps with
  | nil => rfl
  | cons ls r ih => simp [linesOf, Op.lines, ih]

/-! ### the current source: each line to the sink registered at that moment -/

/-- the complete log of the per-line loop -/
theorem handEach_handed (b : Behaviour) (s : S) (ls : List Line) :
    (handEach b s ls).handed = s.handed ++ (regTraceLines b s.registered ls).zip ls := by
  induction ls generalizing s with
  | nil => simp [handEach, regTraceLines]
  | cons l r ih =>
    rw [handEach, ih]
    simp [regTraceLines, regNext]

theorem handEach_registered (b : Behaviour) (s : S) (ls : List Line) :
    (handEach b s ls).registered = regAfterLines b s.registered ls := by
  induction ls generalizing s with
  | nil => rfl
  | cons l r ih =>
    rw [handEach, ih]
    simp [regAfterLines, regNext]

theorem runOps_each_registered (b : Behaviour) (s : S) (ops : List Op) :
    (runOps ⟨true⟩ b s ops).registered = regAfter b s.registered ops := by
  induction ops generalizing s with
  | nil => rfl
  | cons o r ih =>
    cases o with
    | step ls => rw [runOps_cons, ih]; simp [applyOp, handOver_each, handEach_registered, regAfter]
    | register k => rw [runOps_cons, ih]; simp [applyOp, regAfter]

/-- the complete log of a run of the current source -/
theorem runOps_each_handed (b : Behaviour) (s : S) (ops : List Op) :
    (runOps ⟨true⟩ b s ops).handed =
      s.handed ++ (regTrace b s.registered ops).zip (linesOf ops) := by
  induction ops generalizing s with
  | nil => simp [runOps, regTrace, linesOf]
  | cons o r ih =>
    cases o with
    | step ls =>
      rw [runOps_cons, ih]
      simp only [applyOp, handOver_each, handEach_handed, handEach_registered, regTrace, linesOf,
        Op.lines]
      rw [List.zip_append (regTraceLines_length b s.registered ls), List.append_assoc]
    | register k =>
      rw [runOps_cons, ih]
      simp [applyOp, regTrace, linesOf, Op.lines]

/-! ### the seeded change: the whole step to the sink read before the loop -/

theorem handOnce_handed (b : Behaviour) (k0 : Sink) (s : S) (ls : List Line) :
    (handOnce b k0 s ls).handed = s.handed ++ ls.map fun l => (k0, l) := by
  induction ls generalizing s with
  | nil => simp [handOnce]
  | cons l r ih => rw [handOnce, ih]; simp

/-! ### both tags: the lines, each once, in order -/

theorem handOver_lines (t : Tags) (b : Behaviour) (s : S) (ls : List Line) :
    (handOver t b s ls).handed.map Prod.snd = s.handed.map Prod.snd ++ ls := by
  cases t with
  | mk r =>
    cases r with
    | true =>
      rw [handOver_each, handEach_handed, List.map_append, List.map_snd_zip]
      simp
    | false =>
      rw [handOver_once, handOnce_handed, List.map_append, List.map_map]
      congr 1
      induction ls with
      | nil => rfl
      | cons l r ih => simp [ih]

theorem runOps_lines (t : Tags) (b : Behaviour) (s : S) (ops : List Op) :
    (runOps t b s ops).handed.map Prod.snd = s.handed.map Prod.snd ++ linesOf ops := by
  induction ops generalizing s with
  | nil => simp [runOps, linesOf]
  | cons o r ih =>
    cases o with
    | step ls => rw [runOps_cons, ih]; simp [applyOp, handOver_lines, linesOf, Op.lines]
    | register k => rw [runOps_cons, ih]; simp [applyOp, linesOf, Op.lines]

/-- the log only grows -/
theorem handOver_handed_prefix (t : Tags) (b : Behaviour) (s : S) (ls : List Line) :
    ∃ ext, (handOver t b s ls).handed = s.handed ++ ext := by
  cases t with
  | mk r =>
    cases r with
    | true => exact ⟨_, by rw [handOver_each, handEach_handed]⟩
    | false => exact ⟨_, by rw [handOver_once, handOnce_handed]⟩

theorem runOps_handed_prefix (t : Tags) (b : Behaviour) (s : S) (ops : List Op) :
    ∃ ext, (runOps t b s ops).handed = s.handed ++ ext := by
  induction ops generalizing s with
  | nil => exact ⟨[], by simp [runOps]⟩
  | cons o r ih =>
    obtain ⟨e2, h2⟩ := ih (applyOp t b s o)
    cases o with
    | step ls =>
      obtain ⟨e1, h1⟩ := handOver_handed_prefix t b s ls
      refine ⟨e1 ++ e2, ?_⟩
      rw [runOps_cons, h2]; simp [applyOp, h1]
    | register k => exact ⟨e2, by rw [runOps_cons, h2]; simp [applyOp]⟩

/-! ### steps without lines -/

theorem handOver_nil (t : Tags) (b : Behaviour) (s : S) : handOver t b s [] = s := by
  cases t with
  | mk r => cases r <;> rfl

theorem runOps_empty_steps (t : Tags) (b : Behaviour) (s : S) (mid : List Op)
    (h : ∀ o ∈ mid, o = Op.step []) : runOps t b s mid = s := by
  induction mid generalizing s with
  | nil => rfl
  | cons o r ih =>
    have ho : o = Op.step [] := h o (by simp)
    subst ho
    rw [runOps_cons]
    simp only [applyOp, handOver_nil]
    exact ih s fun o ho => h o (by simp [ho])

/-! ### without re-registration the two loops agree -/

theorem handEach_eq_handOnce (b : Behaviour) (hb : ∀ k l, b k l = none) (s : S) (ls : List Line) :
    handEach b s ls = handOnce b s.registered s ls := by
  induction ls generalizing s with
  | nil => rfl
  | cons l r ih =>
    rw [handEach, handOnce, ih]
    simp [hb]

theorem handOver_noreg_same (b : Behaviour) (hb : ∀ k l, b k l = none) (s : S) (ls : List Line) :
    handOver ⟨false⟩ b s ls = handOver ⟨true⟩ b s ls := by
  rw [handOver_each, handOver_once, handEach_eq_handOnce b hb]

theorem runOps_noreg_same (b : Behaviour) (hb : ∀ k l, b k l = none) (s : S) (ops : List Op) :
    runOps ⟨false⟩ b s ops = runOps ⟨true⟩ b s ops := by
  induction ops generalizing s with
  | nil => rfl
  | cons o r ih =>
    cases o with
    | step ls => rw [runOps_cons, runOps_cons, ih]; simp [applyOp, handOver_noreg_same b hb]
    | register k => rw [runOps_cons, runOps_cons, ih]; simp [applyOp]

/-! ### the line after a registration -/

/-- the per-line loop on two consecutive lines, the first of which makes the sink register `k'` -/
theorem handEach_two (b : Behaviour) (s : S) (l l' : Line) (rest : List Line) (k' : Sink)
    (h : b s.registered l = some k') :
    ∃ ext, (handEach b s (l :: l' :: rest)).handed =
      s.handed ++ (s.registered, l) :: (k', l') :: ext := by
  refine ⟨(regTraceLines b (regNext b k' l') rest).zip rest, ?_⟩
  rw [handEach_handed]
  simp [regTraceLines, regNext, h]

end Miros.Instr.HandOver
