import MirosModel.Queue.Model
/-! Lemmas for layer 2: bounds, placement, uniqueness of event objects. -/
namespace Miros.Queue
open Miros.Hsm

theorem pushBack_length_le (cap : Nat) (l : List Ev) (x : Ev) (h : l.length ≤ cap) (_hc : 0 < cap) :
    (pushBack cap l x).length ≤ cap := by
  unfold pushBack
  split
  · simp; omega
  · simp; omega

theorem pushFront_length_le (cap : Nat) (l : List Ev) (x : Ev) :
    (pushFront cap l x).length ≤ cap := by
  unfold pushFront
  split
  · simp; omega
  · simp [List.length_take]; omega

theorem pushBack_getLast (cap : Nat) (l : List Ev) (x : Ev) (hc : 0 < cap) :
    (pushBack cap l x).getLast? = some x := by
  unfold pushBack
  split
  · simp
  · have hlen : l.length + 1 - cap < (l ++ [x]).length := by simp; omega
    rw [List.getLast?_drop]
    simp
    omega

theorem pushFront_head (cap : Nat) (l : List Ev) (x : Ev) (hc : 0 < cap) :
    (pushFront cap l x).head? = some x := by
  unfold pushFront
  split
  · simp
  · cases cap with
    | zero => omega
    | succ n => simp [List.take]

theorem pushBack_not_full (cap : Nat) (l : List Ev) (x : Ev) (h : l.length < cap) :
    pushBack cap l x = l ++ [x] := by
  simp [pushBack, h]

theorem pushFront_not_full (cap : Nat) (l : List Ev) (x : Ev) (h : l.length < cap) :
    pushFront cap l x = x :: l := by
  simp [pushFront, h]

theorem mem_pushBack (cap : Nat) (l : List Ev) (x y : Ev) (h : y ∈ pushBack cap l x) : y ∈ l ∨ y = x := by
  unfold pushBack at h
  split at h
  · simpa using h
  · have := List.mem_of_mem_drop h
    simpa using this

theorem mem_pushFront (cap : Nat) (l : List Ev) (x y : Ev) (h : y ∈ pushFront cap l x) : y ∈ l ∨ y = x := by
  unfold pushFront at h
  split at h
  · simp at h; rcases h with h | h
    · exact Or.inr h
    · exact Or.inl h
  · have := List.mem_of_mem_take h
    simp at this; rcases this with h | h
    · exact Or.inr h
    · exact Or.inl h

theorem pushBack_sublist (cap : Nat) (l : List Ev) (x : Ev) : (pushBack cap l x).Sublist (l ++ [x]) := by
  unfold pushBack
  split
  · exact List.Sublist.refl _
  · exact List.drop_sublist _ _

theorem pushFront_sublist (cap : Nat) (l : List Ev) (x : Ev) : (pushFront cap l x).Sublist (x :: l) := by
  unfold pushFront
  split
  · exact List.Sublist.refl _
  · exact List.take_sublist _ _

/-! ### the invariant: bounded queues, every live event object is unique -/

/-- all event objects the chart currently knows, dispatched ones first -/
def live (s : QState) : List Ev := s.dispatched ++ s.q ++ s.dq

structure Inv (s : QState) : Prop where
  cap_pos : 0 < s.cap
  q_le : s.q.length ≤ s.cap
  dq_le : s.dq.length ≤ s.cap
  nodup : ((live s).map Ev.uid).Nodup
  fresh : ∀ e ∈ live s, e.uid < s.next

theorem nodup_of_sublist_append_fresh {l l' : List Ev} {n : Nat} (x : Ev)
    (hs : l'.Sublist (l ++ [x])) (hn : (l.map Ev.uid).Nodup) (hf : ∀ e ∈ l, e.uid < n) (hx : x.uid = n) :
    (l'.map Ev.uid).Nodup := by
  have h1 : ((l ++ [x]).map Ev.uid).Nodup := by
    rw [List.map_append, List.nodup_append]
    refine ⟨hn, by simp, ?_⟩
    intro a ha b hb
    simp at hb; subst hb
    obtain ⟨e, he, rfl⟩ := List.mem_map.mp ha
    have := hf e he
    omega
  exact List.Nodup.sublist (List.Sublist.map _ hs) h1

theorem nodup_mid_insert (D Q K : List Ev) (x : Ev) (n : Nat)
    (hn : ((D ++ Q ++ K).map Ev.uid).Nodup) (hf : ∀ e ∈ D ++ Q ++ K, e.uid < n) (hx : x.uid = n) :
    ((D ++ Q ++ x :: K).map Ev.uid).Nodup := by
  have hp : ((D ++ Q ++ x :: K).map Ev.uid).Perm (x.uid :: (D ++ Q ++ K).map Ev.uid) := by
    simp only [List.map_append, List.map_cons]
    exact List.perm_middle
  rw [hp.nodup_iff, List.nodup_cons]
  constructor
  · intro hmem
    obtain ⟨e, he, heq⟩ := List.mem_map.mp hmem
    have := hf e he
    omega
  · exact hn

theorem nodup_mid_sub (D Q Q' K : List Ev) (hs : Q'.Sublist Q)
    (hn : ((D ++ Q ++ K).map Ev.uid).Nodup) : ((D ++ Q' ++ K).map Ev.uid).Nodup := by
  have : (D ++ Q' ++ K).Sublist (D ++ Q ++ K) :=
    List.Sublist.append (List.Sublist.append (List.Sublist.refl D) hs) (List.Sublist.refl K)
  exact List.Nodup.sublist (List.Sublist.map _ this) hn

theorem fresh_mid_sub (D Q Q' K : List Ev) (n : Nat) (hs : Q'.Sublist Q)
    (hf : ∀ e ∈ D ++ Q ++ K, e.uid < n) : ∀ e ∈ D ++ Q' ++ K, e.uid < n := by
  intro e he
  apply hf
  simp only [List.mem_append] at he ⊢
  rcases he with (h | h) | h
  · exact Or.inl (Or.inl h)
  · exact Or.inl (Or.inr (hs.subset h))
  · exact Or.inr h

theorem Inv.postFifo_fresh {s : QState} (h : Inv s) (sg : Nat) : Inv (applyEff s (.fifo sg)) := by
  have hsub := pushBack_sublist s.cap s.q ⟨sg, s.next⟩
  have hn : ((s.dispatched ++ (s.q ++ [(⟨sg, s.next⟩ : Ev)]) ++ s.dq).map Ev.uid).Nodup := by
    have := nodup_mid_insert s.dispatched s.q s.dq ⟨sg, s.next⟩ s.next h.nodup h.fresh rfl
    simpa [List.append_assoc] using this
  have hf : ∀ e ∈ s.dispatched ++ (s.q ++ [(⟨sg, s.next⟩ : Ev)]) ++ s.dq, e.uid < s.next + 1 := by
    intro e he
    simp only [List.mem_append, List.mem_singleton] at he
    rcases he with (h1 | h1 | h1) | h1
    · have := h.fresh e (by simp [live, h1]); omega
    · have := h.fresh e (by simp [live, h1]); omega
    · subst h1; simp
    · have := h.fresh e (by simp [live, h1]); omega
  exact {
    cap_pos := h.cap_pos
    q_le := pushBack_length_le _ _ _ h.q_le h.cap_pos
    dq_le := h.dq_le
    nodup := nodup_mid_sub _ _ _ _ hsub hn
    fresh := fresh_mid_sub _ _ _ _ _ hsub hf }

theorem Inv.postLifo_fresh {s : QState} (h : Inv s) (sg : Nat) : Inv (applyEff s (.lifo sg)) := by
  have hsub := pushFront_sublist s.cap s.q ⟨sg, s.next⟩
  have hn : ((s.dispatched ++ ((⟨sg, s.next⟩ : Ev) :: s.q) ++ s.dq).map Ev.uid).Nodup := by
    have := nodup_mid_insert s.dispatched [] (s.q ++ s.dq) ⟨sg, s.next⟩ s.next
      (by simpa [live, List.append_assoc] using h.nodup)
      (by intro e he; exact h.fresh e (by simpa [live, List.append_assoc] using he)) rfl
    simpa [List.append_assoc] using this
  have hf : ∀ e ∈ s.dispatched ++ ((⟨sg, s.next⟩ : Ev) :: s.q) ++ s.dq, e.uid < s.next + 1 := by
    intro e he
    simp only [List.mem_append, List.mem_cons] at he
    rcases he with (h1 | h1 | h1) | h1
    · have := h.fresh e (by simp [live, h1]); omega
    · subst h1; simp
    · have := h.fresh e (by simp [live, h1]); omega
    · have := h.fresh e (by simp [live, h1]); omega
  exact {
    cap_pos := h.cap_pos
    q_le := pushFront_length_le _ _ _
    dq_le := h.dq_le
    nodup := nodup_mid_sub _ _ _ _ hsub hn
    fresh := fresh_mid_sub _ _ _ _ _ hsub hf }

theorem Inv.defer_fresh {s : QState} (h : Inv s) (sg : Nat) : Inv (applyEff s (.defer sg)) := by
  have hsub := pushBack_sublist s.cap s.dq ⟨sg, s.next⟩
  have hn : ((s.dispatched ++ s.q ++ (s.dq ++ [(⟨sg, s.next⟩ : Ev)])).map Ev.uid).Nodup := by
    have := nodup_mid_insert s.dispatched (s.q ++ s.dq) [] ⟨sg, s.next⟩ s.next
      (by simpa [live, List.append_assoc] using h.nodup)
      (by intro e he; exact h.fresh e (by simpa [live, List.append_assoc] using he)) rfl
    simpa [List.append_assoc] using this
  have hf : ∀ e ∈ s.dispatched ++ s.q ++ (s.dq ++ [(⟨sg, s.next⟩ : Ev)]), e.uid < s.next + 1 := by
    intro e he
    simp only [List.mem_append, List.mem_singleton] at he
    rcases he with (h1 | h1) | h1 | h1
    · have := h.fresh e (by simp [live, h1]); omega
    · have := h.fresh e (by simp [live, h1]); omega
    · have := h.fresh e (by simp [live, h1]); omega
    · subst h1; simp
  have hs2 : (s.dispatched ++ s.q ++ pushBack s.cap s.dq ⟨sg, s.next⟩).Sublist
      (s.dispatched ++ s.q ++ (s.dq ++ [(⟨sg, s.next⟩ : Ev)])) :=
    List.Sublist.append (List.Sublist.refl _) hsub
  exact {
    cap_pos := h.cap_pos
    q_le := h.q_le
    dq_le := pushBack_length_le _ _ _ h.dq_le h.cap_pos
    nodup := List.Nodup.sublist (List.Sublist.map _ hs2) hn
    fresh := by
      intro e he
      exact hf e (hs2.subset he) }

theorem Inv.recall {s : QState} (h : Inv s) : Inv (recall s).1 := by
  unfold Miros.Queue.recall
  cases hd : s.dq with
  | nil => simpa using h
  | cons e rest =>
    simp only []
    have hsub := pushBack_sublist s.cap s.q e
    have hl : live s = s.dispatched ++ (s.q ++ [e]) ++ rest := by simp [live, hd, List.append_assoc]
    exact {
      cap_pos := h.cap_pos
      q_le := pushBack_length_le _ _ _ h.q_le h.cap_pos
      dq_le := by have := h.dq_le; rw [hd] at this; simp at this; simp [postFifo]; omega
      nodup := by
        have := nodup_mid_sub s.dispatched _ _ rest hsub (by rw [← hl]; exact h.nodup)
        simpa [live, postFifo] using this
      fresh := by
        have := fresh_mid_sub s.dispatched _ _ rest s.next hsub (by rw [← hl]; exact h.fresh)
        simpa [live, postFifo] using this }

theorem Inv.applyEff {s : QState} (h : Inv s) (e : Eff) : Inv (applyEff s e) := by
  cases e with
  | fifo sg => exact h.postFifo_fresh sg
  | lifo sg => exact h.postLifo_fresh sg
  | defer sg => exact h.defer_fresh sg
  | recall => exact h.recall
  | scribble _ => exact h

theorem Inv.foldEff {s : QState} (h : Inv s) (l : List Eff) : Inv (l.foldl Miros.Queue.applyEff s) := by
  induction l generalizing s with
  | nil => exact h
  | cons e t ih => exact ih (h.applyEff e)

theorem Inv.applyLog (qc : QChart) {s : QState} (h : Inv s) (log : Log) : Inv (applyLog qc s log) := by
  unfold Miros.Queue.applyLog
  induction log generalizing s with
  | nil => exact h
  | cons c t ih => exact ih (h.foldEff _)

/-- moving the head of the queue to the dispatched list keeps the invariant -/
theorem Inv.pop {s : QState} (h : Inv s) (e : Ev) (rest : List Ev) (hq : s.q = e :: rest) (cur : St) :
    Inv { s with q := rest, dispatched := s.dispatched ++ [e], cur := cur } := by
  have hl : live { s with q := rest, dispatched := s.dispatched ++ [e], cur := cur } = live s := by
    simp [live, hq, List.append_assoc]
  exact {
    cap_pos := h.cap_pos
    q_le := by have := h.q_le; rw [hq] at this; simp at this; simp; omega
    dq_le := h.dq_le
    nodup := by rw [hl]; exact h.nodup
    fresh := by rw [hl]; exact h.fresh }

theorem Inv.nextRtc (qc : QChart) (g : Cfg) {s : QState} (h : Inv s) :
    match nextRtc qc g s with
    | .idle s1 => Inv s1
    | .stepped s1 _ => Inv s1
    | .failed => True := by
  unfold Miros.Queue.nextRtc
  cases hq : s.q with
  | nil => simpa using h
  | cons e rest =>
    simp only []
    cases hd : dispatch qc.chart g s.cur e.sig with
    | ok r => exact (h.pop e rest hq r.state).applyLog qc r.log
    | raise l => trivial
    | diverge l => trivial

theorem Inv.stepOp (qc : QChart) (g : Cfg) {s s1 : QState} (h : Inv s) (o : Op)
    (hs : stepOp qc g s o = some s1) : Inv s1 := by
  cases o with
  | postFifo sg => simp [Miros.Queue.stepOp] at hs; subst hs; exact h.applyEff _
  | postLifo sg => simp [Miros.Queue.stepOp] at hs; subst hs; exact h.applyEff _
  | defer sg => simp [Miros.Queue.stepOp] at hs; subst hs; exact h.applyEff _
  | recall => simp [Miros.Queue.stepOp] at hs; subst hs; exact h.applyEff _
  | nextRtc =>
    have hn := h.nextRtc qc g
    simp only [Miros.Queue.stepOp] at hs
    cases hr : Miros.Queue.nextRtc qc g s with
    | idle s2 => rw [hr] at hs hn; simp at hs; subst hs; exact hn
    | stepped s2 l => rw [hr] at hs hn; simp at hs; subst hs; exact hn
    | failed => rw [hr] at hs; simp at hs

theorem Inv.runOps (qc : QChart) (g : Cfg) (ops : List Op) {s s1 : QState} (h : Inv s)
    (hs : runOps qc g s ops = some s1) : Inv s1 := by
  induction ops generalizing s with
  | nil => simp [Miros.Queue.runOps] at hs; subst hs; exact h
  | cons o t ih =>
    simp only [Miros.Queue.runOps] at hs
    cases ho : Miros.Queue.stepOp qc g s o with
    | none => rw [ho] at hs; simp at hs
    | some s2 => rw [ho] at hs; exact ih (h.stepOp qc g o ho) hs

/-- a fresh queued chart -/
def init (cap : Nat) (cur : St) : QState := { cap := cap, q := [], dq := [], cur := cur, next := 0, dispatched := [] }

theorem Inv.init (cap : Nat) (cur : St) (hc : 0 < cap) : Inv (init cap cur) := by
  refine ⟨hc, by simp [Miros.Queue.init], by simp [Miros.Queue.init], by simp [Miros.Queue.init, live], ?_⟩
  intro e he; simp [Miros.Queue.init, live] at he

theorem completeCircuit_empty (qc : QChart) (g : Cfg) : ∀ (fuel : Nat) (s s1 : QState),
    completeCircuit qc g fuel s = some s1 → s1.q = [] := by
  intro fuel
  induction fuel with
  | zero =>
    intro s s1 h
    unfold completeCircuit at h
    split at h
    · simp at h; subst h; assumption
    · simp at h
  | succ n ih =>
    intro s s1 h
    unfold completeCircuit at h
    cases hq : s.q with
    | nil => rw [hq] at h; simp at h; subst h; exact hq
    | cons e rest =>
      rw [hq] at h
      simp only [] at h
      cases hr : nextRtc qc g s with
      | stepped s2 l => rw [hr] at h; exact ih s2 s1 h
      | idle s2 =>
        rw [hr] at h; simp at h; subst h
        unfold nextRtc at hr; rw [hq] at hr; simp only [] at hr
        split at hr <;> simp at hr
      | failed => rw [hr] at h; simp at h

/-! ### exact shape of a push on a full deque -/

theorem pushBack_full (cap : Nat) (l : List Ev) (x : Ev) (hc : 0 < cap) (h : l.length = cap) :
    pushBack cap l x = l.tail ++ [x] := by
  cases l with
  | nil => simp at h; omega
  | cons a t =>
    simp at h
    have h2 : t.length + 1 + 1 - cap = 1 := by omega
    simp [pushBack, h2]
    omega

theorem pushFront_full (cap : Nat) (l : List Ev) (x : Ev) (hc : 0 < cap) (h : l.length = cap) :
    pushFront cap l x = x :: l.dropLast := by
  cases cap with
  | zero => omega
  | succ n => simp [pushFront, h, List.dropLast_eq_take]

theorem pushBack_length_full (cap : Nat) (l : List Ev) (x : Ev) (hc : 0 < cap) (h : l.length = cap) :
    (pushBack cap l x).length = cap := by
  rw [pushBack_full cap l x hc h]; simp; omega

theorem pushFront_length_full (cap : Nat) (l : List Ev) (x : Ev) (hc : 0 < cap) (h : l.length = cap) :
    (pushFront cap l x).length = cap := by
  rw [pushFront_full cap l x hc h]; simp; omega

/-! ### what the queue operations leave alone -/

@[simp] theorem recall_cap (s : QState) : (recall s).1.cap = s.cap := by
  unfold recall; split <;> simp [postFifo]
@[simp] theorem recall_dispatched (s : QState) : (recall s).1.dispatched = s.dispatched := by
  unfold recall; split <;> simp [postFifo]
@[simp] theorem recall_cur (s : QState) : (recall s).1.cur = s.cur := by
  unfold recall; split <;> simp [postFifo]
@[simp] theorem recall_next (s : QState) : (recall s).1.next = s.next := by
  unfold recall; split <;> simp [postFifo]

@[simp] theorem applyEff_cap (s : QState) (e : Eff) : (applyEff s e).cap = s.cap := by
  cases e <;> simp [applyEff, postFifo, postLifo, deferEv]
@[simp] theorem applyEff_dispatched (s : QState) (e : Eff) : (applyEff s e).dispatched = s.dispatched := by
  cases e <;> simp [applyEff, postFifo, postLifo, deferEv]
@[simp] theorem applyEff_cur (s : QState) (e : Eff) : (applyEff s e).cur = s.cur := by
  cases e <;> simp [applyEff, postFifo, postLifo, deferEv]
theorem applyEff_next_le (s : QState) (e : Eff) : s.next ≤ (applyEff s e).next := by
  cases e <;> simp [applyEff, postFifo, postLifo, deferEv]

theorem foldEff_keeps (l : List Eff) (s : QState) :
    (l.foldl applyEff s).cap = s.cap ∧ (l.foldl applyEff s).dispatched = s.dispatched ∧
    (l.foldl applyEff s).cur = s.cur := by
  induction l generalizing s with
  | nil => simp
  | cons e t ih => simp [List.foldl_cons, ih (applyEff s e)]

theorem applyLog_keeps (qc : QChart) (log : Log) (s : QState) :
    (applyLog qc s log).cap = s.cap ∧ (applyLog qc s log).dispatched = s.dispatched ∧
    (applyLog qc s log).cur = s.cur := by
  unfold applyLog
  induction log generalizing s with
  | nil => simp
  | cons c t ih =>
    simp only [List.foldl_cons]
    obtain ⟨h1, h2, h3⟩ := ih ((qc.eff c.s c.sig).foldl applyEff s)
    obtain ⟨g1, g2, g3⟩ := foldEff_keeps (qc.eff c.s c.sig) s
    exact ⟨h1.trans g1, h2.trans g2, h3.trans g3⟩

@[simp] theorem applyLog_cap (qc : QChart) (log : Log) (s : QState) : (applyLog qc s log).cap = s.cap :=
  (applyLog_keeps qc log s).1
@[simp] theorem applyLog_dispatched (qc : QChart) (log : Log) (s : QState) :
    (applyLog qc s log).dispatched = s.dispatched := (applyLog_keeps qc log s).2.1
@[simp] theorem applyLog_cur (qc : QChart) (log : Log) (s : QState) : (applyLog qc s log).cur = s.cur :=
  (applyLog_keeps qc log s).2.2

theorem applyLog_append (qc : QChart) (s : QState) (l1 l2 : Log) :
    applyLog qc s (l1 ++ l2) = applyLog qc (applyLog qc s l1) l2 := by
  simp [applyLog, List.foldl_append]

/-- the step function seen from the outside -/
theorem nextRtc_cons (qc : QChart) (g : Cfg) (s : QState) (e : Ev) (rest : List Ev) (r : Res)
    (hq : s.q = e :: rest) (hd : dispatch qc.chart g s.cur e.sig = .ok r) :
    nextRtc qc g s = .stepped
      (applyLog qc { s with q := rest, dispatched := s.dispatched ++ [e], cur := r.state } r.log) r.log := by
  unfold nextRtc
  rw [hq]
  simp only [hd]

theorem nextRtc_nil (qc : QChart) (g : Cfg) (s : QState) (hq : s.q = []) : nextRtc qc g s = .idle s := by
  unfold nextRtc
  rw [hq]

/-- every `.stepped` outcome comes from popping the head and dispatching it successfully -/
theorem nextRtc_stepped (qc : QChart) (g : Cfg) (s s1 : QState) (log : Log)
    (h : nextRtc qc g s = .stepped s1 log) :
    ∃ e rest r, s.q = e :: rest ∧ dispatch qc.chart g s.cur e.sig = .ok r ∧ log = r.log ∧
      s1 = applyLog qc { s with q := rest, dispatched := s.dispatched ++ [e], cur := r.state } r.log := by
  unfold nextRtc at h
  cases hq : s.q with
  | nil => rw [hq] at h; simp at h
  | cons e rest =>
    rw [hq] at h
    simp only [] at h
    cases hd : dispatch qc.chart g s.cur e.sig with
    | ok r =>
      rw [hd] at h
      simp only [StepOut.stepped.injEq] at h
      exact ⟨e, rest, r, rfl, hd, h.2.symm, h.1.symm⟩
    | raise l => rw [hd] at h; simp at h
    | diverge l => rw [hd] at h; simp at h

theorem nextRtc_idle (qc : QChart) (g : Cfg) (s s1 : QState) (h : nextRtc qc g s = .idle s1) :
    s.q = [] ∧ s1 = s := by
  unfold nextRtc at h
  cases hq : s.q with
  | nil => rw [hq] at h; simp at h; exact ⟨rfl, h.symm⟩
  | cons e rest =>
    rw [hq] at h
    simp only [] at h
    split at h <;> simp at h

/-! ### consequences of the invariant: the three event stores are pairwise disjoint -/

theorem Inv.uids {s : QState} (h : Inv s) :
    (s.dispatched.map Ev.uid).Nodup ∧ (s.q.map Ev.uid).Nodup ∧ (s.dq.map Ev.uid).Nodup ∧
    (∀ a ∈ s.dispatched, ∀ b ∈ s.q, a.uid ≠ b.uid) ∧
    (∀ a ∈ s.dispatched, ∀ b ∈ s.dq, a.uid ≠ b.uid) ∧
    (∀ a ∈ s.q, ∀ b ∈ s.dq, a.uid ≠ b.uid) := by
  have hn := h.nodup
  simp only [live, List.map_append, List.nodup_append, List.mem_append, List.mem_map] at hn
  obtain ⟨⟨hD, hQ, hDQ⟩, hK, hX⟩ := hn
  refine ⟨hD, hQ, hK, ?_, ?_, ?_⟩
  · intro a ha b hb; exact hDQ _ ⟨a, ha, rfl⟩ _ ⟨b, hb, rfl⟩
  · intro a ha b hb; exact hX _ (Or.inl ⟨a, ha, rfl⟩) _ ⟨b, hb, rfl⟩
  · intro a ha b hb; exact hX _ (Or.inr ⟨a, ha, rfl⟩) _ ⟨b, hb, rfl⟩

/-! ### an event that is neither pending nor dispatched stays so until a `recall` -/

/-- `e` is out of the dispatcher's reach: not pending, not dispatched, and its uid is used up -/
def Shielded (e : Ev) (s : QState) : Prop := e ∉ s.q ∧ e ∉ s.dispatched ∧ e.uid < s.next

/-- no handler of the chart calls `recall()` -/
def NoHandlerRecall (qc : QChart) : Prop := ∀ st sig, Eff.recall ∉ qc.eff st sig

theorem Inv.shielded_of_deferred {s : QState} (h : Inv s) (e : Ev) (he : e ∈ s.dq) : Shielded e s := by
  obtain ⟨_, _, _, _, hDK, hQK⟩ := h.uids
  refine ⟨fun hq => hQK e hq e he rfl, fun hd => hDK e hd e he rfl, ?_⟩
  exact h.fresh e (by simp [live, he])

theorem Shielded.applyEff {e : Ev} {s : QState} (h : Shielded e s) (eff : Eff) (hr : eff ≠ .recall) :
    Shielded e (applyEff s eff) := by
  obtain ⟨hq, hd, hn⟩ := h
  have hne : ∀ sg, e ≠ (⟨sg, s.next⟩ : Ev) := by
    intro sg heq; subst heq; simp at hn
  cases eff with
  | fifo sg =>
    refine ⟨?_, hd, by simp [Miros.Queue.applyEff, postFifo]; omega⟩
    intro hm
    rcases mem_pushBack _ _ _ _ hm with h1 | h1
    · exact hq h1
    · exact hne sg h1
  | lifo sg =>
    refine ⟨?_, hd, by simp [Miros.Queue.applyEff, postLifo]; omega⟩
    intro hm
    rcases mem_pushFront _ _ _ _ hm with h1 | h1
    · exact hq h1
    · exact hne sg h1
  | defer sg => exact ⟨hq, hd, by simp [Miros.Queue.applyEff, deferEv]; omega⟩
  | recall => exact absurd rfl hr
  | scribble _ => exact ⟨hq, hd, hn⟩

theorem Shielded.foldEff {e : Ev} (l : List Eff) (hl : Eff.recall ∉ l) {s : QState} (h : Shielded e s) :
    Shielded e (l.foldl Miros.Queue.applyEff s) := by
  induction l generalizing s with
  | nil => exact h
  | cons a t ih =>
    simp only [List.mem_cons, not_or] at hl
    exact ih hl.2 (h.applyEff a (fun heq => hl.1 heq.symm))

theorem Shielded.applyLog {e : Ev} (qc : QChart) (hqc : NoHandlerRecall qc) (log : Log) {s : QState}
    (h : Shielded e s) : Shielded e (applyLog qc s log) := by
  unfold Miros.Queue.applyLog
  induction log generalizing s with
  | nil => exact h
  | cons c t ih => exact ih (h.foldEff _ (hqc c.s c.sig))

theorem Shielded.stepOp {e : Ev} (qc : QChart) (g : Cfg) (hqc : NoHandlerRecall qc) {s s1 : QState}
    (h : Shielded e s) (o : Op) (ho : o ≠ .recall) (hs : stepOp qc g s o = some s1) : Shielded e s1 := by
  cases o with
  | postFifo sg => simp [Miros.Queue.stepOp] at hs; subst hs; exact h.applyEff _ (by simp)
  | postLifo sg => simp [Miros.Queue.stepOp] at hs; subst hs; exact h.applyEff _ (by simp)
  | defer sg => simp [Miros.Queue.stepOp] at hs; subst hs; exact h.applyEff _ (by simp)
  | recall => exact absurd rfl ho
  | nextRtc =>
    simp only [Miros.Queue.stepOp] at hs
    cases hr : nextRtc qc g s with
    | idle s2 =>
      rw [hr] at hs; simp at hs; subst hs
      rw [(nextRtc_idle qc g s s2 hr).2]; exact h
    | stepped s2 l =>
      rw [hr] at hs; simp at hs; subst hs
      obtain ⟨x, rest, r, hq, _, _, rfl⟩ := nextRtc_stepped qc g s s2 l hr
      apply Shielded.applyLog qc hqc
      obtain ⟨h1, h2, h3⟩ := h
      rw [hq] at h1
      simp only [List.mem_cons, not_or] at h1
      exact ⟨h1.2, by simp [h2, h1.1], h3⟩
    | failed => rw [hr] at hs; simp at hs

theorem Shielded.runOps {e : Ev} (qc : QChart) (g : Cfg) (hqc : NoHandlerRecall qc) (ops : List Op)
    (hops : Op.recall ∉ ops) {s s1 : QState} (h : Shielded e s) (hs : runOps qc g s ops = some s1) :
    Shielded e s1 := by
  induction ops generalizing s with
  | nil => simp [Miros.Queue.runOps] at hs; subst hs; exact h
  | cons o t ih =>
    simp only [List.mem_cons, not_or] at hops
    simp only [Miros.Queue.runOps] at hs
    cases ho : Miros.Queue.stepOp qc g s o with
    | none => rw [ho] at hs; simp at hs
    | some s2 =>
      rw [ho] at hs
      exact ih hops.2 (h.stepOp qc g hqc o (fun heq => hops.1 heq.symm) ho) hs

/-! ### the defer queue only loses elements at `recall` (or on overflow) -/

theorem applyEff_dq_prefix (s : QState) (eff : Eff) (hr : eff ≠ .recall) (hlt : s.dq.length < s.cap) :
    s.dq <+: (applyEff s eff).dq := by
  cases eff with
  | fifo sg => simp [applyEff, postFifo]
  | lifo sg => simp [applyEff, postLifo]
  | defer sg => simp [applyEff, deferEv, pushBack_not_full _ _ _ hlt]
  | recall => exact absurd rfl hr
  | scribble _ => simp [applyEff]

theorem applyEff_dq_length_le (s : QState) (eff : Eff) (hr : eff ≠ .recall) (hlt : s.dq.length < s.cap) :
    (applyEff s eff).dq.length ≤ s.dq.length + 1 := by
  cases eff with
  | fifo sg => simp [applyEff, postFifo]
  | lifo sg => simp [applyEff, postLifo]
  | defer sg => simp [applyEff, deferEv, pushBack_not_full _ _ _ hlt]
  | recall => exact absurd rfl hr
  | scribble _ => simp [applyEff]

/-- a whole sequence of non-recall operations that cannot overflow the defer queue -/
theorem foldEff_dq_prefix (l : List Eff) (hl : Eff.recall ∉ l) (s : QState)
    (h : s.dq.length + l.length ≤ s.cap) : s.dq <+: (l.foldl applyEff s).dq := by
  induction l generalizing s with
  | nil => exact List.prefix_refl _
  | cons a t ih =>
    simp only [List.mem_cons, not_or] at hl
    simp only [List.length_cons] at h
    have hne : a ≠ .recall := fun heq => hl.1 heq.symm
    have hlt : s.dq.length < s.cap := by omega
    have h1 := applyEff_dq_prefix s a hne hlt
    have h2 := applyEff_dq_length_le s a hne hlt
    have h3 := ih hl.2 (applyEff s a) (by rw [applyEff_cap]; omega)
    exact h1.trans h3

/-! ### the capacity never changes -/

theorem stepOp_cap (qc : QChart) (g : Cfg) (s s1 : QState) (o : Op) (ho : stepOp qc g s o = some s1) :
    s1.cap = s.cap := by
  cases o with
  | postFifo sg => simp [stepOp] at ho; subst ho; simp
  | postLifo sg => simp [stepOp] at ho; subst ho; simp
  | defer sg => simp [stepOp] at ho; subst ho; simp
  | recall => simp [stepOp] at ho; subst ho; simp
  | nextRtc =>
    simp only [stepOp] at ho
    cases hr : nextRtc qc g s with
    | idle s3 => rw [hr] at ho; simp at ho; subst ho; rw [(nextRtc_idle qc g s s3 hr).2]
    | stepped s3 l =>
      rw [hr] at ho; simp at ho; subst ho
      obtain ⟨_, _, _, _, _, _, hs3⟩ := nextRtc_stepped qc g s s3 l hr
      rw [hs3]; simp
    | failed => rw [hr] at ho; simp at ho

theorem runOps_cap (qc : QChart) (g : Cfg) (ops : List Op) (s s1 : QState)
    (hs : runOps qc g s ops = some s1) : s1.cap = s.cap := by
  induction ops generalizing s with
  | nil => simp [runOps] at hs; rw [hs]
  | cons o t ih =>
    simp only [runOps] at hs
    cases ho : stepOp qc g s o with
    | none => rw [ho] at hs; simp at hs
    | some s2 => rw [ho] at hs; rw [ih s2 hs]; exact stepOp_cap qc g s s2 o ho

theorem nodup_of_map_uid (l : List Ev) (h : (l.map Ev.uid).Nodup) : l.Nodup := by
  induction l with
  | nil => simp
  | cons a t ih =>
    simp only [List.map_cons, List.nodup_cons] at h ⊢
    exact ⟨fun hm => h.1 (List.mem_map.mpr ⟨a, hm, rfl⟩), ih h.2⟩

/-! ### small concrete fixtures for the non-vacuity examples of the property files -/
namespace Ex

/-- a chart with one state `[1]` that handles every signal; its handler answers signal 7 by
posting 9 fifo and then 8 lifo, signal 6 by deferring 6, signal 4 by recalling -/
def qc0 : QChart :=
  { chart := { react := fun _ _ => .handled, init := fun _ => none, exitH := fun _ => false, depth := 1,
               fall := fun _ => false },
    eff := fun _ sig =>
      if sig = .user 7 then [.fifo 9, .lifo 8]
      else if sig = .user 6 then [.defer 6]
      else if sig = .user 4 then [.recall]
      else [] }

/-- capacity 3, two pending events, nothing deferred -/
def s0 : QState :=
  { cap := 3, q := [⟨7, 0⟩, ⟨5, 1⟩], dq := [], cur := [1], next := 2, dispatched := [] }

/-- capacity 2, queue full, defer queue full, one event already dispatched -/
def sFull : QState :=
  { cap := 2, q := [⟨5, 1⟩, ⟨6, 2⟩], dq := [⟨3, 3⟩, ⟨2, 4⟩], cur := [1], next := 5, dispatched := [⟨1, 0⟩] }

/-- capacity 3, one pending, two deferred -/
def sDef : QState :=
  { cap := 3, q := [⟨5, 0⟩], dq := [⟨3, 1⟩, ⟨2, 2⟩], cur := [1], next := 3, dispatched := [] }

end Ex

end Miros.Queue
