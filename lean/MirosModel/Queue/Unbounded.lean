import MirosModel.Queue.Model
/-!
# Layer 2 with `QUEUE_SIZE = None` — unbounded pending-event queues

A subclass of `HsmWithQueues` may set `QUEUE_SIZE = None`; `queue` and `defer_queue` are then
`collections.deque(maxlen=None)`: `append` / `appendleft` never evict.

This file writes that semantics down *directly* (no capacity anywhere: `QStateU` has no `cap`
field), by the same recursions as `Model.lean` (`applyEff`, `applyLog`, `nextRtc`, `startQ`,
`completeCircuit`, `stepOp`, `runOps`), with the two unbounded pushes.

It also contains
* the projection `QState.toU` (forget the capacity) and `QStateU.withCap` (choose one),
* a runner over all client operations of the `q` driver family that records every output
  (`XOp`, `traceOps` for the bounded model, `traceOpsU` for the unbounded one),
* the executable predicate "no push of the bounded run found its queue full" (`neverFull`, …),
* the number of event objects a run creates (`postBound`, …).
-/
namespace Miros.Queue
open Miros.Hsm

/-- `collections.deque(maxlen=None).append` -/
def pushBackU (l : List Ev) (x : Ev) : List Ev := l ++ [x]

/-- `collections.deque(maxlen=None).appendleft` -/
def pushFrontU (l : List Ev) (x : Ev) : List Ev := x :: l

/-- state of a queued chart whose class has `QUEUE_SIZE = None`: there is no capacity -/
structure QStateU where
  q    : List Ev          -- pending events, front first
  dq   : List Ev          -- deferred events, oldest first
  cur  : St
  next : Nat              -- uid of the next event object created
  dispatched : List Ev    -- events handed to `dispatch`, in order
deriving DecidableEq, Repr

def postFifoU (u : QStateU) (e : Ev) : QStateU := { u with q := pushBackU u.q e }
def postLifoU (u : QStateU) (e : Ev) : QStateU := { u with q := pushFrontU u.q e }
def deferEvU  (u : QStateU) (e : Ev) : QStateU := { u with dq := pushBackU u.dq e }

/-- `recall()`: oldest deferred event moves to the back of the queue; returns it -/
def recallU (u : QStateU) : QStateU × Option Ev :=
  match u.dq with
  | [] => (u, none)
  | e :: rest => (postFifoU { u with dq := rest } e, some e)

def applyEffU (u : QStateU) : Eff → QStateU
  | .fifo sg  => postFifoU { u with next := u.next + 1 } ⟨sg, u.next⟩
  | .lifo sg  => postLifoU { u with next := u.next + 1 } ⟨sg, u.next⟩
  | .defer sg => deferEvU  { u with next := u.next + 1 } ⟨sg, u.next⟩
  | .recall   => (recallU u).1
  | .scribble _ => u

/-- the handlers' own queue operations during one step, in call order -/
def applyLogU (qc : QChart) (u : QStateU) (log : Log) : QStateU :=
  log.foldl (fun st call => (qc.eff call.s call.sig).foldl applyEffU st) u

inductive StepOutU
  | idle (u : QStateU)                 -- queue empty: `next_rtc` returns False
  | stepped (u : QStateU) (log : Log)  -- one event dispatched
  | failed                             -- dispatch raised / diverged
deriving DecidableEq, Repr

/-- `next_rtc` -/
def nextRtcU (qc : QChart) (g : Cfg) (u : QStateU) : StepOutU :=
  match u.q with
  | [] => .idle u
  | e :: rest =>
    match dispatch qc.chart g u.cur e.sig with
    | .ok r =>
      let u1 : QStateU := { u with q := rest, dispatched := u.dispatched ++ [e], cur := r.state }
      .stepped (applyLogU qc u1 r.log) r.log
    | _ => .failed

/-- `start_at` of a queued chart -/
def startQU (qc : QChart) (g : Cfg) (u : QStateU) (target : St) : StepOutU :=
  match startAt qc.chart g target with
  | .ok r => .stepped (applyLogU qc { u with cur := r.state } r.log) r.log
  | _ => .failed

/-- `complete_circuit` with a step budget; `none` = budget exhausted or failure -/
def completeCircuitU (qc : QChart) (g : Cfg) : Nat → QStateU → Option QStateU
  | 0, u => if u.q = [] then some u else none
  | fuel + 1, u =>
    match u.q with
    | [] => some u
    | _ :: _ =>
      match nextRtcU qc g u with
      | .stepped u1 _ => completeCircuitU qc g fuel u1
      | .idle u1 => some u1
      | .failed => none

def stepOpU (qc : QChart) (g : Cfg) (u : QStateU) : Op → Option QStateU
  | .postFifo sg => some (applyEffU u (.fifo sg))
  | .postLifo sg => some (applyEffU u (.lifo sg))
  | .defer sg => some (applyEffU u (.defer sg))
  | .recall => some (applyEffU u .recall)
  | .nextRtc =>
    match nextRtcU qc g u with
    | .idle u1 => some u1
    | .stepped u1 _ => some u1
    | .failed => none

def runOpsU (qc : QChart) (g : Cfg) : QStateU → List Op → Option QStateU
  | u, [] => some u
  | u, o :: rest =>
    match stepOpU qc g u o with
    | some u1 => runOpsU qc g u1 rest
    | none => none

/-- a fresh queued chart of a class with `QUEUE_SIZE = None` -/
def initU (cur : St) : QStateU := { q := [], dq := [], cur := cur, next := 0, dispatched := [] }

/-! ### forgetting / choosing a capacity -/

/-- everything of a bounded state except the capacity -/
def QState.toU (s : QState) : QStateU :=
  { q := s.q, dq := s.dq, cur := s.cur, next := s.next, dispatched := s.dispatched }

/-- the bounded state with the same contents and capacity `cap` -/
def QStateU.withCap (u : QStateU) (cap : Nat) : QState :=
  { cap := cap, q := u.q, dq := u.dq, cur := u.cur, next := u.next, dispatched := u.dispatched }

def StepOut.toU : StepOut → StepOutU
  | .idle s => .idle s.toU
  | .stepped s log => .stepped s.toU log
  | .failed => .failed

/-! ### every client operation of the driver family, with every output -/

/-- the client operations of the `q` driver family: those of `Op`, `start_at`, and
`complete_circuit` (with a step budget) -/
inductive XOp
  | start (target : St)
  | postFifo (sig : Nat) | postLifo (sig : Nat) | defer (sig : Nat) | recall | nextRtc
  | completeCircuit (fuel : Nat)
deriving DecidableEq, Repr

/-- what an operation returns to its caller -/
inductive Ret
  | unit                  -- `None` of a procedure (posts, `start_at`, `complete_circuit`)
  | ev (e : Option Ev)    -- `recall()`: the recalled event or `None`
  | bool (b : Bool)       -- `next_rtc()`
deriving DecidableEq, Repr

/-- outcome of one client operation: the return value, the state afterwards, the handler calls
made; or the failure -/
inductive XRes (σ : Type)
  | ok (ret : Ret) (st : σ) (log : Log)
  | raise
  | diverge
deriving DecidableEq, Repr

def XRes.map {σ τ : Type} (f : σ → τ) : XRes σ → XRes τ
  | .ok ret st log => .ok ret (f st) log
  | .raise => .raise
  | .diverge => .diverge

/-- one client operation on the bounded model (what `Drive/Queue.lean: qOps` does per op) -/
def xstep (qc : QChart) (g : Cfg) (s : QState) : XOp → XRes QState
  | .start t =>
    match startQ qc g s t with
    | .stepped s1 log => .ok .unit s1 log
    | .idle s1 => .ok .unit s1 []
    | .failed => .raise
  | .postFifo sg => .ok .unit (applyEff s (.fifo sg)) []
  | .postLifo sg => .ok .unit (applyEff s (.lifo sg)) []
  | .defer sg => .ok .unit (applyEff s (.defer sg)) []
  | .recall => .ok (.ev (recall s).2) (recall s).1 []
  | .nextRtc =>
    match nextRtc qc g s with
    | .stepped s1 log => .ok (.bool true) s1 log
    | .idle s1 => .ok (.bool false) s1 []
    | .failed => .raise
  | .completeCircuit fuel =>
    match completeCircuit qc g fuel s with
    | some s1 => .ok .unit s1 []
    | none => .diverge

/-- the same on the unbounded model -/
def xstepU (qc : QChart) (g : Cfg) (u : QStateU) : XOp → XRes QStateU
  | .start t =>
    match startQU qc g u t with
    | .stepped u1 log => .ok .unit u1 log
    | .idle u1 => .ok .unit u1 []
    | .failed => .raise
  | .postFifo sg => .ok .unit (applyEffU u (.fifo sg)) []
  | .postLifo sg => .ok .unit (applyEffU u (.lifo sg)) []
  | .defer sg => .ok .unit (applyEffU u (.defer sg)) []
  | .recall => .ok (.ev (recallU u).2) (recallU u).1 []
  | .nextRtc =>
    match nextRtcU qc g u with
    | .stepped u1 log => .ok (.bool true) u1 log
    | .idle u1 => .ok (.bool false) u1 []
    | .failed => .raise
  | .completeCircuit fuel =>
    match completeCircuitU qc g fuel u with
    | some u1 => .ok .unit u1 []
    | none => .diverge

/-- run a list of client operations on the bounded model and record every output (return value,
contents of both queues, dispatch record, current state, handler calls); the run stops at the
first failure. The recorded states are shown without the capacity. -/
def traceOps (qc : QChart) (g : Cfg) : QState → List XOp → List (XRes QStateU)
  | _, [] => []
  | s, o :: rest =>
    match xstep qc g s o with
    | .ok ret s1 log => .ok ret s1.toU log :: traceOps qc g s1 rest
    | .raise => [.raise]
    | .diverge => [.diverge]

/-- the same on the unbounded model -/
def traceOpsU (qc : QChart) (g : Cfg) : QStateU → List XOp → List (XRes QStateU)
  | _, [] => []
  | u, o :: rest =>
    match xstepU qc g u o with
    | .ok ret u1 log => .ok ret u1 log :: traceOpsU qc g u1 rest
    | .raise => [.raise]
    | .diverge => [.diverge]

/-! ### "no push of the bounded run found its queue full" -/

/-- the operation does not push into a full deque (for `recall`: nothing is deferred, or the
queue has room for the recalled event) -/
def effOk (s : QState) : Eff → Bool
  | .fifo _ => decide (s.q.length < s.cap)
  | .lifo _ => decide (s.q.length < s.cap)
  | .defer _ => decide (s.dq.length < s.cap)
  | .recall => s.dq.isEmpty || decide (s.q.length < s.cap)
  | .scribble _ => true

def effsOk : QState → List Eff → Bool
  | _, [] => true
  | s, e :: t => effOk s e && effsOk (applyEff s e) t

def logOk (qc : QChart) : QState → Log → Bool
  | _, [] => true
  | s, c :: t => effsOk s (qc.eff c.s c.sig) && logOk qc ((qc.eff c.s c.sig).foldl applyEff s) t

/-- no push made by the handlers during this `next_rtc` finds its queue full -/
def rtcOk (qc : QChart) (g : Cfg) (s : QState) : Bool :=
  match s.q with
  | [] => true
  | e :: rest =>
    match dispatch qc.chart g s.cur e.sig with
    | .ok r => logOk qc { s with q := rest, dispatched := s.dispatched ++ [e], cur := r.state } r.log
    | _ => true

def startOk (qc : QChart) (g : Cfg) (s : QState) (target : St) : Bool :=
  match startAt qc.chart g target with
  | .ok r => logOk qc { s with cur := r.state } r.log
  | _ => true

def circuitOk (qc : QChart) (g : Cfg) : Nat → QState → Bool
  | 0, _ => true
  | fuel + 1, s =>
    match s.q with
    | [] => true
    | _ :: _ =>
      rtcOk qc g s &&
      match nextRtc qc g s with
      | .stepped s1 _ => circuitOk qc g fuel s1
      | _ => true

def opOk (qc : QChart) (g : Cfg) (s : QState) : Op → Bool
  | .postFifo sg => effOk s (.fifo sg)
  | .postLifo sg => effOk s (.lifo sg)
  | .defer sg => effOk s (.defer sg)
  | .recall => effOk s .recall
  | .nextRtc => rtcOk qc g s

def neverFull (qc : QChart) (g : Cfg) : QState → List Op → Bool
  | _, [] => true
  | s, o :: t =>
    opOk qc g s o &&
    match stepOp qc g s o with
    | some s1 => neverFull qc g s1 t
    | none => true

/-- **no push in the bounded run `runOps qc g s ops` (capacity `s.cap`) found its queue full** -/
def NeverFull (qc : QChart) (g : Cfg) (s : QState) (ops : List Op) : Prop := neverFull qc g s ops = true

instance (qc : QChart) (g : Cfg) (s : QState) (ops : List Op) : Decidable (NeverFull qc g s ops) := by
  unfold NeverFull; infer_instance

def xopOk (qc : QChart) (g : Cfg) (s : QState) : XOp → Bool
  | .start t => startOk qc g s t
  | .postFifo sg => effOk s (.fifo sg)
  | .postLifo sg => effOk s (.lifo sg)
  | .defer sg => effOk s (.defer sg)
  | .recall => effOk s .recall
  | .nextRtc => rtcOk qc g s
  | .completeCircuit fuel => circuitOk qc g fuel s

def neverFullX (qc : QChart) (g : Cfg) : QState → List XOp → Bool
  | _, [] => true
  | s, o :: t =>
    xopOk qc g s o &&
    match xstep qc g s o with
    | .ok _ s1 _ => neverFullX qc g s1 t
    | _ => true

/-- no push in the bounded run `traceOps qc g s ops` found its queue full -/
def NeverFullX (qc : QChart) (g : Cfg) (s : QState) (ops : List XOp) : Prop := neverFullX qc g s ops = true

instance (qc : QChart) (g : Cfg) (s : QState) (ops : List XOp) : Decidable (NeverFullX qc g s ops) := by
  unfold NeverFullX; infer_instance

/-! ### how many event objects a run creates (`post_fifo` / `post_lifo` / `defer`, by the client
or by a handler; `recall` creates none: it moves an existing one) -/

def Eff.posts : Eff → Nat
  | .fifo _ => 1
  | .lifo _ => 1
  | .defer _ => 1
  | .recall => 0
  | .scribble _ => 0

def effsPosts : List Eff → Nat
  | [] => 0
  | e :: t => e.posts + effsPosts t

def logPosts (qc : QChart) : Log → Nat
  | [] => 0
  | c :: t => effsPosts (qc.eff c.s c.sig) + logPosts qc t

/-- posts made by the handlers during the next `next_rtc` -/
def rtcPosts (qc : QChart) (g : Cfg) (u : QStateU) : Nat :=
  match u.q with
  | [] => 0
  | e :: _ =>
    match dispatch qc.chart g u.cur e.sig with
    | .ok r => logPosts qc r.log
    | _ => 0

def startPosts (qc : QChart) (g : Cfg) (target : St) : Nat :=
  match startAt qc.chart g target with
  | .ok r => logPosts qc r.log
  | _ => 0

def circuitPosts (qc : QChart) (g : Cfg) : Nat → QStateU → Nat
  | 0, _ => 0
  | fuel + 1, u =>
    match u.q with
    | [] => 0
    | _ :: _ =>
      rtcPosts qc g u +
      match nextRtcU qc g u with
      | .stepped u1 _ => circuitPosts qc g fuel u1
      | _ => 0

def opPosts (qc : QChart) (g : Cfg) (u : QStateU) : Op → Nat
  | .postFifo _ => 1
  | .postLifo _ => 1
  | .defer _ => 1
  | .recall => 0
  | .nextRtc => rtcPosts qc g u

/-- the number of event objects created by the (unbounded) run of `ops` from `u`: the client's
own posts plus the posts of the handlers in the logs the run produces -/
def postBound (qc : QChart) (g : Cfg) : QStateU → List Op → Nat
  | _, [] => 0
  | u, o :: t =>
    opPosts qc g u o +
    match stepOpU qc g u o with
    | some u1 => postBound qc g u1 t
    | none => 0

def xopPosts (qc : QChart) (g : Cfg) (u : QStateU) : XOp → Nat
  | .start t => startPosts qc g t
  | .postFifo _ => 1
  | .postLifo _ => 1
  | .defer _ => 1
  | .recall => 0
  | .nextRtc => rtcPosts qc g u
  | .completeCircuit fuel => circuitPosts qc g fuel u

def postBoundX (qc : QChart) (g : Cfg) : QStateU → List XOp → Nat
  | _, [] => 0
  | u, o :: t =>
    xopPosts qc g u o +
    match xstepU qc g u o with
    | .ok _ u1 _ => postBoundX qc g u1 t
    | _ => 0

/-- pending plus deferred events -/
def pendU (u : QStateU) : Nat := u.q.length + u.dq.length

/-- all event objects the chart currently knows, dispatched ones first -/
def liveU (u : QStateU) : List Ev := u.dispatched ++ u.q ++ u.dq

end Miros.Queue
