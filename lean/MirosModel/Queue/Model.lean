import MirosModel.Hsm.Model
/-!
# Layer 2 — queued charts (`HsmWithQueues`, hsm.py 1155-1388)

`queue` and `defer_queue` are `collections.deque(maxlen = QUEUE_SIZE)`: `append` on a full
deque drops the element at the *left* end, `appendleft` drops the one at the *right* end.
Handlers may post / defer / recall / scribble while a step runs: `eff s sig` lists what the
handler of `s` does when called with `sig`, and the effects are applied in call order.
-/
namespace Miros.Queue
open Miros.Hsm

structure Ev where
  sig : Nat
  uid : Nat
deriving DecidableEq, Repr

/-- `collections.deque(maxlen=cap).append` -/
def pushBack (cap : Nat) (l : List Ev) (x : Ev) : List Ev :=
  if l.length < cap then l ++ [x] else (l ++ [x]).drop (l.length + 1 - cap)

/-- `collections.deque(maxlen=cap).appendleft` -/
def pushFront (cap : Nat) (l : List Ev) (x : Ev) : List Ev :=
  if l.length < cap then x :: l else (x :: l).take cap

inductive Eff
  | fifo (sig : Nat)      -- chart.post_fifo(Event(sig))
  | lifo (sig : Nat)      -- chart.post_lifo(Event(sig))
  | defer (sig : Nat)     -- chart.defer(Event(sig))
  | recall                -- chart.recall()
  | scribble (id : Nat)   -- chart.scribble("…")
deriving DecidableEq, Repr

structure QChart where
  chart : Chart
  eff   : St → Sig → List Eff

structure QState where
  cap  : Nat
  q    : List Ev          -- pending events, front first
  dq   : List Ev          -- deferred events, oldest first
  cur  : St
  next : Nat              -- uid of the next event object created
  dispatched : List Ev    -- events handed to `dispatch`, in order
deriving Repr

def postFifo (s : QState) (e : Ev) : QState := { s with q := pushBack s.cap s.q e }
def postLifo (s : QState) (e : Ev) : QState := { s with q := pushFront s.cap s.q e }
def deferEv  (s : QState) (e : Ev) : QState := { s with dq := pushBack s.cap s.dq e }

/-- `recall()`: oldest deferred event moves to the back of the queue; returns it -/
def recall (s : QState) : QState × Option Ev :=
  match s.dq with
  | [] => (s, none)
  | e :: rest => (postFifo { s with dq := rest } e, some e)

def applyEff (s : QState) : Eff → QState
  | .fifo sg  => postFifo { s with next := s.next + 1 } ⟨sg, s.next⟩
  | .lifo sg  => postLifo { s with next := s.next + 1 } ⟨sg, s.next⟩
  | .defer sg => deferEv  { s with next := s.next + 1 } ⟨sg, s.next⟩
  | .recall   => (recall s).1
  | .scribble _ => s

/-- the handlers' own queue operations during one step, in call order -/
def applyLog (qc : QChart) (s : QState) (log : Log) : QState :=
  log.foldl (fun st call => (qc.eff call.s call.sig).foldl applyEff st) s

inductive StepOut
  | idle (s : QState)                 -- queue empty: `next_rtc` returns False
  | stepped (s : QState) (log : Log)  -- one event dispatched
  | failed                            -- dispatch raised / diverged

/-- `next_rtc` (1373-1382) -/
def nextRtc (qc : QChart) (g : Cfg) (s : QState) : StepOut :=
  match s.q with
  | [] => .idle s
  | e :: rest =>
    match dispatch qc.chart g s.cur e.sig with
    | .ok r =>
      let s1 : QState := { s with q := rest, dispatched := s.dispatched ++ [e], cur := r.state }
      .stepped (applyLog qc s1 r.log) r.log
    | _ => .failed

/-- `start_at` of a queued chart: handlers on the entry path may already post -/
def startQ (qc : QChart) (g : Cfg) (s : QState) (target : St) : StepOut :=
  match startAt qc.chart g target with
  | .ok r => .stepped (applyLog qc { s with cur := r.state } r.log) r.log
  | _ => .failed

/-- `complete_circuit` (1384-1388) with a step budget; `none` = budget exhausted or failure -/
def completeCircuit (qc : QChart) (g : Cfg) : Nat → QState → Option QState
  | 0, s => if s.q = [] then some s else none
  | fuel + 1, s =>
    match s.q with
    | [] => some s
    | _ :: _ =>
      match nextRtc qc g s with
      | .stepped s1 _ => completeCircuit qc g fuel s1
      | .idle s1 => some s1
      | .failed => none

/-- operations a client (or a test) performs on a queued chart between steps -/
inductive Op
  | postFifo (sig : Nat) | postLifo (sig : Nat) | defer (sig : Nat) | recall | nextRtc
deriving DecidableEq, Repr

def stepOp (qc : QChart) (g : Cfg) (s : QState) : Op → Option QState
  | .postFifo sg => some (applyEff s (.fifo sg))
  | .postLifo sg => some (applyEff s (.lifo sg))
  | .defer sg => some (applyEff s (.defer sg))
  | .recall => some (applyEff s .recall)
  | .nextRtc =>
    match nextRtc qc g s with
    | .idle s1 => some s1
    | .stepped s1 _ => some s1
    | .failed => none

def runOps (qc : QChart) (g : Cfg) : QState → List Op → Option QState
  | s, [] => some s
  | s, o :: rest =>
    match stepOp qc g s o with
    | some s1 => runOps qc g s1 rest
    | none => none

end Miros.Queue
