import MirosModel.Queue.EagerRecall
/-!
# Lemmas about `Miros.Queue.Eager` (re-entrant `recall` on an eagerly draining chart)

* unfolding equations of `drain`, closed form of the nested `recall` (`recallRun`: while the chart
  is being drained a `post_fifo` only appends),
* `Grow s s' ins rel`: what a (nested or top-level) call may do to the state with `popFirst`:
  it releases a prefix `rel` of the defer queue to the back of the "time line"
  `dispatched ++ q`, after the client's own post `ins`; nothing is lost, duplicated or reordered,
* `Inv s D P`: the invariant of the top-level runs (`D` = everything deferred, `P` = everything
  posted by the client so far),
* fuel: `drain` with `q.length + dq.length` units of fuel empties the queue and more fuel does not
  change the result,
* the chain (`h = fun _ => true`) and the no-re-entry case (`h = fun _ => false`).
-/
namespace Miros.Queue.Eager

variable {t : Tags} {h : Nat → Bool} {n : Nat} {s : S}

/-! ### unfolding -/

theorem drain_zero (t : Tags) (h : Nat → Bool) (s : S) : drain t h 0 s = s := by
  simp [drain]

theorem drain_failed (t : Tags) (h : Nat → Bool) (n : Nat) (s : S) (hf : s.failed = true) :
    drain t h n s = s := by
  cases n <;> simp [drain, hf]

theorem drain_nil (t : Tags) (h : Nat → Bool) (n : Nat) (s : S) (hq : s.q = []) :
    drain t h n s = s := by
  cases n <;> simp [drain, hq]

theorem drain_cons (t : Tags) (h : Nat → Bool) (n : Nat) (s : S) (x : Nat) (r : List Nat)
    (hf : s.failed = false) (hq : s.q = x :: r) :
    drain t h (n + 1) s =
      drain t h n (if h x then recall t h n { s with q := r, dispatched := s.dispatched ++ [x] }
                   else { s with q := r, dispatched := s.dispatched ++ [x] }) := by
  rw [drain]
  simp only [hf, hq]
  rfl

/-! ### the nested recall: the chart is already being drained, `post_fifo` only appends -/

/-- `recall()` (current source) called while `_running` is set -/
def recallRun (s : S) : S :=
  match s.dq with
  | [] => { s with returned := s.returned ++ [none] }
  | e :: rest => { s with dq := rest, q := s.q ++ [e], returned := s.returned ++ [some e] }

theorem recall_running (h : Nat → Bool) (n : Nat) (s : S) (hr : s.running = true)
    (hf : s.failed = false) : recall ⟨true⟩ h n s = recallRun s := by
  obtain ⟨q, dq, d, ret, run, fl⟩ := s
  simp only at hr hf
  subst hr hf
  unfold recall recallWith post postWith recallRun
  cases dq <;> simp

/-! ### `somes` -/

@[simp] theorem somes_nil : somes [] = [] := rfl
@[simp] theorem somes_append (a b : List (Option Nat)) : somes (a ++ b) = somes a ++ somes b := by
  simp [somes, List.filterMap_append]
@[simp] theorem somes_some (e : Nat) : somes [some e] = [e] := rfl
@[simp] theorem somes_none : somes [none] = [] := rfl
@[simp] theorem somes_map_some (l : List Nat) : somes (l.map some) = l := by
  induction l with
  | nil => rfl
  | cons a l ih => simp [somes] at ih ⊢

theorem somes_length (r : List (Option Nat)) : (somes r).length = r.countP Option.isSome := by
  induction r with
  | nil => rfl
  | cons a r ih => cases a <;> simp [somes] at ih ⊢ <;> omega

theorem mem_somes (r : List (Option Nat)) (e : Nat) : e ∈ somes r ↔ some e ∈ r := by
  simp [somes]

/-! ### `Grow` -/

/-- `s'` comes from `s` by posting `ins` (the client's own post, if any) and releasing the prefix
`rel` of the defer queue behind it; `dispatched ++ q` only grows at its end, `dispatched` only
grows at its end, and the finished recalls returned exactly the released events -/
structure Grow (s s' : S) (ins rel : List Nat) : Prop where
  failed : s'.failed = false
  running : s'.running = s.running
  dq : s.dq = rel ++ s'.dq
  line : s'.dispatched ++ s'.q = s.dispatched ++ s.q ++ ins ++ rel
  disp : ∃ d, s'.dispatched = s.dispatched ++ d
  ret : ∃ new, s'.returned = s.returned ++ new ∧ (somes new).Perm rel

theorem Grow.refl (s : S) (hf : s.failed = false) : Grow s s [] [] :=
  ⟨hf, rfl, rfl, by simp, ⟨[], by simp⟩, ⟨[], by simp⟩⟩

theorem Grow.trans {s s1 s2 : S} {ins r1 r2 : List Nat} (a : Grow s s1 ins r1)
    (b : Grow s1 s2 [] r2) : Grow s s2 ins (r1 ++ r2) := by
  obtain ⟨d1, hd1⟩ := a.disp
  obtain ⟨d2, hd2⟩ := b.disp
  obtain ⟨n1, hn1, hp1⟩ := a.ret
  obtain ⟨n2, hn2, hp2⟩ := b.ret
  refine ⟨b.failed, by rw [b.running, a.running], ?_, ?_, ⟨d1 ++ d2, ?_⟩, ⟨n1 ++ n2, ?_, ?_⟩⟩
  · rw [a.dq, b.dq]; simp
  · rw [b.line, a.line]; simp
  · rw [hd2, hd1]; simp
  · rw [hn2, hn1]; simp
  · rw [somes_append]; exact hp1.append hp2

theorem grow_dispatch (s : S) (x : Nat) (r : List Nat) (hf : s.failed = false) (hq : s.q = x :: r) :
    Grow s { s with q := r, dispatched := s.dispatched ++ [x] } [] [] :=
  ⟨hf, rfl, rfl, by simp [hq], ⟨[x], rfl⟩, ⟨[], by simp⟩⟩

theorem grow_recallRun (s : S) (hf : s.failed = false) : ∃ rel, Grow s (recallRun s) [] rel := by
  unfold recallRun
  split
  · next hd => exact ⟨[], hf, rfl, by simp [hd], by simp, ⟨[], by simp⟩, ⟨[none], by simp⟩⟩
  · next e rest hd =>
    exact ⟨[e], hf, rfl, by simp [hd], by simp, ⟨[], by simp⟩, ⟨[some e], by simp⟩⟩

/-- the drain loop (current source, any handler, any fuel) only releases deferred events, oldest
first, to the back of the time line -/
theorem drain_grow (h : Nat → Bool) (n : Nat) (s : S) (hr : s.running = true)
    (hf : s.failed = false) : ∃ rel, Grow s (drain ⟨true⟩ h n s) [] rel := by
  induction n generalizing s with
  | zero => exact ⟨[], by rw [drain_zero]; exact Grow.refl s hf⟩
  | succ n ih =>
    match hq : s.q with
    | [] => exact ⟨[], by rw [drain_nil _ _ _ _ hq]; exact Grow.refl s hf⟩
    | x :: r =>
      rw [drain_cons _ _ _ _ x r hf hq]
      have g1 := grow_dispatch s x r hf hq
      cases hx : h x
      · simp only [Bool.false_eq_true, if_false]
        obtain ⟨rel, g2⟩ := ih _ (by simpa using hr) g1.failed
        exact ⟨[] ++ rel, g1.trans g2⟩
      · simp only [if_true]
        rw [recall_running h n _ (by simpa using hr) g1.failed]
        obtain ⟨r2, g2⟩ := grow_recallRun _ g1.failed
        have g12 := g1.trans g2
        obtain ⟨r3, g3⟩ := ih _ (by rw [g12.running]; exact hr) g12.failed
        exact ⟨_, g12.trans g3⟩

/-- a top-level `post_fifo(x)` -/
theorem post_top_grow (h : Nat → Bool) (n : Nat) (s : S) (x : Nat) (hr : s.running = false)
    (hf : s.failed = false) : ∃ rel, Grow s (post ⟨true⟩ h n s x) [x] rel := by
  obtain ⟨q, dq, d, ret, run, fl⟩ := s
  simp only at hr hf
  subst hr hf
  obtain ⟨rel, g⟩ := drain_grow h n ⟨q ++ [x], dq, d, ret, true, false⟩ rfl rfl
  obtain ⟨d', hd⟩ := g.disp
  obtain ⟨nw, hn, hp⟩ := g.ret
  have hl := g.line
  have hdq := g.dq
  have hfl := g.failed
  simp only [post, postWith, Bool.false_eq_true, if_false] at *
  exact ⟨rel, hfl, rfl, hdq, by simpa using hl, ⟨d', hd⟩, ⟨nw, hn, hp⟩⟩

/-- the outer `recall()` around its `post_fifo(e)`: `e` was popped before, is returned after -/
theorem Grow.outer {s0 s2 : S} {e : Nat} {rest rel : List Nat} (hd : s0.dq = e :: rest)
    (g : Grow { s0 with dq := rest } s2 [e] rel) :
    Grow s0 { s2 with returned := s2.returned ++ [some e] } [] (e :: rel) := by
  obtain ⟨d', hd'⟩ := g.disp
  obtain ⟨nw, hn, hp⟩ := g.ret
  have hl := g.line
  have hdq := g.dq
  simp only at hl hdq hn hd'
  refine ⟨g.failed, g.running, ?_, ?_, ⟨d', hd'⟩, ⟨nw ++ [some e], ?_, ?_⟩⟩
  · simp [hd, hdq]
  · simpa using hl
  · simp [hn]
  · simp only [somes_append, somes_some]
    exact (List.perm_append_singleton e _).trans (hp.cons e)

/-- a top-level `recall()` -/
theorem recall_top_grow (h : Nat → Bool) (n : Nat) (s : S) (hr : s.running = false)
    (hf : s.failed = false) : ∃ rel, Grow s (recall ⟨true⟩ h n s) [] rel := by
  obtain ⟨q, dq, d, ret, run, fl⟩ := s
  simp only at hr hf
  subst hr hf
  cases dq with
  | nil =>
    exact ⟨[], rfl, rfl, rfl, by simp [recall, recallWith], ⟨[], by simp [recall, recallWith]⟩,
      ⟨[none], by simp [recall, recallWith]⟩⟩
  | cons e rest =>
    obtain ⟨rel, g⟩ := post_top_grow h n ⟨q, rest, d, ret, false, false⟩ e rfl rfl
    have hrec : recall ⟨true⟩ h n ⟨q, e :: rest, d, ret, false, false⟩ =
        if (post ⟨true⟩ h n ⟨q, rest, d, ret, false, false⟩ e).failed = true
        then post ⟨true⟩ h n ⟨q, rest, d, ret, false, false⟩ e
        else { post ⟨true⟩ h n ⟨q, rest, d, ret, false, false⟩ e with
                returned := (post ⟨true⟩ h n ⟨q, rest, d, ret, false, false⟩ e).returned ++ [some e] } := rfl
    rw [hrec, if_neg (by rw [g.failed]; simp)]
    exact ⟨e :: rel, Grow.outer (s0 := ⟨q, e :: rest, d, ret, false, false⟩) rfl g⟩

/-! ### the invariant of top-level runs -/

/-- `D`: everything deferred so far (deferral order), `P`: everything the client posted so far -/
structure Inv (s : S) (D P : List Nat) : Prop where
  failed : s.failed = false
  running : s.running = false
  defd : (s.dispatched ++ s.q).filter isDef ++ s.dq = D
  posted : (s.dispatched ++ s.q).filter (fun x => !isDef x) = P
  ret : (somes s.returned).Perm ((s.dispatched ++ s.q).filter isDef)

theorem Inv.empty : Inv S.empty [] [] := ⟨rfl, rfl, rfl, rfl, by simp [S.empty]⟩

theorem Inv.dq_sub {s : S} {D P : List Nat} (i : Inv s D P) : ∀ x ∈ s.dq, x ∈ D := by
  intro x hx; rw [← i.defd]; simp [hx]

theorem Inv.grow {s s' : S} {D P ins rel : List Nat} (i : Inv s D P) (hD : ∀ x ∈ D, isDef x = true)
    (hins : ∀ x ∈ ins, isDef x = false) (g : Grow s s' ins rel) : Inv s' D (P ++ ins) := by
  have hrel : ∀ x ∈ rel, isDef x = true := by
    intro x hx; apply hD; apply i.dq_sub; rw [g.dq]; simp [hx]
  have h1 : List.filter isDef rel = rel := List.filter_eq_self.mpr hrel
  have h2 : List.filter isDef ins = [] := by
    rw [List.filter_eq_nil_iff]; intro a ha; simp [hins a ha]
  have h3 : List.filter (fun x => !isDef x) rel = [] := by
    rw [List.filter_eq_nil_iff]; intro a ha; simp [hrel a ha]
  have h4 : List.filter (fun x => !isDef x) ins = ins := by
    rw [List.filter_eq_self]; intro a ha; simp [hins a ha]
  obtain ⟨nw, hn, hp⟩ := g.ret
  have e1 : List.filter isDef (s.dispatched ++ s.q ++ ins ++ rel)
      = List.filter isDef (s.dispatched ++ s.q) ++ rel := by
    rw [List.filter_append, List.filter_append, h1, h2, List.append_nil]
  have e2 : List.filter (fun x => !isDef x) (s.dispatched ++ s.q ++ ins ++ rel)
      = List.filter (fun x => !isDef x) (s.dispatched ++ s.q) ++ ins := by
    rw [List.filter_append, List.filter_append, h3, h4, List.append_nil]
  refine ⟨g.failed, by rw [g.running, i.running], ?_, ?_, ?_⟩
  · rw [g.line, e1, ← i.defd, g.dq, List.append_assoc]
  · rw [g.line, e2, ← i.posted]
  · rw [g.line, e1, hn, somes_append]
    exact i.ret.append hp

theorem Inv.defer {s : S} {D P : List Nat} (i : Inv s D P) (x : Nat) :
    Inv (deferOp s x) (D ++ [x]) P := by
  refine ⟨i.failed, i.running, ?_, i.posted, i.ret⟩
  simp only [deferOp]
  rw [← i.defd]; simp

theorem deferredOf_cons_defer (x : Nat) (r : List Op) : deferredOf (.defer x :: r) = x :: deferredOf r := rfl
theorem postedOf_cons_post (x : Nat) (r : List Op) : postedOf (.post x :: r) = x :: postedOf r := rfl

theorem deferredOf_append (a b : List Op) : deferredOf (a ++ b) = deferredOf a ++ deferredOf b := by
  induction a with
  | nil => rfl
  | cons o a ih => cases o <;> simp [deferredOf, ih]

theorem postedOf_append (a b : List Op) : postedOf (a ++ b) = postedOf a ++ postedOf b := by
  induction a with
  | nil => rfl
  | cons o a ih => cases o <;> simp [postedOf, ih]

/-- the invariant along any list of client operations, any handler, ANY fuel -/
theorem runOps_inv (h : Nat → Bool) (fuel : Nat) (ops : List Op) (s : S) (D P : List Nat)
    (i : Inv s D P) (hD : ∀ x ∈ D ++ deferredOf ops, isDef x = true)
    (hP : ∀ x ∈ postedOf ops, isDef x = false) :
    Inv (runOps ⟨true⟩ h fuel s ops) (D ++ deferredOf ops) (P ++ postedOf ops) := by
  induction ops generalizing s D P with
  | nil => simpa [runOps, deferredOf, postedOf] using i
  | cons o ops ih =>
    have hD0 : ∀ x ∈ D, isDef x = true := fun x hx => hD x (by simp [hx])
    cases o with
    | defer x =>
      have := ih (deferOp s x) (D ++ [x]) P (i.defer x)
        (by intro y hy; apply hD; simpa [deferredOf] using hy)
        (by intro y hy; apply hP; simpa [postedOf] using hy)
      simpa [runOps, stepOp, deferredOf, postedOf] using this
    | recall =>
      obtain ⟨rel, g⟩ := recall_top_grow h fuel s i.running i.failed
      have i' := i.grow hD0 (by simp) g
      have := ih (recall ⟨true⟩ h fuel s) D (P ++ []) i'
        (by intro y hy; apply hD; simpa [deferredOf] using hy)
        (by intro y hy; apply hP; simpa [postedOf] using hy)
      simpa [runOps, stepOp, deferredOf, postedOf] using this
    | post x =>
      obtain ⟨rel, g⟩ := post_top_grow h fuel s x i.running i.failed
      have hx : isDef x = false := hP x (by simp [postedOf])
      have i' := i.grow hD0 (by simpa using hx) g
      have := ih (post ⟨true⟩ h fuel s x) D (P ++ [x]) i'
        (by intro y hy; apply hD; simpa [deferredOf] using hy)
        (by intro y hy; apply hP; simp [postedOf, hy])
      simpa [runOps, stepOp, deferredOf, postedOf] using this

/-! ### fuel -/

theorem recallRun_measure (s : S) :
    (recallRun s).q.length + (recallRun s).dq.length = s.q.length + s.dq.length := by
  unfold recallRun; split <;> simp_all <;> omega

theorem recallRun_flags (s : S) :
    (recallRun s).running = s.running ∧ (recallRun s).failed = s.failed := by
  unfold recallRun; split <;> simp

/-- with `q.length + dq.length` units of fuel the loop empties the queue, and more fuel gives the
same state -/
theorem drain_stable (h : Nat → Bool) (n : Nat) (s : S) (hr : s.running = true)
    (hf : s.failed = false) (hn : s.q.length + s.dq.length ≤ n) :
    (∀ m, n ≤ m → drain ⟨true⟩ h m s = drain ⟨true⟩ h n s) ∧ (drain ⟨true⟩ h n s).q = [] := by
  induction n generalizing s with
  | zero =>
    have hq : s.q = [] := List.length_eq_zero_iff.mp (by omega)
    exact ⟨fun m _ => by rw [drain_nil _ _ _ _ hq, drain_nil _ _ _ _ hq], by rw [drain_zero]; exact hq⟩
  | succ n ih =>
    match hq : s.q with
    | [] =>
      refine ⟨fun m _ => by rw [drain_nil _ _ _ _ hq, drain_nil _ _ _ _ hq], ?_⟩
      rw [drain_nil _ _ _ _ hq]; exact hq
    | x :: r =>
      rw [hq] at hn
      simp only [List.length_cons] at hn
      rw [drain_cons _ _ _ _ x r hf hq]
      cases hx : h x
      · simp only [Bool.false_eq_true, if_false]
        obtain ⟨ih1, ih2⟩ := ih { s with q := r, dispatched := s.dispatched ++ [x] }
          (by simpa using hr) (by simpa using hf) (by simp; omega)
        refine ⟨?_, ih2⟩
        intro m hm
        obtain ⟨m', rfl⟩ : ∃ m', m = m' + 1 := ⟨m - 1, by omega⟩
        rw [drain_cons _ _ _ _ x r hf hq]
        simp only [hx, Bool.false_eq_true, if_false]
        exact ih1 m' (by omega)
      · simp only [if_true]
        have hr1 : ({ s with q := r, dispatched := s.dispatched ++ [x] } : S).running = true := by simpa using hr
        have hf1 : ({ s with q := r, dispatched := s.dispatched ++ [x] } : S).failed = false := by simpa using hf
        rw [recall_running h n _ hr1 hf1]
        have hm := recallRun_measure { s with q := r, dispatched := s.dispatched ++ [x] }
        have hfl := recallRun_flags { s with q := r, dispatched := s.dispatched ++ [x] }
        obtain ⟨ih1, ih2⟩ := ih (recallRun { s with q := r, dispatched := s.dispatched ++ [x] })
          (by rw [hfl.1]; exact hr1) (by rw [hfl.2]; exact hf1) (by rw [hm]; simp; omega)
        refine ⟨?_, ih2⟩
        intro m hm
        obtain ⟨m', rfl⟩ : ∃ m', m = m' + 1 := ⟨m - 1, by omega⟩
        rw [drain_cons _ _ _ _ x r hf hq]
        simp only [hx, if_true]
        rw [recall_running h m' _ hr1 hf1]
        exact ih1 m' (by omega)

/-- top-level `post_fifo(x)`: with `fuelBound s` units the queue is empty afterwards and more fuel
gives the same state -/
theorem post_top_fuel (h : Nat → Bool) (n m : Nat) (s : S) (x : Nat) (hr : s.running = false)
    (hf : s.failed = false) (hn : s.q.length + s.dq.length + 1 ≤ n) (hm : n ≤ m) :
    post ⟨true⟩ h m s x = post ⟨true⟩ h n s x ∧ (post ⟨true⟩ h n s x).q = [] := by
  obtain ⟨q, dq, d, ret, run, fl⟩ := s
  simp only at hr hf hn
  subst hr hf
  obtain ⟨h1, h2⟩ := drain_stable h n ⟨q ++ [x], dq, d, ret, true, false⟩ rfl rfl
    (by simp; omega)
  simp only [post, postWith, Bool.false_eq_true, if_false]
  rw [h1 m hm]
  exact ⟨rfl, h2⟩

/-- top-level `recall()`: the same; if something is deferred, the queue is empty afterwards -/
theorem recall_top_fuel (h : Nat → Bool) (n m : Nat) (s : S) (hr : s.running = false)
    (hf : s.failed = false) (hn : s.q.length + s.dq.length ≤ n) (hm : n ≤ m) :
    recall ⟨true⟩ h m s = recall ⟨true⟩ h n s ∧
    (s.dq = [] → (recall ⟨true⟩ h n s).q = s.q) ∧ (s.dq ≠ [] → (recall ⟨true⟩ h n s).q = []) := by
  obtain ⟨q, dq, d, ret, run, fl⟩ := s
  simp only at hr hf hn
  subst hr hf
  cases dq with
  | nil => simp [recall, recallWith]
  | cons e rest =>
    simp only [List.length_cons] at hn
    obtain ⟨h1, h2⟩ := post_top_fuel h n m ⟨q, rest, d, ret, false, false⟩ e rfl rfl
      (by simp; omega) hm
    simp only [recall, recallWith, Bool.false_eq_true, if_false, if_true]
    rw [h1]
    refine ⟨rfl, by simp, fun _ => ?_⟩
    split <;> simp [h2]

/-! ### the chain: every handler call recalls -/

theorem drain_chain (h : Nat → Bool) (hall : ∀ x, h x = true) (n : Nat) (s : S) (x : Nat)
    (hr : s.running = true) (hf : s.failed = false) (hq : s.q = [x]) (hn : s.dq.length + 1 ≤ n) :
    drain ⟨true⟩ h n s =
      { s with q := [], dq := [], dispatched := s.dispatched ++ x :: s.dq,
               returned := s.returned ++ s.dq.map some ++ [none] } := by
  induction n generalizing s x with
  | zero => omega
  | succ n ih =>
    rw [drain_cons _ _ _ _ x [] hf hq]
    simp only [hall, if_true]
    rw [recall_running h n _ (by simpa using hr) (by simpa using hf)]
    obtain ⟨q, dq, d, ret, run, fl⟩ := s
    simp only at hr hf hq hn
    subst hr hf hq
    cases dq with
    | nil => simp [recallRun, drain_nil]
    | cons y rest =>
      simp only [List.length_cons] at hn
      simp only [recallRun]
      rw [ih _ y rfl rfl rfl (by simp; omega)]
      simp

/-! ### no re-entry: the handler never recalls -/

/-- without recalls the loop just dispatches the first `n` pending events -/
theorem drain_noh (t : Tags) (n : Nat) (s : S) :
    drain t (fun _ => false) n s =
      if s.failed then s
      else { s with q := s.q.drop n, dispatched := s.dispatched ++ s.q.take n } := by
  induction n generalizing s with
  | zero =>
    obtain ⟨q, dq, d, ret, run, fl⟩ := s
    cases fl <;> simp [drain_zero]
  | succ n ih =>
    obtain ⟨q, dq, d, ret, run, fl⟩ := s
    cases fl
    · cases q with
      | nil => rw [drain_nil _ _ _ _ rfl]; simp
      | cons x r => rw [drain_cons _ _ _ _ x r rfl rfl, ih]; simp
    · rw [drain_failed _ _ _ _ rfl]; simp

/-- **the seeded change is invisible without re-entry**: one call, any state -/
theorem recall_noh_same (n : Nat) (s : S) :
    recall ⟨false⟩ (fun _ => false) n s = recall ⟨true⟩ (fun _ => false) n s := by
  obtain ⟨q, dq, d, ret, run, fl⟩ := s
  unfold recall recallWith post postWith
  simp only [drain_noh]
  cases fl <;> cases run <;> cases dq <;> simp

theorem post_noh_same (n : Nat) (s : S) (x : Nat) :
    post ⟨false⟩ (fun _ => false) n s x = post ⟨true⟩ (fun _ => false) n s x := by
  unfold post postWith
  simp only [drain_noh]

theorem runOps_noh_same (n : Nat) (s : S) (ops : List Op) :
    runOps ⟨false⟩ (fun _ => false) n s ops = runOps ⟨true⟩ (fun _ => false) n s ops := by
  induction ops generalizing s with
  | nil => rfl
  | cons o ops ih =>
    simp only [runOps, List.foldl_cons] at ih ⊢
    cases o with
    | defer x => exact ih _
    | recall => simp only [stepOp]; rw [recall_noh_same]; exact ih _
    | post x => simp only [stepOp]; rw [post_noh_same]; exact ih _

/-! ### top-level calls, unfolded -/

theorem post_top_eq (t : Tags) (h : Nat → Bool) (n : Nat) (q dq d : List Nat) (ret : List (Option Nat))
    (fl : Bool) (x : Nat) :
    post t h n ⟨q, dq, d, ret, false, fl⟩ x =
      { drain t h n ⟨q ++ [x], dq, d, ret, true, fl⟩ with running := false } := rfl

theorem recall_top_nil (t : Tags) (h : Nat → Bool) (n : Nat) (s : S) (hd : s.dq = [])
    (hf : s.failed = false) : recall t h n s = { s with returned := s.returned ++ [none] } := by
  obtain ⟨q, dq, d, ret, run, fl⟩ := s
  simp only at hd hf
  subst hd hf
  rfl

theorem recall_top_cons (h : Nat → Bool) (n : Nat) (q rest d : List Nat) (ret : List (Option Nat))
    (e : Nat) :
    recall ⟨true⟩ h n ⟨q, e :: rest, d, ret, false, false⟩ =
      { post ⟨true⟩ h n ⟨q, rest, d, ret, false, false⟩ e with
          returned := (post ⟨true⟩ h n ⟨q, rest, d, ret, false, false⟩ e).returned ++ [some e] } := by
  obtain ⟨rel, g⟩ := post_top_grow h n ⟨q, rest, d, ret, false, false⟩ e rfl rfl
  have hrec : recall ⟨true⟩ h n ⟨q, e :: rest, d, ret, false, false⟩ =
      if (post ⟨true⟩ h n ⟨q, rest, d, ret, false, false⟩ e).failed = true
      then post ⟨true⟩ h n ⟨q, rest, d, ret, false, false⟩ e
      else { post ⟨true⟩ h n ⟨q, rest, d, ret, false, false⟩ e with
              returned := (post ⟨true⟩ h n ⟨q, rest, d, ret, false, false⟩ e).returned ++ [some e] } := rfl
  rw [hrec, if_neg (by rw [g.failed]; simp)]

/-- the loop dispatches the front of the queue first -/
theorem drain_first (h : Nat → Bool) (n : Nat) (s : S) (x : Nat) (r : List Nat)
    (hr : s.running = true) (hf : s.failed = false) (hq : s.q = x :: r) :
    ∃ d, (drain ⟨true⟩ h (n + 1) s).dispatched = s.dispatched ++ x :: d := by
  rw [drain_cons _ _ _ _ x r hf hq]
  have g1 := grow_dispatch s x r hf hq
  have hr1 : ({ s with q := r, dispatched := s.dispatched ++ [x] } : S).running = true := by simpa using hr
  cases hx : h x
  · simp only [Bool.false_eq_true, if_false]
    obtain ⟨rel, g2⟩ := drain_grow h n _ hr1 g1.failed
    obtain ⟨d, hd⟩ := g2.disp
    exact ⟨d, by rw [hd]; simp⟩
  · simp only [if_true]
    rw [recall_running h n _ hr1 g1.failed]
    obtain ⟨r2, g2⟩ := grow_recallRun _ g1.failed
    obtain ⟨r3, g3⟩ := drain_grow h n _ (by rw [g2.running]; exact hr1) g2.failed
    obtain ⟨d2, hd2⟩ := g2.disp
    obtain ⟨d3, hd3⟩ := g3.disp
    exact ⟨d2 ++ d3, by rw [hd3, hd2]; simp⟩

/-- a top-level `recall()` with the queue empty and `e` the oldest deferred event: `e` is the
first event dispatched, `some e` the last value returned -/
theorem recall_top_oldest (h : Nat → Bool) (n : Nat) (s : S) (e : Nat) (rest : List Nat)
    (hd : s.dq = e :: rest) (hq : s.q = []) (hr : s.running = false) (hf : s.failed = false) :
    let s' := recall ⟨true⟩ h (n + 1) s
    (∃ mid, s'.returned = s.returned ++ mid ++ [some e]) ∧
    (∃ d, s'.dispatched = s.dispatched ++ e :: d) := by
  obtain ⟨q, dq, d, ret, run, fl⟩ := s
  simp only at hd hq hr hf
  subst hd hq hr hf
  intro s'
  have hs' : s' = _ := recall_top_cons h (n + 1) [] rest d ret e
  obtain ⟨rel, g⟩ := post_top_grow h (n + 1) ⟨[], rest, d, ret, false, false⟩ e rfl rfl
  obtain ⟨nw, hn, _⟩ := g.ret
  obtain ⟨d', hd'⟩ := drain_first h n ⟨[e], rest, d, ret, true, false⟩ e [] rfl rfl rfl
  rw [hs']
  refine ⟨⟨nw, ?_⟩, ⟨d', ?_⟩⟩
  · simp only at hn ⊢
    rw [hn]
  · rw [post_top_eq]
    exact hd'

/-- the chain: every handler call recalls; one top-level `recall()` releases and dispatches
everything deferred, in deferral order -/
theorem recall_top_chain (h : Nat → Bool) (hall : ∀ x, h x = true) (n : Nat) (s : S)
    (hq : s.q = []) (hr : s.running = false) (hf : s.failed = false) (hn : s.dq.length ≤ n) :
    recall ⟨true⟩ h n s =
      { s with dq := [], dispatched := s.dispatched ++ s.dq,
               returned := s.returned ++ s.dq.tail.map some ++ [none] ++ (s.dq.head?.map some).toList } := by
  obtain ⟨q, dq, d, ret, run, fl⟩ := s
  simp only at hq hr hf hn
  subst hq hr hf
  cases dq with
  | nil => simp [recall_top_nil]
  | cons e rest =>
    simp only [List.length_cons] at hn
    rw [recall_top_cons, post_top_eq,
      drain_chain h hall n ⟨[] ++ [e], rest, d, ret, true, false⟩ e rfl rfl rfl (by simp; omega)]
    simp

/-! ### whole runs -/

/-- the class of op lists the property speaks about: deferred payloads are pairwise distinct and
`< 1000`, the client's own posts are "other" events (`≥ 1000`) -/
structure OpsOk (ops : List Op) : Prop where
  nodup : (deferredOf ops).Nodup
  small : ∀ x ∈ deferredOf ops, x < 1000
  big : ∀ x ∈ postedOf ops, 1000 ≤ x

/-- the invariant after any run from the empty state (any handler, any fuel) -/
theorem run_inv (h : Nat → Bool) (fuel : Nat) (ops : List Op) (ok : OpsOk ops) :
    Inv (runOps ⟨true⟩ h fuel S.empty ops) (deferredOf ops) (postedOf ops) := by
  have := runOps_inv h fuel ops S.empty [] [] Inv.empty
    (by intro x hx; simp only [List.nil_append] at hx; simpa [isDef] using ok.small x hx)
    (by intro x hx; have := ok.big x hx; simp [isDef]; omega)
  simpa using this

theorem runOps_cons (t : Tags) (h : Nat → Bool) (n : Nat) (s : S) (o : Op) (ops : List Op) :
    runOps t h n s (o :: ops) = runOps t h n (stepOp t h n s o) ops := rfl

theorem runOps_append (t : Tags) (h : Nat → Bool) (n : Nat) (s : S) (a b : List Op) :
    runOps t h n s (a ++ b) = runOps t h n (runOps t h n s a) b := by
  simp [runOps, List.foldl_append]

/-- enough fuel for a whole run: the state does not depend on the fuel, the queue is empty after
every top-level call -/
theorem runOps_fuel (h : Nat → Bool) (ops : List Op) (s : S) (n m : Nat) (hr : s.running = false)
    (hf : s.failed = false) (hq : s.q = []) (hn : s.dq.length + ops.length + 1 ≤ n) (hm : n ≤ m) :
    runOps ⟨true⟩ h m s ops = runOps ⟨true⟩ h n s ops ∧ (runOps ⟨true⟩ h n s ops).q = [] ∧
    (runOps ⟨true⟩ h n s ops).running = false ∧ (runOps ⟨true⟩ h n s ops).failed = false := by
  induction ops generalizing s with
  | nil => exact ⟨rfl, hq, hr, hf⟩
  | cons o ops ih =>
    simp only [List.length_cons] at hn
    rw [runOps_cons, runOps_cons]
    cases o with
    | defer x =>
      exact ih (deferOp s x) hr hf hq (by simp [deferOp]; omega)
    | recall =>
      simp only [stepOp]
      obtain ⟨h1, h2, h3⟩ := recall_top_fuel h n m s hr hf (by rw [hq]; simp; omega) hm
      obtain ⟨rel, g⟩ := recall_top_grow h n s hr hf
      rw [h1]
      have hlen : (recall ⟨true⟩ h n s).dq.length ≤ s.dq.length := by
        have := congrArg List.length g.dq
        simp at this; omega
      refine ih _ (by rw [g.running, hr]) g.failed ?_ (by omega)
      cases hdq : s.dq with
      | nil => rw [h2 hdq, hq]
      | cons a b => exact h3 (by rw [hdq]; simp)
    | post x =>
      simp only [stepOp]
      obtain ⟨h1, h2⟩ := post_top_fuel h n m s x hr hf (by rw [hq]; simp; omega) hm
      obtain ⟨rel, g⟩ := post_top_grow h n s x hr hf
      rw [h1]
      have hlen : (post ⟨true⟩ h n s x).dq.length ≤ s.dq.length := by
        have := congrArg List.length g.dq
        simp at this; omega
      exact ih _ (by rw [g.running, hr]) g.failed h2 (by omega)

end Miros.Queue.Eager
