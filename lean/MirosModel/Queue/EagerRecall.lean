/-!
# `recall()` re-entered from the step its own post started (`Eager` charts)

A common way to drive a queued chart without a thread is a subclass whose `post_fifo` steps the
chart until its queue is empty (unless it is already doing so):

```
class Eager(HsmWithQueues):
    _running = False
    def _drain(self):
        if self._running: return
        self._running = True
        try:
            while self.next_rtc(): pass
        finally: self._running = False
    def post_fifo(self, e):
        super().post_fifo(e); self._drain()
```

and a handler that, when it is handed a released event, recalls the next one (`chart.recall()`).
A `recall()` made from outside posts the oldest deferred event, the post runs the chart, the
handler calls `recall()` AGAIN — from inside the step the outer recall's post started, i.e. while
the outer `recall()` has not returned yet.  The real `recall` is

```
e = None
if len(self.defer_queue) != 0:
    e = self.defer_queue.popleft()      # pop FIRST
    self.post_fifo(e)                   # then post (may run the chart and re-enter recall)
return e
```

`Tags.popFirst = true` is that source.  `popFirst = false` is a seeded change ("peek
`defer_queue[0]`, post it, then `popleft()`"): the nested recall sees the same head again, posts
it a second time, and the pops that follow remove events that were never posted, or fail on an
empty deque (`failed`, the Python `IndexError`; sticky).

The model is sequential, re-entrant and fuel-bounded.  An event is its payload number; events
with payload `≥ 1000` are "other" events (the driver's handler never recalls for them).

## Fuel

Only the `while` loop of `_drain` consumes fuel: `recall fuel` calls `post fuel`, `post fuel` calls
`drain fuel`, and `drain (n+1)` calls `recall n` (for the handler) and `drain n` (next iteration).
`drain 0` stops and leaves the queue as it is.  One unit of fuel is one dispatched event, so a
top-level `recall` / `post` on a state `s` with `running = false` completes (empties the queue)
as soon as

  `fuel ≥ s.dq.length + s.q.length + 1`

(in particular with the coarser `fuel ≥ 3 * (s.dq.length + s.q.length) + 3`); from the empty state,
`fuel ≥ ops.length + 1` is enough for a whole list of client operations (the driver uses
`3 * ops.length + 10`).  See `Props/C15Eager.lean`, `C15_eager_fuel_enough`.
-/
namespace Miros.Queue.Eager

structure Tags where
  popFirst : Bool                 -- true = current source (pop the deferred event, then post it)
deriving DecidableEq, Repr

structure S where
  q : List Nat                    -- pending events (front first); an event is its payload number
  dq : List Nat                   -- deferred events, oldest first
  dispatched : List Nat           -- payloads handed to the handler, in order
  returned : List (Option Nat)    -- what each finished recall() returned, in order of RETURN (inner ones first)
  running : Bool                  -- Eager._running
  failed : Bool                   -- a popleft on an empty deque happened (IndexError): everything stops (sticky)
deriving DecidableEq, Repr

/-- a fresh chart: nothing pending, nothing deferred -/
def S.empty : S := ⟨[], [], [], [], false, false⟩

/-- `Eager.post_fifo(e)`, given the `while` loop of `_drain` as `dr`: append, then (unless the
chart is already being drained) set `_running`, run the loop, clear `_running` -/
def postWith (dr : S → S) (s : S) (e : Nat) : S :=
  let s1 := { s with q := s.q ++ [e] }
  if s1.running then s1
  else
    let s2 := dr { s1 with running := true }
    { s2 with running := false }

/-- `recall()`, given `post_fifo` as `po` -/
def recallWith (t : Tags) (po : S → Nat → S) (s : S) : S :=
  if s.failed then s
  else match s.dq with
    | [] => { s with returned := s.returned ++ [none] }
    | e :: rest =>
      if t.popFirst then
        -- current source: `e = popleft(); post_fifo(e); return e`
        let s2 := po { s with dq := rest } e
        if s2.failed then s2 else { s2 with returned := s2.returned ++ [some e] }
      else
        -- seeded: `e = defer_queue[0]; post_fifo(e); popleft(); return e`
        let s2 := po s e
        if s2.failed then s2
        else match s2.dq with
          | [] => { s2 with failed := true }
          | _ :: tl => { s2 with dq := tl, returned := s2.returned ++ [some e] }

/-- the `while self.next_rtc(): pass` loop of `_drain` (`_running` already set); `h x` = does the
handler, handed event `x`, call `chart.recall()`? -/
def drain (t : Tags) (h : Nat → Bool) : Nat → S → S
  | 0, s => s
  | n + 1, s =>
    if s.failed then s
    else match s.q with
      | [] => s
      | x :: r =>
        let s1 := { s with q := r, dispatched := s.dispatched ++ [x] }
        let s2 := if h x then recallWith t (postWith (drain t h n)) s1 else s1
        drain t h n s2

/-- `Eager.post_fifo` -/
def post (t : Tags) (h : Nat → Bool) (fuel : Nat) (s : S) (e : Nat) : S :=
  postWith (drain t h fuel) s e

/-- `HsmWithQueues.recall` on an `Eager` chart -/
def recall (t : Tags) (h : Nat → Bool) (fuel : Nat) (s : S) : S :=
  recallWith t (post t h fuel) s

/-- client operations between top-level calls -/
inductive Op
  | defer (x : Nat)
  | recall
  | post (x : Nat)
deriving DecidableEq, Repr

/-- `defer(e)`: unbounded here (capacity is the subject of other theorems) -/
def deferOp (s : S) (x : Nat) : S := { s with dq := s.dq ++ [x] }

def stepOp (t : Tags) (h : Nat → Bool) (fuel : Nat) (s : S) : Op → S
  | .defer x => deferOp s x
  | .recall => recall t h fuel s
  | .post x => post t h fuel s x

def runOps (t : Tags) (h : Nat → Bool) (fuel : Nat) (s : S) (ops : List Op) : S :=
  ops.foldl (stepOp t h fuel) s

/-- payloads deferred by an op list, in deferral order -/
def deferredOf : List Op → List Nat
  | [] => []
  | .defer x :: r => x :: deferredOf r
  | _ :: r => deferredOf r

/-- payloads posted by the client, in order -/
def postedOf : List Op → List Nat
  | [] => []
  | .post x :: r => x :: postedOf r
  | _ :: r => postedOf r

/-- the payloads the finished recalls returned (the `some _` entries of `returned`) -/
def somes (r : List (Option Nat)) : List Nat := r.filterMap id

/-- is the payload a deferrable ("recall the next one") event?  other events are `≥ 1000` -/
def isDef (x : Nat) : Bool := decide (x < 1000)

/-- the fuel a top-level call on `s` needs (see the header) -/
def fuelBound (s : S) : Nat := s.dq.length + s.q.length + 1

end Miros.Queue.Eager
