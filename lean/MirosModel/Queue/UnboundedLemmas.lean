import MirosModel.Queue.Lemmas
import MirosModel.Queue.Unbounded
/-! Lemmas relating the bounded queue model (`Model.lean`) and the unbounded one (`Unbounded.lean`):
a bounded run in which no push finds its queue full is the unbounded run; the unbounded run loses
nothing; a capacity of at least (events present + events created) is never reached. -/
namespace Miros.Queue
open Miros.Hsm

/-! ### projections -/

@[simp] theorem toU_q (s : QState) : s.toU.q = s.q := rfl
@[simp] theorem toU_dq (s : QState) : s.toU.dq = s.dq := rfl
@[simp] theorem toU_cur (s : QState) : s.toU.cur = s.cur := rfl
@[simp] theorem toU_next (s : QState) : s.toU.next = s.next := rfl
@[simp] theorem toU_dispatched (s : QState) : s.toU.dispatched = s.dispatched := rfl
@[simp] theorem withCap_toU (u : QStateU) (cap : Nat) : (u.withCap cap).toU = u := rfl
@[simp] theorem withCap_cap (u : QStateU) (cap : Nat) : (u.withCap cap).cap = cap := rfl
@[simp] theorem withCap_q (u : QStateU) (cap : Nat) : (u.withCap cap).q = u.q := rfl
@[simp] theorem withCap_dq (u : QStateU) (cap : Nat) : (u.withCap cap).dq = u.dq := rfl
@[simp] theorem withCap_dispatched (u : QStateU) (cap : Nat) : (u.withCap cap).dispatched = u.dispatched := rfl
@[simp] theorem withCap_next (u : QStateU) (cap : Nat) : (u.withCap cap).next = u.next := rfl
@[simp] theorem withCap_cur (u : QStateU) (cap : Nat) : (u.withCap cap).cur = u.cur := rfl
theorem toU_withCap (s : QState) : s.toU.withCap s.cap = s := rfl
theorem init_toU (cap : Nat) (cur : St) : (init cap cur).toU = initU cur := rfl
theorem initU_withCap (cap : Nat) (cur : St) : (initU cur).withCap cap = init cap cur := rfl

/-! ### a push into a deque that is not full is the unbounded push -/

theorem pushBack_eq_U (cap : Nat) (l : List Ev) (x : Ev) (h : l.length < cap) :
    pushBack cap l x = pushBackU l x := pushBack_not_full cap l x h

theorem pushFront_eq_U (cap : Nat) (l : List Ev) (x : Ev) (h : l.length < cap) :
    pushFront cap l x = pushFrontU l x := pushFront_not_full cap l x h

/-! ### agreement, level by level -/

/-- the value `recall()` returns never depends on the capacity -/
theorem recall_snd_toU (s : QState) : (recall s).2 = (recallU s.toU).2 := by
  obtain ⟨cap, q, dq, cur, next, disp⟩ := s
  cases dq <;> rfl

theorem recall_toU (s : QState) (h : effOk s .recall = true) : (recall s).1.toU = (recallU s.toU).1 := by
  obtain ⟨cap, q, dq, cur, next, disp⟩ := s
  cases dq with
  | nil => rfl
  | cons a t =>
    simp [effOk] at h
    simp [recall, recallU, postFifo, postFifoU, QState.toU, pushBackU, pushBack_not_full _ _ _ h]

theorem applyEff_toU (s : QState) (e : Eff) (h : effOk s e = true) :
    (applyEff s e).toU = applyEffU s.toU e := by
  cases e with
  | fifo sg =>
    simp [effOk] at h
    simp [applyEff, applyEffU, postFifo, postFifoU, QState.toU, pushBackU, pushBack_not_full _ _ _ h]
  | lifo sg =>
    simp [effOk] at h
    simp [applyEff, applyEffU, postLifo, postLifoU, QState.toU, pushFrontU, pushFront_not_full _ _ _ h]
  | defer sg =>
    simp [effOk] at h
    simp [applyEff, applyEffU, deferEv, deferEvU, QState.toU, pushBackU, pushBack_not_full _ _ _ h]
  | recall => exact recall_toU s h
  | scribble _ => rfl

theorem foldEff_toU (l : List Eff) (s : QState) (h : effsOk s l = true) :
    (l.foldl applyEff s).toU = l.foldl applyEffU s.toU := by
  induction l generalizing s with
  | nil => rfl
  | cons e t ih =>
    simp only [effsOk, Bool.and_eq_true] at h
    simp only [List.foldl_cons]
    rw [ih _ h.2, applyEff_toU _ _ h.1]

theorem applyLog_toU (qc : QChart) (log : Log) (s : QState) (h : logOk qc s log = true) :
    (applyLog qc s log).toU = applyLogU qc s.toU log := by
  unfold applyLog applyLogU
  induction log generalizing s with
  | nil => rfl
  | cons c t ih =>
    simp only [logOk, Bool.and_eq_true] at h
    simp only [List.foldl_cons]
    rw [ih _ h.2, foldEff_toU _ _ h.1]

theorem nextRtc_toU (qc : QChart) (g : Cfg) (s : QState) (h : rtcOk qc g s = true) :
    (nextRtc qc g s).toU = nextRtcU qc g s.toU := by
  obtain ⟨cap, q, dq, cur, next, disp⟩ := s
  cases q with
  | nil => rfl
  | cons e rest =>
    simp only [rtcOk] at h
    simp only [nextRtc, nextRtcU, toU_q, toU_cur]
    cases hd : dispatch qc.chart g cur e.sig with
    | ok r =>
      rw [hd] at h
      simp only [StepOut.toU]
      rw [applyLog_toU qc r.log _ h]
      rfl
    | raise l => rfl
    | diverge l => rfl

theorem startQ_toU (qc : QChart) (g : Cfg) (s : QState) (t : St) (h : startOk qc g s t = true) :
    (startQ qc g s t).toU = startQU qc g s.toU t := by
  simp only [startOk] at h
  simp only [startQ, startQU]
  cases hd : startAt qc.chart g t with
  | ok r =>
    rw [hd] at h
    simp only [StepOut.toU]
    rw [applyLog_toU qc r.log _ h]
    rfl
  | raise l => rfl
  | diverge l => rfl

theorem completeCircuit_toU (qc : QChart) (g : Cfg) : ∀ (fuel : Nat) (s : QState),
    circuitOk qc g fuel s = true →
    (completeCircuit qc g fuel s).map QState.toU = completeCircuitU qc g fuel s.toU := by
  intro fuel
  induction fuel with
  | zero =>
    intro s _
    simp only [completeCircuit, completeCircuitU, toU_q]
    by_cases hq : s.q = [] <;> simp [hq]
  | succ n ih =>
    intro s h
    simp only [circuitOk] at h
    simp only [completeCircuit, completeCircuitU, toU_q]
    cases hq : s.q with
    | nil => rfl
    | cons e rest =>
      rw [hq] at h
      simp only [Bool.and_eq_true] at h
      have hn := nextRtc_toU qc g s h.1
      simp only []
      rw [← hn]
      cases hr : nextRtc qc g s with
      | stepped s1 l =>
        rw [hr] at h
        simp only [StepOut.toU]
        exact ih s1 h.2
      | idle s1 => rfl
      | failed => rfl

theorem stepOp_toU (qc : QChart) (g : Cfg) (s : QState) (o : Op) (h : opOk qc g s o = true) :
    (stepOp qc g s o).map QState.toU = stepOpU qc g s.toU o := by
  cases o with
  | postFifo sg => simp only [stepOp, stepOpU, Option.map_some]; rw [applyEff_toU s (.fifo sg) h]
  | postLifo sg => simp only [stepOp, stepOpU, Option.map_some]; rw [applyEff_toU s (.lifo sg) h]
  | defer sg => simp only [stepOp, stepOpU, Option.map_some]; rw [applyEff_toU s (.defer sg) h]
  | recall => simp only [stepOp, stepOpU, Option.map_some]; rw [applyEff_toU s .recall h]
  | nextRtc =>
    simp only [stepOp, stepOpU]
    rw [← nextRtc_toU qc g s h]
    cases nextRtc qc g s <;> rfl

theorem runOps_toU (qc : QChart) (g : Cfg) (ops : List Op) (s : QState) (h : NeverFull qc g s ops) :
    (runOps qc g s ops).map QState.toU = runOpsU qc g s.toU ops := by
  unfold NeverFull at h
  induction ops generalizing s with
  | nil => rfl
  | cons o t ih =>
    simp only [neverFull, Bool.and_eq_true] at h
    have hs := stepOp_toU qc g s o h.1
    simp only [runOps, runOpsU]
    rw [← hs]
    cases ho : stepOp qc g s o with
    | none => rfl
    | some s1 =>
      rw [ho] at h
      simp only [Option.map_some]
      exact ih s1 h.2

theorem xstep_toU (qc : QChart) (g : Cfg) (s : QState) (o : XOp) (h : xopOk qc g s o = true) :
    (xstep qc g s o).map QState.toU = xstepU qc g s.toU o := by
  cases o with
  | start t =>
    simp only [xstep, xstepU]
    rw [← startQ_toU qc g s t h]
    cases startQ qc g s t <;> rfl
  | postFifo sg => simp only [xstep, xstepU, XRes.map]; rw [applyEff_toU s (.fifo sg) h]
  | postLifo sg => simp only [xstep, xstepU, XRes.map]; rw [applyEff_toU s (.lifo sg) h]
  | defer sg => simp only [xstep, xstepU, XRes.map]; rw [applyEff_toU s (.defer sg) h]
  | recall => simp only [xstep, xstepU, XRes.map]; rw [recall_toU s h, recall_snd_toU]
  | nextRtc =>
    simp only [xstep, xstepU]
    rw [← nextRtc_toU qc g s h]
    cases nextRtc qc g s <;> rfl
  | completeCircuit fuel =>
    simp only [xstep, xstepU]
    rw [← completeCircuit_toU qc g fuel s h]
    cases completeCircuit qc g fuel s <;> rfl

theorem traceOps_toU (qc : QChart) (g : Cfg) (ops : List XOp) (s : QState) (h : NeverFullX qc g s ops) :
    traceOps qc g s ops = traceOpsU qc g s.toU ops := by
  unfold NeverFullX at h
  induction ops generalizing s with
  | nil => rfl
  | cons o t ih =>
    simp only [neverFullX, Bool.and_eq_true] at h
    have hs := xstep_toU qc g s o h.1
    simp only [traceOps, traceOpsU]
    rw [← hs]
    cases ho : xstep qc g s o with
    | ok ret s1 log =>
      rw [ho] at h
      simp only [XRes.map]
      rw [ih s1 h.2]
    | raise => rfl
    | diverge => rfl

/-! ### the unbounded run loses nothing -/

/-- dispatched + pending + deferred -/
def cntU (u : QStateU) : Nat := u.dispatched.length + pendU u

/-- from `u` to `u1` exactly `n` event objects were created and none was lost -/
structure Grows (u u1 : QStateU) (n : Nat) : Prop where
  cnt  : cntU u1 = cntU u + n
  next : u1.next = u.next + n
  pend : pendU u1 ≤ pendU u + n
  disp : u.dispatched <+: u1.dispatched
  keep : ∀ e ∈ liveU u, e ∈ liveU u1
  made : ∀ k, u.next ≤ k → k < u1.next → ∃ e ∈ liveU u1, e.uid = k

theorem Grows.refl (u : QStateU) : Grows u u 0 :=
  ⟨rfl, rfl, Nat.le_refl _, List.prefix_refl _, fun _ h => h, fun k h1 h2 => absurd h1 (by omega)⟩

theorem Grows.trans {u u1 u2 : QStateU} {n m : Nat} (h1 : Grows u u1 n) (h2 : Grows u1 u2 m) :
    Grows u u2 (n + m) := by
  refine ⟨?_, ?_, ?_, h1.disp.trans h2.disp, fun e he => h2.keep e (h1.keep e he), ?_⟩
  · have := h1.cnt; have := h2.cnt; omega
  · have := h1.next; have := h2.next; omega
  · have := h1.pend; have := h2.pend; omega
  · intro k hk1 hk2
    by_cases hk : k < u1.next
    · obtain ⟨e, he, hu⟩ := h1.made k hk1 hk
      exact ⟨e, h2.keep e he, hu⟩
    · exact h2.made k (by omega) hk2

theorem Grows.cast {u u1 : QStateU} {n m : Nat} (h : Grows u u1 n) (hm : n = m) : Grows u u1 m := hm ▸ h

theorem applyEffU_grows (u : QStateU) (e : Eff) : Grows u (applyEffU u e) e.posts := by
  obtain ⟨q, dq, cur, next, disp⟩ := u
  cases e with
  | fifo sg =>
    refine ⟨?_, rfl, ?_, List.prefix_refl _, ?_, ?_⟩
    · simp [cntU, pendU, applyEffU, postFifoU, pushBackU, Eff.posts]; omega
    · simp [pendU, applyEffU, postFifoU, pushBackU, Eff.posts]; omega
    · intro e he
      simp only [liveU, applyEffU, postFifoU, pushBackU, List.mem_append, List.mem_singleton] at he ⊢
      rcases he with (h | h) | h
      · exact Or.inl (Or.inl h)
      · exact Or.inl (Or.inr (Or.inl h))
      · exact Or.inr h
    · intro k hk1 hk2
      simp only [applyEffU, postFifoU] at hk2
      refine ⟨⟨sg, next⟩, ?_, ?_⟩
      · simp [liveU, applyEffU, postFifoU, pushBackU]
      · simp only [] at hk1 ⊢; omega
  | lifo sg =>
    refine ⟨?_, rfl, ?_, List.prefix_refl _, ?_, ?_⟩
    · simp [cntU, pendU, applyEffU, postLifoU, pushFrontU, Eff.posts]; omega
    · simp [pendU, applyEffU, postLifoU, pushFrontU, Eff.posts]; omega
    · intro e he
      simp only [liveU, applyEffU, postLifoU, pushFrontU, List.mem_append, List.mem_cons] at he ⊢
      rcases he with (h | h) | h
      · exact Or.inl (Or.inl h)
      · exact Or.inl (Or.inr (Or.inr h))
      · exact Or.inr h
    · intro k hk1 hk2
      simp only [applyEffU, postLifoU] at hk2
      refine ⟨⟨sg, next⟩, ?_, ?_⟩
      · simp [liveU, applyEffU, postLifoU, pushFrontU]
      · simp only [] at hk1 ⊢; omega
  | defer sg =>
    refine ⟨?_, rfl, ?_, List.prefix_refl _, ?_, ?_⟩
    · simp [cntU, pendU, applyEffU, deferEvU, pushBackU, Eff.posts]; omega
    · simp [pendU, applyEffU, deferEvU, pushBackU, Eff.posts]; omega
    · intro e he
      simp only [liveU, applyEffU, deferEvU, pushBackU, List.mem_append, List.mem_singleton] at he ⊢
      rcases he with (h | h) | h
      · exact Or.inl (Or.inl h)
      · exact Or.inl (Or.inr h)
      · exact Or.inr (Or.inl h)
    · intro k hk1 hk2
      simp only [applyEffU, deferEvU] at hk2
      refine ⟨⟨sg, next⟩, ?_, ?_⟩
      · simp [liveU, applyEffU, deferEvU, pushBackU]
      · simp only [] at hk1 ⊢; omega
  | recall =>
    cases dq with
    | nil => exact Grows.refl _
    | cons a t =>
      refine ⟨?_, rfl, ?_, List.prefix_refl _, ?_, ?_⟩
      · simp [cntU, pendU, applyEffU, recallU, postFifoU, pushBackU, Eff.posts]; omega
      · simp [pendU, applyEffU, recallU, postFifoU, pushBackU, Eff.posts]; omega
      · intro e he
        simp only [liveU, applyEffU, recallU, postFifoU, pushBackU, List.mem_append,
          List.mem_cons] at he ⊢
        rcases he with (h | h) | h | h
        · exact Or.inl (Or.inl h)
        · exact Or.inl (Or.inr (Or.inl h))
        · exact Or.inl (Or.inr (Or.inr (Or.inl h)))
        · exact Or.inr h
      · intro k hk1 hk2
        simp only [applyEffU, recallU, postFifoU] at hk1 hk2
        omega
  | scribble _ => exact Grows.refl _

theorem foldEffU_grows (l : List Eff) (u : QStateU) : Grows u (l.foldl applyEffU u) (effsPosts l) := by
  induction l generalizing u with
  | nil => exact Grows.refl _
  | cons e t ih => exact (applyEffU_grows u e).trans (ih (applyEffU u e))

theorem applyLogU_grows (qc : QChart) (log : Log) (u : QStateU) :
    Grows u (applyLogU qc u log) (logPosts qc log) := by
  unfold applyLogU
  induction log generalizing u with
  | nil => exact Grows.refl _
  | cons c t ih => exact (foldEffU_grows (qc.eff c.s c.sig) u).trans (ih _)

@[simp] theorem applyEffU_dispatched (u : QStateU) (e : Eff) : (applyEffU u e).dispatched = u.dispatched := by
  cases e <;> simp [applyEffU, postFifoU, postLifoU, deferEvU, recallU]
  split <;> rfl
@[simp] theorem applyEffU_cur (u : QStateU) (e : Eff) : (applyEffU u e).cur = u.cur := by
  cases e <;> simp [applyEffU, postFifoU, postLifoU, deferEvU, recallU]
  split <;> rfl

theorem foldEffU_keeps (l : List Eff) (u : QStateU) :
    (l.foldl applyEffU u).dispatched = u.dispatched ∧ (l.foldl applyEffU u).cur = u.cur := by
  induction l generalizing u with
  | nil => exact ⟨rfl, rfl⟩
  | cons e t ih => simp [List.foldl_cons, ih (applyEffU u e)]

theorem applyLogU_keeps (qc : QChart) (log : Log) (u : QStateU) :
    (applyLogU qc u log).dispatched = u.dispatched ∧ (applyLogU qc u log).cur = u.cur := by
  unfold applyLogU
  induction log generalizing u with
  | nil => exact ⟨rfl, rfl⟩
  | cons c t ih =>
    simp only [List.foldl_cons]
    obtain ⟨h1, h2⟩ := ih ((qc.eff c.s c.sig).foldl applyEffU u)
    obtain ⟨g1, g2⟩ := foldEffU_keeps (qc.eff c.s c.sig) u
    exact ⟨h1.trans g1, h2.trans g2⟩

@[simp] theorem applyLogU_dispatched (qc : QChart) (log : Log) (u : QStateU) :
    (applyLogU qc u log).dispatched = u.dispatched := (applyLogU_keeps qc log u).1
@[simp] theorem applyLogU_cur (qc : QChart) (log : Log) (u : QStateU) :
    (applyLogU qc u log).cur = u.cur := (applyLogU_keeps qc log u).2

theorem applyLogU_append (qc : QChart) (u : QStateU) (l1 l2 : Log) :
    applyLogU qc u (l1 ++ l2) = applyLogU qc (applyLogU qc u l1) l2 := by
  simp [applyLogU, List.foldl_append]

/-! the step function of the unbounded model seen from the outside -/

theorem nextRtcU_cons (qc : QChart) (g : Cfg) (u : QStateU) (e : Ev) (rest : List Ev) (r : Res)
    (hq : u.q = e :: rest) (hd : dispatch qc.chart g u.cur e.sig = .ok r) :
    nextRtcU qc g u = .stepped
      (applyLogU qc { u with q := rest, dispatched := u.dispatched ++ [e], cur := r.state } r.log) r.log := by
  unfold nextRtcU
  rw [hq]
  simp only [hd]

theorem nextRtcU_nil (qc : QChart) (g : Cfg) (u : QStateU) (hq : u.q = []) : nextRtcU qc g u = .idle u := by
  unfold nextRtcU
  rw [hq]

theorem nextRtcU_stepped (qc : QChart) (g : Cfg) (u u1 : QStateU) (log : Log)
    (h : nextRtcU qc g u = .stepped u1 log) :
    ∃ e rest r, u.q = e :: rest ∧ dispatch qc.chart g u.cur e.sig = .ok r ∧ log = r.log ∧
      u1 = applyLogU qc { u with q := rest, dispatched := u.dispatched ++ [e], cur := r.state } r.log := by
  unfold nextRtcU at h
  cases hq : u.q with
  | nil => rw [hq] at h; simp at h
  | cons e rest =>
    rw [hq] at h
    simp only [] at h
    cases hd : dispatch qc.chart g u.cur e.sig with
    | ok r =>
      rw [hd] at h
      simp only [StepOutU.stepped.injEq] at h
      exact ⟨e, rest, r, rfl, hd, h.2.symm, h.1.symm⟩
    | raise l => rw [hd] at h; simp at h
    | diverge l => rw [hd] at h; simp at h

theorem nextRtcU_idle (qc : QChart) (g : Cfg) (u u1 : QStateU) (h : nextRtcU qc g u = .idle u1) :
    u.q = [] ∧ u1 = u := by
  unfold nextRtcU at h
  cases hq : u.q with
  | nil => rw [hq] at h; simp at h; exact ⟨rfl, h.symm⟩
  | cons e rest =>
    rw [hq] at h
    simp only [] at h
    split at h <;> simp at h

theorem rtcPosts_nil (qc : QChart) (g : Cfg) (u : QStateU) (hq : u.q = []) : rtcPosts qc g u = 0 := by
  unfold rtcPosts; rw [hq]

theorem rtcPosts_cons (qc : QChart) (g : Cfg) (u : QStateU) (e : Ev) (rest : List Ev) (r : Res)
    (hq : u.q = e :: rest) (hd : dispatch qc.chart g u.cur e.sig = .ok r) :
    rtcPosts qc g u = logPosts qc r.log := by
  unfold rtcPosts; rw [hq]; simp only [hd]

/-- moving the head of the queue to the dispatch record creates and loses nothing -/
theorem pop_grows (u : QStateU) (e : Ev) (rest : List Ev) (hq : u.q = e :: rest) (cur : St) :
    Grows u { u with q := rest, dispatched := u.dispatched ++ [e], cur := cur } 0 := by
  obtain ⟨q, dq, c, next, disp⟩ := u
  simp only at hq
  subst hq
  refine ⟨?_, rfl, ?_, List.prefix_append _ _, ?_, ?_⟩
  · simp [cntU, pendU]; omega
  · simp [pendU]
  · intro x hx
    simp only [liveU, List.mem_append, List.mem_cons] at hx ⊢
    rcases hx with (h | h | h) | h
    · exact Or.inl (Or.inl (Or.inl h))
    · exact Or.inl (Or.inl (Or.inr (Or.inl h)))
    · exact Or.inl (Or.inr h)
    · exact Or.inr h
  · intro k hk1 hk2
    simp only at hk1 hk2
    omega

theorem pop_pend (u : QStateU) (e : Ev) (rest : List Ev) (hq : u.q = e :: rest) (cur : St) :
    pendU { u with q := rest, dispatched := u.dispatched ++ [e], cur := cur } + 1 = pendU u := by
  simp [pendU, hq]; omega

theorem nextRtcU_grows (qc : QChart) (g : Cfg) (u u1 : QStateU) (log : Log)
    (h : nextRtcU qc g u = .stepped u1 log) : Grows u u1 (rtcPosts qc g u) := by
  obtain ⟨e, rest, r, hq, hd, _, rfl⟩ := nextRtcU_stepped qc g u u1 log h
  rw [rtcPosts_cons qc g u e rest r hq hd]
  exact ((pop_grows u e rest hq r.state).trans (applyLogU_grows qc r.log _)).cast (by omega)

theorem setCur_grows (u : QStateU) (cur : St) : Grows u { u with cur := cur } 0 :=
  ⟨rfl, rfl, Nat.le_refl _, List.prefix_refl _, fun _ h => h, fun k h1 h2 => absurd h1 (by simp only at h2; omega)⟩

theorem startQU_stepped (qc : QChart) (g : Cfg) (u u1 : QStateU) (t : St) (log : Log)
    (h : startQU qc g u t = .stepped u1 log) :
    ∃ r, startAt qc.chart g t = .ok r ∧ log = r.log ∧ u1 = applyLogU qc { u with cur := r.state } r.log := by
  unfold startQU at h
  cases hd : startAt qc.chart g t with
  | ok r =>
    rw [hd] at h
    simp only [StepOutU.stepped.injEq] at h
    exact ⟨r, rfl, h.2.symm, h.1.symm⟩
  | raise l => rw [hd] at h; simp at h
  | diverge l => rw [hd] at h; simp at h

theorem startQU_not_idle (qc : QChart) (g : Cfg) (u u1 : QStateU) (t : St) : startQU qc g u t ≠ .idle u1 := by
  unfold startQU
  split <;> simp

theorem startQ_not_idle (qc : QChart) (g : Cfg) (s s1 : QState) (t : St) : startQ qc g s t ≠ .idle s1 := by
  unfold startQ
  split <;> simp

theorem startPosts_ok (qc : QChart) (g : Cfg) (t : St) (r : Res) (hd : startAt qc.chart g t = .ok r) :
    startPosts qc g t = logPosts qc r.log := by
  unfold startPosts; simp only [hd]

theorem startQU_grows (qc : QChart) (g : Cfg) (u u1 : QStateU) (t : St) (log : Log)
    (h : startQU qc g u t = .stepped u1 log) : Grows u u1 (startPosts qc g t) := by
  obtain ⟨r, hd, _, rfl⟩ := startQU_stepped qc g u u1 t log h
  rw [startPosts_ok qc g t r hd]
  exact ((setCur_grows u r.state).trans (applyLogU_grows qc r.log _)).cast (by omega)

theorem completeCircuitU_grows (qc : QChart) (g : Cfg) : ∀ (fuel : Nat) (u u1 : QStateU),
    completeCircuitU qc g fuel u = some u1 → Grows u u1 (circuitPosts qc g fuel u) := by
  intro fuel
  induction fuel with
  | zero =>
    intro u u1 h
    unfold completeCircuitU at h
    split at h
    · simp at h; subst h; exact Grows.refl _
    · simp at h
  | succ n ih =>
    intro u u1 h
    unfold completeCircuitU at h
    unfold circuitPosts
    cases hq : u.q with
    | nil => rw [hq] at h; simp at h; subst h; exact Grows.refl _
    | cons e rest =>
      rw [hq] at h
      simp only [] at h ⊢
      cases hr : nextRtcU qc g u with
      | stepped u2 l =>
        rw [hr] at h
        simp only []
        exact (nextRtcU_grows qc g u u2 l hr).trans (ih u2 u1 h)
      | idle u2 =>
        have := (nextRtcU_idle qc g u u2 hr).1
        rw [hq] at this; simp at this
      | failed => rw [hr] at h; simp at h

theorem completeCircuitU_empty (qc : QChart) (g : Cfg) : ∀ (fuel : Nat) (u u1 : QStateU),
    completeCircuitU qc g fuel u = some u1 → u1.q = [] := by
  intro fuel
  induction fuel with
  | zero =>
    intro u u1 h
    unfold completeCircuitU at h
    split at h
    · simp at h; subst h; assumption
    · simp at h
  | succ n ih =>
    intro u u1 h
    unfold completeCircuitU at h
    cases hq : u.q with
    | nil => rw [hq] at h; simp at h; subst h; exact hq
    | cons e rest =>
      rw [hq] at h
      simp only [] at h
      cases hr : nextRtcU qc g u with
      | stepped u2 l => rw [hr] at h; exact ih u2 u1 h
      | idle u2 =>
        have := (nextRtcU_idle qc g u u2 hr).1
        rw [hq] at this; simp at this
      | failed => rw [hr] at h; simp at h

theorem stepOpU_grows (qc : QChart) (g : Cfg) (u u1 : QStateU) (o : Op) (h : stepOpU qc g u o = some u1) :
    Grows u u1 (opPosts qc g u o) := by
  cases o with
  | postFifo sg => simp [stepOpU] at h; subst h; exact applyEffU_grows u (.fifo sg)
  | postLifo sg => simp [stepOpU] at h; subst h; exact applyEffU_grows u (.lifo sg)
  | defer sg => simp [stepOpU] at h; subst h; exact applyEffU_grows u (.defer sg)
  | recall => simp [stepOpU] at h; subst h; exact applyEffU_grows u .recall
  | nextRtc =>
    simp only [stepOpU] at h
    simp only [opPosts]
    cases hr : nextRtcU qc g u with
    | idle u2 =>
      rw [hr] at h; simp at h; subst h
      obtain ⟨hq, rfl⟩ := nextRtcU_idle qc g u u2 hr
      rw [rtcPosts_nil qc g _ hq]; exact Grows.refl _
    | stepped u2 l => rw [hr] at h; simp at h; subst h; exact nextRtcU_grows qc g u u2 l hr
    | failed => rw [hr] at h; simp at h

theorem runOpsU_grows (qc : QChart) (g : Cfg) (ops : List Op) (u u1 : QStateU)
    (h : runOpsU qc g u ops = some u1) : Grows u u1 (postBound qc g u ops) := by
  induction ops generalizing u with
  | nil => simp [runOpsU] at h; subst h; exact Grows.refl _
  | cons o t ih =>
    simp only [runOpsU] at h
    simp only [postBound]
    cases ho : stepOpU qc g u o with
    | none => rw [ho] at h; simp at h
    | some u2 =>
      rw [ho] at h
      exact (stepOpU_grows qc g u u2 o ho).trans (ih u2 h)

theorem xstepU_grows (qc : QChart) (g : Cfg) (u u1 : QStateU) (o : XOp) (ret : Ret) (log : Log)
    (h : xstepU qc g u o = .ok ret u1 log) : Grows u u1 (xopPosts qc g u o) := by
  cases o with
  | start t =>
    simp only [xstepU] at h
    simp only [xopPosts]
    cases hr : startQU qc g u t with
    | stepped u2 l => rw [hr] at h; simp at h; obtain ⟨_, rfl, _⟩ := h; exact startQU_grows qc g u u2 t l hr
    | idle u2 => exact absurd hr (startQU_not_idle qc g u u2 t)
    | failed => rw [hr] at h; simp at h
  | postFifo sg => simp [xstepU] at h; obtain ⟨_, rfl, _⟩ := h; exact applyEffU_grows u (.fifo sg)
  | postLifo sg => simp [xstepU] at h; obtain ⟨_, rfl, _⟩ := h; exact applyEffU_grows u (.lifo sg)
  | defer sg => simp [xstepU] at h; obtain ⟨_, rfl, _⟩ := h; exact applyEffU_grows u (.defer sg)
  | recall => simp [xstepU] at h; obtain ⟨_, rfl, _⟩ := h; exact applyEffU_grows u .recall
  | nextRtc =>
    simp only [xstepU] at h
    simp only [xopPosts]
    cases hr : nextRtcU qc g u with
    | idle u2 =>
      rw [hr] at h; simp at h; obtain ⟨_, rfl, _⟩ := h
      obtain ⟨hq, rfl⟩ := nextRtcU_idle qc g u u2 hr
      rw [rtcPosts_nil qc g _ hq]; exact Grows.refl _
    | stepped u2 l => rw [hr] at h; simp at h; obtain ⟨_, rfl, _⟩ := h; exact nextRtcU_grows qc g u u2 l hr
    | failed => rw [hr] at h; simp at h
  | completeCircuit fuel =>
    simp only [xstepU] at h
    simp only [xopPosts]
    cases hr : completeCircuitU qc g fuel u with
    | some u2 => rw [hr] at h; simp at h; obtain ⟨_, rfl, _⟩ := h; exact completeCircuitU_grows qc g fuel u u2 hr
    | none => rw [hr] at h; simp at h

/-- every state reported in a trace of the unbounded model: nothing lost so far -/
theorem traceOpsU_grows (qc : QChart) (g : Cfg) (ops : List XOp) (u st : QStateU) (ret : Ret) (log : Log)
    (h : XRes.ok ret st log ∈ traceOpsU qc g u ops) :
    ∃ n, n ≤ postBoundX qc g u ops ∧ Grows u st n := by
  induction ops generalizing u with
  | nil => simp [traceOpsU] at h
  | cons o t ih =>
    simp only [traceOpsU] at h
    simp only [postBoundX]
    cases ho : xstepU qc g u o with
    | ok ret1 u1 log1 =>
      rw [ho] at h
      simp only [List.mem_cons, XRes.ok.injEq] at h
      have hg := xstepU_grows qc g u u1 o ret1 log1 ho
      rcases h with ⟨_, rfl, _⟩ | h
      · exact ⟨_, Nat.le_add_right _ _, hg⟩
      · obtain ⟨n, hn, hgn⟩ := ih u1 h
        exact ⟨_, Nat.add_le_add_left hn _, hg.trans hgn⟩
    | raise => rw [ho] at h; simp at h
    | diverge => rw [ho] at h; simp at h

/-! ### a capacity of (events pending or deferred) + (events created) is never reached -/

theorem effOk_of_bound (s : QState) (e : Eff) (h : pendU s.toU + e.posts ≤ s.cap) : effOk s e = true := by
  cases e with
  | fifo sg => simp [pendU, Eff.posts] at h; simp [effOk]; omega
  | lifo sg => simp [pendU, Eff.posts] at h; simp [effOk]; omega
  | defer sg => simp [pendU, Eff.posts] at h; simp [effOk]; omega
  | recall =>
    simp [pendU, Eff.posts] at h
    simp only [effOk, Bool.or_eq_true, decide_eq_true_eq]
    cases hd : s.dq with
    | nil => exact Or.inl rfl
    | cons a t => rw [hd] at h; simp at h; exact Or.inr (by omega)
  | scribble _ => rfl

theorem effsOk_of_bound (l : List Eff) (s : QState) (h : pendU s.toU + effsPosts l ≤ s.cap) :
    effsOk s l = true := by
  induction l generalizing s with
  | nil => rfl
  | cons e t ih =>
    simp only [effsPosts] at h
    have h1 : effOk s e = true := effOk_of_bound s e (by omega)
    simp only [effsOk, Bool.and_eq_true]
    refine ⟨h1, ih _ ?_⟩
    rw [applyEff_toU s e h1, applyEff_cap]
    have := (applyEffU_grows s.toU e).pend
    omega

theorem logOk_of_bound (qc : QChart) (log : Log) (s : QState) (h : pendU s.toU + logPosts qc log ≤ s.cap) :
    logOk qc s log = true := by
  induction log generalizing s with
  | nil => rfl
  | cons c t ih =>
    simp only [logPosts] at h
    have h1 : effsOk s (qc.eff c.s c.sig) = true := effsOk_of_bound _ s (by omega)
    simp only [logOk, Bool.and_eq_true]
    refine ⟨h1, ih _ ?_⟩
    rw [foldEff_toU _ s h1, (foldEff_keeps _ s).1]
    have := (foldEffU_grows (qc.eff c.s c.sig) s.toU).pend
    omega

theorem rtcOk_of_bound (qc : QChart) (g : Cfg) (s : QState)
    (h : pendU s.toU + rtcPosts qc g s.toU ≤ s.cap) : rtcOk qc g s = true := by
  unfold rtcOk
  cases hq : s.q with
  | nil => rfl
  | cons e rest =>
    simp only []
    cases hd : dispatch qc.chart g s.cur e.sig with
    | ok r =>
      simp only []
      apply logOk_of_bound
      rw [rtcPosts_cons qc g s.toU e rest r hq hd] at h
      have := pop_pend s.toU e rest hq r.state
      simp only [pendU, toU_q, toU_dq] at h this ⊢
      omega
    | raise l => rfl
    | diverge l => rfl

theorem startOk_of_bound (qc : QChart) (g : Cfg) (s : QState) (t : St)
    (h : pendU s.toU + startPosts qc g t ≤ s.cap) : startOk qc g s t = true := by
  unfold startOk
  cases hd : startAt qc.chart g t with
  | ok r =>
    simp only []
    apply logOk_of_bound
    rw [startPosts_ok qc g t r hd] at h
    exact h
  | raise l => rfl
  | diverge l => rfl

theorem nextRtc_cap (qc : QChart) (g : Cfg) (s s1 : QState) (log : Log)
    (h : nextRtc qc g s = .stepped s1 log) : s1.cap = s.cap := by
  obtain ⟨_, _, _, _, _, _, rfl⟩ := nextRtc_stepped qc g s s1 log h
  simp

theorem startQ_cap (qc : QChart) (g : Cfg) (s s1 : QState) (t : St) (log : Log)
    (h : startQ qc g s t = .stepped s1 log) : s1.cap = s.cap := by
  unfold startQ at h
  split at h
  · simp only [StepOut.stepped.injEq] at h
    rw [← h.1]; simp
  · simp at h

theorem completeCircuit_cap (qc : QChart) (g : Cfg) : ∀ (fuel : Nat) (s s1 : QState),
    completeCircuit qc g fuel s = some s1 → s1.cap = s.cap := by
  intro fuel
  induction fuel with
  | zero =>
    intro s s1 h
    unfold completeCircuit at h
    split at h
    · simp at h; rw [h]
    · simp at h
  | succ n ih =>
    intro s s1 h
    unfold completeCircuit at h
    cases hq : s.q with
    | nil => rw [hq] at h; simp at h; rw [h]
    | cons e rest =>
      rw [hq] at h
      simp only [] at h
      cases hr : nextRtc qc g s with
      | stepped s2 l => rw [hr] at h; rw [ih s2 s1 h, nextRtc_cap qc g s s2 l hr]
      | idle s2 => rw [hr] at h; simp at h; rw [← h, (nextRtc_idle qc g s s2 hr).2]
      | failed => rw [hr] at h; simp at h

/-- a bounded step without a full queue is mirrored by the unbounded step -/
theorem nextRtcU_of_stepped (qc : QChart) (g : Cfg) (s s1 : QState) (log : Log) (hk : rtcOk qc g s = true)
    (h : nextRtc qc g s = .stepped s1 log) : nextRtcU qc g s.toU = .stepped s1.toU log := by
  rw [← nextRtc_toU qc g s hk, h]; rfl

theorem circuitOk_of_bound (qc : QChart) (g : Cfg) : ∀ (fuel : Nat) (s : QState),
    pendU s.toU + circuitPosts qc g fuel s.toU ≤ s.cap → circuitOk qc g fuel s = true := by
  intro fuel
  induction fuel with
  | zero => intro s _; rfl
  | succ n ih =>
    intro s h
    unfold circuitOk
    unfold circuitPosts at h
    simp only [toU_q] at h
    cases hq : s.q with
    | nil => rfl
    | cons e rest =>
      rw [hq] at h
      simp only [] at h ⊢
      have hk : rtcOk qc g s = true := rtcOk_of_bound qc g s (by omega)
      simp only [Bool.and_eq_true]
      refine ⟨hk, ?_⟩
      cases hr : nextRtc qc g s with
      | stepped s1 l =>
        simp only []
        have hu := nextRtcU_of_stepped qc g s s1 l hk hr
        rw [hu] at h
        simp only [] at h
        apply ih
        rw [nextRtc_cap qc g s s1 l hr]
        have := (nextRtcU_grows qc g s.toU s1.toU l hu).pend
        omega
      | idle s1 => rfl
      | failed => rfl

theorem opOk_of_bound (qc : QChart) (g : Cfg) (s : QState) (o : Op)
    (h : pendU s.toU + opPosts qc g s.toU o ≤ s.cap) : opOk qc g s o = true := by
  cases o with
  | postFifo sg => exact effOk_of_bound s (.fifo sg) h
  | postLifo sg => exact effOk_of_bound s (.lifo sg) h
  | defer sg => exact effOk_of_bound s (.defer sg) h
  | recall => exact effOk_of_bound s .recall h
  | nextRtc => exact rtcOk_of_bound qc g s h

theorem stepOpU_of_some (qc : QChart) (g : Cfg) (s s1 : QState) (o : Op) (hk : opOk qc g s o = true)
    (h : stepOp qc g s o = some s1) : stepOpU qc g s.toU o = some s1.toU := by
  rw [← stepOp_toU qc g s o hk, h]; rfl

theorem neverFull_of_bound (qc : QChart) (g : Cfg) (ops : List Op) (s : QState)
    (h : pendU s.toU + postBound qc g s.toU ops ≤ s.cap) : NeverFull qc g s ops := by
  unfold NeverFull
  induction ops generalizing s with
  | nil => rfl
  | cons o t ih =>
    simp only [postBound] at h
    have hk : opOk qc g s o = true := opOk_of_bound qc g s o (by omega)
    simp only [neverFull, Bool.and_eq_true]
    refine ⟨hk, ?_⟩
    cases ho : stepOp qc g s o with
    | none => rfl
    | some s1 =>
      simp only []
      have hu := stepOpU_of_some qc g s s1 o hk ho
      rw [hu] at h
      simp only [] at h
      apply ih
      rw [stepOp_cap qc g s s1 o ho]
      have := (stepOpU_grows qc g s.toU s1.toU o hu).pend
      omega

theorem xopOk_of_bound (qc : QChart) (g : Cfg) (s : QState) (o : XOp)
    (h : pendU s.toU + xopPosts qc g s.toU o ≤ s.cap) : xopOk qc g s o = true := by
  cases o with
  | start t => exact startOk_of_bound qc g s t h
  | postFifo sg => exact effOk_of_bound s (.fifo sg) h
  | postLifo sg => exact effOk_of_bound s (.lifo sg) h
  | defer sg => exact effOk_of_bound s (.defer sg) h
  | recall => exact effOk_of_bound s .recall h
  | nextRtc => exact rtcOk_of_bound qc g s h
  | completeCircuit fuel => exact circuitOk_of_bound qc g fuel s h

theorem xstepU_of_ok (qc : QChart) (g : Cfg) (s s1 : QState) (o : XOp) (ret : Ret) (log : Log)
    (hk : xopOk qc g s o = true) (h : xstep qc g s o = .ok ret s1 log) :
    xstepU qc g s.toU o = .ok ret s1.toU log := by
  rw [← xstep_toU qc g s o hk, h]; rfl

theorem xstep_cap (qc : QChart) (g : Cfg) (s s1 : QState) (o : XOp) (ret : Ret) (log : Log)
    (h : xstep qc g s o = .ok ret s1 log) : s1.cap = s.cap := by
  cases o with
  | start t =>
    simp only [xstep] at h
    cases hr : startQ qc g s t with
    | stepped s2 l => rw [hr] at h; simp at h; obtain ⟨_, rfl, _⟩ := h; exact startQ_cap qc g s s2 t l hr
    | idle s2 => exact absurd hr (startQ_not_idle qc g s s2 t)
    | failed => rw [hr] at h; simp at h
  | postFifo sg => simp [xstep] at h; obtain ⟨_, rfl, _⟩ := h; simp
  | postLifo sg => simp [xstep] at h; obtain ⟨_, rfl, _⟩ := h; simp
  | defer sg => simp [xstep] at h; obtain ⟨_, rfl, _⟩ := h; simp
  | recall => simp [xstep] at h; obtain ⟨_, rfl, _⟩ := h; simp
  | nextRtc =>
    simp only [xstep] at h
    cases hr : nextRtc qc g s with
    | idle s2 =>
      rw [hr] at h; simp at h; obtain ⟨_, rfl, _⟩ := h
      rw [(nextRtc_idle qc g s s2 hr).2]
    | stepped s2 l => rw [hr] at h; simp at h; obtain ⟨_, rfl, _⟩ := h; exact nextRtc_cap qc g s s2 l hr
    | failed => rw [hr] at h; simp at h
  | completeCircuit fuel =>
    simp only [xstep] at h
    cases hr : completeCircuit qc g fuel s with
    | some s2 => rw [hr] at h; simp at h; obtain ⟨_, rfl, _⟩ := h; exact completeCircuit_cap qc g fuel s s2 hr
    | none => rw [hr] at h; simp at h

theorem neverFullX_of_bound (qc : QChart) (g : Cfg) (ops : List XOp) (s : QState)
    (h : pendU s.toU + postBoundX qc g s.toU ops ≤ s.cap) : NeverFullX qc g s ops := by
  unfold NeverFullX
  induction ops generalizing s with
  | nil => rfl
  | cons o t ih =>
    simp only [postBoundX] at h
    have hk : xopOk qc g s o = true := xopOk_of_bound qc g s o (by omega)
    simp only [neverFullX, Bool.and_eq_true]
    refine ⟨hk, ?_⟩
    cases ho : xstep qc g s o with
    | ok ret s1 log =>
      simp only []
      have hu := xstepU_of_ok qc g s s1 o ret log hk ho
      rw [hu] at h
      simp only [] at h
      apply ih
      rw [xstep_cap qc g s s1 o ret log ho]
      have := (xstepU_grows qc g s.toU s1.toU o ret log hu).pend
      omega
    | raise => rfl
    | diverge => rfl

theorem effsPosts_le_length (l : List Eff) : effsPosts l ≤ l.length := by
  induction l with
  | nil => exact Nat.le_refl _
  | cons e t ih =>
    simp only [effsPosts, List.length_cons]
    have : e.posts ≤ 1 := by cases e <;> simp [Eff.posts]
    omega

/-! ### a capacity that is never reached: every larger one is never reached either -/

theorem effOk_mono (s1 s2 : QState) (e : Eff) (hu : s1.toU = s2.toU) (hc : s1.cap ≤ s2.cap)
    (h : effOk s1 e = true) : effOk s2 e = true := by
  have hq : s1.q = s2.q := congrArg QStateU.q hu
  have hd : s1.dq = s2.dq := congrArg QStateU.dq hu
  have hql : s1.q.length = s2.q.length := by rw [hq]
  have hdl : s1.dq.length = s2.dq.length := by rw [hd]
  cases e with
  | fifo sg => simp [effOk] at h ⊢; omega
  | lifo sg => simp [effOk] at h ⊢; omega
  | defer sg => simp [effOk] at h ⊢; omega
  | recall =>
    simp only [effOk, Bool.or_eq_true, decide_eq_true_eq] at h ⊢
    rcases h with h | h
    · exact Or.inl (hd ▸ h)
    · exact Or.inr (by omega)
  | scribble _ => rfl

theorem effsOk_mono (l : List Eff) (s1 s2 : QState) (hu : s1.toU = s2.toU) (hc : s1.cap ≤ s2.cap)
    (h : effsOk s1 l = true) : effsOk s2 l = true := by
  induction l generalizing s1 s2 with
  | nil => rfl
  | cons e t ih =>
    simp only [effsOk, Bool.and_eq_true] at h ⊢
    have h2 := effOk_mono s1 s2 e hu hc h.1
    refine ⟨h2, ih _ _ ?_ ?_ h.2⟩
    · rw [applyEff_toU s1 e h.1, applyEff_toU s2 e h2, hu]
    · simpa using hc

theorem logOk_mono (qc : QChart) (log : Log) (s1 s2 : QState) (hu : s1.toU = s2.toU) (hc : s1.cap ≤ s2.cap)
    (h : logOk qc s1 log = true) : logOk qc s2 log = true := by
  induction log generalizing s1 s2 with
  | nil => rfl
  | cons c t ih =>
    simp only [logOk, Bool.and_eq_true] at h ⊢
    have h2 := effsOk_mono _ s1 s2 hu hc h.1
    refine ⟨h2, ih _ _ ?_ ?_ h.2⟩
    · rw [foldEff_toU _ s1 h.1, foldEff_toU _ s2 h2, hu]
    · rw [(foldEff_keeps _ s1).1, (foldEff_keeps _ s2).1]; exact hc

theorem rtcOk_mono (qc : QChart) (g : Cfg) (s1 s2 : QState) (hu : s1.toU = s2.toU) (hc : s1.cap ≤ s2.cap)
    (h : rtcOk qc g s1 = true) : rtcOk qc g s2 = true := by
  have hq : s1.q = s2.q := congrArg QStateU.q hu
  have hd : s1.dq = s2.dq := congrArg QStateU.dq hu
  have hcur : s1.cur = s2.cur := congrArg QStateU.cur hu
  have hn : s1.next = s2.next := congrArg QStateU.next hu
  have hdisp : s1.dispatched = s2.dispatched := congrArg QStateU.dispatched hu
  unfold rtcOk at h ⊢
  rw [← hq, ← hcur]
  cases hq1 : s1.q with
  | nil => rfl
  | cons e rest =>
    rw [hq1] at h
    simp only [] at h ⊢
    cases hdp : dispatch qc.chart g s1.cur e.sig with
    | ok r =>
      rw [hdp] at h
      simp only [] at h ⊢
      refine logOk_mono qc r.log _ _ ?_ ?_ h
      · simp [QState.toU, hd, hn, hdisp]
      · exact hc
    | raise l => rfl
    | diverge l => rfl

theorem startOk_mono (qc : QChart) (g : Cfg) (s1 s2 : QState) (t : St) (hu : s1.toU = s2.toU)
    (hc : s1.cap ≤ s2.cap) (h : startOk qc g s1 t = true) : startOk qc g s2 t = true := by
  have hq : s1.q = s2.q := congrArg QStateU.q hu
  have hd : s1.dq = s2.dq := congrArg QStateU.dq hu
  have hn : s1.next = s2.next := congrArg QStateU.next hu
  have hdisp : s1.dispatched = s2.dispatched := congrArg QStateU.dispatched hu
  unfold startOk at h ⊢
  cases hdp : startAt qc.chart g t with
  | ok r =>
    rw [hdp] at h
    simp only [] at h ⊢
    refine logOk_mono qc r.log _ _ ?_ ?_ h
    · simp [QState.toU, hq, hd, hn, hdisp]
    · exact hc
  | raise l => rfl
  | diverge l => rfl

theorem StepOut.toU_stepped (o : StepOut) (u : QStateU) (log : Log) (h : o.toU = .stepped u log) :
    ∃ s, o = .stepped s log ∧ s.toU = u := by
  cases o with
  | idle s => simp [StepOut.toU] at h
  | stepped s l => simp [StepOut.toU] at h; exact ⟨s, by rw [h.2], h.1⟩
  | failed => simp [StepOut.toU] at h

theorem circuitOk_mono (qc : QChart) (g : Cfg) : ∀ (fuel : Nat) (s1 s2 : QState), s1.toU = s2.toU →
    s1.cap ≤ s2.cap → circuitOk qc g fuel s1 = true → circuitOk qc g fuel s2 = true := by
  intro fuel
  induction fuel with
  | zero => intro s1 s2 _ _ _; rfl
  | succ n ih =>
    intro s1 s2 hu hc h
    have hq : s1.q = s2.q := congrArg QStateU.q hu
    unfold circuitOk at h ⊢
    rw [← hq]
    cases hq1 : s1.q with
    | nil => rfl
    | cons e rest =>
      rw [hq1] at h
      simp only [Bool.and_eq_true] at h ⊢
      have hk2 := rtcOk_mono qc g s1 s2 hu hc h.1
      refine ⟨hk2, ?_⟩
      have e1 := nextRtc_toU qc g s1 h.1
      have e2 := nextRtc_toU qc g s2 hk2
      rw [hu, ← e2] at e1
      cases hr2 : nextRtc qc g s2 with
      | stepped t2 l =>
        simp only []
        rw [hr2] at e1
        obtain ⟨t1, hr1, ht⟩ := StepOut.toU_stepped _ _ _ e1
        have h2 := h.2
        rw [hr1] at h2
        simp only [] at h2
        refine ih t1 t2 ht ?_ h2
        rw [nextRtc_cap qc g s1 t1 l hr1, nextRtc_cap qc g s2 t2 l hr2]; exact hc
      | idle t2 => rfl
      | failed => rfl

theorem opOk_mono (qc : QChart) (g : Cfg) (s1 s2 : QState) (o : Op) (hu : s1.toU = s2.toU)
    (hc : s1.cap ≤ s2.cap) (h : opOk qc g s1 o = true) : opOk qc g s2 o = true := by
  cases o with
  | postFifo sg => exact effOk_mono s1 s2 (.fifo sg) hu hc h
  | postLifo sg => exact effOk_mono s1 s2 (.lifo sg) hu hc h
  | defer sg => exact effOk_mono s1 s2 (.defer sg) hu hc h
  | recall => exact effOk_mono s1 s2 .recall hu hc h
  | nextRtc => exact rtcOk_mono qc g s1 s2 hu hc h

theorem neverFull_mono (qc : QChart) (g : Cfg) (ops : List Op) (s1 s2 : QState) (hu : s1.toU = s2.toU)
    (hc : s1.cap ≤ s2.cap) (h : NeverFull qc g s1 ops) : NeverFull qc g s2 ops := by
  unfold NeverFull at h ⊢
  induction ops generalizing s1 s2 with
  | nil => rfl
  | cons o t ih =>
    simp only [neverFull, Bool.and_eq_true] at h ⊢
    have hk2 := opOk_mono qc g s1 s2 o hu hc h.1
    refine ⟨hk2, ?_⟩
    have e1 := stepOp_toU qc g s1 o h.1
    have e2 := stepOp_toU qc g s2 o hk2
    rw [hu, ← e2] at e1
    cases ho2 : stepOp qc g s2 o with
    | none => rfl
    | some t2 =>
      simp only []
      rw [ho2] at e1
      cases ho1 : stepOp qc g s1 o with
      | none => rw [ho1] at e1; simp at e1
      | some t1 =>
        rw [ho1] at e1
        simp only [Option.map_some, Option.some.injEq] at e1
        have h2 := h.2
        rw [ho1] at h2
        refine ih t1 t2 e1 ?_ h2
        rw [stepOp_cap qc g s1 t1 o ho1, stepOp_cap qc g s2 t2 o ho2]; exact hc

theorem xopOk_mono (qc : QChart) (g : Cfg) (s1 s2 : QState) (o : XOp) (hu : s1.toU = s2.toU)
    (hc : s1.cap ≤ s2.cap) (h : xopOk qc g s1 o = true) : xopOk qc g s2 o = true := by
  cases o with
  | start t => exact startOk_mono qc g s1 s2 t hu hc h
  | postFifo sg => exact effOk_mono s1 s2 (.fifo sg) hu hc h
  | postLifo sg => exact effOk_mono s1 s2 (.lifo sg) hu hc h
  | defer sg => exact effOk_mono s1 s2 (.defer sg) hu hc h
  | recall => exact effOk_mono s1 s2 .recall hu hc h
  | nextRtc => exact rtcOk_mono qc g s1 s2 hu hc h
  | completeCircuit fuel => exact circuitOk_mono qc g fuel s1 s2 hu hc h

theorem neverFullX_mono (qc : QChart) (g : Cfg) (ops : List XOp) (s1 s2 : QState) (hu : s1.toU = s2.toU)
    (hc : s1.cap ≤ s2.cap) (h : NeverFullX qc g s1 ops) : NeverFullX qc g s2 ops := by
  unfold NeverFullX at h ⊢
  induction ops generalizing s1 s2 with
  | nil => rfl
  | cons o t ih =>
    simp only [neverFullX, Bool.and_eq_true] at h ⊢
    have hk2 := xopOk_mono qc g s1 s2 o hu hc h.1
    refine ⟨hk2, ?_⟩
    have e1 := xstep_toU qc g s1 o h.1
    have e2 := xstep_toU qc g s2 o hk2
    rw [hu, ← e2] at e1
    cases ho2 : xstep qc g s2 o with
    | ok ret t2 log =>
      simp only []
      rw [ho2] at e1
      cases ho1 : xstep qc g s1 o with
      | ok ret1 t1 log1 =>
        rw [ho1] at e1
        simp only [XRes.map, XRes.ok.injEq] at e1
        have h2 := h.2
        rw [ho1] at h2
        refine ih t1 t2 e1.2.1 ?_ h2
        rw [xstep_cap qc g s1 t1 o ret1 log1 ho1, xstep_cap qc g s2 t2 o ret log ho2]; exact hc
      | raise => rw [ho1] at e1; simp [XRes.map] at e1
      | diverge => rw [ho1] at e1; simp [XRes.map] at e1
    | raise => rfl
    | diverge => rfl

/-! ### the invariant of `Lemmas.lean` without its capacity part -/

/-- every live event object is unique and older than the next uid -/
structure InvU (u : QStateU) : Prop where
  nodup : ((liveU u).map Ev.uid).Nodup
  fresh : ∀ e ∈ liveU u, e.uid < u.next

theorem InvU.initU (cur : St) : InvU (initU cur) :=
  ⟨by simp [Miros.Queue.initU, liveU], by intro e he; simp [Miros.Queue.initU, liveU] at he⟩

theorem InvU.withCap {u : QStateU} (h : InvU u) (cap : Nat) (hc : 0 < cap) (hq : u.q.length ≤ cap)
    (hd : u.dq.length ≤ cap) : Inv (u.withCap cap) :=
  ⟨hc, hq, hd, h.nodup, h.fresh⟩

theorem Inv.toU {s : QState} (h : Inv s) : InvU s.toU := ⟨h.nodup, h.fresh⟩

end Miros.Queue
