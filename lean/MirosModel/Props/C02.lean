import MirosModel.Hsm.Lemmas
import MirosModel.Gen.Constants
/-!
# C02 — events bubble outward; handled or ignored events change nothing

Model: `Miros.Hsm.dispatch` (faithful to hsm.py 531-662), spec: `Miros.Hsm.offers`.
All statements are for every chart (any tree shape and depth), every current
state, every event, and for the switches generated from the current source.
`C02_no_change` assumes that every handler ends in `else: … SUPER` (`fall = false`): a fall-through
state that has no clause for the event answers `None` and the step raises (see `Props/C24.lean`).
-/
namespace Miros.Props.C02
open Miros.Hsm

/-- the states the spec offers the event to are the current state and its enclosing states,
innermost first, without gaps (a prefix of the active path) -/
theorem C02_offers_are_active_path_prefix (c : Chart) (n : Nat) :
    ∀ cur : St, ((offers c n cur).1.map Call.s) <+: activePath cur := by
  intro cur
  induction cur with
  | nil => simp [offers]
  | cons a p ih =>
    cases hr : c.react (a :: p) n <;> simp [offers, hr, activePath] <;> exact ih

/-- every offer is an offer of the dispatched event (no entry / exit / init action) -/
theorem C02_offers_only_event (c : Chart) (n : Nat) :
    ∀ cur : St, ∀ x ∈ (offers c n cur).1, x.sig = .user n := by
  intro cur
  induction cur with
  | nil => simp [offers]
  | cons a p ih =>
    cases hr : c.react (a :: p) n <;> simp [offers, hr] <;> exact ih

/-- a state that declines (unhandled) or names its parent (pass) passes the event outward:
the answering state, if any, is the first one on the active path that handles or transitions -/
theorem C02_first_answer (c : Chart) (n : Nat) (a : Nat) (p : St)
    (h : c.react (a :: p) n = .unhandled ∨ c.react (a :: p) n = .pass) :
    (offers c n (a :: p)).2 = (offers c n p).2 ∧
    (offers c n (a :: p)).1 = ⟨a :: p, .user n⟩ :: (offers c n p).1 := by
  rcases h with h | h <;> simp [offers, h]

/-- **C02 (main).** If no state answers the event, or the answering state handles it internally,
the step succeeds, makes exactly the offers of the spec (and no entry / exit / init call), and
leaves the chart (current state and search cursor) where it was. -/
theorem C02_no_change (c : Chart) (cur : St) (n : Nat)
    (hn : ∀ s, c.react s n ≠ .none) (hf : ∀ s, c.fall s = false)
    (h : ∀ S T, (offers c n cur).2 ≠ .tran S T) :
    ∃ r, dispatch c Miros.Gen.cfg cur n = .ok r ∧ r.state = cur ∧ r.temp = cur ∧
      actions r.log = (offers c n cur).1 ∧
      (∀ x ∈ actions r.log, x.sig = .user n) := by
  have hs := searchLoop_spec c n hn hf cur { temp := cur, log := [] }
  have hon := C02_offers_only_event c n cur
  cases ha : (offers c n cur).2 with
  | tran S T => exact absurd ha (h S T)
  | ignored =>
    rw [ha] at hs
    obtain ⟨hl, hf⟩ := hs
    cases hsl : searchLoop c n cur { temp := cur, log := [] } with
    | mk f k =>
      rw [hsl] at hl hf
      simp only at hl hf
      subst hf
      refine ⟨⟨cur, cur, k.log⟩, ?_, rfl, rfl, ?_, ?_⟩
      · simp [dispatch, hsl]
      · simpa using hl
      · intro x hx
        have : actions k.log = (offers c n cur).1 := by simpa using hl
        rw [this] at hx; exact hon x hx
  | handled s =>
    rw [ha] at hs
    obtain ⟨hl, hf⟩ := hs
    cases hsl : searchLoop c n cur { temp := cur, log := [] } with
    | mk f k =>
      rw [hsl] at hl hf
      simp only at hl hf
      subst hf
      refine ⟨⟨cur, cur, k.log⟩, ?_, rfl, rfl, ?_, ?_⟩
      · simp [dispatch, hsl]
      · simpa using hl
      · intro x hx
        have : actions k.log = (offers c n cur).1 := by simpa using hl
        rw [this] at hx; exact hon x hx

/-- the processor's own probes during such a step are only guard fall-backs (EMPTY_SIGNAL) -/
theorem C02_only_guard_probes (c : Chart) (cur : St) (n : Nat) :
    ∃ l, (searchLoop c n cur { temp := cur, log := [] }).2.log = l ∧
      ∀ x ∈ l, x.sig = .user n ∨ x.sig = .empty := by
  obtain ⟨l, h1, h2⟩ := searchLoop_log_prefix c n cur { temp := cur, log := [] }
  exact ⟨l, by simpa using h1, h2⟩

/-- a malformed handler (returns `None`) on the way makes the step raise -/
theorem C02_none_raises (c : Chart) (a : Nat) (p : St) (n : Nat) (h : c.react (a :: p) n = .none) :
    ∃ l, dispatch c Miros.Gen.cfg (a :: p) n = .raise l := by
  simp [dispatch, searchLoop, h]

/-! ### non-vacuity: a concrete three-level chart with a failing guard in the middle -/
def demo : Chart where
  react := fun s n =>
    if s = [3, 2, 1] ∧ n = 0 then .pass
    else if s = [2, 1] ∧ n = 0 then .unhandled
    else if s = [1] ∧ n = 0 then .handled
    else .pass
  init := fun _ => none
  exitH := fun _ => true
  depth := 3
  fall := fun _ => false

example : (offers demo 0 [3, 2, 1]).1.map Call.s = [[3, 2, 1], [2, 1], [1]] := by decide
example : (offers demo 0 [3, 2, 1]).2 = .handled [1] := by decide
example : (offers demo 1 [3, 2, 1]).2 = .ignored := by decide
example : ∀ S T, (offers demo 0 [3, 2, 1]).2 ≠ .tran S T := by
  intro S T; rw [show (offers demo 0 [3, 2, 1]).2 = .handled [1] from by decide]; simp

end Miros.Props.C02
