import MirosModel.Conc.TrackLemmas
import MirosModel.Gen.Constants
/-!
# C11 / C12 / C31 (tracked-source list) — `posted_events_queue` under concurrent timed posts and cancels

"Every timed source that can still post is in `posted_events_queue`, where `cancel_event`,
`cancel_events` and `stop()` will find it; a cancel removes and silences exactly the sources it names;
a timed post is refused exactly when the list is full."

Model: `Miros.Conc.Track` (`MirosModel/Conc/Track.lean`): any number of threads, each with a list of
calls (`arm name` = a timed post, `cancelName name` = `cancel_events`, `cancelId id` = `cancel_event`);
one step = one access to the list (capacity test, append, look at `q[-1]`, clear+pop or rotate).  Tag
`Miros.Gen.aoTrackingLocked = true`: every call runs under the per-object lock `posted_events_lock`.
All theorems quantify over every capacity, every list of programs and every schedule (`List Step`, any
length); entries of the schedule that find their thread blocked are skipped.
-/
namespace Miros.Props.C11Track
open Miros.Conc Miros.Conc.Track

/-- three threads, capacity 4: thread 0 arms sources named 1, 2, 1 and then cancels name 1; thread 1
arms a source named 3 and then cancels id 2; thread 2 arms a source named 4 (rejected: the list is
full) and cancels an id that does not exist.  The schedule interleaves the calls; two entries find the
lock taken and are skipped. -/
def demoProgs : List (List Call) :=
  [[.arm 1, .arm 2, .arm 1, .cancelName 1], [.arm 3, .cancelId 2], [.arm 4, .cancelId 9]]

/-- `demoProgs` up to the point where all five timed posts are decided and `cancelId 2` is done -/
def demoPre : List Step := [0, 0, 0, 1, 0, 1, 1, 0, 0, 0, 0, 0, 0, 2, 2, 1, 1, 2, 1, 1, 1]

/-- thread 0's `cancelName 1` (with two entries of thread 2 that find the lock taken) -/
def demoCancel : List Step := [0, 0, 2, 0, 0, 0, 2, 0, 0, 0]

/-- thread 2's `cancelId 9` -/
def demoRest : List Step := [2, 2, 2, 2]

/-! ### 1. a live source is tracked -/

/-- **C11-track (live → tracked).** With the lock, in EVERY reachable state — also in the middle of a
call, whatever the other threads are doing — every source whose run flag is set is in the list (the
very record, and in particular a record with its id): clear+pop and test+append are single accesses
made by the lock owner, so no exception for "records being handled" is needed. -/
theorem C11_track_live_sources_are_tracked (cap : Nat) (progs : List (List Call)) (sched : List Step) :
    let s := (sys ⟨true⟩).run (init cap progs) sched
    ∀ r ∈ s.all, r.flag = true → r ∈ s.q ∧ ∃ r' ∈ s.q, r'.id = r.id := by
  intro s r hr hf
  have h := (inv_reach cap progs sched).data.live r hr hf
  exact ⟨h, r, h, rfl⟩

/-- corollary for the states `stop()` and the cancels start from: no thread is inside a call (this is
the same as: the lock is free) -/
theorem C11_track_live_sources_are_tracked_quiescent (cap : Nat) (progs : List (List Call))
    (sched : List Step) :
    let s := (sys ⟨true⟩).run (init cap progs) sched
    ((∀ t ∈ s.threads, t.pc = .idle) ↔ s.owner = none) ∧
    ((∀ t ∈ s.threads, t.pc = .idle) → ∀ r ∈ s.all, r.flag = true → ∃ r' ∈ s.q, r'.id = r.id) := by
  intro s
  have hinv := inv_reach cap progs sched
  refine ⟨⟨?_, ?_⟩, fun _ r hr hf => ⟨r, hinv.data.live r hr hf, rfl⟩⟩
  · intro hall
    cases ho : s.owner with
    | none => rfl
    | some j =>
      obtain ⟨t, ht, hne⟩ := hinv.held j ho
      exact absurd (hall t (List.mem_of_getElem? ht)) hne
  · intro ho t ht
    apply Classical.byContradiction
    intro hne
    obtain ⟨j, hj⟩ := List.mem_iff_getElem?.mp ht
    have := hinv.lock j t hj hne
    rw [ho] at this; cases this

/-- non-vacuity of 1: in the middle of `cancelName 1` (thread 0 has cleared and popped one of the two
records named 1 and has looked at the other) one source is cancelled and gone, the other is live and
still in the list -/
example :
    let s := (sys ⟨true⟩).run (init 4 demoProgs) (demoPre ++ demoCancel.take 8)
    s.owner = some 0 ∧ s.q = [⟨1, 3, true⟩, ⟨3, 1, true⟩] ∧
    s.all = [⟨0, 1, false⟩, ⟨1, 3, true⟩, ⟨2, 2, false⟩, ⟨3, 1, true⟩] ∧
    s.threads.map (·.pc) = [.loopAct 0 (.cancelName 1) (some ⟨3, 1, true⟩), .idle, .idle] := by decide

/-! ### 2. the list is a duplicate-free part of `all`, within the capacity -/

/-- **C11-track (list ⊆ all).** With the lock, in every reachable state the ids in the list are
distinct, every record of the list is a source in `all` with the same flag (the same record), the
list never exceeds the capacity; and the ids in `all` are distinct. -/
theorem C11_track_list_is_sublist_of_all (cap : Nat) (progs : List (List Call)) (sched : List Step) :
    let s := (sys ⟨true⟩).run (init cap progs) sched
    (s.q.map (·.id)).Nodup ∧ (∀ r ∈ s.q, r ∈ s.all) ∧ s.q.length ≤ cap ∧ (s.all.map (·.id)).Nodup := by
  intro s
  have h := (inv_reach cap progs sched).data
  have hcap : s.cap = cap := run_cap ⟨true⟩ sched (init cap progs)
  exact ⟨h.qNodup, h.qSub, by rw [← hcap]; exact h.qLen, h.allNodup⟩

/-- non-vacuity of 2 (and spec item 6): the list and the flags after `demoPre` (the list is full, in
rotated order, one source cancelled by id) and at the end of the whole run -/
example :
    let a := (sys ⟨true⟩).run (init 4 demoProgs) demoPre
    let s := (sys ⟨true⟩).run (init 4 demoProgs) (demoPre ++ demoCancel ++ demoRest)
    a.q = [⟨3, 1, true⟩, ⟨0, 1, true⟩, ⟨1, 3, true⟩] ∧
    a.all = [⟨0, 1, true⟩, ⟨1, 3, true⟩, ⟨2, 2, false⟩, ⟨3, 1, true⟩] ∧ a.rejected = 1 ∧
    s.q = [⟨1, 3, true⟩] ∧
    s.all = [⟨0, 1, false⟩, ⟨1, 3, true⟩, ⟨2, 2, false⟩, ⟨3, 1, false⟩] ∧ s.rejected = 1 ∧
    s.owner = none ∧ s.threads = [⟨[], .idle⟩, ⟨[], .idle⟩, ⟨[], .idle⟩] ∧
    blockedCount ⟨true⟩ (init 4 demoProgs) (demoPre ++ demoCancel ++ demoRest) = 4 := by decide

/-! ### 3. a cancel removes and silences exactly the sources it names; calls are atomic -/

/-- **C11-track (refinement).** With the lock, any interleaving equals an interleaving of atomic
calls: the data (list — in the very same order, not only as a multiset —, `all`, next id, rejected
count) of the state reached by any schedule, with the call in progress (if any) run to its end
(`absData`), is the result of running the calls atomically (`callAtomic`: the call's code without
interruption) in the order in which they took the lock (`acqLog`); when the lock is free this is the
data of the state itself; and the log is an interleaving of the programs: per thread, the calls it made
followed by the calls it has not started yet are its program. -/
theorem C11_track_refines_atomic (cap : Nat) (progs : List (List Call)) (sched : List Step) :
    let s := (sys ⟨true⟩).run (init cap progs) sched
    let log := acqLog ⟨true⟩ (init cap progs) sched
    absData s = runAtomic cap ⟨[], [], 0, 0⟩ log ∧
    (s.owner = none → s.data = runAtomic cap ⟨[], [], 0, 0⟩ log) ∧
    (∀ i, callsOf i log ++ remaining s.threads[i]? = progs[i]?.getD []) := by
  intro s log
  have h := refines_run sched (init cap progs) (inv_init cap progs)
  have h0 : absData (init cap progs) = ⟨[], [], 0, 0⟩ := rfl
  rw [h0] at h
  refine ⟨h, fun ho => ?_, fun i => ?_⟩
  · rw [← absData_free ho]; exact h
  · have := log_interleaves ⟨true⟩ i sched (init cap progs)
    rw [this]
    simp only [init, List.getElem?_map]
    cases progs[i]? <;> rfl

/-- non-vacuity of the refinement: the log of the demo run, and its atomic execution -/
example :
    let sched := demoPre ++ demoCancel ++ demoRest
    acqLog ⟨true⟩ (init 4 demoProgs) sched =
      [(0, .arm 1), (1, .arm 3), (0, .arm 2), (0, .arm 1), (2, .arm 4), (1, .cancelId 2),
       (0, .cancelName 1), (2, .cancelId 9)] ∧
    runAtomic 4 ⟨[], [], 0, 0⟩ (acqLog ⟨true⟩ (init 4 demoProgs) sched) =
      ⟨[⟨1, 3, true⟩], [⟨0, 1, false⟩, ⟨1, 3, true⟩, ⟨2, 2, false⟩, ⟨3, 1, false⟩], 4, 1⟩ := by decide

/-- **C11-track (atomic cancel = intended cancel).** Run without interruption on a list with distinct
ids, the cancel loop (look at the last record; clear+pop or rotate; `len(q)` iterations, `break` for
`cancel_event`) leaves the list without the matching records — in the same order for `cancel_events`,
as a permutation (a rotation) for `cancel_event` — and clears the flags of exactly the removed
sources. -/
theorem C11_track_cancelAtomic_spec (c : Call) (q all : List Rec) (hn : (q.map (·.id)).Nodup) :
    (cancelAtomic c q all).1.Perm (q.filter (fun r => !c.hits r)) ∧
    (cancelAtomic c q all).2 = clearIds ((q.filter c.hits).map (·.id)) all ∧
    (∀ n, c = .cancelName n → (cancelAtomic c q all).1 = q.filter (fun r => !c.hits r)) := by
  refine ⟨(cancelAtomic_spec c q all hn).1, (cancelAtomic_spec c q all hn).2, ?_⟩
  intro n hc; subst hc
  exact cancelAtomic_cancelName_q n q all hn

/-- non-vacuity: four records with distinct ids; `cancel_events(name 1)` keeps the order of the others,
`cancel_event(id 2)` leaves them rotated; with a duplicated id (hypothesis violated) the pop removes a
record whose twin, flag cleared, stays in the list -/
example :
    let q : List Rec := [⟨0, 1, true⟩, ⟨1, 3, true⟩, ⟨2, 2, true⟩, ⟨3, 1, true⟩]
    (q.map (·.id)).Nodup ∧
    cancelAtomic (.cancelName 1) q q =
      ([⟨1, 3, true⟩, ⟨2, 2, true⟩], [⟨0, 1, false⟩, ⟨1, 3, true⟩, ⟨2, 2, true⟩, ⟨3, 1, false⟩]) ∧
    cancelAtomic (.cancelId 2) q q =
      ([⟨3, 1, true⟩, ⟨0, 1, true⟩, ⟨1, 3, true⟩],
       [⟨0, 1, true⟩, ⟨1, 3, true⟩, ⟨2, 2, false⟩, ⟨3, 1, true⟩]) ∧
    (cancelAtomic (.cancelId 7) [⟨7, 1, true⟩, ⟨5, 2, true⟩, ⟨7, 3, true⟩] []).1 =
      [⟨7, 1, false⟩, ⟨5, 2, true⟩] := by decide

/-- the general form of 3 (any cancel call `c`): see `C11_track_cancel_exact` for the reading -/
theorem C11_track_cancel_call_exact (cap : Nat) (progs : List (List Call)) (pre sched : List Step)
    (i : Nat) (c : Call) (hc : c.isArm = false) :
    let s := (sys ⟨true⟩).run (init cap progs) pre
    let s' := (sys ⟨true⟩).run s sched
    s.owner = none → acqLog ⟨true⟩ s sched = [(i, c)] → s'.owner = none →
    s'.q.Perm (s.q.filter (fun r => !c.hits r)) ∧
    (∀ r ∈ s.q, c.hits r = true →
      (∀ r' ∈ s'.q, r'.id ≠ r.id) ∧ (∀ x ∈ s'.all, x.id = r.id → x.flag = false)) ∧
    (∀ r ∈ s.q, c.hits r = false → r ∈ s'.q ∧ r ∈ s'.all) ∧
    (∀ r ∈ s'.q, r ∈ s.q ∧ c.hits r = false) ∧
    s'.all.map (·.id) = s.all.map (·.id) ∧
    (∀ x ∈ s.all, (∀ r ∈ s.q, c.hits r = true → r.id ≠ x.id) → x ∈ s'.all) ∧
    s'.nextId = s.nextId ∧ s'.rejected = s.rejected := by
  intro s s' hfree hlog hdone
  have hinv : Inv s := inv_reach cap progs pre
  have hdata := single_call_atomic hinv sched i c hfree hlog hdone
  rw [callAtomic_cancel hc] at hdata
  have hq : s'.q = (cancelAtomic c s.q s.all).1 := congrArg AState.q hdata
  have hall : s'.all = (cancelAtomic c s.q s.all).2 := congrArg AState.all hdata
  have hnid : s'.nextId = s.nextId := congrArg AState.nextId hdata
  have hrej : s'.rejected = s.rejected := congrArg AState.rejected hdata
  obtain ⟨hperm, hall2⟩ := cancelAtomic_spec c s.q s.all hinv.data.qNodup
  rw [← hq] at hperm
  rw [← hall] at hall2
  obtain ⟨p1, p2, p3, p4, p5⟩ := cancelSpec_props hinv.data c hperm
  rw [← hall2] at p1 p2 p4 p5
  exact ⟨hperm, p1, p2, p3, p4, p5, hnid, hrej⟩

/-- **C11-track (`cancel_events` is exact).** From a reachable state `s` in which the lock is free,
run any schedule during which exactly one call is started — `cancelName n`, by thread `i`; entries of
other threads meanwhile find the lock taken and are skipped — and after which the lock is free again
(the call has completed).  Then: the list is the old list without the records named `n`, in the same
order; no record named `n` that was in the list is still in it, and its source's flag is cleared;
every other record that was in the list is still in it, and in `all`, unchanged (same flag); nothing
new is in the list; `all` has the same ids, and every source that was not a listed source named `n` is
unchanged in it. -/
theorem C11_track_cancel_exact (cap : Nat) (progs : List (List Call)) (pre sched : List Step)
    (i n : Nat) :
    let s := (sys ⟨true⟩).run (init cap progs) pre
    let s' := (sys ⟨true⟩).run s sched
    s.owner = none → acqLog ⟨true⟩ s sched = [(i, .cancelName n)] → s'.owner = none →
    s'.q = s.q.filter (fun r => r.name ≠ n) ∧
    (∀ r ∈ s.q, r.name = n →
      (∀ r' ∈ s'.q, r'.id ≠ r.id) ∧ (∀ x ∈ s'.all, x.id = r.id → x.flag = false)) ∧
    (∀ r ∈ s.q, r.name ≠ n → r ∈ s'.q ∧ r ∈ s'.all) ∧
    (∀ r ∈ s'.q, r ∈ s.q ∧ r.name ≠ n) ∧
    s'.all.map (·.id) = s.all.map (·.id) ∧
    (∀ x ∈ s.all, (∀ r ∈ s.q, r.name = n → r.id ≠ x.id) → x ∈ s'.all) := by
  intro s s' hfree hlog hdone
  obtain ⟨_, p1, p2, p3, p4, p5, _, _⟩ :=
    C11_track_cancel_call_exact cap progs pre sched i (.cancelName n) rfl hfree hlog hdone
  have hinv : Inv s := inv_reach cap progs pre
  have hdata := single_call_atomic hinv sched i (.cancelName n) hfree hlog hdone
  rw [callAtomic_cancel rfl] at hdata
  have hq : s'.q = (cancelAtomic (.cancelName n) s.q s.all).1 := congrArg AState.q hdata
  rw [cancelAtomic_cancelName_q n s.q s.all hinv.data.qNodup] at hq
  refine ⟨?_, ?_, ?_, ?_, p4, ?_⟩
  · rw [hq]; simp [Call.hits]
  · intro r hr hn; exact p1 r hr (by simp [Call.hits, hn])
  · intro r hr hn; exact p2 r hr (by simp [Call.hits, hn])
  · intro r hr
    obtain ⟨h1, h2⟩ := p3 r hr
    exact ⟨h1, by simpa [Call.hits] using h2⟩
  · intro x hx hno
    exact p5 x hx (fun r hr hh => hno r hr (by simpa [Call.hits] using hh))

/-- **C11-track (`cancel_event` is exact).** The same for `cancelId k`: the list is a permutation (a
rotation) of the old list without the record with id `k`; that record, if it was in the list, is gone
and its source's flag is cleared; every other record is still in the list and in `all`, unchanged. -/
theorem C11_track_cancel_exact_id (cap : Nat) (progs : List (List Call)) (pre sched : List Step)
    (i k : Nat) :
    let s := (sys ⟨true⟩).run (init cap progs) pre
    let s' := (sys ⟨true⟩).run s sched
    s.owner = none → acqLog ⟨true⟩ s sched = [(i, .cancelId k)] → s'.owner = none →
    s'.q.Perm (s.q.filter (fun r => r.id ≠ k)) ∧
    (∀ r ∈ s.q, r.id = k →
      (∀ r' ∈ s'.q, r'.id ≠ k) ∧ (∀ x ∈ s'.all, x.id = k → x.flag = false)) ∧
    (∀ r ∈ s.q, r.id ≠ k → r ∈ s'.q ∧ r ∈ s'.all) ∧
    (∀ r ∈ s'.q, r ∈ s.q ∧ r.id ≠ k) ∧
    s'.all.map (·.id) = s.all.map (·.id) ∧
    (∀ x ∈ s.all, (x.id = k → ∀ r ∈ s.q, r.id ≠ k) → x ∈ s'.all) := by
  intro s s' hfree hlog hdone
  obtain ⟨p0, p1, p2, p3, p4, p5, _, _⟩ :=
    C11_track_cancel_call_exact cap progs pre sched i (.cancelId k) rfl hfree hlog hdone
  refine ⟨?_, ?_, ?_, ?_, p4, ?_⟩
  · have : (fun r : Rec => !(Call.cancelId k).hits r) = (fun r => decide (r.id ≠ k)) := by
      funext r; simp [Call.hits]
    rw [this] at p0; exact p0
  · intro r hr hk
    obtain ⟨h1, h2⟩ := p1 r hr (by simp [Call.hits, hk])
    rw [hk] at h1 h2
    exact ⟨h1, h2⟩
  · intro r hr hk; exact p2 r hr (by simp [Call.hits, hk])
  · intro r hr
    obtain ⟨h1, h2⟩ := p3 r hr
    exact ⟨h1, by simpa [Call.hits] using h2⟩
  · intro x hx hno
    apply p5 x hx
    intro r hr hh he
    have hrk : r.id = k := by simpa [Call.hits] using hh
    exact hno (by rw [← he, hrk]) r hr hrk

/-- non-vacuity of 3: `demoCancel` run from the state after `demoPre` is one `cancelName 1` call by
thread 0 (with two skipped entries of thread 2); the prefix `[1, 1, 2, 1, 1, 1]` of length 6 at the end
of `demoPre` is one `cancelId 2` call by thread 1 -/
example :
    let s := (sys ⟨true⟩).run (init 4 demoProgs) demoPre
    let s' := (sys ⟨true⟩).run s demoCancel
    let a := (sys ⟨true⟩).run (init 4 demoProgs) (demoPre.take 15)
    let a' := (sys ⟨true⟩).run a (demoPre.drop 15)
    s.owner = none ∧ acqLog ⟨true⟩ s demoCancel = [(0, .cancelName 1)] ∧ s'.owner = none ∧
    blockedCount ⟨true⟩ s demoCancel = 2 ∧
    s.q = [⟨3, 1, true⟩, ⟨0, 1, true⟩, ⟨1, 3, true⟩] ∧ s'.q = [⟨1, 3, true⟩] ∧
    a.owner = none ∧ acqLog ⟨true⟩ a (demoPre.drop 15) = [(1, .cancelId 2)] ∧ a'.owner = none ∧
    a.q = [⟨0, 1, true⟩, ⟨1, 3, true⟩, ⟨2, 2, true⟩, ⟨3, 1, true⟩] ∧
    a'.q = [⟨3, 1, true⟩, ⟨0, 1, true⟩, ⟨1, 3, true⟩] := by decide

/-! ### 4. a timed post is rejected exactly when the list is full -/

/-- **C31-track (reject ⇔ full).** (Any tag.)  The capacity test of a timed post (`armTest`) is always
enabled and rejects the post iff `cap ≤ len(q)` at that moment: then `rejected` goes up by one, nothing
is added to `all` or to the list, and the call is over; otherwise nothing is counted and the thread
goes on to append.  Conversely a step that changes `rejected` is such a failed test. -/
theorem C31_track_reject_exact (g : Tags) (s : State) (i : Nat) :
    (∀ todo, s.threads[i]? = some ⟨todo, .armTest⟩ →
      ∃ s', step g s i = some s' ∧ s'.all = s.all ∧ s'.q = s.q ∧
        (s'.rejected = s.rejected + 1 ↔ s.cap ≤ s.q.length) ∧
        (s.cap ≤ s.q.length → s'.threads[i]? = some ⟨todo.tail, .idle⟩) ∧
        (s.q.length < s.cap → s'.rejected = s.rejected ∧
          s'.threads[i]? = some ⟨todo, .armAppend s.nextId⟩)) ∧
    (∀ s', step g s i = some s' → s'.rejected ≠ s.rejected →
      (∃ todo, s.threads[i]? = some ⟨todo, .armTest⟩) ∧ s.cap ≤ s.q.length ∧
        s'.rejected = s.rejected + 1 ∧ s'.all = s.all ∧ s'.q = s.q) := by
  constructor
  · intro todo hi
    have hlen : i < s.threads.length := (List.getElem?_eq_some_iff.mp hi).1
    by_cases hlt : s.q.length < s.cap
    · refine ⟨setPc { s with nextId := s.nextId + 1 } i ⟨todo, .armTest⟩ (.armAppend s.nextId),
        by simp [step, hi, stepT, hlt], rfl, rfl, ?_, fun h => by omega, fun _ => ⟨rfl, ?_⟩⟩
      · simp [setPc]; omega
      · simp [setPc, hlen]
    · refine ⟨finishCall g { s with rejected := s.rejected + 1 } i ⟨todo, .armTest⟩,
        by simp [step, hi, stepT, hlt], rfl, rfl, ?_, fun _ => ?_, fun h => absurd h hlt⟩
      · simp [finishCall]; omega
      · simp [finishCall, hlen]
  · intro s' hs hne
    obtain ⟨t, tn, hi, _, hc⟩ := step_shape hs
    rcases hc with ⟨_, _, _, _, _, hr, _⟩ | ⟨_, _, _, _, hr⟩ | ⟨_, _, _, _, _, _, hr⟩ |
      ⟨hp, hcap, _, _, ha, hq, hr⟩ | ⟨_, _, _, _, hr⟩
    · exact absurd hr hne
    · exact absurd hr hne
    · exact absurd hr hne
    · obtain ⟨todo, pc⟩ := t
      simp only at hp; subst hp
      exact ⟨⟨todo, hi⟩, hcap, hr, ha, hq⟩
    · exact absurd hr hne

/-- **C31-track (every timed post is tracked or rejected).** With the lock, in every reachable state
the number of sources ever tracked plus the number of rejected posts plus the number of timed posts
not yet decided is the number of timed posts in the programs: a rejected post adds nothing to `all`, an
accepted one exactly one source. -/
theorem C31_track_arms_accounted (cap : Nat) (progs : List (List Call)) (sched : List Step) :
    let s := (sys ⟨true⟩).run (init cap progs) sched
    s.all.length + s.rejected + pendingArms s.threads = totalArms progs := by
  intro s
  have := acc_run sched (init cap progs) (inv_init cap progs)
  have h0 : (init cap progs).all.length + (init cap progs).rejected = 0 := rfl
  rw [pendingArms_init, h0, Nat.zero_add] at this
  exact this

/-- non-vacuity of 4: in `demoPre` thread 2's post is tested when the list holds 4 = `cap` records and
is rejected; with capacity 5 the same schedule accepts it.  Five posts in the programs: 4 tracked + 1
rejected (resp. 5 tracked). -/
example :
    let a := (sys ⟨true⟩).run (init 4 demoProgs) (demoPre.take 14)
    let b := (sys ⟨true⟩).run a [2]
    let b5 := (sys ⟨true⟩).run (init 5 demoProgs) (demoPre.take 15 ++ [2])
    a.threads[2]? = some ⟨[.arm 4, .cancelId 9], .armTest⟩ ∧ a.q.length = 4 ∧ a.rejected = 0 ∧
    b.rejected = 1 ∧ b.all = a.all ∧ b.threads[2]? = some ⟨[.cancelId 9], .idle⟩ ∧
    totalArms demoProgs = 5 ∧ b.all.length = 4 ∧ pendingArms b.threads = 0 ∧
    b5.rejected = 0 ∧ b5.all.length = 5 ∧ b5.q.length = 5 := by decide

/-! ### 5. without the lock a cancel pops a record it did not look at -/

/-- thread 0 arms a source named 1 and then cancels name 1; thread 1 arms a source named 2 -/
def raceProgs : List (List Call) := [[.arm 1, .cancelName 1], [.arm 2]]

/-- thread 0: arm (3 steps), start `cancelName 1` and look at the last record (source 0, named 1);
thread 1: the whole `arm 2` (3 steps: source 1 is appended); thread 0: clear + pop; then both threads
run on (thread 0 ends its loop; thread 1 has nothing more to do) -/
def raceSched : List Step := [0, 0, 0, 0, 0, 1, 1, 1, 0, 0, 1, 1, 1]

/-- **Witness (no lock).** Tag `locked = false`, `raceSched`: the cancel looked at source 0 (name 1),
the timed post of the other thread appended source 1 (name 2) between the look and the pop, the cancel
cleared the flag of source 0 and popped source 1.  At the end source 1 (named 2) has its flag set and is
NOT in the list — no `cancel_event`, `cancel_events` or `stop()` can reach it any more —, and source 0
(named 1) has its flag cleared and IS STILL in the list (a stale record that keeps counting against the
capacity).  Both invariants 1 and 2-with-flags fail for source 1.  With `locked = true` the very same
schedule (three entries of thread 1 are skipped while thread 0 holds the lock) ends with source 0
cancelled and removed, source 1 live and tracked: invariants intact. -/
theorem C11_track_witness_unlocked :
    let u := (sys ⟨false⟩).run (init 5 raceProgs) raceSched
    let l := (sys ⟨true⟩).run (init 5 raceProgs) raceSched
    u.q = [⟨0, 1, false⟩] ∧ u.all = [⟨0, 1, false⟩, ⟨1, 2, true⟩] ∧
    (∃ r ∈ u.all, r.name = 2 ∧ r.flag = true ∧ ∀ r' ∈ u.q, r'.id ≠ r.id) ∧
    (∃ r ∈ u.q, r.name = 1 ∧ r.flag = false) ∧
    u.threads = [⟨[], .idle⟩, ⟨[], .idle⟩] ∧ blockedCount ⟨false⟩ (init 5 raceProgs) raceSched = 3 ∧
    l.q = [⟨1, 2, true⟩] ∧ l.all = [⟨0, 1, false⟩, ⟨1, 2, true⟩] ∧
    (∀ r ∈ l.all, r.flag = true → ∃ r' ∈ l.q, r'.id = r.id) ∧ (∀ r ∈ l.q, r ∈ l.all) ∧
    l.threads = [⟨[], .idle⟩, ⟨[], .idle⟩] ∧ blockedCount ⟨true⟩ (init 5 raceProgs) raceSched = 3 := by
  decide

/-- the race step by step: after the look (`seen` = source 0) and the other thread's append, the last
record is source 1; the clear+pop step clears source 0 and removes source 1 -/
example :
    let a := (sys ⟨false⟩).run (init 5 raceProgs) (raceSched.take 8)
    let b := (sys ⟨false⟩).run a [0]
    a.q = [⟨0, 1, true⟩, ⟨1, 2, true⟩] ∧
    a.threads[0]? = some ⟨[.cancelName 1], .loopAct 0 (.cancelName 1) (some ⟨0, 1, true⟩)⟩ ∧
    b.q = [⟨0, 1, false⟩] ∧ b.all = [⟨0, 1, false⟩, ⟨1, 2, true⟩] := by decide

/-! ### 7. the current source -/

/-- the generated tag -/
def genTags : Tags := ⟨Miros.Gen.aoTrackingLocked⟩

theorem genTags_ok : genTags = ⟨true⟩ := by decide

/-- **C11-track (current source).** Statements 1 and 2 for the tag generated from the source
(`posted_events_lock` is held around the capacity test + append and around both cancel loops). -/
theorem C11_track_current (cap : Nat) (progs : List (List Call)) (sched : List Step) :
    let s := (sys genTags).run (init cap progs) sched
    (∀ r ∈ s.all, r.flag = true → r ∈ s.q ∧ ∃ r' ∈ s.q, r'.id = r.id) ∧
    (s.q.map (·.id)).Nodup ∧ (∀ r ∈ s.q, r ∈ s.all) ∧ s.q.length ≤ cap ∧ (s.all.map (·.id)).Nodup := by
  rw [genTags_ok]
  exact ⟨C11_track_live_sources_are_tracked cap progs sched,
    C11_track_list_is_sublist_of_all cap progs sched⟩

/-- non-vacuity of 7: the demo run under the generated tag -/
example :
    let s := (sys genTags).run (init 4 demoProgs) (demoPre ++ demoCancel ++ demoRest)
    s.q = [⟨1, 3, true⟩] ∧ s.all = [⟨0, 1, false⟩, ⟨1, 3, true⟩, ⟨2, 2, false⟩, ⟨3, 1, false⟩] := by
  decide

end Miros.Props.C11Track
