import MirosModel.Conc.LDLemmas
import MirosModel.Conc.LDConserve
import MirosModel.Conc.LDRefine
import MirosModel.Gen.Constants
/-!
# C04 — every posted event is dispatched exactly once, in queue order; no lost wake-up

"Every event posted to a started, not-stopped active object — by post_fifo/post_lifo from any
thread, from its own handlers … — is dispatched to its chart exactly once, in the order its queue
discipline gives (fifo posts at the back, lifo posts at the front), unless queue overflow displaced
it. Once no thread has work left the object's queue is empty (no lost wake-up), and its
run-to-completion steps never overlap."

Model: `Miros.Conc.LD` (`MirosModel/Conc/LockingDeque.lean`), one primitive operation of
`LockingDeque` / `run_event` / `next_rtc` per step, any number of poster threads with arbitrary
finite post lists, the handlers' own posts executed inline by the consumer; interleaving semantics
`Miros.Conc.System.run` over **all** schedules.  The posting algorithm is the one of the current
source tree, `Miros.Gen.ldAlg` (generated tag); the standing hypotheses are bundled in
`Miros.Conc.LD.Good`: that algorithm, capacity ≥ 1, no STOP event posted, distinct event objects.
-/
namespace Miros.Props.C04
open Miros.Conc Miros.Conc.LD Miros.Queue

variable {c : Config} {progs : List (List (Kind × Ev))}

/-! ### 1. bounds -/

/-- **C04 (bounded).** After every schedule the deque and the token queue are within capacity. -/
theorem C04_bounded (g : Good c progs) (sched : List Nat) :
    ((sys c).run (init c progs) sched).dq.length ≤ c.cap ∧
    ((sys c).run (init c progs) sched).tok ≤ c.cap :=
  ⟨(Inv.ofRun g sched).dqCap, (Inv.ofRun g sched).tokCap⟩

/-! ### 2. the credit invariant -/

/-- **C04 (credit invariant).** In every reachable state each event in the deque is covered by a
token in the token queue or by a *credit*: the consumer holding a token it has not yet used
(`f n p r0 r1`), or a poster (or the consumer's inline program) that has placed its event and is
about to put the token (`s0`).  The run flag and the fabric flag stay set. -/
theorem C04_credit_invariant (g : Good c progs) (sched : List Nat) :
    let s := (sys c).run (init c progs) sched
    s.dq.length ≤ s.tok + credit s ∧ s.fabFlag = true ∧ s.runFlag = true :=
  ⟨(Inv.ofRun g sched).credit, (Inv.ofRun g sched).fab, (Inv.ofRun g sched).run⟩

/-- the same for any reachable state -/
theorem C04_credit_invariant_reachable (g : Good c progs) (s : State)
    (hr : (sys c).Reachable (init c progs) s) :
    s.dq.length ≤ s.tok + credit s ∧ s.fabFlag = true ∧ s.runFlag = true := by
  obtain ⟨sched, rfl⟩ := hr
  exact C04_credit_invariant g sched

/-! ### 3. no lost wake-up -/

/-- **C04 (posters never block).** With the current algorithm a poster that has work left is
enabled in every reachable state (all its token puts are non-blocking). -/
theorem C04_poster_always_enabled (g : Good c progs) (sched : List Nat) (i : Nat) (p : Poster) :
    let s := (sys c).run (init c progs) sched
    s.posters[i]? = some p → p.posts ≠ [] → ((sys c).step s (i + 1)).isSome = true := by
  intro s hp hne
  have := poster_always_enabled g.tokenAfter (Inv.ofRun g sched) i p hp hne
  show ((stepL c s (i + 1)).map (·.1)).isSome = true
  rw [Option.isSome_map]
  exact this

/-- **C04 (no lost wake-up).** If after some schedule no thread is enabled, then the deque is
empty, every poster (and the handlers' inline program) has finished, and the consumer is blocked
in `queue.wait()` on an empty token queue. -/
theorem C04_no_lost_wakeup (g : Good c progs) (sched : List Nat) :
    let s := (sys c).run (init c progs) sched
    (sys c).Quiescent s → s.dq = [] ∧ postersDone s ∧ s.cpc = .w ∧ s.tok = 0 :=
  fun hq => quiescent_facts g.tokenAfter (Inv.ofRun g sched) hq

/-! ### 4. no error -/

/-- **C04 (no error).** `task_done()` is never called too often, and `deque[0]` / `popleft()` are
never executed on an empty deque. -/
theorem C04_no_error (g : Good c progs) (sched : List Nat) :
    ((sys c).run (init c progs) sched).err = false :=
  (Inv.ofRun g sched).noErr

/-- the accounting behind it: `unfinished_tasks` = tokens in the queue + the one being processed;
at `peek`, `len != 0`, `popleft` the deque is non-empty -/
theorem C04_unfinished_accounting (g : Good c progs) (sched : List Nat) :
    let s := (sys c).run (init c progs) sched
    s.unfinished = s.tok + busy s.cpc ∧
    ((s.cpc = .p ∨ s.cpc = .r0 ∨ s.cpc = .r1) → 1 ≤ s.dq.length) :=
  ⟨(Inv.ofRun g sched).unf, (Inv.ofRun g sched).nonempty⟩

/-! ### 5. exactly once -/

/-- **C04 (conservation).** After every schedule, the event objects that exist — those of the
posters' programs and those created so far by the handlers — are, as a multiset, exactly: the ones
not yet placed, the ones in the deque, the dispatched ones and the ones displaced by overflow. -/
theorem C04_conservation (g : Good c progs) (sched : List Nat) :
    let s := (sys c).run (init c progs) sched
    List.Perm ((progs.flatten.map (·.2)) ++ selfEventsCreated c s)
      (pendingEvents s ++ s.dq ++ s.dispatched ++ s.displaced) :=
  (Cons.ofRun g sched).perm

/-- the handlers' own event objects are the ones numbered `900000 … nextSelf - 1` -/
theorem C04_self_events_uids (g : Good c progs) (sched : List Nat) :
    let s := (sys c).run (init c progs) sched
    (selfEventsCreated c s).map Ev.uid = List.range' 900000 (s.nextSelf - 900000) :=
  (Cons.ofRun g sched).selfUids

/-- **C04 (one place).** No event object is in two places (or twice in one): the identities of the
pending, queued, dispatched and displaced events are pairwise distinct. -/
theorem C04_one_place (g : Good c progs) (sched : List Nat) :
    let s := (sys c).run (init c progs) sched
    ((pendingEvents s ++ s.dq ++ s.dispatched ++ s.displaced).map Ev.uid).Nodup :=
  places_uids_nodup g (Cons.ofRun g sched)

/-- **C04 (at most once).** Whatever the handlers post, no event is dispatched twice. -/
theorem C04_at_most_once (g : Good c progs) (sched : List Nat) :
    (((sys c).run (init c progs) sched).dispatched.map Ev.uid).Nodup :=
  dispatched_uids_nodup g (Cons.ofRun g sched)

/-- **C04 (quiescence: nothing pending).** Once no thread has work left, every event object that
was ever created — in particular every externally posted one — has been dispatched or was
displaced by overflow. -/
theorem C04_quiescent_all_dispatched_or_displaced (g : Good c progs) (sched : List Nat) :
    let s := (sys c).run (init c progs) sched
    (sys c).Quiescent s →
      List.Perm ((progs.flatten.map (·.2)) ++ selfEventsCreated c s) (s.dispatched ++ s.displaced) ∧
      ∀ e ∈ progs.flatten.map (·.2), e ∈ s.dispatched ++ s.displaced := by
  intro s hq
  have hp := quiescent_perm g.tokenAfter (Inv.ofRun g sched) (Cons.ofRun g sched) hq
  refine ⟨hp, fun e he => ?_⟩
  exact hp.subset (List.mem_append_left _ he)

/-- **C04 (displaced only on overflow).** In a reachable state a step changes `displaced` only if
the deque is full at that step (and the step is the placement of a pending event). -/
theorem C04_displaced_only_on_overflow (g : Good c progs) (sched : List Nat) (t : Nat) (s' : State)
    (lbl : String) :
    let s := (sys c).run (init c progs) sched
    stepL c s t = some (s', lbl) → s'.displaced ≠ s.displaced →
      c.cap ≤ s.dq.length ∧ pendingEvents s ≠ [] := by
  intro s h hne
  rcases step_displaced g.tokenAfter (Inv.ofRun g sched) h with h1 | h1
  · exact absurd h1 hne
  · exact h1

/-- with no handler posts and at most `cap` posts in total nothing is ever displaced -/
theorem C04_nothing_displaced_no_overflow (g : Good c progs) (hs : c.selfPosts = fun _ => [])
    (htot : progs.flatten.length ≤ c.cap) (sched : List Nat) :
    ((sys c).run (init c progs) sched).displaced = [] :=
  noOverflow_run g hs htot sched

/-- **C04 (exactly once).** With no handler posts and at most `cap` posts in total: once no thread
has work left, the dispatch record is a permutation of all posted events — each dispatched
exactly once. -/
theorem C04_exactly_once_no_overflow (g : Good c progs) (hs : c.selfPosts = fun _ => [])
    (htot : progs.flatten.length ≤ c.cap) (sched : List Nat) :
    let s := (sys c).run (init c progs) sched
    (sys c).Quiescent s →
      List.Perm (progs.flatten.map (·.2)) s.dispatched ∧ (s.dispatched.map Ev.uid).Nodup := by
  intro s hq
  have hp := quiescent_perm g.tokenAfter (Inv.ofRun g sched) (Cons.ofRun g sched) hq
  have hd : s.displaced = [] := noOverflow_run g hs htot sched
  rw [hd] at hp
  simp only [allEvents, selfEventsCreated, selfCreated_noSelf c hs, List.append_nil] at hp
  exact ⟨hp, C04_at_most_once g sched⟩

/-! ### 6. queue order -/

/-- **C04 (pop takes the front).** The consumer's `popleft` step dispatches exactly the head of
the deque and removes it. -/
theorem C04_order_pop (s s' : State) (lbl : String) (e : Ev) (rest : List Ev)
    (h : stepL c s 0 = some (s', lbl)) (hpc : s.cpc = .r1) (hdq : s.dq = e :: rest) :
    s'.dq = rest ∧ s'.dispatched = s.dispatched ++ [e] ∧ s'.displaced = s.displaced := by
  rcases step_cases h with ⟨p, _, _, ha, _⟩ | ⟨_, _, hd, hh⟩ | ⟨_, hne, _⟩
  · simp [actor, hpc] at ha
  · rcases hh with ⟨h0, _, _⟩ | ⟨e', rest', h1, h2, h3⟩
    · rw [hdq] at h0; simp at h0
    · rw [hdq] at h1
      simp only [List.cons.injEq] at h1
      obtain ⟨rfl, rfl⟩ := h1
      exact ⟨h2, h3, hd⟩
  · exact absurd hpc hne

/-- **C04 (placements).** A step of thread `t` executing the poster program `p` (a poster thread,
or the consumer inside `dispatch`) whose current post is `(k, e)`:
* `deque.append` (`a1`, `b2`) on a non-full deque puts `e` at the back,
* `deque.appendleft` (`l1`) on a non-full deque puts `e` at the front,
* `deque.rotate` (`b1`) permutes the deque,
* every other primitive leaves the deque alone;
no poster primitive touches the dispatch record. -/
theorem C04_order_place (s s' : State) (t : Nat) (lbl : String) (p : Poster) (k : Kind) (e : Ev)
    (r : List (Kind × Ev)) (h : stepL c s t = some (s', lbl)) (ha : actor s t = some p)
    (hp : p.posts = (k, e) :: r) :
    s'.dispatched = s.dispatched ∧
    ((p.pc = .a1 ∨ p.pc = .b2) → s.dq.length < c.cap → s'.dq = s.dq ++ [e] ∧ s'.displaced = s.displaced) ∧
    (p.pc = .l1 → s.dq.length < c.cap → s'.dq = e :: s.dq ∧ s'.displaced = s.displaced) ∧
    (p.pc = .b1 → s'.dq = dqRotate s.dq ∧ s'.dq.Perm s.dq ∧ s'.displaced = s.displaced) ∧
    (p.pc ≠ .a1 → p.pc ≠ .b2 → p.pc ≠ .l1 → p.pc ≠ .b1 → s'.dq = s.dq) := by
  rcases step_cases h with ⟨p1, sh, p', ha', hs, h1, h2, h3⟩ | ⟨rfl, hpc, _⟩ | ⟨rfl, _, hph, _⟩
  · rw [ha] at ha'
    simp only [Option.some.injEq] at ha'
    subst ha'
    obtain ⟨f1, f2, f3, f4⟩ := posterStep_dq c (shared s) sh p p' lbl k e r hp hs
    refine ⟨h3, ?_, ?_, ?_, ?_⟩
    · intro hpc hlt
      obtain ⟨g1, g2⟩ := f1 hpc
      rw [h1, h2, g1, g2]
      simp [dqAppend, shared, hlt]
    · intro hpc hlt
      obtain ⟨g1, g2⟩ := f2 hpc
      rw [h1, h2, g1, g2]
      simp [dqAppendLeft, shared, hlt]
    · intro hpc
      obtain ⟨g1, g2⟩ := f3 hpc
      rw [h1, h2, g1, g2]
      exact ⟨rfl, dqRotate_perm _, rfl⟩
    · intro n1 n2 n3 n4
      rw [h1, f4 n1 n2 n3 n4]; rfl
  · simp [actor, hpc] at ha
  · simp [actor, hph] at ha

/-- **C04 (nothing else touches the deque).** A consumer step other than `popleft` and the
handlers' inline posts changes neither the deque nor the dispatch record. -/
theorem C04_order_other (s s' : State) (lbl : String) (h : stepL c s 0 = some (s', lbl))
    (h1 : s.cpc ≠ .r1) (h2 : s.cpc ≠ .h) :
    s'.dq = s.dq ∧ s'.dispatched = s.dispatched ∧ s'.displaced = s.displaced := by
  rcases step_cases h with ⟨p, _, _, ha, _⟩ | ⟨_, hpc, _⟩ | ⟨_, _, _, e1, e2, e3⟩
  · simp [actor, h2] at ha
  · exact absurd hpc h1
  · exact ⟨e1, e3, e2⟩

/-- **C04 (rotate only after a full deque was seen).** In a reachable state, a poster program
enters the rotate branch `b1` only by its `len(deque) < maxlen` test (`a0`) failing. -/
theorem C04_order_b1_only_when_full (g : Good c progs) (sched : List Nat) (t : Nat) (s' : State)
    (lbl : String) (p p' : Poster) :
    let s := (sys c).run (init c progs) sched
    stepL c s t = some (s', lbl) → actor s t = some p → p.pc ≠ .b1 →
      actor s' t = some p' → p'.pc = .b1 → p.pc = .a0 ∧ c.cap ≤ s.dq.length := by
  intro s h ha hnb ha' hb
  have hi := Inv.ofRun g sched
  have hpk : pcOk p := by
    cases t with
    | zero =>
      simp only [actor] at ha
      split at ha
      · simp only [Option.some.injEq] at ha; subst ha; exact hi.ipc
      · simp at ha
    | succ i => exact hi.ppc p (List.mem_of_getElem? ha)
  -- the poster program after the step is the stepped one
  cases t with
  | succ i =>
    obtain ⟨p1, sh, p1', hp1, hs, rfl⟩ := stepL_poster h
    simp only [actor] at ha ha'
    rw [ha] at hp1
    simp only [Option.some.injEq] at hp1; subst hp1
    have hlen : i < (s.posters).length := by
      rcases List.getElem?_eq_some_iff.mp ha with ⟨hl, _⟩; exact hl
    simp only [List.getElem?_set_self hlen, Option.some.injEq] at ha'
    subst ha'
    exact posterStep_to_b1 c (shared s) sh p p1' lbl g.tokenAfter hpk hs hb
  | zero =>
    simp only [actor] at ha ha'
    split at ha
    · rename_i hph
      simp only [Option.some.injEq] at ha; subst ha
      simp only [stepL, consumerStep, hph] at h
      cases hps : posterStep c (shared s) s.inline with
      | none => simp [hps] at h
      | some r =>
        obtain ⟨sh, p1, l⟩ := r
        simp only [hps] at h
        split at h <;>
        · simp only [Option.some.injEq, Prod.mk.injEq] at h
          obtain ⟨rfl, rfl⟩ := h
          split at ha'
          · simp only [Option.some.injEq] at ha'
            subst ha'
            exact posterStep_to_b1 c (shared s) sh s.inline _ l g.tokenAfter hpk hps hb
          · simp at ha'
    · simp at ha

/-- **C04 (refinement of a deque).** For every schedule, the placements and pops it performs
(`opsOf`: `pushBack e` / `pushFront e` / `popFront`, one per `append` / `appendleft` / `popleft`
step, in schedule order), replayed on the empty unbounded double-ended queue, yield exactly the
deque and the dispatch record of the reached state — provided no step took the overflow branch
(`rotate`) or displaced an event. -/
theorem C04_refines_deque (g : Good c progs) (sched : List Nat)
    (hno : NoOverflow c (init c progs) sched) :
    absReplay (opsOf c (init c progs) sched) ([], []) =
      (((sys c).run (init c progs) sched).dq, ((sys c).run (init c progs) sched).dispatched) :=
  refines_deque_from c g.cap sched (init c progs) hno

/-! ### 7. run-to-completion steps never overlap -/

/-- **C04 (rtc exclusive).** Only thread 0 — the active object's own thread — ever dispatches or
moves the consumer's program counter: the steps of all other threads leave both alone, so the
run-to-completion steps (`r1 … d`) are executed by one thread, one after the other. -/
theorem C04_rtc_exclusive (s s' : State) (tid : Nat) (lbl : String) (ht : tid ≠ 0)
    (h : stepL c s tid = some (s', lbl)) :
    s'.dispatched = s.dispatched ∧ s'.cpc = s.cpc ∧ s'.inline = s.inline := by
  cases tid with
  | zero => exact absurd rfl ht
  | succ i =>
    obtain ⟨p, sh, p', _, _, rfl⟩ := stepL_poster h
    exact ⟨rfl, rfl, rfl⟩

/-! ### 8. the earlier algorithm loses a wake-up -/

namespace Ex

def legacyCfg : Config :=
  { alg := .legacy, cap := 3, refl := false, selfPosts := fun _ => [], stopSig := 8 }

/-- two posters, one `post_fifo` each -/
def twoPosts : List (List (Kind × Ev)) := [[(.fifo, ⟨1, 1⟩)], [(.fifo, ⟨1, 2⟩)]]

/-- P0 `full, put`; P1 `full, put`; consumer `is_set, get, fab, len=0, task_done, is_set` (a token
wasted on an empty deque); P0 `append, qsize=1, len=1` → returns; P1 `append, qsize=1`; consumer
`get, fab, len, peek, len, popleft, task_done, is_set`; P1 `len=1` → returns. -/
def lostWakeupSched : List Nat :=
  [1, 1, 2, 2, 0, 0, 0, 0, 0, 0, 1, 1, 1, 2, 2, 0, 0, 0, 0, 0, 0, 0, 0, 2]

end Ex

/-- **C04 (witness, legacy algorithm).** With the earlier algorithm (`put; append; repair with !=`)
there is a schedule of two posters with one post each after which no thread is enabled and both
posters have returned, but an event is still in the deque: a lost wake-up.  (The generated tag
`Miros.Gen.ldAlg` says the current source does not use this algorithm.) -/
theorem C04_witness_legacy :
    let s := (sys Ex.legacyCfg).run (init Ex.legacyCfg Ex.twoPosts) Ex.lostWakeupSched
    ((List.range 3).all fun t => (stepL Ex.legacyCfg s t).isNone) = true ∧
    (s.posters.all fun p => p.posts.isEmpty) = true ∧ s.inline.posts = [] ∧
    s.cpc = .w ∧ s.tok = 0 ∧ s.err = false ∧
    s.dq = [⟨1, 2⟩] ∧ s.dispatched = [⟨1, 1⟩] ∧ s.displaced = [] := by
  decide +kernel

/-- the same as a statement about `Quiescent`: no thread at all is enabled -/
theorem C04_witness_legacy_quiescent :
    let s := (sys Ex.legacyCfg).run (init Ex.legacyCfg Ex.twoPosts) Ex.lostWakeupSched
    (sys Ex.legacyCfg).Quiescent s ∧ postersDone s ∧ s.dq ≠ [] := by
  intro s
  have hlen : s.posters.length = 2 := by decide +kernel
  have h3 : ((List.range 3).all fun t => (stepL Ex.legacyCfg s t).isNone) = true := by decide +kernel
  have hd : (s.posters.all fun p => p.posts.isEmpty) = true ∧ s.inline.posts = [] ∧ s.dq ≠ [] := by
    decide +kernel
  refine ⟨?_, ⟨?_, hd.2.1⟩, hd.2.2⟩
  · intro t
    show (stepL Ex.legacyCfg s t).map (·.1) = none
    simp only [List.all_eq_true, List.mem_range] at h3
    by_cases ht : t < 3
    · have := h3 t ht
      rw [Option.isNone_iff_eq_none] at this
      rw [this]; rfl
    · obtain ⟨i, rfl⟩ : ∃ i, t = i + 1 := ⟨t - 1, by omega⟩
      have : s.posters[i]? = none := by
        rw [List.getElem?_eq_none_iff]; omega
      simp [stepL, this]
  · intro p hp
    have := List.all_eq_true.mp hd.1 p hp
    simpa using this

/-- the tag generated from the source selects the repaired algorithm -/
theorem C04_alg_is_tokenAfter : Miros.Gen.ldAlg = .tokenAfter := by decide

/-! ### non-vacuity -/

namespace Ex

/-- current algorithm, capacity 2, instrumented chart; the handler of signal 1 posts signal 2 -/
def cfg (cap : Nat) : Config :=
  { alg := Miros.Gen.ldAlg, cap := cap, refl := true,
    selfPosts := fun sg => if sg = 1 then [(.fifo, 2)] else [], stopSig := 8 }

def posts3 : List (List (Kind × Ev)) := [[(.fifo, ⟨1, 1⟩), (.lifo, ⟨3, 2⟩)], [(.fifo, ⟨4, 3⟩)]]

/-- round robin over the three threads until nothing is enabled (51 effective steps) -/
def roundRobin : List Nat :=
  [0, 1, 2, 1, 2, 1, 2, 0, 1, 2, 0, 1, 2, 0, 1, 2, 0, 1, 0, 1, 0, 1, 0, 1] ++ List.replicate 27 0

/-- round robin with capacity 4 (69 effective steps) -/
def roundRobin4 : List Nat :=
  [0, 1, 2, 1, 2, 1, 2, 0, 1, 2, 0, 1, 2, 0, 1, 2, 0, 1, 2, 0, 1, 2, 0, 1, 0, 1, 0, 1, 0, 1] ++
    List.replicate 39 0

theorem good (cap : Nat) (h : 0 < cap) : Good (cfg cap) posts3 where
  alg := rfl
  cap := h
  noStop := by
    show ∀ p ∈ posts3, ∀ x ∈ p, x.2.sig ≠ 8
    decide
  noStopSelf := by
    intro sg x hx
    show x.2 ≠ 8
    simp only [cfg] at hx
    split at hx
    · simp at hx; subst hx; decide
    · simp at hx
  uidsNodup := by decide
  uidsSmall := by decide

end Ex

example : Good (Ex.cfg 2) Ex.posts3 := Ex.good 2 (by decide)

/-- the same posts under the legacy schedule shape: the current algorithm does not lose the wake-up -/
example :
    let c : Config := { Ex.legacyCfg with alg := Miros.Gen.ldAlg }
    let s := (sys c).run (init c Ex.twoPosts) (Ex.lostWakeupSched ++ [1, 1, 1] ++ List.replicate 13 0)
    ((List.range 3).all fun t => (stepL c s t).isNone) = true ∧ s.dq = [] ∧
    s.dispatched = [⟨1, 1⟩, ⟨1, 2⟩] ∧ s.displaced = [] ∧ s.err = false := by
  decide +kernel

/-- capacity 2, four events: quiescent, queue empty, one event displaced by overflow, the
handler's own event dispatched -/
example :
    let s := (sys (Ex.cfg 2)).run (init (Ex.cfg 2) Ex.posts3) Ex.roundRobin
    ((List.range 3).all fun t => (stepL (Ex.cfg 2) s t).isNone) = true ∧
    s.dq = [] ∧ s.cpc = .w ∧ s.tok = 0 ∧ s.unfinished = 0 ∧ s.err = false ∧
    s.dispatched = [⟨1, 1⟩, ⟨3, 2⟩, ⟨2, 900000⟩] ∧ s.displaced = [⟨4, 3⟩] ∧ s.nextSelf = 900001 := by
  decide +kernel

/-- capacity 4, round robin until nothing is enabled (69 effective steps): nothing displaced, every
event dispatched exactly once; the lifo post (3) overtakes the earlier fifo post (4) -/
example :
    let s := (sys (Ex.cfg 4)).run (init (Ex.cfg 4) Ex.posts3) Ex.roundRobin4
    ((List.range 3).all fun t => (stepL (Ex.cfg 4) s t).isNone) = true ∧
    s.dq = [] ∧ s.displaced = [] ∧ s.err = false ∧
    s.dispatched = [⟨1, 1⟩, ⟨3, 2⟩, ⟨4, 3⟩, ⟨2, 900000⟩] ∧
    selfEventsCreated (Ex.cfg 4) s = [⟨2, 900000⟩] := by
  decide +kernel

/-- the refinement statement is not vacuous: that run has no overflow step, and its deque
operations are the expected pushes and pops -/
example : NoOverflow (Ex.cfg 4) (init (Ex.cfg 4) Ex.posts3) Ex.roundRobin4 := by
  decide +kernel

example : opsOf (Ex.cfg 4) (init (Ex.cfg 4) Ex.posts3) Ex.roundRobin4 =
    [.pushBack ⟨1, 1⟩, .pushBack ⟨4, 3⟩, .popFront, .pushFront ⟨3, 2⟩, .pushBack ⟨2, 900000⟩,
     .popFront, .popFront, .popFront] := by
  decide +kernel

/-- … whereas the capacity-2 run does overflow -/
example : ¬ NoOverflow (Ex.cfg 2) (init (Ex.cfg 2) Ex.posts3) Ex.roundRobin := by
  decide +kernel

end Miros.Props.C04
