import MirosModel.Instr.Lemmas
import MirosModel.Gen.Constants
/-!
# C21 — live spy / live trace hand over every line and record once, in order, whatever the clock

"With live spy or live trace switched on, each spy line and each new trace record produced by a
step is handed to the registered callback exactly once and in production order, whatever values
the wall clock returns."

Model: `IState.liveSpy` / `IState.liveTrace` are the lists of everything handed to the two
callbacks so far (`MirosModel/Instr/Spy.lean`).

**No clock in the model.**  The live-trace novelty test of the current source compares record
*identity* (generated switch `Miros.Gen.liveTraceById = true`), not time stamps, so no clock value
enters `Instr.iNext` / `Instr.iStart` / `Instr.clientPost`: these functions have no time parameter
at all, and every statement below therefore holds for every sequence of wall-clock readings.
(The harness replays the same runs under scripted clocks — constant, decreasing, repeating — and
compares both live streams with the model.)  With the older time-stamp comparison the statement
would be false for a clock that repeats a value; the switch is checked by `C21_model_has_no_clock`.

"Exactly once and in production order" is stated as list equalities: the live stream is the
concatenation, in order, of what each step produced — no element dropped, repeated or reordered.
-/
namespace Miros.Props.C21
open Miros.Hsm Miros.Queue Miros.Instr

/-- the live-trace callback of the current source selects new records by identity -/
theorem C21_model_has_no_clock : Miros.Gen.liveTraceById = true := by decide

/-! ### live spy -/

/-- **C21 (live spy, step).** `next_rtc` hands exactly its step log to the live-spy callback. -/
theorem C21_live_spy_next (caps : Caps) (qc : QChart) (g : Cfg) (st st' : IState)
    (h : iNext caps qc g st = some st') : st'.liveSpy = st.liveSpy ++ st'.rtcSpy := by
  cases hq : st.q.q with
  | nil =>
    rw [iNext_nil caps qc g st hq] at h
    simp only [Option.some.injEq] at h; subst h; rfl
  | cons e rest =>
    cases hd : dispatch qc.chart g st.q.cur e.sig with
    | ok r =>
      rw [iNext_cons caps qc g st e rest r hq hd] at h
      simp only [Option.some.injEq] at h; subst h; rfl
    | raise l => rw [iNext_fail caps qc g st e rest hq (by intro r; rw [hd]; simp)] at h; cases h
    | diverge l => rw [iNext_fail caps qc g st e rest hq (by intro r; rw [hd]; simp)] at h; cases h

/-- `start_at` hands exactly its step log to the live-spy callback -/
theorem C21_live_spy_start (caps : Caps) (qc : QChart) (g : Cfg) (st st' : IState) (target : St)
    (h : iStart caps qc g st target = some st') : st'.liveSpy = st.liveSpy ++ st'.rtcSpy := by
  cases hs : startAt qc.chart g target with
  | ok r =>
    rw [iStart_ok caps qc g st target r hs] at h
    simp only [Option.some.injEq] at h; subst h; rfl
  | raise l => rw [iStart_fail caps qc g st target (by intro r; rw [hs]; simp)] at h; cases h
  | diverge l => rw [iStart_fail caps qc g st target (by intro r; rw [hs]; simp)] at h; cases h

/-- a client post between steps hands nothing over (its marker appears in the next `start_at` log
or is dropped by the next `next_rtc`, see `Instr/Spy.lean`) -/
theorem C21_live_spy_post (caps : Caps) (st : IState) (e : Eff) :
    (clientPost caps st e).liveSpy = st.liveSpy ∧ (clientPost caps st e).liveTrace = st.liveTrace :=
  ⟨rfl, rfl⟩

/-- **C21 (live spy).** Over any sequence of operations the live-spy stream is the concatenation of
the step logs, in order: each line of each step log exactly once. -/
theorem C21_live_spy (caps : Caps) (qc : QChart) (g : Cfg) (st st' : IState) (ops : List IOp)
    (hb : Bounded caps st) (h : iRun caps qc g st ops = some st') :
    st'.liveSpy = st.liveSpy ++ runLive caps qc g st ops :=
  (iRun_fields caps qc g ops st st' hb h).2.2.2.2

theorem C21_live_spy_from_init (caps : Caps) (qc : QChart) (g : Cfg) (cap : Nat) (st' : IState)
    (ops : List IOp) (h : iRun caps qc g (iInit cap) ops = some st') :
    st'.liveSpy = runLive caps qc g (iInit cap) ops := by
  rw [C21_live_spy caps qc g (iInit cap) st' ops (Bounded.iInit caps cap) h]; rfl

/-- `runLive` is, by definition, the concatenation of the `rtc.spy` left by each `start_at` /
`next_rtc` of the run (`stepLive`: nothing for a client post, the step log `st1.rtcSpy` otherwise) -/
theorem C21_runLive_unfold (caps : Caps) (qc : QChart) (g : Cfg) (st st1 : IState) (op : IOp)
    (rest : List IOp) (h : iStep caps qc g st op = some st1) :
    runLive caps qc g st (op :: rest) =
      stepLive op st1 ++ runLive caps qc g st1 rest ∧
    (∀ e, stepLive (.post e) st1 = []) ∧ stepLive .next st1 = st1.rtcSpy ∧
    (∀ t, stepLive (.start t) st1 = st1.rtcSpy) := by
  simp only [runLive, h]
  exact ⟨trivial, fun _ => rfl, rfl, fun _ => rfl⟩

/-! ### live trace -/

/-- **C21 (live trace, step).** Each operation hands to the live-trace callback exactly the
records it appends to the trace (`stepRecs`, before the ring truncation): one per transition or
start, none for handled / ignored events, idle steps and client posts. -/
theorem C21_live_trace_step (caps : Caps) (qc : QChart) (g : Cfg) (st st' : IState) (op : IOp)
    (hb : Bounded caps st) (h : iStep caps qc g st op = some st') :
    st'.liveTrace = st.liveTrace ++ stepRecs caps qc g st op ∧
    st'.trace = ring caps.trc (st.trace ++ stepRecs caps qc g st op) :=
  ⟨(iStep_fields caps qc g st st' op hb h).2.2.1, (iStep_fields caps qc g st st' op hb h).2.1⟩

/-- **C21 (live trace).** From the initial state: the live-trace stream is the concatenation of the
per-step records — every record exactly as many times as it was produced, in order — and the
stored trace is its most recent `caps.trc` records. -/
theorem C21_live_trace (caps : Caps) (qc : QChart) (g : Cfg) (cap : Nat) (st' : IState)
    (ops : List IOp) (h : iRun caps qc g (iInit cap) ops = some st') :
    st'.liveTrace = runRecs caps qc g (iInit cap) ops ∧
    st'.trace = ring caps.trc st'.liveTrace := by
  obtain ⟨_, _, h2, h3, _⟩ := iRun_fields caps qc g ops (iInit cap) st' (Bounded.iInit caps cap) h
  have e : st'.liveTrace = runRecs caps qc g (iInit cap) ops := by rw [h3]; rfl
  exact ⟨e, by rw [h2, e]; rfl⟩

theorem C21_live_trace_run (caps : Caps) (qc : QChart) (g : Cfg) (st st' : IState) (ops : List IOp)
    (hb : Bounded caps st) (h : iRun caps qc g st ops = some st') :
    st'.liveTrace = st.liveTrace ++ runRecs caps qc g st ops :=
  (iRun_fields caps qc g ops st st' hb h).2.2.2.1

/-- with the generated ring sizes -/
theorem C21_live_trace_gen (qc : QChart) (cap : Nat) (st' : IState) (ops : List IOp)
    (h : iRun ⟨Miros.Gen.rtcCap, Miros.Gen.spyCap, Miros.Gen.trcCap⟩ qc Miros.Gen.cfg (iInit cap) ops = some st') :
    st'.trace = ring Miros.Gen.trcCap st'.liveTrace :=
  (C21_live_trace _ qc Miros.Gen.cfg cap st' ops h).2

/-! ### non-vacuity on the fixture `Ex.qc1` -/
open Miros.Instr.Ex

/-- the live-spy stream of the whole run: start log, handled step, transition step, ignored step -/
example : ((iRun caps1 qc1 g1 (iInit 5) ops1).map (·.liveSpy)) = some (runLive caps1 qc1 g1 (iInit 5) ops1) ∧
    (runLive caps1 qc1 g1 (iInit 5) ops1).length = 24 := by decide

/-- live trace: start record, then the one transition; the handled and ignored steps add nothing -/
example : (iRun caps1 qc1 g1 (iInit 5) ops1).map (·.liveTrace) =
    some [⟨[], none, [2, 1]⟩, ⟨[2, 1], some 1, [3, 1]⟩] := by decide

/-- with a trace ring of one record the stored trace keeps the latest, the live stream has both -/
example : (iRun ⟨250, 500, 1⟩ qc1 g1 (iInit 5) ops1).map (fun s => (s.trace, s.liveTrace)) =
    some ([⟨[2, 1], some 1, [3, 1]⟩], [⟨[], none, [2, 1]⟩, ⟨[2, 1], some 1, [3, 1]⟩]) := by decide

end Miros.Props.C21
