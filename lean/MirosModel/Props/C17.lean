import MirosModel.Text.ToCodeLemmas
import MirosModel.Props.C01
import MirosModel.Props.C03
/-!
# C17 — template / factory charts behave like the hand-written chart and like their `to_code` text

"A chart assembled with state_method_template, register_signal_callback and register_parent (or
Factory.create/catch/nest) behaves like the equivalent hand-written chart, and the source text
that to_code returns for each of its states, executed in place of the generated state, gives the
same actions, entries, exits, initial transitions and resulting states for every event sequence."

Model: `Miros.Text` (`MirosModel/Text/ToCode.lean`): per-state registration tables with dict
semantics (`register`, `lookup`), the chart denoted by the template handlers (`tmplChart`), the
if/elif ladder printed by `to_code` (`toCode`), what executing the ladder answers (`ladderAnswer`)
and the chart denoted by the executed text (`flatChart`).  The processor is `Miros.Hsm.dispatch` /
`startAt` with the switches generated from the current source.

Hypotheses on the registry (`RegOK`): every table is a dict (each signal at most once; `[]` is one
and `register` keeps it, `C17_register_dict`), and the "callback is named `handled`" flag is only
set on callbacks that do return HANDLED (the library's own `handled` function — `to_code` inlines
such a callback by *name*).
-/
namespace Miros.Props.C17
open Miros.Hsm Miros.Text Miros.Props.C01

/-! ### the registry is a dict -/

/-- the empty table is a dict with honest flags, and `register` keeps both -/
theorem C17_register_dict :
    TableWF [] ∧ FlagsHonest [] ∧
    (∀ tbl sg cb nh, TableWF tbl → TableWF (register tbl sg cb nh)) ∧
    (∀ tbl sg cb nh, FlagsHonest tbl → (nh = true → cb = .handled) →
      FlagsHonest (register tbl sg cb nh)) :=
  ⟨TableWF_nil, FlagsHonest_nil, register_WF, register_FlagsHonest⟩

/-- after `register tbl sg cb`, `sg` maps to `cb` and every other signal is unchanged -/
theorem C17_lookup_register (tbl : Tbl) (sg sg' : RSig) (cb : Cb) (nh : Bool) :
    lookup (register tbl sg cb nh) sg' = if sg' = sg then some cb else lookup tbl sg' :=
  lookup_register tbl sg sg' cb nh

/-! ### the ladder answers like the table -/

/-- **C17 (ladder).** Executing the text printed by `to_code` answers every signal exactly as the
registry does; the three filled-in branches (ENTRY / INIT / EXIT without a registration) answer
HANDLED; any other unregistered signal reaches the `else:` branch (`none`). -/
theorem C17_ladder_answers_like_table (tbl : Tbl) (hf : FlagsHonest tbl) (sg : RSig) :
    ladderAnswer (toCode tbl) sg =
      match lookup tbl sg with
      | some cb => some cb
      | none => if sg = .entry ∨ sg = .init ∨ sg = .exit then some .handled else none := by
  rw [ladderAnswer_toCode_inlined, lookupInlined_eq_lookup tbl hf]
  cases lookup tbl sg <;> rfl

/-- the same without the side condition on the flag: a callback flagged "named `handled`" is
answered HANDLED whatever it is (`lookupInlined`) -/
theorem C17_ladder_answers_inlined (tbl : Tbl) (sg : RSig) :
    ladderAnswer (toCode tbl) sg =
      match (tbl.find? (fun x => x.1 = sg)).map (fun x => if x.2.2 then Cb.handled else x.2.1) with
      | some cb => some cb
      | none => if sg = .entry ∨ sg = .init ∨ sg = .exit then some .handled else none :=
  ladderAnswer_toCode_inlined tbl sg

/-- **C17 (order).** The ladder tests ENTRY first, INIT second, then the user signals in
registration order, EXIT last; each signal at most once. -/
theorem C17_ladder_order (tbl : Tbl) (hwf : TableWF tbl) :
    (toCode tbl).map Branch.sig =
      [RSig.entry, RSig.init] ++ (tbl.map (·.1)).filter (fun s => priority s = 3) ++ [RSig.exit] ∧
    ((toCode tbl).map Branch.sig).Nodup := by
  have h : (toCode tbl).map Branch.sig =
      [RSig.entry, RSig.init] ++ (tbl.map (·.1)).filter (fun s => priority s = 3) ++ [RSig.exit] := by
    rw [toCode_eq]
    simp only [List.map_append]
    rw [segment_sigs tbl hwf 1 .entry priority_1, segment_sigs tbl hwf 2 .init priority_2,
      segment_sigs tbl hwf 4 .exit priority_4, map_sig_branchOf, withPriority_map_fst]
    rfl
  refine ⟨h, ?_⟩
  rw [h]
  have hnd : ((tbl.map (·.1)).filter (fun s => priority s = 3)).Nodup :=
    List.Nodup.sublist List.filter_sublist hwf
  have hm : ∀ s ∈ (tbl.map (·.1)).filter (fun s => priority s = 3), priority s = 3 := by
    intro s hs; rw [List.mem_filter] at hs; simpa using hs.2
  have hne : ∀ s ∈ (tbl.map (·.1)).filter (fun s => priority s = 3),
      s ≠ .entry ∧ s ≠ .init ∧ s ≠ .exit := by
    intro s hs
    have := hm s hs
    refine ⟨?_, ?_, ?_⟩ <;> (intro e; subst e; revert this; decide)
  generalize (tbl.map (·.1)).filter (fun s => priority s = 3) = F at hnd hne
  rw [List.nodup_append]
  refine ⟨?_, by simp, ?_⟩
  · show (RSig.entry :: RSig.init :: F).Nodup
    rw [List.nodup_cons, List.nodup_cons]
    refine ⟨?_, ?_, hnd⟩
    · intro hmem
      rcases List.mem_cons.mp hmem with e | hmem
      · cases e
      · exact (hne _ hmem).1 rfl
    · intro hmem; exact (hne _ hmem).2.1 rfl
  · intro a ha b hb hab
    rw [List.mem_singleton] at hb
    subst hb; subst hab
    rcases List.mem_append.mp ha with ha | ha
    · revert ha; decide
    · exact (hne _ ha).2.2 rfl

/-! ### the two charts -/

/-- **C17 (charts).** The chart of the template handlers and the chart of the executed `to_code`
text differ only in *how* a declining callback declines: the template turns UNHANDLED into SUPER
itself, the text returns UNHANDLED (and the processor then asks with EMPTY_SIGNAL). -/
theorem C17_same_up_to_decline (r : Reg) (d : Nat) (hr : RegOK r) :
    SameUpToDecline (tmplChart r d) (flatChart r d) := by
  refine ⟨?_, ?_, rfl, fun _ => rfl⟩
  · intro s n
    simp only [tmplChart, flatChart]
    rw [C17_ladder_answers_like_table _ (Reg.table_ok r hr s).2]
    cases hl : lookup (r.table s) (.user n) with
    | none => simp
    | some cb => cases cb <;> simp
  · intro s
    simp only [tmplChart, flatChart]
    rw [C17_ladder_answers_like_table _ (Reg.table_ok r hr s).2]
    cases hl : lookup (r.table s) .init with
    | none => simp
    | some cb => cases cb <;> simp

/-- the EXIT answers agree as well (not needed by the spec: an exit is an action either way) -/
theorem C17_exit_answers (r : Reg) (d : Nat) (hr : RegOK r) (s : St) :
    (flatChart r d).exitH s = true ↔
      ((tmplChart r d).exitH s = true ∨ lookup (r.table s) .exit = none) := by
  simp only [tmplChart, flatChart]
  rw [C17_ladder_answers_like_table _ (Reg.table_ok r hr s).2]
  cases hl : lookup (r.table s) .exit with
  | none => simp
  | some cb => cases cb <;> simp

/-- **C17 (spec).** The UML spec does not distinguish the two ways of declining: same offers, same
exits and entries, same initial transitions, same resulting state; and the charts are well-formed
together. -/
theorem C17_spec_agrees (c1 c2 : Chart) (h : SameUpToDecline c1 c2) :
    (∀ cur n, specDispatch c1 cur n = specDispatch c2 cur n) ∧
    (∀ s, specStart c1 s = specStart c2 s) ∧
    (∀ cur evs, runSpec c1 cur evs = runSpec c2 cur evs) ∧
    (WF c1 ↔ WF c2) := by
  have hd : ∀ cur n, specDispatch c1 cur n = specDispatch c2 cur n := by
    intro cur n
    unfold specDispatch
    rw [offers_congr h n cur, h.2.2.1]
    simp only [settle_congr h]
  refine ⟨hd, ?_, ?_, ⟨WF_of_SameUpToDecline h, WF_of_SameUpToDecline h.symm⟩⟩
  · intro s
    unfold specStart
    rw [h.2.2.1]
    simp only [settle_congr h]
  · intro cur evs
    induction evs generalizing cur with
    | nil => rfl
    | cons n ns ih => simp only [runSpec, hd, ih]

/-- two charts that differ only in how they decline, one of them well-formed: every dispatch,
every `start_at` and every run succeeds on both with the same actions (offers, exits, entries,
initial transitions, in the same order) and the same resulting state -/
theorem C17_same_actions (c1 c2 : Chart) (h : SameUpToDecline c1 c2) (hwf : WF c1) :
    (∀ cur n, ∃ r1 r2, dispatch c1 Miros.Gen.cfg cur n = .ok r1 ∧
        dispatch c2 Miros.Gen.cfg cur n = .ok r2 ∧
        actions r1.log = actions r2.log ∧ r1.state = r2.state) ∧
    (∀ s, s ≠ [] → ∃ r1 r2, startAt c1 Miros.Gen.cfg s = .ok r1 ∧
        startAt c2 Miros.Gen.cfg s = .ok r2 ∧
        actions r1.log = actions r2.log ∧ r1.state = r2.state) ∧
    (∀ cur evs, ∃ res, runModel c1 Miros.Gen.cfg cur evs = some res ∧
        runModel c2 Miros.Gen.cfg cur evs = some res) := by
  obtain ⟨hd, hs, hrun, hiff⟩ := C17_spec_agrees c1 c2 h
  have hwf2 : WF c2 := hiff.mp hwf
  refine ⟨?_, ?_, ?_⟩
  · intro cur n
    obtain ⟨r1, e1, a1, s1, _⟩ := C01_dispatch_refines_spec c1 hwf cur n
    obtain ⟨r2, e2, a2, s2, _⟩ := C01_dispatch_refines_spec c2 hwf2 cur n
    exact ⟨r1, r2, e1, e2, by rw [a1, a2, hd], by rw [s1, s2, hd]⟩
  · intro s hne
    obtain ⟨r1, e1, a1, s1, _⟩ := Miros.Props.C03.C03_start c1 hwf s hne
    obtain ⟨r2, e2, a2, s2, _⟩ := Miros.Props.C03.C03_start c2 hwf2 s hne
    exact ⟨r1, r2, e1, e2, by rw [a1, a2, hs], by rw [s1, s2, hs]⟩
  · intro cur evs
    exact ⟨runSpec c1 cur evs, C01_run c1 hwf evs cur, by rw [hrun]; exact C01_run c2 hwf2 evs cur⟩

/-- **C17 (main).** For a registry of dicts with honest `handled` flags whose template chart is
well-formed: executing the `to_code` text of every state in place of the generated states gives,
for every current state and event, for `start_at`, and for every event sequence, the same actions
and the same resulting state. -/
theorem C17_template_eq_flat_actions (r : Reg) (d : Nat) (hr : RegOK r) (hwf : WF (tmplChart r d)) :
    (∀ cur n, ∃ r1 r2, dispatch (tmplChart r d) Miros.Gen.cfg cur n = .ok r1 ∧
        dispatch (flatChart r d) Miros.Gen.cfg cur n = .ok r2 ∧
        actions r1.log = actions r2.log ∧ r1.state = r2.state) ∧
    (∀ s, s ≠ [] → ∃ r1 r2, startAt (tmplChart r d) Miros.Gen.cfg s = .ok r1 ∧
        startAt (flatChart r d) Miros.Gen.cfg s = .ok r2 ∧
        actions r1.log = actions r2.log ∧ r1.state = r2.state) ∧
    (∀ cur evs, ∃ res, runModel (tmplChart r d) Miros.Gen.cfg cur evs = some res ∧
        runModel (flatChart r d) Miros.Gen.cfg cur evs = some res) :=
  C17_same_actions _ _ (C17_same_up_to_decline r d hr) hwf

/-- **C17 (hand-written).** Any chart `c` that reacts like the template chart up to the way it
declines (the equivalent hand-written chart: same transitions, same HANDLED answers, same initial
transitions; a guard that fails may `return UNHANDLED` or fall to the `else:` branch) performs the
same actions and reaches the same states, and so does the `to_code` text compared with `c`. -/
theorem C17_handwritten (r : Reg) (d : Nat) (c : Chart) (hc : SameUpToDecline c (tmplChart r d))
    (hwf : WF c) :
    (∀ cur n, ∃ r1 r2, dispatch c Miros.Gen.cfg cur n = .ok r1 ∧
        dispatch (tmplChart r d) Miros.Gen.cfg cur n = .ok r2 ∧
        actions r1.log = actions r2.log ∧ r1.state = r2.state) ∧
    (∀ s, s ≠ [] → ∃ r1 r2, startAt c Miros.Gen.cfg s = .ok r1 ∧
        startAt (tmplChart r d) Miros.Gen.cfg s = .ok r2 ∧
        actions r1.log = actions r2.log ∧ r1.state = r2.state) ∧
    (∀ cur evs, ∃ res, runModel c Miros.Gen.cfg cur evs = some res ∧
        runModel (tmplChart r d) Miros.Gen.cfg cur evs = some res) :=
  C17_same_actions _ _ hc hwf

/-! ### non-vacuity: a three-state registry

`outer = [1]` ⊃ `mid = [2,1]` ⊃ `inner = [3,2,1]`.  `outer` has an initial transition to `inner`
and a callback named `handled` for signal 7; `inner` answers signal 0 with a transition to `mid`
and declines signal 1 (its callback returns UNHANDLED); `mid` answers signal 1 HANDLED with a
callback that is not named `handled`, and registers signal 0 twice (the second replaces the first). -/

def outerT : Tbl := register (register [] (.user 7) .handled true) .init (.tran [3, 2, 1]) false
def midT : Tbl :=
  register (register (register [] (.user 0) .handled false) (.user 1) .handled false)
    (.user 0) (.tran [3, 2, 1]) false
def innerT : Tbl :=
  register (register (register [] (.user 0) (.tran [2, 1]) false) (.user 1) .unhandled false)
    .exit .handled true

def demo : Reg := [⟨[1], outerT⟩, ⟨[2, 1], midT⟩, ⟨[3, 2, 1], innerT⟩]

/-- the printed ladder of `inner`: ENTRY and INIT filled in, the two user signals in registration
order, EXIT inlined -/
example : toCode innerT =
    [.handledInline .entry, .handledInline .init, .call (.user 0) (.tran [2, 1]),
     .call (.user 1) .unhandled, .handledInline .exit] := by decide

/-- `outer`: INIT moves in front of the user signal registered before it -/
example : toCode outerT =
    [.handledInline .entry, .call .init (.tran [3, 2, 1]), .handledInline (.user 7),
     .handledInline .exit] := by decide

/-- re-registration keeps the position and replaces the callback -/
example : midT = [(.user 0, .tran [3, 2, 1], false), (.user 1, .handled, false)] := by decide

theorem demo_ok : RegOK demo := by
  intro sr hsr
  simp only [demo, List.mem_cons, List.not_mem_nil, or_false] at hsr
  rcases hsr with rfl | rfl | rfl <;> refine ⟨by unfold TableWF; decide, ?_⟩ <;>
    (intro x hx; revert x; decide)

/-- the declining callback: SUPER in the template chart, UNHANDLED in the executed text -/
example : (tmplChart demo 3).react [3, 2, 1] 1 = .pass ∧ (flatChart demo 3).react [3, 2, 1] 1 = .unhandled := by
  decide

example : (tmplChart demo 3).react [3, 2, 1] 0 = .tran [2, 1] ∧ (flatChart demo 3).react [3, 2, 1] 0 = .tran [2, 1] := by
  decide

theorem demo_lookup_cases (s : St) :
    s = [1] ∨ s = [2, 1] ∨ s = [3, 2, 1] ∨ Reg.table demo s = [] := by
  by_cases h1 : s = [1]
  · exact Or.inl h1
  by_cases h2 : s = [2, 1]
  · exact Or.inr (Or.inl h2)
  by_cases h3 : s = [3, 2, 1]
  · exact Or.inr (Or.inr (Or.inl h3))
  · right; right; right
    have e1 : ¬ [1] = s := fun e => h1 e.symm
    have e2 : ¬ [2, 1] = s := fun e => h2 e.symm
    have e3 : ¬ [3, 2, 1] = s := fun e => h3 e.symm
    simp [Reg.table, demo, e1, e2, e3]

theorem demo_WF : WF (tmplChart demo 3) where
  no_fall := fun _ => rfl
  init_desc := by
    intro s t h
    rcases demo_lookup_cases s with rfl | rfl | rfl | hs
    · have : (tmplChart demo 3).init [1] = some [3, 2, 1] := by decide
      rw [this] at h; cases h; decide
    · have : (tmplChart demo 3).init [2, 1] = none := by decide
      rw [this] at h; cases h
    · have : (tmplChart demo 3).init [3, 2, 1] = none := by decide
      rw [this] at h; cases h
    · simp [tmplChart, hs, lookup] at h
  init_depth := by
    intro s t h
    rcases demo_lookup_cases s with rfl | rfl | rfl | hs
    · have : (tmplChart demo 3).init [1] = some [3, 2, 1] := by decide
      rw [this] at h; cases h; decide
    · have : (tmplChart demo 3).init [2, 1] = none := by decide
      rw [this] at h; cases h
    · have : (tmplChart demo 3).init [3, 2, 1] = none := by decide
      rw [this] at h; cases h
    · simp [tmplChart, hs, lookup] at h
  tran_ne_top := by
    intro s n t h
    have key : ∀ tbl : Tbl, (∀ x ∈ tbl, ∀ t, x.2.1 = .tran t → t ≠ []) →
        ∀ sg t, lookup tbl sg = some (.tran t) → t ≠ [] := by
      intro tbl htbl sg t hl
      unfold lookup at hl
      cases hf : tbl.find? (fun x => x.1 = sg) with
      | none => rw [hf] at hl; cases hl
      | some x =>
        rw [hf] at hl
        simp only [Option.map_some, Option.some.injEq] at hl
        exact htbl x (List.mem_of_find?_eq_some hf) t hl
    have hall : ∀ x ∈ Reg.table demo s, ∀ t, x.2.1 = .tran t → t ≠ [] := by
      rcases demo_lookup_cases s with rfl | rfl | rfl | hs
      · have : ∀ x ∈ Reg.table demo [1], x.2.1 = .handled ∨ x.2.1 = .tran [3, 2, 1] := by decide
        intro x hx t ht; rcases this x hx with e | e <;> rw [e] at ht <;> cases ht; decide
      · have : ∀ x ∈ Reg.table demo [2, 1], x.2.1 = .handled ∨ x.2.1 = .tran [3, 2, 1] := by decide
        intro x hx t ht; rcases this x hx with e | e <;> rw [e] at ht <;> cases ht; decide
      · have : ∀ x ∈ Reg.table demo [3, 2, 1], x.2.1 = .handled ∨ x.2.1 = .unhandled ∨ x.2.1 = .tran [2, 1] := by
          decide
        intro x hx t ht; rcases this x hx with e | e | e <;> rw [e] at ht <;> cases ht; decide
      · rw [hs]; simp
    simp only [tmplChart] at h
    cases hl : lookup (Reg.table demo s) (.user n) with
    | none => rw [hl] at h; cases h
    | some cb =>
      rw [hl] at h
      cases cb with
      | tran t' => simp only [React.tran.injEq] at h; subst h; exact key _ hall _ _ hl
      | handled => cases h
      | unhandled => cases h
  no_none := by
    intro s n
    simp only [tmplChart]
    cases lookup (Reg.table demo s) (.user n) with
    | none => simp
    | some cb => cases cb <;> simp

/-- the theorem applied to the demo: from `inner`, events 1 (declined by `inner`, HANDLED by
`mid`), 0 (transition to `mid`), 0 (transition back to `inner`): both charts run, with the same
actions, and rest in `inner` -/
example : ∃ res, runModel (tmplChart demo 3) Miros.Gen.cfg [3, 2, 1] [1, 0, 0] = some res ∧
    runModel (flatChart demo 3) Miros.Gen.cfg [3, 2, 1] [1, 0, 0] = some res ∧ res.1 = [3, 2, 1] := by
  have h := C01_run (tmplChart demo 3) demo_WF [1, 0, 0] [3, 2, 1]
  obtain ⟨res, h1, h2⟩ := (C17_template_eq_flat_actions demo 3 demo_ok demo_WF).2.2 [3, 2, 1] [1, 0, 0]
  refine ⟨res, h1, h2, ?_⟩
  rw [h] at h1
  cases h1
  decide

/-- the spec's log of the first event: offered to `inner`, then to `mid`, which handles it -/
example : specDispatch (tmplChart demo 3) [3, 2, 1] 1 =
    ⟨[3, 2, 1], [⟨[3, 2, 1], .user 1⟩, ⟨[2, 1], .user 1⟩]⟩ := by decide

/-- `start_at(outer)`: entry of `outer`, its initial transition down to `inner` -/
example : specStart (flatChart demo 3) [1] =
    ⟨[3, 2, 1], [⟨[1], .entry⟩, ⟨[1], .init⟩, ⟨[2, 1], .entry⟩, ⟨[3, 2, 1], .entry⟩,
      ⟨[3, 2, 1], .init⟩]⟩ := by decide

end Miros.Props.C17
