import MirosModel.Conc.SingleInitLemmas
import MirosModel.Gen.Constants
/-!
# C30 — singletons stay single when constructors can fail

"Singletons stay single even when first requested concurrently": every request that returns an
object returns THE SAME object, for the life of the process, whatever the interleaving of first
requests — including first requests whose constructor raises (the request propagates the
exception, nothing is cached, a later request constructs again) mixed with requests that succeed.

Model: `Miros.Conc.SingleInit` (`MirosModel/Conc/SingleInit.lean`): `SingletonDecorator.__call__`,
one step per access to the shared `instance` / lock, the constructor call split into `__new__`
(`alloc`) and `__init__` (`initRun`, which succeeds or raises according to the request's `ok`
flag).  Any number of threads, each making any list of requests, any schedule.
`Miros.Gen.singletonPublishesEarly = false` (`Tags.publishEarly = false`): the current source — the
object is stored after the constructor returned.  `publishEarly = true`: a seeded change that stores
the object before its initialiser has run and takes it back if the initialiser raises.
Objects are numbered in order of allocation (`nextObj`); the ghost lists `inited` / `failed` log the
objects whose initialiser completed / raised.

NOT modelled: re-entrant requests made by an initialiser (the lock is an `RLock`, so the thread
that is constructing could call the decorator again from inside `__init__`).
-/
namespace Miros.Props.C30Init
open Miros.Conc Miros.Conc.SingleInit

/-- the tags of the current source, as generated from it -/
def genTags : Tags := ⟨Miros.Gen.singletonPublishesEarly⟩

theorem genTags_ok : genTags = ⟨false⟩ := by decide

/-- **C30 (one instance, constructors may raise).** Any programs, any schedule, in every reachable
state: at most one object ever has a completed initialiser; a stored instance is that object;
every request that returned an object returned the stored instance, which is that initialised
object; no request returned `None`; so any two requests (of any threads, at any time) that returned
an object returned the same one. The full inductive invariant (`SingleInit.Inv`) holds. -/
theorem C30_init_single (progs : List (List Req)) (sched : List Nat) :
    let s := (sys ⟨false⟩).run (init progs) sched
    Inv s ∧ s.inited.length ≤ 1 ∧
    (∀ o, s.instance_ = some o → o ∈ s.inited) ∧
    (∀ (i : Nat) (t : Thread), s.threads[i]? = some t →
      (∀ o, Out.obj o ∈ t.outs → o ∈ s.inited ∧ s.instance_ = some o) ∧ Out.none ∉ t.outs) ∧
    (∀ (i j : Nat) (ti tj : Thread) (oi oj : Nat), s.threads[i]? = some ti → s.threads[j]? = some tj →
      Out.obj oi ∈ ti.outs → Out.obj oj ∈ tj.outs → oi = oj) := by
  intro s
  have hI : Inv s := Inv.run progs sched
  have hinst : ∀ o, s.instance_ = some o → o ∈ s.inited := by
    intro o ho; rw [hI.inst o ho]; simp
  have hout : ∀ (i : Nat) (t : Thread) (o : Nat), s.threads[i]? = some t → Out.obj o ∈ t.outs →
      s.instance_ = some o := fun i t o ht ho => (hI.thr i t ht).2.2.2.2.2.2.2.1 o ho
  refine ⟨hI, hI.inited_le, hinst, ?_, ?_⟩
  · intro i t ht
    exact ⟨fun o ho => ⟨hinst o (hout i t o ht ho), hout i t o ht ho⟩, (hI.thr i t ht).2.2.2.2.2.2.2.2⟩
  · intro i j ti tj oi oj hi hj hoi hoj
    have h1 := hout i ti oi hi hoi
    have h2 := hout j tj oj hj hoj
    rw [h1] at h2
    exact Option.some.inj h2

/-- **C30 (for the life of the process).** Once `instance` is set it never changes: whatever is
scheduled afterwards (including requests whose arguments the constructor would refuse), it is the
same object. -/
theorem C30_init_instance_never_changes (progs : List (List Req)) (sched more : List Nat) (o : Nat)
    (h : ((sys ⟨false⟩).run (init progs) sched).instance_ = some o) :
    ((sys ⟨false⟩).run (init progs) (sched ++ more)).instance_ = some o := by
  rw [System.run_append]
  exact run_instance_stable more _ (Inv.run progs sched) h

/-- **C30 (a failed construction is not cached).** In every reachable state: an object whose
initialiser raised is not the stored instance, is not among the initialised objects and was never
returned by any request; raising initialisers and `raised` outcomes correspond one to one (the
number of `raised` outcomes, plus the threads that are leaving the `with` after a raise and are
about to record theirs, equals the number of failed objects — so a request whose initialiser raised
ends with `Out.raised`); an outcome is `raised` only for a request the constructor does not accept
(`p[k] = ⟨false⟩`; a not-accepted request that arrives after the object exists gets the object), so
a thread has at most as many `raised` outcomes as it has finished not-accepted requests. -/
theorem C30_init_failed_not_cached (progs : List (List Req)) (sched : List Nat) :
    let s := (sys ⟨false⟩).run (init progs) sched
    (∀ o ∈ s.failed, s.instance_ ≠ some o ∧ o ∉ s.inited ∧
      ∀ (i : Nat) (t : Thread), s.threads[i]? = some t → Out.obj o ∉ t.outs) ∧
    (s.threads.map fun t => t.outs.count Out.raised + (if t.pc = .release true then 1 else 0)).sum
      = s.failed.length ∧
    (∀ (i : Nat) (t : Thread) (p : List Req), s.threads[i]? = some t → progs[i]? = some p →
      t.outs.length ≤ p.length ∧ p.drop t.outs.length = t.todo ∧
      (∀ k : Nat, t.outs[k]? = some Out.raised → p[k]? = some (Req.mk false)) ∧
      t.outs.count Out.raised ≤ (p.take t.outs.length).countP (fun r => !r.ok)) := by
  intro s
  have hI : Inv s := Inv.run progs sched
  have hP : Prog progs s := Prog.run ⟨false⟩ progs sched
  have hC : Count s := Count.run progs sched
  refine ⟨?_, hC, ?_⟩
  · intro o ho
    have hni : o ∉ s.inited := hI.disj o ho
    refine ⟨fun hi => hni (by rw [hI.inst o hi]; simp), hni, fun i t ht hm => ?_⟩
    have := (hI.thr i t ht).2.2.2.2.2.2.2.1 o hm
    exact hni (by rw [hI.inst o this]; simp)
  · intro i t p ht hp
    obtain ⟨h1, h2, h3, _, _⟩ := hP.2 i t p ht hp
    exact ⟨h1, h2, h3, count_raised_le t.outs p h1 h3⟩

/-- **C30 (every request finishes; no deadlock).** In a reachable state in which no thread can
move, the lock is free and every thread is between requests with nothing left to do and one
outcome per request of its program; the `raised` outcomes are exactly as many as the initialisers
that raised. (A thread waiting at `acquire` implies an owner inside the `with` block, which can
move.) -/
theorem C30_init_all_finish (progs : List (List Req)) (sched : List Nat)
    (hq : (sys ⟨false⟩).Quiescent ((sys ⟨false⟩).run (init progs) sched)) :
    let s := (sys ⟨false⟩).run (init progs) sched
    s.lock = none ∧ s.threads.length = progs.length ∧
    (∀ (i : Nat) (p : List Req), progs[i]? = some p →
      ∃ t, s.threads[i]? = some t ∧ t.todo = [] ∧ t.pc = .idle ∧ t.outs.length = p.length) ∧
    (s.threads.map fun t => t.outs.count Out.raised).sum = s.failed.length := by
  intro s
  have hI : Inv s := Inv.run progs sched
  have hP : Prog progs s := Prog.run ⟨false⟩ progs sched
  have hC : Count s := Count.run progs sched
  obtain ⟨hl, hidle⟩ := quiescent_idle hI hq
  refine ⟨hl, hP.1, ?_, ?_⟩
  · intro i p hp
    have hi : i < s.threads.length := by
      have := (List.getElem?_eq_some_iff.mp hp).1
      have := hP.1; omega
    have ht : s.threads[i]? = some s.threads[i] := List.getElem?_eq_getElem hi
    obtain ⟨hpc, htd⟩ := hidle i _ ht
    obtain ⟨h1, h2, _⟩ := hP.2 i _ p ht hp
    refine ⟨_, ht, htd, hpc, ?_⟩
    rw [htd] at h2
    have := List.drop_eq_nil_iff.mp h2
    omega
  · rw [← hC]
    apply congrArg
    apply List.map_congr_left
    intro t ht
    obtain ⟨i, hi, rfl⟩ := List.getElem_of_mem ht
    have := (hidle i _ (List.getElem?_eq_getElem hi)).1
    simp [raisedW, this]

/-- **C30 (no livelock).** Every schedule makes at most `10 ·` (total number of requests) effective
steps (a request takes at most 9 steps), so there is no infinite execution: a scheduler that keeps
choosing enabled threads reaches a state in which no thread can move — where, by
`C30_init_all_finish`, every request has finished. -/
theorem C30_init_terminates (progs : List (List Req)) (sched : List Nat) :
    (sys ⟨false⟩).effective (init progs) sched ≤ 10 * (progs.map List.length).sum := by
  have := (sys ⟨false⟩).terminates_of_measure (fun _ => True) measure
    (fun _ _ _ _ _ => trivial) (fun _ _ _ _ h => step_measure h) sched (init progs) trivial
  rwa [measure_init] at this

/-- from every reachable state some continuation reaches a state in which no thread can move -/
theorem C30_init_can_finish (progs : List (List Req)) (sched : List Nat) :
    ∃ more, (sys ⟨false⟩).Quiescent ((sys ⟨false⟩).run (init progs) (sched ++ more)) := by
  obtain ⟨more, h⟩ := (sys ⟨false⟩).reaches_quiescence (fun _ => True) measure
    (fun _ _ _ _ _ => trivial) (fun _ _ _ _ h => step_measure h) _
    ((sys ⟨false⟩).run (init progs) sched) (Nat.le_refl _) trivial
  exact ⟨more, by rw [System.run_append]; exact h⟩

/-- **C30 (a later request constructs again).** In a reachable state without instance and with the
lock free (every construction attempted so far raised), a thread between requests whose next
request the constructor accepts, run alone for 9 steps, finishes that request with `Out.obj o`
for a NEW object `o` (`o = nextObj`: never allocated before — not among the failed or initialised
objects, never returned to anyone), which is then the stored, initialised instance. -/
theorem C30_init_later_request_constructs (progs : List (List Req)) (sched : List Nat)
    (i : Nat) (t : Thread) (rest : List Req) :
    let s := (sys ⟨false⟩).run (init progs) sched
    s.instance_ = none → s.lock = none →
    s.threads[i]? = some t → t.pc = .idle → t.todo = ⟨true⟩ :: rest →
    let s' := (sys ⟨false⟩).run s (List.replicate 9 i)
    let o := s.nextObj
    s'.instance_ = some o ∧ s'.inited = [o] ∧ s'.lock = none ∧
    s'.threads[i]? = some ⟨rest, .idle, none, t.outs ++ [.obj o]⟩ ∧
    o ∉ s.failed ∧ o ∉ s.inited ∧
    (∀ (j : Nat) (tj : Thread) (o' : Nat), s.threads[j]? = some tj → Out.obj o' ∉ tj.outs) := by
  intro s hinst hlock ht hpc htodo s' o
  have hI : Inv s := Inv.run progs sched
  have hs' := run_alone_constructs s i t rest ht hpc htodo hinst hlock
  have hlt : i < s.threads.length := (List.getElem?_eq_some_iff.mp ht).1
  have hin : s.inited = [] := by
    rcases hI.noneInst hinst with h | ⟨j, _, hj, _⟩
    · exact h
    · rw [hlock] at hj; cases hj
  refine ⟨by simp [s', hs', o], by simp [s', hs', hin, o], by simp [s', hs'],
    by simp [s', hs', hlt, o], ?_, by simp [hin], ?_⟩
  · intro hf
    exact Nat.lt_irrefl _ (hI.freshF o hf)
  · intro j tj o' hj hm
    have := (hI.thr j tj hj).2.2.2.2.2.2.2.1 o' hm
    rw [hinst] at this; cases this

/-- **C30 (current source).** `C30_init_single` for the tags generated from the current source. -/
theorem C30_init_current (progs : List (List Req)) (sched : List Nat) :
    let s := (sys genTags).run (init progs) sched
    Inv s ∧ s.inited.length ≤ 1 ∧
    (∀ o, s.instance_ = some o → o ∈ s.inited) ∧
    (∀ (i : Nat) (t : Thread), s.threads[i]? = some t →
      (∀ o, Out.obj o ∈ t.outs → o ∈ s.inited ∧ s.instance_ = some o) ∧ Out.none ∉ t.outs) ∧
    (∀ (i j : Nat) (ti tj : Thread) (oi oj : Nat), s.threads[i]? = some ti → s.threads[j]? = some tj →
      Out.obj oi ∈ ti.outs → Out.obj oj ∈ tj.outs → oi = oj) := by
  rw [genTags_ok]
  exact C30_init_single progs sched

/-! ### witnesses: the seeded change `publishEarly = true` -/

/-- T0's constructor refuses its request; T1 and T2 make requests it accepts -/
def wProgs : List (List Req) := [[⟨false⟩], [⟨true⟩], [⟨true⟩]]

/-- T0 up to (not including) its initialiser; T1 a whole fast-path request; T0 to the end;
T2 a whole request; T1 again (only moves if its request is still pending) -/
def wSched : List Nat := [0, 0, 0, 0, 0, 0, 1, 1, 1, 0, 0, 0, 2, 2, 2, 2, 2, 2, 2, 2, 2, 1, 1, 1, 1]

/-- **C30 (witness, publish early).** With `publishEarly = true`: T0 allocates object 0 and stores
it before its initialiser; T1's lock-free fast path sees it and returns `.obj 0`; T0's initialiser
raises and T0 rolls back: after 12 steps T1 holds object 0, whose initialiser FAILED, and
`instance` is `None` again. T2 then constructs object 1: two different objects have been handed out,
one of them never initialised. -/
theorem C30_init_witness_publish_early :
    (let s := (sys ⟨true⟩).run (init wProgs) (wSched.take 12)
     s.threads.map (·.outs) = [[.raised], [.obj 0], []] ∧ 0 ∈ s.failed ∧ s.inited = [] ∧
       s.instance_ = none ∧ s.lock = none) ∧
    (let s := (sys ⟨true⟩).run (init wProgs) wSched
     s.threads.map (·.outs) = [[.raised], [.obj 0], [.obj 1]] ∧ s.failed = [0] ∧ s.inited = [1] ∧
       s.instance_ = some 1 ∧ s.threads.map (·.pc) = [.idle, .idle, .idle]) := by
  decide

/-- **C30 (witness, publish early: a request returns `None`).** T1 passes the fast-path check while
object 0 is published, T0 rolls back, T1's `return self.instance` yields `None`. -/
theorem C30_init_witness_publish_early_none :
    let s := (sys ⟨true⟩).run (init wProgs) [0, 0, 0, 0, 0, 0, 1, 1, 0, 0, 0, 1]
    s.threads.map (·.outs) = [[.raised], [.none], []] ∧ s.failed = [0] ∧ s.instance_ = none := by
  decide

/-- The same schedule on the current source (`publishEarly = false`): T1 finds no instance, waits
for the lock (its third turn is skipped), and once T2 has constructed object 1 gets that properly
initialised object: everyone who gets an object gets object 1. -/
theorem C30_init_witness_same_schedule_current :
    let s := (sys ⟨false⟩).run (init wProgs) wSched
    s.threads.map (·.outs) = [[.raised], [.obj 1], [.obj 1]] ∧ s.failed = [0] ∧ s.inited = [1] ∧
      s.instance_ = some 1 ∧ s.threads.map (·.pc) = [.idle, .idle, .idle] := by
  decide

/-! ### non-vacuity -/

/-- three threads, programs mixing accepted and refused requests -/
def exProgs : List (List Req) := [[⟨false⟩, ⟨true⟩], [⟨true⟩, ⟨false⟩], [⟨false⟩]]

/-- round robin until everything has finished -/
def exSched : List Nat := (List.replicate 16 [0, 1, 2]).flatten ++ [0, 0]

/-- the run: T0's first request raises (object 0), T1 constructs object 1, every other request —
including the refused ones that arrive after object 1 exists — returns object 1 -/
example :
    let s := (sys ⟨false⟩).run (init exProgs) exSched
    s.threads.map (·.outs) = [[.raised, .obj 1], [.obj 1, .obj 1], [.obj 1]] ∧
      s.threads.map (·.pc) = [.idle, .idle, .idle] ∧ s.threads.map (·.todo) = [[], [], []] ∧
      s.instance_ = some 1 ∧ s.inited = [1] ∧ s.failed = [0] ∧ s.lock = none ∧ s.nextObj = 2 := by
  decide

/-- non-vacuity of `C30_init_all_finish`: that run ends in a quiescent state -/
example : (sys ⟨false⟩).Quiescent ((sys ⟨false⟩).run (init exProgs) exSched) :=
  quiescent_of_all_idle (by decide)

/-- non-vacuity of `C30_init_single` / `C30_init_failed_not_cached`: a reachable state with
returned objects, a failed object and a `raised` outcome -/
example :
    let s := (sys ⟨false⟩).run (init exProgs) exSched
    (∃ t ∈ s.threads, Out.obj 1 ∈ t.outs) ∧ s.failed ≠ [] ∧ (∃ t ∈ s.threads, Out.raised ∈ t.outs) := by
  decide

/-- non-vacuity of `C30_init_instance_never_changes`: the instance is set after a prefix of the run
(and not before) -/
example : ((sys ⟨false⟩).run (init exProgs) (exSched.take 32)).instance_ = some 1 ∧
    ((sys ⟨false⟩).run (init exProgs) (exSched.take 31)).instance_ = none := by decide

/-- non-vacuity of `C30_init_later_request_constructs`: after T0's refused request (9 steps of T0)
there is no instance, the lock is free, and T1 is between requests with an accepted request next;
run alone it constructs object 1 -/
example :
    let s := (sys ⟨false⟩).run (init exProgs) (List.replicate 9 0)
    s.instance_ = none ∧ s.lock = none ∧ s.failed = [0] ∧
      s.threads[1]? = some ⟨[⟨true⟩, ⟨false⟩], .idle, none, []⟩ ∧
      ((sys ⟨false⟩).run s (List.replicate 9 1)).threads[1]? = some ⟨[⟨false⟩], .idle, none, [.obj 1]⟩ := by
  decide

end Miros.Props.C30Init
