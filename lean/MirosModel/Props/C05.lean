import MirosModel.Conc.LDTermination
import MirosModel.Conc.LDLegacy
import MirosModel.Gen.Constants
/-!
# C05 — posting never deadlocks or livelocks

Model: `Miros.Conc.LD` (`LockingDeque.append/appendleft/__signal` + the active object's consumer
loop, one primitive per step), interleaving semantics `Miros.Conc.System`.  All statements are for
the posting algorithm generated from the current source (`Miros.Gen.ldAlg`), for every capacity
(`cap = 0` included), any number of posting threads with arbitrary finite lists of fifo / lifo
posts, instrumented or not (`refl`), and **every** schedule: no fairness assumption is needed.

Standing hypotheses: no program posts the STOP event (`NoStop`); the handlers post nothing
(`c.selfPosts = fun _ => []`, plain names) or what they post is well-founded: a ranking of the
signals decreases from an event to the events its handler posts (names ending in `_selfposts`).

Measure (`MirosModel/Conc/LDMeasure.lean`): `mu = W·(U + R) + 13·Λ + T`, a weighted encoding of the
lexicographic tuple (work left to place and pop events, straight-line posting work, work left in
the token top-up loops as a function of the gap `len − qsize`, tokens and consumer pc).
-/
namespace Miros.Props.C05
open Miros.Conc Miros.Conc.LD Miros.Queue

/-- no posting program contains the STOP event -/
def NoStop (c : Config) (progs : List (List (Kind × Ev))) : Prop :=
  ∀ pr ∈ progs, ∀ x ∈ pr, x.2.sig ≠ c.stopSig

/-- the events posted by a handler rank strictly below the event it handles -/
def Ranked (c : Config) : Prop :=
  ∃ rank : Nat → Nat, ∀ sg, ∀ x ∈ c.selfPosts sg, rank x.2 < rank sg

/-- "done": every post has returned and the consumer waits on an empty queue -/
def Done (s : State) : Prop := postersDone s ∧ s.cpc = .w ∧ s.tok = 0 ∧ s.dq = []

/-- the bound on the number of steps: the measure of the initial state (a function of the
capacity, the number of posters and their posts) -/
def C05_bound (c : Config) (progs : List (List (Kind × Ev))) : Nat :=
  mu c (fun _ => 6) (init c progs)

/-! ### 1. a post in progress can always take its next step -/

/-- **C05 (no deadlock).** In every state, a poster that is inside a post (at a pc of the current
algorithm) is enabled: posting never waits for another poster or for the consumer. -/
theorem C05_post_never_blocks (c : Config) (halg : c.alg = Miros.Gen.ldAlg) (s : State) (i : Nat)
    (p : Poster) (hp : s.posters[i]? = some p) (hne : p.posts ≠ []) (hpc : taPc p.pc = true) :
    stepL c s (i + 1) ≠ none := by
  have hta : Miros.Gen.ldAlg = .tokenAfter := by decide
  have hf1 : p.pc ≠ .f1 := by intro h; rw [h] at hpc; simp [taPc] at hpc
  have := posterStep_isSome (halg.trans hta) (shared s) hne hf1
  simp only [stepL, hp]
  split
  · contradiction
  · simp

/-- the same for the handlers' own posts, executed by the consumer thread at pc `h` -/
theorem C05_inline_post_never_blocks (c : Config) (halg : c.alg = Miros.Gen.ldAlg) (s : State)
    (hc : s.cpc = .h) (hne : s.inline.posts ≠ []) (hpc : taPc s.inline.pc = true) :
    stepL c s 0 ≠ none := by
  have hta : Miros.Gen.ldAlg = .tokenAfter := by decide
  have hf1 : s.inline.pc ≠ .f1 := by intro h; rw [h] at hpc; simp [taPc] at hpc
  have := posterStep_isSome (halg.trans hta) (shared s) hne hf1
  simp only [stepL, consumerStep, hc]
  split
  · contradiction
  · split <;> simp

/-- in every reachable state every unfinished poster is enabled, and so is the consumer while it
executes a handler's posts -/
theorem C05_post_never_blocks_reachable_selfposts (c : Config) (progs : List (List (Kind × Ev)))
    (halg : c.alg = Miros.Gen.ldAlg) (hrank : Ranked c) (hsp : SelfNoStop c) (hns : NoStop c progs)
    (sched : List Nat) :
    let s := (sys c).run (init c progs) sched
    (∀ i p, s.posters[i]? = some p → p.posts ≠ [] → stepL c s (i + 1) ≠ none) ∧
    (s.cpc = .h → stepL c s 0 ≠ none) := by
  have hta : Miros.Gen.ldAlg = .tokenAfter := by decide
  obtain ⟨rank, hr⟩ := hrank
  have hI := ld_inv_run (halg.trans hta) (wtOk_of_rank hr) hsp progs hns sched
  refine ⟨fun i p hp hne => ?_, fun hc => ?_⟩
  · have hg := hI.progs p (by unfold allP; exact List.mem_cons_of_mem _ (List.mem_of_getElem? hp))
    exact C05_post_never_blocks c halg _ i p hp hne (hg.1 hne)
  · have hne := hI.inlBusy hc
    have hg := hI.progs _ (show _ ∈ allP _ by unfold allP; exact List.mem_cons_self)
    exact C05_inline_post_never_blocks c halg _ hc hne (hg.1 hne)

theorem C05_post_never_blocks_reachable (c : Config) (progs : List (List (Kind × Ev)))
    (halg : c.alg = Miros.Gen.ldAlg) (hself : c.selfPosts = fun _ => []) (hns : NoStop c progs)
    (sched : List Nat) :
    let s := (sys c).run (init c progs) sched
    ∀ i p, s.posters[i]? = some p → p.posts ≠ [] → stepL c s (i + 1) ≠ none :=
  (C05_post_never_blocks_reachable_selfposts c progs halg ⟨fun _ => 0, by simp [hself]⟩
    (selfNoStop_noSelf hself) hns sched).1

/-! ### 2. no infinite execution -/

/-- **C05 (no livelock).** Every schedule — fair or not — takes at most `C05_bound` enabled steps:
there is no infinite execution, so every post returns after finitely many steps. -/
theorem C05_terminates (c : Config) (progs : List (List (Kind × Ev)))
    (halg : c.alg = Miros.Gen.ldAlg) (hself : c.selfPosts = fun _ => []) (hns : NoStop c progs) :
    ∀ sched, (sys c).effective (init c progs) sched ≤ C05_bound c progs := by
  have hta : Miros.Gen.ldAlg = .tokenAfter := by decide
  exact ld_effective_le (halg.trans hta) (wtOk_noSelf hself) (selfNoStop_noSelf hself) progs hns

/-- the same when handlers post events themselves, as long as that cannot go on for ever -/
theorem C05_terminates_selfposts (c : Config) (progs : List (List (Kind × Ev)))
    (halg : c.alg = Miros.Gen.ldAlg) (hrank : Ranked c) (hsp : SelfNoStop c)
    (hns : NoStop c progs) :
    ∃ B, ∀ sched, (sys c).effective (init c progs) sched ≤ B := by
  have hta : Miros.Gen.ldAlg = .tokenAfter := by decide
  obtain ⟨rank, hr⟩ := hrank
  exact ⟨_, ld_effective_le (halg.trans hta) (wtOk_of_rank hr) hsp progs hns⟩

/-! ### 3. executions end with every post returned and the consumer waiting on an empty queue -/

/-- **C05 (no lost wake-up).** If no thread is enabled, every poster has finished, the consumer
waits, no token and no event is pending. -/
theorem C05_quiescent_is_done_selfposts (c : Config) (progs : List (List (Kind × Ev)))
    (halg : c.alg = Miros.Gen.ldAlg) (hrank : Ranked c) (hsp : SelfNoStop c)
    (hns : NoStop c progs) (sched : List Nat)
    (hq : (sys c).Quiescent ((sys c).run (init c progs) sched)) :
    Done ((sys c).run (init c progs) sched) := by
  have hta : Miros.Gen.ldAlg = .tokenAfter := by decide
  obtain ⟨rank, hr⟩ := hrank
  exact quiescent_done (halg.trans hta)
    (ld_inv_run (halg.trans hta) (wtOk_of_rank hr) hsp progs hns sched) hq

theorem C05_quiescent_is_done (c : Config) (progs : List (List (Kind × Ev)))
    (halg : c.alg = Miros.Gen.ldAlg) (hself : c.selfPosts = fun _ => []) (hns : NoStop c progs)
    (sched : List Nat) (hq : (sys c).Quiescent ((sys c).run (init c progs) sched)) :
    Done ((sys c).run (init c progs) sched) :=
  C05_quiescent_is_done_selfposts c progs halg ⟨fun _ => 0, by simp [hself]⟩
    (selfNoStop_noSelf hself) hns sched hq

/-- **C05 (main).** Every execution prefix can be extended to a quiescent state, and that state is
"done".  Together with `C05_terminates` (every schedule makes boundedly many steps): every maximal
execution is finite and ends with every post returned and the consumer waiting on an empty queue. -/
theorem C05_every_maximal_run_reaches_quiescence_selfposts (c : Config)
    (progs : List (List (Kind × Ev))) (halg : c.alg = Miros.Gen.ldAlg) (hrank : Ranked c)
    (hsp : SelfNoStop c) (hns : NoStop c progs) (sched : List Nat) :
    ∃ sched', (sys c).Quiescent ((sys c).run (init c progs) (sched ++ sched')) ∧
      Done ((sys c).run (init c progs) (sched ++ sched')) := by
  have hta : Miros.Gen.ldAlg = .tokenAfter := by decide
  obtain ⟨rank, hr⟩ := hrank
  obtain ⟨sched', h⟩ :=
    ld_reaches_quiescence (halg.trans hta) (wtOk_of_rank hr) hsp progs hns sched
  exact ⟨sched', h, C05_quiescent_is_done_selfposts c progs halg ⟨rank, hr⟩ hsp hns _ h⟩

theorem C05_every_maximal_run_reaches_quiescence (c : Config) (progs : List (List (Kind × Ev)))
    (halg : c.alg = Miros.Gen.ldAlg) (hself : c.selfPosts = fun _ => []) (hns : NoStop c progs)
    (sched : List Nat) :
    ∃ sched', (sys c).Quiescent ((sys c).run (init c progs) (sched ++ sched')) ∧
      Done ((sys c).run (init c progs) (sched ++ sched')) :=
  C05_every_maximal_run_reaches_quiescence_selfposts c progs halg ⟨fun _ => 0, by simp [hself]⟩
    (selfNoStop_noSelf hself) hns sched

/-- **C05 (fair scheduling).** After any execution prefix, a continuation made of more than
`C05_bound` rounds, each of which gives every thread (the consumer `0` and the posters
`1 … progs.length`) at least one turn, ends with every post returned and the consumer waiting on
an empty queue.  (Round robin is the special case where every round is `[0, 1, …, n]`.) -/
theorem C05_fair_run_is_done (c : Config) (progs : List (List (Kind × Ev)))
    (halg : c.alg = Miros.Gen.ldAlg) (hself : c.selfPosts = fun _ => []) (hns : NoStop c progs)
    (sched : List Nat) (rounds : List (List Nat))
    (hfair : ∀ r ∈ rounds, ∀ t, t ≤ progs.length → t ∈ r)
    (hlen : C05_bound c progs < rounds.length) :
    (sys c).Quiescent ((sys c).run (init c progs) (sched ++ rounds.flatten)) ∧
    Done ((sys c).run (init c progs) (sched ++ rounds.flatten)) := by
  have hta : Miros.Gen.ldAlg = .tokenAfter := by decide
  have hq := ld_fair_quiescent (halg.trans hta) (wtOk_noSelf hself) (selfNoStop_noSelf hself)
    progs hns sched rounds hfair hlen
  exact ⟨hq, C05_quiescent_is_done c progs halg hself hns _ hq⟩

theorem C05_fair_run_is_done_selfposts (c : Config) (progs : List (List (Kind × Ev)))
    (halg : c.alg = Miros.Gen.ldAlg) (hrank : Ranked c) (hsp : SelfNoStop c)
    (hns : NoStop c progs) :
    ∃ B, ∀ (sched : List Nat) (rounds : List (List Nat)),
      (∀ r ∈ rounds, ∀ t, t ≤ progs.length → t ∈ r) → B < rounds.length →
      (sys c).Quiescent ((sys c).run (init c progs) (sched ++ rounds.flatten)) ∧
      Done ((sys c).run (init c progs) (sched ++ rounds.flatten)) := by
  have hta : Miros.Gen.ldAlg = .tokenAfter := by decide
  obtain ⟨rank, hr⟩ := hrank
  refine ⟨mu c (fun sg => wtF c.selfPosts (rank sg) sg) (init c progs),
    fun sched rounds hfair hlen => ?_⟩
  have hq := ld_fair_quiescent (halg.trans hta) (wtOk_of_rank hr) hsp progs hns sched rounds
    hfair hlen
  exact ⟨hq, C05_quiescent_is_done_selfposts c progs halg ⟨rank, hr⟩ hsp hns _ hq⟩

/-- the bound in closed form: `n` posters, `P` posts in total, capacity `cap` -/
theorem C05_bound_le (c : Config) (progs : List (List (Kind × Ev))) :
    C05_bound c progs ≤
      (13 * ((progs.length + 1) * (3 * c.cap + 5)) + 13) *
        (11 * (progs.map List.length).sum + 4 * progs.length + 1) + 2 :=
  mu_init_le c progs

/-! ### 4. the earlier algorithm livelocks -/

/-- **Witness.** With the earlier algorithm (token first, repair loop `while qsize != len`), one
poster with one fifo post and the consumer: a reachable state with the poster still inside its
post, and a non-empty schedule of enabled steps of both threads that leads back to exactly the
same state — a fair infinite execution in which the post never returns. -/
theorem C05_witness_legacy :
    legacyCfg.alg = .legacy ∧
    ∃ (s : State) (σ : List Nat),
      (sys legacyCfg).Reachable (init legacyCfg legacyProgs) s ∧
      σ ≠ [] ∧ 0 ∈ σ ∧ 1 ∈ σ ∧
      (∃ p, s.posters[0]? = some p ∧ p.posts ≠ []) ∧
      (sys legacyCfg).effective s σ = σ.length ∧
      sameState ((sys legacyCfg).run s σ) s = true :=
  ⟨rfl, lassoState, lassoLoop, ⟨lassoPrefix, rfl⟩, by decide, by decide, by decide, by decide,
    lasso_enabled, lasso_returns⟩

/-- hence no bound like `C05_terminates` exists for the earlier algorithm -/
theorem C05_legacy_unbounded :
    ∀ B, ∃ sched, B < (sys legacyCfg).effective (init legacyCfg legacyProgs) sched := by
  intro B
  have hback := sameState_eq lasso_returns
  have h := (sys legacyCfg).lasso_unbounded lassoState lassoLoop hback (B + 1)
  refine ⟨lassoPrefix ++ (List.replicate (B + 1) lassoLoop).flatten, ?_⟩
  rw [System.effective_append]
  show B < _ + (sys legacyCfg).effective lassoState _
  rw [h.2, lasso_enabled]
  simp [lassoLoop]; omega

/-! ### 5. non-vacuity -/

def demoCfg : Config :=
  { alg := Miros.Gen.ldAlg, cap := 2, refl := false, selfPosts := fun _ => [], stopSig := 8 }

def demoProgs : List (List (Kind × Ev)) :=
  [[(.fifo, ⟨20, 1⟩), (.lifo, ⟨21, 2⟩)], [(.fifo, ⟨22, 3⟩)]]

/-- round robin: poster 0, poster 1, consumer -/
def roundRobin (n : Nat) : List Nat := (List.replicate n [1, 2, 0]).flatten

example : NoStop demoCfg demoProgs := by unfold NoStop; decide
example : C05_bound demoCfg demoProgs = 18566 := by decide
example : (sys demoCfg).effective (init demoCfg demoProgs) (roundRobin 30) = 41 := by decide
example : ((sys demoCfg).run (init demoCfg demoProgs) (roundRobin 30)).dispatched =
    [⟨20, 1⟩, ⟨21, 2⟩, ⟨22, 3⟩] := by decide
example : (sys demoCfg).Quiescent ((sys demoCfg).run (init demoCfg demoProgs) (roundRobin 30)) :=
  done_quiescent demoCfg (by unfold postersDone; decide) (by decide) (by decide)
example : Done ((sys demoCfg).run (init demoCfg demoProgs) (roundRobin 30)) := by
  refine ⟨by unfold postersDone; decide, by decide, by decide, by decide⟩

example : ∀ sched, (sys demoCfg).effective (init demoCfg demoProgs) sched ≤ 18566 := by
  intro sched
  have := C05_terminates demoCfg demoProgs rfl rfl (by unfold NoStop; decide) sched
  rwa [show C05_bound demoCfg demoProgs = 18566 by decide] at this

/-- handlers that post: 20 ↦ [fifo 21, lifo 22], 21 ↦ [fifo 22] -/
def demoSelf : Config :=
  { demoCfg with refl := true,
                 selfPosts := fun sg => if sg = 20 then [(.fifo, 21), (.lifo, 22)]
                                        else if sg = 21 then [(.fifo, 22)] else [] }

example : Ranked demoSelf := by
  refine ⟨fun sg => if sg = 20 then 2 else if sg = 21 then 1 else 0, ?_⟩
  intro sg x hx
  simp only [demoSelf] at hx
  split at hx
  · simp at hx; rcases hx with rfl | rfl <;> simp [*]
  · split at hx
    · simp at hx; subst hx; simp [*]
    · simp at hx

example : (sys demoSelf).effective (init demoSelf demoProgs) (roundRobin 70) = 68 := by decide
example : ((sys demoSelf).run (init demoSelf demoProgs) (roundRobin 70)).dispatched =
    [⟨20, 1⟩, ⟨22, 900001⟩, ⟨21, 2⟩, ⟨22, 900002⟩] := by decide
example : Done ((sys demoSelf).run (init demoSelf demoProgs) (roundRobin 70)) := by
  refine ⟨by unfold postersDone; decide, by decide, by decide, by decide⟩

example : SelfNoStop demoSelf := by
  intro sg x hx
  simp only [demoSelf] at hx
  split at hx
  · simp at hx; rcases hx with rfl | rfl <;> decide
  · split at hx
    · simp at hx; subst hx; decide
    · simp at hx

end Miros.Props.C05
