import MirosModel.Conc.PubSub
import MirosModel.Gen.Constants
/-!
# C07 — active-object publish/subscribe works in every configuration

Model: `Miros.Conc.PS` (decision logic of `ActiveObject.subscribe/subscribed/_subscribe/publish/
_publish/top` and the two spy wrappers) over the fabric registry of `Miros.Conc.Fab`.
Quantified over every configuration (instrumented or not, thread running or not, own thread or
not), every registry content (any set of prior subscribers), every signal and queue.
-/
namespace Miros.Props.C07
open Miros.Conc.Fab Miros.Conc.PS

theorem get_append_new (r : Registry) (sig q : Nat) (h : r.get sig = none) :
    Registry.get (r ++ [(sig, [q])]) sig = some [q] := by
  unfold Registry.get at *
  rw [List.find?_append]
  cases hf : List.find? (fun x => decide (x.1 = sig)) r with
  | none => simp
  | some x => rw [hf] at h; simp at h

theorem get_map_add (sig q : Nat) : ∀ (r : Registry) (qs : List Nat), r.get sig = some qs →
    Registry.get (r.map (fun x => if x.1 = sig then (x.1, x.2 ++ [q]) else x)) sig = some (qs ++ [q]) := by
  intro r
  induction r with
  | nil => intro qs h; simp [Registry.get] at h
  | cons a t ih =>
    intro qs h
    unfold Registry.get at h ⊢
    by_cases ha : a.1 = sig
    · simp [List.find?, ha] at h ⊢
      rw [← h]
    · simp only [List.map_cons, ha, if_false]
      simp only [List.find?, ha, decide_false] at h ⊢
      exact ih qs h

/-- after `Registry.subscribe sig q` the queue is registered for the signal -/
theorem mem_subscribe_self (r : Registry) (sig q : Nat) :
    q ∈ ((r.subscribe sig q).get sig).getD [] := by
  unfold Registry.subscribe
  cases hg : r.get sig with
  | none => simp [get_append_new r sig q hg]
  | some qs =>
    simp only []
    by_cases hc : qs.contains q = true
    · simp only [hc, if_true, hg]
      simpa using hc
    · have hc' : qs.contains q = false := by simpa using hc
      simp only [hc', Bool.false_eq_true, if_false]
      rw [get_map_add sig q r qs hg]
      simp

/-- **C07 (subscribe).** In every configuration, whatever the registry already contains (any other
subscribers, this object subscribed before or not), once `subscribe(sig, kind)` has taken effect
the object's queue is registered for the signal — so (by C06/C04) later publications reach its chart. -/
theorem C07_subscribe_effective (cfg : Cfg) (reg : Registry) (sig q : Nat) :
    q ∈ ((subscribeEffect Miros.Gen.psTags cfg reg sig q).get sig).getD [] := by
  have h1 : Miros.Gen.psTags.wrapperAlwaysCalls = true := by decide
  have h2 : Miros.Gen.psTags.subscribedAsksOwnQueue = true := by decide
  unfold subscribeEffect wrapperRuns subscribedAnswer
  simp only [h1, h2, Bool.or_true, if_true]
  cases cfg.running with
  | false => simpa using mem_subscribe_self reg sig q
  | true =>
    simp only [if_true]
    cases hg : reg.get sig with
    | none => simpa [hg] using mem_subscribe_self reg sig q
    | some qs =>
      simp only []
      by_cases hc : qs.contains q = true
      · simp only [hc, if_true, hg]
        simpa using hc
      · simp only [hc]
        simpa using mem_subscribe_self reg sig q

/-- **C07 (publish).** In every configuration `publish(e)` reaches `fabric.publish` (directly when the
thread runs, else through the queued meta event handled by `top`). -/
theorem C07_publish_effective (cfg : Cfg) : publishReaches Miros.Gen.psTags cfg = true := by
  have h1 : Miros.Gen.psTags.wrapperAlwaysCalls = true := by decide
  simp [publishReaches, wrapperRuns, h1]

/-- the meta events are not known to the chart: offered to every active state they fall through to `top` -/
theorem C07_meta_event_reaches_top (c : Miros.Hsm.Chart) (n : Nat) (h : ∀ s, c.react s n = .pass) (cur : Miros.Hsm.St) :
    (Miros.Hsm.offers c n cur).2 = .ignored := meta_reaches_top c n h cur

/-- witness for the unrepaired wrappers: an un-instrumented object never subscribes -/
theorem C07_witness_wrapper :
    (subscribeEffect ⟨false, true⟩ ⟨false, true, false⟩ [] 7 1).get 7 = none := by decide

/-- witness for the unrepaired `subscribed()`: a running object is ignored when another object's
queue (2) is already registered for the signal -/
theorem C07_witness_subscribed :
    (subscribeEffect ⟨true, false⟩ ⟨true, true, false⟩ [(7, [2])] 7 1).get 7 = some [2] := by decide

/-! ### non-vacuity -/
example : (subscribeEffect Miros.Gen.psTags ⟨false, true, false⟩ [(7, [2])] 7 1).get 7 = some [2, 1] := by decide
example : (subscribeEffect Miros.Gen.psTags ⟨true, false, true⟩ [] 7 1).get 7 = some [1] := by decide

end Miros.Props.C07
