import MirosModel.Conc.SubFineLemmas
import MirosModel.Gen.Constants
/-!
# C06 / C07 (subscribe, access by access) — `ActiveFabricSource.subscribe` under concurrent callers

"Subscribing the same queue to the same signal again changes nothing and never removes or duplicates
another queue's subscription" (C06); an active object's subscribe works "whether called from inside or
outside its own thread, regardless of which other active objects already subscribed to the same
signal" (C07).

Model: `Miros.Conc.SubFine` (`MirosModel/Conc/SubFine.lean`): one registry (`signal ↦ list of queue
ids`), any number of threads, each with a list of `subscribe(q, sig)` calls; one step = one access
(`acquire`, `look`, `test`, `append`, `create`, `release`).  Tag `extent` says what
`subscription_lock` covers: `all` = the whole body (the current source, generated from
`Miros.Gen.fabSubscribeCoversAppend = true`), `lookupOnly` = look-up and creation only (seeded change),
`none` = no lock (before the repair).  All theorems quantify over every initial registry, every list of
programs and every schedule (`List Step`, any length); entries of the schedule that find their thread
blocked (or with nothing to do) are skipped.
-/
namespace Miros.Props.C06Sub
open Miros.Conc Miros.Conc.SubFine

/-- initial registry: queue 10 is subscribed to signal 1 -/
def demoReg : Registry := [(1, [10])]

/-- three threads, mixed signals and queues: thread 0 subscribes queue 20 to signal 1 and queue 10 to
signal 2; thread 1 subscribes queue 20 to signal 1 (the same subscription as thread 0's) and queue 30
to signal 3; thread 2 subscribes queue 10 to signal 2 (the same as thread 0's second call), queue 10
to signal 1 (already there at the start) and queue 40 to signal 2. -/
def demoProgs : List (List Call) :=
  [[⟨1, 20⟩, ⟨2, 10⟩], [⟨1, 20⟩, ⟨3, 30⟩], [⟨2, 10⟩, ⟨1, 10⟩, ⟨2, 40⟩]]

/-- thread 2 creates the entry of signal 2 while threads 0 and 1 wait for the lock (4 skipped entries);
then thread 1 appends queue 20 to signal 1 (thread 0 and thread 2 wait: 2 more skipped entries).  At
the end the lock is free. -/
def demoPre : List Step := [0, 1, 2, 2, 1, 0, 2, 2, 1, 2, 2, 1, 0, 1, 2, 1, 1, 1]

/-- thread 0's `subscribe(20, 1)` — queue 20 is already subscribed: acquire, look, test, release —
with one step of thread 1 in between and one entry of thread 2 that finds the lock taken -/
def demoResub : List Step := [0, 1, 2, 0, 0, 0]

/-- the remaining calls -/
def demoRest : List Step := [1, 1, 0, 1, 1, 0, 0, 0, 0, 2, 2, 2, 2, 2, 2, 2, 2, 2, 2]

def demoSched : List Step := demoPre ++ demoResub ++ demoRest

/-! ### 1. no duplicates -/

/-- **C06-sub (no duplicates).** With the lock around the whole body, from any registry whose signals
are distinct and whose lists are duplicate-free, in EVERY reachable state — also in the middle of a
call — the signals are distinct and every list is duplicate-free (every entry, hence also the list
found by any look-up). -/
theorem C06_sub_no_duplicates (reg : Registry) (progs : List (List Call)) (sched : List Step)
    (hsig : (reg.map (·.1)).Nodup) (hlist : ∀ x ∈ reg, x.2.Nodup) :
    let s := (sys ⟨.all⟩).run (init reg progs) sched
    (s.reg.map (·.1)).Nodup ∧ (∀ x ∈ s.reg, x.2.Nodup) ∧
    (∀ sig l, s.reg.get sig = some l → l.Nodup) := by
  intro s
  have hw : WF s.reg := wf_run sched (inv_init reg progs) ⟨hsig, hlist⟩
  exact ⟨hw.1, hw.2, fun sig l hg => hw.nodup_get hg⟩

/-- the same from the empty registry -/
theorem C06_sub_no_duplicates_from_empty (progs : List (List Call)) (sched : List Step) :
    let s := (sys ⟨.all⟩).run (init [] progs) sched
    (s.reg.map (·.1)).Nodup ∧ (∀ x ∈ s.reg, x.2.Nodup) ∧
    (∀ sig l, s.reg.get sig = some l → l.Nodup) :=
  C06_sub_no_duplicates [] progs sched (by simp) (by simp)

/-- non-vacuity of 1: `demoReg` meets the hypotheses; in the middle of the run (thread 1 holds the lock
and is about to look signal 1 up) and at its end the registry is as stated -/
example :
    (demoReg.map (·.1)).Nodup ∧ (∀ x ∈ demoReg, x.2.Nodup) ∧
    (let a := (sys ⟨.all⟩).run (init demoReg demoProgs) (demoPre.take 12)
     a.reg = [(1, [10]), (2, [10])] ∧ a.owner = some 1 ∧
     a.threads.map (·.pc) = [.acquire, .look, .acquire]) ∧
    ((sys ⟨.all⟩).run (init demoReg demoProgs) demoSched).reg =
      [(1, [10, 20]), (2, [10, 40]), (3, [30])] := by decide

/-! ### 2. nothing is lost -/

/-- **C06-sub (nothing lost).** With the lock around the whole body, in every reachable state every
call that has returned has its queue in the list of its signal; and a subscription once in the
registry (at the start, or at any later moment) stays there whatever steps follow. -/
theorem C06_sub_nothing_lost (reg : Registry) (progs : List (List Call)) (sched : List Step) :
    let s := (sys ⟨.all⟩).run (init reg progs) sched
    (∀ c ∈ s.done, c.q ∈ (s.reg.get c.sig).getD []) ∧
    (∀ (more : List Step) (sig q : Nat), q ∈ (s.reg.get sig).getD [] →
      q ∈ (((sys ⟨.all⟩).run s more).reg.get sig).getD []) := by
  intro s
  have hinv : Inv s := inv_reach reg progs sched
  have hd : DoneOK s := doneOK_run sched (inv_init reg progs) (by intro c hc; simp [init] at hc)
  refine ⟨fun c hc => has_iff.mp (hd c hc), ?_⟩
  intro more sig q hq
  exact has_iff.mp (has_run_mono more hinv (has_iff.mpr hq))

/-- corollary: the subscriptions of the initial registry are in every reachable registry -/
theorem C06_sub_initial_subscriptions_stay (reg : Registry) (progs : List (List Call))
    (sched : List Step) (sig q : Nat) (h : q ∈ (reg.get sig).getD []) :
    q ∈ (((sys ⟨.all⟩).run (init reg progs) sched).reg.get sig).getD [] :=
  (C06_sub_nothing_lost reg progs []).2 sched sig q h

/-- non-vacuity of 2: after `demoPre` two calls have returned (two more are in progress, waiting for
the lock); at the end all seven have -/
example :
    ((sys ⟨.all⟩).run (init demoReg demoProgs) demoPre).done = [⟨2, 10⟩, ⟨1, 20⟩] ∧
    ((sys ⟨.all⟩).run (init demoReg demoProgs) demoPre).reg = [(1, [10, 20]), (2, [10])] ∧
    ((sys ⟨.all⟩).run (init demoReg demoProgs) demoSched).done =
      [⟨2, 10⟩, ⟨1, 20⟩, ⟨1, 20⟩, ⟨3, 30⟩, ⟨2, 10⟩, ⟨1, 10⟩, ⟨2, 40⟩] := by decide

/-! ### 3. any interleaving = the calls run atomically in lock-acquisition order -/

/-- **C06-sub (refinement).** With the lock around the whole body, the registry of the state reached by
any schedule, with the call in progress (if any) run to its end (`absReg`), is the result of running
the calls atomically (`subscribeAtomic`: the body without interruption) from the initial registry in
the order in which they took the lock (`acqLog`); when no thread holds the lock — which is the same as:
the lock is free — this is the registry of the state itself; and the log is an interleaving of the
programs: per thread, the calls that have taken the lock followed by the calls that have not are its
program. -/
theorem C06_sub_refines_atomic (reg : Registry) (progs : List (List Call)) (sched : List Step) :
    let s := (sys ⟨.all⟩).run (init reg progs) sched
    let log := acqLog ⟨.all⟩ (init reg progs) sched
    absReg s = runAtomic reg log ∧
    ((∀ t ∈ s.threads, t.holds = false) ↔ s.owner = none) ∧
    (s.owner = none → s.reg = runAtomic reg log) ∧
    (∀ i, callsOf i log ++ remaining s.threads[i]? = progs[i]?.getD []) := by
  intro s log
  have hinv : Inv s := inv_reach reg progs sched
  have h := refines_run sched (init reg progs) (inv_init reg progs)
  have h0 : absReg (init reg progs) = reg := rfl
  rw [h0] at h
  refine ⟨h, ⟨?_, ?_⟩, fun ho => ?_, fun i => ?_⟩
  · intro hall
    cases ho : s.owner with
    | none => rfl
    | some j =>
      obtain ⟨t, ht, hh⟩ := hinv.held j ho
      rw [hall t (List.mem_of_getElem? ht)] at hh; cases hh
  · intro ho t ht
    obtain ⟨j, hj⟩ := List.mem_iff_getElem?.mp ht
    cases hh : t.holds with
    | false => rfl
    | true =>
      have := (hinv.thr j t hj).2 hh
      rw [ho] at this; cases this
  · rw [← absReg_free ho]; exact h
  · have := log_interleaves i sched (init reg progs) (inv_init reg progs)
    rw [this]
    simp only [init, List.getElem?_map]
    cases progs[i]? <;> rfl

/-- **C06-sub (the final registry is that of a serial order).** In a reachable state in which no thread
can move, the registry is the result of running ALL the calls of the programs one after the other, each
without interruption, in some order that respects every thread's program order (namely the order in
which they took the lock). -/
theorem C06_sub_final_is_serial (reg : Registry) (progs : List (List Call)) (sched : List Step)
    (hq : (sys ⟨.all⟩).Quiescent ((sys ⟨.all⟩).run (init reg progs) sched)) :
    ∃ order : List (Nat × Call),
      ((sys ⟨.all⟩).run (init reg progs) sched).reg = runAtomic reg order ∧
      ∀ i, callsOf i order = progs[i]?.getD [] := by
  have hinv := inv_reach reg progs sched
  obtain ⟨ho, hidle⟩ := quiescent_idle hinv hq
  obtain ⟨_, _, hreg, hlog⟩ := C06_sub_refines_atomic reg progs sched
  refine ⟨acqLog ⟨.all⟩ (init reg progs) sched, hreg ho, fun i => ?_⟩
  rw [← hlog i]
  cases ht : ((sys ⟨.all⟩).run (init reg progs) sched).threads[i]? with
  | none => simp [remaining]
  | some t =>
    obtain ⟨hp, htd, _⟩ := hidle i t ht
    obtain ⟨todo, pc, holds⟩ := t
    simp only at hp htd; subst hp htd
    simp [remaining]

/-- the body of `_subscribe` run without interruption is `Registry.subscribe` of the fabric model
(`MirosModel/Conc/Fabric.lean`), to which the C06 theorems of `Props/C06.lean` apply -/
theorem C06_sub_atomic_is_fabric_subscribe (r : Registry) (c : Call) :
    subscribeAtomic r c = Fab.Registry.subscribe r c.sig c.q := subscribeAtomic_eq_fab r c

/-- non-vacuity of the refinement: the log of the demo run and its atomic execution; in the middle of
thread 1's first call the completed registry already contains its subscription -/
example :
    acqLog ⟨.all⟩ (init demoReg demoProgs) demoSched =
      [(2, ⟨2, 10⟩), (1, ⟨1, 20⟩), (0, ⟨1, 20⟩), (1, ⟨3, 30⟩), (0, ⟨2, 10⟩), (2, ⟨1, 10⟩),
       (2, ⟨2, 40⟩)] ∧
    runAtomic demoReg (acqLog ⟨.all⟩ (init demoReg demoProgs) demoSched) =
      [(1, [10, 20]), (2, [10, 40]), (3, [30])] ∧
    (sys ⟨.all⟩).Quiescent ((sys ⟨.all⟩).run (init demoReg demoProgs) demoSched) ∧
    (let a := (sys ⟨.all⟩).run (init demoReg demoProgs) (demoPre.take 12)
     a.reg = [(1, [10]), (2, [10])] ∧ absReg a = [(1, [10, 20]), (2, [10])]) := by
  refine ⟨by decide, by decide, ?_, by decide⟩
  apply quiescent_of_idle
  decide

/-! ### 4. subscribing again changes nothing -/

/-- **C06-sub (re-subscribing changes nothing).** From a reachable state `s` in which the lock is free
and queue `c.q` is already subscribed to `c.sig`, run any schedule during which exactly one call takes
the lock — `c`, by thread `i`; the other threads may step too (up to their `acquire`, where they find
the lock taken and are skipped) — and after which the lock is free again (the call has completed): the
registry is unchanged. -/
theorem C06_sub_resubscribe_changes_nothing (reg : Registry) (progs : List (List Call))
    (pre sched : List Step) (i : Nat) (c : Call) :
    let s := (sys ⟨.all⟩).run (init reg progs) pre
    let s' := (sys ⟨.all⟩).run s sched
    s.owner = none → c.q ∈ (s.reg.get c.sig).getD [] →
    acqLog ⟨.all⟩ s sched = [(i, c)] → s'.owner = none → s'.reg = s.reg := by
  intro s s' hfree hhas hlog hdone
  have hinv : Inv s := inv_reach reg progs pre
  have := refines_free hinv sched hfree hdone
  rw [hlog] at this
  rw [this, runAtomic_cons, subscribeAtomic_of_has (has_iff.mpr hhas)]
  rfl

/-- **C06-sub (re-subscribing under interference, step by step).** In any reachable state, a step of a
thread whose current call's queue is already subscribed to the call's signal does not touch the
registry — whatever the other threads have done or are doing.  (Together with `C06_sub_nothing_lost` —
the subscription stays — this covers every step of such a call: whatever changes the registry while the
call is under way is the work of other threads' calls.) -/
theorem C06_sub_resubscribe_steps_change_nothing (reg : Registry) (progs : List (List Call))
    (sched : List Step) (i : Nat) (t : Thread) (c : Call) (rest : List Call) :
    let s := (sys ⟨.all⟩).run (init reg progs) sched
    s.threads[i]? = some t → t.todo = c :: rest → c.q ∈ (s.reg.get c.sig).getD [] →
    ∀ s', step ⟨.all⟩ s i = some s' → s'.reg = s.reg := by
  intro s hi htodo hhas s' hs
  exact step_reg_of_has (inv_reach reg progs sched) hs hi htodo (has_iff.mpr hhas)

/-- **C06-sub (re-subscribing under interference, whole runs).** From a reachable lock-free state `s` in
which `c.q` is already subscribed to `c.sig`, after ANY schedule that ends in a lock-free state —
whatever calls of whatever threads it contains — the registry is what the calls other than `c` (from
any thread) produce, run atomically in lock-acquisition order: every occurrence of `c` can be deleted
from the serial order. -/
theorem C06_sub_resubscribe_under_interference (reg : Registry) (progs : List (List Call))
    (pre sched : List Step) (c : Call) :
    let s := (sys ⟨.all⟩).run (init reg progs) pre
    let s' := (sys ⟨.all⟩).run s sched
    s.owner = none → c.q ∈ (s.reg.get c.sig).getD [] → s'.owner = none →
    s'.reg = runAtomic s.reg ((acqLog ⟨.all⟩ s sched).filter (fun p => p.2 ≠ c)) := by
  intro s s' hfree hhas hdone
  have hinv : Inv s := inv_reach reg progs pre
  rw [refines_free hinv sched hfree hdone]
  exact runAtomic_filter_of_has (has_iff.mpr hhas) _

/-- non-vacuity of 4: `demoResub` run from the state after `demoPre` is one call — thread 0's
`subscribe(20, 1)`, queue 20 being subscribed to signal 1 already (by thread 1) — with a step of thread
1 and a skipped entry of thread 2 in between; the registry is unchanged and the call has returned -/
example :
    let s := (sys ⟨.all⟩).run (init demoReg demoProgs) demoPre
    let s' := (sys ⟨.all⟩).run s demoResub
    s.owner = none ∧ (20 ∈ (s.reg.get 1).getD []) ∧ acqLog ⟨.all⟩ s demoResub = [(0, ⟨1, 20⟩)] ∧
    s'.owner = none ∧ blockedCount ⟨.all⟩ s demoResub = 1 ∧
    s'.reg = [(1, [10, 20]), (2, [10])] ∧ s.reg = [(1, [10, 20]), (2, [10])] ∧
    s'.done = s.done ++ [⟨1, 20⟩] ∧ s'.threads.map (·.pc) = [.idle, .acquire, .acquire] := by decide

/-! ### 5. every call returns -/

/-- **C06-sub (every call returns; no deadlock).** In a reachable state in which no thread can move, the
lock is free, every thread is between calls with nothing left to do, and as many calls have returned
as the programs contain — each of them with its queue in the registry.  (A thread waiting at `acquire`
implies an owner inside the body, which can move.) -/
theorem C06_sub_all_return (reg : Registry) (progs : List (List Call)) (sched : List Step)
    (hq : (sys ⟨.all⟩).Quiescent ((sys ⟨.all⟩).run (init reg progs) sched)) :
    let s := (sys ⟨.all⟩).run (init reg progs) sched
    s.owner = none ∧ s.threads.length = progs.length ∧
    (∀ t ∈ s.threads, t.todo = [] ∧ t.pc = .idle ∧ t.holds = false) ∧
    s.done.length = totalCalls progs ∧
    (∀ c ∈ s.done, c.q ∈ (s.reg.get c.sig).getD []) := by
  intro s
  have hinv : Inv s := inv_reach reg progs sched
  obtain ⟨ho, hidle⟩ := quiescent_idle hinv hq
  have hall : ∀ t ∈ s.threads, t.todo = [] ∧ t.pc = .idle ∧ t.holds = false := by
    intro t ht
    obtain ⟨j, hj⟩ := List.mem_iff_getElem?.mp ht
    obtain ⟨h1, h2, h3⟩ := hidle j t hj
    exact ⟨h2, h1, h3⟩
  have hcount := count_run sched (init reg progs) (inv_init reg progs)
  rw [pendingCalls_init, pendingCalls_zero (fun t ht => (hall t ht).1)] at hcount
  have hlen : s.threads.length = progs.length := by
    have := run_length ⟨.all⟩ sched (init reg progs)
    simp only [init, List.length_map] at this
    exact this
  refine ⟨ho, hlen, hall, ?_, (C06_sub_nothing_lost reg progs sched).1⟩
  simp only [init, List.length_nil, Nat.add_zero, Nat.zero_add] at hcount
  exact hcount

/-- **C06-sub (no livelock).** Every schedule makes at most `6 ·` (number of calls) effective steps (a
call takes at most 6: idle, acquire, look, test, append, release), so there is no infinite execution:
a scheduler that keeps choosing enabled threads reaches a state in which no thread can move — where, by
`C06_sub_all_return`, every call has returned. -/
theorem C06_sub_all_return_terminates (reg : Registry) (progs : List (List Call))
    (sched : List Step) :
    (sys ⟨.all⟩).effective (init reg progs) sched ≤ 6 * totalCalls progs := by
  have := (sys ⟨.all⟩).terminates_of_measure Inv measure
    (fun _ _ _ h hs => inv_step h hs) (fun _ _ _ h hs => step_measure h hs) sched
    (init reg progs) (inv_init reg progs)
  rwa [measure_init] at this

/-- from every reachable state some continuation reaches a state in which no thread can move -/
theorem C06_sub_all_return_can_finish (reg : Registry) (progs : List (List Call))
    (sched : List Step) :
    ∃ more, (sys ⟨.all⟩).Quiescent ((sys ⟨.all⟩).run (init reg progs) (sched ++ more)) := by
  obtain ⟨more, h⟩ := (sys ⟨.all⟩).reaches_quiescence Inv measure
    (fun _ _ _ h hs => inv_step h hs) (fun _ _ _ h hs => step_measure h hs) _
    ((sys ⟨.all⟩).run (init reg progs) sched) (Nat.le_refl _) (inv_reach reg progs sched)
  exact ⟨more, by rw [System.run_append]; exact h⟩

/-- non-vacuity of 5 (and item 8: three threads, mixed signals and queues, a quiescent run): the demo
run ends with every program empty; 37 effective steps (bound: 6 · 7 = 42), 6 skipped entries -/
example :
    let s := (sys ⟨.all⟩).run (init demoReg demoProgs) demoSched
    s.threads = [⟨[], .idle, false⟩, ⟨[], .idle, false⟩, ⟨[], .idle, false⟩] ∧ s.owner = none ∧
    s.done.length = 7 ∧ totalCalls demoProgs = 7 ∧
    (sys ⟨.all⟩).effective (init demoReg demoProgs) demoSched = 37 ∧
    blockedCount ⟨.all⟩ (init demoReg demoProgs) demoSched = 6 := by decide

example : (sys ⟨.all⟩).Quiescent ((sys ⟨.all⟩).run (init demoReg demoProgs) demoSched) := by
  apply quiescent_of_idle
  decide

/-! ### 6. the lock around the look-up only: duplicate subscription -/

/-- both threads: idle, acquire, look, release, test (five steps each, one after the other: both tests
say "not there"); then both append.  The trailing entries let the second thread finish when the lock
covers the whole body. -/
def dupSched : List Step := [0, 0, 0, 0, 0, 1, 1, 1, 1, 1, 0, 1, 1, 1, 1, 1]

/-- **Witness (lock around look-up + create only).** Tag `extent = lookupOnly`, registry `1 ↦ [10]`, two
threads both subscribing queue 20 to signal 1, `dupSched`: both pass the membership test before either
appends, and queue 20 ends up TWICE in the list (every publication of signal 1 is delivered twice to
it) — `C06_sub_no_duplicates` fails.  With `extent = all` the very same schedule (five entries of
thread 1 are skipped while thread 0 holds the lock) ends with `1 ↦ [10, 20]`. -/
theorem C06_sub_witness_lookup_only :
    let u := (sys ⟨.lookupOnly⟩).run (init [(1, [10])] [[⟨1, 20⟩], [⟨1, 20⟩]]) dupSched
    let l := (sys ⟨.all⟩).run (init [(1, [10])] [[⟨1, 20⟩], [⟨1, 20⟩]]) dupSched
    u.reg = [(1, [10, 20, 20])] ∧ ¬ (∀ x ∈ u.reg, x.2.Nodup) ∧
    u.threads = [⟨[], .idle, false⟩, ⟨[], .idle, false⟩] ∧ u.done = [⟨1, 20⟩, ⟨1, 20⟩] ∧
    u.owner = none ∧
    l.reg = [(1, [10, 20])] ∧ (∀ x ∈ l.reg, x.2.Nodup) ∧
    l.threads = [⟨[], .idle, false⟩, ⟨[], .idle, false⟩] ∧ l.done = [⟨1, 20⟩, ⟨1, 20⟩] ∧
    l.owner = none ∧
    blockedCount ⟨.all⟩ (init [(1, [10])] [[⟨1, 20⟩], [⟨1, 20⟩]]) dupSched = 5 := by
  decide

/-- the race step by step: after ten entries both threads are past the test, about to append, and
nobody holds the lock -/
example :
    let a := (sys ⟨.lookupOnly⟩).run (init [(1, [10])] [[⟨1, 20⟩], [⟨1, 20⟩]]) (dupSched.take 10)
    a.reg = [(1, [10])] ∧ a.owner = none ∧ a.threads.map (·.pc) = [.append, .append] ∧
    (let b := (sys ⟨.lookupOnly⟩).run (init [(1, [10])] [[⟨1, 20⟩], [⟨1, 20⟩]]) (dupSched.take 3)
     b.threads.map (·.pc) = [.release true, .idle] ∧ b.owner = some 0) := by decide

/-! ### 7. no lock: lost subscription -/

/-- both threads look signal 1 up (not there); then both create the entry -/
def lostSched : List Step := [0, 0, 1, 1, 0, 1]

/-- **Witness (no lock).** Tag `extent = none`, empty registry, thread 0 subscribes queue 10 and thread 1
queue 20 to signal 1, `lostSched`: both look-ups say "no entry", thread 0 creates `1 ↦ [10]`, thread 1
overwrites it with `1 ↦ [20]`.  Both calls have returned, queue 10 is NOT subscribed —
`C06_sub_nothing_lost` fails.  With `extent = all` the same schedule (two entries of thread 1 find the
lock taken and are skipped), continued until both calls have returned, gives `1 ↦ [10, 20]`: thread 1
looks the signal up only after thread 0 has created the entry. -/
theorem C06_sub_witness_unlocked :
    let u := (sys ⟨.none⟩).run (init [] [[⟨1, 10⟩], [⟨1, 20⟩]]) lostSched
    let l := (sys ⟨.all⟩).run (init [] [[⟨1, 10⟩], [⟨1, 20⟩]]) (lostSched ++ [0, 0, 1, 1, 1, 1, 1])
    u.reg = [(1, [20])] ∧ u.done = [⟨1, 10⟩, ⟨1, 20⟩] ∧
    u.threads = [⟨[], .idle, false⟩, ⟨[], .idle, false⟩] ∧
    (∃ c ∈ u.done, c.q ∉ (u.reg.get c.sig).getD []) ∧
    l.reg = [(1, [10, 20])] ∧ l.done = [⟨1, 10⟩, ⟨1, 20⟩] ∧
    l.threads = [⟨[], .idle, false⟩, ⟨[], .idle, false⟩] := by
  decide

/-! ### 9. the current source -/

/-- the generated tag -/
def genTags : Tags := ⟨if Miros.Gen.fabSubscribeCoversAppend then .all else .lookupOnly⟩

theorem genTags_ok : genTags = ⟨.all⟩ := by decide

/-- **C06-sub (current source).** Statements 1 and 2 for the tag generated from the source (the membership
test and the append are inside `with self.subscription_lock:`). -/
theorem C06_sub_current (reg : Registry) (progs : List (List Call)) (sched : List Step)
    (hsig : (reg.map (·.1)).Nodup) (hlist : ∀ x ∈ reg, x.2.Nodup) :
    let s := (sys genTags).run (init reg progs) sched
    ((s.reg.map (·.1)).Nodup ∧ (∀ x ∈ s.reg, x.2.Nodup) ∧
      (∀ sig l, s.reg.get sig = some l → l.Nodup)) ∧
    (∀ c ∈ s.done, c.q ∈ (s.reg.get c.sig).getD []) ∧
    (∀ (more : List Step) (sig q : Nat), q ∈ (s.reg.get sig).getD [] →
      q ∈ (((sys genTags).run s more).reg.get sig).getD []) := by
  rw [genTags_ok]
  exact ⟨C06_sub_no_duplicates reg progs sched hsig hlist, C06_sub_nothing_lost reg progs sched⟩

/-- non-vacuity of 9: the demo run under the generated tag -/
example :
    ((sys genTags).run (init demoReg demoProgs) demoSched).reg =
      [(1, [10, 20]), (2, [10, 40]), (3, [30])] := by decide

end Miros.Props.C06Sub
