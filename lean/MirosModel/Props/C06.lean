import MirosModel.Conc.FabricInv
import MirosModel.Gen.Constants
/-!
# C06 — subscribers get each published event exactly once per subscription kind

"After a queue subscribes to a signal with the active fabric, every event with that signal
published while the fabric runs is delivered to that queue exactly once per subscription kind
(fifo/lifo), and never to a queue that did not subscribe to that signal. Subscribing the same queue
to the same signal again changes nothing and never removes or duplicates another queue's
subscription."

Model: `Miros.Conc.Fab` (`MirosModel/Conc/Fabric.lean`), tags `Miros.Gen.fabTags`.
The argument is split as follows.
* registry: `subscribe` is idempotent, adds exactly the pair `(sig, q)`, keeps every list
  duplicate-free; a registry built by any sequence of subscriptions *is* the set of pairs;
* `deliver` hands the event exactly once to exactly the registered queues;
* the `get` step of a delivery thread removes the `FE` it returns and delivers it with the registry
  of its own kind; in every reachable state the `FE`s pending in a fabric queue have pairwise
  distinct sequence numbers (so the erased one is gone for good), and one `publish` call
  contributes exactly one `FE` to each of the two fabric queues.
-/
namespace Miros.Props.C06
open Miros.Conc Miros.Conc.Fab

/-! ### registry -/

/-- `Registry.subscribe` models the repaired `_subscribe` only (an already subscribed queue is left
alone); it is the model of the source tree exactly when the translator reports this tag. -/
theorem C06_model_applies : Miros.Gen.fabTags.subscribeKeepsOthers = true := by decide

/-- subscribing the same queue to the same signal again changes nothing (any registry) -/
theorem C06_subscribe_idempotent (r : Registry) (sig q : Nat) :
    (r.subscribe sig q).subscribe sig q = r.subscribe sig q :=
  Registry.subscribe_idem r sig q

/-- the empty registry is well formed and `subscribe` keeps it so -/
theorem C06_subscribe_wf (r : Registry) (sig q : Nat) (h : r.WF) :
    Registry.WF [] ∧ (r.subscribe sig q).WF :=
  ⟨Registry.WF_nil, h.subscribe sig q⟩

/-- `subscribe sig q` adds `q` to the subscribers of `sig` and nothing else: no other queue is
added or removed for any signal, and every subscriber list stays duplicate-free.
(The membership part holds for every registry; well-formedness is only used for `Nodup`.) -/
theorem C06_subscribe_membership (r : Registry) (h : r.WF) (sig q sig' q' : Nat) :
    (q' ∈ ((r.subscribe sig q).get sig').getD [] ↔
      (q' ∈ (r.get sig').getD [] ∨ (sig' = sig ∧ q' = q))) ∧
    (((r.subscribe sig q).get sig').getD []).Nodup :=
  ⟨Registry.mem_get_subscribe r sig q sig' q', (h.subscribe sig q).nodup_get sig'⟩

/-- a registry built from the empty one by any sequence of subscriptions is exactly the set of
subscribed `(signal, queue)` pairs, without duplicates -/
theorem C06_registry_is_set_of_subscribers (pairs : List (Nat × Nat)) (sig q : Nat) :
    (q ∈ (Registry.get (pairs.foldl (fun (r : Registry) p => r.subscribe p.1 p.2) []) sig).getD [] ↔
      (sig, q) ∈ pairs) ∧
    ((Registry.get (pairs.foldl (fun (r : Registry) p => r.subscribe p.1 p.2) []) sig).getD []).Nodup := by
  refine ⟨?_, ?_⟩
  · have := Registry.mem_get_subscribeAll [] pairs sig q
    simpa [Registry.subscribeAll, Registry.get_nil] using this
  · exact (Registry.WF_nil.subscribeAll pairs).nodup_get sig

/-! ### deliver -/

/-- **C06 (deliver).** With distinct queue ids and a well-formed registry, `deliver` leaves the list
of queue ids alone; the queue with a registered id gets exactly one more occurrence of `e`
(and no other event is added or removed); every other queue is unchanged. -/
theorem C06_deliver_exact (t : Tags) (k : Kind) (reg : Registry) (e : PEv) (subs : List SubQ)
    (hids : (subs.map (·.id)).Nodup) (hwf : reg.WF) :
    (deliver t k reg e subs).map (·.id) = subs.map (·.id) ∧
    ∀ q ∈ subs, ∀ q' ∈ deliver t k reg e subs, q'.id = q.id →
      q'.isAO = q.isAO ∧
      (q.id ∈ (reg.get e.sig).getD [] →
        List.count e q'.items = List.count e q.items + 1 ∧
        ∀ e', e' ≠ e → List.count e' q'.items = List.count e' q.items) ∧
      (q.id ∉ (reg.get e.sig).getD [] → q' = q) := by
  refine ⟨deliver_ids t k reg e subs, ?_⟩
  intro q hq q' hq' hid
  rw [deliver_eq_map t k reg e subs (hwf.nodup_get e.sig)] at hq'
  simp only [List.mem_map] at hq'
  obtain ⟨q0, hq0, rfl⟩ := hq'
  have hq0id : q0.id = q.id := by
    by_cases hm : q0.id ∈ (reg.get e.sig).getD [] <;> simpa [hm] using hid
  have : q0 = q := eq_of_nodup_map hids hq0 hq hq0id
  subst this
  by_cases hm : q0.id ∈ (reg.get e.sig).getD []
  · simp only [hm, if_true, deliverTo_isAO, true_and, not_true_eq_false, false_imp_iff, and_true]
    intro _
    exact ⟨deliverTo_count t k e q0, fun e' he' => deliverTo_count_ne t k e e' q0 he'⟩
  · simp [hm]

/-- for the tags of the current source tree -/
theorem C06_deliver_exact_fabTags (k : Kind) (reg : Registry) (e : PEv) (subs : List SubQ)
    (hids : (subs.map (·.id)).Nodup) (hwf : reg.WF) :
    ∀ q ∈ subs, ∀ q' ∈ deliver Miros.Gen.fabTags k reg e subs, q'.id = q.id →
      (q.id ∈ (reg.get e.sig).getD [] → List.count e q'.items = List.count e q.items + 1) ∧
      (q.id ∉ (reg.get e.sig).getD [] → q' = q) := by
  intro q hq q' hq' hid
  obtain ⟨_, h1, h2⟩ := (C06_deliver_exact Miros.Gen.fabTags k reg e subs hids hwf).2 q hq q' hq' hid
  exact ⟨fun h => (h1 h).1, h2⟩

/-! ### the `get` step of a delivery thread -/

/-- **C06 (get, fifo thread).** At pc `g` the fifo thread is blocked on an empty queue; otherwise
its step removes exactly `minFE` of the fifo fabric queue and delivers the event (if it is not the
stop marker) to the queues registered *for kind fifo at that moment*. -/
theorem C06_get_step_fifo (t : Tags) (s : State) (th : Thr) (h : s.thrF = some th) (hp : th.pc = .g) :
    (minFE t s.fq = none → (sys t).step s 0 = none) ∧
    ∀ fe, minFE t s.fq = some fe →
      (sys t).step s 0 = some { s with
        fq := s.fq.erase fe,
        subs := (match fe.ev with | some e => deliver t .fifo s.regF e s.subs | none => s.subs),
        thrF := some { th with pc := .d } } := by
  refine ⟨fun hm => ?_, fun fe hm => ?_⟩ <;> simp [sys, stepL, thrStep, h, hp, hm]
  cases fe.ev <;> rfl

/-- **C06 (get, lifo thread).** The same for the lifo thread, lifo queue and lifo registry. -/
theorem C06_get_step_lifo (t : Tags) (s : State) (th : Thr) (h : s.thrL = some th) (hp : th.pc = .g) :
    (minFE t s.lq = none → (sys t).step s 1 = none) ∧
    ∀ fe, minFE t s.lq = some fe →
      (sys t).step s 1 = some { s with
        lq := s.lq.erase fe,
        subs := (match fe.ev with | some e => deliver t .lifo s.regL e s.subs | none => s.subs),
        thrL := some { th with pc := .d } } := by
  refine ⟨fun hm => ?_, fun fe hm => ?_⟩ <;> simp [sys, stepL, thrStep, h, hp, hm]
  cases fe.ev <;> rfl

/-- no step of a delivery thread at another pc touches a subscriber queue or a fabric queue -/
theorem C06_only_get_delivers (t : Tags) (k : Kind) (s s1 : State) (th th' : Thr) (lbl : String)
    (hp : th.pc ≠ .g) (h : thrStep t k s th = some (th', s1, lbl)) :
    s1.subs = s.subs ∧ s1.fq = s.fq ∧ s1.lq = s.lq := by
  obtain ⟨pc, gen⟩ := th
  cases pc <;> cases k <;> simp only [thrStep] at h <;> simp at hp
  all_goals (repeat' split at h)
  all_goals simp only [Option.some.injEq, Prod.mk.injEq, reduceCtorEq] at h
  all_goals (obtain ⟨_, rfl, _⟩ := h; simp)

/-- no client step touches a subscriber queue -/
theorem C06_clients_do_not_deliver (t : Tags) (s s1 : State) (c c' : Client) (lbl : String)
    (h : clientStep t s c = some (c', s1, lbl)) : s1.subs = s.subs :=
  (clientStep_reg h).2

/-! ### each fabric event is processed once -/

/-- **C06 (system invariant).** For any number of clients running any programs, after every
schedule: the `FE`s pending in the fifo fabric queue have pairwise distinct sequence numbers, all
below the counter; the same for the lifo fabric queue; the registries are well formed; the
subscriber queues still have their initial (distinct) ids. A `get`, which erases the `FE` it
returns, can therefore never hand out the same fabric event twice, and `C06_deliver_exact` applies
to every delivery. -/
theorem C06_each_fabric_event_processed_once (subs : List SubQ) (progs : List (List Call))
    (sched : List Nat) :
    let s := (sys Miros.Gen.fabTags).run (init subs progs) sched
    (s.fq.map (·.seq)).Nodup ∧ (∀ x ∈ s.fq, x.seq < s.nextSeq) ∧
    (s.lq.map (·.seq)).Nodup ∧ (∀ x ∈ s.lq, x.seq < s.nextSeq) ∧
    s.fq.Nodup ∧ s.lq.Nodup ∧
    s.regF.WF ∧ s.regL.WF ∧ s.subs.map (·.id) = subs.map (·.id) := by
  intro s
  have hi : SeqInv s := SeqInv_run _ (SeqInv_init subs progs) sched
  have hr := RegInv_run (t := Miros.Gen.fabTags) _ (RegInv_init subs progs) sched
  have hF : NodupLt s.fq s.nextSeq := hi.1.sublist (List.sublist_append_left _ _)
  have hL : NodupLt s.lq s.nextSeq := hi.2.sublist (List.sublist_append_left _ _)
  exact ⟨hF.1, hF.2, hL.1, hL.2, nodup_of_nodup_map hF.1, nodup_of_nodup_map hL.1,
    hr.1.1, hr.1.2, hr.2⟩

/-- the element a `get` returned is not in the queue any more -/
theorem C06_got_is_gone (l : List FE) (fe : FE) (hn : (l.map (·.seq)).Nodup) :
    fe ∉ l.erase fe ∧ ∀ x ∈ l.erase fe, x.seq ≠ fe.seq ∨ fe ∉ l := by
  have hl := nodup_of_nodup_map hn
  refine ⟨fun h => ((List.Nodup.mem_erase_iff hl).1 h).1 rfl, ?_⟩
  intro x hx
  by_cases hfe : fe ∈ l
  · left
    intro e
    have hx' := (List.Nodup.mem_erase_iff hl).1 hx
    exact hx'.1 (eq_of_nodup_map hn hx'.2 hfe e)
  · exact Or.inr hfe

/-- **C06 (publish, entering the call).** `publish(sig, uid, prio)` first creates the lifo `FE`
(fresh sequence number) and leaves both fabric queues alone. -/
theorem C06_publish_call (t : Tags) (s : State) (c : Client) (rest : List Call) (sig uid prio : Nat)
    (hpc : c.pc = .call) (hc : c.calls = .publish sig uid prio :: rest) :
    clientStep t s c =
      some ({ c with pc := .putL ⟨prio, s.nextSeq, some ⟨sig, uid⟩⟩ sig uid prio },
            { s with nextSeq := s.nextSeq + 1 }, "call.publish") := by
  simp [clientStep, hpc, hc]

/-- **C06 (publish, lifo put).** The step at pc `putL fe` appends exactly `fe` to the lifo fabric
queue, leaves the fifo fabric queue alone and creates the fifo `FE` for the same event. -/
theorem C06_publish_putL (t : Tags) (s : State) (c : Client) (call : Call) (rest : List Call) (fe : FE)
    (sig uid prio : Nat) (hpc : c.pc = .putL fe sig uid prio) (hc : c.calls = call :: rest) :
    clientStep t s c =
      some ({ c with pc := .putF ⟨prio, s.nextSeq, some ⟨sig, uid⟩⟩ },
            { s with lq := s.lq ++ [fe], unfL := s.unfL + 1, nextSeq := s.nextSeq + 1 }, "lq.put") := by
  simp [clientStep, hpc, hc]

/-- **C06 (publish, fifo put).** The step at pc `putF fe` appends exactly `fe` to the fifo fabric
queue, leaves the lifo fabric queue alone and returns from the call. -/
theorem C06_publish_putF (t : Tags) (s : State) (c : Client) (call : Call) (rest : List Call) (fe : FE)
    (hpc : c.pc = .putF fe) (hc : c.calls = call :: rest) :
    clientStep t s c =
      some ({ c with calls := rest, pc := .call },
            { s with fq := s.fq ++ [fe], unfF := s.unfF + 1 }, "fq.put") := by
  simp [clientStep, hpc, hc, finishCall]

/-! ### non-vacuity -/

/-- a well-formed registry with two signals; subscribing again changes nothing -/
example : (Registry.subscribe [(1, [10, 11]), (2, [10])] 1 11) = [(1, [10, 11]), (2, [10])] := by decide

example : (Registry.subscribe [(1, [10, 11]), (2, [10])] 2 11) = [(1, [10, 11]), (2, [10, 11])] := by decide

/-- queue 10 subscribed to signal 1 gets the event once, queue 11 (not subscribed) nothing -/
example :
    deliver Miros.Gen.fabTags .fifo [(1, [10])] ⟨1, 7⟩ [⟨10, false, []⟩, ⟨11, false, []⟩] =
      [⟨10, false, [⟨1, 7⟩]⟩, ⟨11, false, []⟩] := by decide

/-- one client subscribes queue 10 (fifo) to signal 1, starts the fabric and publishes one event;
after the threads have drained the fabric queues, queue 10 holds the event exactly once and
queue 11 nothing -/
example :
    ((sys Miros.Gen.fabTags).run
      (init [⟨10, false, []⟩, ⟨11, false, []⟩] [[.subscribe 10 1 .fifo, .start, .publish 1 7 5]])
      [2, 2, 2, 2, 2, 0, 1, 0, 1, 0, 1, 0, 1]).subs = [⟨10, false, [⟨1, 7⟩]⟩, ⟨11, false, []⟩] := by
  decide +kernel

end Miros.Props.C06
