import MirosModel.Conc.AOStop
import MirosModel.Conc.AOEx
import MirosModel.Gen.Constants
/-!
# C11 — cancel_event / cancel_events stop exactly the matching sources, for good

"cancel_event(id) stops exactly the timed source whose id equals id, and cancel_events(e) stops
exactly the sources whose signal name equals e's signal name, however the id or name object was
obtained. After the cancelling call returns, a cancelled source posts nothing more, and the other
sources keep running."

Model: `Miros.Conc.AO` (`MirosModel/Conc/AO.lean`) under the generated tags `Miros.Gen.aoTags`
(`cancelEq`: ids / names compared by value, `cancelLocked`: a source tests its run flag and posts
under its own lock, and the canceller clears the flag under that lock).  Client `j` is thread
`300 + j`, timer `i` is thread `200 + i`.  `s.order` is `posted_events_queue` (indices of the
tracked sources, left to right); `tm.placedAt` lists the instants at which source `tm` placed its
event in the deque.  A cancelling call takes several steps: the call step (the search `scan` over
`order`, client pc `.cancelLock pending`), then one lock step per selected source; the call has
returned when the client has fewer remaining calls.
-/
namespace Miros.Props.C11
open Miros.Queue Miros.Conc Miros.Conc.LD Miros.Conc.AO

/-! ### the search loop -/

/-- **C11 (search, cancel_events).** Looking at the right end `order.length` times, popping the matches and
rotating the others to the front, selects exactly the matching entries (right to left) and leaves
the others in their old order. -/
theorem C11_scan_spec (hit : Nat → Bool) (order : List Nat) :
    scan hit false order.length order [] = ((order.filter hit).reverse, order.filter fun x => !hit x) :=
  scan_all hit order

/-- **C11 (search, cancel_event).** The search stops at the right-most match `x`: it alone is selected; the
queue afterwards is the old one without that entry, rotated (the entries right of `x` now come
first) — the same entries as `order.erase x`.  Without a match nothing is selected and the queue
is as before. -/
theorem C11_scan_spec_first (hit : Nat → Bool) (order : List Nat) :
    ((∀ y ∈ order, hit y = false) ∧ scan hit true order.length order [] = ([], order)) ∨
    (∃ p x suf, order = p ++ x :: suf ∧ hit x = true ∧ (∀ y ∈ suf, hit y = false) ∧
      scan hit true order.length order [] = ([x], suf ++ p) ∧ (suf ++ p).Perm (order.erase x)) := by
  rcases exists_last_hit hit order with h | ⟨p, x, suf, rfl, hx, hs⟩
  · exact Or.inl ⟨h, scan_first_none hit order h⟩
  · refine Or.inr ⟨p, x, suf, rfl, hx, hs, scan_first_some hit p suf x hx hs, ?_⟩
    have h1 : (x :: (suf ++ p)).Perm (p ++ x :: suf) :=
      (List.Perm.cons x List.perm_append_comm).trans List.perm_middle.symm
    exact List.Perm.cons_inv (h1.trans (List.perm_cons_erase (by simp)))

/-! ### what is selected -/

/-- a source's id is its index: in every reachable state timer number `i` carries id `i` (and its
thread has been started) -/
theorem C11_ids_are_indices (c : Config) (progs : List (List (Kind × Ev))) (clients : List (List Call))
    (maxTimers : Nat) (sched : List Nat) (i : Nat) (tm : Timer) :
    ((AO.sys Miros.Gen.aoTags c).run (AO.init c progs clients maxTimers) sched).timers[i]? = some tm →
    tm.id = i ∧ tm.started = true := by
  intro h
  have hI := Inv.run (g := Miros.Gen.aoTags) (c := c) (by decide) (by decide) sched _ (Inv.init c progs clients maxTimers)
  exact ⟨(hI.timers i tm h).1, (hI.timers i tm h).2.1⟩

/-- **C11 (cancel_event selects exactly the source with that id).** In every reachable state the call step
of `cancel_event(id)` — whether `id` is the object returned by the post or an equal copy (`same`) —
puts exactly `[id]` on the client's list of locks to take if source `id` is tracked, and nothing
otherwise (the call then returns at once); that entry leaves `posted_events_queue`, the others
stay; no timer, and nothing else, is touched by the step. -/
theorem C11_selects_exactly (c : Config) (progs : List (List (Kind × Ev))) (clients : List (List Call))
    (maxTimers : Nat) (sched : List Nat) (j : Nat) (hj : j < 700) (cl : Client) (id : Nat) (same : Bool)
    (rest : List Call) :
    let s := (AO.sys Miros.Gen.aoTags c).run (AO.init c progs clients maxTimers) sched
    s.clients[j]? = some cl → cl.pc = .call → cl.calls = .cancelEvent id same :: rest →
    ∃ s', AO.stepL Miros.Gen.aoTags c s (300 + j) = some (s', "call.cancel_event") ∧
      s'.timers = s.timers ∧ s'.ld = s.ld ∧ s'.now = s.now ∧ s'.order.Perm (s.order.erase id) ∧
      s'.clients[j]? = some (if id ∈ s.order then { cl with pc := .cancelLock [id] }
                             else { cl with calls := rest, pc := .call }) := by
  intro s hcl hpc hc
  have hI : Inv s := Inv.run (by decide) (by decide) sched _ (Inv.init c progs clients maxTimers)
  have hs := CStep.sound (g := Miros.Gen.aoTags) (c := c) (by decide) (by decide) hcl
    (CStep.cancelEvent id same rest hpc hc)
  rw [← stepL_client _ _ _ _ hj] at hs
  have hsel := select_id (g := Miros.Gen.aoTags) (by decide) hI id same
  refine ⟨_, hs, rfl, rfl, rfl, hsel.2, ?_⟩
  simp only [getElem?_set_self' hcl, hsel.1, afterSelect_eq_ite]
  by_cases hm : id ∈ s.order <;> simp [hm, finishCall, hc]

/-- **C11 (cancel_events selects exactly the sources with that name).** In every reachable state the call
step of `cancel_events(e)` (any name object) selects exactly the tracked sources whose signal name
is `name`, newest first; they leave `posted_events_queue`, the others stay in their order. -/
theorem C11_selects_exactly_names (c : Config) (progs : List (List (Kind × Ev))) (clients : List (List Call))
    (maxTimers : Nat) (sched : List Nat) (j : Nat) (hj : j < 700) (cl : Client) (name : Nat) (same : Bool)
    (rest : List Call) :
    let s := (AO.sys Miros.Gen.aoTags c).run (AO.init c progs clients maxTimers) sched
    let named : Nat → Bool := timerHas s fun tm => tm.name = name
    let pending := (s.order.filter named).reverse
    s.clients[j]? = some cl → cl.pc = .call → cl.calls = .cancelEvents name same :: rest →
    ∃ s', AO.stepL Miros.Gen.aoTags c s (300 + j) = some (s', "call.cancel_events") ∧
      s'.timers = s.timers ∧ s'.ld = s.ld ∧ s'.now = s.now ∧
      s'.order = s.order.filter (fun i => !named i) ∧
      s'.clients[j]? = some (if pending = [] then { cl with calls := rest, pc := .call }
                             else { cl with pc := .cancelLock pending }) ∧
      (∀ i, i ∈ pending ↔ i ∈ s.order ∧ ∃ tm, s.timers[i]? = some tm ∧ tm.name = name) := by
  intro s named pending hcl hpc hc
  have hs := CStep.sound (g := Miros.Gen.aoTags) (c := c) (by decide) (by decide) hcl
    (CStep.cancelEvents name same rest hpc hc)
  rw [← stepL_client _ _ _ _ hj] at hs
  have hn : hitName Miros.Gen.aoTags s name same = named := hitName_eq (by decide) s name same
  rw [hn, C11_scan_spec] at hs
  refine ⟨_, hs, rfl, rfl, rfl, rfl, ?_, ?_⟩
  · simp only [getElem?_set_self' hcl, afterSelect_eq_ite]
    by_cases hm : (s.order.filter named).reverse = [] <;> simp [pending, hm, finishCall, hc]
  · intro i
    have := hitName_iff (g := Miros.Gen.aoTags) (by decide) s name same i
    rw [hn] at this
    simp only [pending, List.mem_reverse, List.mem_filter, this]

/-- **C11 (a lock step cancels the head of the list and nothing else).** A cancelling client at
`.cancelLock (i :: pend)` can step only if source `i`'s lock is free; the step clears `i`'s run flag
and tracking mark, leaves `i`'s program counter and placements alone, and leaves every other timer
exactly as it was. -/
theorem C11_lock_step_only_selected (c : Config) (s s' : AO.State) (j : Nat) (hj : j < 700) (cl : Client)
    (i : Nat) (pend : List Nat) (lbl : String)
    (hcl : s.clients[j]? = some cl) (hpc : cl.pc = .cancelLock (i :: pend))
    (h : AO.stepL Miros.Gen.aoTags c s (300 + j) = some (s', lbl)) :
    (∃ tm, s.timers[i]? = some tm ∧ tm.lock = none ∧
      s'.timers[i]? = some { tm with flag := false, tracked := false, lock := none }) ∧
    (∀ k, k ≠ i → s'.timers[k]? = s.timers[k]?) ∧
    s'.order = s.order ∧ s'.ld = s.ld ∧ s'.now = s.now ∧
    s'.clients[j]? = some (if pend = [] then { cl with calls := cl.calls.tail, pc := .call }
                           else { cl with pc := .cancelLock pend }) := by
  rw [stepL_client _ _ _ _ hj] at h
  obtain ⟨cl0, cl', ld', timers', order', hcl0, hs, rfl⟩ :=
    clientStep_cases (g := Miros.Gen.aoTags) (by decide) (by decide) h
  rw [hcl] at hcl0; cases hcl0
  cases hs with
  | lockCons call rest i0 pend0 tm hpc0 hc htm hlk =>
    rw [hpc] at hpc0; cases hpc0
    refine ⟨⟨tm, htm, hlk, ?_⟩, ?_, rfl, rfl, rfl, ?_⟩
    · simp only [List.getElem?_modify_eq, htm]; rfl
    · intro k hk
      simp only [List.getElem?_modify, Ne.symm hk, if_false]
      cases s.timers[k]? <;> rfl
    · simp only [getElem?_set_self' hcl, afterSelect_eq_ite]
      by_cases hm : pend = [] <;> simp [hm, finishCall]
  | _ => rw [hpc] at *; simp_all

/-- **C11 (the others keep running).** No step of a client inside a cancelling call (the call step or a
lock step) changes any timer other than the head of its list of locks: their run flag, tracking
mark, program counter, placements are what they were. -/
theorem C11_others_keep_running (c : Config) (s s' : AO.State) (j : Nat) (hj : j < 700) (cl : Client) (lbl : String)
    (hcl : s.clients[j]? = some cl)
    (hcall : (∃ pend, cl.pc = .cancelLock pend) ∨
             (cl.pc = .call ∧ ∃ x same rest, cl.calls = .cancelEvent x same :: rest ∨ cl.calls = .cancelEvents x same :: rest))
    (h : AO.stepL Miros.Gen.aoTags c s (300 + j) = some (s', lbl)) :
    ∀ k, (∀ pend, cl.pc ≠ .cancelLock (k :: pend)) → s'.timers[k]? = s.timers[k]? := by
  rw [stepL_client _ _ _ _ hj] at h
  obtain ⟨cl0, cl', ld', timers', order', hcl0, hs, rfl⟩ :=
    clientStep_cases (g := Miros.Gen.aoTags) (by decide) (by decide) h
  rw [hcl] at hcl0; cases hcl0
  intro k hk
  cases hs with
  | lockCons call rest i0 pend0 tm hpc0 hc htm hlk =>
    have hne : i0 ≠ k := by rintro rfl; exact hk pend0 hpc0
    simp only [List.getElem?_modify, hne, if_false]
    cases s.timers[k]? <;> rfl
  | timedOk kind sig period total deferred rest hpc hc hlt =>
    rcases hcall with ⟨pend, hp⟩ | ⟨_, x, same, rest', h1 | h1⟩
    · rw [hp] at hpc; cases hpc
    · rw [h1] at hc; cases hc
    · rw [h1] at hc; cases hc
  | _ => rfl

/-! ### the lock -/

/-- **C11 (the lock is held exactly while posting).** In every reachable state a source's lock is held by
its own thread exactly while it is inside a post (`pc = .p`: from the flag test to the last
primitive of the `LockingDeque` post), and is never left held by a client between steps. -/
theorem C11_lock_means_posting (c : Config) (progs : List (List (Kind × Ev))) (clients : List (List Call))
    (maxTimers : Nat) (sched : List Nat) (i : Nat) (tm : Timer) :
    ((AO.sys Miros.Gen.aoTags c).run (AO.init c progs clients maxTimers) sched).timers[i]? = some tm →
    (tm.lock = some .timer ↔ tm.pc = .p) ∧ (∀ j, tm.lock ≠ some (.client j)) ∧ (tm.lock.isSome ↔ tm.pc = .p) := by
  intro h
  have hI := Inv.run (g := Miros.Gen.aoTags) (c := c) (by decide) (by decide) sched _ (Inv.init c progs clients maxTimers)
  obtain ⟨_, _, h3, h4⟩ := hI.timers i tm h
  refine ⟨h3, ?_, ?_⟩
  · intro j hj; rcases h4 with h4 | h4 <;> rw [h4] at hj <;> cases hj
  · rw [← h3]; rcases h4 with h4 | h4 <;> simp [h4]

/-! ### silent for ever -/

/-- **C11 (a cancelled source that is not inside a post is silent for ever).** If in some state source `i`
has its run flag clear and is not inside a post, then after every continuation schedule the flag is
still clear, it is still outside a post, and its list of placements is the same: it never posts again. -/
theorem C11_silent_after_cancel (c : Config) (s : AO.State) (i : Nat) (tm : Timer)
    (htm : s.timers[i]? = some tm) (hf : tm.flag = false) (hp : tm.pc ≠ .p) (sched : List Nat) :
    ∃ tm', ((AO.sys Miros.Gen.aoTags c).run s sched).timers[i]? = some tm' ∧
      tm'.flag = false ∧ tm'.pc ≠ .p ∧ tm'.placedAt = tm.placedAt :=
  QuietAt.run (g := Miros.Gen.aoTags) (c := c) (by decide) (by decide) sched s ⟨tm, htm, hf, hp, rfl⟩

/-- **C11 (after the cancelling call returns).** Take a reachable state in which client `j` is in a
cancelling call with the sources `pend` still to cancel (for `cancel_event` / `cancel_events` that is,
right after the call step, exactly the selection of `C11_selects_exactly…`).  In every later state
in which the call has returned, each of those sources has its flag clear and is outside a post, and
from then on never places an event again (`sched3`: any further continuation). -/
theorem C11_after_cancel_returns (c : Config) (progs : List (List (Kind × Ev))) (clients : List (List Call))
    (maxTimers : Nat) (sched sched2 : List Nat) (j : Nat) (cl cl2 : Client) (pend : List Nat) :
    let s := (AO.sys Miros.Gen.aoTags c).run (AO.init c progs clients maxTimers) sched
    let s2 := (AO.sys Miros.Gen.aoTags c).run s sched2
    s.clients[j]? = some cl → cl.pc = .cancelLock pend →
    s2.clients[j]? = some cl2 → cl2.calls.length < cl.calls.length →
    ∀ i ∈ pend, ∃ tm, s2.timers[i]? = some tm ∧ tm.flag = false ∧ tm.pc ≠ .p ∧
      ∀ sched3, ∃ tm', ((AO.sys Miros.Gen.aoTags c).run s2 sched3).timers[i]? = some tm' ∧
        tm'.flag = false ∧ tm'.pc ≠ .p ∧ tm'.placedAt = tm.placedAt := by
  intro s s2 hcl hpc hcl2 hlen i hi
  have hI : Inv s := Inv.run (by decide) (by decide) sched _ (Inv.init c progs clients maxTimers)
  obtain ⟨tm, htm, hf, hp⟩ :=
    cancel_completes (g := Miros.Gen.aoTags) (c := c) (by decide) (by decide) s hI j cl pend hcl hpc sched2 cl2 hcl2 hlen i hi
  exact ⟨tm, htm, hf, hp, fun sched3 => C11_silent_after_cancel c s2 i tm htm hf hp sched3⟩

/-- **C11 (cancel_event, from the call to for ever).** In a reachable state let client `j` call
`cancel_event(id)` (any id object) for a tracked source `id`, then let any schedule `sched2` follow.
In the state reached, if the call has returned, source `id` has its run flag clear, is outside a post,
and never places an event again, whatever follows (`sched3`). -/
theorem C11_cancel_event_stops_source (c : Config) (progs : List (List (Kind × Ev))) (clients : List (List Call))
    (maxTimers : Nat) (sched sched2 : List Nat) (j : Nat) (hj : j < 700) (cl cl2 : Client) (id : Nat) (same : Bool)
    (rest : List Call) :
    let s := (AO.sys Miros.Gen.aoTags c).run (AO.init c progs clients maxTimers) sched
    let s2 := (AO.sys Miros.Gen.aoTags c).run s ((300 + j) :: sched2)
    s.clients[j]? = some cl → cl.pc = .call → cl.calls = .cancelEvent id same :: rest → id ∈ s.order →
    s2.clients[j]? = some cl2 → cl2.calls.length ≤ rest.length →
    ∃ tm, s2.timers[id]? = some tm ∧ tm.flag = false ∧ tm.pc ≠ .p ∧
      ∀ sched3, ∃ tm', ((AO.sys Miros.Gen.aoTags c).run s2 sched3).timers[id]? = some tm' ∧
        tm'.flag = false ∧ tm'.pc ≠ .p ∧ tm'.placedAt = tm.placedAt := by
  intro s s2 hcl hpc hc hid hcl2 hlen
  obtain ⟨s', hst, _, _, _, _, hcl'⟩ := C11_selects_exactly c progs clients maxTimers sched j hj cl id same rest hcl hpc hc
  rw [if_pos hid] at hcl'
  have hs2 : s2 = (AO.sys Miros.Gen.aoTags c).run s' sched2 := run_cons_some sched2 hst
  have hs' : s' = (AO.sys Miros.Gen.aoTags c).run (AO.init c progs clients maxTimers) (sched ++ [300 + j]) := by
    rw [run_append]
    exact (run_cons_some [] hst).symm
  rw [hs2] at hcl2 ⊢
  rw [hs'] at hcl' hcl2 ⊢
  exact C11_after_cancel_returns c progs clients maxTimers (sched ++ [300 + j]) sched2 j _ cl2 [id] hcl' rfl hcl2
    (by simp [hc]; omega) id (by simp)

/-! ### the earlier code -/
open Miros.Conc.AO.Ex

/-- with the unlocked code (flag test, post and flag clear not under the source's lock; other tags as
generated): one client posts (fifo, signal 5, period 3, twice, deferred) and then cancels source 0.
Schedule: the source passes its sleep with the flag still set and starts its post; the cancelling
call runs and returns (no call left, flag clear, nothing placed so far); then the source places its
event all the same. -/
theorem C11_witness_unlocked :
    let prog : List (List Call) := [[.timed .fifo 5 3 2 true, .cancelEvent 0 true]]
    let s1 := runEx tagsUnlocked prog 4 [300, 200, 1000, 200, 300]
    let s2 := (AO.sys tagsUnlocked exCfg).run s1 [200, 200]
    cview s1 = [(0, .call)] ∧ tview s1 = [(false, .p, [])] ∧ tview s2 = [(false, .p, [3])] := by
  decide

/-- the same scenario and schedule with the generated tags: after its sleep the source has to take its lock
and test the flag under it; the cancelling call searches, takes the (free) lock, clears the flag and
returns; the source then finds the flag clear and ends without placing anything -/
example :
    let prog : List (List Call) := [[.timed .fifo 5 3 2 true, .cancelEvent 0 true]]
    cview (runEx Miros.Gen.aoTags prog 4 [300, 200, 1000, 200, 300]) = [(1, .cancelLock [0])] ∧
    cview (runEx Miros.Gen.aoTags prog 4 [300, 200, 1000, 200, 300, 300]) = [(0, .call)] ∧
    tview (runEx Miros.Gen.aoTags prog 4 [300, 200, 1000, 200, 300, 300, 200, 200]) = [(false, .fin, [])] := by
  decide

/-- with ids compared by identity (`cancelEq := false`), `cancel_event` called with an equal copy of the id
selects nothing, in any state: the call returns at once, no timer and no queue entry is touched -/
theorem C11_witness_identity (c : Config) (s : AO.State) (j : Nat) (hj : j < 700) (cl : Client) (id : Nat)
    (rest : List Call) (hcl : s.clients[j]? = some cl) (hpc : cl.pc = .call)
    (hc : cl.calls = .cancelEvent id false :: rest) :
    ∃ s', AO.stepL tagsIdentity c s (300 + j) = some (s', "call.cancel_event") ∧
      s'.timers = s.timers ∧ s'.order = s.order ∧
      s'.clients[j]? = some { cl with calls := rest, pc := .call } := by
  have hs := CStep.sound (g := tagsIdentity) (c := c) (by decide) (by decide) hcl
    (CStep.cancelEvent id false rest hpc hc)
  rw [← stepL_client _ _ _ _ hj] at hs
  have hnone := scan_first_none (hitId tagsIdentity s id false) s.order
    (fun y _ => hitId_identity (by decide) s id y)
  rw [hnone] at hs
  refine ⟨_, hs, rfl, rfl, ?_⟩
  simp [getElem?_set_self' hcl, afterSelect, finishCall, hc]

/-- … concretely: source 0 stays tracked and flagged after `cancel_event(copy of id 0)` -/
example : view (runEx tagsIdentity [[.timed .fifo 5 3 2 true, .cancelEvent 0 false]] 4 [300, 300])
    = ([[1]], 1, [0], [true]) ∧
    cview (runEx tagsIdentity [[.timed .fifo 5 3 2 true, .cancelEvent 0 false]] 4 [300, 300]) = [(0, .call)] := by
  decide

/-- … while the generated tags cancel it -/
example : view (runEx Miros.Gen.aoTags [[.timed .fifo 5 3 2 true, .cancelEvent 0 false]] 4 [300, 300, 300])
    = ([[1]], 1, [], [false]) := by decide

/-! ### non-vacuity -/

example : exCfg.alg = Miros.Gen.ldAlg ∧ 0 < exCfg.cap := by decide
/-- `cancel_events(5)` with three sources named 5, 6, 5: sources 2 and 0 are selected (newest first),
source 1 stays tracked and keeps its flag -/
example :
    let prog : List (List Call) := [[.timed .fifo 5 3 0 true, .timed .lifo 6 2 0 true, .timed .fifo 5 1 0 false, .cancelEvents 5 false]]
    cview (runEx Miros.Gen.aoTags prog 4 [300, 300, 300, 300]) = [(1, .cancelLock [2, 0])] ∧
    view (runEx Miros.Gen.aoTags prog 4 [300, 300, 300, 300]) = ([[1, 2, 3]], 3, [1], [true, true, true]) ∧
    view (runEx Miros.Gen.aoTags prog 4 [300, 300, 300, 300, 300, 300]) = ([[1, 2, 3]], 3, [1], [false, true, false]) := by
  decide
/-- a source caught inside a post finishes that post (the canceller waits for the lock: its step is
skipped), is cancelled afterwards and then never posts again -/
example :
    let prog : List (List Call) := [[.timed .fifo 5 3 2 true, .cancelEvent 0 true]]
    cview (runEx Miros.Gen.aoTags prog 4 [300, 200, 1000, 200, 200, 300, 300]) = [(1, .cancelLock [0])] ∧
    tview (runEx Miros.Gen.aoTags prog 4 [300, 200, 1000, 200, 200, 300, 300, 200, 200, 200, 200, 200, 200, 300, 200, 200])
      = [(false, .s, [3])] ∧
    tview (runEx Miros.Gen.aoTags prog 4 [300, 200, 1000, 200, 200, 300, 300, 200, 200, 200, 200, 200, 200, 300, 1000, 200, 200, 200])
      = [(false, .fin, [3])] := by
  decide
example : scan (fun x => x % 2 = 0) false 5 [1, 2, 3, 4, 5] [] = ([4, 2], [1, 3, 5]) := by decide
example : scan (fun x => x % 2 = 0) true 5 [1, 2, 3, 4, 5] [] = ([4], [5, 1, 2, 3]) := by decide

/-- the models take a timed post's "capacity test + tracking" and each `cancel_event` / `cancel_events` call as steps that do not
interleave with one another: in the source they all run under the object's `posted_events_lock` (as does the snapshot `stop()`
takes). Without the lock a timed post made by another thread while a cancel is rotating the list makes the cancel pop the new
source's record instead of the one it matched: that source keeps running untracked and survives a later `stop()` (found by the
schedule replay, fixed in /repo). Fails to build when the translator no longer finds every use of the list under the lock. -/
theorem tracked_list_is_serialised_in_source : Miros.Gen.aoTrackingLocked = true := by decide

end Miros.Props.C11
