import MirosModel.Queue.Lemmas
import MirosModel.Gen.Constants
/-!
# C14 — a queued chart dispatches in deque order

"For a queued chart, next_rtc dispatches exactly the event at the front of its queue, post_fifo
places an event at the back and post_lifo at the front (also when called from a handler during a
step), each posted event is dispatched at most once, and complete_circuit returns only when the
queue is empty. The resulting dispatch order equals that of a double-ended queue driven by the
same operations."

Model: `Miros.Queue` (`MirosModel/Queue/Model.lean`), faithful to `HsmWithQueues`
(hsm.py 1155-1388). All statements hold for every chart `qc`, every setting `g` of the processor
switches (hence for `Miros.Gen.cfg`), every capacity.
-/
namespace Miros.Props.C14
open Miros.Hsm Miros.Queue

/-! ### next_rtc takes the front -/

/-- **C14 (front).** `next_rtc` on a non-empty queue pops the head `e`, dispatches exactly `e`
(it is appended to the dispatch record), and the queue after the step is the old tail `rest`
changed only by the handlers' own queue operations (`applyLog … r.log`). -/
theorem C14_next_rtc_front (qc : QChart) (g : Cfg) (s : QState) (e : Ev) (rest : List Ev) (r : Res)
    (hq : s.q = e :: rest) (hd : dispatch qc.chart g s.cur e.sig = .ok r) :
    ∃ s1, nextRtc qc g s = .stepped s1 r.log ∧
      s1 = applyLog qc { s with q := rest, dispatched := s.dispatched ++ [e], cur := r.state } r.log ∧
      s1.dispatched = s.dispatched ++ [e] ∧ s1.cur = r.state ∧ s1.cap = s.cap := by
  refine ⟨_, nextRtc_cons qc g s e rest r hq hd, rfl, ?_, ?_, ?_⟩ <;> simp

/-- converse: whenever `next_rtc` reports a step, it was the front event that was dispatched,
once, and nothing else was appended to the dispatch record -/
theorem C14_next_rtc_only_front (qc : QChart) (g : Cfg) (s s1 : QState) (log : Log)
    (h : nextRtc qc g s = .stepped s1 log) :
    ∃ e rest, s.q = e :: rest ∧ s1.dispatched = s.dispatched ++ [e] ∧
      s1 = applyLog qc { s with q := rest, dispatched := s.dispatched ++ [e], cur := s1.cur } log := by
  obtain ⟨e, rest, r, hq, _, hl, hs⟩ := nextRtc_stepped qc g s s1 log h
  subst hl
  refine ⟨e, rest, hq, by rw [hs]; simp, ?_⟩
  have hc : s1.cur = r.state := by rw [hs]; simp
  rw [hc]; exact hs

/-- **C14 (empty).** On an empty queue `next_rtc` returns False and changes nothing. -/
theorem C14_next_rtc_empty (qc : QChart) (g : Cfg) (s : QState) (hq : s.q = []) :
    nextRtc qc g s = .idle s :=
  nextRtc_nil qc g s hq

/-- with the switches of the current source tree -/
theorem C14_next_rtc_front_cfg (qc : QChart) (s : QState) (e : Ev) (rest : List Ev) (r : Res)
    (hq : s.q = e :: rest) (hd : dispatch qc.chart Miros.Gen.cfg s.cur e.sig = .ok r) :
    ∃ s1, nextRtc qc Miros.Gen.cfg s = .stepped s1 r.log ∧ s1.dispatched = s.dispatched ++ [e] := by
  obtain ⟨s1, h1, _, h3, _⟩ := C14_next_rtc_front qc Miros.Gen.cfg s e rest r hq hd
  exact ⟨s1, h1, h3⟩

/-! ### post_fifo: back, post_lifo: front -/

/-- **C14 (fifo).** `post_fifo(Event(sg))` puts the new event object at the back; when the queue
is not full nothing else changes. -/
theorem C14_post_fifo_back (s : QState) (sg : Nat) (hc : 0 < s.cap) :
    (applyEff s (.fifo sg)).q.getLast? = some ⟨sg, s.next⟩ ∧
    (s.q.length < s.cap → (applyEff s (.fifo sg)).q = s.q ++ [⟨sg, s.next⟩]) ∧
    (applyEff s (.fifo sg)).dq = s.dq ∧ (applyEff s (.fifo sg)).dispatched = s.dispatched := by
  refine ⟨pushBack_getLast s.cap s.q _ hc, fun h => pushBack_not_full s.cap s.q _ h, rfl, rfl⟩

/-- **C14 (lifo).** `post_lifo(Event(sg))` puts the new event object at the front; when the queue
is not full nothing else changes. -/
theorem C14_post_lifo_front (s : QState) (sg : Nat) (hc : 0 < s.cap) :
    (applyEff s (.lifo sg)).q.head? = some ⟨sg, s.next⟩ ∧
    (s.q.length < s.cap → (applyEff s (.lifo sg)).q = ⟨sg, s.next⟩ :: s.q) ∧
    (applyEff s (.lifo sg)).dq = s.dq ∧ (applyEff s (.lifo sg)).dispatched = s.dispatched := by
  refine ⟨pushFront_head s.cap s.q _ hc, fun h => pushFront_not_full s.cap s.q _ h, rfl, rfl⟩

/-- a client post and a handler post are the same function -/
theorem C14_client_post_is_handler_post (qc : QChart) (g : Cfg) (s : QState) (sg : Nat) :
    stepOp qc g s (.postFifo sg) = some (applyEff s (.fifo sg)) ∧
    stepOp qc g s (.postLifo sg) = some (applyEff s (.lifo sg)) := ⟨rfl, rfl⟩

/-- **C14 (posts from handlers).** The handlers' queue operations during a step are applied one
after the other in the order the handlers were called. -/
theorem C14_handler_posts_in_call_order (qc : QChart) (s : QState) (l1 l2 : Log) :
    applyLog qc s (l1 ++ l2) = applyLog qc (applyLog qc s l1) l2 :=
  applyLog_append qc s l1 l2

/-- one handler call performs its own operations left to right -/
theorem C14_handler_call_in_order (qc : QChart) (s : QState) (c : Call) (log : Log) :
    applyLog qc s (c :: log) = applyLog qc ((qc.eff c.s c.sig).foldl applyEff s) log := rfl

/-! ### at most once -/

/-- **C14 (at most once).** However a fresh chart is driven, no event object appears twice in the
dispatch record, and a dispatched event is neither pending nor deferred any more. -/
theorem C14_at_most_once (qc : QChart) (g : Cfg) (cap : Nat) (cur : St) (ops : List Op) (s1 : QState)
    (hc : 0 < cap) (h : runOps qc g (init cap cur) ops = some s1) :
    (s1.dispatched.map Ev.uid).Nodup ∧ s1.dispatched.Nodup ∧
    (∀ e ∈ s1.dispatched, e ∉ s1.q ∧ e ∉ s1.dq) ∧
    (∀ e ∈ s1.dispatched, (∀ b ∈ s1.q, e.uid ≠ b.uid) ∧ (∀ b ∈ s1.dq, e.uid ≠ b.uid)) := by
  have hi : Inv s1 := Inv.runOps qc g ops (Inv.init cap cur hc) h
  obtain ⟨hD, _, _, hDQ, hDK, _⟩ := hi.uids
  refine ⟨hD, ?_, ?_, ?_⟩
  · exact nodup_of_map_uid _ hD
  · intro e he
    exact ⟨fun hq => hDQ e he e hq rfl, fun hk => hDK e he e hk rfl⟩
  · intro e he
    exact ⟨hDQ e he, hDK e he⟩

/-- the same from any state satisfying the invariant (not only a fresh chart) -/
theorem C14_at_most_once_inv (qc : QChart) (g : Cfg) (s s1 : QState) (ops : List Op)
    (hs : Inv s) (h : runOps qc g s ops = some s1) :
    (s1.dispatched.map Ev.uid).Nodup ∧ (∀ e ∈ s1.dispatched, e ∉ s1.q ∧ e ∉ s1.dq) := by
  have hi : Inv s1 := Inv.runOps qc g ops hs h
  obtain ⟨hD, _, _, hDQ, hDK, _⟩ := hi.uids
  exact ⟨hD, fun e he => ⟨fun hq => hDQ e he e hq rfl, fun hk => hDK e he e hk rfl⟩⟩

theorem C14_at_most_once_cfg (qc : QChart) (cur : St) (ops : List Op) (s1 : QState)
    (h : runOps qc Miros.Gen.cfg (init Miros.Gen.queueCap cur) ops = some s1) :
    (s1.dispatched.map Ev.uid).Nodup ∧ (∀ e ∈ s1.dispatched, e ∉ s1.q ∧ e ∉ s1.dq) :=
  C14_at_most_once_inv qc _ _ s1 ops (Inv.init _ cur (by decide)) h

/-! ### complete_circuit -/

/-- **C14 (complete_circuit).** `complete_circuit` returns only with an empty queue. -/
theorem C14_complete_circuit_empty (qc : QChart) (g : Cfg) (fuel : Nat) (s s1 : QState)
    (h : completeCircuit qc g fuel s = some s1) : s1.q = [] :=
  completeCircuit_empty qc g fuel s s1 h

/-! ### refinement of an abstract double-ended queue -/

/-- operations of an unbounded double-ended queue -/
inductive AbsOp
  | pushBack (e : Ev) | pushFront (e : Ev) | popFront

/-- the abstract deque: new contents and the element handed out (if any) -/
def absStep (l : List Ev) : AbsOp → List Ev × Option Ev
  | .pushBack e => (l ++ [e], none)
  | .pushFront e => (e :: l, none)
  | .popFront => (l.tail, l.head?)

/-- **C14 (deque, push back).** Without overflow `post_fifo` is the abstract `pushBack`. -/
theorem C14_refines_deque_fifo (s : QState) (e : Ev) (h : s.q.length < s.cap) :
    (postFifo s e).q = (absStep s.q (.pushBack e)).1 :=
  pushBack_not_full s.cap s.q e h

/-- **C14 (deque, push front).** Without overflow `post_lifo` is the abstract `pushFront`. -/
theorem C14_refines_deque_lifo (s : QState) (e : Ev) (h : s.q.length < s.cap) :
    (postLifo s e).q = (absStep s.q (.pushFront e)).1 :=
  pushFront_not_full s.cap s.q e h

/-- the same for the post operations as clients and handlers perform them (fresh event object) -/
theorem C14_refines_deque_posts (s : QState) (sg : Nat) (h : s.q.length < s.cap) :
    (applyEff s (.fifo sg)).q = (absStep s.q (.pushBack ⟨sg, s.next⟩)).1 ∧
    (applyEff s (.lifo sg)).q = (absStep s.q (.pushFront ⟨sg, s.next⟩)).1 :=
  ⟨pushBack_not_full s.cap s.q _ h, pushFront_not_full s.cap s.q _ h⟩

/-- **C14 (deque, pop front).** A step of `next_rtc` dispatches what the abstract `popFront`
hands out and leaves (before the handlers' own posts are applied) the abstract remainder. -/
theorem C14_refines_deque_pop (qc : QChart) (g : Cfg) (s s1 : QState) (log : Log)
    (h : nextRtc qc g s = .stepped s1 log) :
    ∃ e, (absStep s.q .popFront).2 = some e ∧ s1.dispatched = s.dispatched ++ [e] ∧
      s1 = applyLog qc { s with q := (absStep s.q .popFront).1,
                                dispatched := s.dispatched ++ [e], cur := s1.cur } log := by
  obtain ⟨e, rest, hq, hd, hs⟩ := C14_next_rtc_only_front qc g s s1 log h
  refine ⟨e, by simp [absStep, hq], hd, ?_⟩
  simpa [absStep, hq] using hs

/-- on an empty queue both hand out nothing and keep the queue -/
theorem C14_refines_deque_pop_empty (qc : QChart) (g : Cfg) (s : QState) (hq : s.q = []) :
    nextRtc qc g s = .idle s ∧ absStep s.q .popFront = (s.q, none) := by
  refine ⟨nextRtc_nil qc g s hq, ?_⟩
  simp [absStep, hq]

/-! ### non-vacuity -/

open Miros.Queue.Ex
example : Inv s0 := ⟨by decide, by decide, by decide, by decide, by decide⟩
example : (applyEff s0 (.fifo 4)).q = [⟨7, 0⟩, ⟨5, 1⟩, ⟨4, 2⟩] := by decide
example : (applyEff s0 (.lifo 4)).q = [⟨4, 2⟩, ⟨7, 0⟩, ⟨5, 1⟩] := by decide
/-- the front event (signal 7) is dispatched; the handler's posts land behind / in front of the rest -/
example : (match nextRtc qc0 Miros.Gen.cfg s0 with
    | .stepped s1 _ => some (s1.dispatched, s1.q)
    | _ => none) = some ([⟨7, 0⟩], [⟨8, 3⟩, ⟨5, 1⟩, ⟨9, 2⟩]) := by decide
example : (runOps qc0 Miros.Gen.cfg (init 3 [1]) [.postFifo 5, .postLifo 7, .nextRtc, .nextRtc]).map
    (fun s => (s.dispatched, s.q)) = some ([⟨7, 1⟩, ⟨8, 3⟩], [⟨5, 0⟩, ⟨9, 2⟩]) := by decide
example : (completeCircuit qc0 Miros.Gen.cfg 10 s0).map (fun s => (s.dispatched.map Ev.sig, s.q)) =
    some ([7, 8, 5, 9], []) := by decide

end Miros.Props.C14
