import MirosModel.Conc.FabricInv
import MirosModel.Gen.Constants
/-!
# C09 — lifo subscriptions of active objects are served at the front of their queue

"When an active object subscribes with queue_type='lifo', each delivered event is placed at the
front of its pending-event queue (as post_lifo would); with 'fifo' (the default) it is placed at
the back."

Model: `deliverTo` / `deliver` of `Miros.Conc.Fab`; the tag `lifoDeliver` of `Miros.Gen.fabTags`
is `.appendleftForAO` (the lifo delivery thread uses `appendleft` for an active object's deque).
-/
namespace Miros.Props.C09
open Miros.Conc Miros.Conc.Fab

/-- **C09 (placement, one queue).** lifo delivery to an active object: front; fifo delivery to any
queue: back; lifo delivery to a plain deque: back. Identity and kind of the queue are kept. -/
theorem C09_placement (e : PEv) (q : SubQ) :
    (q.isAO = true → (deliverTo Miros.Gen.fabTags .lifo e q).items = e :: q.items) ∧
    (deliverTo Miros.Gen.fabTags .fifo e q).items = q.items ++ [e] ∧
    (q.isAO = false → (deliverTo Miros.Gen.fabTags .lifo e q).items = q.items ++ [e]) ∧
    (∀ k, (deliverTo Miros.Gen.fabTags k e q).id = q.id ∧ (deliverTo Miros.Gen.fabTags k e q).isAO = q.isAO) := by
  refine ⟨fun h => ?_, ?_, fun h => ?_, fun k => ⟨deliverTo_id _ _ _ _, deliverTo_isAO _ _ _ _⟩⟩
  · simp [deliverTo, Miros.Gen.fabTags, h]
  · simp [deliverTo]
  · simp [deliverTo, Miros.Gen.fabTags, h]

/-- **C09 (placement through `deliver`).** For distinct queue ids and a well-formed registry, and
whatever the queues held before: after a lifo delivery every registered active object has the
event at the head of its queue, followed by its old contents; after a fifo delivery every
registered queue has its old contents followed by the event. -/
theorem C09_deliver_placement (reg : Registry) (e : PEv) (subs : List SubQ)
    (hids : (subs.map (·.id)).Nodup) (hwf : reg.WF) (q : SubQ) (hq : q ∈ subs)
    (hreg : q.id ∈ (reg.get e.sig).getD []) :
    (∀ q' ∈ deliver Miros.Gen.fabTags .lifo reg e subs, q'.id = q.id → q.isAO = true →
      q'.items = e :: q.items ∧ q'.items.head? = some e) ∧
    (∀ q' ∈ deliver Miros.Gen.fabTags .fifo reg e subs, q'.id = q.id →
      q'.items = q.items ++ [e] ∧ q'.items.getLast? = some e) := by
  have key : ∀ k, ∀ q' ∈ deliver Miros.Gen.fabTags k reg e subs, q'.id = q.id →
      q' = deliverTo Miros.Gen.fabTags k e q := by
    intro k q' hq' hid
    rw [deliver_eq_map _ k reg e subs (hwf.nodup_get e.sig)] at hq'
    simp only [List.mem_map] at hq'
    obtain ⟨q0, hq0, rfl⟩ := hq'
    have hq0id : q0.id = q.id := by
      by_cases hm : q0.id ∈ (reg.get e.sig).getD [] <;> simpa [hm] using hid
    have : q0 = q := eq_of_nodup_map hids hq0 hq hq0id
    subst this
    simp [hreg]
  refine ⟨fun q' hq' hid hao => ?_, fun q' hq' hid => ?_⟩
  · rw [key _ q' hq' hid, (C09_placement e q).1 hao]
    simp
  · rw [key _ q' hq' hid, (C09_placement e q).2.1]
    simp

/-- a queue that is not registered for the signal is not touched by either delivery -/
theorem C09_unregistered_untouched (k : Kind) (reg : Registry) (e : PEv) (subs : List SubQ)
    (hwf : reg.WF) (q' : SubQ) (hq' : q' ∈ deliver Miros.Gen.fabTags k reg e subs)
    (hreg : q'.id ∉ (reg.get e.sig).getD []) : q' ∈ subs := by
  rw [deliver_eq_map _ k reg e subs (hwf.nodup_get e.sig)] at hq'
  simp only [List.mem_map] at hq'
  obtain ⟨q0, hq0, rfl⟩ := hq'
  by_cases hm : q0.id ∈ (reg.get e.sig).getD []
  · simp [hm] at hreg
  · simpa [hm] using hq0

/-- **C09 (legacy witness).** With the lifo thread appending (`lifoDeliver := .append`) a lifo
delivery to an active object with a non-empty queue leaves the event at the back. -/
theorem C09_witness_legacy :
    (deliver { Miros.Gen.fabTags with lifoDeliver := .append } .lifo [(1, [10])] ⟨1, 7⟩
      [⟨10, true, [⟨2, 3⟩]⟩]) = [⟨10, true, [⟨2, 3⟩, ⟨1, 7⟩]⟩] ∧
    (deliver Miros.Gen.fabTags .lifo [(1, [10])] ⟨1, 7⟩
      [⟨10, true, [⟨2, 3⟩]⟩]) = [⟨10, true, [⟨1, 7⟩, ⟨2, 3⟩]⟩] := by decide

/-! ### non-vacuity -/

/-- an active object (queue 10) subscribed lifo and a plain deque (queue 11) subscribed lifo, both
holding an older event: the active object gets the new event in front, the deque at the back -/
example :
    deliver Miros.Gen.fabTags .lifo [(1, [10, 11])] ⟨1, 7⟩
      [⟨10, true, [⟨2, 3⟩]⟩, ⟨11, false, [⟨2, 3⟩]⟩] =
      [⟨10, true, [⟨1, 7⟩, ⟨2, 3⟩]⟩, ⟨11, false, [⟨2, 3⟩, ⟨1, 7⟩]⟩] := by decide

/-- the whole system: active object 10 subscribes lifo, active object 12 subscribes fifo, both hold
an older event; one publish; after both threads have delivered, 10 has it in front, 12 at the back -/
example :
    ((sys Miros.Gen.fabTags).run
      (init [⟨10, true, [⟨2, 3⟩]⟩, ⟨12, true, [⟨2, 3⟩]⟩]
        [[.subscribe 10 1 .lifo, .subscribe 12 1 .fifo, .start, .publish 1 7 5]])
      [2, 2, 2, 2, 2, 2, 0, 1, 0, 1, 0, 1]).subs =
      [⟨10, true, [⟨1, 7⟩, ⟨2, 3⟩]⟩, ⟨12, true, [⟨2, 3⟩, ⟨1, 7⟩]⟩] := by
  decide +kernel

end Miros.Props.C09
