import MirosModel.Conc.RegistryLemmas
import MirosModel.Conc.SmallMeasure
import MirosModel.Gen.Constants
/-!
# C25 — the signal registry

"Every distinct signal name is bound to a distinct positive number that never changes,
name_for_signal inverts that binding, the ten built-in signals are the only inner signals, and
Event(signal=name or number) reports the matching name and number. This holds for any sequence of
names … and for any interleaving of threads registering or using signals, without errors."

Model: `Miros.Conc.Registry` (`MirosModel/Conc/Small.lean`). Names are opaque numbers; the
dictionary `Dict` lists `(name, number)` in insertion order. `DictWF d`: the names are distinct and
the numbers are exactly `1 .. d.length` in order. Sequential part: `Dict.append`, `Dict.get`,
`Dict.nameFor`. Concurrent part: `Registry.sys Miros.Gen.registryLocked` (`true`: the current
source, `append` holds the lock from the membership test to the store; `false`: the earlier code),
any number of threads, each registering any list of names, any schedule.

The built-in signals: `builtinDict` codes the `i`-th name of `Miros.Gen.signalTable` as the number
`i` and keeps its signal number.
-/
namespace Miros.Props.C25
open Miros.Conc Miros.Conc.Registry

theorem registryLocked_true : Miros.Gen.registryLocked = true := by decide

/-! ## sequential -/

/-- **C25 (well-formedness is preserved)** by one `append` and by any sequence of them. -/
theorem C25_wf_preserved (d : Dict) (h : DictWF d) (names : List Nat) :
    (∀ n, DictWF (d.append n)) ∧ DictWF (names.foldl Dict.append d) :=
  ⟨h.append, h.foldl_append names⟩

/-- **C25 (distinct names ↔ distinct numbers, all positive).** -/
theorem C25_numbers_injective (d : Dict) (h : DictWF d) (n₁ n₂ k₁ k₂ : Nat)
    (h₁ : d.get n₁ = some k₁) (h₂ : d.get n₂ = some k₂) :
    (n₁ = n₂ ↔ k₁ = k₂) ∧ 0 < k₁ ∧ k₁ ≤ d.length := by
  have m₁ := mem_of_get h₁
  have m₂ := mem_of_get h₂
  refine ⟨⟨?_, ?_⟩, (h.value_range m₁).1, (h.value_range m₁).2⟩
  · rintro rfl
    rw [h₁] at h₂
    exact Option.some.inj h₂
  · rintro rfl
    have a := nameFor_of_mem h.values_nodup m₁
    have b := nameFor_of_mem h.values_nodup m₂
    rw [a] at b
    exact Option.some.inj b

/-- **C25 (numbers never change).** Registering any further names leaves every binding as it is. -/
theorem C25_numbers_stable (d : Dict) (n k : Nat) (h : d.get n = some k) (m : Nat) (names : List Nat) :
    (d.append m).get n = some k ∧ (names.foldl Dict.append d).get n = some k := by
  refine ⟨get_append_stable m h, ?_⟩
  obtain ⟨e, he⟩ := foldl_append_prefix names d
  rw [he]
  exact get_append_left h

/-- **C25 (`name_for_signal` inverts the binding).** -/
theorem C25_name_for_signal_inverse (d : Dict) (h : DictWF d) (n k : Nat) :
    d.get n = some k ↔ d.nameFor k = some n :=
  h.get_iff_mem.trans h.nameFor_iff_mem.symm

/-- **C25 (registering twice is registering once).** -/
theorem C25_append_idempotent (d : Dict) (n : Nat) : (d.append n).append n = d.append n :=
  append_idem d n

/-- **C25 (registered).** After `append n` the name has a number; a new name gets the next free
number, a known name keeps its own and the dictionary is unchanged. -/
theorem C25_registered (d : Dict) (n : Nat) :
    ((d.append n).get n).isSome ∧
    (DictWF d → d.get n = none → (d.append n).get n = some (d.length + 1)) ∧
    (∀ k, d.get n = some k → d.append n = d) :=
  ⟨get_append_self d n, fun h hn => h.get_append_new hn, fun k hk => append_of_isSome (by simp [hk])⟩

/-- every name of a sequence is registered after the sequence -/
theorem C25_all_registered (d : Dict) (names : List Nat) (n : Nat) (hn : n ∈ names) :
    ((names.foldl Dict.append d).get n).isSome :=
  foldl_append_registered names d n (Or.inl hn)

/-- the start dictionary: the `i`-th built-in name (coded as `i`) with its number -/
def builtinDict : Dict := Miros.Gen.signalTable.zipIdx.map fun p => (p.2, p.1.2)

/-- the generated table: ten entries, distinct names, numbered `1..10` in order -/
theorem C25_signalTable :
    Miros.Gen.signalTable.length = 10 ∧ (Miros.Gen.signalTable.map (·.1)).Nodup ∧
    Miros.Gen.signalTable.map (·.2) = List.range' 1 10 ∧
    builtinDict.length = 10 ∧ DictWF builtinDict := by
  refine ⟨by decide, by decide, by decide, by decide, by decide, by decide⟩

/-- **C25 (the ten built-ins are the only inner signals).** Whatever names are registered after the
built-in ones, the first ten entries — the inner signals — are the built-in ones, and a registered
name has a number `≤ 10` exactly when it is a built-in name. -/
theorem C25_inner_signals (names : List Nat) :
    let d := names.foldl Dict.append builtinDict
    d.take 10 = builtinDict ∧ innerNames d = builtinDict.map (·.1) ∧
    ∀ n k, d.get n = some k → (k ≤ 10 ↔ n ∈ builtinDict.map (·.1)) := by
  intro d
  have hl : builtinDict.length = 10 := C25_signalTable.2.2.2.1
  have hwf : DictWF d := C25_signalTable.2.2.2.2.foldl_append names
  obtain ⟨e, he⟩ := foldl_append_prefix names builtinDict
  have hd : d = builtinDict ++ e := he
  have ht : d.take 10 = builtinDict := by rw [hd, ← hl, List.take_left]
  refine ⟨ht, by rw [innerNames, ht], ?_⟩
  intro n k hg
  have hm : (n, k) ∈ builtinDict ++ e := hd ▸ mem_of_get hg
  obtain ⟨hb, hev, hen⟩ := (hd ▸ hwf : DictWF (builtinDict ++ e)).of_append
  rcases List.mem_append.mp hm with hm | hm
  · have := hb.value_range hm
    exact ⟨fun _ => List.mem_map_of_mem (f := (·.1)) hm, fun _ => by omega⟩
  · have hk : k ∈ e.map (·.2) := List.mem_map_of_mem (f := (·.2)) hm
    rw [hev, List.mem_range'_1] at hk
    exact ⟨fun h => by omega, fun h => absurd h (hen _ hm)⟩

/-- **C25 (`Event(signal=name or number)`).** The reported pair is a binding of the dictionary
afterwards, which is well formed and extends the one before; by name the event is always made and
carries that name, by number it carries that number (and exists iff the number is bound). -/
theorem C25_event_by_name_or_number (d : Dict) (h : DictWF d) (x : Nat ⊕ Nat) :
    DictWF (eventOf d x).1 ∧ (∃ e, (eventOf d x).1 = d ++ e) ∧
    (∀ n k, (eventOf d x).2 = some (n, k) →
      (eventOf d x).1.get n = some k ∧ (eventOf d x).1.nameFor k = some n ∧
      (x = .inl n ∨ x = .inr k)) ∧
    (∀ name, x = .inl name → ((eventOf d x).2).isSome) ∧
    (∀ number, x = .inr number → (((eventOf d x).2).isSome ↔ ∃ n, d.get n = some number)) := by
  cases x with
  | inl name =>
    have hwf := h.append name
    refine ⟨hwf, append_prefix d name, ?_, ?_, by simp⟩
    · intro n k hk
      simp only [eventOf, Option.map_eq_some_iff, Prod.mk.injEq] at hk
      obtain ⟨k', hk', rfl, rfl⟩ := hk
      exact ⟨hk', (C25_name_for_signal_inverse _ hwf _ _).mp hk', Or.inl rfl⟩
    · intro name' _
      have := get_append_self d name
      simpa [eventOf] using this
  | inr number =>
    refine ⟨h, ⟨[], by simp [eventOf]⟩, ?_, by simp, ?_⟩
    · intro n k hk
      simp only [eventOf, Option.map_eq_some_iff, Prod.mk.injEq] at hk
      obtain ⟨n', hn', rfl, rfl⟩ := hk
      exact ⟨(C25_name_for_signal_inverse _ h _ _).mpr hn', hn', Or.inr rfl⟩
    · intro number' hx
      cases hx
      simp only [eventOf, Option.isSome_map, Option.isSome_iff_exists]
      exact exists_congr fun n => (C25_name_for_signal_inverse d h n number).symm

/-! ## concurrent -/

/-- **C25 (concurrent: the dictionary stays well formed).** Any number of threads, any name lists,
any schedule: in every reachable state the dictionary is well formed and extends the start
dictionary, and the inductive invariant `Registry.Inv` holds (only the lock owner is between
`contains` and `release`; at `setitem` its name is still absent and the length it read is still the
length). -/
theorem C25_concurrent_wf (d0 : Dict) (h0 : DictWF d0) (progs : List (List Nat)) (sched : List Nat) :
    let s := (sys Miros.Gen.registryLocked).run (init Miros.Gen.registryLocked d0 progs) sched
    DictWF s.dict ∧ (∃ e, s.dict = d0 ++ e) ∧ Inv d0 progs s := by
  rw [registryLocked_true]
  intro s
  have hI : Inv d0 progs s := Inv.run h0 progs sched
  exact ⟨hI.wf, hI.ext, hI⟩

/-- **C25 (concurrent: numbers never change).** A binding present in a reachable state is present,
unchanged, in every later state. -/
theorem C25_concurrent_stable (d0 : Dict) (h0 : DictWF d0) (progs : List (List Nat))
    (sched more : List Nat) (n k : Nat)
    (h : ((sys Miros.Gen.registryLocked).run (init Miros.Gen.registryLocked d0 progs) sched).dict.get n = some k) :
    ((sys Miros.Gen.registryLocked).run (init Miros.Gen.registryLocked d0 progs) (sched ++ more)).dict.get n = some k := by
  rw [registryLocked_true] at h ⊢
  rw [System.run_append]
  have hI := (Inv.run h0 progs sched).restart
  have := (sys true).inv_run (Inv _ progs) (fun _ _ _ hI h => hI.step h) more _ hI
  obtain ⟨e, he⟩ := this.ext
  rw [he]
  exact get_append_left h

/-- **C25 (concurrent: every registration completes).** In a reachable state in which no thread can
move, every thread is done (no deadlock), the dictionary is well formed, extends the start
dictionary, and binds every name of every program. -/
theorem C25_concurrent_final (d0 : Dict) (h0 : DictWF d0) (progs : List (List Nat)) (sched : List Nat)
    (hq : (sys Miros.Gen.registryLocked).Quiescent
      ((sys Miros.Gen.registryLocked).run (init Miros.Gen.registryLocked d0 progs) sched)) :
    let s := (sys Miros.Gen.registryLocked).run (init Miros.Gen.registryLocked d0 progs) sched
    s.threads.length = progs.length ∧ (∀ t ∈ s.threads, t.pc = .done ∧ t.names = []) ∧
    DictWF s.dict ∧ (∃ e, s.dict = d0 ++ e) ∧
    ∀ p ∈ progs, ∀ name ∈ p, (s.dict.get name).isSome := by
  rw [registryLocked_true] at hq ⊢
  intro s
  have hI : Inv d0 progs s := Inv.run h0 progs sched
  refine ⟨hI.len, ?_, hI.wf, hI.ext, ?_⟩
  · intro t ht
    obtain ⟨i, hi, rfl⟩ := List.getElem_of_mem ht
    exact quiescent_done hI hq (List.getElem?_eq_getElem hi)
  · intro p hp name hn
    obtain ⟨i, hi, rfl⟩ := List.getElem_of_mem hp
    have hi' : i < s.threads.length := by rw [hI.len]; exact hi
    have ht : s.threads[i]? = some s.threads[i] := List.getElem?_eq_getElem hi'
    rcases hI.cover i _ _ ht (List.getElem?_eq_getElem hi) name hn with h | h
    · rw [(quiescent_done hI hq ht).2] at h
      simp at h
    · exact h

/-- **C25 (concurrent: no livelock).** Every schedule makes at most five effective steps per name to
register, so there is no infinite execution; from every reachable state some continuation reaches a
state in which no thread can move (where `C25_concurrent_final` applies). -/
theorem C25_concurrent_terminates (d0 : Dict) (progs : List (List Nat)) (sched : List Nat) :
    (sys Miros.Gen.registryLocked).effective (init Miros.Gen.registryLocked d0 progs) sched
      ≤ 5 * (progs.map List.length).sum ∧
    ∃ more, (sys Miros.Gen.registryLocked).Quiescent
      ((sys Miros.Gen.registryLocked).run (init Miros.Gen.registryLocked d0 progs) (sched ++ more)) := by
  rw [registryLocked_true]
  constructor
  · have := (sys true).terminates_of_measure (fun _ => True) measure
      (fun _ _ _ _ _ => trivial) (fun _ _ _ _ h => step_measure h) sched (init true d0 progs) trivial
    rwa [measure_init] at this
  · obtain ⟨more, h⟩ := (sys true).reaches_quiescence (fun _ => True) measure
      (fun _ _ _ _ _ => trivial) (fun _ _ _ _ h => step_measure h) _
      ((sys true).run (init true d0 progs) sched) (Nat.le_refl _) trivial
    exact ⟨more, by rw [System.run_append]; exact h⟩

/-- **C25 (witness, earlier code).** Without the lock two threads registering different names can
both read the same length and bind both names to the same number. -/
theorem C25_witness_unlocked :
    ((sys false).run (init false [] [[7], [8]]) [0, 1, 0, 1, 0, 1]).dict = [(7, 1), (8, 1)] := by
  decide

/-- non-vacuity: two threads registering overlapping names after the built-ins, run to the end -/
example :
    let s := (sys Miros.Gen.registryLocked).run (init Miros.Gen.registryLocked builtinDict [[20, 21], [21]])
      [0, 1, 0, 0, 0, 0, 1, 1, 1, 1, 1, 0, 0, 0]
    s.dict = builtinDict ++ [(20, 11), (21, 12)] ∧ s.threads.map (·.pc) = [.done, .done] ∧ s.lock = none := by
  decide

end Miros.Props.C25
