import MirosModel.Conc.LDSeqLemmas
import MirosModel.Gen.Constants
/-!
# C16 (active-object part) — `LockingDeque` is a bounded deque that never blocks

"… posting to a full queue never blocks: a fifo post keeps the new event at the back and a lifo
post keeps the new event at the front … An active object's queue behaves like a bounded deque
under append/appendleft/pop/popleft/clear/len while keeping one wake-up token per pending event
when idle, and clear() always succeeds."

Model: `Miros.Conc.LD` (`MirosModel/Conc/LockingDeque.lean`: the posting algorithm one primitive
per step; `MirosModel/Conc/LockingDequeSeq.lean`: the same primitives used by one thread at a
time). The statements are about the algorithm of the current source tree, `Miros.Gen.ldAlg`
(`tokenAfter`) and `Miros.Gen.clearAcksEach` (`clear()` acknowledges every drained token), for
every capacity `0 < c.cap` (the current `QUEUE_SIZE` is `Miros.Gen.queueCap`).

`s := seqRun c Miros.Gen.clearAcksEach seqInit ops` is the state of a fresh `LockingDeque` after
the client operations `ops`. `okOps c.cap [] ops`: no `pop`/`popleft` of `ops` meets an empty
deque. `noPops ops`: `ops` has no `pop`/`popleft` at all.
-/
namespace Miros.Props.C16LD
open Miros.Queue Miros.Conc.LD

/-! ### one post in closed form -/

/-- **C16-LD (fifo post, closed form).** From any shared state within capacity, `append(e)` run by
one thread returns (never blocks, the fuel `fuelFor c` suffices); the deque is the bounded append
(when full, `rotate(1)` + `append` replace the newest old event, the older ones stay), one token is
added if there is room and the tokens are then topped up to the number of events. -/
theorem C16LD_fifo_post_closed_form (c : Config) (h : c.alg = Miros.Gen.ldAlg) (hc : 0 < c.cap)
    (e : Ev) (sh : Shared) (hl : sh.dq.length ≤ c.cap) (ht : sh.tok ≤ c.cap) :
    ∃ sh', runPost c (fuelFor c) sh ⟨[(.fifo, e)], .a0, 0⟩ = some sh' ∧
      sh'.dq = (if sh.dq.length < c.cap then sh.dq ++ [e] else sh.dq.dropLast ++ [e]) ∧
      sh'.tok = min c.cap (max (sh.tok + 1) sh'.dq.length) ∧
      sh'.unfinished = sh.unfinished + (sh'.tok - sh.tok) :=
  runPost_fifo c (h.trans (by decide)) hc e sh hl ht

/-- **C16-LD (lifo post, closed form).** -/
theorem C16LD_lifo_post_closed_form (c : Config) (h : c.alg = Miros.Gen.ldAlg) (hc : 0 < c.cap)
    (e : Ev) (sh : Shared) (hl : sh.dq.length ≤ c.cap) (ht : sh.tok ≤ c.cap) :
    ∃ sh', runPost c (fuelFor c) sh ⟨[(.lifo, e)], startPc c.alg .lifo, 0⟩ = some sh' ∧
      sh'.dq = (if sh.dq.length < c.cap then e :: sh.dq else e :: sh.dq.dropLast) ∧
      sh'.tok = min c.cap (max (sh.tok + 1) sh'.dq.length) ∧
      sh'.unfinished = sh.unfinished + (sh'.tok - sh.tok) := by
  have ha : c.alg = .tokenAfter := h.trans (by decide)
  have hs : startPc c.alg .lifo = .l1 := by rw [ha]; rfl
  rw [hs]
  exact runPost_lifo c ha hc e sh hl ht

/-! ### bounded -/

/-- **C16-LD (bounded).** Whatever the client does, neither the deque nor the token queue ever
holds more than `cap` entries. -/
theorem C16LD_bounded (c : Config) (h : c.alg = Miros.Gen.ldAlg) (hc : 0 < c.cap) (ops : List SOp) :
    (seqRun c Miros.Gen.clearAcksEach seqInit ops).dq.length ≤ c.cap ∧
    (seqRun c Miros.Gen.clearAcksEach seqInit ops).tok ≤ c.cap := by
  have hk : Miros.Gen.clearAcksEach = true := by decide
  rw [hk]
  have hi := Inv0.run (h.trans (by decide)) hc ops (Inv0.init c)
  exact ⟨hi.1, hi.2.1⟩

/-- **C16-LD (bounded, current source tree).** -/
theorem C16LD_bounded_queueCap (c : Config) (h : c.alg = Miros.Gen.ldAlg)
    (hcap : c.cap = Miros.Gen.queueCap) (ops : List SOp) :
    (seqRun c Miros.Gen.clearAcksEach seqInit ops).dq.length ≤ Miros.Gen.queueCap ∧
    (seqRun c Miros.Gen.clearAcksEach seqInit ops).tok ≤ Miros.Gen.queueCap := by
  have := C16LD_bounded c h (by rw [hcap]; decide) ops
  rwa [hcap] at this

/-- the full invariant of the sequential use holds after any `ops` without a failing pop -/
theorem C16LD_invariant (c : Config) (h : c.alg = Miros.Gen.ldAlg) (hc : 0 < c.cap) (ops : List SOp)
    (hok : okOps c.cap [] ops) : Inv c (seqRun c Miros.Gen.clearAcksEach seqInit ops) := by
  have hk : Miros.Gen.clearAcksEach = true := by decide
  rw [hk]
  have ha : c.alg = .tokenAfter := h.trans (by decide)
  have hi := Inv0.run ha hc ops (Inv0.init c)
  have he := (seqRun_err ha hc ops (Inv0.init c)).mpr ⟨rfl, hok⟩
  exact ⟨hi.1, hi.2.1, hi.2.2.1, hi.2.2.2, he⟩

/-! ### never blocks, never fails -/

/-- **C16-LD (never blocks, never fails).** No operation blocks or raises, except a `pop`/`popleft`
on an empty deque (`IndexError`, as for a plain deque): the error flag after `ops` is clear exactly
when no pop of `ops` met an empty deque. -/
theorem C16LD_never_blocks_never_fails (c : Config) (h : c.alg = Miros.Gen.ldAlg) (hc : 0 < c.cap)
    (ops : List SOp) :
    (seqRun c Miros.Gen.clearAcksEach seqInit ops).err = false ↔ okOps c.cap [] ops := by
  have hk : Miros.Gen.clearAcksEach = true := by decide
  rw [hk, seqRun_err (h.trans (by decide)) hc ops (Inv0.init c)]
  simp [seqInit]

/-- per operation: from a state satisfying the invariant, an operation that is not a pop/popleft on
an empty deque does not raise and re-establishes the invariant -/
theorem C16LD_step_never_fails (c : Config) (h : c.alg = Miros.Gen.ldAlg) (hc : 0 < c.cap) (s : Seq)
    (hi : Inv c s) (o : SOp) (ho : okOp s.dq o) :
    (seqStep c Miros.Gen.clearAcksEach s o).1.err = false ∧ Inv c (seqStep c Miros.Gen.clearAcksEach s o).1 := by
  have hk : Miros.Gen.clearAcksEach = true := by decide
  rw [hk]
  have := hi.step (h.trans (by decide)) hc o ho
  exact ⟨this.2.2.2.2, this⟩

/-- posts return `None` (they neither block — `"BLOCKED"` — nor raise), whatever the fill level -/
theorem C16LD_post_returns (c : Config) (h : c.alg = Miros.Gen.ldAlg) (hc : 0 < c.cap) (ops : List SOp)
    (e : Ev) :
    (seqStep c Miros.Gen.clearAcksEach (seqRun c Miros.Gen.clearAcksEach seqInit ops) (.append e)).2 = "None" ∧
    (seqStep c Miros.Gen.clearAcksEach (seqRun c Miros.Gen.clearAcksEach seqInit ops) (.appendleft e)).2 = "None" := by
  have hk : Miros.Gen.clearAcksEach = true := by decide
  rw [hk]
  have ha : c.alg = .tokenAfter := h.trans (by decide)
  have hi := Inv0.run ha hc ops (Inv0.init c)
  rw [seqStep_append c true ha hc _ e hi.1 hi.2.1, seqStep_appendleft c true ha hc _ e hi.1 hi.2.1]
  exact ⟨rfl, rfl⟩

/-- **C16-LD (clear always succeeds).** In every reachable state `clear()` returns `None`, raises
nothing (the error flag is unchanged), and leaves no event and no token. -/
theorem C16LD_clear_always_succeeds (c : Config) (h : c.alg = Miros.Gen.ldAlg) (hc : 0 < c.cap)
    (ops : List SOp) :
    let s := seqRun c Miros.Gen.clearAcksEach seqInit ops
    (seqStep c Miros.Gen.clearAcksEach s .clear).2 = "None" ∧
    (seqStep c Miros.Gen.clearAcksEach s .clear).1.err = s.err ∧
    (seqStep c Miros.Gen.clearAcksEach s .clear).1.dq = [] ∧
    (seqStep c Miros.Gen.clearAcksEach s .clear).1.tok = 0 := by
  have hk : Miros.Gen.clearAcksEach = true := by decide
  rw [hk]
  have hi := Inv0.run (h.trans (by decide)) hc ops (Inv0.init c)
  intro s
  rw [seqStep_clear c s hi.2.2.2]
  exact ⟨rfl, rfl, rfl, rfl⟩

/-! ### one token per event -/

/-- **C16-LD (one token per pending event when idle).** As long as nobody pops (the consumer is
idle; the client posts, clears, asks for the length), there is exactly one wake-up token per
pending event. -/
theorem C16LD_one_token_per_event_when_idle (c : Config) (h : c.alg = Miros.Gen.ldAlg) (hc : 0 < c.cap)
    (ops : List SOp) (hn : noPops ops) :
    (seqRun c Miros.Gen.clearAcksEach seqInit ops).tok =
      (seqRun c Miros.Gen.clearAcksEach seqInit ops).dq.length := by
  have hk : Miros.Gen.clearAcksEach = true := by decide
  rw [hk]
  exact seqRun_tok_eq (h.trans (by decide)) hc ops (Inv0.init c) rfl hn

/-- in general (raw pops take events without taking tokens) there are never fewer tokens than
events, and every token is still unacknowledged -/
theorem C16LD_tokens_cover_events (c : Config) (h : c.alg = Miros.Gen.ldAlg) (hc : 0 < c.cap)
    (ops : List SOp) :
    (seqRun c Miros.Gen.clearAcksEach seqInit ops).dq.length ≤ (seqRun c Miros.Gen.clearAcksEach seqInit ops).tok ∧
    (seqRun c Miros.Gen.clearAcksEach seqInit ops).tok ≤ (seqRun c Miros.Gen.clearAcksEach seqInit ops).unfinished := by
  have hk : Miros.Gen.clearAcksEach = true := by decide
  rw [hk]
  have hi := Inv0.run (h.trans (by decide)) hc ops (Inv0.init c)
  exact ⟨hi.2.2.1, hi.2.2.2⟩

/-! ### the new event is kept -/

/-- **C16-LD (fifo keeps the new event at the back).** `append(e)` returns, the new event is the
last one; a non-full deque grows at the back, a full one has its newest old event replaced; one
token is added if there is room. -/
theorem C16LD_append_keeps_new_last (c : Config) (h : c.alg = Miros.Gen.ldAlg) (hc : 0 < c.cap)
    (s : Seq) (hi : Inv c s) (e : Ev) :
    let s1 := (seqStep c Miros.Gen.clearAcksEach s (.append e)).1
    s1.dq.getLast? = some e ∧
    s1.dq = (if s.dq.length < c.cap then s.dq ++ [e] else s.dq.dropLast ++ [e]) ∧
    s1.tok = min c.cap (s.tok + 1) ∧ s1.err = false := by
  have ha : c.alg = .tokenAfter := h.trans (by decide)
  intro s1
  have hs : s1 = _ := congrArg Prod.fst (seqStep_append c Miros.Gen.clearAcksEach ha hc s e hi.1 hi.2.1)
  have hl := absAppend_length c.cap s.dq e hc hi.1
  have h3 := hi.2.2.1
  rw [hs]
  refine ⟨absAppend_getLast _ _ _, rfl, ?_, hi.2.2.2.2⟩
  simp only [tokAfter, hl]
  omega

/-- **C16-LD (lifo keeps the new event at the front).** `appendleft(e)` returns, the new event is
the first one; a full deque loses its last (newest) event. -/
theorem C16LD_appendleft_keeps_new_first (c : Config) (h : c.alg = Miros.Gen.ldAlg) (hc : 0 < c.cap)
    (s : Seq) (hi : Inv c s) (e : Ev) :
    let s1 := (seqStep c Miros.Gen.clearAcksEach s (.appendleft e)).1
    s1.dq.head? = some e ∧
    s1.dq = (if s.dq.length < c.cap then e :: s.dq else e :: s.dq.dropLast) ∧
    s1.tok = min c.cap (s.tok + 1) ∧ s1.err = false := by
  have ha : c.alg = .tokenAfter := h.trans (by decide)
  intro s1
  have hs : s1 = _ := congrArg Prod.fst (seqStep_appendleft c Miros.Gen.clearAcksEach ha hc s e hi.1 hi.2.1)
  have hl := absAppendLeft_length c.cap s.dq e hc hi.1
  have h3 := hi.2.2.1
  rw [hs]
  refine ⟨absAppendLeft_head _ _ _, rfl, ?_, hi.2.2.2.2⟩
  simp only [tokAfter, hl]
  omega

/-! ### refinement of a bounded deque -/

/-- **C16-LD (bounded deque).** Under any sequence of append/appendleft/pop/popleft/clear/len the
deque of the `LockingDeque` is that of the abstract bounded deque `absStep c.cap` driven by the
same operations (a pop on an empty deque leaves `[]` on both sides). -/
theorem C16LD_refines_bounded_deque (c : Config) (h : c.alg = Miros.Gen.ldAlg) (hc : 0 < c.cap)
    (ops : List SOp) :
    (seqRun c Miros.Gen.clearAcksEach seqInit ops).dq = ops.foldl (absStep c.cap) [] := by
  have hk : Miros.Gen.clearAcksEach = true := by decide
  rw [hk]
  exact seqRun_dq (h.trans (by decide)) hc ops (Inv0.init c)

/-! ### the earlier code -/

/-- with the earlier `clear()` (drain, then one `task_done`) clearing a fresh queue raises -/
theorem C16LD_witness_legacy_clear (c : Config) : (seqStep c false seqInit .clear).1.err = true := rfl

open Miros.Conc.LD.Ex

/-- with the earlier posting algorithm (capacity 2, `exCfg .legacy`) a lifo post to a full queue
returns but the new event is dropped: the deque is unchanged -/
theorem C16LD_witness_legacy_appendleft :
    (seqStep (exCfg .legacy) Miros.Gen.clearAcksEach
      (seqRun (exCfg .legacy) Miros.Gen.clearAcksEach seqInit [.append a, .append b]) (.appendleft x)).1.dq
      = [a, b] := by decide

/-- … while the current algorithm keeps it at the front -/
example :
    (seqStep (exCfg Miros.Gen.ldAlg) Miros.Gen.clearAcksEach
      (seqRun (exCfg Miros.Gen.ldAlg) Miros.Gen.clearAcksEach seqInit [.append a, .append b]) (.appendleft x)).1.dq
      = [x, a] := by decide

/-! ### non-vacuity -/

/-! `after alg acks ops` = (deque, tokens, unfinished, error flag) after `ops` on a fresh queue of
capacity 2 (`exCfg alg`) -/

example : (exCfg Miros.Gen.ldAlg).alg = Miros.Gen.ldAlg ∧ 0 < (exCfg Miros.Gen.ldAlg).cap := by decide
example : after Miros.Gen.ldAlg Miros.Gen.clearAcksEach [] = ([], 0, 0, false) := by decide
example : after Miros.Gen.ldAlg Miros.Gen.clearAcksEach [.append a] = ([a], 1, 1, false) := by decide
example : after Miros.Gen.ldAlg Miros.Gen.clearAcksEach [.append a, .append b] = ([a, b], 2, 2, false) := by decide
example : after Miros.Gen.ldAlg Miros.Gen.clearAcksEach [.append a, .append b, .append x] = ([a, x], 2, 2, false) := by decide
example : after Miros.Gen.ldAlg Miros.Gen.clearAcksEach [.append a, .append b, .append x, .appendleft d] = ([d, a], 2, 2, false) := by decide
example : after Miros.Gen.ldAlg Miros.Gen.clearAcksEach [.append a, .append b, .append x, .appendleft d, .pop] = ([d], 2, 2, false) := by decide
example : after Miros.Gen.ldAlg Miros.Gen.clearAcksEach [.append a, .append b, .append x, .appendleft d, .pop, .clear] = ([], 0, 0, false) := by decide
example : okOps 2 [] [.append a, .append b, .append x, .appendleft d, .pop, .clear] := by decide
example : noPops [.append a, .append b, .append x, .appendleft d, .clear, .len] := by decide
/-- a pop on an empty deque is the only failure -/
example : after Miros.Gen.ldAlg Miros.Gen.clearAcksEach [.append a, .pop, .pop] = ([], 1, 1, true) ∧ ¬ okOps 2 [] [.append a, .pop, .pop] := by decide
/-- the top-up loop at work (shared state with fewer tokens than events, as left by a consumer
that took a token before the event): tokens go from 0 to the number of events -/
example : (runPost (exCfg Miros.Gen.ldAlg) (fuelFor (exCfg Miros.Gen.ldAlg)) ⟨[a], 0, 0, []⟩
    ⟨[(.fifo, b)], .a0, 0⟩).map (fun sh => (sh.dq, sh.tok, sh.unfinished)) = some ([a, b], 2, 2) := by decide

end Miros.Props.C16LD
