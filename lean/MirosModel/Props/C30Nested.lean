import MirosModel.Conc.SingleNestedLemmas
import MirosModel.Gen.Constants
/-!
# C30 — a singleton first requested from inside the constructors of other singletons

"Singletons stay single even when first requested concurrently": `ActiveFabric()` and
`InstrumentionWriter()` are singletons whose constructors both call `FiberThreadEvent()`, a third
singleton.  When the first requests arrive at the same time through different routes (thread 1 asks
for outer singleton A, thread 2 for outer singleton B, thread 3 for the inner one directly), every
requester must end up with THE one inner object.

Model: `Miros.Conc.SingleNested` (`MirosModel/Conc/SingleNested.lean`).  One `SingletonDecorator` per
class (`insts[d]`, `locks[d]`); decorator 0 is the inner singleton, decorators 1, 2, … are outer
singletons whose constructor makes a complete nested `__call__` of decorator 0.  A thread is a stack
of `__call__` frames; one step = one access to shared state by the top frame.  Any number of threads,
each making one request (`Req.inner` / `Req.outer k`, any `k`), any schedule.
`Miros.Gen.singletonNestedSkipsLock = false` (`Tags.nestedSkipsLock = false`): the current source.
`nestedSkipsLock = true`: a seeded change — a first request made from INSIDE another singleton's
constructor skips the lock and the second check ("the outer lock already protects us"; but A and B
have different locks).
Ghost fields: `made` = (decorator, object) in order of construction, `holds` = (outer object, the
inner object it was constructed with).  `getI tbl d` = entry `d` of a per-decorator table.
A thread's `ret = some (x, y)`: `x` = what its request returned, `y` = the inner object that `x` is
(inner request) or holds (outer request).

NOT modelled: constructors that raise (see `C30Init`), more than one request per thread (after the
first round every request takes the lock-free fast path), nesting deeper than one level.
-/
namespace Miros.Props.C30Nested
open Miros.Conc Miros.Conc.SingleNested

/-- the tags of the current source, as generated from it -/
def genTags : Tags := ⟨Miros.Gen.singletonNestedSkipsLock⟩

theorem genTags_ok : genTags = ⟨false⟩ := by decide

/-- **C30 (nested singletons stay single).** Any requests, any schedule, in every reachable state:
(1) at most one object was ever constructed per decorator; (2) a stored instance is that object;
(3) every outer object ever constructed holds THE inner instance; (4) every thread that has a return
value has returned, and it returned `(some o, some io)` where `o` is the stored instance of the
decorator it asked and `io` is the stored instance of the inner decorator — `o` itself for an inner
request, the object `o` holds for an outer request; (5) so any two requesters hold the same inner
object, and requesters of the same decorator got the same object.  The full inductive invariant
(`SingleNested.Inv`) holds. -/
theorem C30_nested_single (reqs : List Req) (sched : List Nat) :
    let s := (sys ⟨false⟩).run (init reqs) sched
    Inv reqs s ∧
    (∀ d, (s.made.filter fun p => p.1 == d).length ≤ 1) ∧
    (∀ d o, getI s.insts d = some o → (d, o) ∈ s.made) ∧
    (∀ d o, (d, o) ∈ s.made → d ≠ 0 → ∃ io, s.holds.lookup o = some io ∧ getI s.insts 0 = some io) ∧
    (∀ (i : Nat) (t : Thread) (r : Req) (x : Option Nat × Option Nat),
      s.threads[i]? = some t → reqs[i]? = some r → t.ret = some x →
      t.stack = [] ∧ ∃ o io, x = (some o, some io) ∧ getI s.insts r.dec = some o ∧
        getI s.insts 0 = some io ∧ (r.dec = 0 → o = io) ∧ (r.dec ≠ 0 → s.holds.lookup o = some io)) ∧
    (∀ (i j : Nat) (ti tj : Thread) (ri rj : Req) (xi xj : Option Nat × Option Nat),
      s.threads[i]? = some ti → s.threads[j]? = some tj → reqs[i]? = some ri → reqs[j]? = some rj →
      ti.ret = some xi → tj.ret = some xj → xi.2 = xj.2 ∧ (ri.dec = rj.dec → xi = xj)) := by
  intro s
  have hI : Inv reqs s := Inv.run reqs sched
  have hret : ∀ (i : Nat) (t : Thread) (r : Req) (x : Option Nat × Option Nat),
      s.threads[i]? = some t → reqs[i]? = some r → t.ret = some x →
      t.stack = [] ∧ ∃ o io, x = (some o, some io) ∧ getI s.insts r.dec = some o ∧
        getI s.insts 0 = some io ∧ (r.dec = 0 → o = io) ∧ (r.dec ≠ 0 → s.holds.lookup o = some io) := by
    intro i t r x ht hr hx
    have hst := hI.stack_of_ret ht hx
    obtain ⟨o, io, h1, h2, h3, h4, h5⟩ := hI.done_spec ht hr hst
    rw [hx] at h1
    exact ⟨hst, o, io, Option.some.inj h1, h2, h3, h4, h5⟩
  refine ⟨hI, hI.made_le, fun d o h => mem_of_forDec_eq (hI.inst d o h), hI.held, hret, ?_⟩
  intro i j ti tj ri rj xi xj hi hj hri hrj hxi hxj
  obtain ⟨_, oi, ioi, rfl, h1, h2, _⟩ := hret i ti ri xi hi hri hxi
  obtain ⟨_, oj, ioj, rfl, h3, h4, _⟩ := hret j tj rj xj hj hrj hxj
  rw [h2] at h4
  cases h4
  refine ⟨rfl, fun hd => ?_⟩
  rw [hd, h3] at h1
  cases h1
  rfl

/-- non-vacuity of `C30_nested_single`: a reachable state (current source) in which three threads
have returned — A, B and the inner object itself, all with inner object 0 -/
example :
    let s := (sys ⟨false⟩).run (init [.outer 1, .outer 2, .inner]) (List.replicate 16 [0, 1, 2]).flatten
    s.threads.map (·.ret) = [some (some 1, some 0), some (some 2, some 0), some (some 0, some 0)] ∧
      s.made = [(0, 0), (1, 1), (2, 2)] ∧ s.holds = [(1, 0), (2, 0)] := by
  decide

/-- **C30 (for the life of the process).** Once `insts[d]` is set it never changes, whatever is
scheduled afterwards. -/
theorem C30_nested_instances_stable (reqs : List Req) (sched more : List Nat) (d o : Nat)
    (h : getI ((sys ⟨false⟩).run (init reqs) sched).insts d = some o) :
    getI ((sys ⟨false⟩).run (init reqs) (sched ++ more)).insts d = some o := by
  rw [System.run_append]
  exact run_insts_stable more _ (Inv.run reqs sched) h

/-- non-vacuity of `C30_nested_instances_stable`: the inner instance is set after 15 turns of a
round-robin run, and not before -/
example :
    getI ((sys ⟨false⟩).run (init [.outer 1, .outer 2, .inner])
      ((List.replicate 16 [0, 1, 2]).flatten.take 15)).insts 0 = some 0 ∧
    getI ((sys ⟨false⟩).run (init [.outer 1, .outer 2, .inner])
      ((List.replicate 16 [0, 1, 2]).flatten.take 14)).insts 0 = none := by
  decide

/-- **C30 (no deadlock).** In a reachable state in which no thread can move, every lock is free and
every thread has returned, with an object and an inner object.  (A thread waiting at `acquire`
implies an owner inside that `with` block; the owner of the inner lock runs the top frame of its
thread, which is never waiting; the owner of an outer lock is waiting at most for the inner lock:
locks are always taken outer-then-inner, there is no cycle.) -/
theorem C30_nested_no_deadlock (reqs : List Req) (sched : List Nat)
    (hq : (sys ⟨false⟩).Quiescent ((sys ⟨false⟩).run (init reqs) sched)) :
    let s := (sys ⟨false⟩).run (init reqs) sched
    (∀ d, getI s.locks d = none) ∧ s.threads.length = reqs.length ∧
    (∀ (i : Nat) (r : Req), reqs[i]? = some r →
      ∃ t o io, s.threads[i]? = some t ∧ t.stack = [] ∧ t.ret = some (some o, some io) ∧
        getI s.insts r.dec = some o ∧ getI s.insts 0 = some io) := by
  intro s
  have hI : Inv reqs s := Inv.run reqs sched
  obtain ⟨hl, hdone⟩ := quiescent_done hI hq
  refine ⟨hl, hI.nthr, fun i r hr => ?_⟩
  have hi : i < s.threads.length := by
    have := (List.getElem?_eq_some_iff.mp hr).1
    have := hI.nthr; omega
  have ht : s.threads[i]? = some s.threads[i] := List.getElem?_eq_getElem hi
  have hst := hdone i _ ht
  obtain ⟨o, io, h1, h2, h3, _⟩ := hI.done_spec ht hr hst
  exact ⟨_, o, io, ht, hst, h1, h2, h3⟩

/-- **C30 (no livelock).** Whatever the tag, every schedule makes at most `16 ·` (number of threads)
effective steps (an inner request takes at most 7 steps, an outer one at most 15), so there is no
infinite execution: a scheduler that keeps choosing enabled threads reaches a state in which no
thread can move — where, by `C30_nested_no_deadlock`, every thread has returned. -/
theorem C30_nested_terminates (g : Tags) (reqs : List Req) (sched : List Nat) :
    (sys g).effective (init reqs) sched ≤ 16 * reqs.length := by
  have := (sys g).terminates_of_measure (fun _ => True) measure
    (fun _ _ _ _ _ => trivial) (fun _ _ _ _ h => step_measure h) sched (init reqs) trivial
  exact Nat.le_trans this (measure_init_le reqs)

/-- from every reachable state some continuation reaches a state in which no thread can move -/
theorem C30_nested_can_finish (g : Tags) (reqs : List Req) (sched : List Nat) :
    ∃ more, (sys g).Quiescent ((sys g).run (init reqs) (sched ++ more)) := by
  obtain ⟨more, h⟩ := (sys g).reaches_quiescence (fun _ => True) measure
    (fun _ _ _ _ _ => trivial) (fun _ _ _ _ h => step_measure h) _
    ((sys g).run (init reqs) sched) (Nat.le_refl _) trivial
  exact ⟨more, by rw [System.run_append]; exact h⟩

/-- **C30 (current source).** `C30_nested_single` for the tags generated from the current source. -/
theorem C30_nested_current (reqs : List Req) (sched : List Nat) :
    let s := (sys genTags).run (init reqs) sched
    Inv reqs s ∧
    (∀ d, (s.made.filter fun p => p.1 == d).length ≤ 1) ∧
    (∀ d o, getI s.insts d = some o → (d, o) ∈ s.made) ∧
    (∀ d o, (d, o) ∈ s.made → d ≠ 0 → ∃ io, s.holds.lookup o = some io ∧ getI s.insts 0 = some io) ∧
    (∀ (i : Nat) (t : Thread) (r : Req) (x : Option Nat × Option Nat),
      s.threads[i]? = some t → reqs[i]? = some r → t.ret = some x →
      t.stack = [] ∧ ∃ o io, x = (some o, some io) ∧ getI s.insts r.dec = some o ∧
        getI s.insts 0 = some io ∧ (r.dec = 0 → o = io) ∧ (r.dec ≠ 0 → s.holds.lookup o = some io)) ∧
    (∀ (i j : Nat) (ti tj : Thread) (ri rj : Req) (xi xj : Option Nat × Option Nat),
      s.threads[i]? = some ti → s.threads[j]? = some tj → reqs[i]? = some ri → reqs[j]? = some rj →
      ti.ret = some xi → tj.ret = some xj → xi.2 = xj.2 ∧ (ri.dec = rj.dec → xi = xj)) := by
  rw [genTags_ok]
  exact C30_nested_single reqs sched

/-! ### witnesses: the seeded change `nestedSkipsLock = true` -/

/-- T0 asks A, T1 asks B.  Both go down to the nested request's lock-free check (5 steps each) and
find no inner instance; then each constructs, stores and returns its own inner object; the tail lets
everybody finish. -/
def wSchedAB : List Nat :=
  [0, 0, 0, 0, 0, 1, 1, 1, 1, 1, 0, 1, 0, 0, 1, 1, 0, 0, 0, 0, 1, 1, 1, 1] ++ (List.replicate 10 [0, 1]).flatten

/-- T0 asks A, T1 asks the inner singleton directly.  T0 goes down to the nested check and finds no
instance; T1 takes the inner lock and passes its second check; both construct. -/
def wSchedAI : List Nat :=
  [0, 0, 0, 0, 0, 1, 1, 1, 1, 0, 1, 1, 1, 0, 0, 0, 0, 0, 0] ++ (List.replicate 10 [0, 1]).flatten

/-- **C30 (witness, nested request skips the lock).** With `nestedSkipsLock = true`:
threads `[outer 1, outer 2]`: two inner objects (0 and 1) are constructed; A (object 2) holds inner
object 0, B (object 3) holds inner object 1.  Threads `[outer 1, inner]`: two inner objects; the
direct requester got inner object 0, A (object 2) holds inner object 1. -/
theorem C30_nested_witness_skip :
    (let s := (sys ⟨true⟩).run (init [.outer 1, .outer 2]) wSchedAB
     s.made = [(0, 0), (0, 1), (1, 2), (2, 3)] ∧ s.holds = [(2, 0), (3, 1)] ∧
       s.threads.map (·.ret) = [some (some 2, some 0), some (some 3, some 1)] ∧
       s.threads.map (·.stack) = [[], []]) ∧
    (let s := (sys ⟨true⟩).run (init [.outer 1, .inner]) wSchedAI
     s.made = [(0, 0), (0, 1), (1, 2)] ∧ s.holds = [(2, 1)] ∧
       s.threads.map (·.ret) = [some (some 2, some 1), some (some 0, some 0)] ∧
       s.threads.map (·.stack) = [[], []]) := by
  decide

/-- The same schedules on the current source (`nestedSkipsLock = false`): the nested request takes
the inner lock and checks again; one inner object, held by everybody. -/
theorem C30_nested_witness_same_schedules_current :
    (let s := (sys ⟨false⟩).run (init [.outer 1, .outer 2]) wSchedAB
     s.made = [(0, 0), (1, 1), (2, 2)] ∧ s.holds = [(1, 0), (2, 0)] ∧
       s.threads.map (·.ret) = [some (some 1, some 0), some (some 2, some 0)] ∧
       s.threads.map (·.stack) = [[], []]) ∧
    (let s := (sys ⟨false⟩).run (init [.outer 1, .inner]) wSchedAI
     s.made = [(0, 0), (1, 1)] ∧ s.holds = [(1, 0)] ∧
       s.threads.map (·.ret) = [some (some 1, some 0), some (some 0, some 0)] ∧
       s.threads.map (·.stack) = [[], []]) := by
  decide

/-! ### non-vacuity -/

/-- T0 asks A, T1 asks B, T2 asks the inner singleton -/
def exReqs : List Req := [.outer 1, .outer 2, .inner]

/-- round robin until everything has finished -/
def exSched : List Nat := (List.replicate 16 [0, 1, 2]).flatten

/-- non-vacuity of `C30_nested_no_deadlock`: that run ends in a quiescent state -/
example : (sys ⟨false⟩).Quiescent ((sys ⟨false⟩).run (init exReqs) exSched) :=
  quiescent_of_all_done (by decide)

/-- in that run threads really waited for locks (schedule entries that could not move), and 33 steps
were effective (bound of `C30_nested_terminates`: 48) -/
example : blockedCount ⟨false⟩ (init exReqs) exSched = 15 ∧
    (sys ⟨false⟩).effective (init exReqs) exSched = 33 := by
  decide

/-- non-vacuity of `C30_nested_can_finish`: a reachable state that is not quiescent yet -/
example : step ⟨false⟩ ((sys ⟨false⟩).run (init exReqs) (exSched.take 10)) 0 ≠ none := by decide

end Miros.Props.C30Nested
