import MirosModel.Conc.FabricInv
import MirosModel.Gen.Constants
/-!
# C13 — one fifo and one lifo delivery thread; start / stop / is_alive

"The active fabric runs at most one fifo and one lifo delivery thread at any time no matter how
often start() is called, and is_alive() reports whether they run. stop() ends both threads and
halts every active object at its next wake-up, and a later start() resumes delivery for subsequent
subscriptions and publications."

Model: `Miros.Conc.Fab`, tags `Miros.Gen.fabTags` (`startKeepsHandles = true`: `start()` keeps the
handle of a thread that is still running instead of overwriting it).

Not covered here: "halts every active object at its next wake-up" — the model's subscriber queues
are passive containers; the stop marker (`FE.ev = none`) is consumed by the delivery thread and is
not forwarded to them.
-/
namespace Miros.Props.C13
open Miros.Conc Miros.Conc.Fab

theorem fabTags_keeps : Miros.Gen.fabTags.startKeepsHandles = true := by decide

/-! ### at most one thread of each kind -/

/-- **C13 (at most one).** Any number of clients, any programs (any number of `start()` calls from
any of them, interleaved in any way), any schedule: there is never a delivery thread that no
handle refers to, hence at most one live fifo and one live lifo thread. -/
theorem C13_at_most_one (subs : List SubQ) (progs : List (List Call)) (sched : List Nat) :
    let s := (sys Miros.Gen.fabTags).run (init subs progs) sched
    s.zombies = [] ∧ liveCount s .fifo ≤ 1 ∧ liveCount s .lifo ≤ 1 := by
  intro s
  have hz : s.zombies = [] := zombies_nil_run fabTags_keeps (init subs progs) rfl sched
  refine ⟨hz, ?_, ?_⟩ <;> simp only [liveCount, hz, List.filter_nil, List.length_nil] <;> split <;> simp

/-! ### is_alive -/

/-- **C13 (is_alive).** In every reachable state an `is_alive()` call is one step, changes nothing,
and returns (appends to `results`) whether exactly one fifo and one lifo thread are live. -/
theorem C13_is_alive_reports (subs : List SubQ) (progs : List (List Call)) (sched : List Nat)
    (c : Client) (rest : List Call) (hpc : c.pc = .call) (hc : c.calls = .isAlive :: rest) :
    let s := (sys Miros.Gen.fabTags).run (init subs progs) sched
    ∃ lbl, clientStep Miros.Gen.fabTags s c =
      some ({ calls := rest, pc := .call,
              results := c.results ++ [decide (liveCount s .fifo = 1 ∧ liveCount s .lifo = 1)] }, s, lbl) := by
  intro s
  have hz : s.zombies = [] := zombies_nil_run fabTags_keeps (init subs progs) rfl sched
  have : decide (liveCount s .fifo = 1 ∧ liveCount s .lifo = 1) = (alive s.thrF && alive s.thrL) := by
    simp only [liveCount, hz, List.filter_nil, List.length_nil]
    cases alive s.thrF <;> cases alive s.thrL <;> simp
  rw [this]
  simp only [clientStep, hpc, hc, finishCall, List.tail_cons]
  exact ⟨_, rfl⟩

/-! ### start -/

/-- **C13 (start).** A `start()` call is one step; afterwards the flag is up and both handles are
alive; a thread that was alive is kept (same thread, same pc), a dead or absent one is replaced by a
fresh thread about to begin; queues, registries, subscribers and the sequence counter are untouched. -/
theorem C13_start_makes_alive (s : State) (c : Client) (rest : List Call)
    (hpc : c.pc = .call) (hc : c.calls = .start :: rest) :
    clientStep Miros.Gen.fabTags s c = some (finishCall c, doStart Miros.Gen.fabTags s, "call.start") ∧
    let s' := doStart Miros.Gen.fabTags s
    s'.flag = true ∧ alive s'.thrF = true ∧ alive s'.thrL = true ∧
    (alive s.thrF = true → s'.thrF = s.thrF) ∧ (alive s.thrF = false → s'.thrF = some ⟨.b, 0⟩) ∧
    (alive s.thrL = true → s'.thrL = s.thrL) ∧ (alive s.thrL = false → s'.thrL = some ⟨.b, 0⟩) ∧
    s'.zombies = s.zombies ∧ s'.fq = s.fq ∧ s'.lq = s.lq ∧ s'.regF = s.regF ∧ s'.regL = s.regL ∧
    s'.subs = s.subs ∧ s'.nextSeq = s.nextSeq := by
  refine ⟨by simp [clientStep, hpc, hc], ?_⟩
  intro s'
  have hs' : s' = _ := doStart_keep fabTags_keeps s
  rw [hs']
  have hb : alive (some ⟨.b, 0⟩) = true := rfl
  cases hF : alive s.thrF <;> cases hL : alive s.thrL <;> simp [hF, hL, hb]

/-! ### stop -/

/-- **C13 (stop, i/ii).** `stop()` waits in `join`: the step leaving `stopJoinF` is enabled exactly
when the fifo thread is dead, the step leaving `stopJoinL` exactly when the lifo thread is dead. -/
theorem C13_stop_joins_wait (t : Tags) (s : State) (c : Client) (call : Call) (rest : List Call)
    (hc : c.calls = call :: rest) :
    (c.pc = .stopJoinF → ((clientStep t s c).isSome ↔ alive s.thrF = false)) ∧
    (c.pc = .stopJoinL → ((clientStep t s c).isSome ↔ alive s.thrL = false)) := by
  refine ⟨fun hpc => ?_, fun hpc => ?_⟩
  · cases hF : alive s.thrF <;> cases hL : alive s.thrL <;> simp [clientStep, hpc, hc, hF, hL]
  · cases hL : alive s.thrL <;> simp [clientStep, hpc, hc, hL]

/-- **C13 (stop, iii).** No step of a delivery thread and no client step other than entering a
`start()` call revives a dead thread handle or raises the run flag. -/
theorem C13_stop_dead_stays_dead (t : Tags) (s s' : State) (tid : Nat)
    (h : (sys t).step s tid = some s')
    (hns : ∀ c, s.clients[tid - 2]? = some c → 2 ≤ tid → tid < 100 →
      ¬ (c.pc = .call ∧ c.calls.head? = some .start)) :
    (alive s.thrF = false → alive s'.thrF = false) ∧ (alive s.thrL = false → alive s'.thrL = false) ∧
    (s.flag = false → s'.flag = false) :=
  dead_stays_dead h hns

/-- **C13 (stop, iv).** Entering `stop()` lowers the run flag (whatever branch is taken), and a
client step changes the flag only when entering `start()` or `stop()`. -/
theorem C13_stop_lowers_flag (t : Tags) (s s1 : State) (c c' : Client) (lbl : String)
    (h : clientStep t s c = some (c', s1, lbl)) :
    (c.pc = .call → c.calls.head? = some .stop → s1.flag = false) ∧
    (¬ (c.pc = .call ∧ c.calls.head? = some .start) →
      s1.flag = s.flag ∨ (c.pc = .call ∧ c.calls.head? = some .stop)) := by
  refine ⟨fun hpc hc => ?_, fun hns => (clientStep_handles h hns).2.2.2⟩
  have hns : ¬ (c.pc = .call ∧ c.calls.head? = some .start) := by simp [hc]
  client_cases h
  all_goals simp_all

/-- **C13 (stop ends both).** One controlling client, any program, any schedule: whenever a
`stop()` call returns — the client was about to enter `stop()` or inside it, and its step brings
it back to pc `call` — both delivery threads are dead and the run flag is down in the resulting
state, and the call has been consumed. -/
theorem C13_stop_ends_both (subs : List SubQ) (p : List Call) (sched : List Nat)
    (s' : State) (c c' : Client) (rest : List Call) :
    let s := (sys Miros.Gen.fabTags).run (init subs [p]) sched
    (sys Miros.Gen.fabTags).step s 2 = some s' →
    s.clients = [c] → s'.clients = [c'] → c.calls = .stop :: rest →
    (c.pc = .call ∨ inStop c.pc = true) → c'.pc = .call →
    alive s'.thrF = false ∧ alive s'.thrL = false ∧ s'.flag = false ∧ c'.calls = rest ∧
      liveCount s' .fifo = 0 ∧ liveCount s' .lifo = 0 := by
  intro s hstep hcl hcl' hcalls hpc hret
  have hi : StopInv s := StopInv_run _ (StopInv_init subs [p]) sched
  have hz : s'.zombies = [] :=
    zombies_nil_step fabTags_keeps (zombies_nil_run fabTags_keeps (init subs [p]) rfl sched) hstep
  rcases sys_step_cases hstep with ⟨h0, _⟩ | ⟨h1, _⟩ | ⟨h100, _⟩ | ⟨_, _, c0, c0', s1, lbl, hc0, hs, rfl⟩
  · omega
  · omega
  · omega
  · have hcs := (clientStep_seq hs []).2.1
    simp only [hcl, show 2 - 2 = 0 from rfl, List.getElem?_cons_zero, Option.some.injEq] at hc0
    subst hc0
    simp only [hcs, hcl, show 2 - 2 = 0 from rfl, List.set_cons_zero, List.cons.injEq, and_true] at hcl'
    subst hcl'
    obtain ⟨h1, h2⟩ := hi _ hcl
    obtain ⟨hF, hL, hfl, hr⟩ := clientStep_stop_returns hs hcalls hpc hret h1 h2
    simp only at hz
    refine ⟨hF, hL, hfl, hr, ?_, ?_⟩ <;> simp [liveCount, hF, hL, hz]

/-- **C13 (a stopped thread exits).** With the flag down a delivery thread that has finished the
item it was working on (pc `d`) or has not begun yet (pc `b`) terminates with its next step, and
that step is enabled. (At pc `g` it is woken by the stop marker that `stop()` has put into its
queue — `C06_get_step_*`: a non-empty queue enables the step — and goes to pc `d`.) -/
theorem C13_stopped_thread_exits (t : Tags) (k : Kind) (s : State) (th : Thr)
    (hfl : s.flag = false) (hpc : th.pc = .d ∨ th.pc = .b) :
    (thrStep t k s th).isSome ∧
    ∀ th' s1 lbl, thrStep t k s th = some (th', s1, lbl) → th'.pc = .fin ∧ alive (some th') = false := by
  refine ⟨?_, ?_⟩
  · rcases hpc with hpc | hpc <;> cases k <;> simp only [thrStep, hpc, hfl] <;> (repeat' split) <;> simp
  · intro th' s1 lbl h
    rcases hpc with hpc | hpc <;> cases k <;> simp only [thrStep, hpc, hfl] at h <;>
      (repeat' split at h) <;> simp_all [alive] <;> (obtain ⟨rfl, _⟩ := h; rfl)

/-- a thread blocked in `get` is released by the stop marker: after `stop()` has put its marker the
queue is not empty, so the step at pc `g` is enabled and leads to pc `d` -/
theorem C13_stop_marker_wakes (t : Tags) (k : Kind) (s : State) (th : Thr) (hpc : th.pc = .g)
    (hne : (match k with | .fifo => s.fq | .lifo => s.lq) ≠ []) :
    ∃ th' s1 lbl, thrStep t k s th = some (th', s1, lbl) ∧ th'.pc = .d ∧ s1.flag = s.flag := by
  cases k
  · cases hm : minFE t s.fq with
    | none => exact absurd (minFE_eq_none.1 hm) hne
    | some fe => simp only [thrStep, hpc, hm]; exact ⟨_, _, _, rfl, rfl, rfl⟩
  · cases hm : minFE t s.lq with
    | none => exact absurd (minFE_eq_none.1 hm) hne
    | some fe => simp only [thrStep, hpc, hm]; exact ⟨_, _, _, rfl, rfl, rfl⟩

/-! ### witnesses -/

/-- **C13 (legacy witness).** With `startKeepsHandles := false` (each `start()` on a running fabric
drops the old handle) three `start()` calls by one client leave two live fifo threads. -/
theorem C13_witness_legacy_start :
    let s := (sys { Miros.Gen.fabTags with startKeepsHandles := false }).run
      (init [] [[.start, .start, .start]]) [2, 2, 2]
    liveCount s .fifo = 2 ∧ liveCount s .lifo = 2 := by decide +kernel

/-- the same program with the current tags: one thread of each kind -/
example :
    let s := (sys Miros.Gen.fabTags).run (init [] [[.start, .start, .start]]) [2, 2, 2]
    liveCount s .fifo = 1 ∧ liveCount s .lifo = 1 ∧ s.zombies = [] := by decide +kernel

/-- `[start, publish, stop, is_alive]` under a complete schedule: `is_alive()` returns False, both
threads have finished, nothing is left in the fabric queues, no exception escaped -/
example :
    let s := (sys Miros.Gen.fabTags).run (init [] [[.start, .publish 1 7 5, .stop, .isAlive]])
      [2, 0, 1, 2, 2, 2, 0, 1, 0, 1, 2, 2, 0, 0, 2, 2, 1, 1, 2, 2]
    s.clients = [⟨[], .call, [false]⟩] ∧ s.thrF = some ⟨.fin, 0⟩ ∧ s.thrL = some ⟨.fin, 0⟩ ∧
    s.fq = [] ∧ s.lq = [] ∧ s.flag = false ∧ s.err = false := by decide +kernel

/-- two subscriber queues (plain deque 10, fifo; active object 11, lifo), two publications with
priorities 5 and 2 before `start()`, then the threads drain the backlog: the deque holds the
events in priority order, the active object — served at the front — in the reverse order;
`is_alive()` returns True -/
example :
    let s := (sys Miros.Gen.fabTags).run
      (init [⟨10, false, []⟩, ⟨11, true, []⟩]
        [[.subscribe 10 1 .fifo, .subscribe 11 1 .lifo, .publish 1 100 5, .publish 1 101 2, .start, .isAlive]])
      ([2, 2, 2, 2, 2, 2, 2, 2, 2, 2] ++ [0, 1, 0, 1, 0, 1, 0, 1, 0, 1, 0, 1])
    s.subs = [⟨10, false, [⟨1, 101⟩, ⟨1, 100⟩]⟩, ⟨11, true, [⟨1, 100⟩, ⟨1, 101⟩]⟩] ∧
    s.clients = [⟨[], .call, [true]⟩] ∧ s.fq = [] ∧ s.lq = [] := by decide +kernel

/-- stop, then a later start resumes delivery for a subsequent subscription and publication:
`is_alive()` is False after `stop()`, True after the second `start()`, and the event published after
the restart reaches the queue subscribed after the stop -/
example :
    let s := (sys Miros.Gen.fabTags).run
      (init [⟨10, false, []⟩]
        [[.start, .stop, .isAlive, .subscribe 10 1 .fifo, .start, .publish 1 7 5, .isAlive]])
      [2, 0, 1, 2, 2, 0, 0, 2, 2, 1, 1, 2, 2, 2, 2, 2, 2, 2, 0, 0, 0, 1, 1, 1, 2]
    s.subs = [⟨10, false, [⟨1, 7⟩]⟩] ∧ s.clients = [⟨[], .call, [false, true]⟩] ∧ s.err = false := by
  decide +kernel

end Miros.Props.C13
