import MirosModel.Conc.AOArmLemmas
import MirosModel.Gen.Constants
/-!
# C12 (handler-armed sources) — stop() racing handlers that arm timed sources

"After stop() returns in another thread, the active object's thread has ended, no further
run-to-completion step of that object runs, and every timed source it started has been cancelled
and posts nothing more."

Model: `Miros.Conc.AOArm` (`MirosModel/Conc/AOArm.lean`): a client thread `K` posts `nPosts` ARM events
and calls `stop()`; the consumer thread's ARM handler arms timed sources (each with its own timer
thread and a signal name) while `stop()` is in progress; `stop()` cancels by signal name
(`cancel_events`); a source that has used up its `times` clears its own flag but stays tracked.  Tag
`Miros.Gen.aoStopSnapshotAfterJoin = true`: `stop()` reads `posted_events_queue` after `thread.join()`.
All theorems quantify over every capacity, every list of `(times, name)` arguments, every number of
posted ARM events and every schedule (`List Step`, any length).
-/
namespace Miros.Props.C12Arm
open Miros.Conc Miros.Conc.AOArm

/-- the generated tag -/
def tags : Tags := ⟨Miros.Gen.aoStopSnapshotAfterJoin⟩

theorem tags_repaired : tags = ⟨true⟩ := rfl

/-- a run used by the non-vacuity examples: the consumer is already waiting when `K` posts one ARM and
calls `stop()`; the ARM handler runs after `stop()` has cleared the flag and appended STOP and arms a
for-ever source (source 0, name 7); the consumer ends, `stop()` joins, snapshots `[0]`, cancels it,
returns. -/
def demoSched : List Step := [.c, .k, .k, .k, .k, .c, .c, .k, .k, .k]

/-! ### 1. a running source is tracked -/

/-- **C12-arm (running → tracked).** In every reachable state every source whose own run flag is set
(whose timer thread can still post) is in `posted_events_queue`, where `stop()` will find it.  (The
converse does not hold: a source that has used up its `times` has its flag clear and stays tracked.) -/
theorem C12_arm_tracked_iff_running (cap : Nat) (arms : List (Nat × Nat)) (nPosts : Nat)
    (sched : List Step) :
    let s := (sys tags).run (init cap arms nPosts) sched
    ∀ x ∈ s.srcs, x.flag = true → x.tracked = true := by
  intro s x hx
  obtain ⟨i, hi⟩ := List.mem_iff_getElem?.mp hx
  exact (inv_reach cap arms nPosts sched).ft i x hi

/-- non-vacuity: a reachable state with one running tracked source and one exhausted source, which is
still tracked; and, with capacity 1, the exhausted source makes the next arming fail -/
example :
    let s := (sys tags).run (init 2 [(1, 5), (0, 6)] 2) [.c, .k, .k, .c, .c, .c, .t 0]
    let s1 := (sys tags).run (init 1 [(1, 5), (0, 6)] 2) [.c, .k, .k, .c, .t 0, .c, .c]
    s.srcs.map (fun x => (x.flag, x.tracked)) = [(false, true), (true, true)] ∧
    s1.srcs.map (fun x => (x.flag, x.tracked)) = [(false, true)] ∧ s1.arms = [] ∧ s1.q = [.tick 0] := by
  decide

/-! ### 2. every source is cancelled once stop() has returned -/

/-- **C12-arm (all cancelled).** If `stop()` has returned after `sched`, then after any continuation
`later` every source has its flag clear, is no longer in `posted_events_queue`, and has posted nothing
since the return; no timer thread has an enabled step. -/
theorem C12_arm_all_cancelled (cap : Nat) (arms : List (Nat × Nat)) (nPosts : Nat)
    (sched later : List Step)
    (hret : ((sys tags).run (init cap arms nPosts) sched).stopReturned = true) :
    let s' := (sys tags).run (init cap arms nPosts) (sched ++ later)
    (∀ x ∈ s'.srcs, x.flag = false ∧ x.tracked = false ∧ x.postsAfterStop = 0) ∧
    (∀ i, (sys tags).step s' (.t i) = none) := by
  intro s'
  have hinv := inv_reach cap arms nPosts sched
  have hs' : s' = (sys tags).run (init cap arms nPosts) sched := by
    show (sys tags).run _ (sched ++ later) = _
    rw [System.run_append]
    exact run_of_returned hinv hret tags later
  rw [hs']
  refine ⟨?_, fun i => quiescent_of_returned hinv hret tags (.t i)⟩
  intro x hx
  obtain ⟨i, hi⟩ := List.mem_iff_getElem?.mp hx
  have hd := (hinv.done (hinv.ret.mp hret)).2 i x hi
  exact ⟨hd.1, hd.2, hinv.ghost.2 i x hi⟩

/-- non-vacuity of 2, 3 and of the whole development (spec item 6): in `demoSched` an ARM handler runs
between `stopClear` and the consumer's exit (after the first five entries `stop()` is in `join`, the run
flag is clear, STOP is appended and there is no source yet), arms a for-ever source, and `stop()` still
cancels it; a later activation attempt of its timer thread is blocked. -/
example :
    let a := (sys tags).run (init 2 [(0, 7)] 1) (demoSched.take 5)
    let b := (sys tags).run (init 2 [(0, 7)] 1) (demoSched.take 7)
    let s := (sys tags).run (init 2 [(0, 7)] 1) demoSched
    a.k = .join ∧ a.runFlag = false ∧ a.srcs = [] ∧ a.c = .wait ∧
    b.c = .fin ∧ b.srcs.map (fun x => (x.flag, x.forever, x.tracked)) = [(true, true, true)] ∧
    s.stopReturned = true ∧ s.srcs.map (fun x => (x.flag, x.tracked, x.postsAfterStop)) = [(false, false, 0)] ∧
    (sys tags).step s (.t 0) = none := by decide

/-- non-vacuity of 2 with cancellation by name: three sources, two sharing a name, one of them
exhausted (flag clear, still tracked) when `stop()` snapshots `[0, 1, 2]`; the first cancel step removes
sources 0 and 2 together -/
example :
    let pre := [Step.c, .k, .k, .k, .c, .c, .c, .c, .c, .t 0, .k, .k, .k, .c, .c, .k]
    let a := (sys tags).run (init 3 [(1, 4), (0, 5), (0, 4)] 3) pre
    let b := (sys tags).run a [.k]
    let s := (sys tags).run b [.k, .k, .k]
    a.k = .cancel [0, 1, 2] ∧ a.srcs.map (fun x => (x.flag, x.tracked, x.name)) = [(false, true, 4), (true, true, 5), (true, true, 4)] ∧
    b.k = .cancel [1, 2] ∧ b.srcs.map (fun x => (x.flag, x.tracked)) = [(false, false), (true, true), (false, false)] ∧
    s.stopReturned = true ∧ s.srcs.map (fun x => (x.flag, x.tracked)) = [(false, false), (false, false), (false, false)] := by
  decide

/-! ### 3. the thread has ended; no further run-to-completion step; no new source -/

/-- **C12-arm (thread ended).** If `stop()` has returned after `sched`, then after any continuation the
consumer thread has ended, no run-to-completion step ran after the return, the number of sources is the
same as at the return (no handler armed anything since) — in fact the whole state is unchanged. -/
theorem C12_arm_thread_ended (cap : Nat) (arms : List (Nat × Nat)) (nPosts : Nat)
    (sched later : List Step)
    (hret : ((sys tags).run (init cap arms nPosts) sched).stopReturned = true) :
    let s := (sys tags).run (init cap arms nPosts) sched
    let s' := (sys tags).run (init cap arms nPosts) (sched ++ later)
    s'.c = .fin ∧ s'.stepsAfterStop = 0 ∧ s'.srcs.length = s.srcs.length ∧ s' = s := by
  intro s s'
  have hinv := inv_reach cap arms nPosts sched
  have hs' : s' = s := by
    show (sys tags).run _ (sched ++ later) = _
    rw [System.run_append]
    exact run_of_returned hinv hret tags later
  rw [hs']
  exact ⟨(hinv.done (hinv.ret.mp hret)).1, hinv.ghost.1, rfl, rfl⟩

/-- … and at no reachable state (returned or not) has a run-to-completion step or a post been counted
as happening after the return, and `stopReturned` holds exactly when `K` is `done`. -/
theorem C12_arm_nothing_after_return (cap : Nat) (arms : List (Nat × Nat)) (nPosts : Nat)
    (sched : List Step) :
    let s := (sys tags).run (init cap arms nPosts) sched
    s.stepsAfterStop = 0 ∧ (∀ x ∈ s.srcs, x.postsAfterStop = 0) ∧ (s.stopReturned = true ↔ s.k = .done) := by
  intro s
  have hinv := inv_reach cap arms nPosts sched
  refine ⟨hinv.ghost.1, ?_, hinv.ret⟩
  intro x hx
  obtain ⟨i, hi⟩ := List.mem_iff_getElem?.mp hx
  exact hinv.ghost.2 i x hi

/-- non-vacuity of 3: the continuation contains consumer, client and timer entries; all are blocked -/
example :
    (sys tags).run (init 2 [(0, 7)] 1) (demoSched ++ [.t 0, .c, .k, .t 0]) =
      (sys tags).run (init 2 [(0, 7)] 1) demoSched ∧
    blockedCount tags (init 2 [(0, 7)] 1) (demoSched ++ [.t 0, .c, .k, .t 0]) = 4 := by decide

/-! ### 4. stop() returns under a fair schedule -/

/-- **C12-arm (progress).** From every reachable state the explicit schedule `fairSched s` — `K` up to
`join`, the consumer twice (finish the current step, see the cleared flag), `K` to the end; no timer
thread needs to be scheduled — makes `stop()` return; its length is the state measure `stopMeasure s`.
(That interleaved timer threads cannot prevent it is `C12_arm_stop_returns_fair` below.) -/
theorem C12_arm_stop_returns (cap : Nat) (arms : List (Nat × Nat)) (nPosts : Nat) (sched : List Step) :
    let s := (sys tags).run (init cap arms nPosts) sched
    ((sys tags).run s (fairSched s)).stopReturned = true ∧ (fairSched s).length = stopMeasure s := by
  intro s
  exact ⟨fairSched_returns (inv_reach cap arms nPosts sched), fairSched_length s⟩

/-- non-vacuity of 4: from a state where two for-ever sources are posting, the consumer is mid-loop and
`K` has not yet called `stop()`, the fair schedule (11 entries) returns -/
example :
    let s := (sys tags).run (init 2 [(0, 1), (0, 2)] 3) [.c, .k, .k, .c, .c, .c, .t 0, .t 1, .c, .t 0]
    s.stopReturned = false ∧ s.k = .post 1 ∧ s.c = .wait ∧ s.srcs.length = 2 ∧
    stopMeasure s = 11 ∧ ((sys tags).run s (fairSched s)).stopReturned = true := by decide

/-- **C12-arm (progress, any fair interleaving).** Timer threads and surplus wake-ups cannot starve
`stop()`: from every reachable state `s`, every schedule that consists of at least `rank s` blocks, each
block containing at least one client entry and one consumer entry together with any timer entries and
any surplus-wake-up entries (`w`) in any order, makes `stop()` return (`rank s` is a bound computed
from the state: client steps left + consumer steps left + number of sources that can still exist; a
`w` step moves the consumer from `wait` to `check`, which `rank` counts as progress, never as a step
back). -/
theorem C12_arm_stop_returns_fair (cap : Nat) (arms : List (Nat × Nat)) (nPosts : Nat)
    (sched : List Step) (blocks : List (List Step)) (hfair : ∀ b ∈ blocks, Step.k ∈ b ∧ Step.c ∈ b) :
    let s := (sys tags).run (init cap arms nPosts) sched
    rank s ≤ blocks.length → ((sys tags).run s blocks.flatten).stopReturned = true := by
  intro s hl
  exact fair_blocks_return (inv_reach cap arms nPosts sched) blocks hfair hl

/-- non-vacuity of the fair-interleaving form: two for-ever sources post in every block (also after the
consumer has ended, until they are cancelled), 11 = `rank s` blocks `[t 0, c, t 1, k, t 0]` suffice -/
example :
    let s := (sys tags).run (init 2 [(0, 1), (0, 2)] 3) [.c, .k, .k, .c, .c, .c, .t 0, .t 1, .c, .t 0]
    let blocks := List.replicate 11 [Step.t 0, .c, .t 1, .k, .t 0]
    rank s = 11 ∧ (∀ b ∈ blocks, Step.k ∈ b ∧ Step.c ∈ b) ∧
    ((sys tags).run s blocks.flatten).stopReturned = true ∧
    ((sys tags).run s blocks.flatten).srcs.map (·.posts) = [13, 8] := by decide

/-- non-vacuity of the fair-interleaving form with surplus wake-ups: every block starts and ends with a
`w` entry; three of them are taken (the consumer spins `wait → check → wait` on the empty queue while
`K` has not cleared the flag; the third leaves it at the loop test just after the flag was cleared, where
it ends without seeing STOP), the others find the consumer not waiting and are skipped -/
example :
    let s := (sys tags).run (init 2 [] 0) [.c]
    let blocks := List.replicate 8 [Step.w, .c, .k, .w]
    rank s = 8 ∧ (∀ b ∈ blocks, Step.k ∈ b ∧ Step.c ∈ b) ∧
    ((sys tags).run s blocks.flatten).stopReturned = true ∧
    blockedCount tags s blocks.flatten = 21 := by decide

/-- **surplus wake-up (new behaviour).** Source 0 is armed and the consumer waits on the empty queue;
`stop()` clears the run flag (`stopClear` done, `k = stopAppend`); the consumer's `queue.wait()` returns
on a surplus token (`w`), it goes back to its loop test, finds the flag cleared and ends without ever
seeing STOP; a timer tick posted afterwards stays in the queue, unprocessed, in front of STOP; `stop()`
still returns with the source cancelled, and nothing moves afterwards. -/
example :
    let a := (sys tags).run (init 2 [(0, 7)] 1) [.c, .k, .c, .c, .k, .k]
    let b := (sys tags).run a [.w, .c]
    let d := (sys tags).run b [.t 0, .k, .k, .k, .k]
    a.k = .stopAppend ∧ a.c = .wait ∧ a.q = [] ∧ a.runFlag = false ∧ (sys tags).step a .c = none ∧
    b.c = .fin ∧ b.q = [] ∧ b.k = .stopAppend ∧
    d.stopReturned = true ∧ d.q = [.tick 0, .stop] ∧ d.stepsAfterStop = 0 ∧
    d.srcs.map (fun x => (x.flag, x.tracked, x.posts, x.postsAfterStop)) = [(false, false, 1, 0)] ∧
    (sys tags).run d [.w, .c, .t 0, .k] = d := by decide

/-- the two scheduling points of `stop()` (`run_flag.clear()`, then `queue.append(STOP)`): (a) a timer
post between them lands in front of STOP; (b) the consumer, at its loop test, sees the cleared flag and
ends before STOP is in the queue; (c) the consumer, waiting on an empty queue, stays blocked until STOP
is appended, then sees STOP and ends.  `stop()` returns in all three. -/
example :
    let a := (sys tags).run (init 2 [(0, 7)] 1) [.c, .k, .c, .c, .k, .k, .t 0, .k]
    let a' := (sys tags).run a [.c, .c, .k, .k, .k]
    let b := (sys tags).run (init 2 [] 0) [.k, .k, .c]
    let b' := (sys tags).run b [.k, .k, .k]
    let c := (sys tags).run (init 2 [] 0) [.c, .k, .k]
    let c' := (sys tags).run c [.k, .c, .c, .k, .k]
    a.k = .join ∧ a.q = [.tick 0, .stop] ∧ a'.stopReturned = true ∧ a'.q = [.stop] ∧
    b.k = .stopAppend ∧ b.c = .fin ∧ b.q = [] ∧ b'.stopReturned = true ∧ b'.q = [.stop] ∧
    c.k = .stopAppend ∧ c.c = .wait ∧ c.q = [] ∧ c.runFlag = false ∧ (sys tags).step c .c = none ∧
    c'.stopReturned = true ∧ c'.c = .fin := by decide

/-! ### 5. the early snapshot misses a source armed during stop() -/

/-- **Witness (snapshot taken before `run_flag.clear()`).** Tag `snapshotAfterJoin = false`: source 0
(name 1) is armed and the consumer is waiting again; `K` runs `stop()` up to `join` (the early snapshot
is `[0]`); the second ARM handler then arms a for-ever source 1 with another name (2); the consumer
ends; `stop()` joins, cancels the snapshot (source 0, by name 1) and returns — with source 1 still
running (`flag = true`, still tracked), and its timer thread posts afterwards (`postsAfterStop = 1`). -/
theorem C12_arm_witness_early_snapshot :
    let a := (sys ⟨false⟩).run (init 3 [(0, 1), (0, 2)] 2) [.c, .k, .k, .c, .c, .k, .k, .k]
    let b := (sys ⟨false⟩).run a [.c, .c, .k, .k, .k]
    let d := (sys ⟨false⟩).run b [.t 1]
    a.k = .join ∧ a.runFlag = false ∧ a.srcs.length = 1 ∧ a.snapEarly = [0] ∧
    b.stopReturned = true ∧ b.c = .fin ∧ b.srcs.map (fun x => (x.flag, x.tracked)) = [(false, false), (true, true)] ∧
    d.srcs.map (·.postsAfterStop) = [0, 1] ∧ d.q = [.stop, .tick 1] := by decide

/-- the same schedule with both sources sharing the signal name: cancellation by name happens to catch
the late source too (the early snapshot is harmless only by this coincidence) -/
example :
    let b := (sys ⟨false⟩).run (init 3 [(0, 1), (0, 1)] 2) [.c, .k, .k, .c, .c, .k, .k, .k, .c, .c, .k, .k, .k]
    b.stopReturned = true ∧ b.srcs.map (fun x => (x.flag, x.tracked)) = [(false, false), (false, false)] := by
  decide

/-- and the simplest form of the witness: an empty early snapshot -/
example :
    let b := (sys ⟨false⟩).run (init 2 [(0, 7)] 1) [.c, .k, .k, .k, .k, .c, .c, .k, .k]
    let d := (sys ⟨false⟩).run b [.t 0]
    b.stopReturned = true ∧ b.srcs.map (·.flag) = [true] ∧ d.srcs.map (·.postsAfterStop) = [1] := by decide

end Miros.Props.C12Arm
