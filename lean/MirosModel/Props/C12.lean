import MirosModel.Conc.AOStop
import MirosModel.Conc.AOEx
import MirosModel.Gen.Constants
/-!
# C12 — after stop() returns the thread has ended and every timed source is cancelled

"After stop() returns in another thread, the active object's thread has ended, no further
run-to-completion step of that object runs, and every timed source it started has been cancelled
and posts nothing more, while other active objects and the fabric keep running."

Model: `Miros.Conc.AO` (`MirosModel/Conc/AO.lean`), tags `Miros.Gen.aoTags`.  `stop()` by client
`j` (thread `300 + j`) is: the call step (clear the run flag `ld.runFlag`), the `LockingDeque` post
of the STOP event (`.stopPost`), `join` (`.stopJoin`, enabled only when the consumer thread has
ended, `ld.cpc = .fin`; the same step runs the searches of `cancel_events` for every tracked entry),
then one lock step per selected source; the call has returned when the client has fewer remaining
calls.  `ld.dispatched` is the list of events handed to run-to-completion steps.  The model has one
active object; of "the fabric keeps running" it shows that no client or timer step touches the
fabric flag.
-/
namespace Miros.Props.C12
open Miros.Queue Miros.Conc Miros.Conc.LD Miros.Conc.AO

/-- **C12 (join waits for the thread's end).** The `join` step of `stop()` can be taken only when the
consumer thread has left its loop. -/
theorem C12_join_needs_finished_consumer (c : Config) (s s' : AO.State) (j : Nat) (hj : j < 700) (cl : Client)
    (lbl : String) (hcl : s.clients[j]? = some cl) (hpc : cl.pc = .stopJoin)
    (h : AO.stepL Miros.Gen.aoTags c s (300 + j) = some (s', lbl)) : s.ld.cpc = .fin := by
  rw [stepL_client _ _ _ _ hj] at h
  obtain ⟨cl0, cl', ld', timers', order', hcl0, hs, rfl⟩ :=
    clientStep_cases (g := Miros.Gen.aoTags) (by decide) (by decide) h
  rw [hcl] at hcl0; cases hcl0
  cases hs with
  | stopJoin call rest hpc0 hc hfin => exact hfin
  | _ => rw [hpc] at *; simp_all

/-- **C12 (no further run-to-completion step).** Once the consumer thread has ended, no step of any thread
revives it or dispatches an event: after every schedule it is still ended and `dispatched` is the same. -/
theorem C12_finished_consumer_stays (c : Config) (s : AO.State) (hfin : s.ld.cpc = .fin) (sched : List Nat) :
    ((AO.sys Miros.Gen.aoTags c).run s sched).ld.cpc = .fin ∧
    ((AO.sys Miros.Gen.aoTags c).run s sched).ld.dispatched = s.ld.dispatched := by
  refine (AO.sys Miros.Gen.aoTags c).inv_run (fun s' => s'.ld.cpc = .fin ∧ s'.ld.dispatched = s.ld.dispatched)
    ?_ sched s ⟨hfin, rfl⟩
  intro s1 t s2 h1 hs
  obtain ⟨lbl, hst⟩ := sys_step_iff.mp hs
  have := (step_ld_fields (g := Miros.Gen.aoTags) (by decide) (by decide) hst).1 h1.1
  exact ⟨this.1, this.2.trans h1.2⟩

/-- … and the finished consumer thread itself (thread 0) has no step at all -/
theorem C12_finished_consumer_disabled (c : Config) (s : AO.State) (hfin : s.ld.cpc = .fin) :
    AO.stepL Miros.Gen.aoTags c s 0 = none := by
  simp [AO.stepL, LD.stepL, consumerStep_fin c s.ld hfin]

/-- **C12 (the consumer ends on STOP / on the cleared flag).** Consumer thread, one primitive each: peeking
the STOP event clears the run flag and skips the dispatch (`d` = `task_done`); `task_done` leads
back to the loop test; the loop test with the flag clear ends the thread. -/
theorem C12_consumer_stops_on_STOP (c : Config) (ld : LD.State) :
    (∀ e rest, ld.cpc = .p → ld.dq = e :: rest → e.sig = c.stopSig →
      ∃ lbl, consumerStep c ld = some ({ ld with runFlag := false, cpc := .d }, lbl)) ∧
    (ld.cpc = .d → ∃ ld' lbl, consumerStep c ld = some (ld', lbl) ∧ ld'.cpc = .t ∧ ld'.runFlag = ld.runFlag ∧
      ld'.dispatched = ld.dispatched) ∧
    (ld.cpc = .t → ld.runFlag = false → consumerStep c ld = some ({ ld with cpc := .fin }, "run.is_set=0")) := by
  refine ⟨?_, ?_, ?_⟩
  · intro e rest hp hd he
    simp [consumerStep, hp, hd, he]
  · intro hd
    unfold consumerStep
    rw [hd]
    by_cases hu : ld.unfinished = 0 <;> simp [hu]
  · intro ht hf
    simp [consumerStep, ht, hf]

/-- **C12 (the run flag).** The call step of `stop()` clears the active object's run flag (and starts the post
of the STOP event, a fifo post); … -/
theorem C12_run_flag_cleared (c : Config) (s : AO.State) (j : Nat) (hj : j < 700) (cl : Client) (rest : List Call)
    (hcl : s.clients[j]? = some cl) (hpc : cl.pc = .call) (hc : cl.calls = .stop :: rest) :
    ∃ s', AO.stepL Miros.Gen.aoTags c s (300 + j) = some (s', "call.stop") ∧
      s'.ld = { s.ld with runFlag := false } ∧ s'.timers = s.timers ∧ s'.order = s.order ∧
      s'.clients[j]? = some { cl with pc := .stopPost,
                                      post := ⟨[(.fifo, ⟨c.stopSig, s.stopUid⟩)], startPc c.alg .fifo, 0⟩ } := by
  have hs := CStep.sound (g := Miros.Gen.aoTags) (c := c) (by decide) (by decide) hcl (CStep.stop rest hpc hc)
  rw [← stepL_client _ _ _ _ hj] at hs
  exact ⟨_, hs, rfl, rfl, rfl, getElem?_set_self' hcl⟩

/-- … and no step of any thread ever sets it again. -/
theorem C12_run_flag_stays_cleared (c : Config) (s : AO.State) (hf : s.ld.runFlag = false) (sched : List Nat) :
    ((AO.sys Miros.Gen.aoTags c).run s sched).ld.runFlag = false := by
  refine (AO.sys Miros.Gen.aoTags c).inv_run (fun s' => s'.ld.runFlag = false) ?_ sched s hf
  intro s1 t s2 h1 hs
  obtain ⟨lbl, hst⟩ := sys_step_iff.mp hs
  exact (step_ld_fields (g := Miros.Gen.aoTags) (by decide) (by decide) hst).2.1 h1

/-- **C12 (stop selects every tracked source).** In every reachable state the `join` step of `stop()` puts
every tracked source on the client's list of locks to take (`pending` has exactly the entries of
`posted_events_queue`), empties that queue and touches no timer yet. -/
theorem C12_stop_cancels_all (c : Config) (progs : List (List (Kind × Ev))) (clients : List (List Call))
    (maxTimers : Nat) (sched : List Nat) (j : Nat) (hj : j < 700) (cl : Client) (call : Call) (rest : List Call) :
    let s := (AO.sys Miros.Gen.aoTags c).run (AO.init c progs clients maxTimers) sched
    s.clients[j]? = some cl → cl.pc = .stopJoin → cl.calls = call :: rest → s.ld.cpc = .fin →
    ∃ s' pending, AO.stepL Miros.Gen.aoTags c s (300 + j) = some (s', "thread.join") ∧
      pending.Perm s.order ∧ s'.order = [] ∧ s'.timers = s.timers ∧ s'.ld = s.ld ∧
      s'.clients[j]? = some (if pending = [] then { cl with calls := rest, pc := .call }
                             else { cl with pc := .cancelLock pending }) := by
  intro s hcl hpc hc hfin
  have hI : Inv s := Inv.run (by decide) (by decide) sched _ (Inv.init c progs clients maxTimers)
  have hs := CStep.sound (g := Miros.Gen.aoTags) (c := c) (by decide) (by decide) hcl
    (CStep.stopJoin call rest hpc hc hfin)
  rw [← stepL_client _ _ _ _ hj] at hs
  obtain ⟨h2, h1⟩ := stopSel_all hI
  refine ⟨_, (stopSel s).1, hs, h1, h2, rfl, rfl, ?_⟩
  simp only [getElem?_set_self' hcl, afterSelect_eq_ite]
  by_cases hm : (stopSel s).1 = [] <;> simp [hm, finishCall, hc]

/-- **C12 (after stop() returns).** Take a reachable state in which client `j` is at the `join` of `stop()` and
the consumer thread has ended, let the client take the `join` step, and then any schedule `sched2`.
In the state reached, if the call has returned (the client has fewer remaining calls): the consumer
thread has ended and — for every further continuation `sched3` — stays ended and dispatches nothing
more; and every source that was tracked at the `join` has its run flag clear, is outside a post and
never places an event again. -/
theorem C12_after_stop_returns (c : Config) (progs : List (List (Kind × Ev))) (clients : List (List Call))
    (maxTimers : Nat) (sched sched2 : List Nat) (j : Nat) (hj : j < 700) (cl cl2 : Client) :
    let s := (AO.sys Miros.Gen.aoTags c).run (AO.init c progs clients maxTimers) sched
    let s2 := (AO.sys Miros.Gen.aoTags c).run s ((300 + j) :: sched2)
    s.clients[j]? = some cl → cl.pc = .stopJoin → cl.calls ≠ [] → s.ld.cpc = .fin →
    s2.clients[j]? = some cl2 → cl2.calls.length < cl.calls.length →
    (∀ sched3, ((AO.sys Miros.Gen.aoTags c).run s2 sched3).ld.cpc = .fin ∧
               ((AO.sys Miros.Gen.aoTags c).run s2 sched3).ld.dispatched = s.ld.dispatched) ∧
    (∀ i ∈ s.order, ∃ tm, s2.timers[i]? = some tm ∧ tm.flag = false ∧ tm.pc ≠ .p ∧
      ∀ sched3, ∃ tm', ((AO.sys Miros.Gen.aoTags c).run s2 sched3).timers[i]? = some tm' ∧
        tm'.flag = false ∧ tm'.pc ≠ .p ∧ tm'.placedAt = tm.placedAt) := by
  intro s s2 hcl hpc hne hfin hcl2 hlen
  have hI : Inv s := Inv.run (by decide) (by decide) sched _ (Inv.init c progs clients maxTimers)
  obtain ⟨call, rest, hc⟩ : ∃ call rest, cl.calls = call :: rest := by
    cases hx : cl.calls with
    | nil => exact absurd hx hne
    | cons a l => exact ⟨a, l, rfl⟩
  obtain ⟨s', pending, hst, hperm, _, _, _, hcl'⟩ :=
    C12_stop_cancels_all c progs clients maxTimers sched j hj cl call rest hcl hpc hc hfin
  have hs2 : s2 = (AO.sys Miros.Gen.aoTags c).run s' sched2 := run_cons_some sched2 hst
  have hI' : Inv s' := hI.step (by decide) (by decide) hst
  constructor
  · intro sched3
    have h2 := C12_finished_consumer_stays c s hfin (((300 + j) :: sched2) ++ sched3)
    rw [run_append] at h2
    exact h2
  · intro i hi
    have hip : i ∈ pending := hperm.symm.subset hi
    have hpne : pending ≠ [] := by intro h; rw [h] at hip; simp at hip
    simp only [hpne, if_false] at hcl'
    rw [hs2] at hcl2 ⊢
    obtain ⟨tm, htm, hf, hp⟩ :=
      cancel_completes (g := Miros.Gen.aoTags) (c := c) (by decide) (by decide) s' hI' j _ pending hcl' rfl sched2 cl2
        hcl2 (by simpa using hlen) i hip
    exact ⟨tm, htm, hf, hp, fun sched3 =>
      QuietAt.run (g := Miros.Gen.aoTags) (c := c) (by decide) (by decide) sched3 _ ⟨tm, htm, hf, hp, rfl⟩⟩

/-- **C12 (the fabric is left alone).** No step of a client or of a timer thread (thread ids from 200) touches
the fabric flag, the consumer's program counter or the list of dispatched events. -/
theorem C12_stop_leaves_fabric_flag (c : Config) (s s' : AO.State) (tid : Nat) (lbl : String) (ht : 200 ≤ tid)
    (h : AO.stepL Miros.Gen.aoTags c s tid = some (s', lbl)) :
    s'.ld.fabFlag = s.ld.fabFlag ∧ s'.ld.cpc = s.ld.cpc ∧ s'.ld.dispatched = s.ld.dispatched :=
  (step_ld_fields (g := Miros.Gen.aoTags) (by decide) (by decide) h).2.2 ht

/-! ### non-vacuity: two sources for ever, then `stop()` (`Miros.Conc.AO.Ex`) -/
open Miros.Conc.AO.Ex

example : exCfg.alg = Miros.Gen.ldAlg ∧ 0 < exCfg.cap := by decide
/-- the client posts STOP and waits at `join`: the step is skipped while the consumer runs -/
example :
    let prog : List (List Call) := [[.timed .fifo 5 3 0 true, .timed .lifo 6 2 0 true, .stop]]
    let s := runEx Miros.Gen.aoTags prog 4 [300, 300, 200, 201, 300, 300, 300, 300, 300, 300, 300]
    cview s = [(1, .stopJoin)] ∧ s.ld.cpc = .t ∧ s.ld.runFlag = false ∧ s.ld.dq = [⟨8, 800000⟩] ∧
    tview s = [(true, .s, []), (true, .s, [])] := by decide
/-- the consumer sees the cleared flag and ends; `join` returns, both sources are cancelled one lock at a
time; they wake up later and end without posting -/
example :
    let prog : List (List Call) := [[.timed .fifo 5 3 0 true, .timed .lifo 6 2 0 true, .stop]]
    let s := runEx Miros.Gen.aoTags prog 4
      [300, 300, 200, 201, 300, 300, 300, 300, 300, 300, 300, 0, 300, 300, 300, 1000, 200, 201, 200, 201]
    cview s = [(0, .call)] ∧ s.ld.cpc = .fin ∧ s.ld.dispatched = [] ∧ view s = ([[1, 2]], 2, [], [false, false]) ∧
    tview s = [(false, .s, []), (false, .fin, [])] := by decide

end Miros.Props.C12
