import MirosModel.Queue.Lemmas
import MirosModel.Gen.Constants
/-!
# C15 — defer and recall

"A deferred event is not dispatched until recalled; each recall moves the oldest deferred event
to the back of the queue and returns it, and returns None and posts nothing when nothing is
deferred. Deferred events keep their deferral order."

Model: `Miros.Queue` (`deferEv`, `recall`, `applyEff`), faithful to `HsmWithQueues.defer` /
`recall` (both queues are `deque(maxlen = cap)`). The order statements carry the explicit
hypothesis that the defer queue does not overflow; `C15_witness_defer_overflow` shows what
happens without it.
-/
namespace Miros.Props.C15
open Miros.Hsm Miros.Queue

/-! ### recall -/

/-- **C15 (recall).** `recall()` returns the oldest deferred event, removes it from the defer
queue and posts it fifo: it is the last element of the queue afterwards, and when the queue is
not full the queue is exactly the old one with the event appended. -/
theorem C15_recall_oldest (s : QState) (e : Ev) (rest : List Ev) (hc : 0 < s.cap) (hd : s.dq = e :: rest) :
    (recall s).2 = some e ∧ (recall s).1.dq = rest ∧ (recall s).1.q.getLast? = some e ∧
    (s.q.length < s.cap → (recall s).1.q = s.q ++ [e]) ∧
    (recall s).1.dispatched = s.dispatched := by
  unfold recall
  rw [hd]
  refine ⟨rfl, rfl, ?_, ?_, rfl⟩
  · exact pushBack_getLast s.cap s.q e hc
  · intro h; exact pushBack_not_full s.cap s.q e h

/-- **C15 (recall, nothing deferred).** `recall()` returns None and changes nothing. -/
theorem C15_recall_empty (s : QState) (hd : s.dq = []) : recall s = (s, none) := by
  unfold recall
  rw [hd]

/-- a recalled event is the very object that was deferred (same signal, same identity), and the
remaining deferred events keep their order: recalling twice yields the two oldest in order -/
theorem C15_recall_twice_in_order (s : QState) (e1 e2 : Ev) (rest : List Ev) (hd : s.dq = e1 :: e2 :: rest) :
    (recall s).2 = some e1 ∧ (recall (recall s).1).2 = some e2 ∧ (recall (recall s).1).1.dq = rest := by
  have h1 : (recall s).1.dq = e2 :: rest := by unfold recall; rw [hd]; rfl
  refine ⟨by unfold recall; rw [hd], ?_, ?_⟩
  · generalize recall s = p at h1
    unfold recall; rw [h1]
  · generalize recall s = p at h1
    unfold recall; rw [h1]; rfl

/-! ### a deferred event is not dispatched -/

/-- **C15 (not dispatched).** A deferred event is neither pending nor already dispatched, so the
event `next_rtc` dispatches (the head of the queue) is a different object from every deferred
event, and after the step — even if a handler recalled it during the step — the deferred event
is still not in the dispatch record. -/
theorem C15_deferred_not_dispatched (qc : QChart) (g : Cfg) (s : QState) (hi : Inv s) (e : Ev) (he : e ∈ s.dq) :
    e ∉ s.q ∧ e ∉ s.dispatched ∧
    (∀ s1 log, nextRtc qc g s = .stepped s1 log →
      ∃ h rest, s.q = h :: rest ∧ s1.dispatched = s.dispatched ++ [h] ∧ h ≠ e ∧ h.uid ≠ e.uid ∧
        e ∉ s1.dispatched) := by
  obtain ⟨hq, hd, _⟩ := hi.shielded_of_deferred e he
  obtain ⟨_, _, _, _, _, hQK⟩ := hi.uids
  refine ⟨hq, hd, ?_⟩
  intro s1 log hstep
  obtain ⟨h, rest, r, hsq, _, _, hs1⟩ := nextRtc_stepped qc g s s1 log hstep
  have hdisp : s1.dispatched = s.dispatched ++ [h] := by rw [hs1]; simp
  have hne : h.uid ≠ e.uid := hQK h (by rw [hsq]; simp) e he
  have hne' : h ≠ e := fun heq => hne (by rw [heq])
  refine ⟨h, rest, hsq, hdisp, hne', hne, ?_⟩
  rw [hdisp]
  simp only [List.mem_append, List.mem_singleton, not_or]
  exact ⟨hd, fun heq => hne' heq.symm⟩

/-- **C15 (not dispatched until recalled).** As long as nobody calls `recall()` — no client
operation is a recall and no handler of the chart recalls — a deferred event is never dispatched,
whatever else happens (posts, further defers, any number of steps, even queue overflow). -/
theorem C15_not_dispatched_without_recall (qc : QChart) (g : Cfg) (s s1 : QState) (ops : List Op)
    (hi : Inv s) (hqc : NoHandlerRecall qc) (hops : Op.recall ∉ ops)
    (h : runOps qc g s ops = some s1) :
    ∀ e ∈ s.dq, e ∉ s1.dispatched ∧ e ∉ s1.q := by
  intro e he
  obtain ⟨h1, h2, _⟩ := Shielded.runOps qc g hqc ops hops (hi.shielded_of_deferred e he) h
  exact ⟨h2, h1⟩

/-! ### deferral order -/

/-- **C15 (defer appends).** `defer(Event(sg))` puts the new event object behind all events
deferred earlier (no overflow of the defer queue); queue and dispatch record are untouched. -/
theorem C15_defer_appends (s : QState) (sg : Nat) (hlt : s.dq.length < s.cap) :
    (applyEff s (.defer sg)).dq = s.dq ++ [⟨sg, s.next⟩] ∧
    (applyEff s (.defer sg)).q = s.q ∧ (applyEff s (.defer sg)).dispatched = s.dispatched :=
  ⟨pushBack_not_full s.cap s.dq _ hlt, rfl, rfl⟩

/-- **C15 (only recall removes).** No operation other than `recall` removes or reorders deferred
events, provided the defer queue does not overflow. -/
theorem C15_only_recall_removes (s : QState) (eff : Eff) (hr : eff ≠ .recall) (hlt : s.dq.length < s.cap) :
    s.dq <+: (applyEff s eff).dq :=
  applyEff_dq_prefix s eff hr hlt

/-- **C15 (order kept over any sequence).** Any sequence of queue operations without a recall,
short enough not to overflow the defer queue, leaves the events deferred before it at the front of
the defer queue in their original order (so later recalls return them first, oldest first). -/
theorem C15_order_kept (s : QState) (l : List Eff) (hl : Eff.recall ∉ l)
    (h : s.dq.length + l.length ≤ s.cap) : s.dq <+: (l.foldl applyEff s).dq :=
  foldEff_dq_prefix l hl s h

/-- popping and dispatching the front event (before the handlers' own operations) does not touch
the defer queue either -/
theorem C15_step_keeps_deferred (qc : QChart) (g : Cfg) (s s1 : QState) (log : Log)
    (h : nextRtc qc g s = .stepped s1 log) :
    ∃ s0, s0.dq = s.dq ∧ s0.cap = s.cap ∧ s1 = applyLog qc s0 log := by
  obtain ⟨e, rest, r, _, _, hl, hs⟩ := nextRtc_stepped qc g s s1 log h
  subst hl
  exact ⟨{ s with q := rest, dispatched := s.dispatched ++ [e], cur := r.state }, rfl, rfl, hs⟩

/-- **C15 (overflow witness).** Without the no-overflow hypothesis the statement is false: the
defer queue is a `deque(maxlen)`, and deferring into a full one silently drops the oldest
deferred event (it can then never be recalled). -/
theorem C15_witness_defer_overflow :
    let s : QState := { cap := 2, q := [], dq := [⟨3, 0⟩, ⟨2, 1⟩], cur := [1], next := 2, dispatched := [] }
    Inv s ∧ (applyEff s (.defer 0)).dq = [⟨2, 1⟩, ⟨0, 2⟩] ∧ (⟨3, 0⟩ : Ev) ∉ (applyEff s (.defer 0)).dq ∧
    ¬ s.dq <+: (applyEff s (.defer 0)).dq := by
  refine ⟨⟨by decide, by decide, by decide, by decide, by decide⟩, by decide, by decide, by decide⟩

/-! ### non-vacuity -/
open Miros.Queue.Ex

example : Inv sDef := ⟨by decide, by decide, by decide, by decide, by decide⟩
example : (recall sDef).2 = some ⟨3, 1⟩ ∧ (recall sDef).1.dq = [⟨2, 2⟩] ∧
    (recall sDef).1.q = [⟨5, 0⟩, ⟨3, 1⟩] := by decide
example : (recall s0).2 = none ∧ (recall s0).1.q = s0.q := by decide
example : (applyEff sDef (.defer 9)).dq = [⟨3, 1⟩, ⟨2, 2⟩, ⟨9, 3⟩] := by decide
example : NoHandlerRecall { qc0 with eff := fun _ _ => [.defer 1, .fifo 2] } := by
  intro st sig; simp
/-- deferred 3 and 2 stay deferred while 5 is dispatched; a handler-driven recall (signal 4)
then moves the oldest (3) to the back of the queue -/
example : (runOps qc0 Miros.Gen.cfg sDef [.nextRtc, .postFifo 4, .nextRtc]).map
    (fun s => (s.dispatched.map Ev.sig, s.q, s.dq)) = some ([5, 4], [⟨3, 1⟩], [⟨2, 2⟩]) := by decide

end Miros.Props.C15
