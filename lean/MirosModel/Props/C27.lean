import MirosModel.Conc.TsaSerial
import MirosModel.Conc.SmallMeasure
import MirosModel.Gen.Constants
/-!
# C27 — thread-safe attributes: no error, no deadlock, serialisable

"For an attribute declared in _attributes, any interleaving of threads that read it, assign it, or
update it with an augmented assignment completes without error or deadlock, and the final value
equals that of some serial execution of the same statements."

Model: `Miros.Conc.Tsa` (`MirosModel/Conc/Small.lean`): `ThreadSafeAttribute.__get__/__set__`, one
step per access to the lock / flag / value; statements `read`, `assign v`, `aug d` (`o.x += d`).
`Miros.Gen.tsaFlagPerThread = true`: the current source (`_is_atomic` is per thread); `false`: the
earlier code (one flag shared by all threads). Any number of threads, any programs without
`misread` (`NoMisread progs`; `misread` is a read on a line that the library's classifier takes for
an augmented assignment — the lock is then never released, see `C27_misread_keeps_lock`; that
defect is the subject of C28), any schedule.

Serial semantics: `applyStmt v st` (read: `v`; `assign w`: `w`; `aug d`: `v + d`).
A history `h : List (Nat × Stmt)` lists `(thread, statement)`; `serialValue v0 h` runs it serially;
`IsInterleaving h progs`: every entry belongs to a thread and the entries of thread `i` are program
`i` in program order; `serialResults progs v0 r`: `r` is the final value of some such `h`.
`histOf b s sched` records each statement at the step where it takes effect (`setWrite` for
`assign`/`aug`, `getClassify` for `read`); `pending t`: the statements of `t` not yet in effect.
-/
namespace Miros.Props.C27
open Miros.Conc Miros.Conc.Tsa

theorem tsaFlagPerThread_true : Miros.Gen.tsaFlagPerThread = true := by decide

/-- **C27 (no error).** In every reachable state no `RuntimeError` (release of a lock not owned) has
occurred; the inductive invariant `Tsa.Inv` holds (the threads inside a get-to-set section, at
`setWrite`/`setRelease` or at `getClassify` are exactly the lock owner; the recursion count is `0`
or `1`; a thread's flag is `false` exactly between the get and the write of its own `aug`). -/
theorem C27_no_error (v0 : Int) (progs : List (List Stmt)) (hp : NoMisread progs) (sched : List Nat) :
    let s := (sys Miros.Gen.tsaFlagPerThread).run (init v0 progs) sched
    s.err = false ∧ Inv s := by
  rw [tsaFlagPerThread_true]
  intro s
  have hI : Inv s := Inv.run v0 progs hp sched
  exact ⟨hI.noErr, hI⟩

/-- **C27 (no deadlock, the lock is free at the end).** In a reachable state in which no thread can
move, every thread has run all its statements and the lock is free. -/
theorem C27_lock_free_at_end (v0 : Int) (progs : List (List Stmt)) (hp : NoMisread progs)
    (sched : List Nat)
    (hq : (sys Miros.Gen.tsaFlagPerThread).Quiescent
      ((sys Miros.Gen.tsaFlagPerThread).run (init v0 progs) sched)) :
    let s := (sys Miros.Gen.tsaFlagPerThread).run (init v0 progs) sched
    (∀ t ∈ s.threads, t.stmts = []) ∧ s.owner = none ∧ s.count = 0 ∧ s.err = false := by
  rw [tsaFlagPerThread_true] at hq ⊢
  intro s
  have hI : Inv s := Inv.run v0 progs hp sched
  obtain ⟨h1, h2, h3⟩ := quiescent_done hI hq
  refine ⟨?_, h2, h3, hI.noErr⟩
  intro t ht
  obtain ⟨i, hi, rfl⟩ := List.getElem_of_mem ht
  exact h1 i _ (List.getElem?_eq_getElem hi)

/-- **C27 (completes: no livelock).** Every schedule makes at most six effective steps per
statement, so there is no infinite execution; from every reachable state some continuation reaches a
state in which no thread can move (where `C27_lock_free_at_end` and `C27_serializable` apply). -/
theorem C27_terminates (v0 : Int) (progs : List (List Stmt)) (sched : List Nat) :
    (sys Miros.Gen.tsaFlagPerThread).effective (init v0 progs) sched
      ≤ 6 * (progs.map List.length).sum ∧
    ∃ more, (sys Miros.Gen.tsaFlagPerThread).Quiescent
      ((sys Miros.Gen.tsaFlagPerThread).run (init v0 progs) (sched ++ more)) := by
  rw [tsaFlagPerThread_true]
  constructor
  · have := (sys true).terminates_of_measure (fun _ => True) measure
      (fun _ _ _ _ _ => trivial) (fun _ _ _ _ h => step_measure h) sched (init v0 progs) trivial
    exact Nat.le_trans this (measure_init v0 progs)
  · obtain ⟨more, h⟩ := (sys true).reaches_quiescence (fun _ => True) measure
      (fun _ _ _ _ _ => trivial) (fun _ _ _ _ h => step_measure h) _
      ((sys true).run (init v0 progs) sched) (Nat.le_refl _) trivial
    exact ⟨more, by rw [System.run_append]; exact h⟩

/-- **C27 (an augmented assignment is atomic: no lost update).** In every reachable state, when a
thread is about to write the result of `o.x += d`, the value it read is still the current value:
the step is enabled and writes `value + d`. -/
theorem C27_aug_is_atomic (v0 : Int) (progs : List (List Stmt)) (hp : NoMisread progs)
    (sched : List Nat) (i : Nat) (t : Thread) (d : Int) (rest : List Stmt) :
    let s := (sys Miros.Gen.tsaFlagPerThread).run (init v0 progs) sched
    s.threads[i]? = some t → t.stmts = .aug d :: rest → t.pc = .setWrite →
    t.tmp = s.value ∧ s.owner = some i ∧
    ∃ s', step Miros.Gen.tsaFlagPerThread s i = some s' ∧ s'.value = s.value + d := by
  rw [tsaFlagPerThread_true]
  intro s ht hst hpc
  have hI : Inv s := Inv.run v0 progs hp sched
  have hT := hI.thr i t ht
  have htmp : t.tmp = s.value := (hT.2.1 _ _ hst).2.2 rfl (Or.inr hpc)
  refine ⟨htmp, hT.1 ⟨by simp [hst], Or.inr (Or.inl hpc)⟩, ?_⟩
  simp [step, ht, hst, hpc, setFlag, htmp]

/-- **C27 (serialisable, at every moment).** After any schedule, the value is the result of running
serially the statements that have taken effect, in the order in which they took effect; these are,
thread by thread, a prefix of the thread's program in program order (the program is that prefix
followed by the thread's pending statements). -/
theorem C27_serializable_prefix (v0 : Int) (progs : List (List Stmt)) (hp : NoMisread progs)
    (sched : List Nat) :
    let s := (sys Miros.Gen.tsaFlagPerThread).run (init v0 progs) sched
    let h := histOf Miros.Gen.tsaFlagPerThread (init v0 progs) sched
    s.value = serialValue v0 h ∧ (∀ x ∈ h, x.1 < progs.length) ∧
    ∀ (i : Nat) (t : Thread) (p : List Stmt), s.threads[i]? = some t → progs[i]? = some p →
      p = proj h i ++ pending t := by
  rw [tsaFlagPerThread_true]
  intro s h
  have hJ := HInv.run v0 progs hp sched
  have hs : ((sysH true).run (init v0 progs, []) sched).1 = s := sysH_run_fst true sched _ _
  rw [← hs]
  exact ⟨hJ.value, hJ.bound, hJ.pre⟩

/-- **C27 (serialisable).** In a reachable state in which no thread can move (all statements have
run, by `C27_lock_free_at_end`), the final value is the final value of some serial execution of the
same statements: the recorded history is an interleaving of the programs at statement granularity
and running it serially from `v0` gives the value. -/
theorem C27_serializable (v0 : Int) (progs : List (List Stmt)) (hp : NoMisread progs)
    (sched : List Nat)
    (hq : (sys Miros.Gen.tsaFlagPerThread).Quiescent
      ((sys Miros.Gen.tsaFlagPerThread).run (init v0 progs) sched)) :
    let s := (sys Miros.Gen.tsaFlagPerThread).run (init v0 progs) sched
    let h := histOf Miros.Gen.tsaFlagPerThread (init v0 progs) sched
    IsInterleaving h progs ∧ s.value = serialValue v0 h ∧ serialResults progs v0 s.value := by
  rw [tsaFlagPerThread_true] at hq ⊢
  intro s h
  have hJ := HInv.run v0 progs hp sched
  have hs : ((sysH true).run (init v0 progs, []) sched).1 = s := sysH_run_fst true sched _ _
  have hdone := (quiescent_done (Inv.run v0 progs hp sched) hq).1
  have hint : IsInterleaving h progs := hJ.interleaving (by rw [hs]; exact hdone)
  have hv : s.value = serialValue v0 h := by rw [← hs]; exact hJ.value
  exact ⟨hint, hv, h, hint, hv⟩

/-- **C27 (witness, earlier code).** With one `_is_atomic` flag shared by all threads, thread 1's
`o.x = 5` sees the flag that thread 0's `o.x += 1` cleared, skips the acquire, writes without the
lock and then releases a lock it does not own: `RuntimeError`. -/
theorem C27_witness_shared_flag :
    let s := (sys false).run (init 0 [[.aug 1], [.assign 5]]) [0, 0, 1, 1, 1]
    s.err = true ∧ s.owner = some 0 := by
  decide

/-- **C27 (why `misread` is excluded).** A read on a line that the classifier takes for an
augmented assignment keeps the lock: the thread finishes with the lock held, and another thread's
read then waits for ever. -/
theorem C27_misread_keeps_lock :
    let s := (sys Miros.Gen.tsaFlagPerThread).run (init 0 [[.misread], [.read]]) [0, 0, 1]
    s.owner = some 0 ∧ s.count = 1 ∧ s.threads.map (·.stmts) = [[], [.read]] ∧
    step Miros.Gen.tsaFlagPerThread s 0 = none ∧ step Miros.Gen.tsaFlagPerThread s 1 = none := by
  decide

/-- non-vacuity: two threads run to the end; a schedule that interleaves the two augmented
assignments as far as the lock allows -/
example :
    let sched := [0, 1, 0, 0, 1, 0, 0, 1, 1, 1, 0, 0, 1, 1, 1, 1, 1]
    let s := (sys Miros.Gen.tsaFlagPerThread).run (init 0 [[.aug 1, .read], [.assign 5, .aug 2]]) sched
    s.threads.map (·.stmts) = [[], []] ∧ s.owner = none ∧ s.err = false ∧ s.value = 7 ∧
    histOf Miros.Gen.tsaFlagPerThread (init 0 [[.aug 1, .read], [.assign 5, .aug 2]]) sched
      = [(0, .aug 1), (1, .assign 5), (0, .read), (1, .aug 2)] := by
  decide

end Miros.Props.C27
