import MirosModel.Text.JsonCodecLemmas
import MirosModel.Props.C26
/-!
# C26 (codec) — CPython's JSON text codec gives the value back

"For every event whose payload is JSON-representable, Event.loads(Event.dumps(e)) has the same
signal name, an equal payload, and the signal number this process assigns to that name
(registering it if new)."

`MirosModel/Props/C26.lean` proves this for ANY codec with `dec (enc j) = some j` (a hypothesis).
Here the hypothesis is replaced by a model of the codec `Event.dumps` / `Event.loads` really use —
`json.dumps(d)` / `json.loads(s)` with the default options (`MirosModel/Text/JsonCodec.lean`,
lemmas in `MirosModel/Text/JsonCodecLemmas.lean`) — and a proof, for the JSON values without
floats: `null`, `true`/`false`, ints of any size, strings, lists, dicts with string keys, nested to
any depth.  Text is a list of code points (a Python `str` may hold surrogate code units).

Recorded finding (statements 4 and 5): the strings that survive are exactly those with no high
surrogate (0xD800–0xDBFF) immediately followed by a low surrogate (0xDC00–0xDFFF).  Such a pair is
written as `\ud83d\ude00` — the same text as the ONE code point U+1F600 — and read back as that one
code point: the string comes back shorter.  A lone surrogate survives.  A `List Char` (the strings
of `Text/Json.lean`) never holds a surrogate, so the event theorem (6) has no hypothesis on strings.

Outside the model: floats (`dec` answers `none` on a number with a fraction or an exponent and on
`NaN`/`Infinity`), the interpreter's recursion limit, the 4300-digit limit of `int` ↔ `str`.
-/
namespace Miros.Props.C26Codec
open Miros.Text.JsonCodec Miros.Text.Json

/-! ### 1. strings -/

/-- **C26 codec (string round trip).** A string with every code point ≤ 0x10FFFF and no high
surrogate immediately followed by a low surrogate: scanning its encoding gives the string back and
stops exactly after the closing quote, whatever text follows; in particular
`json.loads(json.dumps(s)) == s`. -/
theorem C26_codec_string_roundtrip (s : List Nat) (h : Good s) :
    (∀ rest, decStr (encStr s ++ rest) = some (s, rest)) ∧ dec (enc (.str s)) = some (.str s) :=
  ⟨fun rest => decStr_encStr_good s rest h, dec_enc (.str s) (by simpa [GoodV, goodV, Good] using h)⟩

/-- **C26 codec (what comes back, any string).** For every Python string (code points ≤ 0x10FFFF)
the string read back is `readBack s`: `s` with each high-surrogate/low-surrogate pair replaced by
the one code point of the pair. -/
theorem C26_codec_string_readback (s : List Nat) (h : inRange s = true) :
    (∀ rest, decStr (encStr s ++ rest) = some (readBack s, rest)) ∧
      dec (enc (.str s)) = some (.str (readBack s)) :=
  ⟨fun rest => decStr_encStr s rest h, dec_enc_str s h⟩

example : Good [0x41, 0xE9, 0x0A, 0x22, 0x5C, 0x1F600, 0xDE00, 0xD83D, 0x7F, 0] := by decide
example : decStr (encStr [0x41, 0xE9, 0xD83D] ++ [0x2C, 0x20]) = some ([0x41, 0xE9, 0xD83D], [0x2C, 0x20]) :=
  (C26_codec_string_roundtrip _ (by decide)).1 _

/-! ### 2. all values -/

/-- **C26 codec (round trip).** For every value whose strings and keys are `Good` (and whose
objects have pairwise distinct keys, as a Python dict has): `json.loads(json.dumps(v)) == v` — lists
and dicts of any depth and size, ints of any size.  This is the hypothesis `hcodec` of
`Props/C26.lean`, proved. -/
theorem C26_codec_roundtrip (v : V) (h : GoodV v) : dec (enc v) = some v := dec_enc v h

/-- **C26 codec (round trip, as a dict).** The members come back as written, and building the
Python dict from them (`normObj` at every level: the last value of a key wins) changes nothing,
because the keys are pairwise distinct. -/
theorem C26_codec_roundtrip_dict (v : V) (h : GoodV v) : (dec (enc v)).map normV = some v := by
  rw [dec_enc v h, Option.map_some, normV_good v h]

/-- **C26 codec (a value inside a text).** With fuel at least the nesting depth, `scan_once` on an
encoded value followed by any text that does not continue a number (`,` `]` `}` or the end) gives
the value and that text; the fuel `dec` supplies (the length of the text) is enough. -/
theorem C26_codec_value_prefix (v : V) (h : GoodV v) (fuel : Nat) (rest : List Nat) (hf : depth v ≤ fuel)
    (hr : numStop rest = true) :
    parseValue fuel (enc v ++ rest) = some (v, rest) ∧ depth v ≤ (enc v).length :=
  ⟨parseValue_enc v h fuel rest hf hr, depth_le_length v⟩

/-- `[-120, {"k": [null, true], "é": {}}, "\ud83d", []]`-like value: the hypothesis is met -/
example : GoodV (.arr [.int (-120), .obj [([0x6B], .arr [.null, .bool true]), ([0xE9], .obj [])],
    .str [0xD83D], .arr []]) := by decide

/-! ### 3. the wire text is ASCII -/

/-- **C26 codec (ASCII).** `json.dumps(v)` holds only the code points 0x20–0x7E, for every value
(whatever its strings hold). -/
theorem C26_codec_ascii (v : V) : ∀ c ∈ enc v, 0x20 ≤ c ∧ c ≤ 0x7E := enc_ascii v

/-! ### 4. the recorded finding -/

/-- **witness.** The Python string `"\ud83d\ude00"` (two code units) is written as `"\ud83d\ude00"`
and read back as the ONE code point U+1F600. -/
theorem C26_codec_witness_surrogate_pair :
    dec (enc (.str [0xD83D, 0xDE00])) = some (.str [0x1F600]) := by decide

/-- the two texts are the same text -/
theorem C26_codec_witness_same_text : enc (.str [0xD83D, 0xDE00]) = enc (.str [0x1F600]) := by decide

/-- a lone surrogate (not followed by a low one) survives, also in front of other characters and
of a high surrogate, and a low surrogate followed by a high one -/
theorem C26_codec_lone_surrogate_ok :
    Good [0xD83D] ∧ dec (enc (.str [0xD83D])) = some (.str [0xD83D]) ∧
    dec (enc (.str [0xD83D, 0x41, 0xD83D, 0xD83D, 0xE9])) = some (.str [0xD83D, 0x41, 0xD83D, 0xD83D, 0xE9]) ∧
    dec (enc (.str [0xDE00, 0xD83D])) = some (.str [0xDE00, 0xD83D]) :=
  ⟨by decide, (C26_codec_string_roundtrip _ (by decide)).2, (C26_codec_string_roundtrip _ (by decide)).2,
    (C26_codec_string_roundtrip _ (by decide)).2⟩

/-! ### 5. `Good` is exactly the set of strings that survive -/

/-- **C26 codec (a pair does not survive).** A Python string with a high surrogate immediately
followed by a low surrogate does not come back: what comes back is strictly shorter. -/
theorem C26_codec_not_good_fails (a b : List Nat) (c d : Nat) (hr : inRange (a ++ c :: d :: b) = true)
    (hc : isHigh c = true) (hd : isLow d = true) :
    dec (enc (.str (a ++ c :: d :: b))) ≠ some (.str (a ++ c :: d :: b)) ∧
    ∃ s', dec (enc (.str (a ++ c :: d :: b))) = some (.str s') ∧ s'.length < (a ++ c :: d :: b).length := by
  have hlt := readBack_pair_shorter a b c d hc hd
  rw [dec_enc_str _ hr]
  refine ⟨fun e => ?_, _, rfl, hlt⟩
  simp only [Option.some.injEq, V.str.injEq] at e
  rw [e] at hlt
  exact Nat.lt_irrefl _ hlt

/-- **C26 codec (exactly the good strings).** For a Python string (code points ≤ 0x10FFFF):
it survives `json.loads(json.dumps(s))` if and only if it is `Good`. -/
theorem C26_codec_string_iff (s : List Nat) (hr : inRange s = true) :
    dec (enc (.str s)) = some (.str s) ↔ Good s := by
  constructor
  · intro h
    rw [dec_enc_str s hr] at h
    simp only [Option.some.injEq, V.str.injEq] at h
    exact (Good_iff s).2 ⟨hr, readBack_eq_self s h⟩
  · intro h
    exact (C26_codec_string_roundtrip s h).2

example : ¬ Good [0x41, 0xD83D, 0xDE00] := by decide
example : dec (enc (.str [0x41, 0xD83D, 0xDE00, 0x42])) ≠ some (.str [0x41, 0xD83D, 0xDE00, 0x42]) :=
  (C26_codec_not_good_fails [0x41] [0x42] 0xD83D 0xDE00 (by decide) (by decide) (by decide)).1

/-! ### 6. the event round trip with this codec: no codec hypothesis left -/

/-- a string of `Char`s never holds a surrogate: it is `Good` -/
theorem C26_codec_chars_good (s : List Char) : Good (cps s) := good_cps s

/-- the codec on `J` (`encJ = enc ∘ toV`, `decJ = (dec ·).bind ofV`): every `J` whose objects have
pairwise distinct keys at every level comes back -/
theorem C26_codec_roundtrip_J (j : J) (h : keysDistinct j = true) : decJ (encJ j) = some j :=
  decJ_encJ j h

/-- **C26 (the codec drops out).** With the JSON codec, `loads` of the text of a dump is `loads` of
the dumped dictionary itself (the dictionary `Event.dumps` builds has two distinct keys) -/
theorem C26_event_loads_eq (d : Dict) (e : Ev) (h : keysDistinct e.payload = true) :
    loads decJ d (encJ (dumps e)) = loads (W := J) some d (dumps e) := by
  unfold loads
  rw [decJ_encJ (dumps e) (keysDistinct_dumps e h)]

/-- **C26 (round trip through the JSON text).** `e` was created in this process (registering its
name if new), its payload is a `J` whose objects have pairwise distinct keys at every level;
`Event.loads(Event.dumps(e))` — through `json.dumps` and `json.loads` as modelled — gives the same
name, the same payload, the same number, and leaves the registry as it is.  No hypothesis on the
codec, none on the strings. -/
theorem C26_event_roundtrip (d : Dict) (name : List Char) (payload : J) (hp : keysDistinct payload = true) :
    ∃ e', loads decJ (mkEvent d name payload).1 (encJ (dumps (mkEvent d name payload).2))
        = some ((mkEvent d name payload).1, e') ∧
      e'.name = (mkEvent d name payload).2.name ∧
      e'.payload = (mkEvent d name payload).2.payload ∧
      e'.number = (mkEvent d name payload).2.number ∧
      e' = (mkEvent d name payload).2 ∧ e'.name = name ∧ e'.payload = payload := by
  rw [C26_event_loads_eq _ _ (by exact hp)]
  exact Miros.Props.C26.C26_roundtrip (W := J) id some (fun _ => rfl) d name payload

/-- **C26 (number of this process, through the JSON text).** Whatever number the sender had for the
name: the loaded event carries the number this registry holds for the name (registering it at
`len + 1` if new), and no other name's number changes. -/
theorem C26_event_loads_number (d : Dict) (name : List Char) (k : Nat) (p : J) (hp : keysDistinct p = true) :
    ∃ d' e', loads decJ d (encJ (dumps ⟨name, k, p⟩)) = some (d', e') ∧
      e'.name = name ∧ e'.payload = p ∧ d' = d.append name ∧ d'.get name = some e'.number ∧
      e'.number = (d.get name).getD (d.length + 1) ∧
      (∀ other n, d.get other = some n → d'.get other = some n) := by
  rw [C26_event_loads_eq d ⟨name, k, p⟩ hp]
  exact Miros.Props.C26.C26_loads_number (W := J) id some (fun _ => rfl) d name k p

/-- the hypothesis is met: `{"a": [1, "é"], "b": {"a": null}}` -/
example : keysDistinct (.obj [("a".toList, .arr [.num 1, .str "é".toList]),
    ("b".toList, .obj [("a".toList, .null)])]) = true := by decide

/-- the hypothesis is needed: a `J` object with the same key twice is not a Python dict -/
example : keysDistinct (.obj [("a".toList, .null), ("a".toList, .num 1)]) = false := by decide

/-! ### 7. non-vacuity: a concrete text -/

/-- `{"signal_name": "A", "payload": [1, {"k": null}, "é\n"]}` -/
def sample : V :=
  .obj [(cps "signal_name".toList, .str [0x41]),
        (cps "payload".toList, .arr [.int 1, .obj [([0x6B], .null)], .str [0xE9, 0x0A]])]

/-- what `json.dumps` writes for it, as code points -/
def sampleText : List Nat :=
  [123, 34, 115, 105, 103, 110, 97, 108, 95, 110, 97, 109, 101, 34, 58, 32, 34, 65, 34, 44, 32, 34,
   112, 97, 121, 108, 111, 97, 100, 34, 58, 32, 91, 49, 44, 32, 123, 34, 107, 34, 58, 32, 110, 117,
   108, 108, 125, 44, 32, 34, 92, 117, 48, 48, 101, 57, 92, 110, 34, 93, 125]

/-- … which is this ASCII string -/
example : sampleText = cps "{\"signal_name\": \"A\", \"payload\": [1, {\"k\": null}, \"\\u00e9\\n\"]}".toList := by decide

example : enc sample = sampleText := by decide

example : dec sampleText = some sample := by decide

/-- the same text is what `Event.dumps` writes for the event `A` with that payload (the signal
number, 7 here, is not in it) -/
example : encJ (dumps ⟨"A".toList, 7, .arr [.num 1, .obj [("k".toList, .null)], .str "é\n".toList]⟩) = sampleText := by
  decide

/-- … and a receiver that has `A` registered as 2 reads it back with number 2 -/
example : ∃ d' e', loads decJ [("ENTRY_SIGNAL".toList, 1), ("A".toList, 2)] sampleText = some (d', e') ∧
    e'.name = "A".toList ∧ e'.number = 2 := by
  obtain ⟨d', e', h, hn, _, _, _, hk, _⟩ := C26_event_loads_number [("ENTRY_SIGNAL".toList, 1), ("A".toList, 2)]
    "A".toList 7 (.arr [.num 1, .obj [("k".toList, .null)], .str "é\n".toList]) (by decide)
  have e : encJ (dumps ⟨"A".toList, 7, .arr [.num 1, .obj [("k".toList, .null)], .str "é\n".toList]⟩) = sampleText := by
    decide
  rw [e] at h
  exact ⟨d', e', h, hn, hk⟩

/-- whitespace, `\/`, upper-case hex digits, a raw non-ASCII character, a duplicate key -/
def looseText : List Nat :=
  [32, 123, 32, 34, 97, 34, 32, 58, 32, 91, 32, 49, 32, 44, 9, 45, 50, 48, 32, 93, 32, 44, 10, 32,
   34, 98, 34, 58, 34, 92, 47, 92, 117, 48, 48, 69, 57, 233, 34, 44, 32, 34, 97, 34, 58, 32, 102,
   97, 108, 115, 101, 32, 125, 32]

example : looseText = cps " { \"a\" : [ 1 ,\t-20 ] ,\n \"b\":\"\\/\\u00E9é\", \"a\": false } ".toList := by decide

example : dec looseText = some (.obj [([0x61], .arr [.int 1, .int (-20)]), ([0x62], .str [0x2F, 0xE9, 0xE9]),
    ([0x61], .bool false)]) := by decide

example : (dec looseText).map normV = some (.obj [([0x61], .bool false), ([0x62], .str [0x2F, 0xE9, 0xE9])]) := by
  decide

/-- floats (`1.5`, `1e5`), trailing text (`1 2`, `01`), a control character in a string, a bad escape
(`"\x41"`), a high surrogate followed by a broken `\u` (`"\ud83d\u12"`), `[1,]`: `none` -/
example : dec [0x31, 0x2E, 0x35] = none ∧ dec [0x31, 0x65, 0x35] = none ∧ dec [0x31, 0x20, 0x32] = none ∧
    dec [0x30, 0x31] = none ∧ dec [0x22, 0x09, 0x22] = none ∧ dec [0x22, 0x5C, 0x78, 0x34, 0x31, 0x22] = none ∧
    dec [0x22, 0x5C, 0x75, 0x64, 0x38, 0x33, 0x64, 0x5C, 0x75, 0x31, 0x32, 0x22] = none ∧
    dec [0x5B, 0x31, 0x2C, 0x5D] = none := by decide

example : GoodV sample := by decide
example : dec (enc sample) = some sample := C26_codec_roundtrip sample (by decide)

end Miros.Props.C26Codec
