import MirosModel.Text.Json
/-!
# C26 — `Event.loads(Event.dumps(e))` gives back the event

"For every event whose payload is JSON-representable, Event.loads(Event.dumps(e)) has the same
signal name, an equal payload, and the signal number this process assigns to that name
(registering it if new)."

Model: `Miros.Text.Json` (`MirosModel/Text/Json.lean`, event.py 205-225, 271-326).  JSON values
are the inductive type `J`; CPython's `json` module is a parameter: any wire type `W`, encoder
`enc : J → W` and decoder `dec : W → Option J` with `dec (enc j) = some j` for every `j`
(the trusted part, exercised by the correspondence tests).  All statements hold for every
registry `d`, every name, every payload.
-/
namespace Miros.Props.C26
open Miros.Text.Json

/-- **C26 (round trip).** `e` was created in this process (registering its name if new); loading
its dump gives the same name, the same payload, the same number, and leaves the registry as it
is. -/
theorem C26_roundtrip {W : Type} (enc : J → W) (dec : W → Option J) (hcodec : ∀ j, dec (enc j) = some j)
    (d : Dict) (name : List Char) (payload : J) :
    ∃ e', loads dec (mkEvent d name payload).1 (enc (dumps (mkEvent d name payload).2))
        = some ((mkEvent d name payload).1, e') ∧
      e'.name = (mkEvent d name payload).2.name ∧
      e'.payload = (mkEvent d name payload).2.payload ∧
      e'.number = (mkEvent d name payload).2.number ∧
      e' = (mkEvent d name payload).2 ∧ e'.name = name ∧ e'.payload = payload := by
  rw [loads_dumps enc dec hcodec]
  have hk := Dict.get_append_self d name
  have e1 : (mkEvent d name payload).1 = d.append name := rfl
  have e2 : (mkEvent d name payload).2 = ⟨name, ((d.append name).get name).getD 0, payload⟩ := rfl
  rw [e1, e2]
  simp only
  rw [mkEvent_known (d.append name) name payload _ hk, hk]
  exact ⟨_, rfl, rfl, rfl, rfl, rfl, rfl, rfl⟩

/-- **C26 (number of this process).** Whatever number the sender had for the name (`k`: numbering
parity across processes is not assumed): the loaded event carries the number *this* registry holds
for the name — the old one if the name is known here, `len + 1` after registering it if it is new —
and no other name's number changes. -/
theorem C26_loads_number {W : Type} (enc : J → W) (dec : W → Option J) (hcodec : ∀ j, dec (enc j) = some j)
    (d : Dict) (name : List Char) (k : Nat) (p : J) :
    ∃ d' e', loads dec d (enc (dumps ⟨name, k, p⟩)) = some (d', e') ∧
      e'.name = name ∧ e'.payload = p ∧ d' = d.append name ∧ d'.get name = some e'.number ∧
      e'.number = (d.get name).getD (d.length + 1) ∧
      (∀ other n, d.get other = some n → d'.get other = some n) := by
  rw [loads_dumps enc dec hcodec]
  refine ⟨_, _, rfl, rfl, rfl, rfl, ?_, ?_, ?_⟩
  · simp only [Dict.get_append_self, Option.getD_some]
  · simp only [Dict.get_append_self, Option.getD_some]
  · intro other n h
    exact Dict.get_append_known d name other n h

/-- **C26 (known name).** the name is registered here with number `n`: the loaded event has number
`n`, the registry is unchanged -/
theorem C26_known_name {W : Type} (enc : J → W) (dec : W → Option J) (hcodec : ∀ j, dec (enc j) = some j)
    (d : Dict) (name : List Char) (k n : Nat) (p : J) (h : d.get name = some n) :
    loads dec d (enc (dumps ⟨name, k, p⟩)) = some (d, ⟨name, n, p⟩) := by
  rw [loads_dumps enc dec hcodec, mkEvent_known d name p n h]

/-- **C26 (new name).** the name is not registered here: loading registers it at the end of the
registry with number `len + 1`, whatever `k` was -/
theorem C26_new_name {W : Type} (enc : J → W) (dec : W → Option J) (hcodec : ∀ j, dec (enc j) = some j)
    (d : Dict) (name : List Char) (k : Nat) (p : J) (h : d.get name = none) :
    loads dec d (enc (dumps ⟨name, k, p⟩)) =
      some (d ++ [(name, d.length + 1)], ⟨name, d.length + 1, p⟩) := by
  rw [loads_dumps enc dec hcodec, mkEvent_new d name p h]

/-- registry facts used above -/
theorem C26_registry (d : Dict) (name : List Char) :
    (∃ n, (d.append name).get name = some n) ∧
    (d.append name).append name = d.append name ∧
    (∀ other n, d.get other = some n → (d.append name).get other = some n) ∧
    d <+: d.append name :=
  ⟨⟨_, Dict.get_append_self d name⟩, Dict.append_idem d name,
    fun other n h => Dict.get_append_known d name other n h, Dict.append_prefix d name⟩

/-! ### non-vacuity: the identity codec on `J` itself satisfies the hypothesis -/

example (d : Dict) (name : List Char) (k : Nat) (p : J) (h : d.get name = none) :
    loads (W := J) some d (dumps ⟨name, k, p⟩) =
      some (d ++ [(name, d.length + 1)], ⟨name, d.length + 1, p⟩) :=
  C26_new_name (W := J) id some (fun _ => rfl) d name k p h

/-- a registry with the ten built-in signals' worth of entries abbreviated to two; `Mary` is new -/
example : (mkEvent [("ENTRY_SIGNAL".toList, 1), ("EXIT_SIGNAL".toList, 2)] "Mary".toList
      (.arr [.num 1, .num 2, .num 3])).2.number = 3 := by decide

example : (mkEvent [("ENTRY_SIGNAL".toList, 1), ("Mary".toList, 2)] "Mary".toList .null).1 =
    [("ENTRY_SIGNAL".toList, 1), ("Mary".toList, 2)] := by decide

/-- sender numbered `Mary` 12, the receiver has it as 2 -/
example : ∃ e', loads (W := J) some [("ENTRY_SIGNAL".toList, 1), ("Mary".toList, 2)]
      (dumps ⟨"Mary".toList, 12, .obj [("a".toList, .bool true)]⟩) =
        some ([("ENTRY_SIGNAL".toList, 1), ("Mary".toList, 2)], e') ∧ e'.number = 2 :=
  ⟨_, C26_known_name (W := J) id some (fun _ => rfl) _ "Mary".toList 12 2 _ (by decide), rfl⟩

end Miros.Props.C26
