import MirosModel.Conc.TsaValueLemmas
import MirosModel.Gen.Constants
/-!
# C29 — thread-safe attributes are stored per instance

"Two instances of a class with thread-safe attributes hold independent values: assigning an
attribute on one instance never changes what another instance reads, and each new instance reads 0
until it is assigned."

Model: `Miros.Conc.Tsa.readValue` / `writeValue` (`MirosModel/Conc/Small.lean`), the storage behind
`ThreadSafeAttribute.__get__/__set__`; `Miros.Gen.tsaPerInstance = true`: the current source (a
table keyed by instance); `false`: the earlier code (one value on the descriptor). Operations
`Op.set inst v | Op.get inst`; `runOps` runs a list of them from a store and returns the final
store and the values read; `lastWrite inst hist`: the last value written to `inst` in `hist`, `0` if
none; `specReads hist ops`: what the reads of `ops` must return after history `hist`.
-/
namespace Miros.Props.C29
open Miros.Conc.Tsa

theorem tsaPerInstance_true : Miros.Gen.tsaPerInstance = true := by decide

/-- **C29 (a read returns the last write to that instance, `0` if there is none).** For every list
of operations from the empty store: every read in it returns the last value written before it to
the same instance, and a read after the whole list returns `lastWrite inst ops`. -/
theorem C29_reads_last_write (ops : List Op) :
    (runOps Miros.Gen.tsaPerInstance ([], 0) ops).2 = specReads [] ops ∧
    ∀ inst, (let st := (runOps Miros.Gen.tsaPerInstance ([], 0) ops).1
             readValue Miros.Gen.tsaPerInstance st.1 st.2 inst) = lastWrite inst ops := by
  rw [tsaPerInstance_true]
  refine ⟨reads_spec ops [], fun inst => ?_⟩
  have := read_after inst ops ([], 0)
  simpa [lastWrite, readValue] using this

/-- **C29 (a new instance reads 0 until it is assigned).** -/
theorem C29_new_instance_reads_zero (ops : List Op) (inst : Nat)
    (hnew : ∀ v, Op.set inst v ∉ ops) :
    (let st := (runOps Miros.Gen.tsaPerInstance ([], 0) ops).1
     readValue Miros.Gen.tsaPerInstance st.1 st.2 inst) = 0 := by
  rw [(C29_reads_last_write ops).2 inst]
  unfold lastWrite
  suffices h : ∀ (l : List Op) (a : Int), (∀ v, Op.set inst v ∉ l) →
      l.foldl (fun acc op => match op with
        | .set i v => if i = inst then v else acc
        | .get _ => acc) a = a from h ops 0 hnew
  intro l
  induction l with
  | nil => intro a _; rfl
  | cons op l ih =>
    intro a hl
    rw [List.foldl_cons]
    cases op with
    | get i => exact ih a fun v hv => hl v (List.mem_cons_of_mem _ hv)
    | set i v =>
      have : i ≠ inst := by
        rintro rfl
        exact hl v (by simp)
      simp only [this, if_false]
      exact ih a fun v hv => hl v (List.mem_cons_of_mem _ hv)

/-- **C29 (independence).** In any store, assigning the attribute on `inst₁` does not change what
another instance `inst₂` reads, and `inst₁` then reads the assigned value. -/
theorem C29_independent (vals : List (Nat × Int)) (shared : Int) (inst₁ inst₂ : Nat) (v : Int)
    (hne : inst₁ ≠ inst₂) :
    let st := writeValue Miros.Gen.tsaPerInstance vals shared inst₁ v
    readValue Miros.Gen.tsaPerInstance st.1 st.2 inst₂ =
      readValue Miros.Gen.tsaPerInstance vals shared inst₂ ∧
    readValue Miros.Gen.tsaPerInstance st.1 st.2 inst₁ = v := by
  rw [tsaPerInstance_true]
  exact ⟨read_write_other vals shared hne v, read_write_same vals shared inst₁ v⟩

/-- **C29 (witness, earlier code).** With one value on the descriptor, assigning instance 1 changes
what instance 2 reads. -/
theorem C29_witness_shared :
    (runOps false ([], 0) [.get 2, .set 1 5, .get 2]).2 = [0, 5] := by
  decide

/-- non-vacuity: the same operations with the current source -/
example : (runOps Miros.Gen.tsaPerInstance ([], 0) [.get 2, .set 1 5, .get 2, .get 1, .set 2 7, .get 2, .get 1]).2
    = [0, 0, 5, 7, 5] := by
  decide

end Miros.Props.C29
