import MirosModel.Conc.FabFaultLemmas
import MirosModel.Gen.Constants
/-!
# C13 (fault stream) — `start()` repairs dead delivery threads

"The active fabric runs at most one fifo and one lifo delivery thread at any time no matter how
often start() is called, and is_alive() reports whether they run. stop() ends both threads …, and a
later start() resumes delivery."

Here: a delivery thread may DIE at any time (an exception raised by a subscriber's `append` escapes
the thread function).  Model: `Miros.Conc.FabFault` (call granularity, one client thread), tag
`startChecksOwnThread := Miros.Gen.fabStartChecksOwnThread` (`initiate_thread` tests the thread
object's own `is_alive()`).  Every theorem quantifies over ALL op lists (any number of `start`,
`stop`, `die fifo`, `die lifo`, `isAlive` in any order), starting from the fresh fabric `init`.
-/
namespace Miros.Props.C13Fault
open Miros.Conc.FabFault

/-- the tags read off the current source -/
local notation "genTags" => Tags.mk Miros.Gen.fabStartChecksOwnThread

/-- the generated tag is the repaired one -/
theorem genTags_checks_own : (genTags).startChecksOwnThread = true := by decide

/-! ### 1. at most one thread per kind, no zombies -/

/-- **C13-fault (at most one).** After any op list: at most one live fifo thread and at most one
live lifo thread, the thread ids in `live` are pairwise distinct, and every live thread is the one
its kind's handle refers to (there is no thread that no handle refers to). -/
theorem C13_fault_at_most_one_thread (ops : List Op) :
    let s := run genTags init ops
    countKind s .fifo ≤ 1 ∧ countKind s .lifo ≤ 1 ∧ s.live.Nodup ∧
    ∀ k i, (k, i) ∈ s.live → s.handle k = some i := by
  intro s
  have h : Inv s := Inv_run genTags_checks_own ops init Inv_init
  exact ⟨h.countKind_le_one _, h.countKind_le_one _, h.nodup, h.owned⟩

/-- non-vacuity: a run with deaths and repeated starts in which both kinds do have their one thread -/
example :
    let s := run genTags init [.start, .die .fifo, .start, .start, .die .lifo, .start]
    countKind s .fifo = 1 ∧ countKind s .lifo = 1 ∧ s.handle .fifo = some 2 ∧ s.handle .lifo = some 3 := by
  decide

/-! ### 2. start repairs -/

/-- **C13-fault (start repairs).** After any op list followed by `start`: exactly one live thread
of each kind, the flag is up, `is_alive()` would return true (and both kinds do have a live thread),
and every thread that was alive before the `start` is still alive under the same id with its
kind's handle still referring to it (`start` does not replace live threads). -/
theorem C13_fault_start_repairs (ops : List Op) :
    let s := run genTags init ops
    let s' := run genTags init (ops ++ [.start])
    countKind s' .fifo = 1 ∧ countKind s' .lifo = 1 ∧ s'.flag = true ∧
    fabricAlive s' = true ∧ bothLive s' = true ∧
    ∀ k i, (k, i) ∈ s.live → (k, i) ∈ s'.live ∧ s'.handle k = some i := by
  intro s s'
  have h : Inv s := Inv_run genTags_checks_own ops init Inv_init
  have hs' : s' = doStart genTags s := by
    show run genTags init (ops ++ [.start]) = _
    rw [run_snoc, step_of_Inv _ h]
  have h' : Inv s' := hs' ▸ Inv_doStart genTags_checks_own h
  obtain ⟨hF, hL⟩ := doStart_alive genTags_checks_own s
  rw [← hs'] at hF hL
  have hcF := h'.countKind_le_one .fifo
  have hcL := h'.countKind_le_one .lifo
  have hpF : 0 < countKind s' .fifo := by simpa [h'.handleAlive_eq_count] using hF
  have hpL : 0 < countKind s' .lifo := by simpa [h'.handleAlive_eq_count] using hL
  have hfa : fabricAlive s' = true := by simp [fabricAlive, hF, hL]
  refine ⟨by omega, by omega, hs' ▸ flag_doStart _ _, hfa, h'.fabricAlive_eq_bothLive ▸ hfa, ?_⟩
  intro k i hm
  have hm' : (k, i) ∈ s'.live := hs' ▸ live_sub_doStart genTags s _ hm
  exact ⟨hm', h'.owned k i hm'⟩

/-- non-vacuity: the lifo thread has died; `start` creates a new lifo thread (id 2) and keeps the live
fifo thread 0 -/
example :
    let s := run genTags init [.start, .die .lifo]
    let s' := run genTags init ([.start, .die .lifo] ++ [.start])
    s.live = [(.fifo, 0)] ∧ fabricAlive s = false ∧ s'.live = [(.fifo, 0), (.lifo, 2)] ∧
      s'.handle .fifo = some 0 := by
  decide

/-! ### 3. stop returns -/

/-- **C13-fault (stop never hangs).** After any op list `stuck = false`: no `stop()` call was ever
in the situation where its `join` might not return. -/
theorem C13_fault_never_stuck (ops : List Op) : (run genTags init ops).stuck = false :=
  (Inv_run genTags_checks_own ops init Inv_init).notStuck

/-- **C13-fault (stop returns).** `stuck = false` always; after any op list followed by `stop`: no
live delivery thread is left, the flag is down and `is_alive()` would return false. -/
theorem C13_fault_stop_returns (ops : List Op) :
    (run genTags init ops).stuck = false ∧
    let s' := run genTags init (ops ++ [.stop])
    s'.stuck = false ∧ s'.live = [] ∧ s'.flag = false ∧ fabricAlive s' = false ∧ bothLive s' = false := by
  refine ⟨C13_fault_never_stuck ops, ?_⟩
  intro s'
  have h : Inv (run genTags init ops) := Inv_run genTags_checks_own ops init Inv_init
  have hs' : s' = doStop (run genTags init ops) := by
    show run genTags init (ops ++ [.stop]) = _
    rw [run_snoc, step_of_Inv _ h]
  have hl : s'.live = [] := hs' ▸ live_doStop h
  refine ⟨C13_fault_never_stuck _, hl, hs' ▸ flag_doStop h, fabricAlive_of_live_nil hl, ?_⟩
  simp [bothLive, hl]

/-- non-vacuity: a `stop` that really has two threads to end, after a repair -/
example :
    let s := run genTags init [.start, .die .fifo, .start]
    let s' := run genTags init ([.start, .die .fifo, .start] ++ [.stop])
    s.live = [(.lifo, 1), (.fifo, 2)] ∧ s.flag = true ∧ s'.live = [] ∧ s'.stuck = false := by
  decide

/-! ### 4. is_alive is exact -/

/-- **C13-fault (is_alive, one call).** In the state reached by any op list an `isAlive` records
exactly "both kinds have a live thread" (equivalently: one live fifo and one live lifo thread) and
changes nothing else. -/
theorem C13_fault_isAlive_step (ops : List Op) :
    let s := run genTags init ops
    run genTags init (ops ++ [.isAlive]) =
      { s with results := s.results ++ [bothLive s] } ∧
    bothLive s = decide (countKind s .fifo = 1 ∧ countKind s .lifo = 1) := by
  intro s
  have h : Inv s := Inv_run genTags_checks_own ops init Inv_init
  refine ⟨?_, ?_⟩
  · show run genTags init (ops ++ [.isAlive]) = _
    rw [run_snoc, step_of_Inv _ h]
    simp only [doIsAlive, h.fabricAlive_eq_bothLive]
  · have hF := h.countKind_le_one .fifo
    have hL := h.countKind_le_one .lifo
    rw [bothLive_eq_count]
    apply decide_eq_decide.2
    omega

/-- **C13-fault (is_alive exact).** For every op list the recorded `is_alive()` results are, in
order, for each `isAlive` in the list: whether both kinds had a live thread at that point
(`expectedResults` recomputes this from `live` alone, ignoring the handles). -/
theorem C13_fault_isAlive_exact (ops : List Op) :
    (run genTags init ops).results = expectedResults genTags init ops := by
  have := results_run genTags_checks_own ops init Inv_init
  simpa [init] using this

/-- non-vacuity: answers false (nothing started), true, false (fifo died), true (repaired), false (stopped) -/
example :
    (run genTags init
      [.isAlive, .start, .isAlive, .die .fifo, .isAlive, .start, .isAlive, .stop, .isAlive]).results =
      [false, true, false, true, false] := by
  decide

/-! ### 5. witness: the whole-fabric check -/

/-- **Witness.** With `initiate_thread` testing the whole fabric's `is_alive()`: after
`start(); <lifo thread dies>; start()` there are two live fifo threads (the old one, 0, is a zombie:
the handle refers to thread 2), and a following `stop()` can not return. -/
theorem C13_fault_witness_whole_fabric_check :
    let s := run ⟨false⟩ init [.start, .die .lifo, .start]
    countKind s .fifo = 2 ∧ s.live = [(.fifo, 0), (.fifo, 2), (.lifo, 3)] ∧ s.hF = some 2 ∧
    (run ⟨false⟩ init [.start, .die .lifo, .start, .stop]).stuck = true := by
  decide

/-- the same op list with the repaired tag: one thread per kind, `stop` returns -/
example :
    let s := run ⟨true⟩ init [.start, .die .lifo, .start]
    countKind s .fifo = 1 ∧ s.live = [(.fifo, 0), (.lifo, 2)] ∧
    (run ⟨true⟩ init [.start, .die .lifo, .start, .stop]).stuck = false := by
  decide

end Miros.Props.C13Fault
