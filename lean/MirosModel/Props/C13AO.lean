import MirosModel.Conc.LockingDeque
import MirosModel.Gen.Constants
/-!
# C13 (clause "stop() … halts every active object at its next wake-up")

`ActiveFabric.stop()` clears the shared fabric run event.  In the active-object model
(`Miros.Conc.LD`, consumer loop `run_event`) the event is `fabFlag`: a consumer that wakes up (has
taken a token, pc `f`) and finds it cleared clears its own run flag, acknowledges the token and
leaves its loop — without dispatching anything.
-/
namespace Miros.Props.C13
open Miros.Conc.LD

/-- at its next wake-up the consumer of a stopped fabric clears its run flag and skips the step -/
theorem C13_halts_active_objects_wakeup (c : Config) (s : State) (h : s.cpc = .f) (hf : s.fabFlag = false) :
    ∃ s', consumerStep c s = some (s', "fab.is_set=0") ∧ s'.runFlag = false ∧ s'.cpc = .d ∧
      s'.dispatched = s.dispatched ∧ s'.dq = s.dq := by
  simp [consumerStep, h, hf]

/-- after acknowledging the token it tests its run flag … -/
theorem C13_halts_active_objects_ack (c : Config) (s : State) (h : s.cpc = .d) (hu : s.unfinished ≠ 0) :
    ∃ s', consumerStep c s = some (s', "tok.task_done") ∧ s'.cpc = .t ∧ s'.runFlag = s.runFlag ∧
      s'.dispatched = s.dispatched := by
  simp [consumerStep, h, hu]

/-- … and leaves the loop: the thread ends, and a finished consumer never steps again -/
theorem C13_halts_active_objects_exit (c : Config) (s : State) (h : s.cpc = .t) (hr : s.runFlag = false) :
    ∃ s', consumerStep c s = some (s', "run.is_set=0") ∧ s'.cpc = .fin ∧ s'.dispatched = s.dispatched ∧
      consumerStep c s' = none := by
  simp [consumerStep, h, hr]

/-- while the fabric runs the same wake-up goes on to the queue -/
example (c : Config) (s : State) (h : s.cpc = .f) (hf : s.fabFlag = true) :
    ∃ s', consumerStep c s = some (s', "fab.is_set=1") ∧ s'.cpc = .n := by
  simp [consumerStep, h, hf]

end Miros.Props.C13
