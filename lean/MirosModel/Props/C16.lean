import MirosModel.Queue.Lemmas
import MirosModel.Gen.Constants
/-!
# C16 (queued-chart part) — the queue is bounded and posting never blocks

"A chart's pending-event queue never holds more than its capacity, and posting to a full queue
never blocks: a fifo post keeps the new event at the back and a lifo post keeps the new event at
the front."

Model: `Miros.Queue`; both queues are `collections.deque(maxlen = cap)` (`pushBack` = `append`
drops the left end when full, `pushFront` = `appendleft` drops the right end when full).
The capacity of the current source tree is `Miros.Gen.queueCap`.
-/
namespace Miros.Props.C16
open Miros.Hsm Miros.Queue

/-! ### bounded -/

/-- **C16 (bounded).** However a fresh chart is driven (client posts, defers, recalls, steps with
handlers posting on their own), neither queue ever holds more than `cap` events. -/
theorem C16_bounded (qc : QChart) (g : Cfg) (cap : Nat) (cur : St) (ops : List Op) (s1 : QState)
    (hc : 0 < cap) (h : runOps qc g (init cap cur) ops = some s1) :
    s1.cap = cap ∧ s1.q.length ≤ cap ∧ s1.dq.length ≤ cap := by
  have hi : Inv s1 := Inv.runOps qc g ops (Inv.init cap cur hc) h
  have hc1 : s1.cap = cap := runOps_cap qc g ops _ s1 h
  exact ⟨hc1, hc1 ▸ hi.q_le, hc1 ▸ hi.dq_le⟩

/-- the same from any state satisfying the invariant, one operation at a time -/
theorem C16_bounded_step (qc : QChart) (g : Cfg) (s s1 : QState) (o : Op) (hi : Inv s)
    (h : stepOp qc g s o = some s1) : s1.q.length ≤ s1.cap ∧ s1.dq.length ≤ s1.cap :=
  ⟨(hi.stepOp qc g o h).q_le, (hi.stepOp qc g o h).dq_le⟩

/-- … also in the middle of a step, after any prefix of the handlers' own operations -/
theorem C16_bounded_during_step (qc : QChart) (s : QState) (log : Log) (hi : Inv s) :
    (applyLog qc s log).q.length ≤ s.cap ∧ (applyLog qc s log).dq.length ≤ s.cap := by
  have h := hi.applyLog qc log
  have hc : (applyLog qc s log).cap = s.cap := by simp
  exact ⟨hc ▸ h.q_le, hc ▸ h.dq_le⟩

/-- **C16 (bounded, current source tree).** `QUEUE_SIZE` and the processor switches as generated. -/
theorem C16_bounded_queueCap (qc : QChart) (cur : St) (ops : List Op) (s1 : QState)
    (h : runOps qc Miros.Gen.cfg (init Miros.Gen.queueCap cur) ops = some s1) :
    s1.q.length ≤ Miros.Gen.queueCap ∧ s1.dq.length ≤ Miros.Gen.queueCap :=
  (C16_bounded qc Miros.Gen.cfg Miros.Gen.queueCap cur ops s1 (by decide) h).2

/-! ### posting to a full queue -/

/-- **C16 (full, fifo).** A fifo post to a full queue succeeds, the length stays `cap`, the new
event is at the back, and the event dropped is the old front. -/
theorem C16_full_fifo_keeps_new_at_back (s : QState) (sg : Nat) (hc : 0 < s.cap) (hfull : s.q.length = s.cap) :
    (applyEff s (.fifo sg)).q.length = s.cap ∧
    (applyEff s (.fifo sg)).q.getLast? = some ⟨sg, s.next⟩ ∧
    (applyEff s (.fifo sg)).q = s.q.tail ++ [⟨sg, s.next⟩] :=
  ⟨pushBack_length_full s.cap s.q _ hc hfull,
   pushBack_getLast s.cap s.q _ hc,
   pushBack_full s.cap s.q _ hc hfull⟩

/-- **C16 (full, lifo).** A lifo post to a full queue succeeds, the length stays `cap`, the new
event is at the front, and the event dropped is the old back. -/
theorem C16_full_lifo_keeps_new_at_front (s : QState) (sg : Nat) (hc : 0 < s.cap) (hfull : s.q.length = s.cap) :
    (applyEff s (.lifo sg)).q.length = s.cap ∧
    (applyEff s (.lifo sg)).q.head? = some ⟨sg, s.next⟩ ∧
    (applyEff s (.lifo sg)).q = ⟨sg, s.next⟩ :: s.q.dropLast :=
  ⟨pushFront_length_full s.cap s.q _ hc hfull,
   pushFront_head s.cap s.q _ hc,
   pushFront_full s.cap s.q _ hc hfull⟩

/-- the same for an arbitrary event object (covers the fifo post done by `recall`) -/
theorem C16_full_post_ev (s : QState) (e : Ev) (hc : 0 < s.cap) (hfull : s.q.length = s.cap) :
    (postFifo s e).q = s.q.tail ++ [e] ∧ (postLifo s e).q = e :: s.q.dropLast :=
  ⟨pushBack_full s.cap s.q e hc hfull, pushFront_full s.cap s.q e hc hfull⟩

/-- **C16 (never blocks).** Every client operation other than a step is a total function of the
state: it returns, whatever the fill level of the queues. (Only `next_rtc` can fail, namely when
the dispatched handler code raises or loops.) -/
theorem C16_post_total (qc : QChart) (g : Cfg) :
    ∀ (s : QState) (o : Op), o ≠ .nextRtc → ∃ s1, stepOp qc g s o = some s1 := by
  intro s o ho
  cases o with
  | postFifo sg => exact ⟨_, rfl⟩
  | postLifo sg => exact ⟨_, rfl⟩
  | defer sg => exact ⟨_, rfl⟩
  | recall => exact ⟨_, rfl⟩
  | nextRtc => exact absurd rfl ho

/-! ### non-vacuity -/
open Miros.Queue.Ex

example : Inv sFull ∧ sFull.q.length = sFull.cap ∧ 0 < sFull.cap :=
  ⟨⟨by decide, by decide, by decide, by decide, by decide⟩, by decide, by decide⟩
example : (applyEff sFull (.fifo 9)).q = [⟨6, 2⟩, ⟨9, 5⟩] := by decide
example : (applyEff sFull (.lifo 9)).q = [⟨9, 5⟩, ⟨5, 1⟩] := by decide
/-- a handler posting twice (signal 7: fifo 9 then lifo 8) into a queue of capacity 2 -/
example : (runOps qc0 Miros.Gen.cfg (init 2 [1]) [.postFifo 5, .postFifo 7, .postFifo 6, .nextRtc]).map
    (fun s => (s.dispatched, s.q)) = some ([⟨7, 1⟩], [⟨8, 4⟩, ⟨6, 2⟩]) := by decide

end Miros.Props.C16
