import MirosModel.Gen.Constants
/-!
# C09 — a lifo delivery racing direct posts onto the same queue

"When an active object subscribes with queue_type='lifo', each delivered event is placed at the front of its pending-event
queue (as post_lifo would) …"  The sequential statement is `Props/C09.lean`.  Here the delivery thread and other posters act on
the object's queue at the same time.  In the current source a lifo delivery to an active object is ONE queue operation
(`appendleft`, tag `lifoDeliver = .appendleftForAO`), a direct `post_fifo` is one `append`: whatever the interleaving, the
deliveries end up in front of everything (newest first) and the posts at the back (oldest first).

The variant a seeded change introduced — "if the queue is empty use `append`, front and back are the same place" — splits the
delivery into a test and an operation: a post landing in between ends up IN FRONT of the delivered event (`witness_test_then_append`).
-/
namespace Miros.Props.C09Race

/-- one atomic operation on the pending-event queue (front = head of the list) -/
inductive Op
  | deliverLifo (x : Nat)     -- the fabric's lifo thread: `q.appendleft(x)`
  | postFifo (x : Nat)        -- any other thread: `q.append(x)`
  | postLifo (x : Nat)        -- any other thread: `q.appendleft(x)`
deriving DecidableEq, Repr

def step (q : List Nat) : Op → List Nat
  | .deliverLifo x => x :: q
  | .postFifo x => q ++ [x]
  | .postLifo x => x :: q

def run (q : List Nat) (ops : List Op) : List Nat := ops.foldl step q

/-- what went to the front, newest first -/
def fronts : List Op → List Nat
  | [] => []
  | .deliverLifo x :: r => fronts r ++ [x]
  | .postLifo x :: r => fronts r ++ [x]
  | .postFifo _ :: r => fronts r

/-- what went to the back, oldest first -/
def backs : List Op → List Nat
  | [] => []
  | .postFifo x :: r => x :: backs r
  | _ :: r => backs r

/-- **C09 (every interleaving).** Any sequence of atomic front / back operations — i.e. any interleaving of the delivery thread
with any number of posters — leaves the queue as: everything placed at the front, newest first, then what was there, then
everything placed at the back, oldest first. -/
theorem C09_race_layout (q : List Nat) (ops : List Op) : run q ops = fronts ops ++ q ++ backs ops := by
  induction ops generalizing q with
  | nil => simp [run, fronts, backs]
  | cons o r ih =>
    unfold run at ih ⊢
    rw [List.foldl_cons, ih]
    cases o <;> simp [step, fronts, backs]

/-- corollary: a delivered event is in front of every event a fifo post put in the queue, however the two threads interleave -/
theorem C09_race_delivery_before_posts (ops : List Op) (x y : Nat) (hx : Op.deliverLifo x ∈ ops) (hy : Op.postFifo y ∈ ops) :
    ∃ a b c, run [] ops = a ++ x :: b ++ y :: c := by
  rw [C09_race_layout]
  have h1 : ∀ ops : List Op, Op.deliverLifo x ∈ ops → x ∈ fronts ops := by
    intro ops
    induction ops with
    | nil => intro h; cases h
    | cons o r ih =>
      intro h
      rcases List.mem_cons.mp h with h | h
      · subst h; simp [fronts]
      · have := ih h
        cases o <;> simp [fronts, this]
  have h2 : ∀ ops : List Op, Op.postFifo y ∈ ops → y ∈ backs ops := by
    intro ops
    induction ops with
    | nil => intro h; cases h
    | cons o r ih =>
      intro h
      rcases List.mem_cons.mp h with h | h
      · subst h; simp [backs]
      · have := ih h
        cases o <;> simp [backs, this]
  have h1 := h1 ops hx
  have h2 := h2 ops hy
  obtain ⟨a, b, ha⟩ := List.append_of_mem h1
  obtain ⟨c, d, hc⟩ := List.append_of_mem h2
  exact ⟨a, b ++ c, d, by simp [ha, hc]⟩

/-! ### the test-then-append variant -/

/-- the variant's delivery: first look whether the queue is empty, later act on what was seen -/
inductive Op2
  | look                      -- delivery thread: `empty := (len q == 0)`
  | act (x : Nat)             -- delivery thread: `append` if it saw an empty queue, `appendleft` otherwise
  | postFifo (x : Nat)
deriving DecidableEq, Repr

def step2 (s : List Nat × Bool) : Op2 → List Nat × Bool
  | .look => (s.1, s.1.isEmpty)
  | .act x => (if s.2 then s.1 ++ [x] else x :: s.1, s.2)
  | .postFifo x => (s.1 ++ [x], s.2)

/-- **witness.** The delivery looks (empty), a post lands, the delivery appends: the posted event 7 is in front of the delivered 1. -/
theorem witness_test_then_append : ([.look, .postFifo 7, .act 1] : List Op2).foldl step2 ([], false) = ([7, 1], true) := by decide

/-- the same three actions with the delivery as one operation: the delivered event is in front in both orders -/
example : run [] [.postFifo 7, .deliverLifo 1] = [1, 7] ∧ run [] [.deliverLifo 1, .postFifo 7] = [1, 7] := by decide

/-- non-vacuity: two deliveries, a lifo post and two fifo posts interleaved -/
example : run [5] [.postFifo 7, .deliverLifo 1, .postLifo 9, .postFifo 8, .deliverLifo 2] = [2, 9, 1, 5, 7, 8] := by decide

/-- the current source delivers to an active object with one `appendleft` -/
theorem delivery_is_one_operation_in_source : Miros.Gen.fabTags.lifoDeliver = .appendleftForAO := by decide

end Miros.Props.C09Race
