import MirosModel.Text.StripLemmas
import MirosModel.Gen.Constants
/-!
# C32 — `stripped()` removes timestamps, blank lines and surrounding whitespace

"stripped() turns a multi-line trace into its non-empty lines without their leading timestamp, so
two traces compare equal after stripping exactly when they differ only in timestamps, blank lines
or whitespace around lines; a single line is stripped the same way."

Model: `Miros.Text.stripped` (`MirosModel/Text/Strip.lean`, hsm.py 1608-1670) with the switch
`Miros.Gen.singleLineStripped` generated from the current source (the single-line branch strips
the line before matching).  A trace line is `TraceLine ts b = "[" ++ ts ++ "] " ++ b` with a
timestamp `Ts ts` (non-empty, characters of the class `[0-9-:. ]`) and a body `Body b` (non-empty,
no line break inside, no whitespace at either end); `Pad p`: whitespace without line breaks.
A log is a list of `Piece`s — blank (whitespace-only, possibly empty) lines and padded trace
lines — joined by `'\n'` (`logOf`); an empty first / last piece is a leading / trailing `'\n'`.
-/
namespace Miros.Props.C32
open Miros.Text

/-- the pattern of `item_without_timestamp` is the one `matchTs` was written for -/
theorem C32_pattern_pinned : Miros.Gen.stripPattern = "[ ]{0,}\\[[0-9-:. ]+\\] (.+)$" := by decide

/-- **C32 (match).** The pattern matches a trace line after any number of leading blanks and
captures exactly the body. -/
theorem C32_match (k : Nat) (ts b : List Char) (hts : Ts ts) (hb : Body b) :
    matchTs (List.replicate k ' ' ++ TraceLine ts b) = some b :=
  matchTs_traceLine k ts b hts hb

/-- **C32 (item).** A line with whitespace around it: `strip` removes the padding (any whitespace,
line breaks included), the pattern then removes the timestamp. -/
theorem C32_item (pad1 ts b pad2 : List Char) (h1 : ∀ c ∈ pad1, isSpace c = true)
    (h2 : ∀ c ∈ pad2, isSpace c = true) (hts : Ts ts) (hb : Body b) :
    strip (pad1 ++ TraceLine ts b ++ pad2) = TraceLine ts b ∧
    itemWithoutTimestamp (strip (pad1 ++ TraceLine ts b ++ pad2)) = b := by
  have e := strip_core pad1 (TraceLine ts b) pad2 h1 h2 (traceLine_ne ts b) (traceLine_head ts b)
    (traceLine_last ts b hb)
  exact ⟨e, by rw [e]; exact item_traceLine ts b hts hb⟩

/-- whitespace-only lines strip to the empty line (which `stripped` drops) -/
theorem C32_blank (pad : List Char) (h : ∀ c ∈ pad, isSpace c = true) : strip pad = [] :=
  strip_blank pad h

/-- `splitlines` of lines (without line-break characters) joined by `'\n'` returns those lines,
except that an empty last line (a trailing `'\n'`) is not reported -/
theorem C32_splitlines (ls : List (List Char)) (h : ∀ l ∈ ls, ∀ c ∈ l, isLineBreak c = false) :
    splitLines (sepNl ls) = ls ∨ splitLines (sepNl ls) ++ [[]] = ls := by
  obtain ⟨tl, htl, he⟩ := splitLines_sepNl ls h
  rcases htl with rfl | rfl
  · left; simpa using he
  · right; exact he

/-- **C32 (multi), general form.** Any log of trace lines with arbitrary timestamps and padding and
blank lines anywhere (also a leading / trailing `'\n'`) that `splitlines` cuts into more than one
line is turned into the list of its bodies. -/
theorem C32_multi_general (ps : List Piece) (hok : ∀ p ∈ ps, p.OK)
    (hlen : 1 < (splitLines (logOf ps)).length) :
    stripped Miros.Gen.singleLineStripped (logOf ps) = .many (bodies ps) :=
  stripped_logOf _ ps hok hlen

/-- **C32 (multi).** At least two trace lines: the result is the list of the bodies. -/
theorem C32_multi (ps : List Piece) (hok : ∀ p ∈ ps, p.OK) (h2 : 2 ≤ (bodies ps).length) :
    stripped Miros.Gen.singleLineStripped (logOf ps) = .many (bodies ps) :=
  stripped_logOf _ ps hok (Nat.lt_of_lt_of_le h2 (bodies_length_le ps hok))

/-- the same for at least three pieces of any kind (e.g. one trace line between two `'\n'`) -/
theorem C32_multi_three_pieces (ps : List Piece) (hok : ∀ p ∈ ps, p.OK) (h3 : 3 ≤ ps.length) :
    stripped Miros.Gen.singleLineStripped (logOf ps) = .many (bodies ps) :=
  stripped_logOf _ ps hok (by have := pieces_length_le ps hok; omega)

/-- **C32 (multi), canonical form.** What `trace()` returns for one or more lines — a leading
`'\n'` and every line terminated by `'\n'` — is turned into the list of the bodies. -/
theorem C32_multi_canonical (ls : List (List Char × List Char)) (hne : ls ≠ [])
    (hok : ∀ x ∈ ls, Ts x.1 ∧ Body x.2) :
    stripped Miros.Gen.singleLineStripped (logOf (canonical ls)) = .many (ls.map (·.2)) := by
  rw [← bodies_canonical]
  apply C32_multi_three_pieces
  · intro p hp
    simp only [canonical, List.cons_append, List.mem_cons, List.mem_append, List.mem_map,
      List.not_mem_nil, or_false] at hp
    rcases hp with rfl | ⟨x, hx, rfl⟩ | rfl
    · intro c hc; cases hc
    · exact ⟨fun c hc => (by cases hc), (hok x hx).1, (hok x hx).2, fun c hc => (by cases hc)⟩
    · intro c hc; cases hc
  · cases ls with
    | nil => exact absurd rfl hne
    | cons x xs => simp [canonical]

/-- the canonical log, spelled out for two lines -/
example (t1 b1 t2 b2 : List Char) :
    logOf (canonical [(t1, b1), (t2, b2)]) =
      '\n' :: (TraceLine t1 b1 ++ '\n' :: (TraceLine t2 b2 ++ ['\n'])) := by
  simp [logOf, canonical, sepNl, Piece.text]

/-- **C32 (timestamp-insensitive).** Two logs (each with at least two trace lines) have equal
`stripped` results exactly when they have the same bodies — whatever the timestamps, the padding
around the lines, and the blank lines. -/
theorem C32_timestamp_insensitive (ps qs : List Piece) (hp : ∀ p ∈ ps, p.OK) (hq : ∀ p ∈ qs, p.OK)
    (hp2 : 2 ≤ (bodies ps).length) (hq2 : 2 ≤ (bodies qs).length) :
    stripped Miros.Gen.singleLineStripped (logOf ps) = stripped Miros.Gen.singleLineStripped (logOf qs)
      ↔ bodies ps = bodies qs := by
  rw [C32_multi ps hp hp2, C32_multi qs hq hq2]
  constructor
  · intro h; exact Stripped.many.inj h
  · intro h; rw [h]

/-- in particular: changing only timestamps and padding and inserting blank lines changes nothing -/
theorem C32_same_bodies (ps qs : List Piece) (hp : ∀ p ∈ ps, p.OK) (hq : ∀ p ∈ qs, p.OK)
    (hp2 : 2 ≤ (bodies ps).length) (hb : bodies ps = bodies qs) :
    stripped Miros.Gen.singleLineStripped (logOf ps) = stripped Miros.Gen.singleLineStripped (logOf qs) :=
  (C32_timestamp_insensitive ps qs hp hq hp2 (hb ▸ hp2)).mpr hb

/-- **C32 (single).** A single line, with whitespace around it, is stripped the same way (the
switch generated from the current source is on). -/
theorem C32_single (pad ts b pad' : List Char) (h1 : Pad pad) (hts : Ts ts) (hb : Body b) (h2 : Pad pad') :
    stripped Miros.Gen.singleLineStripped (pad ++ TraceLine ts b ++ pad') = .one b := by
  have : Miros.Gen.singleLineStripped = true := by decide
  rw [this]
  exact stripped_single pad ts b pad' h1 hts hb h2

/-- the code before the repair (`stripSingle = false`): the pattern tolerates leading blanks only,
a trailing blank survives — and a line compared with its multi-line twin differs -/
theorem C32_witness_unrepaired :
    stripped false "[2017-11-05 15:17:39.424492] [75c8c] e->BATTERY_CHARGE() armed->armed ".toList =
      .one "[75c8c] e->BATTERY_CHARGE() armed->armed ".toList ∧
    stripped true "[2017-11-05 15:17:39.424492] [75c8c] e->BATTERY_CHARGE() armed->armed ".toList =
      .one "[75c8c] e->BATTERY_CHARGE() armed->armed".toList := by decide

/-! ### non-vacuity -/

example : Ts "2017-11-05 15:17:39.424492".toList := ⟨by decide, by decide⟩
example : Body "[75c8c] e->BATTERY_CHARGE() armed->armed".toList :=
  ⟨by decide, by decide, by decide, by decide⟩

example : "[2017-11-05 15:17:39.424492] [75c8c] e->BATTERY_CHARGE() armed->armed".toList =
    TraceLine "2017-11-05 15:17:39.424492".toList "[75c8c] e->BATTERY_CHARGE() armed->armed".toList := by
  decide

example : matchTs "   [2017-11-05 15:17:39.424492] [75c8c] e->BATTERY_CHARGE() armed->armed".toList =
    some "[75c8c] e->BATTERY_CHARGE() armed->armed".toList := by decide

example : stripped Miros.Gen.singleLineStripped
    "[2017-11-05 15:17:39.424492] [75c8c] e->BATTERY_CHARGE() armed->armed".toList =
    .one "[75c8c] e->BATTERY_CHARGE() armed->armed".toList := by decide

/-- two traces of the same run: different timestamps, a blank line, indentation -/
example : stripped Miros.Gen.singleLineStripped
      "\n[2017-11-05 15:17:39.424492] [75c8c] e->BATTERY_CHARGE() armed->armed\n[2017-11-05 15:17:39.424492] [75c8c] e->A() armed->idle\n".toList =
    stripped Miros.Gen.singleLineStripped
      "  [2019-01-01 00:00:00.000001] [75c8c] e->BATTERY_CHARGE() armed->armed  \n \t \n     [2019-01-01 00:00:01.5] [75c8c] e->A() armed->idle".toList := by
  decide +kernel

example : stripped Miros.Gen.singleLineStripped
      "\n[2017-11-05 15:17:39.424492] [75c8c] e->BATTERY_CHARGE() armed->armed\n[2017-11-05 15:17:39.424492] [75c8c] e->A() armed->idle\n".toList =
    .many ["[75c8c] e->BATTERY_CHARGE() armed->armed".toList, "[75c8c] e->A() armed->idle".toList] := by
  decide +kernel

/-- a line that is not a trace line is kept (stripped of its surrounding whitespace) -/
example : stripped Miros.Gen.singleLineStripped "  hello\n  world ".toList =
    .many ["hello".toList, "world".toList] := by decide

end Miros.Props.C32
