import MirosModel.Queue.UnboundedLemmas
import MirosModel.Props.C14
import MirosModel.Props.C15
import MirosModel.Props.C16
import MirosModel.Drive.Queue
/-!
# C14 / C15 / C16 for `QUEUE_SIZE = None` — unbounded queues are the limit of large capacities

A subclass of `HsmWithQueues` may set `QUEUE_SIZE = None`; its `queue` and `defer_queue` are then
`collections.deque(maxlen=None)`, which never evict. `Miros.Queue` (`Queue/Unbounded.lean`) writes
that semantics down directly (`QStateU` has no capacity; `pushBackU`, `pushFrontU`, `applyEffU`,
`applyLogU`, `nextRtcU`, `startQU`, `completeCircuitU`, `runOpsU`, `traceOpsU`).

This file shows
* the unbounded model never loses an event object (`C16_unbounded_never_evicts…`),
* a bounded run in which no push finds its queue full **is** the unbounded run, state by state and
  output by output, and a capacity of `pending + deferred + (event objects the run creates)` is
  never reached (`C14_unbounded_is_large_cap…`), so the unbounded run is the common value of all
  sufficiently large capacities (`C14_unbounded_is_limit`, `C14_unbounded_two_caps_agree…`),
* hence what was proved for every capacity holds for the unbounded model (`C14_unbounded_transfer`
  and the restated `…_U` theorems).

All statements hold for every chart `qc`, every setting `g` of the processor switches, every list
of operations.
-/
namespace Miros.Props.C14Unbounded
open Miros.Hsm Miros.Queue

/-! ### 1. a push into a deque that is not full -/

/-- **append.** `deque(maxlen=cap).append` on a deque holding fewer than `cap` elements is
`deque(maxlen=None).append`. -/
theorem pushBack_eq_unbounded (cap : Nat) (l : List Ev) (x : Ev) (h : l.length < cap) :
    pushBack cap l x = pushBackU l x :=
  pushBack_eq_U cap l x h

/-- **appendleft.** The same for `appendleft`. -/
theorem pushFront_eq_unbounded (cap : Nat) (l : List Ev) (x : Ev) (h : l.length < cap) :
    pushFront cap l x = pushFrontU l x :=
  pushFront_eq_U cap l x h

/-- the hypothesis is sharp: on a full deque the bounded and the unbounded push differ (the
bounded result is shorter) -/
theorem push_ne_unbounded_of_full (cap : Nat) (l : List Ev) (x : Ev) (h : cap ≤ l.length) :
    pushBack cap l x ≠ pushBackU l x ∧ pushFront cap l x ≠ pushFrontU l x := by
  constructor
  · intro heq
    have := congrArg List.length heq
    simp [pushBack, pushBackU, Nat.not_lt.mpr h] at this
    omega
  · intro heq
    have := congrArg List.length heq
    simp [pushFront, pushFrontU, Nat.not_lt.mpr h, List.length_take] at this
    omega

example : pushBack 3 [⟨1, 0⟩, ⟨2, 1⟩] ⟨3, 2⟩ = pushBackU [⟨1, 0⟩, ⟨2, 1⟩] ⟨3, 2⟩ := by decide
example : pushBack 2 [⟨1, 0⟩, ⟨2, 1⟩] ⟨3, 2⟩ = [⟨2, 1⟩, ⟨3, 2⟩] ∧
    pushBackU [⟨1, 0⟩, ⟨2, 1⟩] ⟨3, 2⟩ = [⟨1, 0⟩, ⟨2, 1⟩, ⟨3, 2⟩] := by decide

/-! ### 2. the unbounded model never evicts -/

/-- **C16 (unbounded: nothing is lost).** Run any list of client operations on the unbounded
model (posts, defers, recalls, steps whose handlers post / defer / recall on their own). Then
* the number of event objects in the queue, the defer queue and the dispatch record together is the
  number there was at the start plus `postBound qc g u ops`, the number of event objects the run
  created (client posts and defers, and those of the handlers in the logs the run produced);
* the uid counter advanced by exactly that number;
* every event object known at the start is still pending, deferred or in the dispatch record;
* every event object created during the run (uids `u.next … u1.next - 1`) is pending, deferred or
  in the dispatch record;
* the dispatch record only grew at its end. -/
theorem C16_unbounded_never_evicts (qc : QChart) (g : Cfg) (u u1 : QStateU) (ops : List Op)
    (h : runOpsU qc g u ops = some u1) :
    u1.q.length + u1.dq.length + u1.dispatched.length =
      u.q.length + u.dq.length + u.dispatched.length + postBound qc g u ops ∧
    u1.next = u.next + postBound qc g u ops ∧
    (∀ e ∈ liveU u, e ∈ liveU u1) ∧
    (∀ k, u.next ≤ k → k < u1.next → ∃ e ∈ liveU u1, e.uid = k) ∧
    u.dispatched <+: u1.dispatched := by
  have hg := runOpsU_grows qc g ops u u1 h
  refine ⟨?_, hg.next, hg.keep, hg.made, hg.disp⟩
  have := hg.cnt
  simp only [cntU, pendU] at this
  omega

/-- for a fresh chart: as many event objects are pending, deferred or dispatched as were ever
created -/
theorem C16_unbounded_never_evicts_fresh (qc : QChart) (g : Cfg) (cur : St) (u1 : QStateU) (ops : List Op)
    (h : runOpsU qc g (initU cur) ops = some u1) :
    u1.q.length + u1.dq.length + u1.dispatched.length = u1.next ∧
    u1.next = postBound qc g (initU cur) ops ∧
    (∀ k, k < u1.next → ∃ e ∈ liveU u1, e.uid = k) := by
  obtain ⟨h1, h2, _, h4, _⟩ := C16_unbounded_never_evicts qc g (initU cur) u1 ops h
  simp only [initU, List.length_nil, Nat.zero_add] at h1 h2 h4
  exact ⟨by omega, h2, fun k hk => h4 k (Nat.zero_le _) hk⟩

/-- the same in the middle of a step, after any prefix of the handlers' own operations -/
theorem C16_unbounded_never_evicts_during_step (qc : QChart) (u : QStateU) (log : Log) :
    (applyLogU qc u log).q.length + (applyLogU qc u log).dq.length =
      u.q.length + u.dq.length + logPosts qc log ∧
    (applyLogU qc u log).dispatched = u.dispatched ∧
    (∀ e ∈ liveU u, e ∈ liveU (applyLogU qc u log)) := by
  have hg := applyLogU_grows qc log u
  have hcnt := hg.cnt
  simp only [cntU, pendU, applyLogU_dispatched] at hcnt
  exact ⟨by omega, applyLogU_dispatched qc log u, hg.keep⟩

/-- the same for every operation of the driver family (`start_at`, `complete_circuit` included)
and for every state the run reports on its way: relative to the start nothing is lost -/
theorem C16_unbounded_never_evicts_trace (qc : QChart) (g : Cfg) (u st : QStateU) (ops : List XOp)
    (ret : Ret) (log : Log) (h : XRes.ok ret st log ∈ traceOpsU qc g u ops) :
    st.q.length + st.dq.length + st.dispatched.length + u.next =
      u.q.length + u.dq.length + u.dispatched.length + st.next ∧
    st.next ≤ u.next + postBoundX qc g u ops ∧
    (∀ e ∈ liveU u, e ∈ liveU st) ∧
    (∀ k, u.next ≤ k → k < st.next → ∃ e ∈ liveU st, e.uid = k) := by
  obtain ⟨n, hn, hg⟩ := traceOpsU_grows qc g ops u st ret log h
  refine ⟨?_, ?_, hg.keep, hg.made⟩
  · have := hg.cnt; have := hg.next
    simp only [cntU, pendU] at *
    omega
  · have := hg.next; omega

/-- `complete_circuit` on the unbounded model loses nothing either, and returns with an empty queue -/
theorem C16_unbounded_complete_circuit (qc : QChart) (g : Cfg) (fuel : Nat) (u u1 : QStateU)
    (h : completeCircuitU qc g fuel u = some u1) :
    u1.q = [] ∧
    u1.dq.length + u1.dispatched.length =
      u.q.length + u.dq.length + u.dispatched.length + circuitPosts qc g fuel u ∧
    (∀ e ∈ liveU u, e ∈ liveU u1) := by
  have hg := completeCircuitU_grows qc g fuel u u1 h
  have he := completeCircuitU_empty qc g fuel u u1 h
  refine ⟨he, ?_, hg.keep⟩
  have := hg.cnt
  simp only [cntU, pendU, he, List.length_nil] at this
  omega

/-! ### 3. an unbounded queue is the model at any capacity that is never reached -/

/-- **C14 (dynamic form).** If no push of the bounded run found its queue full
(`NeverFull qc g s ops`, an executable predicate defined by recursion along the bounded run), the
bounded run and the unbounded run agree: both fail, or both succeed with the same queue, defer
queue, dispatch record, current state and uid counter. -/
theorem C14_unbounded_is_never_full (qc : QChart) (g : Cfg) (s : QState) (ops : List Op)
    (h : NeverFull qc g s ops) :
    (runOps qc g s ops).map QState.toU = runOpsU qc g s.toU ops :=
  runOps_toU qc g ops s h

/-- **C14 (unbounded = large capacity).** For every chart, every setting of the switches, every
start contents `u`, every list of operations and every capacity `cap` with
`cap ≥ pending + deferred + postBound` (`postBound qc g u ops` = number of event objects the run
creates: client posts and defers plus the posts and defers of the handlers in the logs the run
produces), no push of the run at capacity `cap` finds its queue full, and that run and the
unbounded run agree on queue, defer queue, dispatch record, current state and uid counter (and on
failure). (`cap > …`, as in the informal statement, is more than enough.) -/
theorem C14_unbounded_is_large_cap (qc : QChart) (g : Cfg) (u : QStateU) (ops : List Op) (cap : Nat)
    (hcap : u.q.length + u.dq.length + postBound qc g u ops ≤ cap) :
    NeverFull qc g (u.withCap cap) ops ∧
    (runOps qc g (u.withCap cap) ops).map QState.toU = runOpsU qc g u ops := by
  have hn : NeverFull qc g (u.withCap cap) ops := neverFull_of_bound qc g ops (u.withCap cap) hcap
  exact ⟨hn, runOps_toU qc g ops (u.withCap cap) hn⟩

/-- the same spelled out field by field -/
theorem C14_unbounded_is_large_cap_fields (qc : QChart) (g : Cfg) (u : QStateU) (ops : List Op) (cap : Nat)
    (hcap : u.q.length + u.dq.length + postBound qc g u ops ≤ cap) :
    (runOps qc g (u.withCap cap) ops = none ↔ runOpsU qc g u ops = none) ∧
    (∀ s1, runOps qc g (u.withCap cap) ops = some s1 →
      ∃ u1, runOpsU qc g u ops = some u1 ∧ s1.q = u1.q ∧ s1.dq = u1.dq ∧
        s1.dispatched = u1.dispatched ∧ s1.cur = u1.cur ∧ s1.next = u1.next ∧ s1.cap = cap) ∧
    (∀ u1, runOpsU qc g u ops = some u1 → runOps qc g (u.withCap cap) ops = some (u1.withCap cap)) := by
  have h := (C14_unbounded_is_large_cap qc g u ops cap hcap).2
  refine ⟨?_, ?_, ?_⟩
  · rw [← h]; simp
  · intro s1 hs
    rw [hs] at h
    exact ⟨s1.toU, h.symm, rfl, rfl, rfl, rfl, rfl, runOps_cap qc g ops _ s1 hs⟩
  · intro u1 hu
    rw [hu] at h
    cases hs : runOps qc g (u.withCap cap) ops with
    | none => rw [hs] at h; simp at h
    | some s1 =>
      rw [hs] at h
      simp only [Option.map_some, Option.some.injEq] at h
      have hc := runOps_cap qc g ops _ s1 hs
      simp only [withCap_cap] at hc
      rw [← h, ← hc]
      rfl

/-- **C14 (all outputs, dynamic form).** With every operation of the driver family (`start_at`,
the posts, `defer`, `recall`, `next_rtc`, `complete_circuit`) and every output recorded after
every operation — return value (`recall`'s event, `next_rtc`'s bool), both queues, dispatch record,
current state, uid counter, the handler calls made, and where the run failed: if no push of the
bounded run found its queue full, the two traces are equal. -/
theorem C14_unbounded_is_never_full_trace (qc : QChart) (g : Cfg) (s : QState) (ops : List XOp)
    (h : NeverFullX qc g s ops) : traceOps qc g s ops = traceOpsU qc g s.toU ops :=
  traceOps_toU qc g ops s h

/-- **C14 (all outputs, large capacity).** The same for every capacity of at least
`pending + deferred + postBoundX` (event objects created by the run, `start_at` and
`complete_circuit` included). -/
theorem C14_unbounded_is_large_cap_trace (qc : QChart) (g : Cfg) (u : QStateU) (ops : List XOp) (cap : Nat)
    (hcap : u.q.length + u.dq.length + postBoundX qc g u ops ≤ cap) :
    NeverFullX qc g (u.withCap cap) ops ∧
    traceOps qc g (u.withCap cap) ops = traceOpsU qc g u ops := by
  have hn : NeverFullX qc g (u.withCap cap) ops := neverFullX_of_bound qc g ops (u.withCap cap) hcap
  exact ⟨hn, traceOps_toU qc g ops (u.withCap cap) hn⟩

/-- **C14 (limit).** Every finite run is covered: for every list of operations there is a
capacity from which on all capacities give the unbounded run. -/
theorem C14_unbounded_is_limit (qc : QChart) (g : Cfg) (u : QStateU) (ops : List Op) :
    ∃ N, ∀ cap, N ≤ cap → (runOps qc g (u.withCap cap) ops).map QState.toU = runOpsU qc g u ops :=
  ⟨u.q.length + u.dq.length + postBound qc g u ops,
   fun cap h => (C14_unbounded_is_large_cap qc g u ops cap h).2⟩

theorem C14_unbounded_is_limit_trace (qc : QChart) (g : Cfg) (u : QStateU) (ops : List XOp) :
    ∃ N, ∀ cap, N ≤ cap → traceOps qc g (u.withCap cap) ops = traceOpsU qc g u ops :=
  ⟨u.q.length + u.dq.length + postBoundX qc g u ops,
   fun cap h => (C14_unbounded_is_large_cap_trace qc g u ops cap h).2⟩

/-- the capacity of the current source tree (`QUEUE_SIZE = 500`) is "unbounded" for every run of a
fresh chart that creates at most 500 event objects -/
theorem C14_unbounded_is_queueCap (qc : QChart) (cur : St) (ops : List Op)
    (h : postBound qc Miros.Gen.cfg (initU cur) ops ≤ Miros.Gen.queueCap) :
    (runOps qc Miros.Gen.cfg (init Miros.Gen.queueCap cur) ops).map QState.toU =
      runOpsU qc Miros.Gen.cfg (initU cur) ops :=
  (C14_unbounded_is_large_cap qc Miros.Gen.cfg (initU cur) ops Miros.Gen.queueCap
    (by simpa [initU] using h)).2

/-! ### 4. two capacities that are never reached -/

/-- **C14 (two capacities).** Two capacities that are both never reached give the same run. -/
theorem C14_unbounded_two_caps_agree (qc : QChart) (g : Cfg) (u : QStateU) (ops : List Op) (c1 c2 : Nat)
    (h1 : NeverFull qc g (u.withCap c1) ops) (h2 : NeverFull qc g (u.withCap c2) ops) :
    (runOps qc g (u.withCap c1) ops).map QState.toU = (runOps qc g (u.withCap c2) ops).map QState.toU := by
  rw [runOps_toU qc g ops _ h1, runOps_toU qc g ops _ h2]
  rfl

/-- … with all outputs of all operations of the driver family -/
theorem C14_unbounded_two_caps_agree_trace (qc : QChart) (g : Cfg) (u : QStateU) (ops : List XOp) (c1 c2 : Nat)
    (h1 : NeverFullX qc g (u.withCap c1) ops) (h2 : NeverFullX qc g (u.withCap c2) ops) :
    traceOps qc g (u.withCap c1) ops = traceOps qc g (u.withCap c2) ops := by
  rw [traceOps_toU qc g ops _ h1, traceOps_toU qc g ops _ h2]
  rfl

/-- a capacity that is never reached stays unreached when enlarged — so one such capacity is
enough to know the run at all larger ones -/
theorem C14_unbounded_larger_cap_agrees (qc : QChart) (g : Cfg) (u : QStateU) (ops : List Op) (c1 c2 : Nat)
    (hle : c1 ≤ c2) (h1 : NeverFull qc g (u.withCap c1) ops) :
    NeverFull qc g (u.withCap c2) ops ∧
    (runOps qc g (u.withCap c1) ops).map QState.toU = (runOps qc g (u.withCap c2) ops).map QState.toU := by
  have h2 := neverFull_mono qc g ops (u.withCap c1) (u.withCap c2) rfl hle h1
  exact ⟨h2, C14_unbounded_two_caps_agree qc g u ops c1 c2 h1 h2⟩

theorem C14_unbounded_larger_cap_agrees_trace (qc : QChart) (g : Cfg) (u : QStateU) (ops : List XOp)
    (c1 c2 : Nat) (hle : c1 ≤ c2) (h1 : NeverFullX qc g (u.withCap c1) ops) :
    NeverFullX qc g (u.withCap c2) ops ∧
    traceOps qc g (u.withCap c1) ops = traceOps qc g (u.withCap c2) ops := by
  have h2 := neverFullX_mono qc g ops (u.withCap c1) (u.withCap c2) rfl hle h1
  exact ⟨h2, C14_unbounded_two_caps_agree_trace qc g u ops c1 c2 h1 h2⟩

/-! ### 3b. what holds at every capacity holds for the unbounded model -/

/-- **transfer principle.** A property of the final contents that holds for the bounded run at
every capacity from some `N` on holds for the unbounded run. -/
theorem C14_unbounded_transfer (qc : QChart) (g : Cfg) (u u1 : QStateU) (ops : List Op) (N : Nat)
    (P : QStateU → Prop)
    (hP : ∀ cap s1, N ≤ cap → runOps qc g (u.withCap cap) ops = some s1 → P s1.toU)
    (h : runOpsU qc g u ops = some u1) : P u1 := by
  let cap := N + (u.q.length + u.dq.length + postBound qc g u ops)
  obtain ⟨_, _, h3⟩ := C14_unbounded_is_large_cap_fields qc g u ops cap (Nat.le_add_left _ _)
  exact hP cap (u1.withCap cap) (Nat.le_add_right _ _) (h3 u1 h)

/-- **C14 (front), unbounded.** `next_rtc` on a non-empty queue pops the head `e`, dispatches
exactly `e`, and the queue after the step is the old tail changed only by the handlers' own
operations. -/
theorem C14_next_rtc_front_U (qc : QChart) (g : Cfg) (u : QStateU) (e : Ev) (rest : List Ev) (r : Res)
    (hq : u.q = e :: rest) (hd : dispatch qc.chart g u.cur e.sig = .ok r) :
    ∃ u1, nextRtcU qc g u = .stepped u1 r.log ∧
      u1 = applyLogU qc { u with q := rest, dispatched := u.dispatched ++ [e], cur := r.state } r.log ∧
      u1.dispatched = u.dispatched ++ [e] ∧ u1.cur = r.state := by
  refine ⟨_, nextRtcU_cons qc g u e rest r hq hd, rfl, ?_, ?_⟩ <;> simp

/-- **C14 (empty), unbounded.** -/
theorem C14_next_rtc_empty_U (qc : QChart) (g : Cfg) (u : QStateU) (hq : u.q = []) :
    nextRtcU qc g u = .idle u :=
  nextRtcU_nil qc g u hq

/-- **C14 (fifo), unbounded.** `post_fifo` puts the new event object at the back and never drops
anything: no capacity hypothesis. -/
theorem C14_post_fifo_back_U (u : QStateU) (sg : Nat) :
    (applyEffU u (.fifo sg)).q = u.q ++ [⟨sg, u.next⟩] ∧
    (applyEffU u (.fifo sg)).q.getLast? = some ⟨sg, u.next⟩ ∧
    (applyEffU u (.fifo sg)).dq = u.dq ∧ (applyEffU u (.fifo sg)).dispatched = u.dispatched :=
  ⟨rfl, by simp [applyEffU, postFifoU, pushBackU], rfl, rfl⟩

/-- **C14 (lifo), unbounded.** -/
theorem C14_post_lifo_front_U (u : QStateU) (sg : Nat) :
    (applyEffU u (.lifo sg)).q = ⟨sg, u.next⟩ :: u.q ∧
    (applyEffU u (.lifo sg)).q.head? = some ⟨sg, u.next⟩ ∧
    (applyEffU u (.lifo sg)).dq = u.dq ∧ (applyEffU u (.lifo sg)).dispatched = u.dispatched :=
  ⟨rfl, rfl, rfl, rfl⟩

/-- **C14 (at most once), unbounded** — obtained from `C14.C14_at_most_once` (all capacities)
through the transfer principle. -/
theorem C14_at_most_once_U (qc : QChart) (g : Cfg) (cur : St) (ops : List Op) (u1 : QStateU)
    (h : runOpsU qc g (initU cur) ops = some u1) :
    (u1.dispatched.map Ev.uid).Nodup ∧ u1.dispatched.Nodup ∧
    (∀ e ∈ u1.dispatched, e ∉ u1.q ∧ e ∉ u1.dq) ∧
    (∀ e ∈ u1.dispatched, (∀ b ∈ u1.q, e.uid ≠ b.uid) ∧ (∀ b ∈ u1.dq, e.uid ≠ b.uid)) := by
  refine C14_unbounded_transfer qc g (initU cur) u1 ops 1
    (fun v => (v.dispatched.map Ev.uid).Nodup ∧ v.dispatched.Nodup ∧
      (∀ e ∈ v.dispatched, e ∉ v.q ∧ e ∉ v.dq) ∧
      (∀ e ∈ v.dispatched, (∀ b ∈ v.q, e.uid ≠ b.uid) ∧ (∀ b ∈ v.dq, e.uid ≠ b.uid))) ?_ h
  intro cap s1 hc hs
  exact C14.C14_at_most_once qc g cap cur ops s1 hc hs

/-- **C14 (complete_circuit), unbounded.** -/
theorem C14_complete_circuit_empty_U (qc : QChart) (g : Cfg) (fuel : Nat) (u u1 : QStateU)
    (h : completeCircuitU qc g fuel u = some u1) : u1.q = [] :=
  completeCircuitU_empty qc g fuel u u1 h

/-- **C15 (recall), unbounded.** `recall()` returns the oldest deferred event, removes it from the
defer queue and appends it to the queue — always (no "queue not full" proviso). -/
theorem C15_recall_oldest_U (u : QStateU) (e : Ev) (rest : List Ev) (hd : u.dq = e :: rest) :
    (recallU u).2 = some e ∧ (recallU u).1.dq = rest ∧ (recallU u).1.q = u.q ++ [e] ∧
    (recallU u).1.dispatched = u.dispatched := by
  unfold recallU
  rw [hd]
  exact ⟨rfl, rfl, rfl, rfl⟩

/-- **C15 (recall, nothing deferred), unbounded.** -/
theorem C15_recall_empty_U (u : QStateU) (hd : u.dq = []) : recallU u = (u, none) := by
  unfold recallU
  rw [hd]

/-- **C15 (not dispatched until recalled), unbounded** — from `C15.C15_not_dispatched_without_recall`
through the transfer principle. -/
theorem C15_not_dispatched_without_recall_U (qc : QChart) (g : Cfg) (u u1 : QStateU) (ops : List Op)
    (hi : InvU u) (hqc : NoHandlerRecall qc) (hops : Op.recall ∉ ops)
    (h : runOpsU qc g u ops = some u1) :
    ∀ e ∈ u.dq, e ∉ u1.dispatched ∧ e ∉ u1.q := by
  refine C14_unbounded_transfer qc g u u1 ops (1 + u.q.length + u.dq.length)
    (fun v => ∀ e ∈ u.dq, e ∉ v.dispatched ∧ e ∉ v.q) ?_ h
  intro cap s1 hc hs
  exact C15.C15_not_dispatched_without_recall qc g (u.withCap cap) s1 ops
    (hi.withCap cap (by omega) (by omega) (by omega)) hqc hops hs

/-- **C15 (order kept), unbounded.** Any sequence of queue operations without a recall leaves the
events deferred before it at the front of the defer queue in their original order — with no
overflow proviso. From `C15.C15_order_kept` at a capacity that is never reached. -/
theorem C15_order_kept_U (u : QStateU) (l : List Eff) (hl : Eff.recall ∉ l) :
    u.dq <+: (l.foldl applyEffU u).dq := by
  let cap := u.q.length + u.dq.length + l.length
  have hb := effsPosts_le_length l
  have hok : effsOk (u.withCap cap) l = true :=
    effsOk_of_bound l (u.withCap cap) (by simp only [pendU, withCap_toU, withCap_cap]; omega)
  have h := C15.C15_order_kept (u.withCap cap) l hl (by simp only [withCap_dq, withCap_cap]; omega)
  have e := foldEff_toU l (u.withCap cap) hok
  rw [withCap_toU] at e
  rw [← e]
  exact h

/-- **C15 (defer appends), unbounded.** -/
theorem C15_defer_appends_U (u : QStateU) (sg : Nat) :
    (applyEffU u (.defer sg)).dq = u.dq ++ [⟨sg, u.next⟩] ∧
    (applyEffU u (.defer sg)).q = u.q ∧ (applyEffU u (.defer sg)).dispatched = u.dispatched :=
  ⟨rfl, rfl, rfl⟩

/-- **C16 (never blocks), unbounded.** Every client operation other than a step returns. -/
theorem C16_post_total_U (qc : QChart) (g : Cfg) :
    ∀ (u : QStateU) (o : Op), o ≠ .nextRtc → ∃ u1, stepOpU qc g u o = some u1 := by
  intro u o ho
  cases o with
  | postFifo sg => exact ⟨_, rfl⟩
  | postLifo sg => exact ⟨_, rfl⟩
  | defer sg => exact ⟨_, rfl⟩
  | recall => exact ⟨_, rfl⟩
  | nextRtc => exact absurd rfl ho

/-! ### 3c. the `q` driver family: capacity token `U` -/
section Driver
open Miros.Drive

/-- the operations of a parsed `q` line as operations of the model -/
def lineOps (h : QCase) : List XOp := h.ops.map fun (o, a) => xopOf h o a

/-- **driver, numeric capacity.** What the `q` family prints for a numeric capacity (`qOps`, the
code compared against the Python library) is, operation by operation, the recorded trace
`traceOps` of the bounded model printed by `showX`. -/
theorem C14_driver_prints_trace (h : QCase) (ops : List (Nat × Nat)) (s : QState) (acc : List String) :
    qOps h ops s acc = acc ++ (traceOps h.qc h.cfg s (ops.map fun (o, a) => xopOf h o a)).map showX := by
  have showQ_eq : ∀ (ret : String) (s : QState) (log : Log), showQ ret s log = showQU ret s.toU log :=
    fun _ _ _ => rfl
  induction ops generalizing s acc with
  | nil => simp [qOps, traceOps]
  | cons p t ih =>
    obtain ⟨o, a⟩ := p
    unfold qOps
    simp only [List.map_cons, traceOps]
    split
    · have hx : xopOf h o a = .start (h.tab.path a) := by simp [xopOf, *]
      rw [hx]; simp only [xstep]
      cases hs : startQ h.qc h.cfg s (h.tab.path a) <;> simp [ih, showX, showRet, showQ_eq]
    · split
      · have hx : xopOf h o a = .postFifo a := by simp [xopOf, *]
        rw [hx]; simp [xstep, ih, showX, showRet, showQ_eq]
      · split
        · have hx : xopOf h o a = .postLifo a := by simp [xopOf, *]
          rw [hx]; simp [xstep, ih, showX, showRet, showQ_eq]
        · split
          · have hx : xopOf h o a = .defer a := by simp [xopOf, *]
            rw [hx]; simp [xstep, ih, showX, showRet, showQ_eq]
          · split
            · have hx : xopOf h o a = .recall := by simp [xopOf, *]
              rw [hx]; simp only [xstep]
              cases hr : recall s with
              | mk s1 r => cases r <;> simp [ih, showX, showRet, showQ_eq]
            · split
              · have hx : xopOf h o a = .nextRtc := by simp [xopOf, *]
                rw [hx]; simp only [xstep]
                cases hs : nextRtc h.qc h.cfg s <;> simp [ih, showX, showRet, showQ_eq]
              · have hx : xopOf h o a = .completeCircuit 300 := by simp [xopOf, *]
                rw [hx]; simp only [xstep]
                cases hs : completeCircuit h.qc h.cfg 300 s <;> simp [ih, showX, showRet, showQ_eq]

/-- **driver, token `U`.** For a parsed line whose numeric capacity is never reached — in
particular for every capacity of at least `postBoundX` of the line — the outputs the `q` family
prints (`qLine`: `qOps h h.ops s0 []`) are exactly the outputs it prints for the capacity token
`U` (`qLineU`: the trace of the unbounded model). -/
theorem C14_driver_U_is_large_cap (h : QCase)
    (hn : NeverFullX h.qc h.cfg (init h.cap []) (lineOps h)) :
    qOps h h.ops { cap := h.cap, q := [], dq := [], cur := [], next := 0, dispatched := [] } [] =
      (traceOpsU h.qc h.cfg (initU []) (lineOps h)).map showX := by
  rw [C14_driver_prints_trace, List.nil_append]
  exact congrArg (List.map showX) (traceOps_toU h.qc h.cfg (lineOps h) (init h.cap []) hn)

theorem C14_driver_U_is_large_cap' (h : QCase)
    (hc : postBoundX h.qc h.cfg (initU []) (lineOps h) ≤ h.cap) :
    qOps h h.ops { cap := h.cap, q := [], dq := [], cur := [], next := 0, dispatched := [] } [] =
      (traceOpsU h.qc h.cfg (initU []) (lineOps h)).map showX :=
  C14_driver_U_is_large_cap h
    (neverFullX_of_bound h.qc h.cfg (lineOps h) (init h.cap []) (by
      show ([] : List Ev).length + ([] : List Ev).length + postBoundX h.qc h.cfg (initU []) (lineOps h) ≤ h.cap
      simpa using hc))

end Driver

/-! ### 5. non-vacuity -/
open Miros.Queue.Ex

/-- eight client posts / defers (the handler of signal 7 adds two posts, the one of signal 6 a
defer), a handler-driven recall (signal 4) and a client recall -/
def opsEx : List Op :=
  [.postFifo 5, .postFifo 7, .postFifo 6, .postLifo 4, .defer 3, .postFifo 2, .postFifo 1, .defer 0,
   .nextRtc, .nextRtc, .nextRtc, .recall, .nextRtc, .nextRtc]

/-- the same with `start_at` in front and `complete_circuit` at the end -/
def xopsEx : List XOp :=
  [.start [1], .postFifo 5, .postFifo 7, .postFifo 6, .postLifo 4, .defer 3, .postFifo 2, .postFifo 1,
   .defer 0, .nextRtc, .recall, .nextRtc, .completeCircuit 20, .nextRtc]

/-- the run creates 11 event objects: 8 by the client, 3 by handlers -/
example : postBound qc0 Miros.Gen.cfg (initU [1]) opsEx = 11 := by decide

/-- the unbounded run: nothing lost (5 dispatched + 5 pending + 1 deferred = 11 created) -/
example : (runOpsU qc0 Miros.Gen.cfg (initU [1]) opsEx).map
    (fun u => (u.dispatched.map Ev.sig, u.q.map Ev.sig, u.dq.map Ev.sig, u.next)) =
    some ([4, 5, 7, 8, 6], [2, 1, 3, 9, 0], [6], 11) := by decide

/-- **capacity 3 evicts**: the bounded result differs from the unbounded one (events are lost: only
6 of the 10 event objects created are left, and signals 4, 5, 6 were never dispatched) … -/
example : (runOps qc0 Miros.Gen.cfg (init 3 [1]) opsEx).map
    (fun s => (s.dispatched.map Ev.sig, s.q.map Ev.sig, s.dq.map Ev.sig, s.next)) =
    some ([7, 8, 2, 1, 3], [], [0], 10) := by decide
example : (runOps qc0 Miros.Gen.cfg (init 3 [1]) opsEx).map QState.toU ≠
    runOpsU qc0 Miros.Gen.cfg (initU [1]) opsEx := by decide
example : ¬ NeverFull qc0 Miros.Gen.cfg (init 3 [1]) opsEx := by decide

/-- … **capacity 100 equals the unbounded run**, as does capacity 11 = `postBound` (hypothesis of
`C14_unbounded_is_large_cap`), checked here by evaluation -/
example : (runOps qc0 Miros.Gen.cfg (init 100 [1]) opsEx).map QState.toU =
    runOpsU qc0 Miros.Gen.cfg (initU [1]) opsEx := by decide
example : NeverFull qc0 Miros.Gen.cfg (init 100 [1]) opsEx := by decide
example : (initU [1]).q.length + (initU [1]).dq.length + postBound qc0 Miros.Gen.cfg (initU [1]) opsEx ≤ 100 := by
  decide
example : (runOps qc0 Miros.Gen.cfg (init 11 [1]) opsEx).map QState.toU =
    runOpsU qc0 Miros.Gen.cfg (initU [1]) opsEx :=
  (C14_unbounded_is_large_cap qc0 Miros.Gen.cfg (initU [1]) opsEx 11 (by decide)).2

/-- the bound of `C14_unbounded_is_large_cap` is not far off: the smallest capacity never reached
by this run is 7 -/
example : NeverFull qc0 Miros.Gen.cfg (init 7 [1]) opsEx ∧ ¬ NeverFull qc0 Miros.Gen.cfg (init 6 [1]) opsEx := by
  decide

/-- two capacities never reached (hypotheses of `C14_unbounded_two_caps_agree`) -/
example : NeverFull qc0 Miros.Gen.cfg ((initU [1]).withCap 7) opsEx ∧
    NeverFull qc0 Miros.Gen.cfg ((initU [1]).withCap 500) opsEx := by decide

/-- traces (every output of every operation, `start_at` and `complete_circuit` included):
capacity 3 differs, capacity 100 is the unbounded trace -/
example : traceOps qc0 Miros.Gen.cfg (init 3 []) xopsEx ≠ traceOpsU qc0 Miros.Gen.cfg (initU []) xopsEx := by
  decide
example : traceOps qc0 Miros.Gen.cfg (init 100 []) xopsEx = traceOpsU qc0 Miros.Gen.cfg (initU []) xopsEx := by
  decide
example : NeverFullX qc0 Miros.Gen.cfg (init 100 []) xopsEx ∧
    postBoundX qc0 Miros.Gen.cfg (initU []) xopsEx = 11 := by decide
/-- the trace is not trivial: 14 outputs, the last one `next_rtc() = False` on the emptied queue
(everything but the one event still deferred has been dispatched) -/
example : (traceOpsU qc0 Miros.Gen.cfg (initU []) xopsEx).length = 14 ∧
    ((traceOpsU qc0 Miros.Gen.cfg (initU []) xopsEx).getLast?).map
      (fun o => match o with
        | .ok ret st _ => (ret, st.dispatched.map Ev.sig, st.q.map Ev.sig, st.dq.map Ev.sig)
        | _ => (.unit, [], [], [])) =
    some (.bool false, [4, 5, 7, 8, 6, 2, 1, 3, 0, 9], [], [6]) := by decide

/-- hypotheses of the restated theorems are met -/
example : InvU (initU [1]) := InvU.initU [1]
example : InvU Ex.sDef.toU := Inv.toU ⟨by decide, by decide, by decide, by decide, by decide⟩
example : (recallU sDef.toU).2 = some ⟨3, 1⟩ ∧ (recallU sDef.toU).1.q = [⟨5, 0⟩, ⟨3, 1⟩] := by decide
example : (completeCircuitU qc0 Miros.Gen.cfg 10 s0.toU).map (fun u => (u.dispatched.map Ev.sig, u.q)) =
    some ([7, 8, 5, 9], []) := by decide

end Miros.Props.C14Unbounded
