import MirosModel.Conc.LDFabLemmas
import MirosModel.Gen.Constants
/-!
# C13 (last clause) — an active object woken after the fabric was stopped

"`stop()` [of the fabric] … halts every active object at its next wake-up."

Model: `Miros.Conc.LDFab` (`MirosModel/Conc/LDFab.lean`): the threads of the `LockingDeque` /
consumer model `Miros.Conc.LD` (thread `.ld 0` = the active object's thread `run_event`, `.ld (i+1)` =
poster `i`) and one more thread `.fabstop` whose only step clears the fabric run event `fabFlag`
(the first statement of `ActiveFabric().stop()`).  `dispatched` is the list of events handed to
run-to-completion steps; `cpc = .fin` means that the active object's thread has ended.

All statements are for **every** schedule `List Tid` and any number of posters with arbitrary
posting programs.  Statements 1, 2 and "finished for ever" hold for every state and every
configuration.  Statements 3 and 4 are for the posting algorithm generated from the current source
(`c.alg = Miros.Gen.ldAlg`) and for the states reachable from `LDFab.init c progs`; they need no
hypothesis on the capacity (except where a token has to *arrive*: `0 < c.cap`), on the events
posted (STOP events allowed) or on what the handlers post (`c.selfPosts` arbitrary).

`pastTest s`: the consumer has passed the fabric test of its current wake-up and has not yet handed
the event to the run-to-completion step (program counters `n, p, r0, r1`).  From `h` on the event is
already in `dispatched`, so these later program counters of the iteration need not be excluded
(`inIteration` is the wider predicate; corollary `C13_stop_no_new_step_outside_iteration`).

Measure: `stopMu c s` (`MirosModel/Conc/LDFab.lean`) = posting work left (8 per post + program
counter weight) + consumer weight (steps left on `… d → t → w → f → d → t → fin`, plus the posting
work of the step in progress) + `3·(cap − tok)` (room for the token top-up loops).  Every enabled
step of a stopped system decreases it.
-/
namespace Miros.Props.C13Stop
open Miros.Queue Miros.Conc Miros.Conc.LDFab
open Miros.Conc.LD (Config State Kind Poster CPc PPc postersDone)

/-- `s` is reachable: the state after some schedule from the initial state -/
def Reach (c : Config) (progs : List (List (Kind × Ev))) (s : State) : Prop :=
  ∃ sch0, run c (init c progs) sch0 = s

theorem hta : Miros.Gen.ldAlg = .tokenAfter := by decide

theorem sinv {c : Config} {progs : List (List (Kind × Ev))} {s : State}
    (halg : c.alg = Miros.Gen.ldAlg) (hr : Reach c progs s) (hf : s.fabFlag = false) :
    SInv progs.length s := by
  obtain ⟨sch0, rfl⟩ := hr
  exact sinv_of_reach (halg.trans hta) progs sch0 hf

/-! ### 1. the flag stays down -/

/-- **C13 (the flag stays down).** Once the fabric flag is cleared no step of any thread sets it
again: it is down after every further schedule. -/
theorem C13_stop_flag_stays_down (c : Config) (s : State) (hf : s.fabFlag = false)
    (sch : List Tid) : (run c s sch).fabFlag = false :=
  run_fab_down c s sch hf

/-- the same from the initial state: after a schedule that contains the `fabstop` step the flag is
down, whatever was scheduled before and after -/
theorem C13_stop_flag_down_after_fabstop (c : Config) (progs : List (List (Kind × Ev)))
    (sch1 sch2 : List Tid) : (run c (init c progs) (sch1 ++ .fabstop :: sch2)).fabFlag = false := by
  rw [run_append]; exact run_fabstop c _ sch2

/-! ### 2. no run-to-completion step starts after the stop -/

/-- **C13 (no new step).** In a state with the fabric flag down in which the consumer is not
between a successful fabric test and the dispatch of that wake-up, no event is dispatched any more:
after every further schedule `dispatched` is what it was (and the consumer is still not past a
fabric test). -/
theorem C13_stop_no_new_step (c : Config) (s : State) (hf : s.fabFlag = false)
    (hp : pastTest s = false) (sch : List Tid) :
    (run c s sch).dispatched = s.dispatched ∧ pastTest (run c s sch) = false :=
  let h := run_no_dispatch c s sch hf hp
  ⟨h.2.2, h.2.1⟩

/-- the same with the wider exclusion asked for in the property text (the consumer is nowhere
between a successful fabric test and the end of that iteration) -/
theorem C13_stop_no_new_step_outside_iteration (c : Config) (s : State) (hf : s.fabFlag = false)
    (hp : inIteration s = false) (sch : List Tid) : (run c s sch).dispatched = s.dispatched := by
  refine (C13_stop_no_new_step c s hf ?_ sch).1
  unfold inIteration at hp; unfold pastTest
  cases hc : s.cpc <;> simp [hc] at hp ⊢

/-- **C13 (at most the step in progress).** In any state with the fabric flag down, after every
further schedule `dispatched` is what it was plus at most one event; and if one event was added,
the consumer had passed the fabric test before the stop (the step was already in progress) and is
now past the dispatch. -/
theorem C13_stop_at_most_the_step_in_progress (c : Config) (s : State) (hf : s.fabFlag = false)
    (sch : List Tid) :
    ∃ l : List Ev, l.length ≤ 1 ∧ (run c s sch).dispatched = s.dispatched ++ l ∧
      (l ≠ [] → pastTest s = true ∧ pastTest (run c s sch) = false) := by
  rcases run_dispatch_le_one c s sch hf with h | ⟨h1, h2, e, he⟩
  · exact ⟨[], by simp, by simp [h], fun h' => absurd rfl h'⟩
  · exact ⟨[e], by simp, he, fun _ => ⟨h1, h2⟩⟩

/-- the two statements for the states reachable from the initial state: whatever is scheduled
before and after the `fabstop` step, at most one event is dispatched after it -/
theorem C13_stop_at_most_one_after_fabstop (c : Config) (progs : List (List (Kind × Ev)))
    (sch1 sch2 : List Tid) :
    ∃ l : List Ev, l.length ≤ 1 ∧
      (run c (init c progs) (sch1 ++ .fabstop :: sch2)).dispatched =
        (run c (init c progs) sch1).dispatched ++ l := by
  have hf := run_fabstop c (run c (init c progs) sch1) []
  obtain ⟨l, h1, h2, _⟩ :=
    C13_stop_at_most_the_step_in_progress c (run c (run c (init c progs) sch1) [.fabstop]) hf sch2
  refine ⟨l, h1, ?_⟩
  have e : sch1 ++ Tid.fabstop :: sch2 = sch1 ++ ([Tid.fabstop] ++ sch2) := by simp
  rw [e, run_append, run_append, h2, run_fabstop_dispatched]

/-! ### 3. the thread ends at the next wake-up -/

/-- **C13 (the next wake-up, step by step).** A consumer that waits (`w`) when the flag is down and
finds a token: its next four steps take the token, find the flag down and clear the own run flag,
acknowledge the token, and leave the loop — nothing is dispatched, the deque is untouched. -/
theorem C13_stop_next_wakeup (c : Config) (s : State) (hf : s.fabFlag = false) (hc : s.cpc = .w)
    (ht : s.tok ≠ 0) :
    (run c s [.ld 0, .ld 0, .ld 0, .ld 0]).cpc = .fin ∧
    (run c s [.ld 0, .ld 0, .ld 0, .ld 0]).runFlag = false ∧
    (run c s [.ld 0, .ld 0, .ld 0, .ld 0]).dispatched = s.dispatched ∧
    (run c s [.ld 0, .ld 0, .ld 0, .ld 0]).dq = s.dq ∧
    (run c s [.ld 0, .ld 0, .ld 0, .ld 0]).tok = s.tok - 1 :=
  next_wakeup_ends c s hf hc ht

/-- **C13 (the thread ends; a token is available).** Let `s` be reachable with the fabric flag
down and the next wake-up certain (`wakes s`: a token is in the token queue, or the consumer holds
one and is about to test the flag, or its run flag is already down and it is not waiting).  Then
every schedule that gives the consumer at least `stopMu c s` turns — whatever the posters do in
between, no fairness towards them is needed — ends with the consumer thread finished. -/
theorem C13_stop_thread_ends (c : Config) (progs : List (List (Kind × Ev)))
    (halg : c.alg = Miros.Gen.ldAlg) (s : State) (hr : Reach c progs s) (hf : s.fabFlag = false)
    (hw : wakes s = true) (sch : List Tid) (hturns : stopMu c s ≤ sch.count (.ld 0)) :
    (run c s sch).cpc = .fin :=
  consumer_turns_finish (halg.trans hta) sch s (sinv halg hr hf) hw hturns

/-- an explicit bounded schedule: `stopMu c s` turns of the consumer alone -/
theorem C13_stop_thread_ends_alone (c : Config) (progs : List (List (Kind × Ev)))
    (halg : c.alg = Miros.Gen.ldAlg) (s : State) (hr : Reach c progs s) (hf : s.fabFlag = false)
    (hw : wakes s = true) : (run c s (List.replicate (stopMu c s) (.ld 0))).cpc = .fin :=
  C13_stop_thread_ends c progs halg s hr hf hw _ (by simp)

/-- **C13 (the thread ends; a token arrives).** Let `s` be reachable with the fabric flag down, the
capacity not zero, and poster `i` inside a post for which it has not yet put the token
(`aboutToPut`).  Then after any schedule `sch1` with at least `putRank` (≤ 4) turns of that poster
the wake-up is certain, and after any further schedule `sch2` with at least `stopMu c s` turns of the
consumer the consumer thread has ended. -/
theorem C13_stop_thread_ends_post_arrives (c : Config) (progs : List (List (Kind × Ev)))
    (halg : c.alg = Miros.Gen.ldAlg) (hcap : 0 < c.cap) (s : State) (hr : Reach c progs s)
    (hf : s.fabFlag = false) (i : Nat) (p : Poster) (hp : s.posters[i]? = some p)
    (ha : aboutToPut p = true) (sch1 sch2 : List Tid)
    (h1 : putRank p.pc ≤ sch1.count (.ld (i + 1))) (h2 : stopMu c s ≤ sch2.count (.ld 0)) :
    wakes (run c s sch1) = true ∧ (run c s (sch1 ++ sch2)).cpc = .fin := by
  have hI := sinv halg hr hf
  have hw := post_delivers_token (halg.trans hta) hcap i sch1 s p hI hp ha h1
  refine ⟨hw, ?_⟩
  rw [run_append]
  exact consumer_turns_finish (halg.trans hta) sch2 _ (hI.run (halg.trans hta) sch1) hw
    (Nat.le_trans (stopMu_run_le (halg.trans hta) s hI sch1) h2)

/-- **C13 (the thread ends; fair scheduling).** Let `s` be reachable with the fabric flag down and a
token available or arriving (`WakesOrPost`).  After more than `stopMu c s` rounds, each of which
gives the consumer and every poster at least one turn, no thread is enabled, the consumer thread
has ended and every posting program has run to its end. -/
theorem C13_stop_thread_ends_fair (c : Config) (progs : List (List (Kind × Ev)))
    (halg : c.alg = Miros.Gen.ldAlg) (s : State) (hr : Reach c progs s) (hf : s.fabFlag = false)
    (hw : WakesOrPost c s) (rounds : List (List Tid))
    (hfair : ∀ r ∈ rounds, ∀ k, k ≤ progs.length → Tid.ld k ∈ r)
    (hlen : stopMu c s < rounds.length) :
    (sys c).Quiescent (run c s rounds.flatten) ∧ (run c s rounds.flatten).cpc = .fin ∧
      ∀ q ∈ (run c s rounds.flatten).posters, q.posts = [] := by
  have hI := sinv halg hr hf
  have hq := fair_quiescent (halg.trans hta) s hI rounds hfair hlen
  have hI' := hI.run (halg.trans hta) rounds.flatten
  exact ⟨hq, quiescent_fin (halg.trans hta) hI'.inv (hw.run (halg.trans hta) _ s hI) hq,
    (quiescent_facts (halg.trans hta) hI'.inv hq).1⟩

/-- **C13 (finished for ever).** Once the consumer thread has ended it has no step at all, and no
step of any other thread revives it or dispatches an event: after every schedule it is still ended,
still disabled, and `dispatched` is the same. -/
theorem C13_stop_finished_for_ever (c : Config) (s : State) (hfin : s.cpc = .fin)
    (sch : List Tid) :
    (run c s sch).cpc = .fin ∧ step c (run c s sch) (.ld 0) = none ∧
      (run c s sch).dispatched = s.dispatched :=
  let h := run_fin c s sch hfin
  ⟨h.1, consumer_disabled_of_fin c _ h.1, h.2⟩

/-! ### 4. posters are never blocked by the stopped consumer -/

/-- **C13 (posts never block).** In every reachable state — before or after the stop, whatever the
consumer does or has done (waiting, stopped, ended) — every poster that still has posts to make is
enabled.  No capacity hypothesis. -/
theorem C13_stop_posts_never_block (c : Config) (progs : List (List (Kind × Ev)))
    (halg : c.alg = Miros.Gen.ldAlg) (s : State) (hr : Reach c progs s) (i : Nat) (p : Poster)
    (hp : s.posters[i]? = some p) (hne : p.posts ≠ []) : step c s (.ld (i + 1)) ≠ none := by
  obtain ⟨sch0, rfl⟩ := hr
  exact poster_enabled (halg.trans hta) (FInv.run (halg.trans hta) sch0 _ (FInv.init (halg.trans hta) progs))
    hp hne

/-- **C13 (no livelock after the stop).** From a reachable state with the fabric flag down every
schedule — fair or not — takes at most `stopMu c s` enabled steps: every post returns after
finitely many steps.  No capacity hypothesis. -/
theorem C13_stop_terminates (c : Config) (progs : List (List (Kind × Ev)))
    (halg : c.alg = Miros.Gen.ldAlg) (s : State) (hr : Reach c progs s) (hf : s.fabFlag = false)
    (sch : List Tid) : (sys c).effective s sch ≤ stopMu c s :=
  stopped_effective_le (halg.trans hta) s (sinv halg hr hf) sch

/-- **C13 (posts still return).** From a reachable state with the fabric flag down, after more than
`stopMu c s` rounds, each of which gives the consumer and every poster at least one turn, every
posting program has run to its end, whether or not the consumer ever wakes up (it has ended, or
waits with no token).  No capacity hypothesis. -/
theorem C13_stop_posts_still_return (c : Config) (progs : List (List (Kind × Ev)))
    (halg : c.alg = Miros.Gen.ldAlg) (s : State) (hr : Reach c progs s) (hf : s.fabFlag = false)
    (rounds : List (List Tid)) (hfair : ∀ r ∈ rounds, ∀ k, k ≤ progs.length → Tid.ld k ∈ r)
    (hlen : stopMu c s < rounds.length) :
    (∀ q ∈ (run c s rounds.flatten).posters, q.posts = []) ∧
    ((run c s rounds.flatten).cpc = .fin ∨
      ((run c s rounds.flatten).cpc = .w ∧ (run c s rounds.flatten).tok = 0)) := by
  have hI := sinv halg hr hf
  have hq := fair_quiescent (halg.trans hta) s hI rounds hfair hlen
  exact quiescent_facts (halg.trans hta) (hI.run (halg.trans hta) rounds.flatten).inv hq

/-! ### 5. non-vacuity: two posts before and two after `fabstop` -/

def demoCfg : Config :=
  { alg := Miros.Gen.ldAlg, cap := 4, refl := false, selfPosts := fun _ => [], stopSig := 8 }

/-- one poster, four fifo posts -/
def demoProgs : List (List (Kind × Ev)) :=
  [[(.fifo, ⟨20, 1⟩), (.fifo, ⟨21, 2⟩), (.fifo, ⟨22, 3⟩), (.fifo, ⟨23, 4⟩)]]

/-- two complete posts, then the consumer wakes up, passes the fabric test and is about to pop -/
def before : List Tid := List.replicate 10 (.ld 1) ++ List.replicate 5 (.ld 0)

/-- the state at the stop: two events queued, the consumer at `r0` of a step in progress -/
def atStop : State := run demoCfg (init demoCfg demoProgs) (before ++ [.fabstop])

example : demoCfg.alg = Miros.Gen.ldAlg := rfl
example : Reach demoCfg demoProgs atStop := ⟨_, rfl⟩
example : atStop.fabFlag = false ∧ atStop.cpc = .r0 ∧ pastTest atStop = true ∧ wakes atStop = true ∧
    atStop.dq = [⟨20, 1⟩, ⟨21, 2⟩] ∧ atStop.tok = 1 ∧ atStop.dispatched = [] := by decide
example : stopMu demoCfg atStop = 38 := by decide

/-- after the stop the poster makes its two other posts, then the consumer runs: it dispatches the
event of the step it had begun, ends at its next wake-up, and the three other events stay queued -/
example :
    let s := run demoCfg atStop (List.replicate 20 (.ld 1) ++ List.replicate 8 (.ld 0))
    s.dispatched = [⟨20, 1⟩] ∧ s.cpc = .fin ∧ s.runFlag = false ∧
    s.dq = [⟨21, 2⟩, ⟨22, 3⟩, ⟨23, 4⟩] ∧ s.tok = 3 ∧ s.err = false ∧
    s.posters.all (fun p => p.posts.isEmpty) = true := by decide

/-- the same with the consumer first, and with strict alternation: the same final state -/
example :
    let s := run demoCfg atStop (List.replicate 8 (.ld 0) ++ List.replicate 20 (.ld 1))
    s.dispatched = [⟨20, 1⟩] ∧ s.cpc = .fin ∧ s.dq = [⟨21, 2⟩, ⟨22, 3⟩, ⟨23, 4⟩] ∧
    s.posters.all (fun p => p.posts.isEmpty) = true := by decide
example :
    let s := run demoCfg atStop (List.replicate 20 [.ld 0, .ld 1]).flatten
    s.dispatched = [⟨20, 1⟩] ∧ s.cpc = .fin ∧ s.dq = [⟨21, 2⟩, ⟨22, 3⟩, ⟨23, 4⟩] ∧
    s.posters.all (fun p => p.posts.isEmpty) = true := by decide

/-- the consumer's last steps, one by one: the step in progress (`r0 r1 d`), the loop test, the
wake-up (`w`), the fabric test that fails (`f`), the acknowledgement, the loop test that fails -/
example :
    (List.range 9).map (fun k => (run demoCfg atStop (List.replicate k (.ld 0))).cpc) =
      [.r0, .r1, .d, .t, .w, .f, .d, .t, .fin] := by decide

/-- the bound of `C13_stop_terminates` on this run: 21 enabled steps ≤ 38 -/
example : (sys demoCfg).effective atStop (List.replicate 20 (.ld 1) ++ List.replicate 8 (.ld 0)) = 21 := by
  decide

/-- a stop that finds the consumer waiting (not past a fabric test): nothing is dispatched any
more, all four events stay queued, the thread ends at its next wake-up -/
def atStopWaiting : State :=
  run demoCfg (init demoCfg demoProgs) (List.replicate 10 (.ld 1) ++ [.ld 0, .fabstop])

example : atStopWaiting.fabFlag = false ∧ atStopWaiting.cpc = .w ∧ pastTest atStopWaiting = false ∧
    wakes atStopWaiting = true ∧ atStopWaiting.tok = 2 := by decide
example :
    let s := run demoCfg atStopWaiting (List.replicate 20 [.ld 0, .ld 1]).flatten
    s.dispatched = [] ∧ s.cpc = .fin ∧ s.dq = [⟨20, 1⟩, ⟨21, 2⟩, ⟨22, 3⟩, ⟨23, 4⟩] ∧
    s.posters.all (fun p => p.posts.isEmpty) = true := by decide

/-- a stop before anything was posted: the consumer waits with no token (`wakes` is false), the
poster is about to put one (`WakesOrPost` holds) -/
def atStopEarly : State := run demoCfg (init demoCfg demoProgs) [.ld 0, .fabstop]

example : atStopEarly.cpc = .w ∧ atStopEarly.tok = 0 ∧ wakes atStopEarly = false := by decide
example : WakesOrPost demoCfg atStopEarly :=
  .inr ⟨by decide, 0,
    ⟨[(.fifo, ⟨20, 1⟩), (.fifo, ⟨21, 2⟩), (.fifo, ⟨22, 3⟩), (.fifo, ⟨23, 4⟩)], .a0, 0⟩, rfl, by decide⟩
example :
    let s := run demoCfg atStopEarly (List.replicate 3 (.ld 1) ++ List.replicate 4 (.ld 0))
    wakes (run demoCfg atStopEarly (List.replicate 3 (.ld 1))) = true ∧
    s.cpc = .fin ∧ s.dispatched = [] ∧ s.dq = [⟨20, 1⟩] := by decide

/-- the theorems instantiated on the demo -/
example (sch : List Tid) : (run demoCfg atStop sch).fabFlag = false :=
  C13_stop_flag_stays_down demoCfg atStop (by decide) sch
example (sch : List Tid) : (run demoCfg atStopWaiting sch).dispatched = [] :=
  (C13_stop_no_new_step demoCfg atStopWaiting (by decide) (by decide) sch).1
example (sch : List Tid) (h : 38 ≤ sch.count (.ld 0)) : (run demoCfg atStop sch).cpc = .fin :=
  C13_stop_thread_ends demoCfg demoProgs rfl atStop ⟨_, rfl⟩ (by decide) (by decide) sch
    (by rw [show stopMu demoCfg atStop = 38 by decide]; exact h)
example (sch : List Tid) : (sys demoCfg).effective atStop sch ≤ 38 := by
  have := C13_stop_terminates demoCfg demoProgs rfl atStop ⟨_, rfl⟩ (by decide) sch
  rwa [show stopMu demoCfg atStop = 38 by decide] at this

end Miros.Props.C13Stop
