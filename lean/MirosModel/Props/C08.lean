import MirosModel.Conc.FabricInv
import MirosModel.Gen.Constants
/-!
# C08 — the fabric hands events out in (priority, publish order)

"Events waiting in the active fabric are delivered in priority order (smaller priority number
first), and events of equal priority reach each subscriber in the order they were published. This
holds however far the delivery threads lag behind the publishers."

Model: `Miros.Conc.Fab`; the tag `feOrder` of `Miros.Gen.fabTags` is `.prioSeq`
(`FabricEvent.__lt__` compares `(priority, sequence number)`).
* `minFE` — what `PriorityQueue.get` returns — is the least pending element for the lexicographic
  order on `(prio, seq)`;
* whatever is queued (`drain`: successive `get`s with no `put` in between, i.e. a delivery thread
  lagging arbitrarily far behind) comes out sorted by `(prio, seq)`;
* sequence numbers are handed out from a counter that never decreases, so "smaller seq" is
  "published earlier".
-/
namespace Miros.Props.C08
open Miros.Conc Miros.Conc.Fab

theorem fabTags_prioSeq : Miros.Gen.fabTags.feOrder = .prioSeq := by decide

/-- **C08 (get returns the least).** The element `get` returns is in the queue and is least for
`(priority, sequence number)`; `get` blocks exactly on the empty queue. -/
theorem C08_min_least (l : List FE) :
    (∀ m, minFE Miros.Gen.fabTags l = some m →
      m ∈ l ∧ ∀ x ∈ l, m.prio < x.prio ∨ (m.prio = x.prio ∧ m.seq ≤ x.seq)) ∧
    (minFE Miros.Gen.fabTags l = none ↔ l = []) :=
  ⟨fun _ h => ⟨minFE_mem h, minFE_least fabTags_prioSeq h⟩, minFE_eq_none⟩

/-- the same for every tag set whose order is `(prio, seq)` -/
theorem C08_min_least_generic (t : Tags) (ht : t.feOrder = .prioSeq) (l : List FE) (m : FE)
    (h : minFE t l = some m) :
    m ∈ l ∧ ∀ x ∈ l, m.prio < x.prio ∨ (m.prio = x.prio ∧ m.seq ≤ x.seq) :=
  ⟨minFE_mem h, minFE_least ht h⟩

/-- **C08 (draining a backlog).** However many fabric events are waiting (pairwise distinct
sequence numbers — an invariant of the system, see `C08_backlog_has_distinct_seqs`), successive
`get`s hand out exactly the waiting events (a permutation), sorted by priority and, within one
priority, by sequence number. -/
theorem C08_drain_sorted (l : List FE) (hd : (l.map (·.seq)).Nodup) :
    (drain Miros.Gen.fabTags l).Perm l ∧
    List.Pairwise (fun a b => a.prio < b.prio ∨ (a.prio = b.prio ∧ a.seq < b.seq))
      (drain Miros.Gen.fabTags l) :=
  ⟨drain_perm _ l, drain_sorted fabTags_prioSeq l hd⟩

/-- `drain` really is "get, then get from what is left" -/
theorem C08_drain_unfold (t : Tags) (l : List FE) (m : FE) (h : minFE t l = some m) :
    drain t l = m :: drain t (l.erase m) := by
  have hmem := minFE_mem h
  have hlen : l.length = (l.erase m).length + 1 := by
    rw [List.length_erase_of_mem hmem]
    cases l with
    | nil => simp at hmem
    | cons _ _ => simp
  unfold drain
  rw [hlen]
  simp [drainAux, h]

/-- the hypothesis of `C08_drain_sorted` holds for both fabric queues in every reachable state -/
theorem C08_backlog_has_distinct_seqs (subs : List SubQ) (progs : List (List Call)) (sched : List Nat) :
    let s := (sys Miros.Gen.fabTags).run (init subs progs) sched
    (s.fq.map (·.seq)).Nodup ∧ (s.lq.map (·.seq)).Nodup := by
  intro s
  have hi : SeqInv s := SeqInv_run _ (SeqInv_init subs progs) sched
  exact ⟨(hi.1.sublist (List.sublist_append_left _ _)).1, (hi.2.sublist (List.sublist_append_left _ _)).1⟩

/-- **C08 (two successive gets).** If a `get` returns `a` and the next `get` on the same queue,
with no `put` in between, returns `b`, then `a` comes before `b`: smaller priority number, or equal
priority and published earlier. -/
theorem C08_successive_gets_ordered (l : List FE) (a b : FE)
    (ha : minFE Miros.Gen.fabTags l = some a)
    (hb : minFE Miros.Gen.fabTags (l.erase a) = some b) :
    a.prio < b.prio ∨ (a.prio = b.prio ∧ a.seq ≤ b.seq) :=
  minFE_least fabTags_prioSeq ha b (List.mem_of_mem_erase (minFE_mem hb))

/-- with distinct sequence numbers the order is strict -/
theorem C08_successive_gets_strict (l : List FE) (a b : FE) (hd : (l.map (·.seq)).Nodup)
    (ha : minFE Miros.Gen.fabTags l = some a)
    (hb : minFE Miros.Gen.fabTags (l.erase a) = some b) :
    a.prio < b.prio ∨ (a.prio = b.prio ∧ a.seq < b.seq) := by
  have hl := nodup_of_nodup_map hd
  have hbm := (List.Nodup.mem_erase_iff hl).1 (minFE_mem hb)
  have hle := minFE_least fabTags_prioSeq ha b hbm.2
  have hs : a.seq ≠ b.seq := fun e => hbm.1 (eq_of_nodup_map hd hbm.2 (minFE_mem ha) e.symm)
  unfold FE.le at hle; omega

/-! ### publish order is sequence-number order -/

/-- **C08 (the counter).** Every step of every thread keeps the sequence counter non-decreasing,
and so does every schedule. -/
theorem C08_nextSeq_monotone (s : State) (sched : List Nat) :
    (∀ tid s', (sys Miros.Gen.fabTags).step s tid = some s' → s.nextSeq ≤ s'.nextSeq) ∧
    s.nextSeq ≤ ((sys Miros.Gen.fabTags).run s sched).nextSeq :=
  ⟨fun _ _ h => nextSeq_mono_step h, nextSeq_mono_run sched s⟩

/-- **C08 (fresh sequence numbers).** The three places that create a `FE` — entering `publish`
(lifo `FE`), the lifo put of `publish` (fifo `FE`), `stop` — give it the current counter value
and increment the counter. -/
theorem C08_publish_order_is_seq_order (t : Tags) (s : State) (c c' : Client) (s1 : State)
    (lbl : String) (rest : List Call) (h : clientStep t s c = some (c', s1, lbl)) :
    (∀ sig uid prio, c.pc = .call → c.calls = .publish sig uid prio :: rest →
        c'.pc = .putL ⟨prio, s.nextSeq, some ⟨sig, uid⟩⟩ sig uid prio ∧ s1.nextSeq = s.nextSeq + 1) ∧
    (∀ call fe sig uid prio, c.pc = .putL fe sig uid prio → c.calls = call :: rest →
        c'.pc = .putF ⟨prio, s.nextSeq, some ⟨sig, uid⟩⟩ ∧ s1.nextSeq = s.nextSeq + 1) ∧
    (c.pc = .call → c.calls = .stop :: rest →
        (c'.pc = .stopPutF ⟨1, s.nextSeq, none⟩ ∧ s1.nextSeq = s.nextSeq + 1 ∨
         c'.pc = .stopPutL ⟨1, s.nextSeq, none⟩ ∧ s1.nextSeq = s.nextSeq + 1 ∨
         c'.pc = .call ∧ s1.nextSeq = s.nextSeq)) ∧
    (∀ call, c.pc = .stopJoinF → c.calls = call :: rest →
        (c'.pc = .stopPutL ⟨1, s.nextSeq, none⟩ ∧ s1.nextSeq = s.nextSeq + 1 ∨
         c'.pc = .call ∧ s1.nextSeq = s.nextSeq)) ∧
    -- no other step creates a `FE` or moves the counter
    ((c.pc = .call → ∀ sig uid prio, c.calls ≠ .publish sig uid prio :: rest) →
     (c.pc = .call → c.calls ≠ .stop :: rest) → (∀ fe sig uid prio, c.pc ≠ .putL fe sig uid prio) →
     c.pc ≠ .stopJoinF → c.calls.tail = rest →
       s1.nextSeq = s.nextSeq ∧ (∀ x ∈ pendF c', x ∈ pendF c) ∧ (∀ x ∈ pendL c', x ∈ pendL c)) := by
  refine ⟨?_, ?_, ?_, ?_, ?_⟩
  · intro sig uid prio hpc hc
    simp only [clientStep, hpc, hc, Option.some.injEq, Prod.mk.injEq] at h
    obtain ⟨rfl, rfl, _⟩ := h
    simp
  · intro call fe sig uid prio hpc hc
    simp only [clientStep, hpc, hc, Option.some.injEq, Prod.mk.injEq] at h
    obtain ⟨rfl, rfl, _⟩ := h
    simp
  · intro hpc hc
    by_cases hF : alive s.thrF <;> by_cases hL : alive s.thrL <;>
      simp only [clientStep, hpc, hc, hF, hL, if_true, Option.some.injEq, Prod.mk.injEq] at h <;>
      obtain ⟨rfl, rfl, _⟩ := h <;> simp [finishCall]
  · intro call hpc hc
    by_cases hF : alive s.thrF <;> by_cases hL : alive s.thrL <;>
      simp only [clientStep, hpc, hc, hF, hL, if_true, if_false, Option.some.injEq, Prod.mk.injEq,
        reduceCtorEq] at h <;>
      obtain ⟨rfl, rfl, _⟩ := h <;> simp [finishCall]
  · intro h1 h2 h3 h4 h5
    client_cases h
    all_goals try (exact absurd (by assumption) (h3 _ _ _ _))
    all_goals simp_all [pendF, pendL, finishCall, doStart_frame]

/-- **C08 (later creation, larger number).** In every reachable state every `FE` that exists —
queued in either fabric queue or in the hands of a client about to put it — has a sequence number
below the counter; since a `FE` created by a later step gets the counter value of that later
moment (`C08_publish_order_is_seq_order`, `C08_nextSeq_monotone`), it has a larger sequence number
than every `FE` created before. -/
theorem C08_existing_seqs_below_counter (subs : List SubQ) (progs : List (List Call)) (sched : List Nat) :
    let s := (sys Miros.Gen.fabTags).run (init subs progs) sched
    (∀ x ∈ s.fq, x.seq < s.nextSeq) ∧ (∀ x ∈ s.lq, x.seq < s.nextSeq) ∧
    (∀ c ∈ s.clients, ∀ x, (x ∈ pendF c ∨ x ∈ pendL c) → x.seq < s.nextSeq) := by
  intro s
  have hi : SeqInv s := SeqInv_run _ (SeqInv_init subs progs) sched
  refine ⟨fun x hx => hi.1.2 x (by simp [hx]), fun x hx => hi.2.2 x (by simp [hx]), ?_⟩
  intro c hc x hx
  rcases hx with hx | hx
  · exact hi.1.2 x (by simp only [List.mem_append, List.mem_flatMap]; exact Or.inr ⟨c, hc, hx⟩)
  · exact hi.2.2 x (by simp only [List.mem_append, List.mem_flatMap]; exact Or.inr ⟨c, hc, hx⟩)

/-! ### non-vacuity -/

/-- three waiting events: priorities 5, 1, 5 published in this order — handed out as
prio 1 first, then the two prio-5 events in publish order -/
example :
    drain Miros.Gen.fabTags [⟨5, 0, some ⟨1, 100⟩⟩, ⟨1, 1, some ⟨1, 101⟩⟩, ⟨5, 2, some ⟨1, 102⟩⟩] =
      [⟨1, 1, some ⟨1, 101⟩⟩, ⟨5, 0, some ⟨1, 100⟩⟩, ⟨5, 2, some ⟨1, 102⟩⟩] := by decide

/-- with the legacy comparison (priority only) two waiting events of equal priority come out in
the order they sit in the queue (put order), not in sequence-number order: a publisher that drew
its number first but put second is overtaken -/
example :
    drain { Miros.Gen.fabTags with feOrder := .prioOnly }
        [⟨5, 2, some ⟨1, 102⟩⟩, ⟨5, 0, some ⟨1, 100⟩⟩] =
      [⟨5, 2, some ⟨1, 102⟩⟩, ⟨5, 0, some ⟨1, 100⟩⟩] ∧
    drain Miros.Gen.fabTags [⟨5, 2, some ⟨1, 102⟩⟩, ⟨5, 0, some ⟨1, 100⟩⟩] =
      [⟨5, 0, some ⟨1, 100⟩⟩, ⟨5, 2, some ⟨1, 102⟩⟩] := by decide

/-- the whole system: a client publishes three events (priorities 5, 1, 5) before the fabric is
started, so the delivery threads lag behind by the whole backlog; the subscriber gets them in
(priority, publish order) -/
example :
    ((sys Miros.Gen.fabTags).run
      (init [⟨10, false, []⟩]
        [[.subscribe 10 1 .fifo, .publish 1 100 5, .publish 1 101 1, .publish 1 102 5, .start]])
      ([2, 2,2,2, 2,2,2, 2,2,2, 2] ++ [0, 0,0, 0,0, 0,0])).subs =
      [⟨10, false, [⟨1, 101⟩, ⟨1, 100⟩, ⟨1, 102⟩]⟩] := by
  decide +kernel

end Miros.Props.C08
