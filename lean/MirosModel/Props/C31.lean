import MirosModel.Conc.AOInv
import MirosModel.Conc.AOEx
import MirosModel.Gen.Constants
/-!
# C31 — a timed post beyond the tracking capacity is rejected and creates nothing

"When an active object already tracks its maximum number of timed sources, a further timed post
raises ActiveObjectOutOfPostedEventResources, the rejected source never posts its event, and the
sources already tracked keep running."

Model: `Miros.Conc.AO` (`MirosModel/Conc/AO.lean`), tags `Miros.Gen.aoTags` (`checkBeforeStart`:
the capacity test precedes the creation of the source's thread).  `s.order` is
`posted_events_queue` (indices of the tracked sources), `s.maxTimers` its capacity, client `j` is
thread `300 + j`; a client's `results` hold, per timed post, `1 + index` of the new source or `0`
for `ActiveObjectOutOfPostedEventResources`.
-/
namespace Miros.Props.C31
open Miros.Queue Miros.Conc Miros.Conc.LD Miros.Conc.AO

/-- **C31 (rejected).** A timed post made while `maxTimers` sources are tracked is rejected (result
`0`) and changes nothing else: no timer is created (the list of timer threads is the same, so no
thread exists that could ever post the rejected event), the tracked sources, their flags and
program counters, the queue and the clock are untouched. -/
theorem C31_rejected_creates_nothing (c : Config) (s : AO.State) (j : Nat) (cl : Client)
    (kind : Kind) (sig period total : Nat) (deferred : Bool) (rest : List Call)
    (hj : j < 700) (hcl : s.clients[j]? = some cl) (hpc : cl.pc = .call)
    (hc : cl.calls = .timed kind sig period total deferred :: rest)
    (hfull : s.maxTimers ≤ trackedCount s) :
    ∃ s', AO.stepL Miros.Gen.aoTags c s (300 + j) = some (s', "call.timed=rejected") ∧
      s'.timers = s.timers ∧ s'.order = s.order ∧ s'.ld = s.ld ∧ s'.now = s.now ∧
      s'.clients[j]? = some { calls := rest, pc := .call, post := cl.post, results := cl.results ++ [0] } := by
  have hjl : j < s.clients.length := by
    rcases Nat.lt_or_ge j s.clients.length with h | h
    · exact h
    · rw [List.getElem?_eq_none h] at hcl; simp at hcl
  have hs := CStep.sound (g := Miros.Gen.aoTags) (c := c) (by decide) (by decide) hcl
    (CStep.timedRejected kind sig period total deferred rest hpc hc hfull)
  rw [← stepL_client _ _ _ _ hj] at hs
  refine ⟨_, hs, rfl, rfl, rfl, rfl, ?_⟩
  simp [finishCall, hc, hjl]

/-- **C31 (accepted).** Below the capacity the post is accepted: a new source is created at the next
index with its run flag set, its thread started, tracked at the right end of
`posted_events_queue`; the caller gets `index + 1`; the existing timers are unchanged. -/
theorem C31_accepted_tracked (c : Config) (s : AO.State) (j : Nat) (cl : Client)
    (kind : Kind) (sig period total : Nat) (deferred : Bool) (rest : List Call)
    (hj : j < 700) (hcl : s.clients[j]? = some cl) (hpc : cl.pc = .call)
    (hc : cl.calls = .timed kind sig period total deferred :: rest)
    (hroom : trackedCount s < s.maxTimers) :
    ∃ s' tm, AO.stepL Miros.Gen.aoTags c s (300 + j) = some (s', "call.timed=ok") ∧
      s'.timers = s.timers ++ [tm] ∧ s'.order = s.order ++ [s.timers.length] ∧
      tm.flag = true ∧ tm.started = true ∧ tm.tracked = true ∧ tm.pc = .b ∧ tm.id = s.timers.length ∧
      tm.kind = kind ∧ tm.name = sig ∧ tm.period = period ∧ tm.total = total ∧ tm.deferred = deferred ∧
      tm.placedAt = [] ∧ tm.activated = 0 ∧ tm.createdAt = s.now ∧
      s'.clients[j]? = some { calls := rest, pc := .call, post := cl.post,
                              results := cl.results ++ [s.timers.length + 1] } := by
  have hjl : j < s.clients.length := by
    rcases Nat.lt_or_ge j s.clients.length with h | h
    · exact h
    · rw [List.getElem?_eq_none h] at hcl; simp at hcl
  have hs := CStep.sound (g := Miros.Gen.aoTags) (c := c) (by decide) (by decide) hcl
    (CStep.timedOk kind sig period total deferred rest hpc hc hroom)
  rw [← stepL_client _ _ _ _ hj] at hs
  refine ⟨_, freshTimer s.now s.timers.length kind sig period total deferred, hs, rfl, rfl, ?_⟩
  simp [finishCall, hc, hjl, freshTimer]

/-- **C31 (bound).** In every reachable state at most `maxTimers` sources are tracked, no source is
tracked twice, and every tracked index is the index of an existing source. -/
theorem C31_tracked_bound (c : Config) (progs : List (List (Kind × Ev))) (clients : List (List Call))
    (maxTimers : Nat) (sched : List Nat) :
    let s := (AO.sys Miros.Gen.aoTags c).run (AO.init c progs clients maxTimers) sched
    s.maxTimers = maxTimers ∧ s.order.length ≤ maxTimers ∧ s.order.Nodup ∧ ∀ i ∈ s.order, i < s.timers.length := by
  intro s
  have hI : Inv s := Inv.run (by decide) (by decide) sched _ (Inv.init c progs clients maxTimers)
  have hm : s.maxTimers = maxTimers := by
    refine run_inv (g := Miros.Gen.aoTags) (c := c) (by decide) (by decide) (fun s => s.maxTimers = maxTimers) ?_ sched _
      (Inv.init c progs clients maxTimers) rfl
    intro s t s' lbl _ h hs
    rw [(step_timer (by decide) (by decide) hs).2.1]; exact h
  exact ⟨hm, hm ▸ hI.order_len, hI.order_nodup, hI.order_lt⟩

/-! ### non-vacuity: capacity 1, one client making two timed posts (`Miros.Conc.AO.Ex`) -/
open Miros.Conc.AO.Ex

example : exCfg.alg = Miros.Gen.ldAlg ∧ 0 < exCfg.cap := by decide
/-- the first post is accepted (source 0), the second is rejected and creates nothing -/
example : view (runEx Miros.Gen.aoTags [[.timed .fifo 5 3 2 true, .timed .lifo 6 1 0 false]] 1 [300])
    = ([[1]], 1, [0], [true]) := by decide
example : view (runEx Miros.Gen.aoTags [[.timed .fifo 5 3 2 true, .timed .lifo 6 1 0 false]] 1 [300, 300])
    = ([[1, 0]], 1, [0], [true]) := by decide
/-- the tracked source keeps running: it sleeps, wakes, takes its lock and places its event at time 3 -/
example : tview (runEx Miros.Gen.aoTags [[.timed .fifo 5 3 2 true, .timed .lifo 6 1 0 false]] 1
    [300, 300, 200, 1000, 200, 200, 200, 200]) = [(true, .p, [3])] := by decide

/-- tie of the model's single `maxTimers` to the source: every creation of `posted_events_queue` bounds the deque by the very
expression the capacity test of a timed post compares its length with (so a subclass that raises `QUEUE_SIZE` can really track that
many sources; with two different bounds the deque would silently drop the oldest tracked source while its thread keeps running).
Fails to build when the translator finds different expressions. -/
theorem tracked_capacity_is_test_capacity : Miros.Gen.aoTrackedCapIsTestCap = true := by decide

end Miros.Props.C31
