import MirosModel.Conc.AOLazy
import MirosModel.Conc.AOEx
import MirosModel.Gen.Constants
/-!
# C10 — timed posts: how many, when, and where in the queue

"A post_fifo/post_lifo call with period p and times n ≥ 1 posts the event exactly n times (absent
cancellation or stop): the first after p seconds if deferred (the default) or immediately if not,
then every p seconds; times=0 posts every p seconds indefinitely. Each posting goes to the back
(fifo) or front (lifo) of the queue."

Model: `Miros.Conc.AO` (`MirosModel/Conc/AO.lean`) under the generated tags `Miros.Gen.aoTags` and
posting algorithm `Miros.Gen.ldAlg`, any capacity `0 < c.cap`.  Timer `i` is thread `200 + i`
(`i < 100`: the thread-id range of the model), the clock is thread 1000 and jumps `now` to the
earliest pending wake-up time.  Ghost fields of a source `tm`: `createdAt` (instant of the creating
call), `deferred0` (its `deferred` argument), `placedAt` (instants of its placements in the deque,
in order); `tm.activated` is `times_activated`, `tm.total` is `times`.

What is shown: counting (never more than `n`, one placement per activation, exactly `n` once the
source's thread has ended if nobody cancels), timing (never early, at least a period apart; exactly
on time along schedules in which the clock only advances when nothing else can run — otherwise a
source can be late, never early), the place in the queue, and that a `times=0` source never stops
by itself.  That a source does reach its `n`-th post needs a fairness assumption on the schedule
and is not stated here.
-/
namespace Miros.Props.C10
open Miros.Queue Miros.Conc Miros.Conc.LD Miros.Conc.AO

/-- **C10 (the clock never goes back).** -/
theorem C10_clock_monotone (c : Config) (s : AO.State) (sched : List Nat) :
    s.now ≤ ((AO.sys Miros.Gen.aoTags c).run s sched).now :=
  now_mono_run (by decide) (by decide) sched s

/-! ### how many -/

/-- **C10 (one placement per activation).** In every reachable state, for every source: inside a post
(`pc = .p`) its program is the `LockingDeque` post of its one event; before that post's placement
step (`dq.append` / `dq.appendleft`) the placements are one behind the activations, after it — and
whenever the source is not inside a post — there are exactly as many placements as activations.
So every post places its event exactly once. -/
theorem C10_one_placement_per_post (c : Config) (h : c.alg = Miros.Gen.ldAlg) (_hc : 0 < c.cap)
    (progs : List (List (Kind × Ev))) (clients : List (List Call)) (maxTimers : Nat) (sched : List Nat)
    (i : Nat) (tm : Timer) :
    ((AO.sys Miros.Gen.aoTags c).run (AO.init c progs clients maxTimers) sched).timers[i]? = some tm →
    (tm.pc = .p → tm.post.posts = [(tm.kind, evOf tm)] ∧
      ((prePc tm.kind tm.post.pc = true ∧ tm.placedAt.length + 1 = tm.activated) ∨
       (postPc tm.post.pc = true ∧ tm.placedAt.length = tm.activated))) ∧
    (tm.pc ≠ .p → tm.placedAt.length = tm.activated) := by
  intro htm
  have hT := TInv.run (g := Miros.Gen.aoTags) (c := c) (by decide) (by decide) (h.trans (by decide)) sched _
    (TInv.init c progs clients maxTimers)
  exact (hT i tm htm).1

/-- **C10 (never more than n).** In every reachable state a source with `times = n ≥ 1` has been activated at
most `n` times, has placed its event at most as often as it was activated, and at least as often
minus the post in progress. -/
theorem C10_count_bounded (c : Config) (h : c.alg = Miros.Gen.ldAlg) (_hc : 0 < c.cap)
    (progs : List (List (Kind × Ev))) (clients : List (List Call)) (maxTimers : Nat) (sched : List Nat)
    (i : Nat) (tm : Timer) :
    ((AO.sys Miros.Gen.aoTags c).run (AO.init c progs clients maxTimers) sched).timers[i]? = some tm →
    tm.total ≠ 0 →
    tm.activated ≤ tm.total ∧ tm.placedAt.length ≤ tm.activated ∧ tm.placedAt.length ≤ tm.total ∧
    (tm.pc = .p → tm.activated ≤ tm.placedAt.length + 1) ∧ (tm.pc ≠ .p → tm.placedAt.length = tm.activated) := by
  intro htm ht
  have hT := TInv.run (g := Miros.Gen.aoTags) (c := c) (by decide) (by decide) (h.trans (by decide)) sched _
    (TInv.init c progs clients maxTimers)
  obtain ⟨⟨hp1, hp2⟩, hcnt, _⟩ := hT i tm htm
  have h1 := (hcnt ht).1
  by_cases hpc : tm.pc = .p
  · obtain ⟨_, hd⟩ := hp1 hpc
    refine ⟨h1, ?_, ?_, fun _ => ?_, fun hn => absurd hpc hn⟩ <;> rcases hd with ⟨_, hl⟩ | ⟨_, hl⟩ <;> omega
  · have := hp2 hpc
    exact ⟨h1, by omega, by omega, fun hp => absurd hp hpc, fun _ => this⟩

/-- **C10 (exactly n, absent cancellation or stop).** If the clients make only timed posts (no cancel, no
stop), then in every reachable state a source whose thread has ended had `times = n ≥ 1`, was
activated exactly `n` times and placed its event exactly `n` times; and a source's run flag is clear
only when its `n` activations are used up. -/
theorem C10_exactly_n (c : Config) (h : c.alg = Miros.Gen.ldAlg) (_hc : 0 < c.cap)
    (progs : List (List (Kind × Ev))) (clients : List (List Call)) (maxTimers : Nat)
    (honly : ∀ p ∈ clients, ∀ call ∈ p, isTimed call = true) (sched : List Nat) (i : Nat) (tm : Timer) :
    ((AO.sys Miros.Gen.aoTags c).run (AO.init c progs clients maxTimers) sched).timers[i]? = some tm →
    (tm.pc = .fin → tm.total ≠ 0 ∧ tm.activated = tm.total ∧ tm.placedAt.length = tm.total) ∧
    (tm.flag = false → tm.total ≠ 0 ∧ tm.activated = tm.total) := by
  intro htm
  have hT := TInv.run (g := Miros.Gen.aoTags) (c := c) (by decide) (by decide) (h.trans (by decide)) sched _
    (TInv.init c progs clients maxTimers)
  have hN := NoCancel.run (g := Miros.Gen.aoTags) (c := c) (by decide) (by decide) sched _
    ⟨OnlyTimed.init c progs clients maxTimers honly, by intro i tm h; simp [AO.init] at h⟩
  obtain ⟨⟨_, hp2⟩, hcnt, _⟩ := hT i tm htm
  obtain ⟨hf1, hf2⟩ := hN.2 i tm htm
  have hflag : tm.flag = false → tm.total ≠ 0 ∧ tm.activated = tm.total := by
    intro hf
    obtain ⟨a, b⟩ := hf1 hf
    exact ⟨a, by have := (hcnt a).1; omega⟩
  refine ⟨fun hfin => ?_, hflag⟩
  obtain ⟨a, b⟩ := hflag (hf2 hfin)
  have := hp2 (by rw [hfin]; simp)
  exact ⟨a, b, by omega⟩

/-! ### when -/

/-- **C10 (never early, a period apart).** In every reachable state, for every source: placement number `k`
(from 0) happened no earlier than `createdAt + (k + 1) * period` if the post was deferred,
`createdAt + k * period` if not — and not after the current instant; consecutive placements are
at least `period` apart. -/
theorem C10_never_early (c : Config) (h : c.alg = Miros.Gen.ldAlg) (_hc : 0 < c.cap)
    (progs : List (List (Kind × Ev))) (clients : List (List Call)) (maxTimers : Nat) (sched : List Nat)
    (i : Nat) (tm : Timer) :
    let s := (AO.sys Miros.Gen.aoTags c).run (AO.init c progs clients maxTimers) sched
    s.timers[i]? = some tm →
    (∀ k t, tm.placedAt[k]? = some t →
      tm.createdAt + (k + (if tm.deferred0 then 1 else 0)) * tm.period ≤ t ∧ t ≤ s.now) ∧
    (∀ k a b, tm.placedAt[k]? = some a → tm.placedAt[k + 1]? = some b → a + tm.period ≤ b) := by
  intro s htm
  have hT := TInv.run (g := Miros.Gen.aoTags) (c := c) (by decide) (by decide) (h.trans (by decide)) sched _
    (TInv.init c progs clients maxTimers)
  obtain ⟨_, _, _, hb, hs, _⟩ := hT i tm htm
  exact ⟨hb, hs⟩

/-- **C10 (the clock jumps to the earliest pending wake-up).** The clock thread is enabled only if some
started, sleeping source has its wake-up time ahead, and then sets `now` exactly to the smallest such
time; nothing else changes. -/
theorem C10_clock_jumps_to_min_wake (c : Config) (s s' : AO.State) (lbl : String)
    (h : AO.stepL Miros.Gen.aoTags c s 1000 = some (s', lbl)) :
    ∃ m, s' = { s with now := m } ∧ s.now < m ∧
      (∃ tm ∈ s.timers, tm.started = true ∧ tm.pc = .s ∧ s.now < tm.wake ∧ tm.wake = m) ∧
      (∀ tm ∈ s.timers, tm.started = true → tm.pc = .s → s.now < tm.wake → m ≤ tm.wake) := by
  obtain ⟨m, h1, _, ⟨tm, htm, hp, hw⟩, hmin⟩ := clock_cases h
  simp only [pendingWake, Bool.and_eq_true, decide_eq_true_eq] at hp
  refine ⟨m, h1, by omega, ⟨tm, htm, hp.1.1, hp.1.2, hp.2, hw⟩, ?_⟩
  intro tm' htm' h2 h3 h4
  exact hmin tm' htm' (by simp [pendingWake, h2, h3, h4])

/-- **C10 (a sleeping source wakes when its time has come).** The thread of a started source at `sleep` is
enabled iff `wake ≤ now`. -/
theorem C10_sleeping_enabled_iff (c : Config) (s : AO.State) (i : Nat) (hi : i < 100) (tm : Timer)
    (htm : s.timers[i]? = some tm) (hst : tm.started = true) (hpc : tm.pc = .s) :
    (AO.stepL Miros.Gen.aoTags c s (200 + i)).isSome = true ↔ tm.wake ≤ s.now :=
  timer_sleep_enabled_iff _ c s i hi tm htm hst hpc

/-- **C10 (exactly on time under a lazy clock).** Along every schedule in which the clock thread is chosen only
in states where no other thread id is enabled (`Lazy`: all other work takes no virtual time),
placement number `k` of every source happens exactly at `createdAt + (k + 1) * period` if the post was
deferred, `createdAt + k * period` if not. -/
theorem C10_exact_when_clock_is_lazy (c : Config) (h : c.alg = Miros.Gen.ldAlg) (_hc : 0 < c.cap)
    (progs : List (List (Kind × Ev))) (clients : List (List Call)) (maxTimers : Nat) (sched : List Nat)
    (hlazy : Lazy Miros.Gen.aoTags c (AO.init c progs clients maxTimers) sched)
    (i : Nat) (hi : i < 100) (tm : Timer) :
    ((AO.sys Miros.Gen.aoTags c).run (AO.init c progs clients maxTimers) sched).timers[i]? = some tm →
    ∀ k t, tm.placedAt[k]? = some t → t = tm.createdAt + (k + (if tm.deferred0 then 1 else 0)) * tm.period := by
  intro htm
  have hL := LazyInv.run (g := Miros.Gen.aoTags) (c := c) (by decide) (by decide) (h.trans (by decide)) sched _
    (LazyInv.init c progs clients maxTimers) hlazy
  exact (hL.2.2 i tm hi htm).1

/-! ### where -/

/-- the post started by a source is the `LockingDeque` post (fifo: `append`, lifo: `appendleft`) of its one
event object, and counts as one activation -/
theorem C10_start_post_program (c : Config) (tm : Timer) :
    (startPost c tm).post = ⟨[(tm.kind, evOf tm)], startPc c.alg tm.kind, 0⟩ ∧
    (startPost c tm).activated = tm.activated + 1 ∧ (startPost c tm).pc = .p := ⟨rfl, rfl, rfl⟩

/-- **C10 (back for fifo, front for lifo).** In every reachable state, the placement step of a source on a
deque that is not full puts its event at the back of the queue for a `post_fifo` source and at the
front for a `post_lifo` source, displaces nothing, and is logged in `placedAt` at the current instant. -/
theorem C10_placement_kind (c : Config) (h : c.alg = Miros.Gen.ldAlg) (_hc : 0 < c.cap)
    (progs : List (List (Kind × Ev))) (clients : List (List Call)) (maxTimers : Nat) (sched : List Nat)
    (i : Nat) (hi : i < 100) (s' : AO.State) (lbl : String) :
    let s := (AO.sys Miros.Gen.aoTags c).run (AO.init c progs clients maxTimers) sched
    AO.stepL Miros.Gen.aoTags c s (200 + i) = some (s', lbl) → isPlacement lbl = true → s.ld.dq.length < c.cap →
    ∃ tm tm', s.timers[i]? = some tm ∧ s'.timers[i]? = some tm' ∧
      s'.ld.dq = (if tm.kind = .fifo then s.ld.dq ++ [evOf tm] else evOf tm :: s.ld.dq) ∧
      s'.ld.displaced = s.ld.displaced ∧ tm'.placedAt = tm.placedAt ++ [s.now] := by
  intro s hst hpl hroom
  have hT := TInv.run (g := Miros.Gen.aoTags) (c := c) (by decide) (by decide) (h.trans (by decide)) sched _
    (TInv.init c progs clients maxTimers)
  obtain ⟨tm, tm', ld', htm, hs, htm', hld, _, _⟩ := timer_step_result (g := Miros.Gen.aoTags) (by decide) hi hst
  obtain ⟨h1, h2, h3, _⟩ := hs.placement (h.trans (by decide)) (hT i tm htm).1 hpl hroom
  exact ⟨tm, tm', htm, htm', by rw [hld]; exact h1, by rw [hld]; exact h2, h3⟩

/-! ### for ever -/

/-- **C10 (times = 0: the source never stops by itself).** In every reachable state, a step of the thread of a
source with `times = 0` leaves its run flag as it was; the step that ends a post, with the flag still
set, puts the source to sleep for one period (`wake = now + period`) — so it posts every period
until a client clears the flag. -/
theorem C10_unbounded (c : Config) (h : c.alg = Miros.Gen.ldAlg) (_hc : 0 < c.cap)
    (progs : List (List (Kind × Ev))) (clients : List (List Call)) (maxTimers : Nat) (sched : List Nat)
    (i : Nat) (hi : i < 100) (tm : Timer) (s' : AO.State) (lbl : String) :
    let s := (AO.sys Miros.Gen.aoTags c).run (AO.init c progs clients maxTimers) sched
    s.timers[i]? = some tm → tm.total = 0 → AO.stepL Miros.Gen.aoTags c s (200 + i) = some (s', lbl) →
    ∃ tm', s'.timers[i]? = some tm' ∧ tm'.total = 0 ∧ tm'.flag = tm.flag ∧
      (tm.pc = .p → tm'.pc ≠ .p → tm.flag = true →
        tm'.pc = .s ∧ tm'.wake = s.now + tm.period ∧ tm'.activated = tm.activated) := by
  intro s htm ht hst
  have hT := TInv.run (g := Miros.Gen.aoTags) (c := c) (by decide) (by decide) (h.trans (by decide)) sched _
    (TInv.init c progs clients maxTimers)
  obtain ⟨tm0, tm', ld', htm0, hs, htm', _⟩ := timer_step_result (g := Miros.Gen.aoTags) (by decide) hi hst
  rw [htm] at htm0; cases htm0
  obtain ⟨h1, h2, h3⟩ := hs.unbounded ht
  obtain ⟨_, _, _, _, _, _, _, _, t7⟩ := hT i tm htm
  exact ⟨tm', htm', h1, h2, fun hp hnp hf => h3 hp hnp hf (t7 hp).1⟩

/-- … and if the clients make only timed posts, a `times = 0` source keeps its flag and its thread never ends -/
theorem C10_unbounded_never_ends (c : Config)
    (progs : List (List (Kind × Ev))) (clients : List (List Call)) (maxTimers : Nat)
    (honly : ∀ p ∈ clients, ∀ call ∈ p, isTimed call = true) (sched : List Nat) (i : Nat) (tm : Timer) :
    ((AO.sys Miros.Gen.aoTags c).run (AO.init c progs clients maxTimers) sched).timers[i]? = some tm →
    tm.total = 0 → tm.flag = true ∧ tm.pc ≠ .fin := by
  intro htm ht
  have hN := NoCancel.run (g := Miros.Gen.aoTags) (c := c) (by decide) (by decide) sched _
    ⟨OnlyTimed.init c progs clients maxTimers honly, by intro i tm h; simp [AO.init] at h⟩
  obtain ⟨hf1, hf2⟩ := hN.2 i tm htm
  have hflag : tm.flag = true := by
    cases hf : tm.flag with
    | true => rfl
    | false => exact absurd ht (hf1 hf).1
  exact ⟨hflag, fun hfin => by rw [hf2 hfin] at hflag; cases hflag⟩

/-! ### non-vacuity (`Miros.Conc.AO.Ex`): source 0 fifo, period 3, twice, deferred; source 1 lifo, period 2, twice, at once -/
open Miros.Conc.AO.Ex

example : exCfg.alg = Miros.Gen.ldAlg ∧ 0 < exCfg.cap := by decide

/-- a lazy schedule (every thread runs until nothing but the clock can step): source 0 places at 3 and 6,
source 1 at 0 and 2, both threads end with exactly two activations; the lifo event went to the
front, so it was dispatched first -/
example :
    let prog : List (List Call) := [[.timed .fifo 5 3 2 true, .timed .lifo 6 2 2 false]]
    let sched := [300, 300, 200, 201, 201, 201, 201, 201, 201, 0, 0, 0, 0, 0, 0, 0, 0, 0, 1000, 201, 201, 201, 201,
      201, 201, 0, 0, 0, 0, 0, 0, 0, 0, 1000, 200, 200, 200, 200, 200, 200, 200, 0, 0, 0, 0, 0, 0, 0, 0, 1000, 200,
      200, 200, 200, 200, 200, 200, 0, 0, 0, 0, 0, 0, 0, 0]
    lazyB Miros.Gen.aoTags exCfg (AO.init exCfg [] prog 4) sched = true ∧
    tview (runEx Miros.Gen.aoTags prog 4 sched) = [(false, .fin, [3, 6]), (false, .fin, [0, 2])] ∧
    (runEx Miros.Gen.aoTags prog 4 sched).timers.map (·.activated) = [2, 2] ∧
    (runEx Miros.Gen.aoTags prog 4 sched).ld.dispatched.map (·.sig) = [6, 6, 5, 5] := by
  decide

/-- `lazyB … = true` gives `Lazy …` (`lazy_of_lazyB`), the hypothesis of `C10_exact_when_clock_is_lazy` -/
example : Lazy Miros.Gen.aoTags exCfg (AO.init exCfg [] [[.timed .fifo 5 3 2 true]] 4) [300, 200, 0, 1000, 200] :=
  lazy_of_lazyB _ _ _ _ (by decide)

/-- a schedule that is not lazy: the clock is advanced (to the wake-up time 10 of source 1) while source 0,
due at 3, is waiting to run: it places its event late, at 10 — never early -/
example :
    tview (runEx Miros.Gen.aoTags [[.timed .fifo 5 3 2 true, .timed .fifo 6 10 1 true]] 4
      [300, 300, 200, 201, 1000, 200, 1000, 200, 200, 200, 200, 200, 200, 200])
      = [(true, .s, [10]), (true, .s, [])] ∧
    lazyB Miros.Gen.aoTags exCfg (AO.init exCfg [] [[.timed .fifo 5 3 2 true, .timed .fifo 6 10 1 true]] 4)
      [300, 300, 200, 201, 1000, 200, 1000] = false := by
  decide

/-- fifo to the back, lifo to the front: with an event already queued by a plain poster -/
example :
    ((AO.sys Miros.Gen.aoTags exCfg).run (AO.init exCfg [[(.fifo, ⟨1, 1⟩)]] [[.timed .lifo 6 2 1 false]] 4)
      [1, 1, 300, 200, 200, 200]).ld.dq = [⟨6, 500000⟩, ⟨1, 1⟩] ∧
    ((AO.sys Miros.Gen.aoTags exCfg).run (AO.init exCfg [[(.fifo, ⟨1, 1⟩)]] [[.timed .fifo 6 2 1 false]] 4)
      [1, 1, 300, 200, 200, 200, 200]).ld.dq = [⟨1, 1⟩, ⟨6, 500000⟩] := by
  decide

end Miros.Props.C10
