import MirosModel.Hsm.FirstQueryLemmas
import MirosModel.Gen.Constants
/-!
# C24 — on ANY chart the processor does what the checked UML spec says, or raises

Model: `Miros.Hsm.dispatch` / `startAt` (faithful to hsm.py), spec: `specDispatchC` / `specStartC`.
Initial transitions may point anywhere, handlers may return `None`: where the checked spec says the
chart is malformed at the point reached (`none`), the processor raises; otherwise it performs
exactly the specified actions and rests in the specified state.  It never diverges.
The switches are the ones generated from the current source (`Miros.Gen.cfg`); the proofs use
`resync`, `drillGuard` (dispatch) and `initGuard` (start) being on, by `decide`.

The first part (`C24_dispatch_checked` …) is for charts whose handlers all end in
`else: temp = parent; return SUPER` (`fall = false`).  The second part (`C24_fall_*`) is about
*fall-through* states — handlers written as an `if/elif` ladder without that final `else`, which
answer `None` (and leave `temp` alone) to every signal they have no clause for: such a chart still
never makes the processor diverge in `dispatch` / `start_at`; it raises exactly when a fall-through
state lies on a path the step has to walk (or the chart is malformed otherwise), and a step that
does not touch the state is, call for call, the step of the repaired chart.
The parent queries of `init()` and of the init drill-down of `dispatch` check the status they get
(`superGuard`, on in the generated `cfg`): the exception comes right after the one unanswered query
(`C24_fall_raises_at_first_unanswered_query`); the behaviour of the code before that change
(`superGuard := false`: the repeat-parent checks catch the state one or two calls later, and only
if `drillGuard` is on in the drill-down) is kept in the `C24_witness_old_*` theorems.
-/
namespace Miros.Props.C24
open Miros.Hsm

theorem C24_dispatch_checked (c : Chart) (hf : ∀ s, c.fall s = false)
    (hdepth : ∀ s t, c.init s = some t → t.length ≤ c.depth)
    (htop : ∀ s n t, c.react s n = .tran t → t ≠ [])
    (cur : St) (n : Nat) :
    match specDispatchC c cur n with
    | some sr => ∃ r, dispatch c Miros.Gen.cfg cur n = .ok r ∧ actions r.log = sr.log ∧
                      r.state = sr.state ∧ r.temp = sr.state
    | none => ∃ l, dispatch c Miros.Gen.cfg cur n = .raise l :=
  dispatch_checked c hf Miros.Gen.cfg (by decide) (by decide) hdepth htop cur n

/-- `hd`: the declared depth is not the degenerate `0`, or `s` takes no initial transition.
(With `c.depth = 0` and `c.init s = some []` the fuel `c.depth + 1` of the model runs out: see
`start_depth0_diverges` below; `c.depth = 0` cannot bound a tree that contains `s ≠ top`.) -/
theorem C24_start_checked (c : Chart) (hf : ∀ s, c.fall s = false)
    (hdepth : ∀ s t, c.init s = some t → t.length ≤ c.depth)
    (s : St) (hs : s ≠ []) (hd : 0 < c.depth ∨ c.init s = none) :
    match specStartC c s with
    | some sr => ∃ r, startAt c Miros.Gen.cfg s = .ok r ∧ actions r.log = sr.log ∧
                      r.state = sr.state ∧ r.temp = sr.state
    | none => ∃ l, startAt c Miros.Gen.cfg s = .raise l := by
  have h := start_checked c hf Miros.Gen.cfg (by decide) hdepth s hs hd
  cases hsp : specStartC c s with
  | none => rw [hsp] at h; exact h
  | some sr =>
    rw [hsp] at h
    obtain ⟨r, h1, h2, h3, h4, _⟩ := h
    exact ⟨r, h1, h2, h3, h4⟩

/-- never diverges (dispatch) -/
theorem C24_dispatch_no_diverge (c : Chart) (hf : ∀ s, c.fall s = false)
    (hdepth : ∀ s t, c.init s = some t → t.length ≤ c.depth)
    (htop : ∀ s n t, c.react s n = .tran t → t ≠ [])
    (cur : St) (n : Nat) (l : Log) : dispatch c Miros.Gen.cfg cur n ≠ .diverge l := by
  have h := C24_dispatch_checked c hf hdepth htop cur n
  intro e
  cases hsp : specDispatchC c cur n with
  | none => rw [hsp] at h; obtain ⟨l', h⟩ := h; rw [e] at h; cases h
  | some sr => rw [hsp] at h; obtain ⟨r, h, _⟩ := h; rw [e] at h; cases h

/-! ### non-vacuity -/

/-- a chart with one good and two malformed initial transitions:
`[2,1]` → `[4,3,2,1]` (fine), `[5,1]` → `[1]` (outward), `[6,1]` → `[6,1]` (itself) -/
def demo : Chart where
  react := fun s n =>
    if s = [4, 3, 2, 1] ∧ n = 0 then .tran [2, 1]
    else if s = [4, 3, 2, 1] ∧ n = 1 then .tran [5, 1]
    else if s = [4, 3, 2, 1] ∧ n = 2 then .tran [6, 1]
    else if s = [3, 2, 1] ∧ n = 3 then .none
    else .pass
  init := fun s =>
    if s = [2, 1] then some [4, 3, 2, 1]
    else if s = [5, 1] then some [1]
    else if s = [6, 1] then some [6, 1]
    else none
  exitH := fun _ => true
  depth := 4
  fall := fun _ => false

theorem demo_depth : ∀ s t, demo.init s = some t → t.length ≤ demo.depth := by
  intro s t h
  simp only [demo] at h ⊢
  split at h
  · cases h; decide
  · split at h
    · cases h; decide
    · split at h
      · cases h; decide
      · cases h

theorem demo_top : ∀ s n t, demo.react s n = .tran t → t ≠ [] := by
  intro s n t h
  simp only [demo] at h
  repeat' split at h
  all_goals first | (cases h; decide) | cases h

example : specDispatchC demo [4, 3, 2, 1] 0 =
    some ⟨[4, 3, 2, 1],
      [⟨[4, 3, 2, 1], .user 0⟩, ⟨[4, 3, 2, 1], .exit⟩, ⟨[3, 2, 1], .exit⟩,
       ⟨[2, 1], .init⟩, ⟨[3, 2, 1], .entry⟩, ⟨[4, 3, 2, 1], .entry⟩, ⟨[4, 3, 2, 1], .init⟩]⟩ := by
  decide
example : specDispatchC demo [4, 3, 2, 1] 1 = none := by decide
example : specDispatchC demo [4, 3, 2, 1] 2 = none := by decide
example : specDispatchC demo [4, 3, 2, 1] 3 = none := by decide
example : specStartC demo [2, 1] =
    some ⟨[4, 3, 2, 1],
      [⟨[1], .entry⟩, ⟨[2, 1], .entry⟩, ⟨[2, 1], .init⟩, ⟨[3, 2, 1], .entry⟩,
       ⟨[4, 3, 2, 1], .entry⟩, ⟨[4, 3, 2, 1], .init⟩]⟩ := by decide
example : specStartC demo [5, 1] = none := by decide

/-- so the processor raises on the malformed initial transitions and on the `None` handler -/
example : ∃ l, dispatch demo Miros.Gen.cfg [4, 3, 2, 1] 1 = .raise l := by
  have := C24_dispatch_checked demo (fun _ => rfl) demo_depth demo_top [4, 3, 2, 1] 1
  rwa [show specDispatchC demo [4, 3, 2, 1] 1 = none from by decide] at this
example : ∃ l, startAt demo Miros.Gen.cfg [5, 1] = .raise l := by
  have := C24_start_checked demo (fun _ => rfl) demo_depth [5, 1] (by decide) (Or.inl (by decide))
  rwa [show specStartC demo [5, 1] = none from by decide] at this

/-- why `C24_start_checked` needs `hd`: a chart declaring `depth = 0` whose state `[1]` has an
initial transition to `top` satisfies `hdepth`, the checked spec says "malformed", and the model
runs out of its `depth + 1` fuel (the Python code raises here: a fuel artefact of the model). -/
def depth0 : Chart where
  react := fun _ _ => .pass
  init := fun s => if s = [1] then some [] else none
  exitH := fun _ => true
  depth := 0
  fall := fun _ => false

def isDiverge {α : Type} : Outcome α → Bool
  | .diverge _ => true
  | _ => false

theorem start_depth0_diverges :
    specStartC depth0 [1] = none ∧ isDiverge (startAt depth0 Miros.Gen.cfg [1]) = true := by
  decide

/-! ## fall-through states: handlers without the final `else: temp = parent; return SUPER`

`Clear c X` : no fall-through state on the path of `X`; `DClear c cur n` : none on the paths
`dispatch` walks for event `n` in state `cur` (the current state's path, the target's path, the
paths of the targets of the initial transitions followed from the target, `initChain`);
`c.noFall` : the chart with every final `else` in place.  The statements hold for ANY number of
fall-through states, any initial transitions, any `None` reactions; `OneFall` below is the class
"the only malformation is the one fall-through state `b`". -/

/-- **C24 (fall-through, dispatch).** On any chart, fall-through states included: where the checked
spec says the chart is malformed at the point reached, `dispatch` raises; otherwise it either
performs exactly the specified actions and rests in the specified state, or it raises because a
fall-through state lies on one of the paths the step walks.  In particular the outcome is
`Outcome.ok` or `Outcome.raise`, never `Outcome.diverge` (`C24_fall_dispatch_no_diverge`). -/
theorem C24_fall_dispatch_checked (c : Chart)
    (hdepth : ∀ s t, c.init s = some t → t.length ≤ c.depth)
    (htop : ∀ s n t, c.react s n = .tran t → t ≠ [])
    (cur : St) (n : Nat) :
    match specDispatchC c cur n with
    | some sr => (∃ r, dispatch c Miros.Gen.cfg cur n = .ok r ∧ actions r.log = sr.log ∧
                      r.state = sr.state ∧ r.temp = sr.state) ∨
                 (¬ DClear c cur n ∧ ∃ l, dispatch c Miros.Gen.cfg cur n = .raise l)
    | none => ∃ l, dispatch c Miros.Gen.cfg cur n = .raise l :=
  dispatch_fall_checked c Miros.Gen.cfg (by decide) (by decide) hdepth htop cur n

/-- every `dispatch`, from every configuration (reachable or not), ends with `Outcome.ok` or
`Outcome.raise` — never `Outcome.diverge` -/
theorem C24_fall_dispatch_no_diverge (c : Chart)
    (hdepth : ∀ s t, c.init s = some t → t.length ≤ c.depth)
    (htop : ∀ s n t, c.react s n = .tran t → t ≠ [])
    (cur : St) (n : Nat) :
    (∃ r, dispatch c Miros.Gen.cfg cur n = .ok r) ∨ (∃ l, dispatch c Miros.Gen.cfg cur n = .raise l) := by
  have h := C24_fall_dispatch_checked c hdepth htop cur n
  cases hs : specDispatchC c cur n with
  | none => rw [hs] at h; exact Or.inr h
  | some sr =>
    rw [hs] at h
    rcases h with ⟨r, h, _⟩ | ⟨_, h⟩
    · exact Or.inl ⟨r, h⟩
    · exact Or.inr h

/-- **C24 (fall-through, start_at).** The same for `start_at(s)`: it raises where the checked spec
says "malformed"; otherwise it does what the spec says (and calls no exit handler), or raises
because a fall-through state lies on the path of `s` or of an initial transition's target.
(`hd` as in `C24_start_checked`.) -/
theorem C24_fall_start_checked (c : Chart)
    (hdepth : ∀ s t, c.init s = some t → t.length ≤ c.depth)
    (s : St) (hs : s ≠ []) (hd : 0 < c.depth ∨ c.init s = none) :
    match specStartC c s with
    | some sr => (∃ r, startAt c Miros.Gen.cfg s = .ok r ∧ actions r.log = sr.log ∧
                      r.state = sr.state ∧ r.temp = sr.state ∧ ∀ x ∈ r.log, x.sig ≠ .exit) ∨
                 (¬ (Clear c s ∧ ∀ x ∈ initChain c (c.depth + 1) s, Clear c x) ∧
                    ∃ l, startAt c Miros.Gen.cfg s = .raise l)
    | none => ∃ l, startAt c Miros.Gen.cfg s = .raise l :=
  start_fall_checked c Miros.Gen.cfg (by decide) hdepth s hs hd

/-- every `start_at` ends with `Outcome.ok` or `Outcome.raise` — never `Outcome.diverge` -/
theorem C24_fall_start_no_diverge (c : Chart)
    (hdepth : ∀ s t, c.init s = some t → t.length ≤ c.depth)
    (s : St) (hs : s ≠ []) (hd : 0 < c.depth ∨ c.init s = none) :
    (∃ r, startAt c Miros.Gen.cfg s = .ok r) ∨ (∃ l, startAt c Miros.Gen.cfg s = .raise l) := by
  have h := C24_fall_start_checked c hdepth s hs hd
  cases hsp : specStartC c s with
  | none => rw [hsp] at h; exact Or.inr h
  | some sr =>
    rw [hsp] at h
    rcases h with ⟨r, h, _⟩ | ⟨_, h⟩
    · exact Or.inl ⟨r, h⟩
    · exact Or.inr h

/-! ### one fall-through state -/

/-- a chart whose only malformation is the fall-through state `b`: initial transitions go to proper
descendants, transition targets are real states, no handler returns `None` explicitly, and every
handler other than `b`'s ends in `else: … SUPER` -/
structure OneFall (c : Chart) (b : St) : Prop where
  init_desc : ∀ s t, c.init s = some t → s <:+ t ∧ s ≠ t
  init_depth : ∀ s t, c.init s = some t → t.length ≤ c.depth
  tran_ne_top : ∀ s n t, c.react s n = .tran t → t ≠ []
  no_none : ∀ s n, c.react s n ≠ .none
  only_b : ∀ s, s ≠ b → c.fall s = false

/-- with the final `else` restored the chart is well formed -/
theorem OneFall.wf {c : Chart} {b : St} (h : OneFall c b) : WF c.noFall :=
  ⟨h.init_desc, h.init_depth, h.tran_ne_top, h.no_none, fun _ => rfl⟩

/-- `b` lies on a path the step has to walk: it is the current state or encloses it, or it is the
transition's target or encloses it, or it is / encloses the target of an initial transition
followed from the target -/
def Touches (c : Chart) (b cur : St) (n : Nat) : Prop :=
  b <:+ cur ∨ ∃ S T, (offers c n cur).2 = .tran S T ∧
    (b <:+ T ∨ ∃ x ∈ initChain c (c.depth + 1) T, b <:+ x)

/-- the same for `start_at(s)` -/
def TouchesStart (c : Chart) (b s : St) : Prop :=
  b <:+ s ∨ ∃ x ∈ initChain c (c.depth + 1) s, b <:+ x

theorem touches_of_not_dclear {c : Chart} {b : St} (hb : ∀ s, s ≠ b → c.fall s = false) {cur : St} {n : Nat}
    (h : ¬ DClear c cur n) : Touches c b cur n := by
  apply Classical.byContradiction
  intro hn
  apply h
  refine ⟨clear_of_not_on_path hb (fun hc => hn (Or.inl hc)), ?_⟩
  intro S T ho
  refine ⟨clear_of_not_on_path hb (fun hc => hn (Or.inr ⟨S, T, ho, Or.inl hc⟩)), ?_⟩
  intro x hx
  exact clear_of_not_on_path hb (fun hc => hn (Or.inr ⟨S, T, ho, Or.inr ⟨x, hx, hc⟩⟩))

theorem touchesStart_of_not_clear {c : Chart} {b : St} (hb : ∀ s, s ≠ b → c.fall s = false) {s : St}
    (h : ¬ (Clear c s ∧ ∀ x ∈ initChain c (c.depth + 1) s, Clear c x)) : TouchesStart c b s := by
  apply Classical.byContradiction
  intro hn
  apply h
  refine ⟨clear_of_not_on_path hb (fun hc => hn (Or.inl hc)), ?_⟩
  intro x hx
  exact clear_of_not_on_path hb (fun hc => hn (Or.inr ⟨x, hx, hc⟩))

/-- **C24 (one fall-through state, dispatch).** If the only malformation of the chart is the
fall-through state `b`, every `dispatch`, from any configuration, either performs exactly the actions
of the UML spec and rests in the specified state, or raises — and it raises only when `b` lies on a
path the step walks.  It never diverges. -/
theorem C24_fall_one_dispatch (c : Chart) (b : St) (h : OneFall c b) (cur : St) (n : Nat) :
    (∃ r, dispatch c Miros.Gen.cfg cur n = .ok r ∧ actions r.log = (specDispatch c cur n).log ∧
        r.state = (specDispatch c cur n).state ∧ r.temp = r.state) ∨
    (Touches c b cur n ∧ ∃ l, dispatch c Miros.Gen.cfg cur n = .raise l) := by
  have hc := C24_fall_dispatch_checked c h.init_depth h.tran_ne_top cur n
  have hs : specDispatchC c cur n = some (specDispatch c cur n) := by
    rw [← specDispatchC_noFall, specDispatchC_of_WF c.noFall h.wf, specDispatch_noFall]
  rw [hs] at hc
  rcases hc with ⟨r, h1, h2, h3, h4⟩ | ⟨h1, h2⟩
  · exact Or.inl ⟨r, h1, h2, h3, by rw [h4, h3]⟩
  · exact Or.inr ⟨touches_of_not_dclear h.only_b h1, h2⟩

/-- **C24 (one fall-through state, start_at).** -/
theorem C24_fall_one_start (c : Chart) (b : St) (h : OneFall c b) (s : St) (hs : s ≠ []) :
    (∃ r, startAt c Miros.Gen.cfg s = .ok r ∧ actions r.log = (specStart c s).log ∧
        r.state = (specStart c s).state ∧ r.temp = r.state ∧ ∀ x ∈ r.log, x.sig ≠ .exit) ∨
    (TouchesStart c b s ∧ ∃ l, startAt c Miros.Gen.cfg s = .raise l) := by
  have hd : 0 < c.depth ∨ c.init s = none := by
    cases hi : c.init s with
    | none => exact Or.inr rfl
    | some t =>
      left
      obtain ⟨h1, h2⟩ := h.init_desc s t hi
      have h3 := h.init_depth s t hi
      obtain ⟨m, hm1, hm2, _⟩ := proper_suffix_drop h1 h2
      omega
  have hc := C24_fall_start_checked c h.init_depth s hs hd
  have hsp : specStartC c s = some (specStart c s) := by
    rw [← specStartC_noFall, specStartC_of_WF c.noFall h.wf, specStart_noFall]
  rw [hsp] at hc
  rcases hc with ⟨r, h1, h2, h3, h4, h5⟩ | ⟨h1, h2⟩
  · exact Or.inl ⟨r, h1, h2, h3, by rw [h4, h3], h5⟩
  · exact Or.inr ⟨touchesStart_of_not_clear h.only_b h1, h2⟩

/-- **C24 (not touched).** If the fall-through state `b` (the only one) is neither on the current
state's path, nor on the target's path, nor on the path of a target of an initial transition
followed during the step, then the step is exactly — outcome, state, `temp`, and the complete call
log — the step of the same chart with `fall := fun _ => false`. -/
theorem C24_fall_not_touched (c : Chart) (b : St) (hb : ∀ s, s ≠ b → c.fall s = false)
    (htop : ∀ s n t, c.react s n = .tran t → t ≠ [])
    (cur : St) (n : Nat)
    (hcur : ¬ b <:+ cur)
    (htgt : ∀ S T, (offers c n cur).2 = .tran S T →
      ¬ b <:+ T ∧ ∀ x ∈ initChain c (c.depth + 1) T, ¬ b <:+ x) :
    dispatch c Miros.Gen.cfg cur n = dispatch { c with fall := fun _ => false } Miros.Gen.cfg cur n := by
  rcases dispatch_fall c Miros.Gen.cfg (by decide) htop cur n with e | ⟨h1, _⟩
  · exact e
  · exfalso
    rcases touches_of_not_dclear hb h1 with h | ⟨S, T, ho, h | ⟨x, hx, h⟩⟩
    · exact hcur h
    · exact (htgt S T ho).1 h
    · exact (htgt S T ho).2 x hx h

/-- the same for `start_at(s)` -/
theorem C24_fall_not_touched_start (c : Chart) (b : St) (hb : ∀ s, s ≠ b → c.fall s = false)
    (s : St) (hs : ¬ b <:+ s) (hch : ∀ x ∈ initChain c (c.depth + 1) s, ¬ b <:+ x) :
    startAt c Miros.Gen.cfg s = startAt { c with fall := fun _ => false } Miros.Gen.cfg s := by
  rcases startAt_fall c Miros.Gen.cfg s with e | ⟨h1, _⟩
  · exact e
  · exfalso
    rcases touchesStart_of_not_clear hb h1 with h | ⟨x, hx, h⟩
    · exact hs h
    · exact hch x hx h

/-! ### non-vacuity: a chart with one fall-through state -/

/-- `[1] ⊃ [2,1] ⊃ [3,2,1]` and `[1] ⊃ [4,1] ⊃ [5,4,1]`; the handler of `[2,1]` has no final
`else` (and no exit clause) -/
def demoF : Chart where
  react := fun s n =>
    if s = [4, 1] ∧ n = 0 then .tran [3, 2, 1]        -- a target below the fall-through state
    else if s = [2, 1] ∧ n = 1 then .unhandled         -- a failing guard of the fall-through state
    else if s = [5, 4, 1] ∧ n = 2 then .tran [4, 1]    -- a transition that does not come near it
    else if s = [2, 1] ∧ n = 3 then .tran [2, 1]       -- its own self-transition
    else .pass
  init := fun s => if s = [4, 1] then some [5, 4, 1] else none
  exitH := fun s => s != [2, 1]
  depth := 3
  fall := fun s => s == [2, 1]

theorem demoF_one : OneFall demoF [2, 1] where
  init_desc := by
    intro s t h
    simp only [demoF] at h
    split at h
    · cases h; subst s; decide
    · cases h
  init_depth := by
    intro s t h
    simp only [demoF] at h ⊢
    split at h
    · cases h; decide
    · cases h
  tran_ne_top := by
    intro s n t h
    simp only [demoF] at h
    repeat' split at h
    all_goals first | (cases h; decide) | cases h
  no_none := by
    intro s n
    simp only [demoF]
    repeat' split
    all_goals simp
  only_b := by
    intro s hs
    simp [demoF, hs]

/-- a transition whose target has a fall-through ancestor raises: `trans_` asks `[2,1]` for its
parent (the last call of the log) and gets `None` -/
example : dispatch demoF Miros.Gen.cfg [4, 1] 0 =
    .raise [⟨[4, 1], .user 0⟩, ⟨[3, 2, 1], .search⟩, ⟨[4, 1], .search⟩, ⟨[2, 1], .search⟩] := by decide

/-- an UNHANDLED guard of a fall-through state raises: the EMPTY_SIGNAL that follows gets `None` -/
example : dispatch demoF Miros.Gen.cfg [2, 1] 1 = .raise [⟨[2, 1], .user 1⟩, ⟨[2, 1], .empty⟩] := by decide

/-- an event the fall-through state has no clause for raises when it bubbles up to it -/
example : dispatch demoF Miros.Gen.cfg [3, 2, 1] 5 = .raise [⟨[3, 2, 1], .user 5⟩, ⟨[2, 1], .user 5⟩] := by
  decide

/-- `start_at` below a fall-through state raises: the parent walk of `init()` sees `[2,1]` name
no parent -/
example : startAt demoF Miros.Gen.cfg [3, 2, 1] = .raise [⟨[3, 2, 1], .search⟩, ⟨[2, 1], .search⟩] := by
  decide

/-- `start_at` of the fall-through state itself: it is asked once and `init()` raises (before the
status of the parent query was checked it was asked twice: `C24_witness_old_start_asks_twice`) -/
example : startAt demoF Miros.Gen.cfg [2, 1] = .raise [⟨[2, 1], .search⟩] := by decide

/-- the chart works normally where the state is never asked: started in the other branch … -/
example : startAt demoF Miros.Gen.cfg [4, 1] =
    .ok ⟨[5, 4, 1], [5, 4, 1],
      [⟨[4, 1], .search⟩, ⟨[1], .search⟩, ⟨[1], .entry⟩, ⟨[4, 1], .entry⟩, ⟨[4, 1], .init⟩,
       ⟨[5, 4, 1], .search⟩, ⟨[5, 4, 1], .entry⟩, ⟨[5, 4, 1], .init⟩]⟩ := by decide

/-- … a transition inside that branch does what the UML spec says -/
example : dispatch demoF Miros.Gen.cfg [5, 4, 1] 2 =
    .ok ⟨[5, 4, 1], [5, 4, 1],
      [⟨[5, 4, 1], .user 2⟩, ⟨[4, 1], .search⟩, ⟨[5, 4, 1], .search⟩, ⟨[5, 4, 1], .exit⟩, ⟨[4, 1], .init⟩,
       ⟨[5, 4, 1], .search⟩, ⟨[5, 4, 1], .entry⟩, ⟨[5, 4, 1], .init⟩]⟩ := by decide

/-- the self-transition of the fall-through state works too (its `None` answer to EXIT is ignored
by `trans_`): the one place where a `None` goes unnoticed -/
example : dispatch demoF Miros.Gen.cfg [2, 1] 3 =
    .ok ⟨[2, 1], [2, 1], [⟨[2, 1], .user 3⟩, ⟨[2, 1], .exit⟩, ⟨[2, 1], .entry⟩, ⟨[2, 1], .init⟩]⟩ := by decide

/-- `C24_fall_one_dispatch` on the demo: the raising step is one that touches `[2,1]` … -/
example : Touches demoF [2, 1] [4, 1] 0 ∧ ∃ l, dispatch demoF Miros.Gen.cfg [4, 1] 0 = .raise l := by
  rcases C24_fall_one_dispatch demoF [2, 1] demoF_one [4, 1] 0 with ⟨r, h, _⟩ | h
  · rw [show dispatch demoF Miros.Gen.cfg [4, 1] 0 =
        .raise [⟨[4, 1], .user 0⟩, ⟨[3, 2, 1], .search⟩, ⟨[4, 1], .search⟩, ⟨[2, 1], .search⟩] from by decide] at h
    cases h
  · exact h

/-- … and `C24_fall_not_touched` applies to the step in the other branch -/
example : dispatch demoF Miros.Gen.cfg [5, 4, 1] 2 =
    dispatch { demoF with fall := fun _ => false } Miros.Gen.cfg [5, 4, 1] 2 := by
  apply C24_fall_not_touched demoF [2, 1] demoF_one.only_b demoF_one.tran_ne_top [5, 4, 1] 2 (by decide)
  intro S T h
  have ho : (offers demoF 2 [5, 4, 1]).2 = .tran [5, 4, 1] [4, 1] := by decide
  rw [ho] at h
  cases h
  exact ⟨by decide, by decide⟩

example : startAt demoF Miros.Gen.cfg [4, 1] = startAt { demoF with fall := fun _ => false } Miros.Gen.cfg [4, 1] :=
  C24_fall_not_touched_start demoF [2, 1] demoF_one.only_b [4, 1] (by decide) (by decide)

/-- the hypotheses of the general theorems are met by the demo -/
example : (∃ r, dispatch demoF Miros.Gen.cfg [5, 4, 1] 0 = .ok r) ∨
    (∃ l, dispatch demoF Miros.Gen.cfg [5, 4, 1] 0 = .raise l) :=
  C24_fall_dispatch_no_diverge demoF demoF_one.init_depth demoF_one.tran_ne_top [5, 4, 1] 0

example : (∃ r, startAt demoF Miros.Gen.cfg [3, 2, 1] = .ok r) ∨
    (∃ l, startAt demoF Miros.Gen.cfg [3, 2, 1] = .raise l) :=
  C24_fall_start_no_diverge demoF demoF_one.init_depth [3, 2, 1] (by decide) (Or.inl (by decide))

/-! ### the unanswered parent query is the last call

`FallQ c x` : the call `x` is a parent query put to a fall-through state; `NoFQ c l` : the log `l`
contains no such call; `Outcome.calls` : the calls of an outcome, whatever its kind. -/

/-- **C24 (the first unanswered parent query raises).** Under the generated switches, in `start_at`
and in the init drill-down of `dispatch` (from any state `t`, any buffer, any fuel, after any calls
`k.log` that contain no unanswered parent query): when the fall-through state `x` is asked for its
parent, the outcome is `.raise`, that query is the LAST call of the log, and no earlier parent query
went to a fall-through state — the exception comes right after the one call. -/
theorem C24_fall_raises_at_first_unanswered_query (c : Chart) (x : St) (hne : x ≠ []) (hx : c.fall x = true) :
    (∀ s, (⟨x, .search⟩ : Call) ∈ (startAt c Miros.Gen.cfg s).calls (fun r => r.log) →
      ∃ l0, startAt c Miros.Gen.cfg s = .raise (l0 ++ [⟨x, .search⟩]) ∧ NoFQ c l0) ∧
    (∀ fuel t tp mx k, NoFQ c k.log →
      (⟨x, .search⟩ : Call) ∈ (drill c Miros.Gen.cfg fuel t tp mx k).calls (fun r => r.2.log) →
      ∃ l0, drill c Miros.Gen.cfg fuel t tp mx k = .raise (l0 ++ [⟨x, .search⟩]) ∧ NoFQ c l0) := by
  have hn : noSuper c x = true := by
    cases x with
    | nil => exact absurd rfl hne
    | cons a p => exact hx
  exact ⟨fun s hm => (startAt_firstQ c Miros.Gen.cfg (by decide) s).elim hn hm,
    fun fuel t tp mx k hk hm => (drill_firstQ c Miros.Gen.cfg (by decide) fuel t tp mx k hk).elim hn hm⟩

/-- the same for the whole of `dispatch` (search, exit walk, `trans_`, entries, drill-down): the
other loops never ignored a `None` answer to a parent query -/
theorem C24_fall_raises_at_first_unanswered_query_dispatch (c : Chart) (x : St) (hne : x ≠ [])
    (hx : c.fall x = true) (cur : St) (n : Nat)
    (hm : (⟨x, .search⟩ : Call) ∈ (dispatch c Miros.Gen.cfg cur n).calls (fun r => r.log)) :
    ∃ l0, dispatch c Miros.Gen.cfg cur n = .raise (l0 ++ [⟨x, .search⟩]) ∧ NoFQ c l0 := by
  have hn : noSuper c x = true := by
    cases x with
    | nil => exact absurd rfl hne
    | cons a p => exact hx
  exact (dispatch_firstQ c Miros.Gen.cfg (by decide) cur n).elim hn hm

/-- `[1] ⊃ [2,1]` and `[1] ⊃ [4,1] ⊃ [5,4,1] ⊃ [6,5,4,1]`; the handlers of `[2,1]` and `[5,4,1]` have
no final `else`; `[1]` takes its initial transition to the fall-through state `[2,1]` itself, `[4,1]`
to `[6,5,4,1]`, below the fall-through state `[5,4,1]`; both have a self-transition on event 0 -/
def demoD : Chart where
  react := fun s n =>
    if s = [1] ∧ n = 0 then .tran [1]
    else if s = [4, 1] ∧ n = 0 then .tran [4, 1]
    else .pass
  init := fun s =>
    if s = [1] then some [2, 1]
    else if s = [4, 1] then some [6, 5, 4, 1]
    else none
  exitH := fun _ => true
  depth := 4
  fall := fun s => s == [2, 1] || s == [5, 4, 1]

/-- the drill-down, first query (on the init target itself): one call, then the raise -/
example : dispatch demoD Miros.Gen.cfg [1] 0 =
    .raise [⟨[1], .user 0⟩, ⟨[1], .exit⟩, ⟨[1], .entry⟩, ⟨[1], .init⟩, ⟨[2, 1], .search⟩] := by decide

/-- the drill-down, the query at the end of the climb from the init target: `[6,5,4,1]` names its
parent, `[5,4,1]` does not -/
example : dispatch demoD Miros.Gen.cfg [4, 1] 0 =
    .raise [⟨[4, 1], .user 0⟩, ⟨[4, 1], .exit⟩, ⟨[4, 1], .entry⟩, ⟨[4, 1], .init⟩,
      ⟨[6, 5, 4, 1], .search⟩, ⟨[5, 4, 1], .search⟩] := by decide

/-- `init()`: reached from above (`idx > 0`) or started at (`idx = 0`), one call -/
example : startAt demoD Miros.Gen.cfg [6, 5, 4, 1] = .raise [⟨[6, 5, 4, 1], .search⟩, ⟨[5, 4, 1], .search⟩] := by
  decide
example : startAt demoD Miros.Gen.cfg [1] =
    .raise [⟨[1], .search⟩, ⟨[1], .entry⟩, ⟨[1], .init⟩, ⟨[2, 1], .search⟩] := by decide

/-- the hypotheses of `C24_fall_raises_at_first_unanswered_query` are met: `start_at` … -/
example : ∃ l0, startAt demoD Miros.Gen.cfg [1] = .raise (l0 ++ [⟨[2, 1], .search⟩]) ∧ NoFQ demoD l0 :=
  (C24_fall_raises_at_first_unanswered_query demoD [2, 1] (by decide) (by decide)).1 [1] (by decide)

/-- … the drill-down entered as `dispatch` enters it after the self-transition of `[4,1]` … -/
example : ∃ l0, drill demoD Miros.Gen.cfg 5 [4, 1] [[4, 1], [4, 1], [4, 1]] 2
      { temp := [4, 1], log := [⟨[4, 1], .user 0⟩, ⟨[4, 1], .exit⟩, ⟨[4, 1], .entry⟩] } =
    .raise (l0 ++ [⟨[5, 4, 1], .search⟩]) ∧ NoFQ demoD l0 :=
  (C24_fall_raises_at_first_unanswered_query demoD [5, 4, 1] (by decide) (by decide)).2 5 [4, 1] _ 2 _
    (by intro y hy; simp only [List.mem_cons, List.not_mem_nil, or_false] at hy
        rcases hy with rfl | rfl | rfl <;> exact fun h => by cases h.1)
    (by decide)

/-- … and the whole `dispatch` -/
example : ∃ l0, dispatch demoD Miros.Gen.cfg [1] 0 = .raise (l0 ++ [⟨[2, 1], .search⟩]) ∧ NoFQ demoD l0 :=
  C24_fall_raises_at_first_unanswered_query_dispatch demoD [2, 1] (by decide) (by decide) [1] 0 (by decide)

/-! ### the code before the parent queries were checked (`superGuard := false`) -/

/-- the switches of the source before the change: everything on but `superGuard` -/
def gOld : Cfg := { resync := true, drillGuard := true, initGuard := true, superGuard := false }

/-- … and without the repeat-parent check of the drill-down as well -/
def gOlder : Cfg := { resync := true, drillGuard := false, initGuard := true, superGuard := false }

/-- **Witness (old `init()`).** `start_at` of a fall-through state: the `None` answer was ignored,
`temp` stayed on the state, and the repeat-parent check caught it only after it had been asked a
second time (`previous_super` starts as `None`) -/
theorem C24_witness_old_start_asks_twice :
    startAt demoD gOld [2, 1] = .raise [⟨[2, 1], .search⟩, ⟨[2, 1], .search⟩] ∧
    startAt demoD Miros.Gen.cfg [2, 1] = .raise [⟨[2, 1], .search⟩] := by decide

/-- **Witness (old drill-down).** The init target is a fall-through state: with the repeat-parent
check (`drillGuard`) it was asked twice before the raise; without that check the loop never ended.
With `superGuard` the raise needs no `drillGuard`. -/
theorem C24_witness_old_drill :
    dispatch demoD gOld [1] 0 =
      .raise [⟨[1], .user 0⟩, ⟨[1], .exit⟩, ⟨[1], .entry⟩, ⟨[1], .init⟩, ⟨[2, 1], .search⟩, ⟨[2, 1], .search⟩] ∧
    isDiverge (dispatch demoD gOlder [1] 0) = true ∧
    isDiverge (dispatch demoD gOlder [4, 1] 0) = true ∧
    dispatch demoD { gOlder with superGuard := true } [1] 0 =
      .raise [⟨[1], .user 0⟩, ⟨[1], .exit⟩, ⟨[1], .entry⟩, ⟨[1], .init⟩, ⟨[2, 1], .search⟩] := by decide

end Miros.Props.C24
