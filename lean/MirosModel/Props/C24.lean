import MirosModel.Hsm.DispatchLemmas
import MirosModel.Gen.Constants
/-!
# C24 — on ANY chart the processor does what the checked UML spec says, or raises

Model: `Miros.Hsm.dispatch` / `startAt` (faithful to hsm.py), spec: `specDispatchC` / `specStartC`.
Initial transitions may point anywhere, handlers may return `None`: where the checked spec says the
chart is malformed at the point reached (`none`), the processor raises; otherwise it performs
exactly the specified actions and rests in the specified state.  It never diverges.
The switches are the ones generated from the current source (`Miros.Gen.cfg`); the proofs use
`resync`, `drillGuard` (dispatch) and `initGuard` (start) being on, by `decide`.
-/
namespace Miros.Props.C24
open Miros.Hsm

theorem C24_dispatch_checked (c : Chart)
    (hdepth : ∀ s t, c.init s = some t → t.length ≤ c.depth)
    (htop : ∀ s n t, c.react s n = .tran t → t ≠ [])
    (cur : St) (n : Nat) :
    match specDispatchC c cur n with
    | some sr => ∃ r, dispatch c Miros.Gen.cfg cur n = .ok r ∧ actions r.log = sr.log ∧
                      r.state = sr.state ∧ r.temp = sr.state
    | none => ∃ l, dispatch c Miros.Gen.cfg cur n = .raise l :=
  dispatch_checked c Miros.Gen.cfg (by decide) (by decide) hdepth htop cur n

/-- `hd`: the declared depth is not the degenerate `0`, or `s` takes no initial transition.
(With `c.depth = 0` and `c.init s = some []` the fuel `c.depth + 1` of the model runs out: see
`start_depth0_diverges` below; `c.depth = 0` cannot bound a tree that contains `s ≠ top`.) -/
theorem C24_start_checked (c : Chart)
    (hdepth : ∀ s t, c.init s = some t → t.length ≤ c.depth)
    (s : St) (hs : s ≠ []) (hd : 0 < c.depth ∨ c.init s = none) :
    match specStartC c s with
    | some sr => ∃ r, startAt c Miros.Gen.cfg s = .ok r ∧ actions r.log = sr.log ∧
                      r.state = sr.state ∧ r.temp = sr.state
    | none => ∃ l, startAt c Miros.Gen.cfg s = .raise l := by
  have h := start_checked c Miros.Gen.cfg (by decide) hdepth s hs hd
  cases hsp : specStartC c s with
  | none => rw [hsp] at h; exact h
  | some sr =>
    rw [hsp] at h
    obtain ⟨r, h1, h2, h3, h4, _⟩ := h
    exact ⟨r, h1, h2, h3, h4⟩

/-- never diverges (dispatch) -/
theorem C24_dispatch_no_diverge (c : Chart)
    (hdepth : ∀ s t, c.init s = some t → t.length ≤ c.depth)
    (htop : ∀ s n t, c.react s n = .tran t → t ≠ [])
    (cur : St) (n : Nat) (l : Log) : dispatch c Miros.Gen.cfg cur n ≠ .diverge l := by
  have h := C24_dispatch_checked c hdepth htop cur n
  intro e
  cases hsp : specDispatchC c cur n with
  | none => rw [hsp] at h; obtain ⟨l', h⟩ := h; rw [e] at h; cases h
  | some sr => rw [hsp] at h; obtain ⟨r, h, _⟩ := h; rw [e] at h; cases h

/-! ### non-vacuity -/

/-- a chart with one good and two malformed initial transitions:
`[2,1]` → `[4,3,2,1]` (fine), `[5,1]` → `[1]` (outward), `[6,1]` → `[6,1]` (itself) -/
def demo : Chart where
  react := fun s n =>
    if s = [4, 3, 2, 1] ∧ n = 0 then .tran [2, 1]
    else if s = [4, 3, 2, 1] ∧ n = 1 then .tran [5, 1]
    else if s = [4, 3, 2, 1] ∧ n = 2 then .tran [6, 1]
    else if s = [3, 2, 1] ∧ n = 3 then .none
    else .pass
  init := fun s =>
    if s = [2, 1] then some [4, 3, 2, 1]
    else if s = [5, 1] then some [1]
    else if s = [6, 1] then some [6, 1]
    else none
  exitH := fun _ => true
  depth := 4

theorem demo_depth : ∀ s t, demo.init s = some t → t.length ≤ demo.depth := by
  intro s t h
  simp only [demo] at h ⊢
  split at h
  · cases h; decide
  · split at h
    · cases h; decide
    · split at h
      · cases h; decide
      · cases h

theorem demo_top : ∀ s n t, demo.react s n = .tran t → t ≠ [] := by
  intro s n t h
  simp only [demo] at h
  repeat' split at h
  all_goals first | (cases h; decide) | cases h

example : specDispatchC demo [4, 3, 2, 1] 0 =
    some ⟨[4, 3, 2, 1],
      [⟨[4, 3, 2, 1], .user 0⟩, ⟨[4, 3, 2, 1], .exit⟩, ⟨[3, 2, 1], .exit⟩,
       ⟨[2, 1], .init⟩, ⟨[3, 2, 1], .entry⟩, ⟨[4, 3, 2, 1], .entry⟩, ⟨[4, 3, 2, 1], .init⟩]⟩ := by
  decide
example : specDispatchC demo [4, 3, 2, 1] 1 = none := by decide
example : specDispatchC demo [4, 3, 2, 1] 2 = none := by decide
example : specDispatchC demo [4, 3, 2, 1] 3 = none := by decide
example : specStartC demo [2, 1] =
    some ⟨[4, 3, 2, 1],
      [⟨[1], .entry⟩, ⟨[2, 1], .entry⟩, ⟨[2, 1], .init⟩, ⟨[3, 2, 1], .entry⟩,
       ⟨[4, 3, 2, 1], .entry⟩, ⟨[4, 3, 2, 1], .init⟩]⟩ := by decide
example : specStartC demo [5, 1] = none := by decide

/-- so the processor raises on the malformed initial transitions and on the `None` handler -/
example : ∃ l, dispatch demo Miros.Gen.cfg [4, 3, 2, 1] 1 = .raise l := by
  have := C24_dispatch_checked demo demo_depth demo_top [4, 3, 2, 1] 1
  rwa [show specDispatchC demo [4, 3, 2, 1] 1 = none from by decide] at this
example : ∃ l, startAt demo Miros.Gen.cfg [5, 1] = .raise l := by
  have := C24_start_checked demo demo_depth [5, 1] (by decide) (Or.inl (by decide))
  rwa [show specStartC demo [5, 1] = none from by decide] at this

/-- why `C24_start_checked` needs `hd`: a chart declaring `depth = 0` whose state `[1]` has an
initial transition to `top` satisfies `hdepth`, the checked spec says "malformed", and the model
runs out of its `depth + 1` fuel (the Python code raises here: a fuel artefact of the model). -/
def depth0 : Chart where
  react := fun _ _ => .pass
  init := fun s => if s = [1] then some [] else none
  exitH := fun _ => true
  depth := 0

def isDiverge {α : Type} : Outcome α → Bool
  | .diverge _ => true
  | _ => false

theorem start_depth0_diverges :
    specStartC depth0 [1] = none ∧ isDiverge (startAt depth0 Miros.Gen.cfg [1]) = true := by
  decide

end Miros.Props.C24
