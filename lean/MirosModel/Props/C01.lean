import MirosModel.Hsm.DispatchLemmas
import MirosModel.Gen.Constants
/-!
# C01 — the order of a transition: offers, exits up to the boundary, entries down to the target,
then initial transitions

Model: `Miros.Hsm.dispatch` (faithful to hsm.py 531-662 + `trans_`), spec: `Miros.Hsm.specDispatch`.
For every well-formed chart (any tree shape and depth), every current state, every event, and for
the switches generated from the current source (`Miros.Gen.cfg`; the proof needs `resync` and
`drillGuard` on, and `C01_witness_unfixed` shows `resync` is really needed).
-/
namespace Miros.Props.C01
open Miros.Hsm

/-- **C01 (main).** one `dispatch` performs exactly the actions of the UML spec, in its order, and
rests in the specified state with the search cursor on it -/
theorem C01_dispatch_refines_spec (c : Chart) (hwf : WF c) (cur : St) (n : Nat) :
    ∃ r, dispatch c Miros.Gen.cfg cur n = .ok r ∧
      actions r.log = (specDispatch c cur n).log ∧ r.state = (specDispatch c cur n).state ∧
      r.temp = r.state := by
  have h := dispatch_checked c hwf.no_fall Miros.Gen.cfg (by decide) (by decide) hwf.init_depth hwf.tran_ne_top cur n
  rw [specDispatchC_of_WF c hwf cur n] at h
  obtain ⟨r, h1, h2, h3, h4⟩ := h
  exact ⟨r, h1, h2, h3, by rw [h4, h3]⟩

/-- the statement made visible: when state `S` answers with a transition to `T`, the actions are
the offers, then the exits from the current state up to (excluding) the boundary state, then the
entries from below the boundary down to `T`, then the initial transitions from `T`. -/
theorem C01_order (c : Chart) (hwf : WF c) (cur : St) (n : Nat) (S T : St)
    (h : (offers c n cur).2 = .tran S T) :
    ∃ r, dispatch c Miros.Gen.cfg cur n = .ok r ∧
      actions r.log = (offers c n cur).1
        ++ (pathUp (boundary S T) cur).map (⟨·, Sig.exit⟩)
        ++ (pathUp (boundary S T) T).reverse.map (⟨·, Sig.entry⟩)
        ++ (settle c (c.depth + 1) T).1 ∧
      r.state = (settle c (c.depth + 1) T).2 := by
  obtain ⟨r, h1, h2, h3, _⟩ := C01_dispatch_refines_spec c hwf cur n
  refine ⟨r, h1, ?_, ?_⟩
  · rw [h2]; unfold specDispatch
    cases ho : offers c n cur with
    | mk l a => rw [ho] at h; simp only at h; subst h; rfl
  · rw [h3]; unfold specDispatch
    cases ho : offers c n cur with
    | mk l a => rw [ho] at h; simp only at h; subst h; rfl

/-! ### runs: folding `dispatch` over an event list -/

/-- fold the model over a list of events, concatenating the action logs; `none` if a step fails -/
def runModel (c : Chart) (g : Cfg) : St → List Nat → Option (St × Log)
  | s, [] => some (s, [])
  | s, n :: ns =>
    match dispatch c g s n with
    | .ok r =>
      match runModel c g r.state ns with
      | some (s', l) => some (s', actions r.log ++ l)
      | none => none
    | _ => none

/-- fold the spec over a list of events -/
def runSpec (c : Chart) : St → List Nat → St × Log
  | s, [] => (s, [])
  | s, n :: ns =>
    ((runSpec c (specDispatch c s n).state ns).1,
      (specDispatch c s n).log ++ (runSpec c (specDispatch c s n).state ns).2)

/-- **C01 for runs.** on a well-formed chart every event list is processed as the spec says -/
theorem C01_run (c : Chart) (hwf : WF c) : ∀ (evs : List Nat) (cur : St),
    runModel c Miros.Gen.cfg cur evs = some (runSpec c cur evs) := by
  intro evs
  induction evs with
  | nil => intro cur; rfl
  | cons n ns ih =>
    intro cur
    obtain ⟨r, h1, h2, h3, _⟩ := C01_dispatch_refines_spec c hwf cur n
    simp only [runModel, h1, runSpec]
    rw [h3, ih, h2]

/-! ### non-vacuity: the historically interesting chart

the chain 1 ⊃ 2 ⊃ 3 ⊃ 4 ⊃ 5 ⊃ 7 ⊃ 8; state 8 handles event 0 with a transition to state 3 (depth 3),
whose initial transition goes 4 levels down, back to 8. -/
def s8 : St := [8, 7, 5, 4, 3, 2, 1]
def s3 : St := [3, 2, 1]

def demo : Chart where
  react := fun s n => if s = s8 ∧ n = 0 then .tran s3 else .pass
  init := fun s => if s = s3 then some s8 else none
  exitH := fun _ => true
  depth := 7
  fall := fun _ => false

theorem demo_WF : WF demo where
  init_desc := by
    intro s t h
    simp only [demo] at h
    split at h
    · cases h; subst s; decide
    · cases h
  init_depth := by
    intro s t h
    simp only [demo] at h ⊢
    split at h
    · cases h; decide
    · cases h
  tran_ne_top := by
    intro s n t h
    simp only [demo] at h
    split at h
    · cases h; decide
    · cases h
  no_none := by
    intro s n
    simp only [demo]
    split <;> simp
  no_fall := fun _ => rfl

example : (offers demo 0 s8).2 = .tran s8 s3 := by decide
example : boundary s8 s3 = s3 := by decide

/-- exits 8, 7, 5, 4 (not 3: the target encloses the source), no entry on the way to the target,
then init of 3 and entries 4, 5, 7, 8, and init of 8 -/
example : specDispatch demo s8 0 =
    ⟨s8, [⟨s8, .user 0⟩,
          ⟨s8, .exit⟩, ⟨[7, 5, 4, 3, 2, 1], .exit⟩, ⟨[5, 4, 3, 2, 1], .exit⟩, ⟨[4, 3, 2, 1], .exit⟩,
          ⟨s3, .init⟩,
          ⟨[4, 3, 2, 1], .entry⟩, ⟨[5, 4, 3, 2, 1], .entry⟩, ⟨[7, 5, 4, 3, 2, 1], .entry⟩, ⟨s8, .entry⟩,
          ⟨s8, .init⟩]⟩ := by decide

example : (runSpec demo s8 [0, 1, 0]).1 = s8 := by decide

/-- the theorem applied to the demo -/
example : ∃ r, dispatch demo Miros.Gen.cfg s8 0 = .ok r ∧ r.state = s8 ∧ (actions r.log).length = 11 := by
  obtain ⟨r, h1, h2, h3, _⟩ := C01_dispatch_refines_spec demo demo_WF s8 0
  exact ⟨r, h1, by rw [h3]; decide, by rw [h2]; decide⟩

/-! ### the unfixed code (no `max_index` resync after `trans_`) violates C01 on this chart -/

def g0 : Cfg := { resync := false, drillGuard := true, initGuard := true, superGuard := false }

def okRes : Outcome Res → Option Res
  | .ok r => some r
  | _ => none

theorem okRes_some {o : Outcome Res} {r : Res} (h : okRes o = some r) : o = .ok r := by
  cases o <;> simp [okRes] at h
  subst h; rfl

/-- with `resync` off, the step on the demo chart succeeds but performs the wrong actions -/
theorem C01_witness_unfixed :
    WF demo ∧ ∃ r, dispatch demo g0 s8 0 = .ok r ∧ actions r.log ≠ (specDispatch demo s8 0).log := by
  refine ⟨demo_WF, ?_⟩
  have h : ((okRes (dispatch demo g0 s8 0)).map
      (fun r => decide (actions r.log ≠ (specDispatch demo s8 0).log))) = some true := by decide +kernel
  cases hr : okRes (dispatch demo g0 s8 0) with
  | none => rw [hr] at h; cases h
  | some r =>
    rw [hr] at h
    simp only [Option.map_some, Option.some.injEq, decide_eq_true_eq] at h
    exact ⟨r, okRes_some hr, h⟩

/-- …whereas the generated (fixed) switches give the specified log on the same input -/
example : ((okRes (dispatch demo Miros.Gen.cfg s8 0)).map (fun r => actions r.log)) =
    some (specDispatch demo s8 0).log := by decide +kernel

end Miros.Props.C01
