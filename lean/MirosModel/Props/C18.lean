import MirosModel.Instr.Lemmas
import MirosModel.Gen.Constants
/-!
# C18 — instrumentation does not change behaviour

"A chart's externally visible behaviour (handler invocations, their order, the resulting state and
queue contents) is the same whether or not its states carry the spy decorator, whichever processor
hosts it (plain, instrumented, queued or active object), and whether live spy/trace output is on
or off."

Model: the instrumented host `Miros.Instr.IState` carries the layer-2 queued chart `IState.q`
together with the spy / trace rings and live streams; `iNext` / `iStart` / `clientPost` are
`next_rtc` / `start_at` / client posts of an instrumented chart.  The theorems show that the `q`
component evolves exactly as the un-instrumented layer-2 chart (`nextRtc`, `startQ`, `applyEff`)
— whose handler invocations and resulting state are those of the plain processor
`Miros.Hsm.dispatch` / `startAt` — for every ring size, and that nothing else in `IState` feeds
back into it.  The live streams are pure outputs of the model (`C21`), so switching them on or off
cannot change `q` either.

**Standing hypothesis of the model.** The host's detection of the `spy_on` decorator agrees with
the decorator actually being present on the state functions (`Miros.Gen.spyOnShape = true`: the
wrapper has the shape the host looks for).  The un-spied-but-detected case — a chart whose handlers
lack the decorator while the host believes them instrumented, or the reverse — is a recorded
finding of the implementation and is not modelled here.  The active-object host runs the same
`next_rtc` on its thread; its scheduling is the subject of C13AO / C16.
-/
namespace Miros.Props.C18
open Miros.Hsm Miros.Queue Miros.Instr

/-- the decorator has the shape the instrumented host detects (generated from the source) -/
theorem C18_decorator_shape_detected : Miros.Gen.spyOnShape = true := by decide

/-- **C18 (step).** If the un-instrumented queued chart steps to `q'` with call log `log`, the
instrumented one steps too, to the same queue / chart state. -/
theorem C18_instrumented_step_is_queue_step (caps : Caps) (qc : QChart) (g : Cfg) (st : IState)
    (q' : QState) (log : Log) (h : nextRtc qc g st.q = .stepped q' log) :
    ∃ st', iNext caps qc g st = some st' ∧ st'.q = q' := by
  have := iStep_q caps qc g st .next
  simp only [iStep, qStep, h] at this
  cases hi : iNext caps qc g st with
  | none => rw [hi] at this; simp at this
  | some st' => rw [hi] at this; exact ⟨st', rfl, by simpa using this⟩

/-- on an empty queue both do nothing to the queue state -/
theorem C18_instrumented_idle_is_queue_idle (caps : Caps) (qc : QChart) (g : Cfg) (st : IState)
    (q' : QState) (h : nextRtc qc g st.q = .idle q') :
    ∃ st', iNext caps qc g st = some st' ∧ st'.q = q' ∧ st'.q = st.q := by
  have := iStep_q caps qc g st .next
  simp only [iStep, qStep, h] at this
  obtain ⟨_, hq'⟩ := nextRtc_idle qc g st.q q' h
  cases hi : iNext caps qc g st with
  | none => rw [hi] at this; simp at this
  | some st' =>
    rw [hi] at this
    have e : st'.q = q' := by simpa using this
    exact ⟨st', rfl, e, by rw [e, hq']⟩

/-- the instrumented step fails (the processor raises / diverges) exactly when the plain one does -/
theorem C18_instrumented_fails_iff (caps : Caps) (qc : QChart) (g : Cfg) (st : IState) :
    iNext caps qc g st = none ↔ nextRtc qc g st.q = .failed := by
  have := iStep_q caps qc g st .next
  simp only [iStep, qStep] at this
  constructor
  · intro h
    rw [h] at this
    cases hn : nextRtc qc g st.q with
    | failed => rfl
    | idle s => rw [hn] at this; simp at this
    | stepped s l => rw [hn] at this; simp at this
  · intro h
    rw [h] at this
    cases hi : iNext caps qc g st with
    | none => rfl
    | some s => rw [hi] at this; simp at this

/-- **C18 (start).** `start_at` of the instrumented chart against `startQ` -/
theorem C18_instrumented_start_is_queue_start (caps : Caps) (qc : QChart) (g : Cfg) (st : IState)
    (target : St) (q' : QState) (log : Log) (h : startQ qc g st.q target = .stepped q' log) :
    ∃ st', iStart caps qc g st target = some st' ∧ st'.q = q' := by
  have := iStep_q caps qc g st (.start target)
  simp only [iStep, qStep, h] at this
  cases hi : iStart caps qc g st target with
  | none => rw [hi] at this; simp at this
  | some st' => rw [hi] at this; exact ⟨st', rfl, by simpa using this⟩

theorem C18_instrumented_start_fails_iff (caps : Caps) (qc : QChart) (g : Cfg) (st : IState)
    (target : St) : iStart caps qc g st target = none ↔ startQ qc g st.q target = .failed := by
  have := iStep_q caps qc g st (.start target)
  simp only [iStep, qStep] at this
  constructor
  · intro h
    rw [h] at this
    cases hn : startQ qc g st.q target with
    | failed => rfl
    | idle s => rw [hn] at this; simp at this
    | stepped s l => rw [hn] at this; simp at this
  · intro h
    rw [h] at this
    cases hi : iStart caps qc g st target with
    | none => rfl
    | some s => rw [hi] at this; simp at this

/-- client posts / defers / recalls / scribbles act on the queue as in layer 2 -/
theorem C18_client_post_is_queue_post (caps : Caps) (st : IState) (e : Eff) :
    (clientPost caps st e).q = applyEff st.q e := by
  show (effsLines st.q [e]).2 = _
  rw [effsLines_state]; rfl

/-- the handler invocations of an instrumented step are those of the plain processor: the call
lines of the step's spy lines are the call log of `Miros.Hsm.dispatch` -/
theorem C18_invocations_are_those_of_dispatch (caps : Caps) (qc : QChart) (g : Cfg) (st : IState)
    (e : Ev) (rest : List Ev) (r : Res) (hq : st.q.q = e :: rest)
    (hd : dispatch qc.chart g st.q.cur e.sig = .ok r) :
    ∃ st', iNext caps qc g st = some st' ∧ st'.q.cur = r.state ∧
      st'.q.dispatched = st.q.dispatched ++ [e] ∧
      (logLines qc (popQ st.q e rest r) r.log).1.filterMap asCall = r.log := by
  refine ⟨_, iNext_cons caps qc g st e rest r hq hd, ?_, ?_, logLines_calls _ _ _⟩
  · simp [logLines_state, popQ]
  · simp [logLines_state, popQ]

/-- **C18 (no feedback).** Ring sizes, spy / trace contents and live streams never influence the
chart: two instrumented hosts with the same queue / chart state — whatever their ring sizes and
whatever is in their rings and live streams — step to the same queue / chart state (or both fail). -/
theorem C18_outputs_do_not_feed_back (caps caps' : Caps) (qc : QChart) (g : Cfg) (st st₂ : IState)
    (h : st.q = st₂.q) :
    (iNext caps qc g st).map IState.q = (iNext caps' qc g st₂).map IState.q := by
  have h1 := iStep_q caps qc g st .next
  have h2 := iStep_q caps' qc g st₂ .next
  simp only [iStep] at h1 h2
  rw [h1, h2, h]

theorem C18_outputs_do_not_feed_back_op (caps caps' : Caps) (qc : QChart) (g : Cfg) (st st₂ : IState)
    (op : IOp) (h : st.q = st₂.q) :
    (iStep caps qc g st op).map IState.q = (iStep caps' qc g st₂ op).map IState.q := by
  rw [iStep_q, iStep_q, h]

/-- **C18 (runs).** Over any list of operations the queue / chart component of the instrumented
run is the layer-2 run of the same operations (`qRun`: `startQ`, `applyEff`, `nextRtc`), and one
fails exactly when the other does. -/
theorem C18_run_equivalence (caps : Caps) (qc : QChart) (g : Cfg) (st : IState) (ops : List IOp) :
    (iRun caps qc g st ops).map IState.q = qRun qc g st.q ops :=
  iRun_q caps qc g ops st

/-- for operation lists that layer 2 has as `Miros.Queue.Op`s (posts, defers, recalls, steps) this
is `Miros.Queue.runOps`, the run C14 / C15 are about -/
theorem C18_run_equivalence_runOps (caps : Caps) (qc : QChart) (g : Cfg) (st : IState)
    (ops : List IOp) (os : List Op) (h : ops.map IOp.toOp = os.map some) :
    (iRun caps qc g st ops).map IState.q = runOps qc g st.q os := by
  rw [iRun_q, qRun_eq_runOps qc g ops os st.q h]

/-- ring sizes do not matter for behaviour: any two instrumented runs of the same operations from
the same queue / chart state agree on it -/
theorem C18_run_independent_of_rings (caps caps' : Caps) (qc : QChart) (g : Cfg) (st st₂ : IState)
    (ops : List IOp) (h : st.q = st₂.q) :
    (iRun caps qc g st ops).map IState.q = (iRun caps' qc g st₂ ops).map IState.q := by
  rw [iRun_q, iRun_q, h]

/-- with the switches and ring sizes of the current source -/
theorem C18_run_equivalence_gen (qc : QChart) (st : IState) (ops : List IOp) :
    (iRun ⟨Miros.Gen.rtcCap, Miros.Gen.spyCap, Miros.Gen.trcCap⟩ qc Miros.Gen.cfg st ops).map IState.q =
      qRun qc Miros.Gen.cfg st.q ops :=
  iRun_q _ qc Miros.Gen.cfg ops st

/-! ### non-vacuity on the fixture `Ex.qc1` -/
open Miros.Instr.Ex

/-- the run succeeds; dispatched events, final state, queue — with real rings and with tiny ones -/
example : (iRun caps1 qc1 g1 (iInit 5) ops1).map (fun s => (s.q.dispatched.map Ev.sig, s.q.cur, s.q.q)) =
    some ([0, 1, 2], [3, 1], []) := by decide
example : (iRun capsTiny qc1 g1 (iInit 5) ops1).map (fun s => (s.q.dispatched.map Ev.sig, s.q.cur, s.q.q)) =
    some ([0, 1, 2], [3, 1], []) := by decide
example : (qRun qc1 g1 (iInit 5).q ops1).map (fun s => (s.dispatched.map Ev.sig, s.cur, s.q)) =
    some ([0, 1, 2], [3, 1], []) := by decide
/-- the part of the run without `start_at` is a layer-2 `runOps` -/
example : (ops1.drop 1).map IOp.toOp =
    ([.postFifo 0, .nextRtc, .nextRtc, .postFifo 2, .nextRtc] : List Op).map some := by decide

end Miros.Props.C18
