import MirosModel.Conc.FabFineLemmas
import MirosModel.Gen.Constants
/-!
# C06 (fine-grained) — a redundant `subscribe` racing a delivery loop

"After a queue subscribes to a signal with the active fabric, every event with that signal
published while the fabric runs is delivered to that queue exactly once per subscription kind, …
Subscribing the same queue to the same signal again changes nothing and never removes or duplicates
another queue's subscription."

Model: `Miros.Conc.FabFine` (`MirosModel/Conc/FabFine.lean`): one signal, one kind; the delivery loop
`for q in subscriptions[sig]: q.append(event)` is split into one step per `q.append`, with the Python
list-iterator semantics (an index into the SAME list object that `subscribe` mutates, compared with the
CURRENT length at every `next()`).  `subscribe`, `publish` and the delivery steps interleave freely.

With `subscribeKeepsOthers = true` (current code) every schedule delivers every published event at
most once, in publication order, only to registered queues, and — once the fabric is quiescent —
exactly once to every queue that was registered when the event was published.  With
`subscribeKeepsOthers = false` (the registry list is rewritten in place) a redundant subscribe landing
in the middle of a delivery loop makes one subscriber miss the event and another get it twice.
-/
namespace Miros.Props.C06Fine
open Miros.Conc Miros.Conc.FabFine

/-- **C06 fine (at most once).** Current `subscribe` (`subscribeKeepsOthers = true`): for every
schedule of subscribe / publish / delivery steps, of any length, no queue ever holds the same
published uid twice. -/
theorem C06_fine_at_most_once (t : Tags) (ht : t.subscribeKeepsOthers = true) (sch : List Step)
    (q u : Nat) : cnt (run t init sch) q u ≤ 1 :=
  count_le_one_of_sorted ((Inv.run ht sch Inv.init InvLt.init).items_sorted q) u

/-- **C06 fine (exactly once).** Current `subscribe`: for every schedule, if the final state is
quiescent (the delivery thread is idle and the fabric queue is empty), then every publication
`(u, r)` of the log — uid `u` published while the registry was `r` — has been received exactly once
by every queue `q` of `r`. -/
theorem C06_fine_exactly_once (t : Tags) (ht : t.subscribeKeepsOthers = true) (sch : List Step)
    (hq : Quiescent (run t init sch)) (u : Nat) (r : List Nat)
    (hlog : (u, r) ∈ (run t init sch).pubLog) (q : Nat) (hqr : q ∈ r) :
    cnt (run t init sch) q u = 1 := by
  have hinv := Inv.run ht sch Inv.init InvLt.init
  obtain ⟨hd, hf⟩ := hq
  refine (hinv.log_inv u r hlog).2 ?_ ?_ q hqr
  · rw [hf]; simp
  · intro q' n; rw [hd]; simp

/-- **C06 fine (order).** Current `subscribe`: for every schedule and every queue, the uids the
queue has received are strictly increasing, i.e. the publication order is kept per subscriber (and
nothing is received twice). -/
theorem C06_fine_order (t : Tags) (ht : t.subscribeKeepsOthers = true) (sch : List Step) (q : Nat) :
    (lookup (run t init sch).items q).Pairwise (· < ·) :=
  (Inv.run ht sch Inv.init InvLt.init).items_sorted q

/-- **C06 fine (nothing invented).** Any tag, any schedule: every uid found in a queue has been
published (`< nextUid`).  With the current `subscribe`, a queue that has received anything is
registered. -/
theorem C06_fine_nothing_invented (t : Tags) (sch : List Step) (q : Nat) :
    (∀ u, u ∈ lookup (run t init sch).items q → u < (run t init sch).nextUid) ∧
    (t.subscribeKeepsOthers = true →
      lookup (run t init sch).items q ≠ [] → q ∈ (run t init sch).reg) :=
  ⟨fun u hu => (InvLt.run sch InvLt.init).items_lt q u hu,
   fun ht hne => (Inv.run ht sch Inv.init InvLt.init).items_reg q hne⟩

/-- additional: with the current `subscribe` the registry never holds a queue twice and every logged
registry is a prefix of the current one (a subscription is never removed or reordered). -/
theorem C06_fine_registry_grows (t : Tags) (ht : t.subscribeKeepsOthers = true) (sch : List Step) :
    (run t init sch).reg.Nodup ∧
    ∀ u r, (u, r) ∈ (run t init sch).pubLog → r <+: (run t init sch).reg :=
  ⟨(Inv.run ht sch Inv.init InvLt.init).reg_nodup,
   fun u r h => ((Inv.run ht sch Inv.init InvLt.init).log_inv u r h).1⟩

/-- `run` is the generic interleaving semantics (`Conc/Sys.lean`) of the step function -/
theorem C06_fine_run_is_sys_run (t : Tags) (s : State) (sch : List Step) :
    run t s sch = (sys t).run s sch := run_eq_sys_run t sch s

/-! ### the unrepaired variant -/

/-- queues 1 and 2 subscribe, one event is published, the delivery thread takes it and is about to
append it to queue 1; queue 1 subscribes again (the rewrite moves it behind queue 2: `reg = [2, 1]`);
the iterator, now at index 1, finds queue 1 again and then the end of the list. -/
def witnessSchedule : List Step :=
  [.subscribe 1, .subscribe 2, .publish, .deliver, .subscribe 1, .deliver, .deliver, .deliver]

/-- **C06 fine (witness).** If `subscribe` rewrites the registry list in place
(`subscribeKeepsOthers = false`), the schedule `witnessSchedule` ends quiescent with uid 0 published
while both queues 1 and 2 were registered, yet queue 2 received it 0 times and queue 1 twice. -/
theorem C06_fine_witness_rewrite :
    let s := run ⟨false⟩ init witnessSchedule
    Quiescent s ∧ (0, [1, 2]) ∈ s.pubLog ∧ cnt s 2 0 = 0 ∧ cnt s 1 0 = 2 := by decide

/-- the same schedule is harmless with the current `subscribe` -/
example :
    let s := run ⟨true⟩ init witnessSchedule
    Quiescent s ∧ (0, [1, 2]) ∈ s.pubLog ∧ cnt s 2 0 = 1 ∧ cnt s 1 0 = 1 := by decide

/-! ### non-vacuity -/

/-- three queues, two publications; queue 1 subscribes again in the middle of the first delivery
loop and queue 4 subscribes in the middle of the second one -/
def sampleSchedule : List Step :=
  [.subscribe 1, .subscribe 2, .subscribe 3, .publish, .publish,
   .deliver, .deliver, .subscribe 1, .deliver, .deliver, .deliver,
   .deliver, .deliver, .subscribe 2, .subscribe 4, .deliver, .deliver, .deliver, .deliver]

/-- the hypotheses of `C06_fine_exactly_once` are met by a non-trivial run: quiescent at the end, two
logged publications with three registered queues each, every queue holds `[0, 1]`; queue 4, which
subscribed while uid 1 was being delivered, got it too (it was reached by the live iterator). -/
example :
    let s := run ⟨true⟩ init sampleSchedule
    Quiescent s ∧ s.pubLog = [(0, [1, 2, 3]), (1, [1, 2, 3])] ∧ s.reg = [1, 2, 3, 4] ∧
    lookup s.items 1 = [0, 1] ∧ lookup s.items 2 = [0, 1] ∧ lookup s.items 3 = [0, 1] ∧
    lookup s.items 4 = [1] ∧ blocked ⟨true⟩ init sampleSchedule = 0 := by decide

/-- … and the theorems apply to it -/
example : cnt (run ⟨true⟩ init sampleSchedule) 2 1 = 1 :=
  C06_fine_exactly_once ⟨true⟩ rfl sampleSchedule (by decide) 1 [1, 2, 3] (by decide) 2 (by decide)

/-- a mid-delivery state (not quiescent) is covered by the at-most-once / order theorems -/
example :
    let s := run ⟨true⟩ init (sampleSchedule.take 8)
    s.d = .app 0 2 2 ∧ lookup s.items 1 = [0] ∧ lookup s.items 2 = [] ∧ s.fq = [1] := by decide

/-! ### tied to the current source -/

/-- the tag the translator extracted from `_subscribe` in the current source -/
def genTags : Tags := ⟨Miros.Gen.fabTags.subscribeKeepsOthers⟩

/-- the current `_subscribe` leaves an already subscribed queue alone (fails to build when the translator reports the
rewrite variant) -/
theorem genTags_keeps_others : genTags.subscribeKeepsOthers = true := by decide

/-- **C06 fine, for the code as it is now**: every schedule; at most once, in order, and exactly once at quiescence. -/
theorem C06_fine_current (sch : List Step) :
    (∀ q u, cnt (run genTags init sch) q u ≤ 1) ∧
    (∀ q, (lookup (run genTags init sch).items q).Pairwise (· < ·)) ∧
    (Quiescent (run genTags init sch) → ∀ u r, (u, r) ∈ (run genTags init sch).pubLog → ∀ q ∈ r,
      cnt (run genTags init sch) q u = 1) :=
  ⟨fun q u => C06_fine_at_most_once genTags genTags_keeps_others sch q u,
   fun q => C06_fine_order genTags genTags_keeps_others sch q,
   fun hq u r hlog q hqr => C06_fine_exactly_once genTags genTags_keeps_others sch hq u r hlog q hqr⟩

/-- `subscribe` runs under the fabric's `subscription_lock` in the current source: taking one `subscribe` call as ONE step of
the models (here and in `Conc.Fab`) is justified by it — without the lock two first-time subscribers of a signal can overwrite
each other's registry entry (found by the bytecode-level subscribe race, fixed in /repo). Fails to build when the translator
no longer finds every `_subscribe` call under the lock. -/
theorem subscribe_is_one_step_in_source : Miros.Gen.fabSubscribeLocked = true := by decide

end Miros.Props.C06Fine
