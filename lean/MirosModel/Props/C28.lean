import MirosModel.Text.RegexLemmas
import MirosModel.Gen.Constants
/-!
# C28 — a statement using a thread-safe attribute leaves no lock behind (positive part + witnesses)

"After any single statement that uses a thread-safe attribute finishes … the calling thread holds
no lock for that attribute."

Model: `Miros.Text` (`MirosModel/Text/Regex.lean`): `ThreadSafeAttribute.__get__` classifies the
calling source line with `is_not_atomic` (`notAtomic`, the pattern pinned below); on a line
classified non-atomic every get keeps the lock and a set releases once (`Stmt.leak`).

The implementation does **not** satisfy the property for every statement form (recorded
findings).  Proved here: what the pattern is (`C28_pattern_equiv`), when a statement leaks
(`C28_leak_formula`), the syntactic class of statements that never leak (`C28_partial`: no `<=` /
`>=`, no trailing comment containing an operator-assignment, the only augmented assignment is
`o.x op= e` with `e` not reading the attribute — over the whole, infinite, statement grammar), and
one witness per class of finding (`C28_witness_*`), which also show that each restriction of the
safe class is needed.
-/
namespace Miros.Props.C28
open Miros.Text

/-- the two regular expressions in the source are the ones the model was written for (editing
them in the source breaks this obligation) -/
theorem C28_patterns_pinned :
    Miros.Gen.notAtomicPattern = "([+-/*@^&|<>%]=)|([/<>*]{2}=)" ∧
    Miros.Gen.lockRequestPattern = "_, _lock[ ]+=" := by decide

/-- **C28 (pattern).** `is_not_atomic` answers True exactly when some character of the class
`+ , - . / * @ ^ & | < > %` is immediately followed by `=` -/
theorem C28_pattern_equiv (l : List Char) :
    notAtomic l = true ↔ ∃ pre a post, l = pre ++ a :: '=' :: post ∧ inOpClass a = true :=
  notAtomic_iff l

/-- the class, spelled out (the range from plus to slash covers plus, comma, minus, dot, slash) -/
theorem C28_class (c : Char) :
    inOpClass c = true ↔ c ∈ ['+', ',', '-', '.', '/', '*', '@', '^', '&', '|', '<', '>', '%'] := by
  constructor
  · intro h
    simp only [inOpClass, Bool.or_eq_true, Bool.and_eq_true, decide_eq_true_eq] at h
    rcases h with (((((((h | h) | h) | h) | h) | h) | h) | h) | h
    · obtain ⟨h1, h2⟩ := h
      have : c.toNat = 43 ∨ c.toNat = 44 ∨ c.toNat = 45 ∨ c.toNat = 46 ∨ c.toNat = 47 := by omega
      have hc : ∀ k, c.toNat = k → c = Char.ofNat k := by
        intro k hk; rw [← hk]; exact (Char.ofNat_toNat c).symm
      rcases this with e | e | e | e | e <;> rw [hc _ e] <;> decide
    all_goals (subst h; decide)
  · intro h
    simp only [List.mem_cons, List.not_mem_nil, or_false] at h
    rcases h with h | h | h | h | h | h | h | h | h | h | h | h | h <;> (subst h; decide)

/-- **C28 (leak).** A statement leaves no lock behind exactly when its line is classified atomic,
or it makes no get, or it makes exactly one get and one set -/
theorem C28_leak_formula (s : Stmt) :
    s.leak = 0 ↔ (notAtomic s.render.toList = false ∨ s.gets = 0 ∨ (s.gets = 1 ∧ s.sets = 1)) := by
  have hs := Stmt.sets_le_one s
  unfold Stmt.leak
  cases hn : notAtomic s.render.toList with
  | false => simp
  | true =>
    simp only [if_true, Bool.true_eq_false, false_or]
    split <;> omega

/-- **C28 (positive part).** Every statement of the safe class — built from any expressions without
`<=` / `>=`: a plain read `e`, `if e: pass`, an assignment `t = e` to any target (the attribute
included), each possibly followed by a comment without operator-assignment; and `o.x op= e` with
`e` not reading the attribute — leaves no lock behind. -/
theorem C28_partial (s : Stmt) (h : s.safe = true) : s.leak = 0 := by
  rw [C28_leak_formula]
  rcases Stmt.safe_cases s h with hg | hgs
  · exact Or.inl hg.1
  · exact Or.inr (Or.inr hgs)

/-- the statement forms of the property text, one by one -/
theorem C28_forms (e : Expr) (he : e.safe = true) (t : Target) (op : AugOp) (e' : Expr) (he' : e'.gets = 0) :
    (Stmt.expr e).leak = 0 ∧ (Stmt.ifPass e).leak = 0 ∧ (Stmt.assign t e).leak = 0 ∧
    (Stmt.assign .attr e).leak = 0 ∧ (Stmt.aug .attr op e').leak = 0 ∧
    (Stmt.comment (.assign t e) false).leak = 0 := by
  refine ⟨C28_partial _ he, C28_partial _ he, C28_partial _ he, C28_partial _ he, C28_partial _ ?_,
    C28_partial _ ?_⟩
  · simp [Stmt.safe, he']
  · simp [Stmt.safe, he]

/-- safe lines are classified atomic, except the augmented assignment (classified non-atomic, as
intended: its get keeps the lock for its set) -/
theorem C28_safe_atomic (s : Stmt) (h : s.safe = true) :
    notAtomic s.render.toList = false ∨ (s.gets = 1 ∧ s.sets = 1) := by
  rcases Stmt.safe_cases s h with hg | hgs
  · exact Or.inl hg.1
  · exact Or.inr hgs

/-! ### witnesses: one per class of recorded finding; each shows a restriction of the safe class
is needed -/

/-- `if o.x <= 10: pass`: a comparison is taken for an operator-assignment, the get keeps the lock -/
theorem C28_witness_le : (Stmt.ifPass (.cmp .le .attr (.num 10))).leak = 1 := by decide

theorem C28_witness_ge : (Stmt.expr (.cmp .ge (.var 0) .attr)).leak = 1 := by decide

/-- `v0 += o.x`: the attribute is only read, nothing releases -/
theorem C28_witness_other_target : (Stmt.aug (.var 0) .add .attr).leak = 1 := by decide

/-- `o.x += o.x`: two gets, one set -/
theorem C28_witness_read_twice : (Stmt.aug .attr .add .attr).leak = 1 := by decide

/-- `o.x  # total += 1`: the pattern matches inside the comment -/
theorem C28_witness_comment : (Stmt.comment (.expr .attr) true).leak = 1 := by decide

/-- the leak grows with the number of reads: `v0 -= (o.x + o.x)` -/
theorem C28_witness_two : (Stmt.aug (.var 0) .sub (.bin .add .attr .attr)).leak = 2 := by decide

/-! ### non-vacuity -/

example : (Stmt.ifPass (.cmp .le .attr (.num 10))).render = "if (o.x <= 10): pass" := by decide
example : (Stmt.aug .attr .lshift (.index (.var 3))).render = "o.x <<= d[v3]" := by decide
example : (Stmt.aug .attr .lshift (.index (.var 3))).leak = 0 := C28_partial _ (by decide)
example : (Stmt.assign (.item 2) (.cmp .ne (.call .attr) (.bin .lshift .attr (.num 1)))).render =
    "d['k2'] = (f(o.x) != (o.x << 1))" := by decide
example : (Stmt.assign (.item 2) (.cmp .ne (.call .attr) (.bin .lshift .attr (.num 1)))).leak = 0 :=
  C28_partial _ (by decide)
example : notAtomic "o.x <<= d[v3]".toList = true ∧ notAtomic "x == y != z".toList = false := by decide

end Miros.Props.C28
