import MirosModel.Instr.HandOverLemmas
import MirosModel.Gen.Constants
/-!
# C21 when the live-spy callback registers another callback — the hand-over

"With live spy or live trace switched on, each spy line and each new trace record produced by a
step is handed to the registered callback exactly once and in production order, whatever values
the wall clock returns."

Model: `Miros.Instr.HandOver` (`Instr/HandOver.lean`).  The decorator `print_spy_after_rtc_if_live`
loops over the step's spy lines and calls `self.live_spy_callback(line)`, reading the attribute at
every iteration; a callback may call `chart.register_live_spy_callback(other)` while it is being
handed a line.  `Tags.readEachLine = true` is the current source, `false` the seeded change "read
the attribute once before the loop".  A `Behaviour` `b k l : Option Sink` says whether sink `k`,
handed line `l`, registers another sink.  `S.handed` logs every call (sink, line) in order.

All theorems hold for EVERY behaviour `b`, every start state and every list of operations (steps
with any lines, client registrations between steps).
-/
namespace Miros.Props.C21HandOver
open Miros.Instr.HandOver

/-! ### 1. each line once, in production order (both tags) -/

/-- **C21 (hand-over, each once, in order).** Under either tag, for every behaviour, from every
state, after any list of operations: the lines handed over (whoever received them) are the lines
handed before followed by the lines of all steps in production order — no line dropped, repeated
or reordered.  From a fresh chart they are exactly the concatenation of the steps' lines. -/
theorem C21_handover_each_once_in_order (t : Tags) (b : Behaviour) (s : S) (ops : List Op) :
    (runOps t b s ops).handed.map Prod.snd = s.handed.map Prod.snd ++ linesOf ops ∧
    ∀ k, (runOps t b (S.init k) ops).handed.map Prod.snd = linesOf ops := by
  refine ⟨runOps_lines t b s ops, fun k => ?_⟩
  rw [runOps_lines]; rfl

/-- the same for a plain sequence of steps (`runSteps`, no client registration in between): the
lines handed over from a fresh chart are the concatenation of the steps' line lists -/
theorem C21_handover_each_once_in_order_steps (t : Tags) (b : Behaviour) (k : Sink)
    (steps : List (List Line)) :
    (runSteps t b (S.init k) steps).handed.map Prod.snd = steps.flatten := by
  rw [runSteps_eq_runOps, runOps_lines, linesOf_steps]; rfl

/-! ### 2. each line to the sink registered at that moment (current source) -/

/-- **C21 (hand-over, to the registered sink).** Current source (`readEachLine = true`), every
behaviour, every state, every list of operations: the sinks that were called are, line for line,
`regTrace` — the sink registered just before each line, computed from `b` and the client's
registrations alone; the whole log is `regTrace` zipped with the produced lines; and the sink
registered at the end is `regAfter`. -/
theorem C21_handover_to_registered (b : Behaviour) (s : S) (ops : List Op) :
    let s' := runOps ⟨true⟩ b s ops
    s'.handed.map Prod.fst = s.handed.map Prod.fst ++ regTrace b s.registered ops ∧
    s'.handed = s.handed ++ (regTrace b s.registered ops).zip (linesOf ops) ∧
    s'.registered = regAfter b s.registered ops := by
  intro s'
  have hh := runOps_each_handed b s ops
  refine ⟨?_, hh, runOps_each_registered b s ops⟩
  show (runOps ⟨true⟩ b s ops).handed.map Prod.fst = _
  rw [hh, List.map_append, List.map_fst_zip]
  rw [regTrace_length]; exact Nat.le_refl _

/-- from a fresh chart with sink `k` registered: the called sinks are exactly `regTrace b k ops` -/
theorem C21_handover_to_registered_init (b : Behaviour) (k : Sink) (ops : List Op) :
    (runOps ⟨true⟩ b (S.init k) ops).handed.map Prod.fst = regTrace b k ops := by
  have h := (C21_handover_to_registered b (S.init k) ops).1
  simpa [S.init] using h

/-- **C21 (hand-over, the next line of the same step).** Current source.  Let the chart have run
`pre` and, in the current step, already handed the lines `a`; the registered sink `k` is now handed
`l` and registers `k'` (`b k l = some k'`).  Then the very next entry of the log is `(k', l')`: the
next line of this step goes to the newly registered sink. -/
theorem C21_handover_next_line_same_step (b : Behaviour) (s : S) (pre : List Op) (a : List Line)
    (l l' : Line) (rest : List Line) (post : List Op) (k' : Sink) :
    let s1 := handOver ⟨true⟩ b (runOps ⟨true⟩ b s pre) a
    b s1.registered l = some k' →
    ∃ ext, (runOps ⟨true⟩ b s (pre ++ Op.step (a ++ l :: l' :: rest) :: post)).handed =
      s1.handed ++ (s1.registered, l) :: (k', l') :: ext := by
  intro s1 h
  rw [runOps_append, runOps_cons]
  simp only [applyOp, handOver_each, handEach_append]
  obtain ⟨e1, h1⟩ := handEach_two b s1 l l' rest k' h
  obtain ⟨e2, h2⟩ := runOps_handed_prefix ⟨true⟩ b (handEach b s1 (l :: l' :: rest)) post
  refine ⟨e1 ++ e2, ?_⟩
  show (runOps ⟨true⟩ b (handEach b s1 (l :: l' :: rest)) post).handed = _
  rw [h2, h1]; simp

/-- **C21 (hand-over, the next line in a later step).** Current source.  The registered sink `k` is
handed the LAST line `l` of a step and registers `k'`; then come steps without lines (`mid`: no
further registration, neither by a sink nor by the client); then a step with first line `l'`.  The
entry of the log after `(k, l)` is `(k', l')`: the first line of the later step goes to the newly
registered sink. -/
theorem C21_handover_next_line_later_step (b : Behaviour) (s : S) (pre : List Op) (a : List Line)
    (l l' : Line) (mid : List Op) (rest : List Line) (post : List Op) (k' : Sink)
    (hmid : ∀ o ∈ mid, o = Op.step []) :
    let s1 := handOver ⟨true⟩ b (runOps ⟨true⟩ b s pre) a
    b s1.registered l = some k' →
    ∃ ext, (runOps ⟨true⟩ b s
        (pre ++ Op.step (a ++ [l]) :: (mid ++ Op.step (l' :: rest) :: post))).handed =
      s1.handed ++ (s1.registered, l) :: (k', l') :: ext := by
  intro s1 h
  rw [runOps_append, runOps_cons, runOps_append, runOps_empty_steps _ _ _ mid hmid, runOps_cons]
  simp only [applyOp, handOver_each, handEach_append]
  obtain ⟨e2, h2⟩ := runOps_handed_prefix ⟨true⟩ b (handEach b (handEach b s1 [l]) (l' :: rest)) post
  refine ⟨(regTraceLines b (regNext b k' l') rest).zip rest ++ e2, ?_⟩
  show (runOps ⟨true⟩ b (handEach b (handEach b s1 [l]) (l' :: rest)) post).handed = _
  rw [h2, handEach_handed]
  simp [handEach, regTraceLines, h]

/-! ### 3. without re-registration the change is invisible -/

/-- **C21 (hand-over, invisible without re-registration).** If no sink ever registers another one
(`b k l = none` for all `k`, `l`), "read once" and the current source give the same state — log and
registered sink — from every state, for every list of operations (client registrations between
steps included). -/
theorem C21_handover_no_reregistration_same (b : Behaviour) (hb : ∀ k l, b k l = none) (s : S)
    (ops : List Op) : runOps ⟨false⟩ b s ops = runOps ⟨true⟩ b s ops :=
  runOps_noreg_same b hb s ops

/-! ### 4. the seeded change -/

/-- **C21 (hand-over, what "read once" does).** Under the seeded change every line of a step is
handed to the sink that was registered when the step's loop started, whatever the sinks register
meanwhile. -/
theorem C21_handover_read_once_whole_step (b : Behaviour) (s : S) (ls : List Line) :
    (handOver ⟨false⟩ b s ls).handed = s.handed ++ ls.map fun l => (s.registered, l) :=
  handOnce_handed b s.registered s ls

/-- the witness behaviour: sink 1 registers sink 2 when it is handed line 10 -/
def wB : Behaviour := fun k l => if k = 1 ∧ l = 10 then some 2 else none

/-- **C21 (hand-over, witness for "read once").** Sinks 1 and 2, `b 1 10 = some 2`, one step with
lines `[10, 11, 12]`.  Read-once hands all three lines to sink 1 — lines 11 and 12 go to a callback
that is no longer registered; the current source hands 11 and 12 to sink 2.  In both, sink 2 is
registered afterwards, and the NEXT step (`[13, 14]`) is normal again under both tags. -/
theorem C21_handover_witness_read_once :
    wB 1 10 = some 2 ∧
    handOver ⟨false⟩ wB (S.init 1) [10, 11, 12] = ⟨2, [(1, 10), (1, 11), (1, 12)]⟩ ∧
    handOver ⟨true⟩ wB (S.init 1) [10, 11, 12] = ⟨2, [(1, 10), (2, 11), (2, 12)]⟩ ∧
    runSteps ⟨false⟩ wB (S.init 1) [[10, 11, 12], [13, 14]] =
      ⟨2, [(1, 10), (1, 11), (1, 12), (2, 13), (2, 14)]⟩ ∧
    runSteps ⟨true⟩ wB (S.init 1) [[10, 11, 12], [13, 14]] =
      ⟨2, [(1, 10), (2, 11), (2, 12), (2, 13), (2, 14)]⟩ := by decide

/-! ### 5. the current source -/

/-- the tag of the current source, as generated from it -/
def genTags : Tags := ⟨Miros.Gen.liveSpyReadsCallbackEachLine⟩

theorem genTags_ok : genTags = ⟨true⟩ := by decide

/-- **C21 (hand-over, current source).** Statements 1 and 2 for the tag generated from the current
source: each line once and in production order, each to the sink registered at that moment. -/
theorem C21_handover_current (b : Behaviour) (s : S) (ops : List Op) :
    let s' := runOps genTags b s ops
    s'.handed.map Prod.snd = s.handed.map Prod.snd ++ linesOf ops ∧
    s'.handed.map Prod.fst = s.handed.map Prod.fst ++ regTrace b s.registered ops ∧
    s'.handed = s.handed ++ (regTrace b s.registered ops).zip (linesOf ops) ∧
    s'.registered = regAfter b s.registered ops := by
  rw [genTags_ok]
  exact ⟨(C21_handover_each_once_in_order ⟨true⟩ b s ops).1, C21_handover_to_registered b s ops⟩

/-! ### 6. non-vacuity -/

/-- a rotating sink (1 → 2 on marker line 10, 2 → 3 on marker 20, 3 → 1 on marker 30) and a capture
callback 7 that unregisters itself (registers the default sink 0) on line 99 -/
def exB : Behaviour := ruleB [(1, 10, 2), (2, 20, 3), (3, 30, 1), (7, 99, 0)]

/-- steps with and without lines, a marker in the middle and at the end of a step, client
registrations between steps -/
def exOps : List Op :=
  [.step [5, 10, 11, 20, 21], .step [], .step [22, 30], .step [31], .register 7, .step [40, 99, 41],
   .step [42]]

example : linesOf exOps = [5, 10, 11, 20, 21, 22, 30, 31, 40, 99, 41, 42] := by decide
example : regTrace exB 1 exOps = [1, 1, 2, 2, 3, 3, 3, 1, 7, 7, 0, 0] ∧ regAfter exB 1 exOps = 0 := by
  decide
/-- the current source on that run -/
example : runOps ⟨true⟩ exB (S.init 1) exOps =
    ⟨0, [(1, 5), (1, 10), (2, 11), (2, 20), (3, 21), (3, 22), (3, 30), (1, 31), (7, 40), (7, 99),
         (0, 41), (0, 42)]⟩ := by decide
/-- read once on the same run: the same lines in the same order (theorem 1), but 11, 20, 21 still
go to sink 1, and 41 to the capture callback that unregistered itself -/
example : runOps ⟨false⟩ exB (S.init 1) exOps =
    ⟨0, [(1, 5), (1, 10), (1, 11), (1, 20), (1, 21), (2, 22), (2, 30), (2, 31), (7, 40), (7, 99),
         (7, 41), (0, 42)]⟩ := by decide
/-- the theorems instantiate on that run -/
example := C21_handover_each_once_in_order ⟨false⟩ exB (S.init 1) exOps
example := C21_handover_to_registered exB (S.init 1) exOps
example := C21_handover_current exB (S.init 1) exOps
/-- same step: `pre = []`, `a = [5]` already handed, `l = 10` (sink 1 registers 2), `l' = 11`: the
hypotheses of the corollary are met -/
example : let s1 := handOver ⟨true⟩ exB (runOps ⟨true⟩ exB (S.init 1) []) [5]
    s1.registered = 1 ∧ exB s1.registered 10 = some 2 := by decide
example := C21_handover_next_line_same_step exB (S.init 1) [] [5] 10 11 [20, 21]
  [.step [], .step [22, 30]] 2 (by decide)
/-- later step: sink 3 is handed the last line 30 of the third step and registers 1; the next line
31 is in the following step -/
example :
    let s0 := runOps ⟨true⟩ exB (S.init 1) [.step [5, 10, 11, 20, 21], .step []]
    let s1 := handOver ⟨true⟩ exB s0 [22]
    s1.registered = 3 ∧ exB s1.registered 30 = some 1 := by decide
example := C21_handover_next_line_later_step exB (S.init 1) [.step [5, 10, 11, 20, 21], .step []]
  [22] 30 31 [.step [], .step []] [] [.register 7] 1 (by decide) (by decide)
/-- no re-registration: the hypothesis is met by the behaviour that never registers, and both tags
agree on a run with client registrations -/
example := C21_handover_no_reregistration_same (fun _ _ => none) (fun _ _ => rfl) (S.init 1) exOps
example : runOps ⟨false⟩ (fun _ _ => none) (S.init 1) exOps =
    ⟨7, [(1, 5), (1, 10), (1, 11), (1, 20), (1, 21), (1, 22), (1, 30), (1, 31), (7, 40), (7, 99),
         (7, 41), (7, 42)]⟩ := by decide
/-- and the hypothesis matters: with `exB` the two tags differ (so theorem 3 is not vacuous and its
hypothesis cannot be dropped) -/
example : runOps ⟨false⟩ exB (S.init 1) exOps ≠ runOps ⟨true⟩ exB (S.init 1) exOps := by decide

end Miros.Props.C21HandOver
