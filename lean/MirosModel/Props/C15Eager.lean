import MirosModel.Queue.EagerRecallLemmas
import MirosModel.Gen.Constants
/-!
# C15 on an eagerly draining chart — `recall()` re-entered from the step its own post started

"A deferred event is not dispatched until recalled; each recall moves the oldest deferred event
to the back of the queue and returns it, and returns None and posts nothing when nothing is
deferred. Deferred events keep their deferral order." — for all interleavings of defer, recall,
posts and steps.

Model: `Miros.Queue.Eager` (`Queue/EagerRecall.lean`): a subclass whose `post_fifo` steps the chart
until its queue is empty, and a handler that (where `h x = true`) calls `chart.recall()` when it is
handed `x`.  A top-level `recall()` posts the oldest deferred event, the post runs the chart, the
handler calls `recall()` again while the outer one has not returned.  `Tags.popFirst = true` is the
current source (`e = popleft(); post_fifo(e)`), `popFirst = false` the seeded "peek, post, then pop".

Theorems 1–3 hold for EVERY handler predicate `h`, every list of client operations and EVERY
amount of fuel (running out of fuel only leaves events pending; nothing is lost, duplicated or
reordered).  Theorems 4–6 say what enough fuel is (`fuelBound s = s.dq.length + s.q.length + 1`
for one top-level call, `ops.length + 1` for a run from the empty state; the coarser
`3 * (dq.length + q.length) + 3` and the driver's `3 * ops.length + 10` are larger).
`OpsOk ops`: the deferred payloads are pairwise distinct and `< 1000`, the client's posts `≥ 1000`.
-/
namespace Miros.Props.C15Eager
open Miros.Queue.Eager

theorem isDef_eq : (fun x => decide (x < 1000)) = isDef := rfl

/-! ### 1. each deferred event once, nothing lost -/

/-- **C15 (eager, each once).** From the empty state, after any list of client operations (deferred
payloads pairwise distinct and `< 1000`, posts `≥ 1000`), for every handler and any fuel: no pop
ever failed; no deferred payload occurs twice in `dispatched`; `dq ++ q ++ dispatched` is a
permutation of everything deferred or posted so far, so every deferred payload is in exactly one
of `dq`, `q`, `dispatched` (exactly once); and if the posted payloads are distinct too, no payload
at all is dispatched twice. -/
theorem C15_eager_each_once (h : Nat → Bool) (fuel : Nat) (ops : List Op) (ok : OpsOk ops) :
    let s := runOps ⟨true⟩ h fuel S.empty ops
    s.failed = false ∧
    (s.dispatched.filter (· < 1000)).Nodup ∧
    (s.dq ++ s.q ++ s.dispatched).Perm (deferredOf ops ++ postedOf ops) ∧
    (∀ x ∈ deferredOf ops, (s.dq ++ s.q ++ s.dispatched).count x = 1) ∧
    ((postedOf ops).Nodup → s.dispatched.Nodup) := by
  intro s
  have i : Inv s (deferredOf ops) (postedOf ops) := run_inv h fuel ops ok
  have hperm : (s.dq ++ s.q ++ s.dispatched).Perm (deferredOf ops ++ postedOf ops) := by
    rw [← i.defd, ← i.posted]
    have h1 := (List.filter_append_perm isDef (s.dispatched ++ s.q)).symm
    have h2 : (s.dq ++ s.q ++ s.dispatched).Perm (s.dispatched ++ s.q ++ s.dq) := by
      refine List.perm_append_comm.trans ?_
      rw [List.append_assoc]
      exact List.Perm.append_left _ List.perm_append_comm
    refine h2.trans ?_
    refine (List.Perm.append_right _ h1).trans ?_
    rw [List.append_assoc, List.append_assoc]
    exact List.Perm.append_left _ List.perm_append_comm
  refine ⟨i.failed, ?_, hperm, ?_, ?_⟩
  · rw [isDef_eq]
    have hsub : (s.dispatched.filter isDef).Sublist (deferredOf ops) := by
      rw [← i.defd, List.filter_append, List.append_assoc]
      exact List.sublist_append_left _ _
    exact hsub.nodup ok.nodup
  · intro x hx
    rw [hperm.count_eq, List.count_append, ok.nodup.count]
    have : x ∉ postedOf ops := fun hp => by have := ok.small x hx; have := ok.big x hp; omega
    simp [hx, List.count_eq_zero_of_not_mem this]
  · intro hP
    have hnd : (deferredOf ops ++ postedOf ops).Nodup := by
      rw [List.nodup_append]
      refine ⟨ok.nodup, hP, ?_⟩
      intro a ha b hb hab
      have := ok.small a ha; have := ok.big b hb; omega
    have := hperm.nodup_iff.mpr hnd
    exact (List.sublist_append_right _ _).nodup this

/-! ### 2. deferral order -/

/-- **C15 (eager, order).** The deferred payloads dispatched so far, then the released ones still
pending in `q`, then the defer queue, are exactly the deferred payloads in deferral order: the
dispatched ones are a prefix, `dq` is a suffix; and with enough fuel (`ops.length + 1`) nothing is
left pending, so `dispatched` (its deferred part) followed by `dq` is everything deferred. -/
theorem C15_eager_order (h : Nat → Bool) (fuel : Nat) (ops : List Op) (ok : OpsOk ops) :
    let s := runOps ⟨true⟩ h fuel S.empty ops
    s.dispatched.filter (· < 1000) ++ s.q.filter (· < 1000) ++ s.dq = deferredOf ops ∧
    s.dispatched.filter (· < 1000) <+: deferredOf ops ∧
    s.dq <:+ deferredOf ops ∧
    (ops.length + 1 ≤ fuel → s.q = [] ∧ s.dispatched.filter (· < 1000) ++ s.dq = deferredOf ops) := by
  intro s
  have i : Inv s (deferredOf ops) (postedOf ops) := run_inv h fuel ops ok
  have h1 : s.dispatched.filter (· < 1000) ++ s.q.filter (· < 1000) ++ s.dq = deferredOf ops := by
    rw [isDef_eq, ← List.filter_append]; exact i.defd
  refine ⟨h1, ⟨_, by rw [← h1, List.append_assoc]⟩, ⟨_, h1⟩, ?_⟩
  intro hfuel
  have hq : s.q = [] :=
    (runOps_fuel h ops S.empty fuel fuel rfl rfl rfl (by simp [S.empty]; omega) (Nat.le_refl _)).2.1
  refine ⟨hq, ?_⟩
  rw [← h1, hq]; simp

/-! ### 3. not dispatched before a recall released it -/

/-- **C15 (eager, not before recall).** At most as many deferred payloads have been dispatched as
recalls have returned an event; every event a recall returned has been dispatched or is pending;
more precisely the events returned by the recalls are (up to the order of return: an outer recall
returns after the inner ones) exactly the deferred payloads dispatched or pending — so every
dispatched deferred payload was returned by some recall. -/
theorem C15_eager_not_before_recall (h : Nat → Bool) (fuel : Nat) (ops : List Op) (ok : OpsOk ops) :
    let s := runOps ⟨true⟩ h fuel S.empty ops
    (s.dispatched.filter (· < 1000)).length ≤ s.returned.countP Option.isSome ∧
    (∀ e, some e ∈ s.returned → e ∈ s.dispatched ∨ e ∈ s.q) ∧
    (somes s.returned).Perm (s.dispatched.filter (· < 1000) ++ s.q.filter (· < 1000)) ∧
    (∀ x ∈ s.dispatched, x < 1000 → some x ∈ s.returned) := by
  intro s
  have i : Inv s (deferredOf ops) (postedOf ops) := run_inv h fuel ops ok
  have hp : (somes s.returned).Perm (s.dispatched.filter (· < 1000) ++ s.q.filter (· < 1000)) := by
    rw [isDef_eq, ← List.filter_append]; exact i.ret
  refine ⟨?_, ?_, hp, ?_⟩
  · rw [← somes_length, hp.length_eq, List.length_append]; omega
  · intro e he
    have := hp.mem_iff.mp ((mem_somes _ _).mpr he)
    simp only [List.mem_append, List.mem_filter] at this
    rcases this with h1 | h1
    · exact Or.inl h1.1
    · exact Or.inr h1.1
  · intro x hx hlt
    apply (mem_somes _ _).mp
    apply hp.mem_iff.mpr
    simp [hx, hlt]

/-! ### 4. one top-level recall -/

/-- **C15 (eager, recall returns the oldest).** A top-level `recall()` (chart idle: `q = []`,
not running, at least one unit of fuel) with `e` the oldest deferred event: whatever the handler
does (it may recall further events from inside), `some e` is the LAST value added to `returned`
(the outer recall returns after the nested ones) and `e` is the FIRST event dispatched.  With
nothing deferred (any tag, any fuel): it returns `None`, posts nothing, and nothing else changes. -/
theorem C15_eager_recall_returns_oldest (h : Nat → Bool) (fuel : Nat) (s : S)
    (hr : s.running = false) (hf : s.failed = false) :
    (∀ e rest, s.dq = e :: rest → s.q = [] → 1 ≤ fuel →
      (∃ mid, (recall ⟨true⟩ h fuel s).returned = s.returned ++ mid ++ [some e]) ∧
      (∃ d, (recall ⟨true⟩ h fuel s).dispatched = s.dispatched ++ e :: d) ∧
      (∃ rel, e :: rest = rel ++ (recall ⟨true⟩ h fuel s).dq) ∧
      (recall ⟨true⟩ h fuel s).failed = false ∧ (recall ⟨true⟩ h fuel s).running = false) ∧
    (s.dq = [] → ∀ t, recall t h fuel s = { s with returned := s.returned ++ [none] }) := by
  refine ⟨?_, fun hd t => recall_top_nil t h fuel s hd hf⟩
  intro e rest hd hq hfuel
  obtain ⟨n, rfl⟩ : ∃ n, fuel = n + 1 := ⟨fuel - 1, by omega⟩
  obtain ⟨h1, h2⟩ := recall_top_oldest h n s e rest hd hq hr hf
  obtain ⟨rel, g⟩ := recall_top_grow h (n + 1) s hr hf
  exact ⟨h1, h2, ⟨rel, by rw [← hd]; exact g.dq⟩, g.failed, by rw [g.running, hr]⟩

/-! ### 5. the chain -/

/-- **C15 (eager, the chain drains everything).** If the handler recalls on every event, one
top-level `recall()` on an idle chart with `l` deferred (fuel `≥ l.length`) dispatches exactly `l`,
in deferral order, and leaves nothing deferred, nothing pending, the chart not running; the nested
recalls return `l`'s tail in order, then `None`, and the outer recall returns `l`'s head last.
(`l` need not be distinct.) -/
theorem C15_eager_chain_drains_all (h : Nat → Bool) (hall : ∀ x, h x = true) (fuel : Nat) (s : S)
    (l : List Nat) (hd : s.dq = l) (hq : s.q = []) (hr : s.running = false) (hf : s.failed = false)
    (hfuel : l.length ≤ fuel) :
    let s' := recall ⟨true⟩ h fuel s
    s'.dispatched = s.dispatched ++ l ∧ s'.dq = [] ∧ s'.q = [] ∧ s'.running = false ∧
    s'.failed = false ∧
    s'.returned = s.returned ++ l.tail.map some ++ [none] ++ (l.head?.map some).toList := by
  intro s'
  have hs' : s' = _ := recall_top_chain h hall fuel s hq hr hf (by rw [hd]; exact hfuel)
  rw [hs']
  subst hd
  exact ⟨rfl, rfl, hq, hr, hf, rfl⟩

/-! ### 6. fuel -/

/-- **C15 (eager, enough fuel).** One top-level call on a chart that is not running, with
`fuelBound s = s.dq.length + s.q.length + 1` units of fuel or more: more fuel gives the same state,
and the queue is empty afterwards (after a `recall()` with nothing deferred the queue is what it
was).  A whole run from the empty state with `ops.length + 1` units or more: the same, after every
operation. -/
theorem C15_eager_fuel_enough (h : Nat → Bool) :
    (∀ (s : S) (n m : Nat), s.running = false → s.failed = false → fuelBound s ≤ n → n ≤ m →
      recall ⟨true⟩ h m s = recall ⟨true⟩ h n s ∧
      (s.dq ≠ [] ∨ s.q = [] → (recall ⟨true⟩ h n s).q = []) ∧
      ∀ x, post ⟨true⟩ h m s x = post ⟨true⟩ h n s x ∧ (post ⟨true⟩ h n s x).q = []) ∧
    (∀ (ops : List Op) (n m : Nat), ops.length + 1 ≤ n → n ≤ m →
      runOps ⟨true⟩ h m S.empty ops = runOps ⟨true⟩ h n S.empty ops ∧
      ∀ k, k ≤ ops.length → (runOps ⟨true⟩ h n S.empty (ops.take k)).q = []) := by
  constructor
  · intro s n m hr hf hn hm
    unfold fuelBound at hn
    obtain ⟨h1, h2, h3⟩ := recall_top_fuel h n m s hr hf (by omega) hm
    refine ⟨h1, ?_, fun x => post_top_fuel h n m s x hr hf (by omega) hm⟩
    intro hc
    cases hdq : s.dq with
    | nil =>
      rcases hc with hc | hc
      · exact absurd hdq hc
      · rw [h2 hdq, hc]
    | cons a b => exact h3 (by rw [hdq]; simp)
  · intro ops n m hn hm
    refine ⟨(runOps_fuel h ops S.empty n m rfl rfl rfl (by simp [S.empty]; omega) hm).1, ?_⟩
    intro k hk
    exact (runOps_fuel h (ops.take k) S.empty n n rfl rfl rfl
      (by simp [S.empty, List.length_take]; omega) (Nat.le_refl _)).2.1

/-- the bound suggested in the task, `3 * (dq.length + q.length) + 3`, and the driver's
`3 * ops.length + 10` are (more than) enough -/
theorem C15_eager_fuel_enough_coarse (h : Nat → Bool) :
    (∀ (s : S) (m : Nat), s.running = false → s.failed = false →
      3 * (s.dq.length + s.q.length) + 3 ≤ m →
      recall ⟨true⟩ h m s = recall ⟨true⟩ h (fuelBound s) s ∧
      ∀ x, post ⟨true⟩ h m s x = post ⟨true⟩ h (fuelBound s) s x) ∧
    (∀ ops : List Op, runOps ⟨true⟩ h (3 * ops.length + 10) S.empty ops =
      runOps ⟨true⟩ h (ops.length + 1) S.empty ops) := by
  obtain ⟨h1, h2⟩ := C15_eager_fuel_enough h
  constructor
  · intro s m hr hf hm
    have hb : fuelBound s ≤ m := by unfold fuelBound; omega
    obtain ⟨a, _, c⟩ := h1 s (fuelBound s) m hr hf (Nat.le_refl _) hb
    exact ⟨a, fun x => (c x).1⟩
  · intro ops
    exact (h2 ops (ops.length + 1) (3 * ops.length + 10) (Nat.le_refl _) (by omega)).1

/-! ### 7. the seeded change: peek, post, then pop -/

/-- **C15 (eager, witness for "peek first").** Three deferred events, a handler that always
recalls, ONE top-level `recall()`.  With "peek, post, pop" the nested recall sees event 0 still at
the head and posts it again: 0 is dispatched twice (`[0, 0, 1, 2]`), the nested recalls empty the
defer queue, and the outer recall's own `popleft` then finds it empty (`failed`, the `IndexError`).
With the current source: `[0, 1, 2]`, nothing failed, the outer recall returns 0 last. -/
theorem C15_eager_witness_peek_first :
    recall ⟨false⟩ (fun _ => true) 13 ⟨[], [0, 1, 2], [], [], false, false⟩ =
      ⟨[], [], [0, 0, 1, 2], [some 0, some 1, some 2, none], false, true⟩ ∧
    recall ⟨true⟩ (fun _ => true) 13 ⟨[], [0, 1, 2], [], [], false, false⟩ =
      ⟨[], [], [0, 1, 2], [some 1, some 2, none, some 0], false, false⟩ ∧
    runOps ⟨false⟩ (fun _ => true) 22 S.empty [.defer 0, .defer 1, .defer 2, .recall] =
      ⟨[], [], [0, 0, 1, 2], [some 0, some 1, some 2, none], false, true⟩ := by decide

/-- **C15 (eager, witness: an event is lost).** The handler recalls only when handed event 0.
"Peek, post, pop": 0 is dispatched twice, the second nested recall releases 1, and the outer
recall's `popleft` then removes event 2 — which was never posted: it is neither deferred, nor
pending, nor dispatched (and nothing "failed").  Current source: `[0, 1]` dispatched, 2 still
deferred. -/
theorem C15_eager_witness_peek_first_loses :
    recall ⟨false⟩ (fun x => x == 0) 13 ⟨[], [0, 1, 2], [], [], false, false⟩ =
      ⟨[], [], [0, 0, 1], [some 0, some 1, some 0], false, false⟩ ∧
    recall ⟨true⟩ (fun x => x == 0) 13 ⟨[], [0, 1, 2], [], [], false, false⟩ =
      ⟨[], [2], [0, 1], [some 1, some 0], false, false⟩ := by decide

/-- **C15 (eager, invisible without re-entry).** If the handler never recalls, "peek, post, pop"
and the current source give the same state after every list of client operations, from every
state, with any fuel. -/
theorem C15_eager_no_reentry_same (fuel : Nat) (s : S) (ops : List Op) :
    runOps ⟨false⟩ (fun _ => false) fuel s ops = runOps ⟨true⟩ (fun _ => false) fuel s ops :=
  runOps_noh_same fuel s ops

/-! ### 9. the current source -/

/-- the tag of the current source, as generated from it -/
def genTags : Tags := ⟨Miros.Gen.recallPopsFirst⟩

theorem genTags_ok : genTags = ⟨true⟩ := by decide

/-- **C15 (eager, current source).** `C15_eager_each_once` for the tag generated from the current
source. -/
theorem C15_eager_current (h : Nat → Bool) (fuel : Nat) (ops : List Op) (ok : OpsOk ops) :
    let s := runOps genTags h fuel S.empty ops
    s.failed = false ∧
    (s.dispatched.filter (· < 1000)).Nodup ∧
    (s.dq ++ s.q ++ s.dispatched).Perm (deferredOf ops ++ postedOf ops) ∧
    (∀ x ∈ deferredOf ops, (s.dq ++ s.q ++ s.dispatched).count x = 1) ∧
    ((postedOf ops).Nodup → s.dispatched.Nodup) := by
  rw [genTags_ok]
  exact C15_eager_each_once h fuel ops ok

/-! ### 8. non-vacuity -/

/-- a run with posts between the defers, two top-level recalls, a handler that recalls on every
deferred payload -/
def exOps : List Op := [.defer 1, .defer 2, .post 1000, .defer 3, .recall, .post 1001, .defer 4, .recall]

example : OpsOk exOps := ⟨by decide, by decide, by decide⟩
/-- 1, 2: the first top-level recall releases 1, the handler chain 2 and 3; the second releases 4 -/
example : runOps ⟨true⟩ (fun x => decide (x < 1000)) 9 S.empty exOps =
    ⟨[], [], [1000, 1, 2, 3, 1001, 4], [some 2, some 3, none, some 1, none, some 4], false, false⟩ := by
  decide
/-- 1–3 with a handler that recalls only for payload 1: event 3 stays deferred after the first
recall, the second releases it -/
example : runOps ⟨true⟩ (fun x => x == 1) 9 S.empty exOps =
    ⟨[], [4], [1000, 1, 2, 1001, 3], [some 2, some 1, some 3], false, false⟩ := by decide
/-- too little fuel: events stay pending, nothing is lost (theorems 1–3 do not need fuel) -/
example : runOps ⟨true⟩ (fun x => decide (x < 1000)) 1 S.empty exOps =
    ⟨[3, 4], [], [1000, 1, 2, 1001], [some 2, some 1, some 3, some 4], false, false⟩ := by decide
/-- 4: hypotheses of the recall theorem -/
example : (recall ⟨true⟩ (fun x => x == 5) 3 ⟨[], [5, 6, 7], [9], [none], false, false⟩) =
    ⟨[], [7], [9, 5, 6], [none, some 6, some 5], false, false⟩ := by decide
example : recall ⟨false⟩ (fun _ => true) 3 ⟨[8], [], [9], [], false, false⟩ =
    ⟨[8], [], [9], [none], false, false⟩ := by decide
/-- 5: the chain -/
example : recall ⟨true⟩ (fun _ => true) 4 ⟨[], [5, 6, 7, 5], [], [], false, false⟩ =
    ⟨[], [], [5, 6, 7, 5], [some 6, some 7, some 5, none, some 5], false, false⟩ := by decide
/-- 6: the bound is sharp for `post`: one unit less leaves an event pending -/
example : fuelBound ⟨[], [5, 6], [], [], false, false⟩ = 3 ∧
    (post ⟨true⟩ (fun _ => true) 3 ⟨[], [5, 6], [], [], false, false⟩ 1000).q = [] ∧
    (post ⟨true⟩ (fun _ => true) 2 ⟨[], [5, 6], [], [], false, false⟩ 1000).q = [6] := by decide
/-- the hypotheses of theorems 1–3 are met by `exOps` with a recalling handler, those of 4 and 5
by concrete idle charts: the theorems instantiate -/
example := C15_eager_each_once (fun x => decide (x < 1000)) 9 exOps ⟨by decide, by decide, by decide⟩
example := C15_eager_order (fun x => x == 1) 9 exOps ⟨by decide, by decide, by decide⟩
example := C15_eager_not_before_recall (fun x => x == 1) 1 exOps ⟨by decide, by decide, by decide⟩
example := (C15_eager_recall_returns_oldest (fun x => x == 5) 3 ⟨[], [5, 6, 7], [9], [none], false, false⟩
  rfl rfl).1 5 [6, 7] rfl rfl (by decide)
example := C15_eager_chain_drains_all (fun _ => true) (fun _ => rfl) 4 ⟨[], [5, 6, 7, 5], [], [], false, false⟩
  [5, 6, 7, 5] rfl rfl rfl rfl (by decide)
/-- no re-entry: both tags -/
example : runOps ⟨false⟩ (fun _ => false) 9 S.empty exOps =
    ⟨[], [3, 4], [1000, 1, 1001, 2], [some 1, some 2], false, false⟩ := by decide

end Miros.Props.C15Eager
