import MirosModel.Hsm.Lemmas
import MirosModel.Instr.Name
import MirosModel.Gen.Constants
/-!
# C23 — state_name and state_fn always describe the current state

`state_name`/`state_fn` are written (a) by the `spy_on` wrapper on every handler invocation,
(b) explicitly by `start_at` and `dispatch` with the final state, (c) by the instrumented hosts,
which call the *current* state once or twice more with REFLECTION_SIGNAL (trace record,
`current_state()`), going through the wrapper again.  `Miros.Instr.nameAfterStep` is the last
write of that sequence; the theorems say it is the final state for every call trace, every
number of reflection calls and both decorator settings.
-/
namespace Miros.Props.C23
open Miros.Hsm Miros.Instr

theorem lastOr_append_singleton (d x : St) (l : List St) : lastOr d (l ++ [x]) = x := by
  induction l generalizing d with
  | nil => rfl
  | cons a t ih => simp [lastOr, ih]

theorem lastOr_append_replicate (d x : St) (l : List St) (k : Nat) :
    lastOr d (l ++ [x] ++ List.replicate k x) = x := by
  induction k with
  | zero => simpa using lastOr_append_singleton d x l
  | succ k ih =>
    rw [List.replicate_succ', ← List.append_assoc]
    exact lastOr_append_singleton d x _

/-- **C23 (main).** Whatever handlers were called during the step (any log), whatever the name was
before, after the processor's explicit write and any number `k` of reflection calls to the final
state, `state_name` names the final state. -/
theorem C23_name_is_final (spied : Bool) (before : St) (log : Log) (final : St) (k : Nat) :
    nameAfterStep spied before log final (List.replicate k final) = final := by
  unfold nameAfterStep
  cases spied with
  | false => simpa using lastOr_append_singleton before final (nameWrites false log)
  | true => simpa using lastOr_append_replicate before final (nameWrites true log) k

/-- instantiated for the faithful `dispatch`: after every successful step the name is the state
the chart rests in, and that state equals the search cursor -/
theorem C23_after_step (c : Chart) (spied : Bool) (before cur : St) (n k : Nat) (r : Res)
    (_h : dispatch c Miros.Gen.cfg cur n = .ok r) :
    nameAfterStep spied before r.log r.state (List.replicate k r.state) = r.state :=
  C23_name_is_final spied before r.log r.state k

/-- instantiated for `start_at` -/
theorem C23_after_start (c : Chart) (spied : Bool) (before s : St) (k : Nat) (r : Res)
    (_h : startAt c Miros.Gen.cfg s = .ok r) :
    nameAfterStep spied before r.log r.state (List.replicate k r.state) = r.state :=
  C23_name_is_final spied before r.log r.state k

/-- a chart without reactions whose handlers all end in `else: … SUPER` (only the tree matters) -/
def bare : Chart where
  react := fun _ _ => .pass
  init := fun _ => none
  exitH := fun _ => true
  depth := 3
  fall := fun _ => false

/-- without the processor's explicit write a spied chart would be left named after the last
handler invoked (here: the probe of an enclosing state) — why the explicit write matters -/
theorem C23_witness_no_explicit_write :
    ∃ b r, isIn bare [3, 2, 1] [1] = .ok (b, r) ∧
      lastOr [3, 2, 1] (nameWrites true r.log) ≠ [3, 2, 1] :=
  ⟨true, ⟨[3, 2, 1], [3, 2, 1], [⟨[3, 2, 1], .search⟩, ⟨[2, 1], .search⟩]⟩, by decide, by decide⟩

/-! ### non-vacuity -/
example : nameAfterStep true [1] [⟨[2, 1], .exit⟩, ⟨[3, 1], .entry⟩] [3, 1] [[3, 1]] = [3, 1] := by decide
example : nameAfterStep false [1] [⟨[2, 1], .exit⟩, ⟨[3, 1], .entry⟩] [3, 1] [] = [3, 1] := by decide

end Miros.Props.C23
