import MirosModel.Hsm.Lemmas
import MirosModel.Instr.Name
import MirosModel.Gen.Constants
/-!
# C22 — is_in and child_state answer from the active state path and change nothing

Model: `Miros.Hsm.isIn` / `childState` (faithful to hsm.py `is_in` / `child_state`: the walk
of the search cursor outward with SEARCH_FOR_SUPER probes), spec: `specIsIn` / `specChild`.
For every current state and every argument, any tree depth, on every chart whose handlers all end
in `else: temp = parent; return SUPER` (`fall = false`).  The two loops of hsm.py do not check the
status of the probe: a fall-through state on the way (other than the argument) answers `None`,
leaves the cursor on itself and is asked again for ever — the model says `Outcome.diverge`
(`stuck_*` examples at the end), so the queries now return an `Outcome` and the statements read
"the query ends (`.ok`) with …".
-/
namespace Miros.Props.C22
open Miros.Hsm

theorem encloses_iff (X S : St) : encloses X S = true ↔ X <:+ S := by
  simp [encloses]

theorem isInWalk_spec (c : Chart) (hf : ∀ s, c.fall s = false) (X : St) : ∀ (cur : St) (k : Ctx),
    ∃ k', isInWalk c X cur k = .ok (encloses X cur, k') ∧ actions k'.log = actions k.log := by
  intro cur
  induction cur with
  | nil =>
    intro k
    unfold isInWalk
    by_cases h : ([] : St) = X
    · subst h; exact ⟨k, by simp [encloses], rfl⟩
    · have : encloses X [] = false := by
        cases X with
        | nil => exact absurd rfl h
        | cons a t => simp [encloses]
      exact ⟨k, by simp [h, this], rfl⟩
  | cons a p ih =>
    intro k
    unfold isInWalk
    by_cases h : a :: p = X
    · subst h; exact ⟨k, by simp [encloses], rfl⟩
    · obtain ⟨k', e, hl⟩ := ih (probe (a :: p) k)
      refine ⟨k', ?_, by rw [hl]; simp [probe]⟩
      simp only [h, if_false, hf, Bool.false_eq_true]
      rw [e]
      have h' : ¬ X = a :: p := fun e => h e.symm
      have : encloses X p = encloses X (a :: p) := by
        rw [Bool.eq_iff_iff, encloses_iff, encloses_iff, List.suffix_cons_iff]
        simp [h']
      rw [this]

/-- everything about `is_in` at once: it ends, answers what the spec says, leaves state and cursor
where they were, and its calls contain no action -/
theorem isIn_ok (c : Chart) (hf : ∀ s, c.fall s = false) (cur X : St) :
    ∃ l, isIn c cur X = .ok (specIsIn cur X, ⟨cur, cur, l⟩) ∧ actions l = [] := by
  obtain ⟨k', e, hl⟩ := isInWalk_spec c hf X cur { temp := cur, log := [] }
  exact ⟨k'.log, by simp [isIn, e, specIsIn], by simpa using hl⟩

/-- **C22 (is_in).** `is_in(X)` is true exactly when `X` is the current state or encloses it. -/
theorem C22_is_in (c : Chart) (hf : ∀ s, c.fall s = false) (cur X : St) :
    ∃ b r, isIn c cur X = .ok (b, r) ∧ (b = true ↔ X <:+ cur) := by
  obtain ⟨l, e, _⟩ := isIn_ok c hf cur X
  exact ⟨_, _, e, encloses_iff X cur⟩

theorem C22_is_in_spec (c : Chart) (hf : ∀ s, c.fall s = false) (cur X : St) :
    ∃ r, isIn c cur X = .ok (specIsIn cur X, r) := by
  obtain ⟨l, e, _⟩ := isIn_ok c hf cur X
  exact ⟨_, e⟩

theorem childWalk_spec (c : Chart) (hf : ∀ s, c.fall s = false) (P : St) :
    ∀ (x child : St) (k : Ctx), x ≠ P →
    ∃ k', childWalk c P x child k = .ok (childBelow P x, k') ∧ actions k'.log = actions k.log := by
  intro x
  induction x with
  | nil => intro child k h; exact ⟨k, by simp [childWalk, childBelow, h], rfl⟩
  | cons a p ih =>
    intro child k h
    unfold childWalk childBelow
    simp only [h, if_false, hf, Bool.false_eq_true]
    by_cases hp : p = P
    · subst hp; unfold childWalk; exact ⟨probe (a :: p) k, by simp, by simp [probe]⟩
    · obtain ⟨k', e, hl⟩ := ih (a :: p) (probe (a :: p) k) hp
      exact ⟨k', by simp only [hp, if_false]; exact e, by rw [hl]; simp [probe]⟩

/-- everything about `child_state` at once -/
theorem childState_ok (c : Chart) (hf : ∀ s, c.fall s = false) (cur P : St) :
    ∃ l, childState c cur P = .ok (specChild cur P, ⟨cur, cur, l⟩) ∧ actions l = [] := by
  unfold childState specChild
  by_cases h : cur = P
  · subst h; unfold childWalk; exact ⟨[], by simp, rfl⟩
  · obtain ⟨k', e, hl⟩ := childWalk_spec c hf P cur cur { temp := cur, log := [] } h
    exact ⟨k'.log, by simp only [h, if_false, e], by simpa using hl⟩

/-- **C22 (child_state).** `child_state(P)` returns what the spec says: the current state when
`P` is current, else the state just below `P` on the active path, and fails (`none`) otherwise. -/
theorem C22_child_spec (c : Chart) (hf : ∀ s, c.fall s = false) (cur P : St) :
    ∃ r, childState c cur P = .ok (specChild cur P, r) := by
  obtain ⟨l, e, _⟩ := childState_ok c hf cur P
  exact ⟨_, e⟩

/-- characterisation of the spec's answer: a child `ch` of `P` on the active path -/
theorem childBelow_some (P : St) : ∀ (x ch : St), childBelow P x = some ch →
    ch <:+ x ∧ ch ≠ [] ∧ ch.tail = P := by
  intro x
  induction x with
  | nil => intro ch h; simp [childBelow] at h
  | cons a p ih =>
    intro ch h
    unfold childBelow at h
    by_cases hp : p = P
    · simp [hp] at h; subst h; subst hp; exact ⟨List.suffix_refl _, by simp, rfl⟩
    · simp only [hp, if_false] at h
      obtain ⟨h1, h2, h3⟩ := ih ch h
      exact ⟨List.suffix_cons_iff.mpr (Or.inr h1), h2, h3⟩

theorem childBelow_none (P : St) : ∀ x : St, childBelow P x = none → ¬ (P <:+ x ∧ P ≠ x) := by
  intro x
  induction x with
  | nil =>
    intro _ ⟨h1, h2⟩
    exact h2 (List.suffix_nil.mp h1)
  | cons a p ih =>
    intro h ⟨h1, h2⟩
    unfold childBelow at h
    by_cases hp : p = P
    · simp [hp] at h
    · simp only [hp, if_false] at h
      rcases List.suffix_cons_iff.mp h1 with e | hs
      · exact h2 e
      · exact ih h ⟨hs, fun e => hp e.symm⟩

theorem specChild_none_iff (cur P : St) : specChild cur P = none ↔ ¬ P <:+ cur := by
  unfold specChild
  by_cases h : cur = P
  · subst h; simp
  · simp only [h, if_false]
    constructor
    · intro hn hs
      exact childBelow_none P cur hn ⟨hs, fun e => h e.symm⟩
    · intro hn
      cases hc : childBelow P cur with
      | none => rfl
      | some ch =>
        exfalso
        obtain ⟨h1, h2, h3⟩ := childBelow_some P cur ch hc
        apply hn
        cases ch with
        | nil => exact absurd rfl h2
        | cons b t =>
          simp at h3; subst h3
          exact List.IsSuffix.trans (List.suffix_cons b t) h1

/-- **C22 (child_state fails exactly when `P` does not enclose the current state).** -/
theorem C22_child_fails_iff (c : Chart) (hf : ∀ s, c.fall s = false) (cur P : St) :
    ∃ o r, childState c cur P = .ok (o, r) ∧ (o = none ↔ ¬ P <:+ cur) := by
  obtain ⟨l, e, _⟩ := childState_ok c hf cur P
  exact ⟨_, _, e, specChild_none_iff cur P⟩

/-- **C22 (purity).** Neither query moves the chart: current state and search cursor are what
they were, so (the processor being a function of chart, switches and current state) every later
step behaves identically. -/
theorem C22_pure (c : Chart) (hf : ∀ s, c.fall s = false) (cur X : St) :
    (∃ b r, isIn c cur X = .ok (b, r) ∧ r.state = cur ∧ r.temp = cur) ∧
    (∃ o r, childState c cur X = .ok (o, r) ∧ r.state = cur ∧ r.temp = cur) := by
  obtain ⟨l1, e1, _⟩ := isIn_ok c hf cur X
  obtain ⟨l2, e2, _⟩ := childState_ok c hf cur X
  exact ⟨⟨_, _, e1, rfl, rfl⟩, ⟨_, _, e2, rfl, rfl⟩⟩

/-- the only handler invocations a query makes are SEARCH_FOR_SUPER probes (no action runs) -/
theorem C22_only_probes (c : Chart) (hf : ∀ s, c.fall s = false) (cur X : St) :
    (∃ b r, isIn c cur X = .ok (b, r) ∧ actions r.log = []) ∧
    (∃ o r, childState c cur X = .ok (o, r) ∧ actions r.log = []) := by
  obtain ⟨l1, e1, h1⟩ := isIn_ok c hf cur X
  obtain ⟨l2, e2, h2⟩ := childState_ok c hf cur X
  exact ⟨⟨_, _, e1, h1⟩, ⟨_, _, e2, h2⟩⟩

/-- **C22 (state_name).** With the spy decorator every probe renames the chart; the queries
re-name it after the current state (switch `queryRestoresName`, generated from the source). -/
theorem C22_name_restored (c : Chart) (hf : ∀ s, c.fall s = false) (spied : Bool) (before cur X : St) :
    (∃ b r, isIn c cur X = .ok (b, r) ∧
      Miros.Instr.nameAfterQuery Miros.Gen.queryRestoresName spied before cur r.log = cur) ∧
    (∃ o r, childState c cur X = .ok (o, r) ∧
      Miros.Instr.nameAfterQuery Miros.Gen.queryRestoresName spied before cur r.log = cur) := by
  have h : Miros.Gen.queryRestoresName = true := by decide
  obtain ⟨l1, e1, _⟩ := isIn_ok c hf cur X
  obtain ⟨l2, e2, _⟩ := childState_ok c hf cur X
  exact ⟨⟨_, _, e1, by simp [Miros.Instr.nameAfterQuery, h]⟩,
    ⟨_, _, e2, by simp [Miros.Instr.nameAfterQuery, h]⟩⟩

/-- a chart without reactions: only the tree matters for the queries -/
def bare : Chart where
  react := fun _ _ => .pass
  init := fun _ => none
  exitH := fun _ => true
  depth := 3
  fall := fun _ => false

/-- witness for the unrepaired code: a spied chart in [3,2,1] asked `is_in([1])` is left
named after the enclosing state [2,1] -/
theorem C22_witness_unfixed :
    ∃ b r, isIn bare [3, 2, 1] [1] = .ok (b, r) ∧
      Miros.Instr.nameAfterQuery false true [3, 2, 1] [3, 2, 1] r.log = [2, 1] :=
  ⟨true, ⟨[3, 2, 1], [3, 2, 1], [⟨[3, 2, 1], .search⟩, ⟨[2, 1], .search⟩]⟩, by decide, by decide⟩

/-! ### non-vacuity -/
example : ∃ r, isIn bare [3, 2, 1] [2, 1] = .ok (true, r) := ⟨⟨[3, 2, 1], [3, 2, 1], [⟨[3, 2, 1], .search⟩]⟩, by decide⟩
example : ∃ r, isIn bare [3, 2, 1] [4, 1] = .ok (false, r) :=
  ⟨⟨[3, 2, 1], [3, 2, 1], [⟨[3, 2, 1], .search⟩, ⟨[2, 1], .search⟩, ⟨[1], .search⟩]⟩, by decide⟩
example : ∃ r, childState bare [3, 2, 1] [1] = .ok (some [2, 1], r) :=
  ⟨⟨[3, 2, 1], [3, 2, 1], [⟨[3, 2, 1], .search⟩, ⟨[2, 1], .search⟩]⟩, by decide⟩
example : ∃ r, childState bare [3, 2, 1] [3, 2, 1] = .ok (some [3, 2, 1], r) := ⟨⟨[3, 2, 1], [3, 2, 1], []⟩, by decide⟩
example : ∃ r, childState bare [3, 2, 1] [4, 1] = .ok (none, r) :=
  ⟨⟨[3, 2, 1], [3, 2, 1], [⟨[3, 2, 1], .search⟩, ⟨[2, 1], .search⟩, ⟨[1], .search⟩]⟩, by decide⟩

/-! ### why `fall = false` is assumed: the loops of `is_in` / `child_state` never end on a
fall-through state that is not the argument (hsm.py does not check the probe's status there) -/

/-- `bare` with the handler of `[2,1]` lacking its final `else` -/
def stuck : Chart := { bare with fall := fun s => s == [2, 1] }

example : isIn stuck [3, 2, 1] [1] = .diverge [⟨[3, 2, 1], .search⟩, ⟨[2, 1], .search⟩] := by decide
example : childState stuck [3, 2, 1] [1] = .diverge [⟨[3, 2, 1], .search⟩, ⟨[2, 1], .search⟩] := by decide
/-- the fall-through state itself is recognised before it is asked anything -/
example : isIn stuck [3, 2, 1] [2, 1] = .ok (true, ⟨[3, 2, 1], [3, 2, 1], [⟨[3, 2, 1], .search⟩]⟩) := by decide

end Miros.Props.C22
