import MirosModel.Hsm.Lemmas
import MirosModel.Instr.Name
import MirosModel.Gen.Constants
/-!
# C22 — is_in and child_state answer from the active state path and change nothing

Model: `Miros.Hsm.isIn` / `childState` (faithful to hsm.py `is_in` / `child_state`: the walk
of the search cursor outward with SEARCH_FOR_SUPER probes), spec: `specIsIn` / `specChild`.
For every current state and every argument, any tree depth.
-/
namespace Miros.Props.C22
open Miros.Hsm

theorem encloses_iff (X S : St) : encloses X S = true ↔ X <:+ S := by
  simp [encloses]

theorem isInWalk_spec (X : St) : ∀ (cur : St) (k : Ctx), (isInWalk X cur k).1 = encloses X cur := by
  intro cur
  induction cur with
  | nil =>
    intro k
    unfold isInWalk
    by_cases h : ([] : St) = X
    · subst h; simp [encloses]
    · have : encloses X [] = false := by
        cases X with
        | nil => exact absurd rfl h
        | cons a t => simp [encloses]
      simp [h, this]
  | cons a p ih =>
    intro k
    unfold isInWalk
    by_cases h : a :: p = X
    · subst h; simp [encloses]
    · simp only [h, if_false]
      rw [ih]
      have h' : ¬ X = a :: p := fun e => h e.symm
      rw [Bool.eq_iff_iff, encloses_iff, encloses_iff, List.suffix_cons_iff]
      simp [h']

/-- **C22 (is_in).** `is_in(X)` is true exactly when `X` is the current state or encloses it. -/
theorem C22_is_in (cur X : St) : (isIn cur X).1 = true ↔ X <:+ cur := by
  unfold isIn
  rw [show (isInWalk X cur { temp := cur, log := [] }).1 = encloses X cur from isInWalk_spec X cur _]
  exact encloses_iff X cur

theorem C22_is_in_spec (cur X : St) : (isIn cur X).1 = specIsIn cur X := by
  unfold isIn specIsIn
  exact isInWalk_spec X cur _

theorem childWalk_spec (P : St) : ∀ (x child : St) (k : Ctx), x ≠ P →
    (childWalk P x child k).1 = childBelow P x := by
  intro x
  induction x with
  | nil => intro child k h; simp [childWalk, childBelow, h]
  | cons a p ih =>
    intro child k h
    unfold childWalk childBelow
    simp only [h, if_false]
    by_cases hp : p = P
    · subst hp; unfold childWalk; simp
    · simp only [hp, if_false]; exact ih (a :: p) _ hp

/-- **C22 (child_state).** `child_state(P)` returns what the spec says: the current state when
`P` is current, else the state just below `P` on the active path, and fails (`none`) otherwise. -/
theorem C22_child_spec (cur P : St) : (childState cur P).1 = specChild cur P := by
  unfold childState specChild
  by_cases h : cur = P
  · subst h; unfold childWalk; simp
  · simp only [h, if_false]; exact childWalk_spec P cur cur _ h

/-- characterisation of the spec's answer: a child `ch` of `P` on the active path -/
theorem childBelow_some (P : St) : ∀ (x ch : St), childBelow P x = some ch →
    ch <:+ x ∧ ch ≠ [] ∧ ch.tail = P := by
  intro x
  induction x with
  | nil => intro ch h; simp [childBelow] at h
  | cons a p ih =>
    intro ch h
    unfold childBelow at h
    by_cases hp : p = P
    · simp [hp] at h; subst h; subst hp; exact ⟨List.suffix_refl _, by simp, rfl⟩
    · simp only [hp, if_false] at h
      obtain ⟨h1, h2, h3⟩ := ih ch h
      exact ⟨List.suffix_cons_iff.mpr (Or.inr h1), h2, h3⟩

theorem childBelow_none (P : St) : ∀ x : St, childBelow P x = none → ¬ (P <:+ x ∧ P ≠ x) := by
  intro x
  induction x with
  | nil =>
    intro _ ⟨h1, h2⟩
    exact h2 (List.suffix_nil.mp h1)
  | cons a p ih =>
    intro h ⟨h1, h2⟩
    unfold childBelow at h
    by_cases hp : p = P
    · simp [hp] at h
    · simp only [hp, if_false] at h
      rcases List.suffix_cons_iff.mp h1 with e | hs
      · exact h2 e
      · exact ih h ⟨hs, fun e => hp e.symm⟩

/-- **C22 (child_state fails exactly when `P` does not enclose the current state).** -/
theorem C22_child_fails_iff (cur P : St) : (childState cur P).1 = none ↔ ¬ P <:+ cur := by
  rw [C22_child_spec]
  unfold specChild
  by_cases h : cur = P
  · subst h; simp
  · simp only [h, if_false]
    constructor
    · intro hn hs
      exact childBelow_none P cur hn ⟨hs, fun e => h e.symm⟩
    · intro hn
      cases hc : childBelow P cur with
      | none => rfl
      | some ch =>
        exfalso
        obtain ⟨h1, h2, h3⟩ := childBelow_some P cur ch hc
        apply hn
        cases ch with
        | nil => exact absurd rfl h2
        | cons b t =>
          simp at h3; subst h3
          exact List.IsSuffix.trans (List.suffix_cons b t) h1

/-- **C22 (purity).** Neither query moves the chart: current state and search cursor are what
they were, so (the processor being a function of chart, switches and current state) every later
step behaves identically. -/
theorem C22_pure (cur X : St) :
    (isIn cur X).2.state = cur ∧ (isIn cur X).2.temp = cur ∧
    (childState cur X).2.state = cur ∧ (childState cur X).2.temp = cur := by
  simp [isIn, childState]

/-- the only handler invocations a query makes are SEARCH_FOR_SUPER probes (no action runs) -/
theorem C22_only_probes (cur X : St) : actions (isIn cur X).2.log = [] ∧ actions (childState cur X).2.log = [] := by
  have h1 : ∀ (x : St) (k : Ctx), actions (isInWalk X x k).2.log = actions k.log := by
    intro x
    induction x with
    | nil => intro k; unfold isInWalk; split <;> simp
    | cons a p ih =>
      intro k; unfold isInWalk
      split
      · simp
      · simp only []; rw [ih]; simp [probe]
  have h2 : ∀ (x ch : St) (k : Ctx), actions (childWalk X x ch k).2.log = actions k.log := by
    intro x
    induction x with
    | nil => intro ch k; unfold childWalk; split <;> simp
    | cons a p ih =>
      intro ch k; unfold childWalk
      split
      · simp
      · simp only []; rw [ih]; simp [probe]
  constructor
  · simp [isIn, h1]
  · simp [childState, h2]

/-- **C22 (state_name).** With the spy decorator every probe renames the chart; the queries
re-name it after the current state (switch `queryRestoresName`, generated from the source). -/
theorem C22_name_restored (spied : Bool) (before cur X : St) :
    Miros.Instr.nameAfterQuery Miros.Gen.queryRestoresName spied before cur (isIn cur X).2.log = cur ∧
    Miros.Instr.nameAfterQuery Miros.Gen.queryRestoresName spied before cur (childState cur X).2.log = cur := by
  have h : Miros.Gen.queryRestoresName = true := by decide
  simp [Miros.Instr.nameAfterQuery, h]

/-- witness for the unrepaired code: a spied chart in [3,2,1] asked `is_in([1])` is left
named after the enclosing state [2,1] -/
theorem C22_witness_unfixed :
    Miros.Instr.nameAfterQuery false true [3, 2, 1] [3, 2, 1] (isIn [3, 2, 1] [1]).2.log = [2, 1] := by
  decide

/-! ### non-vacuity -/
example : (isIn [3, 2, 1] [2, 1]).1 = true := by decide
example : (isIn [3, 2, 1] [4, 1]).1 = false := by decide
example : (childState [3, 2, 1] [1]).1 = some [2, 1] := by decide
example : (childState [3, 2, 1] [3, 2, 1]).1 = some [3, 2, 1] := by decide
example : (childState [3, 2, 1] [4, 1]).1 = none := by decide

end Miros.Props.C22
