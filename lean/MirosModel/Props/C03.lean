import MirosModel.Hsm.DispatchLemmas
import MirosModel.Gen.Constants
/-!
# C03 — `start_at(s)`: enter from the outermost state down to `s`, then follow initial transitions

Model: `Miros.Hsm.startAt` (faithful to hsm.py `init()`), spec: `Miros.Hsm.specStart`.
For every well-formed chart (any tree shape and depth) and every start state `s ≠ top`.
-/
namespace Miros.Props.C03
open Miros.Hsm

/-- a well-formed chart with an initial transition has positive declared depth -/
theorem depth_pos_or_no_init (c : Chart) (hwf : WF c) (s : St) : 0 < c.depth ∨ c.init s = none := by
  cases hi : c.init s with
  | none => exact Or.inr rfl
  | some t =>
    left
    obtain ⟨h1, h2⟩ := hwf.init_desc s t hi
    have h3 := hwf.init_depth s t hi
    obtain ⟨m, hm1, hm2, _⟩ := proper_suffix_drop h1 h2
    omega

/-- **C03.** `start_at(s)` succeeds, its actions are: entry of the states enclosing `s` outermost
first down to `s`, then `init` of `s` followed (as long as the state reached has an initial
transition) by the entries down to its target and the target's `init`; the chart rests in the
state so reached, the search cursor with it; no exit handler is called. -/
theorem C03_start (c : Chart) (hwf : WF c) (s : St) (hs : s ≠ []) :
    ∃ r, startAt c Miros.Gen.cfg s = .ok r ∧ actions r.log = (specStart c s).log ∧
      r.state = (specStart c s).state ∧ r.temp = r.state ∧ (∀ x ∈ r.log, x.sig ≠ .exit) := by
  have h := start_checked c hwf.no_fall Miros.Gen.cfg (by decide) hwf.init_depth s hs (depth_pos_or_no_init c hwf s)
  rw [specStartC_of_WF c hwf s] at h
  obtain ⟨r, h1, h2, h3, h4, h5⟩ := h
  exact ⟨r, h1, h2, h3, by rw [h4, h3], h5⟩

/-- the statement made visible: the action log is the entry path to `s` followed by the settling -/
theorem C03_order (c : Chart) (hwf : WF c) (s : St) (hs : s ≠ []) :
    ∃ r, startAt c Miros.Gen.cfg s = .ok r ∧
      actions r.log = (pathUp [] s).reverse.map (⟨·, Sig.entry⟩) ++ (settle c (c.depth + 1) s).1 ∧
      r.state = (settle c (c.depth + 1) s).2 := by
  obtain ⟨r, h1, h2, h3, _, _⟩ := C03_start c hwf s hs
  exact ⟨r, h1, by rw [h2]; rfl, by rw [h3]; rfl⟩

/-! ### non-vacuity: start in the middle of a 5-deep chain with two chained initial transitions -/
def demo : Chart where
  react := fun _ _ => .pass
  init := fun s =>
    if s = [2, 1] then some [3, 2, 1]
    else if s = [3, 2, 1] then some [5, 4, 3, 2, 1]
    else none
  exitH := fun _ => true
  depth := 5
  fall := fun _ => false

theorem demo_WF : WF demo where
  init_desc := by
    intro s t h
    simp only [demo] at h
    split at h
    · cases h; subst s; decide
    · split at h
      · cases h; subst s; decide
      · cases h
  init_depth := by
    intro s t h
    simp only [demo] at h ⊢
    split at h
    · cases h; decide
    · split at h
      · cases h; decide
      · cases h
  tran_ne_top := by intro s n t h; simp [demo] at h
  no_none := by intro s n; simp [demo]
  no_fall := fun _ => rfl

example : specStart demo [2, 1] =
    ⟨[5, 4, 3, 2, 1],
      [⟨[1], .entry⟩, ⟨[2, 1], .entry⟩, ⟨[2, 1], .init⟩, ⟨[3, 2, 1], .entry⟩, ⟨[3, 2, 1], .init⟩,
       ⟨[4, 3, 2, 1], .entry⟩, ⟨[5, 4, 3, 2, 1], .entry⟩, ⟨[5, 4, 3, 2, 1], .init⟩]⟩ := by decide

example : specStart demo [4, 3, 2, 1] =
    ⟨[4, 3, 2, 1],
      [⟨[1], .entry⟩, ⟨[2, 1], .entry⟩, ⟨[3, 2, 1], .entry⟩, ⟨[4, 3, 2, 1], .entry⟩,
       ⟨[4, 3, 2, 1], .init⟩]⟩ := by decide

/-- the theorem applied to the demo -/
example : ∃ r, startAt demo Miros.Gen.cfg [2, 1] = .ok r ∧ r.state = [5, 4, 3, 2, 1] := by
  obtain ⟨r, h1, _, h3, _⟩ := C03_start demo demo_WF [2, 1] (by decide)
  exact ⟨r, h1, by rw [h3]; decide⟩

end Miros.Props.C03
