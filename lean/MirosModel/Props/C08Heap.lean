import MirosModel.Data.HeapLemmas
import MirosModel.Gen.Constants
/-!
# C08 — the binary heap under the fabric's `PriorityQueue`

"Events waiting in the active fabric are delivered in priority order (smaller priority number
first), and events of equal priority reach each subscriber in the order they were published. This
holds however far the delivery threads lag behind the publishers."

`Props/C08.lean` states this over the abstraction "`PriorityQueue.get` returns `minFE` of the pending
list".  Here the abstraction is removed: `Miros.Data.Heap` is CPython's `heapq` (`heappush`,
`heappop`, `_siftdown`, `_siftup`, transcribed literally over the array layout), `<` is the modelled
`FabricEvent.__lt__` (`feLt t`).
* the array is a heap after any sequence of pushes and pops (for both comparators);
* push adds exactly the new element, pop removes exactly the one it returns;
* for the `(priority, sequence number)` comparator and distinct sequence numbers, `heappop` returns
  exactly the element `minFE` returns, so the heap refines the list model of `Miros.Conc.Fab`
  operation by operation, and emptying it yields the events sorted by `(priority, sequence number)`;
* with the historical comparator (priority only) publish order within one priority is lost; on an
  array that is not a heap `heappop` does not return the minimum.
-/
namespace Miros.Props.C08Heap
open Miros.Conc.Fab Miros.Data.Heap

theorem fabTags_prioSeq : Miros.Gen.fabTags.feOrder = .prioSeq := by decide

/-! ### 1. the heap invariant -/

/-- **C08 (heap, empty).** The empty array is a heap. -/
theorem C08_heap_empty (t : Tags) : IsHeap t [] := isHeap_nil t

/-- **C08 (heap, push).** `heappush` keeps the heap property: if no element of the array is smaller
than its parent (index `(i-1)/2`), the same holds after pushing any element.  Holds for both
comparators. -/
theorem C08_heap_push_inv (t : Tags) (h : Heap) (x : FE) (H : IsHeap t h) : IsHeap t (push t h x) :=
  push_heap t h x H

/-- **C08 (heap, pop).** `heappop` keeps the heap property: what is left after popping a heap is a
heap.  Holds for both comparators. -/
theorem C08_heap_pop_inv (t : Tags) (h h' : Heap) (r : FE) (H : IsHeap t h) (hp : pop t h = some (r, h')) :
    IsHeap t h' :=
  pop_heap t h h' r H hp

/-- `heappop` fails exactly on the empty array. -/
theorem C08_heap_pop_none (t : Tags) (h : Heap) : pop t h = none ↔ h = [] := pop_eq_none

/-- **C08 (heap, reachable).** After ANY list of operations (push `x` / pop, pops of the empty heap
being no-ops) starting from the empty heap, the array is a heap.  Holds for both comparators. -/
theorem C08_heap_reachable (t : Tags) (ops : List Op) : IsHeap t (ofOps t ops) :=
  run_heap t ops [] (isHeap_nil t)

/-- the same from any heap -/
theorem C08_heap_reachable_from (t : Tags) (h : Heap) (H : IsHeap t h) (ops : List Op) :
    IsHeap t (run t h ops).1 :=
  run_heap t ops h H

/-! ### 2. contents -/

/-- **C08 (heap, push adds exactly `x`).** The array after `heappush(h, x)` is a permutation of
`x :: h` (any array, any comparator). -/
theorem C08_heap_push_perm (t : Tags) (h : Heap) (x : FE) : (push t h x).Perm (x :: h) :=
  push_perm t h x

/-- **C08 (heap, pop removes exactly what it returns).** If `heappop(h)` returns `r` and leaves `h'`,
then `r :: h'` is a permutation of `h` (any array, any comparator). -/
theorem C08_heap_pop_perm (t : Tags) (h h' : Heap) (r : FE) (hp : pop t h = some (r, h')) :
    (r :: h').Perm h :=
  pop_perm t h h' r hp

/-! ### 3. pop returns the minimum -/

/-- **C08 (heap, pop returns the least).** On a heap, for the `(priority, sequence number)`
comparator, the element `heappop` returns is in the array and is least: every element has a larger
priority number, or the same priority and a sequence number at least as large. -/
theorem C08_heap_pop_least (t : Tags) (ht : t.feOrder = .prioSeq) (h h' : Heap) (r : FE) (H : IsHeap t h)
    (hp : pop t h = some (r, h')) :
    r ∈ h ∧ ∀ x ∈ h, r.prio < x.prio ∨ (r.prio = x.prio ∧ r.seq ≤ x.seq) := by
  refine ⟨(pop_perm t h h' r hp).mem_iff.1 List.mem_cons_self, fun x hx => ?_⟩
  have := root_le_mem H hx
  rw [← pop_root t h h' r hp] at this
  exact (le_prioSeq ht).1 this

/-- **C08 (heap, pop = `minFE`).** On a heap whose elements have pairwise distinct sequence numbers,
`heappop` returns the element `minFE` — the abstraction of `PriorityQueue.get` used by the fabric
model — returns on the same contents held as a list in ANY order. -/
theorem C08_heap_pop_is_min (t : Tags) (ht : t.feOrder = .prioSeq) (h h' : Heap) (r : FE) (H : IsHeap t h)
    (hd : (h.map (·.seq)).Nodup) (hp : pop t h = some (r, h')) :
    ∀ l : List FE, l.Perm h → minFE t l = some r :=
  fun _ hl => pop_is_min ht H hd hp hl

/-! ### 4. refinement of the list model -/

/-- **C08 (heap refines the list model).** Run any operation sequence on the heap (from the empty
array) and on the list model of the fabric queues (`put` appends to the pending list, `get` takes
`minFE` of it and erases it): if the pushed events have pairwise distinct sequence numbers, both
return the same sequence of elements (pop by pop, `none` for a pop on empty), and the final array
holds exactly the final pending list (`Abs`: a permutation of it). -/
theorem C08_heap_refines_list (t : Tags) (ht : t.feOrder = .prioSeq) (ops : List Op)
    (hd : ((pushed ops).map (·.seq)).Nodup) :
    outs t ops = (lrun t [] ops).2 ∧ Abs (ofOps t ops) (lrun t [] ops).1 := by
  have := run_refines ht ops [] [] (isHeap_nil t) (List.Perm.refl _) (by simpa using hd)
  exact ⟨this.1, this.2.1⟩

/-- the same from any related pair of states: a heap `h` and a list `l` with the same contents -/
theorem C08_heap_refines_list_from (t : Tags) (ht : t.feOrder = .prioSeq) (ops : List Op) (h : Heap)
    (l : List FE) (H : IsHeap t h) (ha : Abs h l) (hd : ((h ++ pushed ops).map (·.seq)).Nodup) :
    (run t h ops).2 = (lrun t l ops).2 ∧ Abs (run t h ops).1 (lrun t l ops).1 ∧
    IsHeap t (run t h ops).1 ∧ ((run t h ops).1.map (·.seq)).Nodup :=
  run_refines ht ops h l H ha hd

/-- **C08 (heap, draining a backlog).** Popping everything off any reachable heap (any operation
sequence from empty whose pushed events have distinct sequence numbers) hands out exactly its
elements, sorted by priority and, within one priority, by sequence number — and it is the very list
`drain` (successive `minFE`s, `Props/C08.lean`) hands out. -/
theorem C08_heap_drain_sorted (t : Tags) (ht : t.feOrder = .prioSeq) (ops : List Op)
    (hd : ((pushed ops).map (·.seq)).Nodup) :
    (drainHeap t (ofOps t ops)).Perm (ofOps t ops) ∧
    List.Pairwise (fun a b => a.prio < b.prio ∨ (a.prio = b.prio ∧ a.seq < b.seq)) (drainHeap t (ofOps t ops)) ∧
    drainHeap t (ofOps t ops) = drain t (ofOps t ops) := by
  have hr := run_refines ht ops [] [] (isHeap_nil t) (List.Perm.refl _) (by simpa using hd)
  have e := drainHeap_eq_drain ht (ofOps t ops) hr.2.2.1 hr.2.2.2
  rw [e]
  exact ⟨drain_perm _ _, drain_sorted ht _ hr.2.2.2, rfl⟩

/-- the same for any heap with distinct sequence numbers -/
theorem C08_heap_drain_sorted_of_heap (t : Tags) (ht : t.feOrder = .prioSeq) (h : Heap) (H : IsHeap t h)
    (hd : (h.map (·.seq)).Nodup) :
    (drainHeap t h).Perm h ∧
    List.Pairwise (fun a b => a.prio < b.prio ∨ (a.prio = b.prio ∧ a.seq < b.seq)) (drainHeap t h) := by
  rw [drainHeap_eq_drain ht h H hd]
  exact ⟨drain_perm _ _, drain_sorted ht _ hd⟩

/-! ### 5./6. witnesses -/

/-- the historical comparator: priority only -/
def legacyTags : Tags := { Miros.Gen.fabTags with feOrder := .prioOnly }

/-- **Witness (priority-only comparator).** Two events of priority 5 are pushed in publish order
(sequence numbers 0, 1), then an event of smaller priority number; the three pops return the
priority-1 event and then the two priority-5 events in the order 1, 0 — publish order is violated,
although the array is a heap (for that comparator) throughout.  With the `(priority, sequence
number)` comparator the same operations return them in the order 0, 1. -/
theorem C08_heap_witness_prioOnly :
    let ops : List Op := [.push ⟨5, 0, none⟩, .push ⟨5, 1, none⟩, .push ⟨1, 2, none⟩, .pop, .pop, .pop]
    outs legacyTags ops = [some ⟨1, 2, none⟩, some ⟨5, 1, none⟩, some ⟨5, 0, none⟩] ∧
    outs Miros.Gen.fabTags ops = [some ⟨1, 2, none⟩, some ⟨5, 0, none⟩, some ⟨5, 1, none⟩] ∧
    IsHeap legacyTags (ofOps legacyTags (ops.take 3)) := by
  decide

/-- **Witness (the heap shape is needed).** On the array `[x, y]` with `y < x` — what
`list.remove(root)` style surgery can leave — `heappop` returns `x`, which is not the minimum, while
`minFE` on the same contents returns `y`. -/
theorem C08_heap_witness_broken_layout :
    let h : Heap := [⟨5, 0, none⟩, ⟨1, 1, none⟩]
    ¬ IsHeap Miros.Gen.fabTags h ∧
    pop Miros.Gen.fabTags h = some (⟨5, 0, none⟩, [⟨1, 1, none⟩]) ∧
    minFE Miros.Gen.fabTags h = some ⟨1, 1, none⟩ := by
  decide

/-! ### 7. non-vacuity -/

/-- seven events with mixed priorities pushed in publish order: the array layout CPython produces -/
example :
    ofOps Miros.Gen.fabTags
      [.push ⟨5, 0, none⟩, .push ⟨3, 1, none⟩, .push ⟨5, 2, none⟩, .push ⟨1, 3, none⟩, .push ⟨3, 4, none⟩,
       .push ⟨1, 5, none⟩, .push ⟨4, 6, none⟩] =
      [⟨1, 3, none⟩, ⟨3, 1, none⟩, ⟨1, 5, none⟩, ⟨5, 0, none⟩, ⟨3, 4, none⟩, ⟨5, 2, none⟩, ⟨4, 6, none⟩] := by
  decide

/-- that layout is a heap, its sequence numbers are distinct (hypotheses of `C08_heap_pop_is_min`,
`C08_heap_drain_sorted_of_heap`), and it is not sorted -/
example :
    let h : Heap := [⟨1, 3, none⟩, ⟨3, 1, none⟩, ⟨1, 5, none⟩, ⟨5, 0, none⟩, ⟨3, 4, none⟩, ⟨5, 2, none⟩, ⟨4, 6, none⟩]
    IsHeap Miros.Gen.fabTags h ∧ (h.map (·.seq)).Nodup ∧
    pop Miros.Gen.fabTags h =
      some (⟨1, 3, none⟩, [⟨1, 5, none⟩, ⟨3, 1, none⟩, ⟨4, 6, none⟩, ⟨5, 0, none⟩, ⟨3, 4, none⟩, ⟨5, 2, none⟩]) := by
  decide

/-- popping it empty: priority order, publish order within a priority -/
example :
    drainHeap Miros.Gen.fabTags
      [⟨1, 3, none⟩, ⟨3, 1, none⟩, ⟨1, 5, none⟩, ⟨5, 0, none⟩, ⟨3, 4, none⟩, ⟨5, 2, none⟩, ⟨4, 6, none⟩] =
      [⟨1, 3, none⟩, ⟨1, 5, none⟩, ⟨3, 1, none⟩, ⟨3, 4, none⟩, ⟨4, 6, none⟩, ⟨5, 0, none⟩, ⟨5, 2, none⟩] := by
  decide

/-- pushes and pops interleaved (a delivery thread keeping up part of the time): what the pops
return, on the heap and on the list model (hypothesis of `C08_heap_refines_list`: distinct pushed
sequence numbers) -/
example :
    let ops : List Op :=
      [.push ⟨5, 0, none⟩, .push ⟨3, 1, none⟩, .push ⟨5, 2, none⟩, .pop, .push ⟨1, 3, none⟩, .push ⟨3, 4, none⟩,
       .pop, .push ⟨1, 5, none⟩, .push ⟨4, 6, none⟩, .pop, .pop]
    ((pushed ops).map (·.seq)).Nodup ∧
    outs Miros.Gen.fabTags ops = [some ⟨3, 1, none⟩, some ⟨1, 3, none⟩, some ⟨1, 5, none⟩, some ⟨3, 4, none⟩] ∧
    (lrun Miros.Gen.fabTags [] ops).2 = outs Miros.Gen.fabTags ops ∧
    ofOps Miros.Gen.fabTags ops = [⟨4, 6, none⟩, ⟨5, 2, none⟩, ⟨5, 0, none⟩] ∧
    (lrun Miros.Gen.fabTags [] ops).1 = [⟨5, 0, none⟩, ⟨5, 2, none⟩, ⟨4, 6, none⟩] := by
  decide

/-- a pop on the empty heap is reported as `none` and leaves it empty -/
example : run Miros.Gen.fabTags [] [.pop, .push ⟨2, 0, none⟩, .pop, .pop] =
    ([], [none, some ⟨2, 0, none⟩, none]) := by decide

/-! ### 8. the current code -/

/-- **C08 (heap, current comparator).** With the generated tag set (`FabricEvent.__lt__` compares
`(priority, sequence number)`): the array under each fabric `PriorityQueue` is a heap after any
sequence of `put`s and `get`s; a `get` on a heap with distinct sequence numbers returns the element
`minFE` returns on the same contents in any order, which is the least for `(priority, sequence
number)`. -/
theorem C08_heap_current :
    (∀ ops : List Op, IsHeap Miros.Gen.fabTags (ofOps Miros.Gen.fabTags ops)) ∧
    (∀ (h : Heap) (x : FE), IsHeap Miros.Gen.fabTags h → IsHeap Miros.Gen.fabTags (push Miros.Gen.fabTags h x)) ∧
    (∀ (h h' : Heap) (r : FE), IsHeap Miros.Gen.fabTags h → pop Miros.Gen.fabTags h = some (r, h') →
      IsHeap Miros.Gen.fabTags h' ∧ (r :: h').Perm h ∧
      (∀ x ∈ h, r.prio < x.prio ∨ (r.prio = x.prio ∧ r.seq ≤ x.seq)) ∧
      ((h.map (·.seq)).Nodup → ∀ l : List FE, l.Perm h → minFE Miros.Gen.fabTags l = some r)) :=
  ⟨C08_heap_reachable _, fun h x H => C08_heap_push_inv _ h x H,
   fun h h' r H hp => ⟨C08_heap_pop_inv _ h h' r H hp, C08_heap_pop_perm _ h h' r hp,
     (C08_heap_pop_least _ fabTags_prioSeq h h' r H hp).2,
     fun hd => C08_heap_pop_is_min _ fabTags_prioSeq h h' r H hd hp⟩⟩

/-- the refinement and the sorted drain for the current comparator -/
theorem C08_heap_current_refines (ops : List Op) (hd : ((pushed ops).map (·.seq)).Nodup) :
    outs Miros.Gen.fabTags ops = (lrun Miros.Gen.fabTags [] ops).2 ∧
    Abs (ofOps Miros.Gen.fabTags ops) (lrun Miros.Gen.fabTags [] ops).1 ∧
    List.Pairwise (fun a b => a.prio < b.prio ∨ (a.prio = b.prio ∧ a.seq < b.seq))
      (drainHeap Miros.Gen.fabTags (ofOps Miros.Gen.fabTags ops)) :=
  ⟨(C08_heap_refines_list _ fabTags_prioSeq ops hd).1, (C08_heap_refines_list _ fabTags_prioSeq ops hd).2,
   (C08_heap_drain_sorted _ fabTags_prioSeq ops hd).2.1⟩

end Miros.Props.C08Heap
