import MirosModel.Instr.Lemmas
import MirosModel.Gen.Constants
/-!
# C19 — what a step's spy log contains

"Each step's spy log lists, in order, every offer of the event to a state (marked HOOK exactly when
that state handled it internally), every guard fallback and every entry, exit and init invocation
the processor made, plus the documented markers of that step (START, posts and recalls made during
it, scribbles, queue reflection). The full spy is the concatenation of the step logs, truncated to
the most recent entries."

Model: `Miros.Instr` (`MirosModel/Instr/Spy.lean`): the spy lines of a step are a function
(`logLines`) of the layer-1 call log `Res.log` of `Miros.Hsm.dispatch` / `startAt` — which is the
complete list of handler invocations — and of the handlers' queue operations `QChart.eff`.
`rtc.spy` is a ring of `caps.rtc` lines (generated value `Miros.Gen.rtcCap = 250`), `full.spy` a
ring of `caps.spy` (`Miros.Gen.spyCap = 500`).  All statements are for every chart, every
processor switch setting, every queue state and every ring size unless a bound is stated.
-/
namespace Miros.Props.C19
open Miros.Hsm Miros.Queue Miros.Instr

/-! ### the call lines are exactly the handler invocations -/

/-- **C19 (calls).** Projecting the spy lines of a call log to their call lines gives the call log
back: every handler invocation (offer, guard fallback `EMPTY`, entry, exit, init, and the
processor's `SEARCH_FOR_SUPER` probes) is listed, in order, and no call line is invented. -/
theorem C19_calls_are_exactly_the_invocations (qc : QChart) (s : QState) (log : Log) :
    (logLines qc s log).1.filterMap asCall = log :=
  logLines_calls qc log s

/-- **C19 (blocks).** The spy lines are the concatenation, call by call, of: the call line, the
markers of the effects of that handler call (written in the queue state the call meets), and a
HOOK line exactly when `isHook` says so. -/
theorem C19_block_structure (qc : QChart) (s : QState) (call : Call) (rest : Log) :
    (logLines qc s (call :: rest)).1 =
      Line.call call.s call.sig :: (effsLines s (qc.eff call.s call.sig)).1 ++
        (match isHook qc.chart call with | some n => [Line.hook call.s n] | none => []) ++
        (logLines qc (effsLines s (qc.eff call.s call.sig)).2 rest).1 :=
  logLines_cons qc s call rest

theorem C19_block_structure_nil (qc : QChart) (s : QState) : (logLines qc s []).1 = [] := rfl

/-- a log made of two parts gives the lines of the first part, then those of the second part in
the queue state the first part leaves -/
theorem C19_lines_append (qc : QChart) (s : QState) (l1 l2 : Log) :
    (logLines qc s (l1 ++ l2)).1 = (logLines qc s l1).1 ++ (logLines qc (applyLog qc s l1) l2).1 :=
  logLines_append qc l1 l2 s

/-- **C19 (HOOK).** A HOOK line is written exactly when a non-inner signal was answered HANDLED;
entry / exit / init / probe calls never get one. -/
theorem C19_hook_iff_handled (qc : QChart) (call : Call) (n : Nat) :
    isHook qc.chart call = some n ↔ call.sig = .user n ∧ qc.chart.react call.s n = .handled :=
  isHook_iff qc.chart call n

theorem C19_no_hook_for_inner_signals (qc : QChart) (s : St) :
    isHook qc.chart ⟨s, .entry⟩ = none ∧ isHook qc.chart ⟨s, .exit⟩ = none ∧
    isHook qc.chart ⟨s, .init⟩ = none ∧ isHook qc.chart ⟨s, .search⟩ = none ∧
    isHook qc.chart ⟨s, .empty⟩ = none :=
  ⟨rfl, rfl, rfl, rfl, rfl⟩

/-! ### markers -/

/-- **C19 (markers).** One marker per post / defer / scribble; `recall` writes the pair
`RECALL e, POST_FIFO e` iff something is deferred, nothing otherwise. -/
theorem C19_markers (s : QState) :
    (∀ sg, effLines s (.fifo sg) = [.postFifo sg]) ∧
    (∀ sg, effLines s (.lifo sg) = [.postLifo sg]) ∧
    (∀ sg, effLines s (.defer sg) = [.postDeferred sg]) ∧
    (∀ i, effLines s (.scribble i) = [.scribble i]) ∧
    (∀ e rest, s.dq = e :: rest → effLines s .recall = [.recall e.sig, .postFifo e.sig]) ∧
    (s.dq = [] → effLines s .recall = []) := by
  refine ⟨fun _ => rfl, fun _ => rfl, fun _ => rfl, fun _ => rfl, ?_, ?_⟩
  · intro e rest h; simp [effLines, h]
  · intro h; simp [effLines, h]

/-- markers are written in effect order, each in the queue state the earlier effects left -/
theorem C19_markers_in_effect_order (s : QState) (e : Eff) (rest : List Eff) :
    (effsLines s (e :: rest)).1 = effLines s e ++ (effsLines (applyEff s e) rest).1 ∧
    (effsLines s []).1 = [] :=
  ⟨rfl, rfl⟩

theorem C19_markers_append (s : QState) (l1 l2 : List Eff) :
    (effsLines s (l1 ++ l2)).1 = (effsLines s l1).1 ++ (effsLines (l1.foldl applyEff s) l2).1 :=
  effsLines_append l1 l2 s

/-- markers are never call lines -/
theorem C19_markers_are_not_calls (s : QState) (l : List Eff) :
    (effsLines s l).1.filterMap asCall = [] :=
  effsLines_asCall l s

/-- the queue state threaded through the markers is the layer-2 fold of `applyEff` -/
theorem C19_markers_queue_state (s : QState) (l : List Eff) : (effsLines s l).2 = l.foldl applyEff s :=
  effsLines_state l s

/-- **C19 (queue).** The queue state after the lines of a call log is the layer-2 `applyLog`. -/
theorem C19_queue_state_agrees (qc : QChart) (s : QState) (log : Log) :
    (logLines qc s log).2 = applyLog qc s log :=
  logLines_state qc log s

/-! ### ring algebra: a ring keeps the most recent entries, in order -/

theorem C19_ring_is_suffix {α : Type} (c : Nat) (l : List α) : ring c l <:+ l := ring_suffix c l
theorem C19_ring_bounded {α : Type} (c : Nat) (l : List α) : (ring c l).length ≤ c := ring_length_le c l
theorem C19_ring_length {α : Type} (c : Nat) (l : List α) : (ring c l).length = min c l.length :=
  ring_length c l
theorem C19_ring_fits {α : Type} (c : Nat) (l : List α) (h : l.length ≤ c) : ring c l = l :=
  ring_of_le c l h
theorem C19_ring_absorbs {α : Type} (c : Nat) (a b : List α) : ring c (ring c a ++ b) = ring c (a ++ b) :=
  ring_ring_append c a b

/-! ### the log of one step -/

/-- **C19 (step).** `next_rtc` on a non-empty queue: the step log is the lines `ll` of the
dispatch's call log (cut to the ring), then the queue reflection (cut again).
`q0` is the queue state the handlers meet: head popped, current state already the new one. -/
theorem C19_step_log (caps : Caps) (qc : QChart) (g : Cfg) (st : IState) (e : Ev) (rest : List Ev)
    (r : Res) (hq : st.q.q = e :: rest) (hd : dispatch qc.chart g st.q.cur e.sig = .ok r) :
    ∃ st', iNext caps qc g st = some st' ∧
      st'.rtcSpy = ring caps.rtc (ring caps.rtc (logLines qc (popQ st.q e rest r) r.log).1 ++
        [reflLine (logLines qc (popQ st.q e rest r) r.log).2]) ∧
      st'.rtcSpy = ring caps.rtc ((logLines qc (popQ st.q e rest r) r.log).1 ++
        [reflLine (logLines qc (popQ st.q e rest r) r.log).2]) := by
  refine ⟨_, iNext_cons caps qc g st e rest r hq hd, rfl, ?_⟩
  exact ring_ring_append _ _ _

/-- **C19 (step, fits).** When the step fits the per-step ring, the step log is exactly the lines
of the call log followed by the reflection: the reflection is last, the call lines are exactly
`r.log`, and their action projection is `actions r.log` (offers, entries, exits, inits). -/
theorem C19_step_log_fits (caps : Caps) (qc : QChart) (g : Cfg) (st : IState) (e : Ev) (rest : List Ev)
    (r : Res) (hq : st.q.q = e :: rest) (hd : dispatch qc.chart g st.q.cur e.sig = .ok r)
    (hfit : (logLines qc (popQ st.q e rest r) r.log).1.length + 1 ≤ caps.rtc) :
    ∃ st', iNext caps qc g st = some st' ∧
      st'.rtcSpy = (logLines qc (popQ st.q e rest r) r.log).1 ++
        [reflLine (logLines qc (popQ st.q e rest r) r.log).2] ∧
      st'.rtcSpy.getLast? = some (reflLine (applyLog qc (popQ st.q e rest r) r.log)) ∧
      st'.rtcSpy.filterMap asCall = r.log ∧
      actions (st'.rtcSpy.filterMap asCall) = actions r.log := by
  obtain ⟨st', h1, _, h3⟩ := C19_step_log caps qc g st e rest r hq hd
  have h4 : st'.rtcSpy = (logLines qc (popQ st.q e rest r) r.log).1 ++
      [reflLine (logLines qc (popQ st.q e rest r) r.log).2] := by
    rw [h3]; apply ring_of_le; simp only [List.length_append, List.length_singleton]; exact hfit
  have h5 : st'.rtcSpy.filterMap asCall = r.log := by
    rw [h4, List.filterMap_append, logLines_calls]; simp [reflLine, asCall]
  refine ⟨st', h1, h4, ?_, h5, by rw [h5]⟩
  rw [h4, logLines_state]; simp

/-- the same with the generated per-step ring size (250 lines) -/
theorem C19_step_log_fits_gen (spy trc : Nat) (qc : QChart) (st : IState) (e : Ev) (rest : List Ev)
    (r : Res) (hq : st.q.q = e :: rest) (hd : dispatch qc.chart Miros.Gen.cfg st.q.cur e.sig = .ok r)
    (hfit : (logLines qc (popQ st.q e rest r) r.log).1.length + 1 ≤ Miros.Gen.rtcCap) :
    ∃ st', iNext ⟨Miros.Gen.rtcCap, spy, trc⟩ qc Miros.Gen.cfg st = some st' ∧
      st'.rtcSpy = (logLines qc (popQ st.q e rest r) r.log).1 ++
        [reflLine (logLines qc (popQ st.q e rest r) r.log).2] ∧
      st'.rtcSpy.filterMap asCall = r.log := by
  obtain ⟨st', h1, h2, _, h4, _⟩ :=
    C19_step_log_fits ⟨Miros.Gen.rtcCap, spy, trc⟩ qc Miros.Gen.cfg st e rest r hq hd hfit
  exact ⟨st', h1, h2, h4⟩

/-- on an empty queue `next_rtc` logs only the reflection -/
theorem C19_idle_log (caps : Caps) (qc : QChart) (g : Cfg) (st : IState) (hq : st.q.q = []) :
    ∃ st', iNext caps qc g st = some st' ∧ st'.rtcSpy = [reflLine st.q] :=
  ⟨_, iNext_nil caps qc g st hq, rfl⟩

/-- **C19 (start).** `start_at` from a fresh state: START, the lines of the entry / init calls,
the reflection. -/
theorem C19_start_log (caps : Caps) (qc : QChart) (g : Cfg) (st : IState) (target : St) (r : Res)
    (hs : startAt qc.chart g target = .ok r) (hfresh : st.rtcSpy = []) :
    ∃ st', iStart caps qc g st target = some st' ∧
      st'.rtcSpy = ring caps.rtc (Line.start :: (logLines qc (withCur st.q r.state) r.log).1 ++
        [reflLine (logLines qc (withCur st.q r.state) r.log).2]) ∧
      ((logLines qc (withCur st.q r.state) r.log).1.length + 2 ≤ caps.rtc →
        st'.rtcSpy = Line.start :: (logLines qc (withCur st.q r.state) r.log).1 ++
          [reflLine (logLines qc (withCur st.q r.state) r.log).2] ∧
        st'.rtcSpy.filterMap asCall = r.log) := by
  refine ⟨_, iStart_ok caps qc g st target r hs, ?_, ?_⟩
  · simp only [hfresh, List.nil_append]
    rw [ring_ring_append]; rfl
  · intro hfit
    have h4 : ring caps.rtc (ring caps.rtc (st.rtcSpy ++ [Line.start] ++
          (logLines qc (withCur st.q r.state) r.log).1) ++
        [reflLine (logLines qc (withCur st.q r.state) r.log).2]) =
        Line.start :: (logLines qc (withCur st.q r.state) r.log).1 ++
          [reflLine (logLines qc (withCur st.q r.state) r.log).2] := by
      rw [ring_ring_append, hfresh]
      apply ring_of_le
      simp only [List.nil_append, List.length_append, List.length_cons, List.length_nil]
      omega
    refine ⟨h4, ?_⟩
    show List.filterMap asCall (ring caps.rtc _) = _
    rw [h4, List.filterMap_append, List.filterMap_cons, logLines_calls]
    simp [asCall, reflLine]

/-! ### the full spy -/

/-- **C19 (full, one step).** A dispatching step appends its step log — the call-log lines as cut
by the per-step ring, then the reflection — to the full spy, which keeps the most recent
`caps.spy` lines. -/
theorem C19_full_spy_next (caps : Caps) (qc : QChart) (g : Cfg) (st : IState) (e : Ev) (rest : List Ev)
    (r : Res) (hq : st.q.q = e :: rest) (hd : dispatch qc.chart g st.q.cur e.sig = .ok r) :
    ∃ st', iNext caps qc g st = some st' ∧
      st'.fullSpy = ring caps.spy (st.fullSpy ++
        (ring caps.rtc (logLines qc (popQ st.q e rest r) r.log).1 ++
          [reflLine (logLines qc (popQ st.q e rest r) r.log).2])) := by
  refine ⟨_, iNext_cons caps qc g st e rest r hq hd, ?_⟩
  simp only
  rw [ring_ring_append, List.append_assoc]

theorem C19_full_spy_start (caps : Caps) (qc : QChart) (g : Cfg) (st : IState) (target : St) (r : Res)
    (hs : startAt qc.chart g target = .ok r) :
    ∃ st', iStart caps qc g st target = some st' ∧
      st'.fullSpy = ring caps.spy (st.fullSpy ++
        (ring caps.rtc (st.rtcSpy ++ [Line.start] ++ (logLines qc (withCur st.q r.state) r.log).1) ++
          [reflLine (logLines qc (withCur st.q r.state) r.log).2])) := by
  refine ⟨_, iStart_ok caps qc g st target r hs, ?_⟩
  simp only
  rw [ring_ring_append, List.append_assoc]

/-- any operation, in terms of `spyContrib` (the two theorems above, the idle step, and client
posts, which contribute nothing to the full spy) -/
theorem C19_full_spy_step (caps : Caps) (qc : QChart) (g : Cfg) (st st' : IState) (op : IOp)
    (hb : Bounded caps st) (h : iStep caps qc g st op = some st') :
    st'.fullSpy = ring caps.spy (st.fullSpy ++ spyContrib caps qc g st op) :=
  (iStep_fields caps qc g st st' op hb h).1

/-- **C19 (full).** Over any sequence of operations from the initial state, the full spy is the
concatenation of the contributions of all steps, truncated to the most recent `caps.spy` lines
(a suffix of that concatenation, of length `min caps.spy …`). -/
theorem C19_full_spy_is_truncated_concatenation (caps : Caps) (qc : QChart) (g : Cfg) (cap : Nat)
    (ops : List IOp) (st' : IState) (h : iRun caps qc g (iInit cap) ops = some st') :
    st'.fullSpy = ring caps.spy (runSpy caps qc g (iInit cap) ops) ∧
    st'.fullSpy <:+ runSpy caps qc g (iInit cap) ops ∧
    st'.fullSpy.length = min caps.spy (runSpy caps qc g (iInit cap) ops).length := by
  obtain ⟨_, h1, _⟩ := iRun_fields caps qc g ops (iInit cap) st' (Bounded.iInit caps cap) h
  have h2 : st'.fullSpy = ring caps.spy (runSpy caps qc g (iInit cap) ops) := by
    rw [h1]; rfl
  exact ⟨h2, h2 ▸ ring_suffix _ _, h2 ▸ ring_length _ _⟩

/-- from any state whose rings respect their bounds -/
theorem C19_full_spy_run (caps : Caps) (qc : QChart) (g : Cfg) (st st' : IState) (ops : List IOp)
    (hb : Bounded caps st) (h : iRun caps qc g st ops = some st') :
    st'.fullSpy = ring caps.spy (st.fullSpy ++ runSpy caps qc g st ops) :=
  (iRun_fields caps qc g ops st st' hb h).2.1

/-! ### non-vacuity: the fixture `Ex.qc1` (guard declines in `[2,1]`, `[1]` handles and posts) -/
open Miros.Instr.Ex

/-- the handled step: offer to `[2,1]`, its guard fallback, offer to `[1]`, the post made by the
handler of `[1]`, its HOOK, the reflection (one event now queued) -/
example : (iRun caps1 qc1 g1 (iInit 5) (ops1.take 3)).map (·.rtcSpy) =
    some [.call [2, 1] (.user 0), .call [2, 1] .empty, .call [1] (.user 0), .postFifo 1, .hook [1] 0,
      .refl 1 0] := by decide

/-- the start step -/
example : (iRun caps1 qc1 g1 (iInit 5) (ops1.take 1)).map (·.rtcSpy) =
    some [.start, .call [2, 1] .search, .call [1] .search, .call [1] .entry, .call [2, 1] .entry,
      .call [2, 1] .init, .refl 0 0] := by decide

/-- the transition step: exit, entry (with its scribble), init -/
example : (iRun caps1 qc1 g1 (iInit 5) (ops1.take 4)).map (·.rtcSpy) =
    some [.call [2, 1] (.user 1), .call [3, 1] .search, .call [2, 1] .search, .call [2, 1] .exit,
      .call [3, 1] .entry, .scribble 7, .call [3, 1] .init, .refl 0 0] := by decide

/-- the full spy of the whole run is the concatenation of its 4 step logs (24 lines) -/
example : (iRun caps1 qc1 g1 (iInit 5) ops1).map (·.fullSpy) = some (runSpy caps1 qc1 g1 (iInit 5) ops1) ∧
    (runSpy caps1 qc1 g1 (iInit 5) ops1).length = 24 := by decide

/-- with a full-spy ring of 5 only the last 5 lines survive -/
example : (iRun ⟨250, 5, 500⟩ qc1 g1 (iInit 5) ops1).map (·.fullSpy) =
    some [.call [3, 1] .init, .refl 0 0, .call [3, 1] (.user 2), .call [1] (.user 2), .refl 0 0] := by
  decide

example : isHook qc1.chart ⟨[1], .user 0⟩ = some 0 ∧ isHook qc1.chart ⟨[2, 1], .user 0⟩ = none := by
  decide

end Miros.Props.C19
