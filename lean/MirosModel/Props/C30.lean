import MirosModel.Conc.SingleLemmas
import MirosModel.Conc.SmallMeasure
import MirosModel.Gen.Constants
/-!
# C30 — process-wide singletons

"ActiveFabric(), Signal(), ReturnStatus(), the fabric run event and the live-output writer each
yield one shared instance for the life of the process, even when first requested by several
threads at once."

Model: `Miros.Conc.Single` (`MirosModel/Conc/Small.lean`): `SingletonDecorator.__call__`, one step
per access to the shared `instance` / lock, any number `n` of threads calling it at once, any
schedule. `Miros.Gen.singletonLocked = true`: the current source (double-checked locking);
`false`: the earlier code (check, construct, store without a lock). Objects are numbered in order
of construction (`nextObj` = number of objects constructed so far).
-/
namespace Miros.Props.C30
open Miros.Conc Miros.Conc.Single

theorem singletonLocked_true : Miros.Gen.singletonLocked = true := by decide

/-- **C30 (one instance).** Any number of threads, any schedule: at most one object is ever
constructed; every call that has returned returned the stored instance, which is object `0`;
so any two calls returned the same object. The full inductive invariant (`Single.Inv`) holds. -/
theorem C30_single (n : Nat) (sched : List Nat) :
    let s := (sys Miros.Gen.singletonLocked).run (init n) sched
    Inv s ∧ s.nextObj ≤ 1 ∧
    (∀ (i : Nat) (t : Thread) (r : Nat), s.threads[i]? = some t → t.ret = some r → s.instance_ = some r ∧ r = 0) ∧
    (∀ (i j : Nat) (ti tj : Thread) (ri rj : Nat), s.threads[i]? = some ti → s.threads[j]? = some tj →
      ti.ret = some ri → tj.ret = some rj → ri = rj) := by
  rw [singletonLocked_true]
  intro s
  have hI : Inv s := Inv.run n sched
  have h1 : ∀ (i : Nat) (t : Thread) (r : Nat), s.threads[i]? = some t → t.ret = some r → s.instance_ = some r ∧ r = 0 := by
    intro i t r ht hr
    have := (hI.thr i t ht).2.2.2.2.2.2 r hr
    exact ⟨this, (hI.inst r this).1⟩
  refine ⟨hI, hI.nextObj_le, h1, ?_⟩
  intro i j ti tj ri rj hi hj hri hrj
  rw [(h1 i ti ri hi hri).2, (h1 j tj rj hj hrj).2]

/-- **C30 (for the life of the process).** Once `instance` is set it never changes: whatever is
scheduled afterwards, it is the same object. -/
theorem C30_instance_never_changes (n : Nat) (sched more : List Nat) (o : Nat)
    (h : ((sys Miros.Gen.singletonLocked).run (init n) sched).instance_ = some o) :
    ((sys Miros.Gen.singletonLocked).run (init n) (sched ++ more)).instance_ = some o := by
  rw [singletonLocked_true] at h ⊢
  rw [System.run_append]
  exact run_instance_stable more _ (Inv.run n sched) h

/-- **C30 (every call returns; no deadlock).** In a reachable state in which no thread can move,
every one of the `n` threads has finished its call and returned object `0`. (A thread waiting at
`acquire` implies an owner inside the `with` block, which can move.) -/
theorem C30_all_return (n : Nat) (sched : List Nat)
    (hq : (sys Miros.Gen.singletonLocked).Quiescent ((sys Miros.Gen.singletonLocked).run (init n) sched)) :
    let s := (sys Miros.Gen.singletonLocked).run (init n) sched
    s.threads.length = n ∧ ∀ i, i < n → ∃ t, s.threads[i]? = some t ∧ t.pc = .done ∧ t.ret = some 0 := by
  rw [singletonLocked_true] at hq ⊢
  intro s
  have hI : Inv s := Inv.run n sched
  have hl : s.threads.length = n := by
    have := run_length true sched (init n)
    rw [this]; simp [init]
  refine ⟨hl, fun i hi => ?_⟩
  have ht : s.threads[i]? = some s.threads[i] := List.getElem?_eq_getElem (by omega)
  have hd := quiescent_done hI hq ht
  exact ⟨_, ht, hd, (hI.thr i _ ht).2.2.2.2.2.1 hd⟩

/-- **C30 (no livelock).** Every schedule makes at most `7 n` effective steps (each thread's `pc`
only moves forward), so there is no infinite execution: a scheduler that keeps choosing enabled
threads reaches, after at most `7 n` steps, a state in which no thread can move — where, by
`C30_all_return`, every call has returned. -/
theorem C30_terminates (n : Nat) (sched : List Nat) :
    (sys Miros.Gen.singletonLocked).effective (init n) sched ≤ 7 * n := by
  have := (sys Miros.Gen.singletonLocked).terminates_of_measure (fun _ => True) measure
    (fun _ _ _ _ _ => trivial) (fun _ _ _ _ h => step_measure h) sched (init n) trivial
  rwa [measure_init] at this

/-- from every reachable state some continuation reaches a state in which no thread can move -/
theorem C30_can_finish (n : Nat) (sched : List Nat) :
    ∃ more, (sys Miros.Gen.singletonLocked).Quiescent
      ((sys Miros.Gen.singletonLocked).run (init n) (sched ++ more)) := by
  obtain ⟨more, h⟩ := (sys Miros.Gen.singletonLocked).reaches_quiescence (fun _ => True) measure
    (fun _ _ _ _ _ => trivial) (fun _ _ _ _ h => step_measure h) _
    ((sys Miros.Gen.singletonLocked).run (init n) sched) (Nat.le_refl _) trivial
  exact ⟨more, by rw [System.run_append]; exact h⟩

/-- **C30 (witness, earlier code).** Without the lock (`locked = false`) two threads that both pass
the `is None` check construct two objects and return different ones. -/
theorem C30_witness_unlocked :
    let s := (sys false).run (init 2) [0, 1, 0, 1, 0, 0, 1, 1]
    s.threads.map (·.ret) = [some 0, some 1] ∧ s.nextObj = 2 := by
  decide

/-- non-vacuity: a schedule on which three threads all return (quiescent state reached) -/
example :
    let s := (sys Miros.Gen.singletonLocked).run (init 3) [0, 1, 2, 1, 1, 1, 1, 1, 1, 0, 0, 0, 0, 2, 2, 2, 2]
    s.threads.map (·.ret) = [some 0, some 0, some 0] ∧ s.threads.map (·.pc) = [.done, .done, .done] ∧
      s.nextObj = 1 ∧ s.lock = none := by
  decide

end Miros.Props.C30
