import MirosModel.Conc.AOOwnLemmas
import MirosModel.Gen.Constants
/-!
# C12 (own handler) — stop() called from one of the object's own handlers

"stop() called from one of the object's own handlers ends its thread after the current step."  (And, as
for an outside stop(): every timed source the object started has been cancelled and posts nothing more
once that stop() call is over.)

Model: `Miros.Conc.AOOwn` (`MirosModel/Conc/AOOwn.lean`): a client thread `K` posts `nPosts` ARM events,
one HALT event and `nMore` further ARM events; the consumer thread's ARM handler arms timed sources
(each with its own timer thread and a signal name); its HALT handler calls `self.stop()` on the consumer
thread itself: clear the run flag, append STOP, (the join of the own thread raises and is skipped),
snapshot `posted_events_queue`, cancel every record of the snapshot by signal name, return.  `haltDone`
(ghost) is set when that `stop()` call is over.  Tags `clearsFlag` (`Miros.Gen.aoStopClearsFlagFirst`) and
`ownJoinSkipped` (`Miros.Gen.aoStopOwnJoinGuarded`), both `true` in `tt`.
All theorems quantify over every capacity, every list of `(times, name)` arguments, every `nPosts`, every
`nMore` and every schedule (`List Step`, any length).
-/
namespace Miros.Props.C12Own
open Miros.Conc Miros.Conc.AOOwn

/-- a run used by the non-vacuity examples: `K` posts two ARMs; their handlers arm a for-ever source
(source 0, name 7) and a source with `times = 2` (source 1, name 8); both tick once; `K` posts HALT and
one more ARM; source 0 ticks again (behind HALT); the consumer processes the two ticks in front of HALT,
pops HALT, clears the run flag; source 1 ticks its last time (behind HALT; it clears its own flag and stays
tracked); the handler appends STOP, snapshots `[0, 1]`, cancels both, returns; the loop test ends the
thread. -/
def demoSched : List Step :=
  [.k, .k, .c, .c, .c, .c, .t 0, .t 1, .k, .k, .k, .t 0, .c, .c, .c, .c, .c, .c, .c, .t 1,
   .c, .c, .c, .c, .c]

/-- the initial state of the demo run -/
def demoInit : State := init 3 [(0, 7), (2, 8)] 2 1

/-! ### 1. no run-to-completion step after the step whose handler called stop() -/

/-- **C12-own (no step after).** At every reachable state no run-to-completion step has begun after the
`stop()` call made by the HALT handler was over: the step that called `stop()` is the object's last. -/
theorem C12_own_no_step_after (cap : Nat) (arms : List (Nat × Nat)) (nPosts nMore : Nat)
    (sched : List Step) :
    ((sys tt).run (init cap arms nPosts nMore) sched).stepsAfterHalt = 0 :=
  (inv_reach cap arms nPosts nMore sched).ghost.1

/-- non-vacuity of 1: in the demo run `haltDone` holds and an ARM and two ticks are still queued behind
where HALT was — none of them was processed -/
example :
    let s := (sys tt).run demoInit demoSched
    s.haltDone = true ∧ s.q = [.arm, .tick 0, .tick 1, .stop] ∧ s.stepsAfterHalt = 0 := by decide

/-! ### 2. the thread ends -/

/-- **C12-own (thread ends).** The consumer thread is never killed (`c ≠ dead`).  If the HALT handler's
`stop()` is over after `sched`, then the run flag is clear and the consumer is at its loop test or has
ended; every continuation that contains at least one consumer entry leaves the consumer ended; and an
ended consumer stays ended under every continuation.  Conversely the thread ends only after that `stop()`
call is over. -/
theorem C12_own_thread_ends (cap : Nat) (arms : List (Nat × Nat)) (nPosts nMore : Nat)
    (sched : List Step) :
    let s := (sys tt).run (init cap arms nPosts nMore) sched
    s.c ≠ .dead ∧
    (s.haltDone = true →
      s.runFlag = false ∧ (s.c = .check ∨ s.c = .fin) ∧
      ∀ later, Step.c ∈ later → ((sys tt).run s later).c = .fin) ∧
    (s.c = .fin → s.haltDone = true ∧ ∀ later, ((sys tt).run s later).c = .fin) := by
  intro s
  have hinv : Inv s := inv_reach cap arms nPosts nMore sched
  refine ⟨hinv.nd, fun hd => ⟨hinv.rfD hd, (hinv.hd hd).1, fun later hm => ?_⟩,
    fun hc => ⟨hinv.fd hc, fun later => fin_run tt later s hc⟩⟩
  exact (hd_run later s hinv hd).2.2 hm

/-- non-vacuity of 2: one entry before the end of the demo run the `stop()` call is over and the consumer
is at its loop test; a continuation with a consumer entry among timer, client and wake-up entries ends
it; afterwards nothing moves it -/
example :
    let a := (sys tt).run demoInit (demoSched.take 24)
    let b := (sys tt).run a [.t 0, .k, .w, .c, .t 1]
    let d := (sys tt).run b [.c, .w, .k, .t 0, .c]
    a.haltDone = true ∧ a.c = .check ∧ a.runFlag = false ∧ b.c = .fin ∧ d.c = .fin ∧ d.k = .done := by
  decide

/-! ### 3. every source is cancelled once the handler's stop() is over -/

/-- **C12-own (all cancelled).** If the HALT handler's `stop()` is over after `sched`, then every source
has its flag clear and no timer thread has an enabled step; and after any continuation `later`: `haltDone`
still holds, every source still has its flag clear and is un-tracked, has posted nothing since, no timer
thread has an enabled step, and the number of sources is unchanged (no handler armed anything since) — in
fact the list of sources is unchanged. -/
theorem C12_own_all_cancelled (cap : Nat) (arms : List (Nat × Nat)) (nPosts nMore : Nat)
    (sched later : List Step)
    (hd : ((sys tt).run (init cap arms nPosts nMore) sched).haltDone = true) :
    let s := (sys tt).run (init cap arms nPosts nMore) sched
    let s' := (sys tt).run (init cap arms nPosts nMore) (sched ++ later)
    (∀ x ∈ s.srcs, x.flag = false) ∧ (∀ i, (sys tt).step s (.t i) = none) ∧
    s'.haltDone = true ∧
    (∀ x ∈ s'.srcs, x.flag = false ∧ x.tracked = false ∧ x.postsAfterStop = 0) ∧
    (∀ i, (sys tt).step s' (.t i) = none) ∧
    s'.srcs.length = s.srcs.length ∧ s'.srcs = s.srcs := by
  intro s s'
  have hinv : Inv s := inv_reach cap arms nPosts nMore sched
  have hs' : s' = (sys tt).run s later := System.run_append _ sched later _
  have hinv' : Inv s' := inv_reach cap arms nPosts nMore (sched ++ later)
  obtain ⟨hd', hsrc, _⟩ := hd_run later s hinv hd
  rw [← hs'] at hd' hsrc
  refine ⟨?_, fun i => tStep_none_of_haltDone hinv hd i, hd', ?_,
    fun i => tStep_none_of_haltDone hinv' hd' i, by rw [hsrc], hsrc⟩
  · intro x hx
    obtain ⟨i, hi⟩ := List.mem_iff_getElem?.mp hx
    exact (hinv.hd hd).2 i x hi
  · intro x hx
    obtain ⟨i, hi⟩ := List.mem_iff_getElem?.mp hx
    have hf := (hinv'.hd hd').2 i x hi
    refine ⟨hf, ?_, hinv'.ghost.2 i x hi⟩
    exact hinv'.untr hd' i x hi

/-- non-vacuity of 3 and of the whole development (spec item 6): the demo run.  Before the handler appends
STOP (first 19 entries) both sources are tracked, source 0 is running, source 1 has just used up its
`times`, the ARM posted behind HALT and a tick are queued; at the end the thread has ended, the `stop()`
call is over, both flags are clear, both sources un-tracked, the ARM behind HALT is still in the queue; a
later activation attempt of either timer thread is blocked. -/
example :
    let a := (sys tt).run demoInit (demoSched.take 19)
    let s := (sys tt).run demoInit demoSched
    a.c = .hAppend ∧ a.runFlag = false ∧ a.q = [.arm, .tick 0] ∧
    a.srcs.map (fun x => (x.flag, x.forever, x.tracked, x.name)) = [(true, true, true, 7), (true, false, true, 8)] ∧
    s.c = .fin ∧ s.haltDone = true ∧ s.k = .more 0 ∧ s.q = [.arm, .tick 0, .tick 1, .stop] ∧
    s.srcs.map (fun x => (x.flag, x.tracked, x.posts, x.postsAfterStop)) = [(false, false, 2, 0), (false, false, 2, 0)] ∧
    (sys tt).step s (.t 0) = none ∧ (sys tt).step s (.t 1) = none := by decide

/-- non-vacuity: the continuation contains consumer, timer, client and wake-up entries; only the client's
last step (`more 0 → done`) is enabled; the other seven entries are blocked -/
example :
    let s := (sys tt).run demoInit demoSched
    let s' := (sys tt).run demoInit (demoSched ++ [.t 0, .c, .k, .w, .t 1, .k, .c, .k])
    s'.srcs = s.srcs ∧ s'.c = .fin ∧ s'.q = [.arm, .tick 0, .tick 1, .stop] ∧ s'.k = .done ∧
    s'.stepsAfterHalt = 0 ∧
    blockedCount tt demoInit (demoSched ++ [.t 0, .c, .k, .w, .t 1, .k, .c, .k]) = 7 := by decide

/-- applications of theorems 1–3 to the demo run -/
example :
    let s := (sys tt).run demoInit demoSched
    s.stepsAfterHalt = 0 ∧ s.runFlag = false ∧ (∀ x ∈ s.srcs, x.flag = false) ∧
    (∀ later, ((sys tt).run s later).c = .fin) := by
  intro s
  have hd : s.haltDone = true := by decide
  have hc : s.c = .fin := by decide
  have h2 := C12_own_thread_ends 3 [(0, 7), (2, 8)] 2 1 demoSched
  have h3 := C12_own_all_cancelled 3 [(0, 7), (2, 8)] 2 1 demoSched [] hd
  exact ⟨C12_own_no_step_after 3 [(0, 7), (2, 8)] 2 1 demoSched, (h2.2.1 hd).1, h3.1, (h2.2.2 hc).2⟩

/-! ### 4. the HALT handler completes and the thread ends -/

/-- **C12-own (progress).** From every reachable state `s` (no hypothesis: `K` always posts HALT
eventually) the explicit schedule `haltSched s` — `K` until HALT is posted, then the consumer alone: the
events in front of HALT, the HALT handler with its `stop()`, the loop test; only `k` and `c` entries, no
timer thread needs to be scheduled — ends the thread with the handler's `stop()` over; its length is the
closed-form state measure `haltMeasure s = kLead + 3·(|q| + kLead) + |srcs| + 6 + |snapshot left|`. -/
theorem C12_own_halt_completes (cap : Nat) (arms : List (Nat × Nat)) (nPosts nMore : Nat)
    (sched : List Step) :
    let s := (sys tt).run (init cap arms nPosts nMore) sched
    ((sys tt).run s (haltSched s)).c = .fin ∧ ((sys tt).run s (haltSched s)).haltDone = true ∧
    (∀ t ∈ haltSched s, t = .k ∨ t = .c) ∧ (haltSched s).length = haltMeasure s ∧
    haltMeasure s = kLead s.k + (3 * (s.q.length + kLead s.k) + s.srcs.length + 6 + snapLen s.c) := by
  intro s
  have hinv : Inv s := inv_reach cap arms nPosts nMore sched
  have hfin := haltSched_fin hinv
  refine ⟨hfin, (inv_run (haltSched s) s hinv).fd hfin, ?_, haltSched_length s, rfl⟩
  intro t ht
  simp only [haltSched, List.mem_append, List.mem_replicate] at ht
  rcases ht with ⟨_, e⟩ | ⟨_, e⟩
  · exact Or.inl e
  · exact Or.inr e

/-- non-vacuity of 4: from a state where both sources are armed and have ticked, the consumer is at its
loop test and `K` has not yet posted HALT, the schedule (22 entries) ends the thread -/
example :
    let s := (sys tt).run demoInit (demoSched.take 8)
    s.haltDone = false ∧ s.k = .post 0 ∧ s.c = .check ∧ s.q = [.tick 0, .tick 1] ∧ s.srcs.length = 2 ∧
    haltMeasure s = 22 ∧ ((sys tt).run s (haltSched s)).c = .fin ∧
    ((sys tt).run s (haltSched s)).haltDone = true ∧ ((sys tt).run s (haltSched s)).q = [.stop] := by
  decide

/-- **C12-own (progress, any fair interleaving).** Timer threads, the client's later posts and surplus
wake-ups cannot keep the thread alive.  From every reachable state `s`: first any schedule made of at least
`kLead s.k` blocks, each containing a client entry (and any other entries in any order), gets HALT posted;
then, from the state `s1` reached, any schedule made of at least `rank s1` blocks, each containing a
consumer entry (and any client, timer and surplus-wake-up entries in any order), ends the thread with the
handler's `stop()` over.  (`rank` is computed from the state: consumer steps for the events in front of
HALT, the handler, the loop test; posts made behind HALT do not change it.  The bound for the second
phase has to be taken at `s1`: the ticks that timer threads post in front of HALT during the first phase
must all be processed, and their number depends on the schedule.) -/
theorem C12_own_halt_completes_fair (cap : Nat) (arms : List (Nat × Nat)) (nPosts nMore : Nat)
    (sched : List Step) (blocks1 blocks2 : List (List Step))
    (hfair1 : ∀ b ∈ blocks1, Step.k ∈ b) (hfair2 : ∀ b ∈ blocks2, Step.c ∈ b) :
    let s := (sys tt).run (init cap arms nPosts nMore) sched
    let s1 := (sys tt).run s blocks1.flatten
    kLead s.k ≤ blocks1.length → rank s1 ≤ blocks2.length →
    ((sys tt).run s (blocks1.flatten ++ blocks2.flatten)).c = .fin ∧
    ((sys tt).run s (blocks1.flatten ++ blocks2.flatten)).haltDone = true := by
  intro s s1 hl1 hl2
  have hinv : Inv s := inv_reach cap arms nPosts nMore sched
  have h1 : Inv2 s1 := ⟨inv_run _ s hinv, fair_blocks_post tt s blocks1 hfair1 hl1⟩
  rw [System.run_append]
  have hfin := fair_blocks_fin h1 blocks2 hfair2 hl2
  exact ⟨hfin, (inv_run blocks2.flatten s1 h1.1).fd hfin⟩

/-- non-vacuity of the fair-interleaving form: the for-ever source posts twice in every block of the first
phase (four more ticks in front of HALT) and keeps posting in the second phase until it is cancelled;
2 = `kLead` blocks, then 23 = `rank s1` blocks suffice -/
example :
    let s := (sys tt).run demoInit (demoSched.take 8)
    let blocks1 := List.replicate 2 [Step.t 0, .k, .w, .t 0]
    let s1 := (sys tt).run s blocks1.flatten
    let blocks2 := List.replicate 23 [Step.t 0, .k, .c, .t 1, .w]
    let s2 := (sys tt).run s (blocks1.flatten ++ blocks2.flatten)
    kLead s.k = 2 ∧ s1.k = .more 1 ∧ s1.q = [.tick 0, .tick 1, .tick 0, .tick 0, .tick 0, .halt, .tick 0] ∧
    rank s1 = 23 ∧ s2.c = .fin ∧ s2.haltDone = true ∧ s2.k = .done ∧
    s2.srcs.map (fun x => (x.flag, x.posts, x.postsAfterStop)) = [(false, 20, 0), (false, 2, 0)] := by
  decide

/-! ### 5. witnesses for the two bad variants -/

/-- **Witness (`stop()` does not clear the run flag itself).** Tags `⟨false, true⟩`: `K` posts HALT and one
more ARM before the consumer looks at the queue; the HALT handler's `stop()` appends STOP behind that ARM,
cancels nothing (no source yet) and returns with the run flag still set; the loop continues: the ARM
queued between HALT and STOP is processed after the step that called `stop()` (`stepsAfterHalt = 1`) and
arms a for-ever source, which nobody cancels: the thread then ends on STOP, the source's flag is still
set, and its timer thread posts afterwards. -/
theorem C12_own_witness_flag_not_cleared :
    let a := (sys ⟨false, true⟩).run (init 2 [(0, 7)] 0 1) [.k, .k, .k, .c, .c, .c, .c, .c]
    let b := (sys ⟨false, true⟩).run a [.c, .c]
    let d := (sys ⟨false, true⟩).run b [.c, .c, .c, .t 0]
    a.haltDone = true ∧ a.runFlag = true ∧ a.c = .check ∧ a.q = [.arm, .stop] ∧ a.nMore ≥ 1 ∧
    b.stepsAfterHalt > 0 ∧ b.srcs.map (fun x => (x.flag, x.tracked)) = [(true, true)] ∧
    d.c = .fin ∧ d.srcs.map (fun x => (x.flag, x.postsAfterStop)) = [(true, 1)] := by decide

/-- **Witness (the `RuntimeError` of joining the own thread is not caught).** Tags `⟨true, false⟩`: a
for-ever source is armed before HALT; the HALT handler's `stop()` clears the run flag, appends STOP, and
dies in `thread.join()`: the consumer thread is killed (`c = dead`) before the cancel loop; the `stop()`
call is over, the source still has `flag = true` and is still tracked, and its timer thread posts
afterwards (`postsAfterStop = 1`). -/
theorem C12_own_witness_join_not_skipped :
    let a := (sys ⟨true, false⟩).run (init 2 [(0, 7)] 1 0) [.k, .c, .c, .k, .k, .c, .c, .c, .c]
    let d := (sys ⟨true, false⟩).run a [.t 0, .c]
    a.haltDone = true ∧ a.c = .dead ∧ a.srcs.map (fun x => (x.flag, x.forever, x.tracked)) = [(true, true, true)] ∧
    d.c = .dead ∧ d.srcs.map (fun x => (x.flag, x.postsAfterStop)) = [(true, 1)] ∧
    (d.srcs.all fun x => x.postsAfterStop > 0) = true ∧ d.q = [.stop, .tick 0] := by decide

/-- the same two schedules with both tags repaired: nothing is processed after the handler's step, the
source is cancelled, the thread ends -/
example :
    let b := (sys tt).run (init 2 [(0, 7)] 0 1) [.k, .k, .k, .c, .c, .c, .c, .c, .c, .c, .c, .c, .c, .t 0]
    let d := (sys tt).run (init 2 [(0, 7)] 1 0) [.k, .c, .c, .k, .k, .c, .c, .c, .c, .t 0, .c, .c, .c, .t 0]
    b.c = .fin ∧ b.stepsAfterHalt = 0 ∧ b.srcs = [] ∧ b.q = [.arm, .stop] ∧
    d.c = .fin ∧ d.haltDone = true ∧ d.srcs.map (fun x => (x.flag, x.tracked, x.posts, x.postsAfterStop)) = [(false, false, 1, 0)] := by
  decide

/-! ### 7. the current source -/

/-- the generated tags -/
def genTags : Tags := ⟨Miros.Gen.aoStopClearsFlagFirst, Miros.Gen.aoStopOwnJoinGuarded⟩

theorem genTags_ok : genTags = ⟨true, true⟩ := by decide

/-- **C12-own for the current source.** With the tags generated from the current `stop()`: at every
reachable state no run-to-completion step has begun after the handler's `stop()` was over and the consumer
thread has not been killed; and if that `stop()` is over after `sched`, then the run flag is clear, the
consumer is at its loop test or ended, every source has its flag clear, and after any continuation
`later`: the consumer has ended if `later` contains a consumer entry, every source has its flag clear and
has posted nothing since, no timer thread has an enabled step, and no source was added. -/
theorem C12_own_current (cap : Nat) (arms : List (Nat × Nat)) (nPosts nMore : Nat)
    (sched later : List Step) :
    let s := (sys genTags).run (init cap arms nPosts nMore) sched
    let s' := (sys genTags).run (init cap arms nPosts nMore) (sched ++ later)
    s.stepsAfterHalt = 0 ∧ s.c ≠ .dead ∧
    (s.haltDone = true →
      s.runFlag = false ∧ (s.c = .check ∨ s.c = .fin) ∧ (∀ x ∈ s.srcs, x.flag = false) ∧
      (Step.c ∈ later → s'.c = .fin) ∧ (s.c = .fin → s'.c = .fin) ∧
      (∀ x ∈ s'.srcs, x.flag = false ∧ x.postsAfterStop = 0) ∧
      (∀ i, (sys genTags).step s' (.t i) = none) ∧ s'.srcs.length = s.srcs.length) := by
  rw [genTags_ok]
  intro s s'
  have h2 := C12_own_thread_ends cap arms nPosts nMore sched
  have hs' : s' = (sys tt).run s later := System.run_append _ sched later _
  refine ⟨C12_own_no_step_after cap arms nPosts nMore sched, h2.1, fun hd => ?_⟩
  obtain ⟨a1, a2, a3⟩ := h2.2.1 hd
  obtain ⟨b1, _, _, b4, b5, b6, _⟩ := C12_own_all_cancelled cap arms nPosts nMore sched later hd
  refine ⟨a1, a2, b1, fun hm => hs' ▸ a3 later hm, fun hc => hs' ▸ (h2.2.2 hc).2 later,
    fun x hx => ⟨(b4 x hx).1, (b4 x hx).2.2⟩, b5, b6⟩

/-- the models take a timed post's "capacity test + tracking" and each `cancel_event` / `cancel_events` call as steps that do not
interleave with one another: in the source they all run under the object's `posted_events_lock` (as does the snapshot `stop()`
takes). Without the lock a timed post made by another thread while a cancel is rotating the list makes the cancel pop the new
source's record instead of the one it matched: that source keeps running untracked and survives a later `stop()` (found by the
schedule replay, fixed in /repo). Fails to build when the translator no longer finds every use of the list under the lock. -/
theorem tracked_list_is_serialised_in_source : Miros.Gen.aoTrackingLocked = true := by decide

end Miros.Props.C12Own
