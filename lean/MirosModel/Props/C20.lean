import MirosModel.Instr.Lemmas
import MirosModel.Props.C02
import MirosModel.Gen.Constants
/-!
# C20 — the trace has one record per transition

"start_at appends one trace record (top -> start state) and each later step appends exactly one
record (previous state, signal, new state) if and only if the event caused a transition;
internally handled and ignored events append nothing. The trace keeps the most recent records in
order."

Model: `Miros.Instr.iNext` / `iStart` (`MirosModel/Instr/Spy.lean`).  The implementation decides
from the step's spy tuples: a record is appended unless some offer was hooked (`hooked`) or no
offer was answered at all (the `ignored` flag, `ignoredLog`), its signal is the last offered one
(`offeredSig`).  The theorems relate these three log computations to the specification's
`Miros.Hsm.offers` (who is offered the event, and the `Answer`): the key lemma
`Miros.Instr.dispatch_user_calls` shows that the user-signal calls of a successful
`Miros.Hsm.dispatch` are exactly the spec's offers — the exit walk, `trans_`, the entries and the
init drill only make entry / exit / init / search calls.

The statements hold for every chart, every processor switch setting `g` (hence for
`Miros.Gen.cfg`), every ring size.  A malformed handler (reaction `none`) on the bubbling path
makes `dispatch` raise, so the hypothesis `dispatch … = .ok r` already excludes it; no separate
"no `None` reaction" hypothesis is needed (`C20_record_iff_transition_gen` carries it as in the
property's class of charts and shows it is consistent).

**Known defect, modelled.** The start record is found through the START marker in the per-step
ring of `caps.rtc` (250) entries; a `start_at` that makes `caps.rtc` or more handler calls pushes
the marker out and the record is lost (`C20_start_record`, `C20_witness_ring_overflow`).
-/
namespace Miros.Props.C20
open Miros.Hsm Miros.Queue Miros.Instr

/-- the user-signal calls of a step are exactly the spec's offers of the event -/
theorem C20_offers_are_the_user_calls (c : Chart) (g : Cfg) (cur : St) (n : Nat) (r : Res)
    (h : dispatch c g cur n = .ok r) : r.log.filter isUserCall = (offers c n cur).1 :=
  dispatch_user_calls c g cur n r h

/-- **C20 (main).** `next_rtc` on queue head `e`: the trace (and the live-trace stream) gets
exactly the records `recs`, where `recs` is the single record (previous state, signal, new state)
when the spec's answer is a transition, and nothing when the event was handled internally or
ignored.  So exactly one record iff the event caused a transition. -/
theorem C20_record_iff_transition (caps : Caps) (qc : QChart) (g : Cfg) (st : IState) (e : Ev)
    (rest : List Ev) (r : Res) (hq : st.q.q = e :: rest)
    (hd : dispatch qc.chart g st.q.cur e.sig = .ok r) :
    ∃ st' recs, iNext caps qc g st = some st' ∧
      st'.trace = ring caps.trc (st.trace ++ recs) ∧
      st'.liveTrace = st.liveTrace ++ recs ∧
      recs = (match (offers qc.chart e.sig st.q.cur).2 with
        | .tran _ _ => [⟨st.q.cur, some e.sig, r.state⟩]
        | .handled _ => []
        | .ignored => []) ∧
      (recs.length = 1 ↔ ∃ S T, (offers qc.chart e.sig st.q.cur).2 = .tran S T) ∧
      (recs = [] ↔ ∀ S T, (offers qc.chart e.sig st.q.cur).2 ≠ .tran S T) := by
  refine ⟨_, nextRecs qc.chart st.q.cur r, iNext_cons caps qc g st e rest r hq hd, rfl, rfl,
    nextRecs_of_answer qc.chart g st.q.cur e.sig r hd, ?_, ?_⟩
  · rw [nextRecs_of_answer qc.chart g st.q.cur e.sig r hd]
    cases (offers qc.chart e.sig st.q.cur).2 <;> simp
  · rw [nextRecs_of_answer qc.chart g st.q.cur e.sig r hd]
    cases (offers qc.chart e.sig st.q.cur).2 <;> simp

/-- a transition appends exactly (previous state, signal, new state) -/
theorem C20_transition_appends_one (caps : Caps) (qc : QChart) (g : Cfg) (st : IState) (e : Ev)
    (rest : List Ev) (r : Res) (S T : St) (hq : st.q.q = e :: rest)
    (hd : dispatch qc.chart g st.q.cur e.sig = .ok r)
    (ha : (offers qc.chart e.sig st.q.cur).2 = .tran S T) :
    ∃ st', iNext caps qc g st = some st' ∧
      st'.trace = ring caps.trc (st.trace ++ [⟨st.q.cur, some e.sig, r.state⟩]) ∧
      st'.trace.getLast? = (if caps.trc = 0 then none else some ⟨st.q.cur, some e.sig, r.state⟩) := by
  obtain ⟨st', recs, h1, h2, _, h4, _⟩ := C20_record_iff_transition caps qc g st e rest r hq hd
  rw [ha] at h4
  simp only at h4
  subst h4
  refine ⟨st', h1, h2, ?_⟩
  rw [h2]
  unfold ring
  by_cases hc : caps.trc = 0
  · simp [hc]
  · rw [if_neg hc, List.getLast?_drop]
    simp; omega

/-- internally handled and ignored events append nothing: the trace is unchanged -/
theorem C20_no_transition_appends_nothing (caps : Caps) (qc : QChart) (g : Cfg) (st : IState) (e : Ev)
    (rest : List Ev) (r : Res) (hq : st.q.q = e :: rest)
    (hd : dispatch qc.chart g st.q.cur e.sig = .ok r)
    (ha : ∀ S T, (offers qc.chart e.sig st.q.cur).2 ≠ .tran S T)
    (hb : st.trace.length ≤ caps.trc) :
    ∃ st', iNext caps qc g st = some st' ∧ st'.trace = st.trace ∧ st'.liveTrace = st.liveTrace := by
  obtain ⟨st', recs, h1, h2, h3, _, _, h6⟩ := C20_record_iff_transition caps qc g st e rest r hq hd
  have := h6.mpr ha
  subst this
  exact ⟨st', h1, by rw [h2, List.append_nil, ring_of_le _ _ hb], by rw [h3, List.append_nil]⟩

/-- for the property's class of charts (no handler returns `None` for the event: none answers
`None` explicitly and every handler ends in `else: … SUPER`) and the switches
of the current source, a handled or ignored event always yields a step, and it appends nothing -/
theorem C20_record_iff_transition_gen (caps : Caps) (qc : QChart) (st : IState) (e : Ev)
    (rest : List Ev) (hq : st.q.q = e :: rest) (hn : ∀ s, qc.chart.react s e.sig ≠ .none)
    (hf : ∀ s, qc.chart.fall s = false)
    (ha : ∀ S T, (offers qc.chart e.sig st.q.cur).2 ≠ .tran S T)
    (hb : st.trace.length ≤ caps.trc) :
    ∃ st', iNext caps qc Miros.Gen.cfg st = some st' ∧ st'.trace = st.trace ∧
      st'.liveTrace = st.liveTrace ∧ st'.q.cur = st.q.cur := by
  obtain ⟨r, hd, hs, _⟩ := Miros.Props.C02.C02_no_change qc.chart st.q.cur e.sig hn hf ha
  obtain ⟨st', h1, h2, h3⟩ :=
    C20_no_transition_appends_nothing caps qc Miros.Gen.cfg st e rest r hq hd ha hb
  refine ⟨st', h1, h2, h3, ?_⟩
  rw [iNext_cons caps qc Miros.Gen.cfg st e rest r hq hd] at h1
  simp only [Option.some.injEq] at h1
  subst h1
  simp [logLines_state, popQ, hs]

/-- an idle `next_rtc` and a client post append nothing -/
theorem C20_idle_and_posts_append_nothing (caps : Caps) (qc : QChart) (g : Cfg) (st : IState) :
    (st.q.q = [] → ∃ st', iNext caps qc g st = some st' ∧ st'.trace = st.trace ∧
      st'.liveTrace = st.liveTrace) ∧
    (∀ e, (clientPost caps st e).trace = st.trace ∧ (clientPost caps st e).liveTrace = st.liveTrace) :=
  ⟨fun hq => ⟨_, iNext_nil caps qc g st hq, rfl, rfl⟩, fun _ => ⟨rfl, rfl⟩⟩

/-! ### the start record -/

/-- **C20 (start).** `start_at` appends exactly the record (top, start, resting state) when the
START marker is still in the per-step ring (`1 + number of handler calls ≤ caps.rtc`), and
nothing otherwise (the modelled defect). -/
theorem C20_start_record (caps : Caps) (qc : QChart) (g : Cfg) (st : IState) (target : St) (r : Res)
    (hs : startAt qc.chart g target = .ok r) :
    ∃ st', iStart caps qc g st target = some st' ∧
      (r.log.length + 1 ≤ caps.rtc →
        st'.trace = ring caps.trc (st.trace ++ [⟨[], none, r.state⟩]) ∧
        st'.liveTrace = st.liveTrace ++ [⟨[], none, r.state⟩]) ∧
      (¬ r.log.length + 1 ≤ caps.rtc →
        st'.trace = ring caps.trc st.trace ∧ st'.liveTrace = st.liveTrace) := by
  refine ⟨_, iStart_ok caps qc g st target r hs, ?_, ?_⟩
  · intro h; simp [startRecs, h]
  · intro h; simp [startRecs, h]

/-- with the generated per-step ring: the record is appended whenever `start_at` makes fewer than
250 handler calls -/
theorem C20_start_record_gen (spy trc : Nat) (qc : QChart) (st : IState) (target : St) (r : Res)
    (hs : startAt qc.chart Miros.Gen.cfg target = .ok r) (hlen : r.log.length < 250) :
    ∃ st', iStart ⟨Miros.Gen.rtcCap, spy, trc⟩ qc Miros.Gen.cfg st target = some st' ∧
      st'.trace = ring trc (st.trace ++ [⟨[], none, r.state⟩]) := by
  obtain ⟨st', h1, h2, _⟩ := C20_start_record ⟨Miros.Gen.rtcCap, spy, trc⟩ qc Miros.Gen.cfg st target r hs
  exact ⟨st', h1, (h2 (by show r.log.length + 1 ≤ 250; omega)).1⟩

open Miros.Instr.Ex in
/-- a concrete chart and ring size where the start record is lost: `start_at [2,1]` makes 5
handler calls, the per-step ring holds 2 entries -/
theorem C20_witness_ring_overflow :
    (iStart capsTiny qc1 g1 (iInit 5) [2, 1]).map (·.trace) = some [] ∧
    (iStart caps1 qc1 g1 (iInit 5) [2, 1]).map (·.trace) = some [⟨[], none, [2, 1]⟩] := by decide

/-! ### the trace over a run -/

/-- **C20 (trace).** Over any sequence of operations from the initial state the trace is the list
of all records appended so far (`runRecs`: per step, `stepRecs`), in order, cut to the most recent
`caps.trc`: a suffix of that list. -/
theorem C20_trace_is_recent_records (caps : Caps) (qc : QChart) (g : Cfg) (cap : Nat) (st' : IState)
    (ops : List IOp) (h : iRun caps qc g (iInit cap) ops = some st') :
    st'.trace = ring caps.trc (runRecs caps qc g (iInit cap) ops) ∧
    st'.liveTrace = runRecs caps qc g (iInit cap) ops ∧
    st'.trace <:+ runRecs caps qc g (iInit cap) ops ∧
    st'.trace.length = min caps.trc (runRecs caps qc g (iInit cap) ops).length := by
  obtain ⟨_, _, h2, h3, _⟩ := iRun_fields caps qc g ops (iInit cap) st' (Bounded.iInit caps cap) h
  have e : st'.trace = ring caps.trc (runRecs caps qc g (iInit cap) ops) := by rw [h2]; rfl
  exact ⟨e, by rw [h3]; rfl, e ▸ ring_suffix _ _, e ▸ ring_length _ _⟩

/-- what `runRecs` collects for a dispatching step, by the spec's answer -/
theorem C20_stepRecs_next (caps : Caps) (qc : QChart) (g : Cfg) (st : IState) (e : Ev)
    (rest : List Ev) (r : Res) (hq : st.q.q = e :: rest)
    (hd : dispatch qc.chart g st.q.cur e.sig = .ok r) :
    stepRecs caps qc g st .next =
      match (offers qc.chart e.sig st.q.cur).2 with
      | .tran _ _ => [⟨st.q.cur, some e.sig, r.state⟩]
      | .handled _ => []
      | .ignored => [] := by
  simp only [stepRecs, hq, hd]
  exact nextRecs_of_answer qc.chart g st.q.cur e.sig r hd

/-! ### non-vacuity on the fixture `Ex.qc1` -/
open Miros.Instr.Ex

/-- start, handled step (`[1]` hooks signal 0), transition step, ignored step: two records -/
example : (iRun caps1 qc1 g1 (iInit 5) ops1).map (·.trace) =
    some [⟨[], none, [2, 1]⟩, ⟨[2, 1], some 1, [3, 1]⟩] := by decide

/-- after start + handled step only the start record is there -/
example : (iRun caps1 qc1 g1 (iInit 5) (ops1.take 3)).map (·.trace) = some [⟨[], none, [2, 1]⟩] := by
  decide

/-- the spec's answers for the three events of the run -/
example : (offers qc1.chart 0 [2, 1]).2 = .handled [1] ∧ (offers qc1.chart 1 [2, 1]).2 = .tran [2, 1] [3, 1] ∧
    (offers qc1.chart 2 [3, 1]).2 = .ignored := by decide

/-- the hypotheses of `C20_record_iff_transition` are satisfiable -/
example : ∃ r, dispatch qc1.chart g1 [2, 1] 1 = .ok r ∧ r.state = [3, 1] := ⟨_, rfl, by decide⟩

example : ∀ s, qc1.chart.react s 0 ≠ .none := by
  intro s; simp only [qc1]; split <;> (try split) <;> (try split) <;> simp

end Miros.Props.C20
