import MirosModel.Hsm.PathLemmas
/-!
# The entry-path buffer: `store`, `rd`, `scan`, `enterDown`, `enterInit`, and the handler calls

`Buf tp T m` : the first `m` cells of the buffer hold `T, parent T, …` (`T.drop i`).
The invariant `mx + 1 = tp.length` is what makes `store` append exactly at the end.
-/
namespace Miros.Hsm

def Buf (tp : List St) (T : St) (m : Nat) : Prop := ∀ i, i < m → rd tp i = T.drop i

def noExit (l : Log) : Prop := ∀ x ∈ l, x.sig ≠ Sig.exit

theorem noExit_append {a b : Log} (ha : noExit a) (hb : noExit b) : noExit (a ++ b) := by
  intro x hx
  rcases List.mem_append.mp hx with h | h
  · exact ha x h
  · exact hb x h

theorem Buf.mono {tp T m n} (h : Buf tp T m) (hn : n ≤ m) : Buf tp T n :=
  fun i hi => h i (by omega)

theorem store_ok {tp : List St} {mx ip : Nat} (v : St) (h : mx + 1 = tp.length) (hip : ip ≤ mx + 1) :
    ∃ tp' mx', store tp mx ip v = some (tp', mx') ∧ mx' + 1 = tp'.length ∧ mx ≤ mx' ∧ ip ≤ mx' ∧
      rd tp' ip = v ∧ (∀ i, i < ip → rd tp' i = rd tp i) := by
  unfold store
  by_cases h1 : ip > mx
  · have hl : ip = tp.length := by omega
    refine ⟨tp ++ [v], ip, by simp [h1], by simp; omega, by omega, by omega, ?_, ?_⟩
    · subst hl; simp [rd]
    · intro i hi
      have : i < tp.length := by omega
      simp [rd, List.getElem?_append_left this]
  · have h2 : ip < tp.length := by omega
    refine ⟨tp.set ip v, mx, by simp [h1, h2], by simp; omega, by omega, by omega, ?_, ?_⟩
    · simp [rd, h2]
    · intro i hi
      have : ip ≠ i := by omega
      simp [rd, this]

theorem Buf.store {tp tp' : List St} {T v : St} {ip : Nat} (hb : Buf tp T ip)
    (h1 : rd tp' ip = v) (h2 : ∀ i, i < ip → rd tp' i = rd tp i) (hv : v = T.drop ip) :
    Buf tp' T (ip + 1) := by
  intro i hi
  by_cases e : i = ip
  · subst e; rw [h1, hv]
  · rw [h2 i (by omega)]; exact hb i (by omega)

theorem rd_set_zero {tp : List St} (v : St) (h : 0 < tp.length) : rd (tp.set 0 v) 0 = v := by
  cases tp with
  | nil => simp at h
  | cons a l => simp [rd]

/-! ### handler calls -/

@[simp] theorem probe_actions (x : St) (k : Ctx) : actions (probe x k).log = actions k.log := by
  cases x <;> simp [probe]

@[simp] theorem probe_temp_cons (a : Nat) (p : St) (k : Ctx) : (probe (a :: p) k).temp = p := rfl

theorem probe_temp (x : St) (k : Ctx) (h : x ≠ []) : (probe x k).temp = x.tail := by
  cases x with
  | nil => exact absurd rfl h
  | cons a p => rfl

theorem probe_noExit (x : St) (k : Ctx) (h : noExit k.log) : noExit (probe x k).log := by
  cases x with
  | nil => exact h
  | cons a p =>
    simp only [probe]
    exact noExit_append h (by intro y hy; simp at hy; subst hy; simp)

theorem noSuper_eq_false {c : Chart} (hf : ∀ s, c.fall s = false) (x : St) : noSuper c x = false := by
  cases x with
  | nil => rfl
  | cons a p => exact hf _

theorem probeAny_eq_probe {c : Chart} (hf : ∀ s, c.fall s = false) (x : St) (k : Ctx) :
    probeAny c x k = probe x k := by
  simp [probeAny, noSuper_eq_false hf]

/-- the exit step used by `exitWalk` and `gLoop`: `t(exit)`; if HANDLED, `t(super)` -/
def exitStep (c : Chart) (t : St) (k : Ctx) : Ctx :=
  if (callExit c t k).1 then probe t (callExit c t k).2 else (callExit c t k).2

theorem exitStep_actions (c : Chart) (a : Nat) (p : St) (k : Ctx) :
    actions (exitStep c (a :: p) k).log = actions k.log ++ [⟨a :: p, .exit⟩] := by
  unfold exitStep callExit
  by_cases h : c.exitH (a :: p) <;> by_cases h' : c.fall (a :: p) <;> simp [h, h', probe]

theorem callExit_actions (c : Chart) (a : Nat) (p : St) (k : Ctx) :
    actions (callExit c (a :: p) k).2.log = actions k.log ++ [⟨a :: p, .exit⟩] := by
  unfold callExit
  by_cases h : c.exitH (a :: p) <;> by_cases h' : c.fall (a :: p) <;> simp [h, h']

theorem callEntry_ne_nil {x : St} (h : x ≠ []) (k : Ctx) :
    callEntry x k = { k with log := k.log ++ [⟨x, .entry⟩] } := by
  cases x with
  | nil => exact absurd rfl h
  | cons a p => rfl

/-! ### `scan` -/

theorem scan_some {t : St} {tp : List St} {T : St} : ∀ {ip iq : Nat}, Buf tp T (ip + 1) →
    scan t tp ip = some iq → iq ≤ ip ∧ T.drop iq = t := by
  intro ip
  induction ip with
  | zero =>
    intro iq hb h
    simp only [scan] at h
    split at h
    · rename_i e; cases h; exact ⟨Nat.le_refl _, by rw [← hb 0 (by omega)]; exact e⟩
    · cases h
  | succ ip ih =>
    intro iq hb h
    simp only [scan] at h
    split at h
    · rename_i e; cases h; exact ⟨Nat.le_refl _, by rw [← hb (ip + 1) (by omega)]; exact e⟩
    · obtain ⟨h1, h2⟩ := ih (hb.mono (by omega)) h
      exact ⟨by omega, h2⟩

theorem scan_none {t : St} {tp : List St} {T : St} : ∀ {ip : Nat}, Buf tp T (ip + 1) →
    scan t tp ip = none → ∀ i, i ≤ ip → T.drop i ≠ t := by
  intro ip
  induction ip with
  | zero =>
    intro hb h i hi
    simp only [scan] at h
    split at h
    · cases h
    · rename_i e
      have : i = 0 := by omega
      subst this; rw [← hb 0 (by omega)]; exact e
  | succ ip ih =>
    intro hb h i hi
    simp only [scan] at h
    split at h
    · cases h
    · rename_i e
      by_cases hi' : i = ip + 1
      · subst hi'; rw [← hb (ip + 1) (by omega)]; exact e
      · exact ih (hb.mono (by omega)) h i (by omega)

/-! ### entering down the buffer -/

theorem enterDown_spec {tp : List St} {T : St} : ∀ (ip : Nat) (k : Ctx), Buf tp T (ip + 1) →
    ip + 1 ≤ T.length →
    enterDown tp ip k = { k with log := k.log ++ (downs T (ip + 1)).map (⟨·, Sig.entry⟩) } := by
  intro ip
  induction ip with
  | zero =>
    intro k hb hl
    have h0 : rd tp 0 = T := by simpa using hb 0 (by omega)
    have hT : T ≠ [] := by intro e; subst e; simp at hl
    simp [enterDown, h0, callEntry_ne_nil hT, downs]
  | succ ip ih =>
    intro k hb hl
    have h0 : rd tp (ip + 1) = T.drop (ip + 1) := hb (ip + 1) (by omega)
    have hT : T.drop (ip + 1) ≠ [] := by
      intro e; rw [List.drop_eq_nil_iff] at e; omega
    rw [enterDown, h0, callEntry_ne_nil hT, ih _ (hb.mono (by omega)) (by omega)]
    simp [downs]

theorem enterInit_spec {tp : List St} {T : St} : ∀ (m : Nat) (k : Ctx), Buf tp T m →
    m ≤ T.length →
    enterInit tp m k = { k with log := k.log ++ (downs T m).map (⟨·, Sig.entry⟩) } := by
  intro m
  induction m with
  | zero => intro k _ _; simp [enterInit, downs]
  | succ m ih =>
    intro k hb hl
    have h0 : rd tp m = T.drop m := hb m (by omega)
    have hT : T.drop m ≠ [] := by
      intro e; rw [List.drop_eq_nil_iff] at e; omega
    rw [enterInit, h0, callEntry_ne_nil hT, ih _ (hb.mono (by omega)) (by omega)]
    simp [downs]

theorem noExit_map_entry (l : List St) : noExit (l.map (⟨·, Sig.entry⟩)) := by
  intro x hx
  simp at hx
  obtain ⟨a, _, rfl⟩ := hx
  simp

end Miros.Hsm
