import MirosModel.Hsm.DrillLemmas
/-!
# `init()` / `start_at` against `settleC`

`initLoop_spec`: entered with `temp = tgt` a proper descendant of `outer`, the outer loop of
`init()` enters `pathUp outer tgt` (outermost first), then follows initial transitions as
`settleC` says, raising where `settleC` is `none`.  No exit handler is ever called.
-/
namespace Miros.Hsm

theorem climbInit_spec (c : Chart) (hf : ∀ s, c.fall s = false) (g : Cfg) (tgt outer : St) :
    ∀ (x : St) (tp : List St) (mx idx : Nat) (k : Ctx),
    x = tgt.drop idx → idx ≤ tgt.length → Buf tp tgt (idx + 1) → mx + 1 = tp.length → idx ≤ mx →
    (∃ m tp' mx' k', climbInit c g outer x tp mx idx k = .done m tp' mx' k' ∧ m ≤ tgt.length ∧
        tgt.drop m = outer ∧ Buf tp' tgt (m + 1) ∧ mx' + 1 = tp'.length ∧
        actions k'.log = actions k.log ∧ (noExit k.log → noExit k'.log)) ∨
    (∃ k', climbInit c g outer x tp mx idx k = .fail k' ∧
        ∀ i, idx ≤ i → i ≤ tgt.length → tgt.drop i ≠ outer) := by
  intro x
  induction x with
  | nil =>
    intro tp mx idx k hx hl hb hmx hip
    have hlen : idx = tgt.length := by
      have := List.drop_eq_nil_iff.mp hx.symm; omega
    rw [climbInit]
    by_cases e : [] = outer
    · rw [if_pos e]
      exact Or.inl ⟨idx, tp, mx, k, rfl, hl, by rw [← hx]; exact e, hb, hmx, rfl, id⟩
    · rw [if_neg e]
      refine Or.inr ⟨k, rfl, ?_⟩
      intro i h1 h2
      have : i = idx := by omega
      subst this; rw [← hx]; exact e
  | cons a p ih =>
    intro tp mx idx k hx hl hb hmx hip
    rw [climbInit]
    by_cases e : a :: p = outer
    · rw [if_pos e]
      exact Or.inl ⟨idx, tp, mx, k, rfl, hl, by rw [← hx]; exact e, hb, hmx, rfl, id⟩
    · rw [if_neg e]
      obtain ⟨tp1, mx1, hs, hmx1, _, hip1, hr, hrest⟩ :=
        store_ok (tp := tp) (mx := mx) (ip := idx + 1) p hmx (by omega)
      have hp : p = tgt.drop (idx + 1) := (drop_cons_tail hx.symm).symm
      have hb1 : Buf tp1 tgt (idx + 1 + 1) := hb.store hr hrest hp
      have hlt := drop_cons_lt hx.symm
      simp only [hs, hf, Bool.false_eq_true, if_false]
      rcases ih tp1 mx1 (idx + 1) (probe (a :: p) k) hp (by omega) hb1 hmx1 hip1
        with ⟨m, tp', mx', k', h1, h2, h3, h4, h5, h6, h7⟩ | ⟨k', h1, h2⟩
      · exact Or.inl ⟨m, tp', mx', k', h1, h2, h3, h4, h5, by rw [h6]; simp,
          fun hn => h7 (probe_noExit _ _ hn)⟩
      · refine Or.inr ⟨k', h1, ?_⟩
        intro i hi1 hi2
        by_cases hi : i = idx
        · subst hi; rw [← hx]; exact e
        · exact h2 i (by omega) hi2

theorem initLoop_bad (c : Chart) (hf : ∀ s, c.fall s = false) (g : Cfg) (hg : g.initGuard = true) (fuel : Nat) (outer : St)
    (tp : List St) (mx : Nat) (k : Ctx) (hmx : mx + 1 = tp.length)
    (hbad : ¬ (outer <:+ k.temp ∧ outer ≠ k.temp)) :
    ∃ l, initLoop c g (fuel + 1) outer tp mx k = .raise l := by
  rw [initLoop]
  by_cases e : k.temp = outer
  · simp only [e, if_true, hg]; exact ⟨_, rfl⟩
  · simp only [if_neg e]
    have hb0 : Buf (tp.set 0 k.temp) k.temp (0 + 1) := by
      intro i hi
      have : i = 0 := by omega
      subst this; rw [rd_set_zero _ (by omega)]; rfl
    rcases climbInit_spec c hf g k.temp outer k.temp (tp.set 0 k.temp) mx 0 k (by simp) (by omega) hb0
      (by simpa using hmx) (by omega)
      with ⟨m, tp', mx', k', h1, h2, h3, _⟩ | ⟨k', h1, _⟩
    · exact absurd ⟨suffix_iff_drop.mpr ⟨m, h2, h3⟩, Ne.symm e⟩ hbad
    · simp only [h1]; exact ⟨_, rfl⟩

theorem initLoop_spec (c : Chart) (hf : ∀ s, c.fall s = false) (g : Cfg) (hg : g.initGuard = true)
    (hdepth : ∀ s t, c.init s = some t → t.length ≤ c.depth) :
    ∀ (fuel : Nat) (outer : St) (tp : List St) (mx : Nat) (k : Ctx),
      mx + 1 = tp.length → 1 ≤ fuel →
      (c.init k.temp = none ∨ (c.depth + 2 ≤ fuel + k.temp.length ∧ 2 ≤ fuel)) →
      outer <:+ k.temp → outer ≠ k.temp →
      (∀ l r, settleC c fuel k.temp = some (l, r) →
          ∃ k', initLoop c g fuel outer tp mx k = .ok (r, k') ∧
            actions k'.log = actions k.log ++ (pathUp outer k.temp).reverse.map (⟨·, Sig.entry⟩) ++ l ∧
            (noExit k.log → noExit k'.log)) ∧
      (settleC c fuel k.temp = none → ∃ l, initLoop c g fuel outer tp mx k = .raise l) := by
  intro fuel
  induction fuel with
  | zero => intro outer tp mx k _ h; omega
  | succ fuel ih =>
    intro outer tp mx k hmx _ hfuel h1 h2
    obtain ⟨tgt, klog⟩ := k
    simp only at hfuel h1 h2 ⊢
    obtain ⟨m0, hm1, hm2, hm3⟩ := proper_suffix_drop h1 h2
    have htgt : tgt ≠ [] := by intro e; subst e; simp at hm2; omega
    rw [initLoop]
    simp only [if_neg (Ne.symm h2)]
    have hb0 : Buf (tp.set 0 tgt) tgt (0 + 1) := by
      intro i hi
      have : i = 0 := by omega
      subst this; rw [rd_set_zero _ (by omega)]; rfl
    rcases climbInit_spec c hf g tgt outer tgt (tp.set 0 tgt) mx 0 ⟨tgt, klog⟩ (by simp) (by omega) hb0
      (by simpa using hmx) (by omega)
      with ⟨m, tp1, mx1, k1, hc, c1, c2, c3, c4, c5, c6⟩ | ⟨k', hc, c1⟩
    · simp only [hc]
      have hpath : (pathUp outer tgt).reverse = downs tgt m := by
        rw [← c2]; exact pathUp_reverse_drop tgt m c1
      rw [enterInit_spec m _ (c3.mono (by omega)) c1]
      simp only at c5 c6
      cases hi : c.init tgt with
      | none =>
        rw [callInit_none htgt hi]
        have hs : settleC c (fuel + 1) tgt = some ([⟨tgt, .init⟩], tgt) := by simp [settleC, hi]
        rw [hs]
        refine ⟨?_, by simp⟩
        intro l r e
        simp only [Option.some.injEq, Prod.mk.injEq] at e
        obtain ⟨rfl, rfl⟩ := e
        refine ⟨_, rfl, ?_, ?_⟩
        · simp [c5, hpath]
        · intro hn
          exact noExit_append (noExit_append (c6 hn) (noExit_map_entry _))
            (by intro y hy; simp at hy; subst hy; simp)
      | some tgt' =>
        rw [callInit_some htgt hi]
        simp only [if_true]
        have hlen := hdepth tgt tgt' hi
        have hfu : c.depth + 2 ≤ fuel + 1 + tgt.length ∧ 2 ≤ fuel + 1 := by
          rcases hfuel with h | h
          · rw [hi] at h; cases h
          · exact h
        by_cases good : tgt <:+ tgt' ∧ tgt ≠ tgt'
        · obtain ⟨g1, g2⟩ := good
          obtain ⟨m', hm1', hm2', hm3'⟩ := proper_suffix_drop g1 g2
          have htl : tgt.length + 1 ≤ tgt'.length := by
            have := congrArg List.length hm3'; simp at this; omega
          obtain ⟨ih1, ih2⟩ := ih tgt tp1 mx1
            { temp := tgt', log := k1.log ++ (downs tgt m).map (⟨·, Sig.entry⟩) ++ [⟨tgt, .init⟩] }
            c4 (by omega) (Or.inr ⟨by simp only; omega, by omega⟩) g1 g2
          simp only at ih1 ih2
          constructor
          · intro l r e
            cases hs : settleC c fuel tgt' with
            | none => rw [settleC_good_none hi hs] at e; cases e
            | some lr =>
              obtain ⟨l', r'⟩ := lr
              rw [settleC_good_some hi g1 g2 hs] at e
              simp only [Option.some.injEq, Prod.mk.injEq] at e
              obtain ⟨rfl, rfl⟩ := e
              obtain ⟨k', e1, e2, e3⟩ := ih1 l' r' hs
              refine ⟨k', e1, ?_, ?_⟩
              · rw [e2]; simp [c5, hpath]
              · intro hn
                exact e3 (noExit_append (noExit_append (c6 hn) (noExit_map_entry _))
                  (by intro y hy; simp at hy; subst hy; simp))
          · intro e
            cases hs : settleC c fuel tgt' with
            | none => exact ih2 hs
            | some lr =>
              obtain ⟨l', r'⟩ := lr
              rw [settleC_good_some hi g1 g2 hs] at e; cases e
        · rw [settleC_bad_init hi good]
          refine ⟨(by intro l r e; cases e), fun _ => ?_⟩
          cases fuel with
          | zero => omega
          | succ f' => exact initLoop_bad c hf g hg f' tgt tp1 mx1 ⟨tgt', _⟩ c4 good
    · exact absurd hm3 (c1 m0 (by omega) hm2)
end Miros.Hsm
