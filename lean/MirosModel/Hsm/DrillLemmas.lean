import MirosModel.Hsm.BufLemmas
/-!
# The init drill-down of `dispatch` against `settleC`

`climb_spec`: the climb from an init target `tgt` to the state `t` taking the initial transition
ends (`done m`) exactly when `t = tgt.drop (m+1)`, with the ancestors of `tgt` stored in the buffer;
otherwise it reaches `top`.  `drill_spec`: with the drill guard on, and `max_index + 1 = len(tpath)`
on entry, `drill` does what `settleC` says, and raises where `settleC` is `none`.
-/
namespace Miros.Hsm

theorem callInit_none {c : Chart} {t : St} (ht : t ≠ []) (hi : c.init t = none) (k : Ctx) :
    callInit c t k = (false, { k with log := k.log ++ [⟨t, .init⟩] }) := by
  cases t with
  | nil => exact absurd rfl ht
  | cons a p => simp [callInit, hi]

theorem callInit_some {c : Chart} {t tgt : St} (ht : t ≠ []) (hi : c.init t = some tgt) (k : Ctx) :
    callInit c t k = (true, { temp := tgt, log := k.log ++ [⟨t, .init⟩] }) := by
  cases t with
  | nil => exact absurd rfl ht
  | cons a p => simp [callInit, hi]

theorem climb_spec (c : Chart) (hf : ∀ s, c.fall s = false) (tgt t : St) :
    ∀ (x : St) (tp : List St) (mx ip : Nat) (k : Ctx),
    x = tgt.drop (ip + 1) → ip + 1 ≤ tgt.length → Buf tp tgt (ip + 1) → mx + 1 = tp.length → ip ≤ mx →
    (∃ m tp' mx' k', climb c t x tp mx ip k = .done m tp' mx' k' ∧ m + 1 ≤ tgt.length ∧
        tgt.drop (m + 1) = t ∧ Buf tp' tgt (m + 1) ∧ mx' + 1 = tp'.length ∧
        actions k'.log = actions k.log) ∨
    (∃ k', climb c t x tp mx ip k = .top k' ∧ ∀ i, ip < i → i ≤ tgt.length → tgt.drop i ≠ t) := by
  intro x
  induction x with
  | nil =>
    intro tp mx ip k hx hl hb hmx hip
    have hlen : ip + 1 = tgt.length := by
      have := List.drop_eq_nil_iff.mp hx.symm; omega
    rw [climb]
    by_cases e : [] = t
    · rw [if_pos e]
      exact Or.inl ⟨ip, tp, mx, k, rfl, hl, by rw [← hx]; exact e, hb, hmx, rfl⟩
    · rw [if_neg e]
      refine Or.inr ⟨k, rfl, ?_⟩
      intro i h1 h2
      have : i = ip + 1 := by omega
      subst this; rw [← hx]; exact e
  | cons a p ih =>
    intro tp mx ip k hx hl hb hmx hip
    rw [climb]
    by_cases e : a :: p = t
    · rw [if_pos e]
      exact Or.inl ⟨ip, tp, mx, k, rfl, hl, by rw [← hx]; exact e, hb, hmx, rfl⟩
    · rw [if_neg e]
      obtain ⟨tp1, mx1, hs, hmx1, _, hip1, hr, hrest⟩ :=
        store_ok (tp := tp) (mx := mx) (ip := ip + 1) (a :: p) hmx (by omega)
      have hb1 : Buf tp1 tgt (ip + 1 + 1) := hb.store hr hrest hx
      have hlt := drop_cons_lt hx.symm
      simp only [hs, hf, Bool.false_eq_true, if_false]
      rcases ih tp1 mx1 (ip + 1) (probe (a :: p) k) (drop_cons_tail hx.symm).symm (by omega) hb1 hmx1 hip1
        with ⟨m, tp', mx', k', h1, h2, h3, h4, h5, h6⟩ | ⟨k', h1, h2⟩
      · exact Or.inl ⟨m, tp', mx', k', h1, h2, h3, h4, h5, by rw [h6]; simp⟩
      · refine Or.inr ⟨k', h1, ?_⟩
        intro i hi1 hi2
        by_cases hi : i = ip + 1
        · subst hi; rw [← hx]; exact e
        · exact h2 i (by omega) hi2


theorem proper_suffix_drop {t tgt : St} (h : t <:+ tgt) (hne : t ≠ tgt) :
    ∃ m, 1 ≤ m ∧ m ≤ tgt.length ∧ tgt.drop m = t := by
  obtain ⟨i, hi, e⟩ := suffix_iff_drop.mp h
  refine ⟨i, ?_, hi, e⟩
  cases i with
  | zero => exact absurd e.symm (by simpa using hne)
  | succ i => omega

theorem settleC_good_some {c : Chart} {fuel : Nat} {t tgt : St} (hi : c.init t = some tgt)
    (h1 : t <:+ tgt) (h2 : t ≠ tgt) {l : Log} {r : St} (hs : settleC c fuel tgt = some (l, r)) :
    settleC c (fuel + 1) t =
      some (⟨t, .init⟩ :: ((pathUp t tgt).reverse.map (⟨·, .entry⟩)) ++ l, r) := by
  have hb : (encloses t tgt && t != tgt) = true := by simp [encloses_iff.mpr h1, h2]
  rw [settleC]; simp only [hi, hb, if_true, hs]

theorem settleC_good_none {c : Chart} {fuel : Nat} {t tgt : St} (hi : c.init t = some tgt)
    (hs : settleC c fuel tgt = none) : settleC c (fuel + 1) t = none := by
  rw [settleC]; simp only [hi, hs]; split <;> rfl

theorem settleC_bad_init {c : Chart} {fuel : Nat} {t tgt : St} (hi : c.init t = some tgt)
    (h : ¬ (t <:+ tgt ∧ t ≠ tgt)) : settleC c (fuel + 1) t = none := by
  have : (encloses t tgt && t != tgt) = false := by
    cases e : (encloses t tgt && t != tgt)
    · rfl
    · simp only [Bool.and_eq_true, bne_iff_ne] at e
      exact absurd ⟨encloses_iff.mp e.1, e.2⟩ h
  simp [settleC, hi, this]

theorem drill_spec (c : Chart) (hf : ∀ s, c.fall s = false) (g : Cfg) (hg : g.drillGuard = true)
    (hdepth : ∀ s t, c.init s = some t → t.length ≤ c.depth) :
    ∀ (fuel : Nat) (t : St) (tp : List St) (mx : Nat) (k : Ctx),
      t ≠ [] → mx + 1 = tp.length → c.depth + 1 ≤ fuel + t.length → 1 ≤ fuel →
      (∀ l r, settleC c fuel t = some (l, r) →
          ∃ k', drill c g fuel t tp mx k = .ok (r, k') ∧ actions k'.log = actions k.log ++ l) ∧
      (settleC c fuel t = none → ∃ l, drill c g fuel t tp mx k = .raise l) := by
  intro fuel
  induction fuel with
  | zero => intro t tp mx k _ _ _ h; omega
  | succ fuel ih =>
    intro t tp mx k ht hmx hfuel _
    cases hi : c.init t with
    | none =>
      have hs : settleC c (fuel + 1) t = some ([⟨t, .init⟩], t) := by simp [settleC, hi]
      rw [hs]
      refine ⟨?_, by simp⟩
      intro l r e
      simp only [Option.some.injEq, Prod.mk.injEq] at e
      obtain ⟨rfl, rfl⟩ := e
      refine ⟨{ k with log := k.log ++ [⟨t, .init⟩] }, ?_, by simp⟩
      rw [drill, callInit_none ht hi]; rfl
    | some tgt =>
      have hlen := hdepth t tgt hi
      rw [drill, callInit_some ht hi]
      simp only [Bool.not_true, Bool.false_eq_true, if_false, hg, Bool.true_and, decide_eq_true_eq,
        probeAny_eq_probe hf, noSuper_eq_false hf, Bool.and_false]
      by_cases good : t <:+ tgt ∧ t ≠ tgt
      · obtain ⟨h1, h2⟩ := good
        obtain ⟨m, hm1, hm2, hm3⟩ := proper_suffix_drop h1 h2
        rw [if_neg (Ne.symm h2)]
        have htgt : tgt ≠ [] := by intro e; subst e; simp at hm2; omega
        have htl : t.length + 1 ≤ tgt.length := by
          have := congrArg List.length hm3; simp at this; omega
        have hb0 : Buf (tp.set 0 tgt) tgt (0 + 1) := by
          intro i hi
          have : i = 0 := by omega
          subst this; rw [rd_set_zero tgt (by omega)]; rfl
        have hx : (probe tgt { temp := tgt, log := k.log ++ [⟨t, .init⟩] }).temp = tgt.drop (0 + 1) := by
          rw [probe_temp _ _ htgt]; simp
        rcases climb_spec c hf tgt t _ (tp.set 0 tgt) mx 0 (probe tgt { temp := tgt, log := k.log ++ [⟨t, .init⟩] })
          hx (by omega) hb0 (by simpa using hmx) (by omega)
          with ⟨m', tp2, mx2, k3, hc, c1, c2, c3, c4, c5⟩ | ⟨k3, hc, c1⟩
        · simp only [hc]
          have hpath : (pathUp t tgt).reverse = downs tgt (m' + 1) := by
            rw [← c2]; exact pathUp_reverse_drop tgt (m' + 1) c1
          obtain ⟨ih1, ih2⟩ := ih tgt tp2 mx2 (enterDown tp2 m' { temp := tgt, log := k3.log }) htgt c4
            (by omega) (by omega)
          have hlog : actions (enterDown tp2 m' { temp := tgt, log := k3.log }).log =
              actions k.log ++ [⟨t, .init⟩] ++ (pathUp t tgt).reverse.map (⟨·, Sig.entry⟩) := by
            rw [enterDown_spec m' _ c3 c1, hpath]; simp [c5]
          constructor
          · intro l r e
            cases hs : settleC c fuel tgt with
            | none => rw [settleC_good_none hi hs] at e; cases e
            | some lr =>
              obtain ⟨l', r'⟩ := lr
              rw [settleC_good_some hi h1 h2 hs] at e
              simp only [Option.some.injEq, Prod.mk.injEq] at e
              obtain ⟨rfl, rfl⟩ := e
              obtain ⟨k', e1, e2⟩ := ih1 l' r' hs
              exact ⟨k', e1, by rw [e2, hlog]; simp⟩
          · intro e
            cases hs : settleC c fuel tgt with
            | none => exact ih2 hs
            | some lr =>
              obtain ⟨l', r'⟩ := lr
              rw [settleC_good_some hi h1 h2 hs] at e; cases e
        · exact absurd hm3 (c1 m (by omega) hm2)
      · rw [settleC_bad_init hi good]
        refine ⟨(by intro l r e; cases e), fun _ => ?_⟩
        by_cases e : tgt = t
        · rw [if_pos e]; exact ⟨_, rfl⟩
        · rw [if_neg e]
          have hns : ¬ t <:+ tgt := fun h => good ⟨h, Ne.symm e⟩
          cases tgt with
          | nil =>
            simp only [probe]
            rw [climb, if_neg (Ne.symm ht)]
            exact ⟨_, rfl⟩
          | cons b q =>
            have hb0 : Buf (tp.set 0 (b :: q)) (b :: q) (0 + 1) := by
              intro i hi
              have : i = 0 := by omega
              subst this; rw [rd_set_zero _ (by omega)]; rfl
            rcases climb_spec c hf (b :: q) t q (tp.set 0 (b :: q)) mx 0
              (probe (b :: q) { temp := b :: q, log := k.log ++ [⟨t, .init⟩] })
              (by simp) (by simp) hb0 (by simpa using hmx) (by omega)
              with ⟨m', tp2, mx2, k3, hc, c1, c2, c3, c4, c5⟩ | ⟨k3, hc, c1⟩
            · exact absurd (suffix_iff_drop.mpr ⟨m' + 1, c1, c2⟩) hns
            · simp only [probe_temp_cons, hc]; exact ⟨_, rfl⟩
end Miros.Hsm
