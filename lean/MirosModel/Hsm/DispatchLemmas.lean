import MirosModel.Hsm.TransLemmas
import MirosModel.Hsm.StartLemmas
import MirosModel.Hsm.SpecLemmas
/-!
# `dispatch` and `start_at` against the checked UML spec, for any chart

`dispatch_checked` / `start_checked` are stated for an arbitrary `Cfg` with the relevant switches
assumed on; the `Props` files instantiate them with the generated `Miros.Gen.cfg`.
-/
namespace Miros.Hsm

/-- the outward search of `dispatch` against the checked `offersC` -/
theorem searchLoop_specC (c : Chart) (hf : ∀ s, c.fall s = false) (n : Nat) : ∀ (cur : St) (k : Ctx),
    (offersC c n cur = none → ∃ k', searchLoop c n cur k = (.bad, k')) ∧
    (∀ l a, offersC c n cur = some (l, a) →
      ∃ f k', searchLoop c n cur k = (f, k') ∧ actions k'.log = actions k.log ++ l ∧
        (a = .ignored → f = .ignored) ∧ (∀ s, a = .handled s → f = .handled) ∧
        (∀ S T, a = .tran S T → f = .tran S ∧ k'.temp = T ∧ S ≠ [] ∧ S <:+ cur ∧
            c.react S n = .tran T)) := by
  intro cur
  induction cur with
  | nil =>
    intro k
    refine ⟨by simp [offersC], ?_⟩
    intro l a e
    simp only [offersC, Option.some.injEq, Prod.mk.injEq] at e
    obtain ⟨rfl, rfl⟩ := e
    exact ⟨.ignored, k, rfl, (by simp), fun _ => rfl, (by intro s h; cases h),
      (by intro S T h; cases h)⟩
  | cons a p ih =>
    intro k
    cases hr : c.react (a :: p) n with
    | tran t =>
      refine ⟨by simp [offersC, hr], ?_⟩
      intro l an e
      simp only [offersC, hr, Option.some.injEq, Prod.mk.injEq] at e
      obtain ⟨rfl, rfl⟩ := e
      refine ⟨.tran (a :: p), { temp := t, log := k.log ++ [⟨a :: p, .user n⟩] },
        (by simp only [searchLoop, hr]), (by simp), (by intro h; cases h),
        (by intro s h; cases h), ?_⟩
      intro S T h
      cases h
      exact ⟨rfl, rfl, by simp, List.suffix_refl _, hr⟩
    | handled =>
      refine ⟨by simp [offersC, hr], ?_⟩
      intro l an e
      simp only [offersC, hr, Option.some.injEq, Prod.mk.injEq] at e
      obtain ⟨rfl, rfl⟩ := e
      exact ⟨.handled, { k with log := k.log ++ [⟨a :: p, .user n⟩] },
        (by simp only [searchLoop, hr]), (by simp), (by intro h; cases h),
        fun _ _ => rfl, (by intro S T h; cases h)⟩
    | none =>
      refine ⟨fun _ => ⟨{ k with log := k.log ++ [⟨a :: p, .user n⟩] }, by simp only [searchLoop, hr]⟩, ?_⟩
      intro l an e
      simp [offersC, hr] at e
    | unhandled =>
      obtain ⟨ih1, ih2⟩ := ih { temp := p, log := k.log ++ [⟨a :: p, .user n⟩] ++ [⟨a :: p, .empty⟩] }
      constructor
      · intro e
        cases ho : offersC c n p with
        | none =>
          obtain ⟨k', hk⟩ := ih1 ho
          exact ⟨k', (by simp only [searchLoop, hr, hf, Bool.false_eq_true, if_false]; exact hk)⟩
        | some la => simp [offersC, hr, ho] at e
      · intro l an e
        cases ho : offersC c n p with
        | none => simp [offersC, hr, ho] at e
        | some la =>
          obtain ⟨l', a'⟩ := la
          simp only [offersC, hr, ho, Option.some.injEq, Prod.mk.injEq] at e
          obtain ⟨rfl, rfl⟩ := e
          obtain ⟨f, k', hk, h1, h2, h3, h4⟩ := ih2 l' a' ho
          refine ⟨f, k', (by simp only [searchLoop, hr, hf, Bool.false_eq_true, if_false]; exact hk), (by rw [h1]; simp), h2, h3, ?_⟩
          · intro S T h
            obtain ⟨g1, g2, g3, g4, g5⟩ := h4 S T h
            exact ⟨g1, g2, g3, g4.trans (List.suffix_cons a p), g5⟩
    | pass =>
      obtain ⟨ih1, ih2⟩ := ih { temp := p, log := k.log ++ [⟨a :: p, .user n⟩] }
      constructor
      · intro e
        cases ho : offersC c n p with
        | none =>
          obtain ⟨k', hk⟩ := ih1 ho
          exact ⟨k', (by simp only [searchLoop, hr, hf, Bool.false_eq_true, if_false]; exact hk)⟩
        | some la => simp [offersC, hr, ho] at e
      · intro l an e
        cases ho : offersC c n p with
        | none => simp [offersC, hr, ho] at e
        | some la =>
          obtain ⟨l', a'⟩ := la
          simp only [offersC, hr, ho, Option.some.injEq, Prod.mk.injEq] at e
          obtain ⟨rfl, rfl⟩ := e
          obtain ⟨f, k', hk, h1, h2, h3, h4⟩ := ih2 l' a' ho
          refine ⟨f, k', (by simp only [searchLoop, hr, hf, Bool.false_eq_true, if_false]; exact hk), (by rw [h1]; simp), h2, h3, ?_⟩
          · intro S T h
            obtain ⟨g1, g2, g3, g4, g5⟩ := h4 S T h
            exact ⟨g1, g2, g3, g4.trans (List.suffix_cons a p), g5⟩


theorem enter_after_trans {tp : List St} {T : St} (m : Nat) (k : Ctx) (hb : Buf tp T m)
    (hm : m ≤ T.length) :
    (if ((m : Int) - 1) < 0 then k else enterDown tp ((m : Int) - 1).toNat k) =
      { k with log := k.log ++ (downs T m).map (⟨·, Sig.entry⟩) } := by
  cases m with
  | zero => simp [downs]
  | succ m =>
    have h1 : ¬ (((m + 1 : Nat) : Int) - 1 < 0) := by omega
    have h2 : (((m + 1 : Nat) : Int) - 1).toNat = m := by omega
    rw [if_neg h1, h2, enterDown_spec m k hb hm]

theorem boundary_suffix_left (S T : St) : boundary S T <:+ S := by
  unfold boundary
  split
  · exact List.tail_suffix S
  · exact lca_suffix_left S T

/-- **dispatch, checked**: for the switches `resync` and `drillGuard` on -/
theorem dispatch_checked (c : Chart) (hf : ∀ s, c.fall s = false) (g : Cfg) (hr : g.resync = true)
    (hd : g.drillGuard = true)
    (hdepth : ∀ s t, c.init s = some t → t.length ≤ c.depth)
    (htop : ∀ s n t, c.react s n = .tran t → t ≠ [])
    (cur : St) (n : Nat) :
    match specDispatchC c cur n with
    | some sr => ∃ r, dispatch c g cur n = .ok r ∧ actions r.log = sr.log ∧
                      r.state = sr.state ∧ r.temp = sr.state
    | none => ∃ l, dispatch c g cur n = .raise l := by
  obtain ⟨hs1, hs2⟩ := searchLoop_specC c hf n cur { temp := cur, log := [] }
  cases ho : offersC c n cur with
  | none =>
    obtain ⟨k', hk⟩ := hs1 ho
    simp only [specDispatchC, ho]
    exact ⟨k'.log, by simp only [dispatch, hk]⟩
  | some la =>
    obtain ⟨l, a⟩ := la
    obtain ⟨f, k, hk, hl, h1, h2, h3⟩ := hs2 l a ho
    simp only [actions_nil, List.nil_append] at hl
    cases a with
    | ignored =>
      have := h1 rfl; subst this
      simp only [specDispatchC, ho]
      exact ⟨⟨cur, cur, k.log⟩, by simp only [dispatch, hk], hl, rfl, rfl⟩
    | handled s =>
      have := h2 s rfl; subst this
      simp only [specDispatchC, ho]
      exact ⟨⟨cur, cur, k.log⟩, by simp only [dispatch, hk], hl, rfl, rfl⟩
    | tran S T =>
      obtain ⟨rfl, hT, hS, hsuf, hreact⟩ := h3 S T rfl
      have hTne : T ≠ [] := htop S n T hreact
      obtain ⟨pre, rfl⟩ := hsuf
      obtain ⟨k1, he, hl1⟩ := exitWalk_spec c hf S pre k
      obtain ⟨o, ht, hmx, m, hm, hip, hdrop, hbuf, hl2⟩ := trans_spec c hf T S (pre ++ S) k1 hTne hS
      obtain ⟨ip, tp, mx, k2⟩ := o
      simp only at hmx hip hdrop hbuf hl2
      subst hip
      have hk3 := enter_after_trans m k2 hbuf hm
      have hpath : (pathUp (boundary S T) T).reverse = downs T m := by
        rw [← hdrop]; exact pathUp_reverse_drop T m hm
      have hex : pathUp (boundary S T) (pre ++ S) =
          pathUp S (pre ++ S) ++ pathUp (boundary S T) S := pathUp_append (boundary_suffix_left S T) pre
      obtain ⟨d1, d2⟩ := drill_spec c hf g hd hdepth (c.depth + 1) T tp (tp.length - 1)
        { temp := T, log := k2.log ++ (downs T m).map (⟨·, Sig.entry⟩) } hTne (by omega) (by omega) (by omega)
      have hdisp : dispatch c g (pre ++ S) n =
          match drill c g (c.depth + 1) T tp (tp.length - 1)
              { temp := T, log := k2.log ++ (downs T m).map (⟨·, Sig.entry⟩) } with
          | .raise l => .raise l
          | .diverge l => .diverge l
          | .ok (t, k4) => .ok ⟨t, t, k4.log⟩ := by
        simp only [dispatch, hk, hT, he, ht, hk3, hr, if_true]
        rfl
      rw [hdisp]
      simp only [specDispatchC, ho]
      cases hs : settleC c (c.depth + 1) T with
      | none =>
        obtain ⟨l', e⟩ := d2 hs
        simp only [e]; exact ⟨l', rfl⟩
      | some ilr =>
        obtain ⟨il, r⟩ := ilr
        obtain ⟨k4, e, hl4⟩ := d1 il r hs
        simp only [e]
        refine ⟨_, rfl, ?_, rfl, rfl⟩
        simp only [hl4, actions_append, actions_map_entry, hl2, hl1, hl, hex, hpath, List.map_append,
          List.append_assoc]

/-- **start_at, checked**: for the switch `initGuard` on.  The side condition `hd` is needed:
with `c.depth = 0` and `c.init s = some []` the fuel `c.depth + 1` is exhausted (see report). -/
theorem start_checked (c : Chart) (hf : ∀ s, c.fall s = false) (g : Cfg) (hg : g.initGuard = true)
    (hdepth : ∀ s t, c.init s = some t → t.length ≤ c.depth)
    (s : St) (hs : s ≠ []) (hd : 0 < c.depth ∨ c.init s = none) :
    match specStartC c s with
    | some sr => ∃ r, startAt c g s = .ok r ∧ actions r.log = sr.log ∧
                      r.state = sr.state ∧ r.temp = sr.state ∧ ∀ x ∈ r.log, x.sig ≠ .exit
    | none => ∃ l, startAt c g s = .raise l := by
  obtain ⟨i1, i2⟩ := initLoop_spec c hf g hg hdepth (c.depth + 1) [] [[]] 0 { temp := s, log := [] }
    (by simp) (by omega)
    (by
      rcases hd with h | h
      · exact Or.inr ⟨by simp only; have := List.length_pos_iff.mpr hs; omega, by omega⟩
      · exact Or.inl h)
    List.nil_suffix (by simpa using hs.symm)
  simp only at i1 i2
  unfold specStartC startAt
  cases hsc : settleC c (c.depth + 1) s with
  | none =>
    obtain ⟨l, e⟩ := i2 hsc
    simp only [e]; exact ⟨l, rfl⟩
  | some ilr =>
    obtain ⟨il, r⟩ := ilr
    obtain ⟨k', e, hl, hn⟩ := i1 il r hsc
    simp only [e]
    refine ⟨_, rfl, ?_, rfl, rfl, ?_⟩
    · simpa using hl
    · exact hn (by intro x hx; cases hx)
end Miros.Hsm
