import MirosModel.Hsm.Lemmas
/-!
# Paths, suffixes, `pathUp`, `lca` : buffer-free facts used by the `trans_` / `drill` / `init` proofs

The ancestors of `T` are the `T.drop i`; `downs T m = [T.drop (m-1), …, T.drop 0]` is the entry
order from just below `T.drop m` down to `T`.
-/
namespace Miros.Hsm

/-- `T.drop (m-1), …, T.drop 0` -/
def downs (T : St) : Nat → List St
  | 0 => []
  | m + 1 => T.drop m :: downs T m

theorem drop_cons_tail {T : St} {i a p} (h : T.drop i = a :: p) : T.drop (i + 1) = p := by
  rw [← List.tail_drop, h]; rfl

theorem drop_cons_lt {T : St} {i a p} (h : T.drop i = a :: p) : i < T.length := by
  have := congrArg List.length h
  simp at this; omega

theorem drop_nil_of_le {T : St} {i m} (h : T.drop i = []) (hm : i ≤ m) : T.drop m = [] := by
  rw [List.drop_eq_nil_iff] at *; omega

theorem drop_ne_self {T : St} {m} (hm : 1 ≤ m) (hT : T ≠ []) : T.drop m ≠ T := by
  intro h
  have := congrArg List.length h
  have : 0 < T.length := List.length_pos_iff.mpr hT
  simp at *; omega

theorem drop_inj {T : St} {i j} (hi : i ≤ T.length) (hj : j ≤ T.length)
    (h : T.drop i = T.drop j) : i = j := by
  have := congrArg List.length h
  simp at this; omega

theorem suffix_iff_drop {X T : St} : X <:+ T ↔ ∃ i, i ≤ T.length ∧ T.drop i = X := by
  constructor
  · intro h
    refine ⟨T.length - X.length, by omega, ?_⟩
    exact (List.suffix_iff_eq_drop.mp h).symm
  · rintro ⟨i, _, rfl⟩; exact List.drop_suffix i T

theorem encloses_iff {X S : St} : encloses X S = true ↔ X <:+ S := by
  simp [encloses]

theorem cons_not_suffix_self (a : Nat) (p : St) : ¬ (a :: p) <:+ p := by
  intro h; have := h.length_le; simp at this; omega

/-! ### `downs` -/

theorem downs_cons (a : Nat) (p : St) : ∀ m, downs (a :: p) (m + 1) = downs p m ++ [a :: p]
  | 0 => by simp [downs]
  | m + 1 => by
    have ih := downs_cons a p m
    rw [downs, ih]; simp [downs]

theorem mem_downs {T : St} {m : Nat} {x : St} (h : x ∈ downs T m) : ∃ i, i < m ∧ x = T.drop i := by
  induction m with
  | zero => simp [downs] at h
  | succ m ih =>
    simp only [downs, List.mem_cons] at h
    rcases h with h | h
    · exact ⟨m, by omega, h⟩
    · obtain ⟨i, hi, e⟩ := ih h; exact ⟨i, by omega, e⟩

theorem downs_ne_nil {T : St} {m : Nat} (hm : m ≤ T.length) : ∀ x ∈ downs T m, x ≠ [] := by
  intro x hx
  obtain ⟨i, hi, rfl⟩ := mem_downs hx
  intro h; rw [List.drop_eq_nil_iff] at h; omega

/-! ### `pathUp` -/

@[simp] theorem pathUp_nil (L : St) : pathUp L [] = [] := rfl

@[simp] theorem pathUp_self (S : St) : pathUp S S = [] := by
  cases S <;> simp [pathUp]

theorem pathUp_cons_of_ne {L : St} {a : Nat} {p : St} (h : a :: p ≠ L) :
    pathUp L (a :: p) = (a :: p) :: pathUp L p := by
  simp [pathUp, h]

theorem ne_of_suffix_cons {L p : St} (a : Nat) (h : L <:+ p) : a :: p ≠ L := by
  intro e; subst e; exact cons_not_suffix_self a p h

theorem pathUp_reverse_drop : ∀ (T : St) (m : Nat), m ≤ T.length →
    (pathUp (T.drop m) T).reverse = downs T m := by
  intro T
  induction T with
  | nil => intro m hm; simp at hm; subst hm; simp [downs]
  | cons a p ih =>
    intro m hm
    cases m with
    | zero => simp [downs]
    | succ m =>
      simp only [List.length_cons, Nat.add_le_add_iff_right] at hm
      rw [List.drop_succ_cons, pathUp_cons_of_ne (ne_of_suffix_cons a (List.drop_suffix m p)),
        List.reverse_cons, ih m hm, downs_cons]

/-- climbing from `pre ++ S` to `L ⊇ S` passes `S` -/
theorem pathUp_append {L S : St} (h : L <:+ S) : ∀ pre : St,
    pathUp L (pre ++ S) = pathUp S (pre ++ S) ++ pathUp L S := by
  intro pre
  induction pre with
  | nil => simp
  | cons a pre ih =>
    have hS : S <:+ pre ++ S := List.suffix_append pre S
    have h1 : a :: (pre ++ S) ≠ S := ne_of_suffix_cons a hS
    have h2 : a :: (pre ++ S) ≠ L := ne_of_suffix_cons a (h.trans hS)
    simp only [List.cons_append]
    rw [pathUp_cons_of_ne h1, pathUp_cons_of_ne h2, ih]; simp

theorem pathUp_tail_self {a : Nat} {p : St} : pathUp p (a :: p) = [a :: p] := by
  rw [pathUp_cons_of_ne (ne_of_suffix_cons a (List.suffix_refl p))]; simp

/-! ### `lca` -/

theorem lca_suffix_left : ∀ S T : St, lca S T <:+ S := by
  intro S T
  induction S with
  | nil => simp [lca]
  | cons a p ih =>
    simp only [lca]
    split
    · exact List.suffix_refl _
    · exact ih.trans (List.suffix_cons a p)

theorem lca_of_suffix {X T : St} (h : X <:+ T) : lca X T = X := by
  cases X with
  | nil => simp [lca]
  | cons a p => simp [lca, encloses_iff.mpr h]

theorem lca_of_not_suffix {a : Nat} {p T : St} (h : ¬ (a :: p) <:+ T) :
    lca (a :: p) T = lca p T := by
  have : encloses (a :: p) T = false := by
    cases e : encloses (a :: p) T
    · rfl
    · exact absurd (encloses_iff.mp e) h
  simp [lca, this]

theorem lca_suffix_right : ∀ S T : St, lca S T <:+ T := by
  intro S T
  induction S with
  | nil => simp [lca]
  | cons a p ih =>
    by_cases h : (a :: p) <:+ T
    · rw [lca_of_suffix h]; exact h
    · rw [lca_of_not_suffix h]; exact ih

/-! ### action logs of entry / exit lists -/

@[simp] theorem actions_map_entry (l : List St) :
    actions (l.map (⟨·, Sig.entry⟩)) = l.map (⟨·, Sig.entry⟩) := by
  induction l with
  | nil => rfl
  | cons a l ih => simp [ih]

@[simp] theorem actions_map_exit (l : List St) :
    actions (l.map (⟨·, Sig.exit⟩)) = l.map (⟨·, Sig.exit⟩) := by
  induction l with
  | nil => rfl
  | cons a l ih => simp [ih]

end Miros.Hsm
