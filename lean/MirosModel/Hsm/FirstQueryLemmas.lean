import MirosModel.Hsm.FallLemmas
/-!
# `superGuard`: the parent queries of `init()` and of the init drill-down raise at the first `None`

`FallQ c x` : the call `x` is a parent query (`SEARCH_FOR_SUPER_SIGNAL`) put to a fall-through state.
With `superGuard` on, the log of `start_at` and of the drill-down of `dispatch` contains at most one
such call; if it contains one, it is the last call of the log and the outcome is `.raise`
(`Outcome.FirstQ`).  The other loops of `dispatch` (exit walk, `trans_`) always behaved like this,
so the statement holds for the whole of `dispatch` (`dispatch_firstQ`).
-/
namespace Miros.Hsm

/-- the call is a parent query put to a fall-through state (which answers `None`) -/
def FallQ (c : Chart) (x : Call) : Prop := x.sig = .search ∧ noSuper c x.s = true

/-- no parent query was put to a fall-through state -/
def NoFQ (c : Chart) (l : Log) : Prop := ∀ x ∈ l, ¬ FallQ c x

/-- the log ends with a parent query put to a fall-through state, and it is the only one -/
def EndsFQ (c : Chart) (l : Log) : Prop :=
  ∃ l0 x, l = l0 ++ [⟨x, .search⟩] ∧ noSuper c x = true ∧ NoFQ c l0

/-- an outcome whose log (`lg` for `.ok`) contains no unanswered parent query, or is a `.raise`
whose log ends with the first one -/
def Outcome.FirstQ (c : Chart) {α : Type} (lg : α → Log) : Outcome α → Prop
  | .ok a => NoFQ c (lg a)
  | .diverge l => NoFQ c l
  | .raise l => NoFQ c l ∨ EndsFQ c l

theorem noFQ_nil (c : Chart) : NoFQ c [] := by intro x hx; cases hx

theorem NoFQ.snoc {c : Chart} {l : Log} (h : NoFQ c l) {y : Call} (hy : ¬ FallQ c y) : NoFQ c (l ++ [y]) := by
  intro x hx
  rcases List.mem_append.mp hx with h1 | h1
  · exact h x h1
  · rw [List.mem_singleton] at h1; subst h1; exact hy

theorem NoFQ.append {c : Chart} {l m : Log} (h : NoFQ c l) (hm : NoFQ c m) : NoFQ c (l ++ m) := by
  intro x hx
  rcases List.mem_append.mp hx with h1 | h1
  · exact h x h1
  · exact hm x h1

theorem NoFQ.probe {c : Chart} {k : Ctx} (h : NoFQ c k.log) {x : St} (hx : noSuper c x = false) :
    NoFQ c (probe x k).log := by
  cases x with
  | nil => exact h
  | cons a p =>
    exact h.snoc (fun hq => by rw [hq.2] at hx; cases hx)

theorem NoFQ.probeNone {c : Chart} {k : Ctx} (h : NoFQ c k.log) {x : St} (hx : noSuper c x = true) :
    EndsFQ c (probeNone x k).log := ⟨k.log, x, rfl, hx, h⟩

theorem NoFQ.callEntry {c : Chart} {k : Ctx} (h : NoFQ c k.log) (x : St) : NoFQ c (callEntry x k).log := by
  cases x with
  | nil => exact h
  | cons a p => exact h.snoc (fun hq => by cases hq.1)

theorem NoFQ.callInit {c : Chart} {k : Ctx} (h : NoFQ c k.log) (x : St) : NoFQ c (callInit c x k).2.log := by
  cases x with
  | nil => exact h
  | cons a p =>
    unfold Miros.Hsm.callInit
    cases c.init (a :: p) with
    | none => exact h.snoc (fun hq => by cases hq.1)
    | some t => exact h.snoc (fun hq => by cases hq.1)

theorem NoFQ.callExit {c : Chart} {k : Ctx} (h : NoFQ c k.log) (x : St) : NoFQ c (callExit c x k).2.log := by
  cases x with
  | nil => exact h
  | cons a p =>
    have hy : ¬ FallQ c ⟨a :: p, .exit⟩ := fun hq => by cases hq.1
    simp only [Miros.Hsm.callExit]
    split
    · exact h.snoc hy
    · split <;> exact h.snoc hy

theorem NoFQ.enterDown {c : Chart} (tp : List St) : ∀ (ip : Nat) {k : Ctx}, NoFQ c k.log →
    NoFQ c (enterDown tp ip k).log := by
  intro ip
  induction ip with
  | zero => intro k h; exact h.callEntry _
  | succ ip ih => intro k h; rw [Miros.Hsm.enterDown]; exact ih (h.callEntry _)

theorem NoFQ.enterInit {c : Chart} (tp : List St) : ∀ (idx : Nat) {k : Ctx}, NoFQ c k.log →
    NoFQ c (enterInit tp idx k).log := by
  intro idx
  induction idx with
  | zero => intro k h; exact h
  | succ idx ih => intro k h; rw [Miros.Hsm.enterInit]; exact ih (h.callEntry _)

/-! ### `init()` -/

def ClimbI.FirstQ (c : Chart) : ClimbI → Prop
  | .done _ _ _ k => NoFQ c k.log
  | .fail k => NoFQ c k.log ∨ EndsFQ c k.log

theorem climbInit_firstQ (c : Chart) (g : Cfg) (hs : g.superGuard = true) (outer : St) :
    ∀ (x : St) (tp : List St) (mx idx : Nat) (k : Ctx), NoFQ c k.log →
    (climbInit c g outer x tp mx idx k).FirstQ c := by
  intro x
  induction x with
  | nil =>
    intro tp mx idx k hk
    rw [climbInit]
    split
    · exact hk
    · exact Or.inl hk
  | cons a p ih =>
    intro tp mx idx k hk
    rw [climbInit]
    by_cases ho : a :: p = outer
    · simp only [ho, if_true]; exact hk
    · simp only [ho, if_false]
      cases hfa : c.fall (a :: p) with
      | true =>
        simp only [hs, if_true]
        exact Or.inr (hk.probeNone (x := a :: p) hfa)
      | false =>
        simp only [Bool.false_eq_true, if_false]
        cases store tp mx (idx + 1) p with
        | none => exact Or.inl hk
        | some r => exact ih r.1 r.2 (idx + 1) _ (hk.probe (x := a :: p) hfa)

theorem initLoop_firstQ (c : Chart) (g : Cfg) (hs : g.superGuard = true) :
    ∀ (fuel : Nat) (outer : St) (tp : List St) (mx : Nat) (k : Ctx), NoFQ c k.log →
    (initLoop c g fuel outer tp mx k).FirstQ c (fun r => r.2.log) := by
  intro fuel
  induction fuel with
  | zero => intro outer tp mx k hk; exact hk
  | succ fuel ih =>
    intro outer tp mx k hk
    rw [initLoop_succ]
    split
    · split
      · exact Or.inl hk
      · exact hk
    · have h := climbInit_firstQ c g hs outer k.temp (tp.set 0 k.temp) mx 0 k hk
      cases hc : climbInit c g outer k.temp (tp.set 0 k.temp) mx 0 k with
      | fail k1 => rw [hc] at h; exact h
      | done idx tp1 mx1 k1 =>
        rw [hc] at h
        have h2 : NoFQ c (callInit c k.temp (enterInit tp1 idx { k1 with temp := k.temp })).2.log :=
          NoFQ.callInit (NoFQ.enterInit tp1 idx (k := { k1 with temp := k.temp }) h) _
        simp only [initStep]
        split
        · exact ih _ _ _ _ h2
        · exact h2

/-- **`start_at`, `superGuard` on**: at most one parent query is put to a fall-through state; it is
the last call and the outcome is `.raise` -/
theorem startAt_firstQ (c : Chart) (g : Cfg) (hs : g.superGuard = true) (s : St) :
    (startAt c g s).FirstQ c (fun r => r.log) := by
  have h := initLoop_firstQ c g hs (c.depth + 1) [] [[]] 0 { temp := s, log := [] } (noFQ_nil c)
  unfold startAt
  cases hi : initLoop c g (c.depth + 1) [] [[]] 0 { temp := s, log := [] } with
  | ok r => rw [hi] at h; exact h
  | raise l => rw [hi] at h; exact h
  | diverge l => rw [hi] at h; exact h

/-! ### the init drill-down of `dispatch` -/

def Climb.FirstQ (c : Chart) : Climb → Prop
  | .done _ _ _ k => NoFQ c k.log
  | .top k => NoFQ c k.log
  | .index k => NoFQ c k.log
  | .none k => EndsFQ c k.log

theorem climb_firstQ (c : Chart) (goal : St) :
    ∀ (x : St) (tp : List St) (mx ip : Nat) (k : Ctx), NoFQ c k.log →
    (climb c goal x tp mx ip k).FirstQ c := by
  intro x
  induction x with
  | nil =>
    intro tp mx ip k hk
    rw [climb]
    split
    · exact hk
    · exact hk
  | cons a p ih =>
    intro tp mx ip k hk
    rw [climb]
    split
    · exact hk
    · cases store tp mx (ip + 1) (a :: p) with
      | none => exact hk
      | some r =>
        cases hfa : c.fall (a :: p) with
        | true => simp only [if_true]; exact hk.probeNone (x := a :: p) hfa
        | false =>
          simp only [Bool.false_eq_true, if_false]
          exact ih r.1 r.2 (ip + 1) _ (hk.probe (x := a :: p) hfa)

theorem drill_firstQ (c : Chart) (g : Cfg) (hs : g.superGuard = true) :
    ∀ (fuel : Nat) (t : St) (tp : List St) (mx : Nat) (k : Ctx), NoFQ c k.log →
    (drill c g fuel t tp mx k).FirstQ c (fun r => r.2.log) := by
  intro fuel
  induction fuel with
  | zero => intro t tp mx k hk; exact hk
  | succ fuel ih =>
    intro t tp mx k hk
    rw [drill_succ]
    have h1 : NoFQ c (callInit c t k).2.log := hk.callInit t
    split
    · unfold drillStep
      generalize (callInit c t k).2 = k1 at h1 ⊢
      split
      · exact Or.inl h1
      · cases hn : noSuper c k1.temp with
        | true =>
          simp only [hs, Bool.true_and, if_true]
          exact Or.inr (h1.probeNone hn)
        | false =>
          simp only [Bool.and_false, Bool.false_eq_true, if_false, probeAny_clear hn]
          have h2 := climb_firstQ c t (probe k1.temp k1).temp (tp.set 0 k1.temp) mx 0 (probe k1.temp k1)
            (h1.probe hn)
          cases hc : climb c t (probe k1.temp k1).temp (tp.set 0 k1.temp) mx 0 (probe k1.temp k1) with
          | top k3 =>
            rw [hc] at h2
            simp only
            split
            · exact Or.inl h2
            · exact h2
          | index k3 => rw [hc] at h2; exact Or.inl h2
          | none k3 =>
            rw [hc] at h2
            simp only [hs, Bool.true_or, if_true]
            exact Or.inr h2
          | done ip tp2 mx2 k3 =>
            rw [hc] at h2
            exact ih _ _ _ _ (NoFQ.enterDown tp2 ip (k := { k3 with temp := k1.temp }) h2)
    · exact h1

/-! ### the other loops of `dispatch` (they never ignored a `None` answer to a parent query) -/

theorem searchLoop_noFQ (c : Chart) (n : Nat) : ∀ (cur : St) (k : Ctx), NoFQ c k.log →
    NoFQ c (searchLoop c n cur k).2.log := by
  intro cur
  induction cur with
  | nil => intro k hk; exact hk
  | cons a p ih =>
    intro k hk
    have hu : ¬ FallQ c ⟨a :: p, .user n⟩ := fun hq => by cases hq.1
    have he : ¬ FallQ c ⟨a :: p, .empty⟩ := fun hq => by cases hq.1
    rw [searchLoop]
    cases c.react (a :: p) n with
    | tran t => exact hk.snoc hu
    | handled => exact hk.snoc hu
    | none => exact hk.snoc hu
    | unhandled =>
      simp only
      split
      · exact (hk.snoc hu).snoc he
      · exact ih _ ((hk.snoc hu).snoc he)
    | pass =>
      simp only
      split
      · exact hk.snoc hu
      · exact ih _ (hk.snoc hu)

theorem NoFQ.exitStep {c : Chart} {k : Ctx} (h : NoFQ c k.log) {t : St} (ht : noSuper c t = false) :
    NoFQ c (exitStep c t k).log := by
  unfold Miros.Hsm.exitStep
  split
  · exact (h.callExit t).probe ht
  · exact h.callExit t

theorem exitNoneLog_firstQ {c : Chart} {k : Ctx} (h : NoFQ c k.log) {t : St} (ht : noSuper c t = true) :
    NoFQ c (exitNoneLog c t k) ∨ EndsFQ c (exitNoneLog c t k) := by
  have hy : ¬ FallQ c ⟨t, .exit⟩ := fun hq => by cases hq.1
  unfold exitNoneLog
  split
  · exact Or.inr ⟨k.log ++ [⟨t, .exit⟩], t, by simp, ht, h.snoc hy⟩
  · exact Or.inl (h.snoc hy)

theorem exitWalk_firstQ (c : Chart) (S : St) : ∀ (t : St) (k : Ctx), NoFQ c k.log →
    (exitWalk c S t k).FirstQ c (fun k => k.log) := by
  intro t
  induction t with
  | nil =>
    intro k hk
    rw [exitWalk]
    split
    · exact hk
    · exact hk
  | cons a p ih =>
    intro k hk
    by_cases hS : a :: p = S
    · rw [exitWalk]; simp only [hS, if_true]; exact hk
    · cases hfa : c.fall (a :: p) with
      | true =>
        rw [exitWalk]; simp only [hS, if_false, hfa, if_true]
        exact exitNoneLog_firstQ hk (t := a :: p) hfa
      | false =>
        rw [exitWalk_cons hS hfa]
        exact ih _ (hk.exitStep (t := a :: p) hfa)

theorem eLoop_firstQ (c : Chart) (S : St) : ∀ (x : St) (tp : List St) (mx ip : Nat) (k : Ctx), NoFQ c k.log →
    (eLoop c S x tp mx ip k).FirstQ c (fun o => o.k.log) := by
  intro x
  induction x with
  | nil =>
    intro tp mx ip k hk
    rw [eLoop]
    cases store tp mx (ip + 1) [] with
    | none => exact Or.inl hk
    | some r =>
      simp only
      split
      · exact hk
      · exact hk
  | cons a p ih =>
    intro tp mx ip k hk
    rw [eLoop]
    cases store tp mx (ip + 1) (a :: p) with
    | none => exact Or.inl hk
    | some r =>
      simp only
      by_cases hS : a :: p = S
      · simp only [hS, if_true]; exact hk
      · simp only [hS, if_false]
        cases hfa : c.fall (a :: p) with
        | true => simp only [if_true]; exact Or.inr (hk.probeNone (x := a :: p) hfa)
        | false =>
          simp only [Bool.false_eq_true, if_false]
          exact ih _ _ _ _ (hk.probe (x := a :: p) hfa)

theorem gLoop_firstQ (c : Chart) (tp : List St) (ip : Nat) : ∀ (t : St) (k : Ctx), NoFQ c k.log →
    (gLoop c tp ip t k).FirstQ c (fun r => r.2.log) := by
  intro t
  induction t with
  | nil => intro k hk; rw [gLoop]; exact hk
  | cons a p ih =>
    intro k hk
    cases hfa : c.fall (a :: p) with
    | true =>
      rw [gLoop]; simp only [hfa, if_true]
      exact exitNoneLog_firstQ hk (t := a :: p) hfa
    | false =>
      rw [gLoop_cons hfa]
      cases scan p tp ip with
      | some iq => exact hk.exitStep (t := a :: p) hfa
      | none => exact ih _ (hk.exitStep (t := a :: p) hfa)



theorem eStart_firstQ (c : Chart) (S t : St) (tp : List St) (mx : Nat) (k3 : Ctx) (hk : NoFQ c k3.log) :
    (eStart c S t tp mx k3).FirstQ c (fun o => o.k.log) := by
  cases t with
  | nil => exact hk
  | cons a p => exact eLoop_firstQ c S _ _ _ _ _ hk

theorem transTail_firstQ (c : Chart) (S sSuper : St) (e : Outcome EOut) (he : e.FirstQ c (fun o => o.k.log)) :
    (transTail c S sSuper e).FirstQ c (fun o => o.k.log) := by
  cases e with
  | raise l => exact he
  | diverge l => exact he
  | ok o =>
    obtain ⟨found, ip, tp2, mx2, k4⟩ := o
    have hk4 : NoFQ c k4.log := he
    cases found with
    | true => exact hk4
    | false =>
      simp only [transTail, Bool.false_eq_true, if_false]
      cases scan sSuper tp2 ip with
      | some iq => exact hk4.callExit S
      | none =>
        have hg := gLoop_firstQ c tp2 ip sSuper _ (hk4.callExit S)
        cases hgl : gLoop c tp2 ip sSuper (callExit c S k4).2 with
        | ok r => rw [hgl] at hg; exact hg
        | raise l => rw [hgl] at hg; exact hg
        | diverge l => rw [hgl] at hg; exact hg

theorem trans_firstQ (c : Chart) (tp0 : List St) (mx : Nat) (T S : St) (k : Ctx) (hk : NoFQ c k.log) :
    (trans_ c tp0 mx T S k).FirstQ c (fun o => o.k.log) := by
  unfold trans_
  split
  · exact hk.callExit _
  · cases hnT : noSuper c T with
    | true => simp only [if_true]; exact Or.inr (hk.probeNone hnT)
    | false =>
      simp only [Bool.false_eq_true, if_false]
      have hk1 := hk.probe hnT
      by_cases h1 : S = (probe T k).temp
      · rw [if_pos h1]; exact hk1
      · rw [if_neg h1]
        cases hnS : noSuper c S with
        | true => simp only [if_true]; exact Or.inr (hk1.probeNone hnS)
        | false =>
          simp only [Bool.false_eq_true, if_false]
          have hk2 := hk1.probe hnS
          split
          · exact hk2.callExit _
          · split
            · exact hk2.callExit _
            · cases hnt : noSuper c (probe T k).temp with
              | true => simp only [if_true]; exact Or.inr (hk2.probeNone hnt)
              | false =>
                simp only [Bool.false_eq_true, if_false]
                have hk3 := hk2.probe hnt
                exact transTail_firstQ c S (probe S (probe T k)).temp _
                  (eStart_firstQ c S (probe T k).temp (tp0.set 1 (probe T k).temp) mx _ hk3)

/-- **`dispatch`, `superGuard` on**: at most one parent query is put to a fall-through state; it is
the last call and the outcome is `.raise` -/
theorem dispatch_firstQ (c : Chart) (g : Cfg) (hs : g.superGuard = true) (cur : St) (n : Nat) :
    (dispatch c g cur n).FirstQ c (fun r => r.log) := by
  have h0 := searchLoop_noFQ c n cur { temp := cur, log := [] } (noFQ_nil c)
  cases hsl : searchLoop c n cur { temp := cur, log := [] } with
  | mk f k =>
    rw [hsl] at h0
    cases f with
    | bad => simp only [dispatch, hsl]; exact Or.inl h0
    | ignored => simp only [dispatch, hsl]; exact h0
    | handled => simp only [dispatch, hsl]; exact h0
    | tran S =>
      rw [dispatch_tran hsl]
      unfold afterSearch
      have h1 := exitWalk_firstQ c S cur k h0
      cases he : exitWalk c S cur k with
      | raise l => rw [he] at h1; exact h1
      | diverge l => rw [he] at h1; exact h1
      | ok k1 =>
        rw [he] at h1
        have h2 := trans_firstQ c [k.temp, cur, S] 2 k.temp S k1 h1
        simp only
        cases ht : trans_ c [k.temp, cur, S] 2 k.temp S k1 with
        | raise l => rw [ht] at h2; exact h2
        | diverge l => rw [ht] at h2; exact h2
        | ok o =>
          rw [ht] at h2
          have h2' : NoFQ c o.k.log := h2
          have h3 : NoFQ c (if o.ip < 0 then o.k else enterDown o.tp o.ip.toNat o.k).log := by
            split
            · exact h2'
            · exact NoFQ.enterDown _ _ h2'
          have h4 := drill_firstQ c g hs (c.depth + 1) k.temp o.tp (if g.resync then o.tp.length - 1 else 2)
            { temp := k.temp, log := (if o.ip < 0 then o.k else enterDown o.tp o.ip.toNat o.k).log } h3
          simp only [afterTrans]
          cases hd : drill c g (c.depth + 1) k.temp o.tp (if g.resync then o.tp.length - 1 else 2)
            { temp := k.temp, log := (if o.ip < 0 then o.k else enterDown o.tp o.ip.toNat o.k).log } with
          | raise l => rw [hd] at h4; exact h4
          | diverge l => rw [hd] at h4; exact h4
          | ok r => rw [hd] at h4; exact h4

/-! ### reading `FirstQ` -/

/-- the calls of an outcome -/
def Outcome.calls {α : Type} (lg : α → Log) : Outcome α → Log
  | .ok a => lg a
  | .diverge l => l
  | .raise l => l

/-- `FirstQ`, said with the query in hand: if the fall-through state `x` was asked for its parent,
the outcome is `.raise`, that query is the last call of the log, and no other parent query of the log
went to a fall-through state -/
theorem Outcome.FirstQ.elim {c : Chart} {α : Type} {lg : α → Log} {o : Outcome α} (h : o.FirstQ c lg)
    {x : St} (hx : noSuper c x = true) (hm : (⟨x, .search⟩ : Call) ∈ o.calls lg) :
    ∃ l0, o = .raise (l0 ++ [⟨x, .search⟩]) ∧ NoFQ c l0 := by
  have hq : FallQ c ⟨x, .search⟩ := ⟨rfl, hx⟩
  cases o with
  | ok a => exact absurd hq (h _ hm)
  | diverge l => exact absurd hq (h _ hm)
  | raise l =>
    rcases h with h | ⟨l0, y, rfl, _, h0⟩
    · exact absurd hq (h _ hm)
    · rcases List.mem_append.mp hm with h1 | h1
      · exact absurd hq (h0 _ h1)
      · rw [List.mem_singleton] at h1
        cases h1
        exact ⟨l0, rfl, h0⟩

end Miros.Hsm
