import MirosModel.Hsm.DrillLemmas
/-!
# The checked spec (`settleC`, `offersC`, `specDispatchC`, `specStartC`) equals the plain spec on
well-formed charts
-/
namespace Miros.Hsm

/-! ### the checked spec equals the plain spec on well-formed charts -/

theorem offersC_of_no_none (c : Chart) (n : Nat) (hn : ∀ s, c.react s n ≠ .none) :
    ∀ cur, offersC c n cur = some (offers c n cur) := by
  intro cur
  induction cur with
  | nil => rfl
  | cons a p ih =>
    cases hr : c.react (a :: p) n with
    | none => exact absurd hr (hn _)
    | tran t => simp [offersC, offers, hr]
    | handled => simp [offersC, offers, hr]
    | unhandled => simp [offersC, offers, hr, ih]
    | pass => simp [offersC, offers, hr, ih]

theorem settleC_of_WF (c : Chart) (hwf : WF c) : ∀ (fuel : Nat) (t : St),
    c.depth + 1 ≤ fuel + t.length → 1 ≤ fuel → settleC c fuel t = some (settle c fuel t) := by
  intro fuel
  induction fuel with
  | zero => intro t _ h; omega
  | succ fuel ih =>
    intro t hf _
    cases hi : c.init t with
    | none => simp [settleC, settle, hi]
    | some tgt =>
      obtain ⟨h1, h2⟩ := hwf.init_desc t tgt hi
      have hlen := hwf.init_depth t tgt hi
      obtain ⟨m, hm1, hm2, hm3⟩ := proper_suffix_drop h1 h2
      have htl : t.length + 1 ≤ tgt.length := by
        have := congrArg List.length hm3; simp at this; omega
      have := ih tgt (by omega) (by omega)
      cases hs : settle c fuel tgt with
      | mk l r =>
        rw [hs] at this
        rw [settleC_good_some hi h1 h2 this]
        simp [settle, hi, hs]

theorem specDispatchC_of_WF (c : Chart) (hwf : WF c) (cur : St) (n : Nat) :
    specDispatchC c cur n = some (specDispatch c cur n) := by
  unfold specDispatchC specDispatch
  rw [offersC_of_no_none c n (fun s => hwf.no_none s n) cur]
  cases ho : offers c n cur with
  | mk l a =>
    cases a with
    | ignored => rfl
    | handled s => rfl
    | tran S T =>
      simp only
      rw [settleC_of_WF c hwf (c.depth + 1) T (by omega) (by omega)]

theorem specStartC_of_WF (c : Chart) (hwf : WF c) (s : St) :
    specStartC c s = some (specStart c s) := by
  unfold specStartC specStart
  rw [settleC_of_WF c hwf (c.depth + 1) s (by omega) (by omega)]

end Miros.Hsm
