/-!
# Layer 1 — faithful model of `miros/hsm.py` `HsmEventProcessor`

`init` (start_at), `dispatch`, `trans_`, `is_in`, `child_state`, loop for loop.
A chart may contain *fall-through* states (`Chart.fall`): handlers written as an `if/elif` ladder
without the final `else: temp = parent; return SUPER`.  Such a handler returns `None` and leaves
`temp` alone for every signal it has no clause for.  Every site of the processor that needs the
status raises; the sites that ignore it go on.  For `fall = false` every definition below is its
previous self (`if c.fall x then … else <old body>`).
The model keeps the implementation's entry-path buffer `tpath` and its
high-water index `max_index` (the `store` function), so that defects of the
buffer handling are defects of the model too.

No imports: this file is also used by `Driver.lean`.
-/
namespace Miros.Hsm

/-- A state is its path, innermost id first; `[]` is `top`; parent = `List.tail`. -/
abbrev St := List Nat

inductive Sig
  | entry | exit | init | search | empty | refl | user (n : Nat)
deriving DecidableEq, Repr

/-- reaction of a state handler to a user signal -/
inductive React
  | tran (t : St)   -- `return chart.trans(t)`
  | handled         -- `return HANDLED`
  | unhandled       -- `return UNHANDLED` (failed guard): processor sends EMPTY_SIGNAL next
  | pass            -- no clause: the `else:` branch (`SUPER`, `temp := parent`);
                    -- a fall-through state has no `else:` and returns `None`
  | none            -- malformed handler: returns `None`
deriving DecidableEq, Repr

structure Chart where
  react : St → Nat → React
  init  : St → Option St      -- `some t`: INIT_SIGNAL answered with `trans(t)`
  exitH : St → Bool           -- EXIT_SIGNAL answered HANDLED (true) / falls to SUPER (false)
  depth : Nat                 -- bound on the depth of the state tree (fuel for init chains)
  fall  : St → Bool           -- the handler has no final `else:` (answers `None` where it has no clause)

/-- source-level switches; the values for the current tree are generated into
`MirosModel.Gen.Constants` by `harness/gen_constants.py` -/
structure Cfg where
  /-- dispatch re-synchronises `max_index` with `len(tpath)-1` after `trans_` -/
  resync     : Bool
  /-- dispatch's init drill-down raises when the climb from the init target revisits `top`
      or the target is the state itself -/
  drillGuard : Bool
  /-- `init()` raises when an init target is the state taking it -/
  initGuard  : Bool
  /-- the parent queries of `init()` and of dispatch's init drill-down check the status: a handler
      that answers `None` (a fall-through state) makes them raise right after that one call -/
  superGuard : Bool
deriving DecidableEq, Repr

structure Call where
  s   : St
  sig : Sig
deriving DecidableEq, Repr

abbrev Log := List Call

/-- processor registers threaded through every handler call -/
structure Ctx where
  temp : St
  log  : Log
deriving DecidableEq, Repr

inductive Outcome (α : Type)
  | ok (a : α)
  | raise (log : Log)      -- HsmTopologyException / AssertionError
  | diverge (log : Log)    -- the Python loop provably never terminates
deriving DecidableEq, Repr

/-- `x(self, super_e)`: a real handler sets `temp := parent` and returns SUPER;
`top` returns IGNORED and leaves `temp` alone (and is not a visible handler call). -/
def probe (x : St) (k : Ctx) : Ctx :=
  match x with
  | [] => k
  | _ :: p => { temp := p, log := k.log ++ [⟨x, .search⟩] }

/-- `x(self, super_e)` answers `None` and leaves `temp` alone: `x` is a fall-through state -/
def noSuper (c : Chart) (x : St) : Bool :=
  match x with
  | [] => false
  | _ :: _ => c.fall x

/-- the parent query put to a fall-through state: the call is made, `temp` stays -/
def probeNone (x : St) (k : Ctx) : Ctx := { k with log := k.log ++ [⟨x, .search⟩] }

/-- `x(self, super_e)` at a site that ignores the status -/
def probeAny (c : Chart) (x : St) (k : Ctx) : Ctx :=
  if noSuper c x then probeNone x k else probe x k

/-- `x(self, exit_e)`; returns "status == HANDLED".  A fall-through state without exit clause
answers `None` (not HANDLED) and does not move `temp`. -/
def callExit (c : Chart) (x : St) (k : Ctx) : Bool × Ctx :=
  match x with
  | [] => (false, k)
  | _ :: p =>
    if c.exitH x then (true, { k with log := k.log ++ [⟨x, .exit⟩] })
    else if c.fall x then (false, { k with log := k.log ++ [⟨x, .exit⟩] })
    else (false, { temp := p, log := k.log ++ [⟨x, .exit⟩] })

/-- the calls made at a site that needs the exit status of the fall-through state `t`, up to the
raise: `t(exit_e)` is `None`; or it is HANDLED and then `t(super_e)` is `None` -/
def exitNoneLog (c : Chart) (t : St) (k : Ctx) : Log :=
  if c.exitH t then k.log ++ [⟨t, .exit⟩, ⟨t, .search⟩] else k.log ++ [⟨t, .exit⟩]

/-- `x(self, entry_e)` (status ignored by every caller) -/
def callEntry (x : St) (k : Ctx) : Ctx :=
  match x with
  | [] => k
  | _ => { k with log := k.log ++ [⟨x, .entry⟩] }

/-- `x(self, init_e)`; returns "status == TRAN" (then `temp` is the target).  Without init clause
the answer is "not TRAN" and `temp` is not used afterwards (SUPER, HANDLED or `None` alike). -/
def callInit (c : Chart) (x : St) (k : Ctx) : Bool × Ctx :=
  match x with
  | [] => (false, k)
  | _ =>
    match c.init x with
    | some t => (true, { temp := t, log := k.log ++ [⟨x, .init⟩] })
    | none   => (false, { k with log := k.log ++ [⟨x, .init⟩] })

inductive Found
  | ignored | handled | tran (s : St) | bad
deriving Repr

/-- first loop of `dispatch` (hsm.py 562-586): `r is None` raises (`.bad`), also after EMPTY_SIGNAL -/
def searchLoop (c : Chart) (n : Nat) : St → Ctx → Found × Ctx
  | [], k => (.ignored, k)
  | s@(_ :: p), k =>
    let k1 := { k with log := k.log ++ [⟨s, .user n⟩] }
    match c.react s n with
    | .tran t    => (.tran s, { k1 with temp := t })
    | .handled   => (.handled, k1)
    | .unhandled =>
      if c.fall s then (.bad, { k1 with log := k1.log ++ [⟨s, .empty⟩] })
      else searchLoop c n p { temp := p, log := k1.log ++ [⟨s, .empty⟩] }
    | .pass      =>
      if c.fall s then (.bad, k1)
      else searchLoop c n p { k1 with temp := p }
    | .none      => (.bad, k1)

/-- exit walk `while t != s` of `dispatch` (608-617); both answers are checked for `None` -/
def exitWalk (c : Chart) (s : St) : St → Ctx → Outcome Ctx
  | t, k =>
    if t = s then .ok k else
    match t with
    | [] => .diverge k.log      -- top(exit) is IGNORED and temp stays on top for ever
    | _ :: p =>
      if c.fall t then .raise (exitNoneLog c t k) else
      let (h, k1) := callExit c t k
      let k2 := if h then probe t k1 else k1
      exitWalk c s p k2

/-- the buffer write used three times in the source:
`if ip > max_index: tpath.append(v); max_index = ip  else: tpath[ip] = v`.
`none` = Python would raise IndexError (index beyond the list). -/
def store (tp : List St) (mx : Nat) (ip : Nat) (v : St) : Option (List St × Nat) :=
  if ip > mx then some (tp ++ [v], ip)
  else if ip < tp.length then some (tp.set ip v, mx) else none

/-- Python `tpath[i]` for `i ≥ 0` -/
def rd (tp : List St) (i : Nat) : St := (tp[i]?).getD []

structure EOut where
  found : Bool
  ip    : Nat
  tp    : List St
  mx    : Nat
  k     : Ctx

/-- loop (e) of `trans_`; `x` is `temp`, already the result of a SUPER probe.
`.raise`: IndexError on the buffer, or a fall-through state asked for its parent. -/
def eLoop (c : Chart) (S : St) : St → List St → Nat → Nat → Ctx → Outcome EOut
  | x, tp, mx, ip, k =>
    let ip1 := ip + 1
    match store tp mx ip1 x with
    | none => .raise k.log
    | some (tp1, mx1) =>
      if x = S then .ok ⟨true, ip1 - 1, tp1, mx1, k⟩
      else match x with
        | [] => .ok ⟨false, ip1, tp1, mx1, k⟩
        | _ :: p =>
          if c.fall x then .raise (probeNone x k).log
          else eLoop c S p tp1 mx1 ip1 (probe x k)

/-- downward scan `iq = ip … 0` for `t` in the buffer (loops f and g) -/
def scan (t : St) (tp : List St) : Nat → Option Nat
  | 0 => if rd tp 0 = t then some 0 else none
  | iq + 1 => if rd tp (iq + 1) = t then some (iq + 1) else scan t tp iq

/-- loop (g): exit `t`, `t := t->super`, scan -/
def gLoop (c : Chart) (tp : List St) (ip : Nat) : St → Ctx → Outcome (Int × Ctx)
  | [], k => .diverge k.log
  | t@(_ :: p), k =>
    if c.fall t then .raise (exitNoneLog c t k) else
    let (h, k1) := callExit c t k
    let k2 := if h then probe t k1 else k1
    match scan p tp ip with
    | some iq => .ok ((iq : Int) - 1, k2)
    | none => gLoop c tp ip p k2

structure TOut where
  ip : Int
  tp : List St
  mx : Nat
  k  : Ctx

/-- `trans_` (669-943); `tp0 = [T, cur, S]`; `ip = -1` means "enter nothing" -/
def trans_ (c : Chart) (tp0 : List St) (mx : Nat) (T S : St) (k : Ctx) : Outcome TOut :=
  if S = T then                                   -- (a)
    let (_, k1) := callExit c S k
    .ok ⟨0, tp0, mx, k1⟩
  else
    if noSuper c T then .raise (probeNone T k).log else
    let k1 := probe T k
    let t := k1.temp
    if S = t then .ok ⟨0, tp0, mx, k1⟩            -- (b)
    else
      if noSuper c S then .raise (probeNone S k1).log else
      let k2 := probe S k1
      if k2.temp = t then                         -- (c)
        let (_, k3) := callExit c S k2
        .ok ⟨0, tp0, mx, k3⟩
      else if k2.temp = T then                    -- (d)
        let (_, k3) := callExit c S k2
        .ok ⟨-1, tp0, mx, k3⟩
      else
        let tp1 := tp0.set 1 t
        let sSuper := k2.temp
        if noSuper c t then .raise (probeNone t k2).log else
        let k3 := probe t k2
        let e : Outcome EOut :=
          match t with
          | [] => .ok ⟨false, 1, tp1, mx, k3⟩     -- T->super is top: r = IGNORED
          | _ :: _ => eLoop c S k3.temp tp1 mx 1 k3
        match e with
        | .raise l => .raise l
        | .diverge l => .diverge l
        | .ok ⟨found, ip, tp2, mx2, k4⟩ =>
          if found then .ok ⟨ip, tp2, mx2, k4⟩    -- (e)
          else
            let (_, k5) := callExit c S k4
            match scan sSuper tp2 ip with
            | some iq => .ok ⟨(iq : Int) - 1, tp2, mx2, k5⟩      -- (f)
            | none =>
              match gLoop c tp2 ip sSuper k5 with                 -- (g)
              | .ok (ip', k6) => .ok ⟨ip', tp2, mx2, k6⟩
              | .raise l => .raise l
              | .diverge l => .diverge l

/-- `while ip >= 0: tpath[ip](entry); ip -= 1` -/
def enterDown (tp : List St) : Nat → Ctx → Ctx
  | 0, k => callEntry (rd tp 0) k
  | ip + 1, k => enterDown tp ip (callEntry (rd tp (ip + 1)) k)

inductive Climb
  | done (ip : Nat) (tp : List St) (mx : Nat) (k : Ctx)
  | top (k : Ctx)         -- reached `top` without meeting the goal
  | index (k : Ctx)       -- IndexError on the buffer
  | none (k : Ctx)        -- the query `tpath[ip](super_e)` answered `None`: a fall-through state

/-- `while temp != goal: ip += 1; store; tpath[ip](super)`; a fall-through state answers `None` and
leaves `temp` on itself (`.none`, after the store into `tpath` and the call): with `superGuard` the
drill-down raises right there, without it the repeat-parent check catches it in the next round
(raise if `drillGuard`, else the loop never ends) -/
def climb (c : Chart) (goal : St) : St → List St → Nat → Nat → Ctx → Climb
  | x, tp, mx, ip, k =>
    if x = goal then .done ip tp mx k else
    match x with
    | [] => .top k
    | _ :: p =>
      match store tp mx (ip + 1) x with
      | none => .index k
      | some (tp1, mx1) =>
        if c.fall x then .none (probeNone x k)
        else climb c goal p tp1 mx1 (ip + 1) (probe x k)

/-- the init drill-down of `dispatch` (626-646); `fuel` bounds the number of
initial transitions followed (a well-formed chart needs at most `depth`). -/
def drill (c : Chart) (g : Cfg) : Nat → St → List St → Nat → Ctx → Outcome (St × Ctx)
  | 0, _, _, _, k => .diverge k.log
  | fuel + 1, t, tp, mx, k =>
    let (tr, k1) := callInit c t k
    if !tr then .ok (t, k1) else
    let tgt := k1.temp
    if g.drillGuard && tgt = t then .raise k1.log else
    let tp1 := tp.set 0 tgt
    if g.superGuard && noSuper c tgt then .raise (probeNone tgt k1).log else
    let k2 := probeAny c tgt k1
    match climb c t k2.temp tp1 mx 0 k2 with
    | .top k3 => if g.drillGuard then .raise k3.log else .diverge k3.log
    | .index k3 => .raise k3.log
    | .none k3 => if g.superGuard || g.drillGuard then .raise k3.log else .diverge k3.log
    | .done ip tp2 mx2 k3 =>
      let k4 := enterDown tp2 ip { k3 with temp := tgt }
      drill c g fuel tgt tp2 mx2 k4

structure Res where
  state : St
  temp  : St
  log   : Log
deriving DecidableEq, Repr

/-- `HsmEventProcessor.dispatch` (531-662). `cur` is `state.fun`; `temp.fun = cur` on entry. -/
def dispatch (c : Chart) (g : Cfg) (cur : St) (n : Nat) : Outcome Res :=
  let k0 : Ctx := { temp := cur, log := [] }
  match searchLoop c n cur k0 with
  | (.bad, k) => .raise k.log
  | (.ignored, k) => .ok ⟨cur, cur, k.log⟩
  | (.handled, k) => .ok ⟨cur, cur, k.log⟩
  | (.tran S, k) =>
    let T := k.temp
    let tp0 := [T, cur, S]
    match exitWalk c S cur k with
    | .raise l => .raise l
    | .diverge l => .diverge l
    | .ok k1 =>
    match trans_ c tp0 2 T S k1 with
    | .raise l => .raise l
    | .diverge l => .diverge l
    | .ok ⟨ip, tp, _, k2⟩ =>
      let k3 := if ip < 0 then k2 else enterDown tp ip.toNat k2
      let mx := if g.resync then tp.length - 1 else 2
      match drill c g (c.depth + 1) T tp mx { k3 with temp := T } with
      | .raise l => .raise l
      | .diverge l => .diverge l
      | .ok (t, k4) => .ok ⟨t, t, k4.log⟩

inductive ClimbI
  | done (idx : Nat) (tp : List St) (mx : Nat) (k : Ctx)
  | fail (k : Ctx)        -- `top` visited twice (HsmTopologyException) or IndexError

/-- the parent walk of `init()` (392-402): raises when `top` is visited twice, and when a
fall-through state is: its parent query leaves `temp` on itself.  `previous_super` starts as `None`,
so the init target itself (`idx = 0`) is asked twice before the repeat is seen.  With `superGuard`
the `None` answer is checked first: one call, then the raise, for every `idx`. -/
def climbInit (c : Chart) (g : Cfg) (outer : St) : St → List St → Nat → Nat → Ctx → ClimbI
  | x, tp, mx, idx, k =>
    if x = outer then .done idx tp mx k else
    match x with
    | [] => .fail k
    | _ :: p =>
      if c.fall x then
        (if g.superGuard then .fail (probeNone x k)
        else if idx = 0 then
          match store tp mx (idx + 1) x with
          | none => .fail (probeNone x k)
          | some _ => .fail (probeNone x (probeNone x k))
        else .fail (probeNone x k))
      else
      match store tp mx (idx + 1) p with
      | none => .fail k
      | some (tp1, mx1) => climbInit c g outer p tp1 mx1 (idx + 1) (probe x k)

/-- `index -= 1; tpath[index](entry); if index <= 0: break` for `index ≥ 1` on entry -/
def enterInit (tp : List St) : Nat → Ctx → Ctx
  | 0, k => k
  | idx + 1, k => enterInit tp idx (callEntry (rd tp idx) k)

/-- outer loop of `init()`; `fuel` as in `drill` -/
def initLoop (c : Chart) (g : Cfg) : Nat → St → List St → Nat → Ctx → Outcome (St × Ctx)
  | 0, _, _, _, k => .diverge k.log
  | fuel + 1, outer, tp, mx, k =>
    let tgt := k.temp
    let tp0 := tp.set 0 tgt
    if tgt = outer then
      (if g.initGuard then .raise k.log else .diverge k.log)
    else
    match climbInit c g outer tgt tp0 mx 0 k with
    | .fail k1 => .raise k1.log
    | .done idx tp1 mx1 k1 =>
      let k2 := enterInit tp1 idx { k1 with temp := tgt }
      let (tr, k3) := callInit c tgt k2
      if tr then initLoop c g fuel tgt tp1 mx1 k3
      else .ok (tgt, k3)

/-- `start_at(s)` : `state := top; temp := s; init()` -/
def startAt (c : Chart) (g : Cfg) (s : St) : Outcome Res :=
  match initLoop c g (c.depth + 1) [] [[]] 0 { temp := s, log := [] } with
  | .raise l => .raise l
  | .diverge l => .diverge l
  | .ok (t, k) => .ok ⟨t, t, k.log⟩

/-- `is_in(X)` (979-996): walk `temp` outward from the current state.  The loop only ends on
IGNORED: a fall-through state other than `X` answers `None`, `temp` stays on it, and the loop asks
it again for ever (`.diverge`, with the log up to the first such call). -/
def isInWalk (c : Chart) (X : St) : St → Ctx → Outcome (Bool × Ctx)
  | x, k =>
    if x = X then .ok (true, k) else
    match x with
    | [] => .ok (false, k)
    | _ :: p =>
      if c.fall x then .diverge (probeNone x k).log
      else isInWalk c X p (probe x k)

def isIn (c : Chart) (cur X : St) : Outcome (Bool × Res) :=
  match isInWalk c X cur { temp := cur, log := [] } with
  | .ok (b, k) => .ok (b, ⟨cur, cur, k.log⟩)
  | .raise l => .raise l
  | .diverge l => .diverge l

/-- `child_state(P)` (998-1050): `none` = AssertionError; the same loop as `is_in` -/
def childWalk (c : Chart) (P : St) : St → St → Ctx → Outcome (Option St × Ctx)
  | x, child, k =>
    if x = P then .ok (some child, k) else
    match x with
    | [] => .ok (none, k)
    | _ :: p =>
      if c.fall x then .diverge (probeNone x k).log
      else childWalk c P p x (probe x k)

def childState (c : Chart) (cur P : St) : Outcome (Option St × Res) :=
  match childWalk c P cur cur { temp := cur, log := [] } with
  | .ok (r, k) => .ok (r, ⟨cur, cur, k.log⟩)
  | .raise l => .raise l
  | .diverge l => .diverge l

end Miros.Hsm
