import MirosModel.Hsm.Model
/-!
# UML specification of one run-to-completion step (what C01–C03, C22 say)

Short, buffer-free definitions.  A state is its path (innermost id first), so
"X is S or encloses S" is "X is a suffix of S".
-/
namespace Miros.Hsm

/-- `X` is `S` or encloses `S` -/
def encloses (X S : St) : Bool := X.isSuffixOf S

/-- the active path of `s`: `s`, its parent, …, `top` (innermost first) -/
def activePath : St → List St
  | [] => [[]]
  | s@(_ :: p) => s :: activePath p

/-- innermost state that is `S` or encloses it, and is `T` or encloses it -/
def lca : St → St → St
  | [], _ => []
  | S@(_ :: p), T => if encloses S T then S else lca p T

/-- the boundary state `L` of the property statement: a self-transition exits and
re-enters `S`, otherwise the innermost state that is S or T or encloses both -/
def boundary (S T : St) : St := if S = T then S.tail else lca S T

/-- `x, parent x, …` up to but excluding `L` (stops at top) -/
def pathUp (L : St) : St → List St
  | [] => []
  | x@(_ :: p) => if x = L then [] else x :: pathUp L p

/-- follow initial transitions from `t`: log and resting state -/
def settle (c : Chart) : Nat → St → Log × St
  | 0, t => ([], t)
  | fuel + 1, t =>
    match c.init t with
    | none => ([⟨t, .init⟩], t)
    | some tgt =>
      let (l, r) := settle c fuel tgt
      (⟨t, .init⟩ :: ((pathUp t tgt).reverse.map (⟨·, .entry⟩)) ++ l, r)

/-- who is offered the event, and who answers -/
inductive Answer
  | ignored | handled (s : St) | tran (s t : St)
deriving Repr, DecidableEq

def offers (c : Chart) (n : Nat) : St → Log × Answer
  | [] => ([], .ignored)
  | s@(_ :: p) =>
    match c.react s n with
    | .tran t  => ([⟨s, .user n⟩], .tran s t)
    | .handled => ([⟨s, .user n⟩], .handled s)
    | _ => let (l, a) := offers c n p; (⟨s, .user n⟩ :: l, a)

structure SpecRes where
  state : St
  log   : Log
deriving Repr, DecidableEq

/-- C01 / C02: what one dispatch must do -/
def specDispatch (c : Chart) (cur : St) (n : Nat) : SpecRes :=
  match offers c n cur with
  | (l, .ignored)   => ⟨cur, l⟩
  | (l, .handled _) => ⟨cur, l⟩
  | (l, .tran S T)  =>
    let L := boundary S T
    let ex := (pathUp L cur).map (⟨·, Sig.exit⟩)
    let en := (pathUp L T).reverse.map (⟨·, Sig.entry⟩)
    let (il, r) := settle c (c.depth + 1) T
    ⟨r, l ++ ex ++ en ++ il⟩

/-- C03: what start_at must do -/
def specStart (c : Chart) (s : St) : SpecRes :=
  let (il, r) := settle c (c.depth + 1) s
  ⟨r, ((pathUp [] s).reverse.map (⟨·, Sig.entry⟩)) ++ il⟩

/-! ### checked spec: `none` = the chart is malformed at the point reached, the processor must raise (C24) -/

def settleC (c : Chart) : Nat → St → Option (Log × St)
  | 0, _ => none
  | fuel + 1, t =>
    match c.init t with
    | none => some ([⟨t, .init⟩], t)
    | some tgt =>
      if encloses t tgt && t != tgt then
        match settleC c fuel tgt with
        | some (l, r) => some (⟨t, .init⟩ :: ((pathUp t tgt).reverse.map (⟨·, .entry⟩)) ++ l, r)
        | none => none
      else none

def offersC (c : Chart) (n : Nat) : St → Option (Log × Answer)
  | [] => some ([], .ignored)
  | s@(_ :: p) =>
    match c.react s n with
    | .tran t  => some ([⟨s, .user n⟩], .tran s t)
    | .handled => some ([⟨s, .user n⟩], .handled s)
    | .none => none
    | _ => match offersC c n p with
      | some (l, a) => some (⟨s, .user n⟩ :: l, a)
      | none => none

def specDispatchC (c : Chart) (cur : St) (n : Nat) : Option SpecRes :=
  match offersC c n cur with
  | none => none
  | some (l, .ignored)   => some ⟨cur, l⟩
  | some (l, .handled _) => some ⟨cur, l⟩
  | some (l, .tran S T)  =>
    let L := boundary S T
    let ex := (pathUp L cur).map (⟨·, Sig.exit⟩)
    let en := (pathUp L T).reverse.map (⟨·, Sig.entry⟩)
    match settleC c (c.depth + 1) T with
    | some (il, r) => some ⟨r, l ++ ex ++ en ++ il⟩
    | none => none

def specStartC (c : Chart) (s : St) : Option SpecRes :=
  match settleC c (c.depth + 1) s with
  | some (il, r) => some ⟨r, ((pathUp [] s).reverse.map (⟨·, Sig.entry⟩)) ++ il⟩
  | none => none

/-- the action projection of a call log: drop the processor's own probes -/
def isAction (c : Call) : Bool :=
  match c.sig with
  | .search => false
  | .empty => false
  | .refl => false
  | _ => true

def actions (l : Log) : Log := l.filter isAction

/-- C22 -/
def specIsIn (cur X : St) : Bool := encloses X cur

/-- the child of `P` among `x, parent x, …` -/
def childBelow (P : St) : St → Option St
  | [] => none
  | x@(_ :: p) => if p = P then some x else childBelow P p

/-- child of `P` on the path to `cur`; `cur` when `P = cur`; none when P does not enclose cur -/
def specChild (cur P : St) : Option St :=
  if cur = P then some cur else childBelow P cur

/-! ### fall-through states (handlers without final `else`): vocabulary of the C24 statements -/

/-- the same chart with every handler given its final `else: temp = parent; return SUPER` -/
def Chart.noFall (c : Chart) : Chart := { c with fall := fun _ => false }

/-- no fall-through state on the path of `X` (`X` itself and the states enclosing it; `top` is
not a handler of the chart) -/
def Clear (c : Chart) (X : St) : Prop := ∀ x, x ≠ [] → x <:+ X → c.fall x = false

/-- the targets of the initial transitions followed from `t` (at most `fuel` of them) -/
def initChain (c : Chart) : Nat → St → List St
  | 0, _ => []
  | fuel + 1, t =>
    match c.init t with
    | none => []
    | some tgt => tgt :: initChain c fuel tgt

/-- well-formed charts (the class the property quantifies over) -/
structure WF (c : Chart) : Prop where
  /-- initial transitions go to proper descendants -/
  init_desc : ∀ s t, c.init s = some t → s <:+ t ∧ s ≠ t
  /-- the declared depth bounds every init target -/
  init_depth : ∀ s t, c.init s = some t → t.length ≤ c.depth
  /-- transition targets are real states (not `top`) -/
  tran_ne_top : ∀ s n t, c.react s n = .tran t → t ≠ []
  /-- no handler returns `None` -/
  no_none : ∀ s n, c.react s n ≠ .none
  /-- every handler ends in `else: temp = parent; return SUPER` (no fall-through state) -/
  no_fall : ∀ s, c.fall s = false

end Miros.Hsm
