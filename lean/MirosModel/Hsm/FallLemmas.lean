import MirosModel.Hsm.DispatchLemmas
/-!
# Fall-through states: the processor on `c` against the processor on `c.noFall`

`c.noFall` is `c` with every handler given its final `else`.  Every loop of the processor, run on
`c`, either does exactly what it does on `c.noFall`, or meets a fall-through state on one of the
paths it walks (`¬ Clear c …`) and stops with the exception (`.raise`) — it never starts to diverge.
The one site where a `None` answer is ignored *and* changes a register (`trans_` case (a): the
self-transition of a fall-through state without exit clause leaves `temp` where it was) only
changes a value that `dispatch` overwrites before it is read.
-/
namespace Miros.Hsm

@[simp] theorem noFall_fall (c : Chart) (s : St) : c.noFall.fall s = false := rfl
@[simp] theorem noFall_react (c : Chart) : c.noFall.react = c.react := rfl
@[simp] theorem noFall_init (c : Chart) : c.noFall.init = c.init := rfl
@[simp] theorem noFall_exitH (c : Chart) : c.noFall.exitH = c.exitH := rfl
@[simp] theorem noFall_depth (c : Chart) : c.noFall.depth = c.depth := rfl

/-! ### `Clear` -/

theorem Clear.self {c : Chart} {a : Nat} {p : St} (h : Clear c (a :: p)) : c.fall (a :: p) = false :=
  h (a :: p) (by simp) (List.suffix_refl _)

theorem Clear.tail {c : Chart} {a : Nat} {p : St} (h : Clear c (a :: p)) : Clear c p :=
  fun x hne hx => h x hne (hx.trans (List.suffix_cons a p))

theorem Clear.of_suffix {c : Chart} {x y : St} (h : Clear c y) (hs : x <:+ y) : Clear c x :=
  fun z hne hz => h z hne (hz.trans hs)

theorem clear_nil (c : Chart) : Clear c [] := by
  intro x hne hx
  exact absurd (List.suffix_nil.mp hx) hne

theorem not_clear_of_fall {c : Chart} {a : Nat} {p : St} (h : c.fall (a :: p) = true) : ¬ Clear c (a :: p) := by
  intro hc; rw [hc.self] at h; cases h

theorem Clear.noSuper {c : Chart} {x : St} (h : Clear c x) : noSuper c x = false := by
  cases x with
  | nil => rfl
  | cons a p => exact h.self

theorem not_clear_of_noSuper {c : Chart} {x : St} (h : noSuper c x = true) : ¬ Clear c x := by
  intro hc; rw [hc.noSuper] at h; cases h

theorem clear_noFall (c : Chart) (x : St) : Clear c.noFall x := fun _ _ _ => rfl

/-- a chart whose only fall-through state is `b`: every path that avoids `b` is clear -/
theorem clear_of_not_on_path {c : Chart} {b : St} (hb : ∀ s, s ≠ b → c.fall s = false) {X : St}
    (h : ¬ b <:+ X) : Clear c X := by
  intro x _ hx
  apply hb
  intro e; subst e; exact h hx

/-! ### the handler calls -/

theorem callInit_noFall (c : Chart) (x : St) (k : Ctx) : callInit c.noFall x k = callInit c x k := by
  cases x <;> rfl

theorem callExit_noFall {c : Chart} {x : St} (h : c.fall x = false) (k : Ctx) :
    callExit c.noFall x k = callExit c x k := by
  cases x with
  | nil => rfl
  | cons a p => simp [callExit, h]

/-- status and calls of an exit do not depend on the final `else` (only `temp` does) -/
theorem callExit_sim (c : Chart) (x : St) (k : Ctx) :
    (callExit c.noFall x k).1 = (callExit c x k).1 ∧ (callExit c.noFall x k).2.log = (callExit c x k).2.log := by
  cases x with
  | nil => exact ⟨rfl, rfl⟩
  | cons a p =>
    unfold callExit
    by_cases h : c.exitH (a :: p) <;> by_cases h' : c.fall (a :: p) <;> simp [h, h']

theorem exitStep_noFall {c : Chart} {x : St} (h : c.fall x = false) (k : Ctx) :
    exitStep c.noFall x k = exitStep c x k := by
  unfold exitStep; rw [callExit_noFall h]

theorem probeAny_noFall (c : Chart) (x : St) (k : Ctx) : probeAny c.noFall x k = probe x k :=
  probeAny_eq_probe (fun _ => rfl) x k

theorem probeAny_clear {c : Chart} {x : St} (h : noSuper c x = false) (k : Ctx) : probeAny c x k = probe x k := by
  simp [probeAny, h]

/-! ### the search loop -/

theorem searchLoop_fall (c : Chart) (n : Nat) : ∀ (cur : St) (k : Ctx),
    searchLoop c n cur k = searchLoop c.noFall n cur k ∨
    (¬ Clear c cur ∧ ∃ k', searchLoop c n cur k = (.bad, k')) := by
  intro cur
  induction cur with
  | nil => intro k; left; rfl
  | cons a p ih =>
    intro k
    cases hfa : c.fall (a :: p) with
    | true =>
      have hnc : ¬ Clear c (a :: p) := not_clear_of_fall hfa
      cases hr : c.react (a :: p) n with
      | tran t => left; simp [searchLoop, hr]
      | handled => left; simp [searchLoop, hr]
      | none => left; simp [searchLoop, hr]
      | unhandled => right; exact ⟨hnc, _, by simp only [searchLoop, hr, hfa, if_true]; rfl⟩
      | pass => right; exact ⟨hnc, _, by simp only [searchLoop, hr, hfa, if_true]; rfl⟩
    | false =>
      cases hr : c.react (a :: p) n with
      | tran t => left; simp [searchLoop, hr]
      | handled => left; simp [searchLoop, hr]
      | none => left; simp [searchLoop, hr]
      | unhandled =>
        rcases ih { temp := p, log := k.log ++ [⟨a :: p, .user n⟩] ++ [⟨a :: p, .empty⟩] } with h | ⟨h1, k', h2⟩
        · left; simp only [searchLoop, hr, hfa, noFall_react, noFall_fall, Bool.false_eq_true, if_false]; exact h
        · right
          exact ⟨fun hc => h1 hc.tail, k', by
            simp only [searchLoop, hr, hfa, Bool.false_eq_true, if_false]; exact h2⟩
      | pass =>
        rcases ih { temp := p, log := k.log ++ [⟨a :: p, .user n⟩] } with h | ⟨h1, k', h2⟩
        · left; simp only [searchLoop, hr, hfa, noFall_react, noFall_fall, Bool.false_eq_true, if_false]; exact h
        · right
          exact ⟨fun hc => h1 hc.tail, k', by
            simp only [searchLoop, hr, hfa, Bool.false_eq_true, if_false]; exact h2⟩

/-- what the search found is what the spec's `offers` says (any chart) -/
theorem searchLoop_tran (c : Chart) (n : Nat) : ∀ (cur : St) (k : Ctx) (S : St) (k' : Ctx),
    searchLoop c n cur k = (.tran S, k') →
    (offers c n cur).2 = .tran S k'.temp ∧ S <:+ cur ∧ S ≠ [] := by
  intro cur
  induction cur with
  | nil => intro k S k' h; simp [searchLoop] at h
  | cons a p ih =>
    intro k S k' h
    cases hr : c.react (a :: p) n with
    | tran t =>
      simp only [searchLoop, hr, Prod.mk.injEq, Found.tran.injEq] at h
      obtain ⟨rfl, rfl⟩ := h
      exact ⟨by simp [offers, hr], List.suffix_refl _, by simp⟩
    | handled => simp [searchLoop, hr] at h
    | none => simp [searchLoop, hr] at h
    | unhandled =>
      cases hfa : c.fall (a :: p) with
      | true => simp [searchLoop, hr, hfa] at h
      | false =>
        simp only [searchLoop, hr, hfa, Bool.false_eq_true, if_false] at h
        obtain ⟨h1, h2, h3⟩ := ih _ S k' h
        exact ⟨by simp only [offers, hr]; exact h1, h2.trans (List.suffix_cons a p), h3⟩
    | pass =>
      cases hfa : c.fall (a :: p) with
      | true => simp [searchLoop, hr, hfa] at h
      | false =>
        simp only [searchLoop, hr, hfa, Bool.false_eq_true, if_false] at h
        obtain ⟨h1, h2, h3⟩ := ih _ S k' h
        exact ⟨by simp only [offers, hr]; exact h1, h2.trans (List.suffix_cons a p), h3⟩

/-! ### the exit walk, loops (e) and (g) -/

theorem exitWalk_cons {c : Chart} {S : St} {a : Nat} {p : St} (hS : a :: p ≠ S)
    (hfa : c.fall (a :: p) = false) (k : Ctx) :
    exitWalk c S (a :: p) k = exitWalk c S p (exitStep c (a :: p) k) := by
  rw [exitWalk]
  simp only [hS, if_false, hfa, Bool.false_eq_true]
  rfl

theorem exitWalk_fall (c : Chart) (S : St) : ∀ (t : St) (k : Ctx),
    exitWalk c S t k = exitWalk c.noFall S t k ∨
    (¬ Clear c t ∧ ∃ l, exitWalk c S t k = .raise l) := by
  intro t
  induction t with
  | nil => intro k; left; simp [exitWalk]
  | cons a p ih =>
    intro k
    by_cases hS : a :: p = S
    · left; simp [exitWalk, hS]
    · cases hfa : c.fall (a :: p) with
      | true =>
        right
        refine ⟨not_clear_of_fall hfa, exitNoneLog c (a :: p) k, ?_⟩
        rw [exitWalk]; simp only [hS, if_false, hfa, if_true]
      | false =>
        rw [exitWalk_cons hS hfa, exitWalk_cons (c := c.noFall) hS rfl, exitStep_noFall hfa]
        rcases ih (exitStep c (a :: p) k) with h | ⟨h1, h2⟩
        · exact Or.inl h
        · exact Or.inr ⟨fun hc => h1 hc.tail, h2⟩

theorem eLoop_fall (c : Chart) (S : St) : ∀ (x : St) (tp : List St) (mx ip : Nat) (k : Ctx),
    eLoop c S x tp mx ip k = eLoop c.noFall S x tp mx ip k ∨
    (¬ Clear c x ∧ ∃ l, eLoop c S x tp mx ip k = .raise l) := by
  intro x
  induction x with
  | nil => intro tp mx ip k; left; simp [eLoop]
  | cons a p ih =>
    intro tp mx ip k
    cases hs : store tp mx (ip + 1) (a :: p) with
    | none => left; simp [eLoop, hs]
    | some r =>
      obtain ⟨tp1, mx1⟩ := r
      by_cases hS : a :: p = S
      · left; simp [eLoop, hS]
      · cases hfa : c.fall (a :: p) with
        | true =>
          right
          refine ⟨not_clear_of_fall hfa, (probeNone (a :: p) k).log, ?_⟩
          rw [eLoop]; simp only [hs, hS, if_false, hfa, if_true]
        | false =>
          have e1 : eLoop c S (a :: p) tp mx ip k = eLoop c S p tp1 mx1 (ip + 1) (probe (a :: p) k) := by
            rw [eLoop]; simp only [hs, hS, if_false, hfa, Bool.false_eq_true]
          have e2 : eLoop c.noFall S (a :: p) tp mx ip k =
              eLoop c.noFall S p tp1 mx1 (ip + 1) (probe (a :: p) k) := by
            rw [eLoop]; simp only [hs, hS, if_false, noFall_fall, Bool.false_eq_true]
          rw [e1, e2]
          rcases ih tp1 mx1 (ip + 1) (probe (a :: p) k) with h | ⟨h1, h2⟩
          · exact Or.inl h
          · exact Or.inr ⟨fun hc => h1 hc.tail, h2⟩

theorem gLoop_cons {c : Chart} {a : Nat} {p : St} (hfa : c.fall (a :: p) = false) (tp : List St) (ip : Nat)
    (k : Ctx) :
    gLoop c tp ip (a :: p) k =
      match scan p tp ip with
      | some iq => .ok ((iq : Int) - 1, exitStep c (a :: p) k)
      | none => gLoop c tp ip p (exitStep c (a :: p) k) := by
  rw [gLoop]
  simp only [hfa, Bool.false_eq_true, if_false]
  rfl

theorem gLoop_fall (c : Chart) (tp : List St) (ip : Nat) : ∀ (t : St) (k : Ctx),
    gLoop c tp ip t k = gLoop c.noFall tp ip t k ∨
    (¬ Clear c t ∧ ∃ l, gLoop c tp ip t k = .raise l) := by
  intro t
  induction t with
  | nil => intro k; left; simp [gLoop]
  | cons a p ih =>
    intro k
    cases hfa : c.fall (a :: p) with
    | true =>
      right
      refine ⟨not_clear_of_fall hfa, exitNoneLog c (a :: p) k, ?_⟩
      rw [gLoop]; simp only [hfa, if_true]
    | false =>
      rw [gLoop_cons hfa, gLoop_cons (c := c.noFall) rfl, exitStep_noFall hfa]
      cases scan p tp ip with
      | some iq => exact Or.inl rfl
      | none =>
        rcases ih (exitStep c (a :: p) k) with h | ⟨h1, h2⟩
        · exact Or.inl h
        · exact Or.inr ⟨fun hc => h1 hc.tail, h2⟩

/-! ### `trans_` -/

/-- two results of `trans_` that agree in everything `dispatch` reads afterwards (not `temp`) -/
def TOut.same (o o' : TOut) : Prop := o.ip = o'.ip ∧ o.tp = o'.tp ∧ o.mx = o'.mx ∧ o.k.log = o'.k.log

/-- what `trans_` does with the result of loop (e): cases (e), (f), (g) -/
def transTail (c : Chart) (S sSuper : St) (e : Outcome EOut) : Outcome TOut :=
  match e with
  | .raise l => .raise l
  | .diverge l => .diverge l
  | .ok ⟨found, ip, tp2, mx2, k4⟩ =>
    if found then .ok ⟨ip, tp2, mx2, k4⟩
    else
      match scan sSuper tp2 ip with
      | some iq => .ok ⟨(iq : Int) - 1, tp2, mx2, (callExit c S k4).2⟩
      | none =>
        match gLoop c tp2 ip sSuper (callExit c S k4).2 with
        | .ok (ip', k6) => .ok ⟨ip', tp2, mx2, k6⟩
        | .raise l => .raise l
        | .diverge l => .diverge l

theorem transTail_fall (c : Chart) {S : St} (hS : noSuper c S = false) (sSuper : St) (e : Outcome EOut) :
    transTail c S sSuper e = transTail c.noFall S sSuper e ∨
    (¬ Clear c sSuper ∧ ∃ l, transTail c S sSuper e = .raise l) := by
  have hcx : ∀ k, callExit c.noFall S k = callExit c S k := by
    intro k
    cases S with
    | nil => rfl
    | cons a p => exact callExit_noFall hS k
  cases e with
  | raise l => left; rfl
  | diverge l => left; rfl
  | ok o =>
    obtain ⟨found, ip, tp2, mx2, k4⟩ := o
    cases found with
    | true => left; rfl
    | false =>
      simp only [transTail, Bool.false_eq_true, if_false, hcx]
      cases scan sSuper tp2 ip with
      | some iq => left; rfl
      | none =>
        rcases gLoop_fall c tp2 ip sSuper (callExit c S k4).2 with h | ⟨h1, l, h2⟩
        · left; simp only [h]
        · right; exact ⟨h1, l, by simp only [h2]⟩

/-- loop (e) as `trans_` starts it: not at all when `T->super` is `top` -/
def eStart (c : Chart) (S t : St) (tp : List St) (mx : Nat) (k3 : Ctx) : Outcome EOut :=
  match t with
  | [] => .ok ⟨false, 1, tp, mx, k3⟩
  | _ :: _ => eLoop c S k3.temp tp mx 1 k3

theorem eStart_fall (c : Chart) (S t : St) (tp : List St) (mx : Nat) (k3 : Ctx) :
    eStart c S t tp mx k3 = eStart c.noFall S t tp mx k3 ∨
    (t ≠ [] ∧ ¬ Clear c k3.temp ∧ ∃ l, eStart c S t tp mx k3 = .raise l) := by
  cases t with
  | nil => left; rfl
  | cons d q' =>
    rcases eLoop_fall c S k3.temp tp mx 1 k3 with h | ⟨h1, h2⟩
    · exact Or.inl h
    · exact Or.inr ⟨by simp, h1, h2⟩

/-- `trans_` beyond its cases (a)–(d), as loop (e) followed by `transTail` -/
theorem trans_eq_tail (c : Chart) (tp0 : List St) (mx : Nat) (b : Nat) (q S : St) (k : Ctx)
    (hST : S ≠ b :: q) (hfT : c.fall (b :: q) = false) (h1 : S ≠ q) (hnS : noSuper c S = false)
    (hc : (probe S (probe (b :: q) k)).temp ≠ q) (hd : (probe S (probe (b :: q) k)).temp ≠ b :: q)
    (hnt : noSuper c q = false) :
    trans_ c tp0 mx (b :: q) S k =
      transTail c S (probe S (probe (b :: q) k)).temp
        (eStart c S q (tp0.set 1 q) mx (probe q (probe S (probe (b :: q) k)))) := by
  have hT : noSuper c (b :: q) = false := hfT
  unfold trans_
  simp only [hST, if_false, hT, Bool.false_eq_true, probe_temp_cons, h1, hnS, hc, hd, hnt]
  unfold transTail eStart
  cases q with
  | nil => rfl
  | cons d q' =>
    simp only
    cases eLoop c S (probe (d :: q') (probe S (probe (b :: d :: q') k))).temp (tp0.set 1 (d :: q')) mx 1
        (probe (d :: q') (probe S (probe (b :: d :: q') k))) with
    | raise l => rfl
    | diverge l => rfl
    | ok o => rfl

@[simp] theorem noSuper_noFall (c : Chart) (x : St) : noSuper c.noFall x = false := by
  cases x <;> rfl

theorem callExit_noFall' {c : Chart} {S : St} (hS : noSuper c S = false) (k : Ctx) :
    callExit c.noFall S k = callExit c S k := by
  cases S with
  | nil => rfl
  | cons a p => exact callExit_noFall hS k

theorem sSuper_clear {c : Chart} {b : Nat} {q S : St} (k : Ctx) (hT : Clear c (b :: q)) (hS : Clear c S) :
    Clear c (probe S (probe (b :: q) k)).temp := by
  cases S with
  | nil => exact hT.tail
  | cons a p => exact hS.tail

/-- `trans_` on `c` is `trans_` on `c.noFall`, or it raises at a fall-through state on the path of
`T` or `S`, or it is the self-transition of a fall-through state (same result up to `temp`) -/
theorem trans_fall (c : Chart) (tp0 : List St) (mx : Nat) (T S : St) (k : Ctx) (hT : T ≠ []) :
    trans_ c tp0 mx T S k = trans_ c.noFall tp0 mx T S k ∨
    (¬ (Clear c T ∧ Clear c S) ∧ ∃ l, trans_ c tp0 mx T S k = .raise l) ∨
    (¬ Clear c S ∧ S = T ∧ ∃ o o', trans_ c tp0 mx T S k = .ok o ∧
        trans_ c.noFall tp0 mx T S k = .ok o' ∧ TOut.same o o') := by
  obtain ⟨b, q, rfl⟩ := List.exists_cons_of_ne_nil hT
  by_cases hST : S = b :: q
  · subst hST
    cases hfa : c.fall (b :: q) with
    | false =>
      left; unfold trans_; simp only [if_true]; rw [callExit_noFall hfa]
    | true =>
      right; right
      refine ⟨not_clear_of_fall hfa, rfl, ⟨0, tp0, mx, (callExit c (b :: q) k).2⟩,
        ⟨0, tp0, mx, (callExit c.noFall (b :: q) k).2⟩, ?_, ?_, rfl, rfl, rfl, ?_⟩
      · unfold trans_; simp
      · unfold trans_; simp
      · exact (callExit_sim c _ k).2.symm
  · cases hfT : c.fall (b :: q) with
    | true =>
      right; left
      have hT' : noSuper c (b :: q) = true := hfT
      refine ⟨fun h => not_clear_of_fall hfT h.1, (probeNone (b :: q) k).log, ?_⟩
      unfold trans_; simp only [hST, if_false, hT', if_true]
    | false =>
      have hT' : noSuper c (b :: q) = false := hfT
      by_cases h1 : S = q
      · left; subst h1; unfold trans_
        simp only [hST, if_false, hT', noSuper_noFall, Bool.false_eq_true, probe_temp_cons, if_true]
      · cases hnS : noSuper c S with
        | true =>
          right; left
          refine ⟨fun h => not_clear_of_noSuper hnS h.2, (probeNone S (probe (b :: q) k)).log, ?_⟩
          unfold trans_
          simp only [hST, if_false, hT', Bool.false_eq_true, probe_temp_cons, h1, hnS, if_true]
        | false =>
          by_cases hc : (probe S (probe (b :: q) k)).temp = q
          · left; unfold trans_
            simp only [hST, if_false, hT', noSuper_noFall, Bool.false_eq_true, probe_temp_cons, h1, hnS, hc,
              if_true, callExit_noFall' hnS]
          · by_cases hd : (probe S (probe (b :: q) k)).temp = b :: q
            · left; unfold trans_
              simp only [hST, if_false, hT', noSuper_noFall, Bool.false_eq_true, probe_temp_cons, h1, hnS,
                hd, if_true, callExit_noFall' hnS]
            · cases hnt : noSuper c q with
              | true =>
                right; left
                refine ⟨fun h => not_clear_of_noSuper hnt h.1.tail,
                  (probeNone q (probe S (probe (b :: q) k))).log, ?_⟩
                unfold trans_
                simp only [hST, if_false, hT', Bool.false_eq_true, probe_temp_cons, h1, hnS, hc, hd, hnt, if_true]
              | false =>
                rw [trans_eq_tail c tp0 mx b q S k hST hfT h1 hnS hc hd hnt,
                  trans_eq_tail c.noFall tp0 mx b q S k hST rfl h1 (noSuper_noFall c S) hc hd
                    (noSuper_noFall c q)]
                -- loop (e)
                rcases eStart_fall c S q (tp0.set 1 q) mx (probe q (probe S (probe (b :: q) k)))
                  with he | ⟨hq, hn, l, he⟩
                · rw [he]
                  rcases transTail_fall c hnS (probe S (probe (b :: q) k)).temp
                    (eStart c.noFall S q (tp0.set 1 q) mx (probe q (probe S (probe (b :: q) k))))
                    with h | ⟨h1', l, h2⟩
                  · exact Or.inl h
                  · exact Or.inr (Or.inl ⟨fun h => h1' (sSuper_clear k h.1 h.2), l, h2⟩)
                · right; left
                  refine ⟨fun h => hn ?_, l, by rw [he]; rfl⟩
                  -- the cursor of loop (e) is an ancestor of `T`
                  obtain ⟨d, q', rfl⟩ := List.exists_cons_of_ne_nil hq
                  exact h.1.tail.tail

/-! ### the init drill-down of `dispatch` -/

theorem climb_fall (c : Chart) (goal : St) : ∀ (x : St) (tp : List St) (mx ip : Nat) (k : Ctx),
    climb c goal x tp mx ip k = climb c.noFall goal x tp mx ip k ∨
    (¬ Clear c x ∧ ∃ k', climb c goal x tp mx ip k = .none k') := by
  intro x
  induction x with
  | nil => intro tp mx ip k; left; simp [climb]
  | cons a p ih =>
    intro tp mx ip k
    by_cases hg : a :: p = goal
    · left; simp [climb, hg]
    · cases hs : store tp mx (ip + 1) (a :: p) with
      | none => left; simp [climb, hg, hs]
      | some r =>
        obtain ⟨tp1, mx1⟩ := r
        cases hfa : c.fall (a :: p) with
        | true =>
          right
          refine ⟨not_clear_of_fall hfa, probeNone (a :: p) k, ?_⟩
          rw [climb]; simp only [hg, if_false, hs, hfa, if_true]
        | false =>
          have e1 : climb c goal (a :: p) tp mx ip k = climb c goal p tp1 mx1 (ip + 1) (probe (a :: p) k) := by
            rw [climb]; simp only [hg, if_false, hs, hfa, Bool.false_eq_true]
          have e2 : climb c.noFall goal (a :: p) tp mx ip k =
              climb c.noFall goal p tp1 mx1 (ip + 1) (probe (a :: p) k) := by
            rw [climb]; simp only [hg, if_false, hs, noFall_fall, Bool.false_eq_true]
          rw [e1, e2]
          rcases ih tp1 mx1 (ip + 1) (probe (a :: p) k) with h | ⟨h1, h2⟩
          · exact Or.inl h
          · exact Or.inr ⟨fun hc => h1 hc.tail, h2⟩

theorem callInit_true {c : Chart} {t : St} {k k1 : Ctx} (h : callInit c t k = (true, k1)) :
    c.init t = some k1.temp := by
  cases t with
  | nil => simp [callInit] at h
  | cons a p =>
    cases hi : c.init (a :: p) with
    | none => simp [callInit, hi] at h
    | some tgt =>
      simp only [callInit, hi, Prod.mk.injEq, true_and] at h
      rw [← h]

/-- one round of the drill-down after `t(init_e)` answered TRAN with target `tgt` -/
def drillStep (c : Chart) (g : Cfg) (fuel : Nat) (t tgt : St) (tp : List St) (mx : Nat) (k1 : Ctx) :
    Outcome (St × Ctx) :=
  if g.drillGuard && tgt = t then .raise k1.log else
  if g.superGuard && noSuper c tgt then .raise (probeNone tgt k1).log else
  match climb c t (probeAny c tgt k1).temp (tp.set 0 tgt) mx 0 (probeAny c tgt k1) with
  | .top k3 => if g.drillGuard then .raise k3.log else .diverge k3.log
  | .index k3 => .raise k3.log
  | .none k3 => if g.superGuard || g.drillGuard then .raise k3.log else .diverge k3.log
  | .done ip tp2 mx2 k3 => drill c g fuel tgt tp2 mx2 (enterDown tp2 ip { k3 with temp := tgt })

theorem drill_succ (c : Chart) (g : Cfg) (fuel : Nat) (t : St) (tp : List St) (mx : Nat) (k : Ctx) :
    drill c g (fuel + 1) t tp mx k =
      if (callInit c t k).1 then drillStep c g fuel t (callInit c t k).2.temp tp mx (callInit c t k).2
      else .ok (t, (callInit c t k).2) := by
  rw [drill]
  cases hc : callInit c t k with
  | mk tr k1 =>
    cases tr with
    | false => rfl
    | true => simp only [Bool.not_true, Bool.false_eq_true, if_false, if_true]; rfl

theorem drill_fall (c : Chart) (g : Cfg) (hg : g.drillGuard = true) :
    ∀ (fuel : Nat) (t : St) (tp : List St) (mx : Nat) (k : Ctx),
    drill c g fuel t tp mx k = drill c.noFall g fuel t tp mx k ∨
    ((∃ x ∈ initChain c fuel t, ¬ Clear c x) ∧ ∃ l, drill c g fuel t tp mx k = .raise l) := by
  intro fuel
  induction fuel with
  | zero => intro t tp mx k; left; rfl
  | succ fuel ih =>
    intro t tp mx k
    rw [drill_succ, drill_succ, callInit_noFall]
    cases hc : callInit c t k with
    | mk tr k1 =>
      cases tr with
      | false => left; rfl
      | true =>
        have hi := callInit_true hc
        obtain ⟨tgt, l1⟩ := k1
        simp only at hi
        have hch : initChain c (fuel + 1) t = tgt :: initChain c fuel tgt := by
          simp [initChain, hi]
        simp only [if_true]
        generalize hk1 : ({ temp := tgt, log := l1 } : Ctx) = k1
        have hk1t : k1.temp = tgt := by rw [← hk1]
        unfold drillStep
        by_cases he : tgt = t
        · left; simp [hg, he]
        · simp only [hg, Bool.true_and, decide_eq_true_eq, he, if_false, if_true, probeAny_noFall,
            noSuper_noFall, Bool.and_false, Bool.false_eq_true, Bool.or_true]
          cases hn : noSuper c tgt with
          | true =>
            right
            refine ⟨⟨tgt, by simp [hch], not_clear_of_noSuper hn⟩, ?_⟩
            cases hsg : g.superGuard with
            | true => exact ⟨(probeNone tgt k1).log, by simp⟩
            | false =>
            simp only [Bool.false_and, Bool.false_eq_true, if_false]
            have hp : probeAny c tgt k1 = probeNone tgt k1 := by simp [probeAny, hn]
            rw [hp]
            obtain ⟨a, p, rfl⟩ : ∃ a p, tgt = a :: p := by
              cases tgt with
              | nil => simp [noSuper] at hn
              | cons a p => exact ⟨a, p, rfl⟩
            have hfa : c.fall (a :: p) = true := hn
            rw [climb.eq_def]
            simp only [probeNone, hk1t, he, if_false]
            cases hs : store (tp.set 0 (a :: p)) mx (0 + 1) (a :: p) with
            | none => exact ⟨_, rfl⟩
            | some r => simp only [hfa, if_true]; exact ⟨_, rfl⟩
          | false =>
            rw [probeAny_clear hn]
            simp only [Bool.and_false, Bool.false_eq_true, if_false]
            rcases climb_fall c t (probe tgt k1).temp (tp.set 0 tgt) mx 0 (probe tgt k1) with h | ⟨h1, k', h2⟩
            · rw [h]
              cases climb c.noFall t (probe tgt k1).temp (tp.set 0 tgt) mx 0 (probe tgt k1) with
              | top k3 => left; rfl
              | index k3 => left; rfl
              | none k3 => left; rfl
              | done ip tp2 mx2 k3 =>
                rcases ih tgt tp2 mx2 (enterDown tp2 ip { k3 with temp := tgt }) with h' | ⟨⟨x, hx1, hx2⟩, h2'⟩
                · exact Or.inl h'
                · exact Or.inr ⟨⟨x, by simp [hch, hx1], hx2⟩, h2'⟩
            · right
              refine ⟨⟨tgt, by simp [hch], fun hcl => h1 ?_⟩, ?_⟩
              · cases tgt with
                | nil => rw [← hk1]; exact clear_nil c
                | cons a p => exact hcl.tail
              · rw [h2]; exact ⟨_, rfl⟩

/-! ### `init()` -/

theorem climbInit_fall (c : Chart) (g : Cfg) (outer : St) : ∀ (x : St) (tp : List St) (mx idx : Nat) (k : Ctx),
    climbInit c g outer x tp mx idx k = climbInit c.noFall g outer x tp mx idx k ∨
    (¬ Clear c x ∧ ∃ k', climbInit c g outer x tp mx idx k = .fail k') := by
  intro x
  induction x with
  | nil => intro tp mx idx k; left; simp [climbInit]
  | cons a p ih =>
    intro tp mx idx k
    by_cases ho : a :: p = outer
    · left; simp [climbInit, ho]
    · cases hfa : c.fall (a :: p) with
      | true =>
        right
        refine ⟨not_clear_of_fall hfa, ?_⟩
        rw [climbInit]; simp only [ho, if_false, hfa, if_true]
        split
        · exact ⟨_, rfl⟩
        · split
          · split <;> exact ⟨_, rfl⟩
          · exact ⟨_, rfl⟩
      | false =>
        cases hs : store tp mx (idx + 1) p with
        | none => left; simp [climbInit, ho, hs, hfa]
        | some r =>
          obtain ⟨tp1, mx1⟩ := r
          have e1 : climbInit c g outer (a :: p) tp mx idx k =
              climbInit c g outer p tp1 mx1 (idx + 1) (probe (a :: p) k) := by
            rw [climbInit]; simp only [ho, if_false, hs, hfa, Bool.false_eq_true]
          have e2 : climbInit c.noFall g outer (a :: p) tp mx idx k =
              climbInit c.noFall g outer p tp1 mx1 (idx + 1) (probe (a :: p) k) := by
            rw [climbInit]; simp only [ho, if_false, hs, noFall_fall, Bool.false_eq_true]
          rw [e1, e2]
          rcases ih tp1 mx1 (idx + 1) (probe (a :: p) k) with h | ⟨h1, h2⟩
          · exact Or.inl h
          · exact Or.inr ⟨fun hc => h1 hc.tail, h2⟩

/-- the rest of one round of `init()` after the parent walk succeeded -/
def initStep (c : Chart) (g : Cfg) (fuel : Nat) (tgt : St) (idx : Nat) (tp1 : List St) (mx1 : Nat) (k1 : Ctx) :
    Outcome (St × Ctx) :=
  if (callInit c tgt (enterInit tp1 idx { k1 with temp := tgt })).1 then
    initLoop c g fuel tgt tp1 mx1 (callInit c tgt (enterInit tp1 idx { k1 with temp := tgt })).2
  else .ok (tgt, (callInit c tgt (enterInit tp1 idx { k1 with temp := tgt })).2)

theorem initLoop_succ (c : Chart) (g : Cfg) (fuel : Nat) (outer : St) (tp : List St) (mx : Nat) (k : Ctx) :
    initLoop c g (fuel + 1) outer tp mx k =
      if k.temp = outer then (if g.initGuard then .raise k.log else .diverge k.log) else
      match climbInit c g outer k.temp (tp.set 0 k.temp) mx 0 k with
      | .fail k1 => .raise k1.log
      | .done idx tp1 mx1 k1 => initStep c g fuel k.temp idx tp1 mx1 k1 := by
  rw [initLoop]
  by_cases h : k.temp = outer
  · simp only [h, if_true]
  · simp only [h, if_false]
    cases climbInit c g outer k.temp (tp.set 0 k.temp) mx 0 k with
    | fail k1 => rfl
    | done idx tp1 mx1 k1 =>
      simp only [initStep]

theorem initLoop_fall (c : Chart) (g : Cfg) : ∀ (fuel : Nat) (outer : St) (tp : List St) (mx : Nat) (k : Ctx),
    initLoop c g fuel outer tp mx k = initLoop c.noFall g fuel outer tp mx k ∨
    (¬ (Clear c k.temp ∧ ∀ x ∈ initChain c fuel k.temp, Clear c x) ∧
      ∃ l, initLoop c g fuel outer tp mx k = .raise l) := by
  intro fuel
  induction fuel with
  | zero => intro outer tp mx k; left; rfl
  | succ fuel ih =>
    intro outer tp mx k
    rw [initLoop_succ, initLoop_succ]
    by_cases ho : k.temp = outer
    · left; simp only [ho, if_true]
    · simp only [ho, if_false]
      rcases climbInit_fall c g outer k.temp (tp.set 0 k.temp) mx 0 k with h | ⟨h1, k', h2⟩
      · rw [h]
        cases climbInit c.noFall g outer k.temp (tp.set 0 k.temp) mx 0 k with
        | fail k1 => left; rfl
        | done idx tp1 mx1 k1 =>
          simp only [initStep, callInit_noFall]
          cases hc : callInit c k.temp (enterInit tp1 idx { k1 with temp := k.temp }) with
          | mk tr k3 =>
            cases tr with
            | false => left; rfl
            | true =>
              have hi := callInit_true hc
              simp only [if_true]
              rcases ih k.temp tp1 mx1 k3 with h' | ⟨h1', h2'⟩
              · exact Or.inl h'
              · right
                refine ⟨fun hcl => h1' ⟨?_, ?_⟩, h2'⟩
                · exact hcl.2 k3.temp (by simp [initChain, hi])
                · intro x hx
                  exact hcl.2 x (by simp [initChain, hi, hx])
      · right
        rw [h2]
        exact ⟨fun hcl => h1 hcl.1, _, rfl⟩

theorem startAt_fall (c : Chart) (g : Cfg) (s : St) :
    startAt c g s = startAt c.noFall g s ∨
    (¬ (Clear c s ∧ ∀ x ∈ initChain c (c.depth + 1) s, Clear c x) ∧ ∃ l, startAt c g s = .raise l) := by
  unfold startAt
  rcases initLoop_fall c g (c.depth + 1) [] [[]] 0 { temp := s, log := [] } with h | ⟨h1, l, h2⟩
  · left; rw [h]; rfl
  · right; exact ⟨h1, l, by rw [h2]⟩

/-! ### `dispatch` -/

theorem callEntry_log {k k' : Ctx} (h : k.log = k'.log) (x : St) : (callEntry x k).log = (callEntry x k').log := by
  cases x <;> simp [callEntry, h]

theorem enterDown_log (tp : List St) : ∀ (ip : Nat) (k k' : Ctx), k.log = k'.log →
    (enterDown tp ip k).log = (enterDown tp ip k').log := by
  intro ip
  induction ip with
  | zero => intro k k' h; exact callEntry_log h _
  | succ ip ih => intro k k' h; rw [enterDown, enterDown]; exact ih _ _ (callEntry_log h _)

/-- `dispatch` after `trans_` returned `o`: entries, then the init drill-down from `T` -/
def afterTrans (c : Chart) (g : Cfg) (T : St) (o : TOut) : Outcome Res :=
  match drill c g (c.depth + 1) T o.tp (if g.resync then o.tp.length - 1 else 2)
      { temp := T, log := (if o.ip < 0 then o.k else enterDown o.tp o.ip.toNat o.k).log } with
  | .raise l => .raise l
  | .diverge l => .diverge l
  | .ok (t, k4) => .ok ⟨t, t, k4.log⟩

/-- `dispatch` after the search found the answering state `S` (target in `k.temp`) -/
def afterSearch (c : Chart) (g : Cfg) (cur S : St) (k : Ctx) : Outcome Res :=
  match exitWalk c S cur k with
  | .raise l => .raise l
  | .diverge l => .diverge l
  | .ok k1 =>
    match trans_ c [k.temp, cur, S] 2 k.temp S k1 with
    | .raise l => .raise l
    | .diverge l => .diverge l
    | .ok o => afterTrans c g k.temp o

theorem dispatch_tran {c : Chart} {g : Cfg} {cur : St} {n : Nat} {S : St} {k : Ctx}
    (h : searchLoop c n cur { temp := cur, log := [] } = (.tran S, k)) :
    dispatch c g cur n = afterSearch c g cur S k := by
  simp only [dispatch, h, afterSearch, afterTrans]
  cases exitWalk c S cur k with
  | raise l => rfl
  | diverge l => rfl
  | ok k1 =>
    simp only
    cases trans_ c [k.temp, cur, S] 2 k.temp S k1 with
    | raise l => rfl
    | diverge l => rfl
    | ok o => rfl

theorem afterTrans_same (c : Chart) (g : Cfg) (T : St) {o o' : TOut} (h : o.same o') :
    afterTrans c g T o = afterTrans c g T o' := by
  obtain ⟨h1, h2, _, h4⟩ := h
  have : (if o.ip < 0 then o.k else enterDown o.tp o.ip.toNat o.k).log =
      (if o'.ip < 0 then o'.k else enterDown o'.tp o'.ip.toNat o'.k).log := by
    rw [h1, h2]
    split
    · exact h4
    · exact enterDown_log _ _ _ _ h4
  unfold afterTrans
  rw [this, h2]

theorem afterTrans_fall (c : Chart) (g : Cfg) (hg : g.drillGuard = true) (T : St) (o : TOut) :
    afterTrans c g T o = afterTrans c.noFall g T o ∨
    ((∃ x ∈ initChain c (c.depth + 1) T, ¬ Clear c x) ∧ ∃ l, afterTrans c g T o = .raise l) := by
  unfold afterTrans
  rcases drill_fall c g hg (c.depth + 1) T o.tp (if g.resync then o.tp.length - 1 else 2)
    { temp := T, log := (if o.ip < 0 then o.k else enterDown o.tp o.ip.toNat o.k).log } with h | ⟨h1, l, h2⟩
  · left; rw [h]; rfl
  · right; exact ⟨h1, l, by rw [h2]⟩

theorem offers_tran (c : Chart) (n : Nat) : ∀ (cur S T : St), (offers c n cur).2 = .tran S T →
    c.react S n = .tran T := by
  intro cur
  induction cur with
  | nil => intro S T h; simp [offers] at h
  | cons a p ih =>
    intro S T h
    cases hr : c.react (a :: p) n with
    | tran t =>
      simp only [offers, hr, Answer.tran.injEq] at h
      obtain ⟨rfl, rfl⟩ := h; exact hr
    | handled => simp [offers, hr] at h
    | none => simp only [offers, hr] at h; exact ih S T h
    | unhandled => simp only [offers, hr] at h; exact ih S T h
    | pass => simp only [offers, hr] at h; exact ih S T h

/-- every path `dispatch` walks for event `n` in state `cur` is free of fall-through states:
the current state's path, the target's path, and the paths of the initial transitions' targets -/
def DClear (c : Chart) (cur : St) (n : Nat) : Prop :=
  Clear c cur ∧ ∀ S T, (offers c n cur).2 = .tran S T →
    Clear c T ∧ ∀ x ∈ initChain c (c.depth + 1) T, Clear c x

theorem afterSearch_fall (c : Chart) (g : Cfg) (hg : g.drillGuard = true) (cur S : St) (k : Ctx)
    (hT : k.temp ≠ []) (hS : S <:+ cur) :
    afterSearch c g cur S k = afterSearch c.noFall g cur S k ∨
    (¬ (Clear c cur ∧ Clear c k.temp ∧ ∀ x ∈ initChain c (c.depth + 1) k.temp, Clear c x) ∧
      ∃ l, afterSearch c g cur S k = .raise l) := by
  unfold afterSearch
  rcases exitWalk_fall c S cur k with h | ⟨h1, l, h2⟩
  · rw [h]
    cases exitWalk c.noFall S cur k with
    | raise l => left; rfl
    | diverge l => left; rfl
    | ok k1 =>
      simp only
      rcases trans_fall c [k.temp, cur, S] 2 k.temp S k1 hT with h | ⟨h1, l, h2⟩ | ⟨_, _, o, o', h1, h2, h3⟩
      · rw [h]
        cases trans_ c.noFall [k.temp, cur, S] 2 k.temp S k1 with
        | raise l => left; rfl
        | diverge l => left; rfl
        | ok o =>
          simp only
          rcases afterTrans_fall c g hg k.temp o with h | ⟨⟨x, hx1, hx2⟩, h2⟩
          · exact Or.inl h
          · exact Or.inr ⟨fun hc => hx2 (hc.2.2 x hx1), h2⟩
      · right
        rw [h2]
        exact ⟨fun hc => h1 ⟨hc.2.1, hc.1.of_suffix hS⟩, l, rfl⟩
      · rw [h1, h2]
        simp only
        rw [← afterTrans_same c.noFall g k.temp h3]
        rcases afterTrans_fall c g hg k.temp o with h | ⟨⟨x, hx1, hx2⟩, h2⟩
        · exact Or.inl h
        · exact Or.inr ⟨fun hc => hx2 (hc.2.2 x hx1), h2⟩
  · right
    rw [h2]
    exact ⟨fun hc => h1 hc.1, l, rfl⟩

/-- **`dispatch` on a chart with fall-through states**: it does exactly what it does on the chart
with all final `else` branches in place, or it meets a fall-through state on one of the paths it
walks and raises -/
theorem dispatch_fall (c : Chart) (g : Cfg) (hg : g.drillGuard = true)
    (htop : ∀ s n t, c.react s n = .tran t → t ≠ []) (cur : St) (n : Nat) :
    dispatch c g cur n = dispatch c.noFall g cur n ∨
    (¬ DClear c cur n ∧ ∃ l, dispatch c g cur n = .raise l) := by
  rcases searchLoop_fall c n cur { temp := cur, log := [] } with h | ⟨h1, k', h2⟩
  · cases hsl : searchLoop c n cur { temp := cur, log := [] } with
    | mk f k =>
      have hsl' : searchLoop c.noFall n cur { temp := cur, log := [] } = (f, k) := by rw [← h, hsl]
      cases f with
      | bad => left; simp only [dispatch, hsl, hsl']
      | ignored => left; simp only [dispatch, hsl, hsl']
      | handled => left; simp only [dispatch, hsl, hsl']
      | tran S =>
        obtain ⟨ho, hS, _⟩ := searchLoop_tran c n cur _ S k hsl
        have hT : k.temp ≠ [] := htop S n k.temp (offers_tran c n cur S k.temp ho)
        rw [dispatch_tran hsl, dispatch_tran hsl']
        rcases afterSearch_fall c g hg cur S k hT hS with h | ⟨h1, h2⟩
        · exact Or.inl h
        · right
          refine ⟨fun hd => h1 ⟨hd.1, ?_⟩, h2⟩
          exact hd.2 S k.temp ho
  · right
    exact ⟨fun hd => h1 hd.1, k'.log, by simp only [dispatch, h2]⟩

/-! ### the spec does not look at `fall` -/

theorem offersC_noFall (c : Chart) (n : Nat) : ∀ cur, offersC c.noFall n cur = offersC c n cur := by
  intro cur
  induction cur with
  | nil => rfl
  | cons a p ih => simp only [offersC, noFall_react, ih]

theorem settleC_noFall (c : Chart) : ∀ (fuel : Nat) (t : St), settleC c.noFall fuel t = settleC c fuel t := by
  intro fuel
  induction fuel with
  | zero => intro t; rfl
  | succ fuel ih => intro t; simp only [settleC, noFall_init, ih]

theorem specDispatchC_noFall (c : Chart) (cur : St) (n : Nat) :
    specDispatchC c.noFall cur n = specDispatchC c cur n := by
  unfold specDispatchC
  rw [offersC_noFall]
  simp only [settleC_noFall, noFall_depth]

theorem specStartC_noFall (c : Chart) (s : St) : specStartC c.noFall s = specStartC c s := by
  unfold specStartC
  simp only [settleC_noFall, noFall_depth]

theorem offers_noFall (c : Chart) (n : Nat) : ∀ cur, offers c.noFall n cur = offers c n cur := by
  intro cur
  induction cur with
  | nil => rfl
  | cons a p ih => simp only [offers, noFall_react, ih]

theorem settle_noFall (c : Chart) : ∀ (fuel : Nat) (t : St), settle c.noFall fuel t = settle c fuel t := by
  intro fuel
  induction fuel with
  | zero => intro t; rfl
  | succ fuel ih => intro t; simp only [settle, noFall_init, ih]

theorem specDispatch_noFall (c : Chart) (cur : St) (n : Nat) :
    specDispatch c.noFall cur n = specDispatch c cur n := by
  unfold specDispatch
  rw [offers_noFall]
  simp only [settle_noFall, noFall_depth]

theorem specStart_noFall (c : Chart) (s : St) : specStart c.noFall s = specStart c s := by
  unfold specStart
  simp only [settle_noFall, noFall_depth]

/-- with a single fall-through state `b`, a path that is not clear contains `b` -/
theorem on_path_of_not_clear {c : Chart} {b : St} (hb : ∀ s, s ≠ b → c.fall s = false) {X : St}
    (h : ¬ Clear c X) : b <:+ X :=
  Classical.byContradiction fun hn => h (clear_of_not_on_path hb hn)

/-! ### `dispatch` / `start_at` on any chart with fall-through states, against the checked spec -/

/-- for the switches `resync` and `drillGuard` on: where the checked spec says "malformed" the step
raises; otherwise it performs the specified actions and rests in the specified state, or it raises
because a fall-through state lies on one of the paths it walks.  It never diverges. -/
theorem dispatch_fall_checked (c : Chart) (g : Cfg) (hr : g.resync = true) (hd : g.drillGuard = true)
    (hdepth : ∀ s t, c.init s = some t → t.length ≤ c.depth)
    (htop : ∀ s n t, c.react s n = .tran t → t ≠ [])
    (cur : St) (n : Nat) :
    match specDispatchC c cur n with
    | some sr => (∃ r, dispatch c g cur n = .ok r ∧ actions r.log = sr.log ∧
                      r.state = sr.state ∧ r.temp = sr.state) ∨
                 (¬ DClear c cur n ∧ ∃ l, dispatch c g cur n = .raise l)
    | none => ∃ l, dispatch c g cur n = .raise l := by
  have h := dispatch_checked c.noFall (fun _ => rfl) g hr hd hdepth htop cur n
  rw [specDispatchC_noFall] at h
  rcases dispatch_fall c g hd htop cur n with e | ⟨h1, l, h2⟩
  · rw [e]
    cases hs : specDispatchC c cur n with
    | none => rw [hs] at h; exact h
    | some sr => rw [hs] at h; exact Or.inl h
  · cases hs : specDispatchC c cur n with
    | none => exact ⟨l, h2⟩
    | some sr => exact Or.inr ⟨h1, l, h2⟩

theorem start_fall_checked (c : Chart) (g : Cfg) (hg : g.initGuard = true)
    (hdepth : ∀ s t, c.init s = some t → t.length ≤ c.depth)
    (s : St) (hs : s ≠ []) (hd : 0 < c.depth ∨ c.init s = none) :
    match specStartC c s with
    | some sr => (∃ r, startAt c g s = .ok r ∧ actions r.log = sr.log ∧
                      r.state = sr.state ∧ r.temp = sr.state ∧ ∀ x ∈ r.log, x.sig ≠ .exit) ∨
                 (¬ (Clear c s ∧ ∀ x ∈ initChain c (c.depth + 1) s, Clear c x) ∧
                    ∃ l, startAt c g s = .raise l)
    | none => ∃ l, startAt c g s = .raise l := by
  have h := start_checked c.noFall (fun _ => rfl) g hg hdepth s hs hd
  rw [specStartC_noFall] at h
  rcases startAt_fall c g s with e | ⟨h1, l, h2⟩
  · rw [e]
    cases hsp : specStartC c s with
    | none => rw [hsp] at h; exact h
    | some sr => rw [hsp] at h; exact Or.inl h
  · cases hsp : specStartC c s with
    | none => exact ⟨l, h2⟩
    | some sr => exact Or.inr ⟨h1, l, h2⟩

end Miros.Hsm
