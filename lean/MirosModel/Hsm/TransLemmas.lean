import MirosModel.Hsm.BufLemmas
/-!
# `exitWalk` and `trans_` (topology cases a–g) against `boundary` / `pathUp`

`trans_spec`: started on the buffer `[T, cur, S]` with `max_index = 2`, `trans_` always succeeds,
exits exactly `pathUp (boundary S T) S`, leaves `T.drop i` in the cells `i < m` where
`T.drop m = boundary S T`, returns `ip = m - 1`, and keeps `max_index + 1 = len(tpath)`.
-/
namespace Miros.Hsm

theorem exitWalk_spec (c : Chart) (hf : ∀ s, c.fall s = false) (S : St) : ∀ (pre : St) (k : Ctx),
    ∃ k', exitWalk c S (pre ++ S) k = .ok k' ∧
      actions k'.log = actions k.log ++ (pathUp S (pre ++ S)).map (⟨·, Sig.exit⟩) := by
  intro pre
  induction pre with
  | nil => intro k; refine ⟨k, ?_, by simp⟩; unfold exitWalk; simp
  | cons a pre ih =>
    intro k
    have h1 : a :: (pre ++ S) ≠ S := ne_of_suffix_cons a (List.suffix_append pre S)
    obtain ⟨k', e, hl⟩ := ih (exitStep c (a :: (pre ++ S)) k)
    refine ⟨k', ?_, ?_⟩
    · rw [List.cons_append, exitWalk]
      simp only [h1, if_false, hf, Bool.false_eq_true]
      exact e
    · rw [hl, exitStep_actions, List.cons_append, pathUp_cons_of_ne h1]; simp

theorem eLoop_spec (c : Chart) (hf : ∀ s, c.fall s = false) (T S : St) :
    ∀ (x : St) (tp : List St) (mx ip : Nat) (k : Ctx),
    x = T.drop (ip + 1) → ip + 1 ≤ T.length → Buf tp T (ip + 1) → mx + 1 = tp.length → ip ≤ mx →
    ∃ o, eLoop c S x tp mx ip k = .ok o ∧ o.mx + 1 = o.tp.length ∧ actions o.k.log = actions k.log ∧
      ((o.found = true ∧ o.ip + 1 ≤ T.length ∧ T.drop (o.ip + 1) = S ∧ Buf o.tp T (o.ip + 1)) ∨
       (o.found = false ∧ o.ip = T.length ∧ Buf o.tp T (T.length + 1) ∧
          ∀ i, ip < i → i ≤ T.length → T.drop i ≠ S)) := by
  intro x
  induction x with
  | nil =>
    intro tp mx ip k hx hl hb hmx hip
    obtain ⟨tp1, mx1, hs, hmx1, _, _, hr, hrest⟩ := store_ok (tp := tp) (mx := mx) (ip := ip + 1) [] hmx (by omega)
    have hlen : ip + 1 = T.length := by
      have := List.drop_eq_nil_iff.mp hx.symm; omega
    have hb1 : Buf tp1 T (ip + 1 + 1) := hb.store hr hrest hx
    rw [eLoop]; simp only [hs]
    by_cases e : [] = S
    · refine ⟨⟨true, ip + 1 - 1, tp1, mx1, k⟩, by simp only [e, if_true], hmx1, rfl, Or.inl ⟨rfl, ?_, ?_, ?_⟩⟩
      · simp; omega
      · simp; rw [← hx]; exact e
      · simpa using hb1.mono (by omega)
    · refine ⟨⟨false, ip + 1, tp1, mx1, k⟩, by simp only [e, if_false], hmx1, rfl, Or.inr ⟨rfl, hlen, ?_, ?_⟩⟩
      · rw [← hlen]; exact hb1
      · intro i h1 h2
        have : i = ip + 1 := by omega
        subst this; rw [← hx]; exact e
  | cons a p ih =>
    intro tp mx ip k hx hl hb hmx hip
    obtain ⟨tp1, mx1, hs, hmx1, _, hip1, hr, hrest⟩ := store_ok (tp := tp) (mx := mx) (ip := ip + 1) (a :: p) hmx (by omega)
    have hb1 : Buf tp1 T (ip + 1 + 1) := hb.store hr hrest hx
    rw [eLoop]; simp only [hs]
    by_cases e : a :: p = S
    · refine ⟨⟨true, ip + 1 - 1, tp1, mx1, k⟩, by simp only [e, if_true], hmx1, rfl, Or.inl ⟨rfl, ?_, ?_, ?_⟩⟩
      · simp; omega
      · simp; rw [← hx]; exact e
      · simpa using hb1.mono (by omega)
    · have hlt := drop_cons_lt hx.symm
      obtain ⟨o, ho, h1, h2, h3⟩ := ih tp1 mx1 (ip + 1) (probe (a :: p) k) (drop_cons_tail hx.symm).symm
        (by omega) hb1 hmx1 hip1
      refine ⟨o, by simp only [e, if_false, hf, Bool.false_eq_true]; exact ho, h1, by rw [h2]; simp, ?_⟩
      rcases h3 with h3 | ⟨h3, h4, h5, h6⟩
      · exact Or.inl h3
      · refine Or.inr ⟨h3, h4, h5, ?_⟩
        intro i hi1 hi2
        by_cases hi : i = ip + 1
        · subst hi; rw [← hx]; exact e
        · exact h6 i (by omega) hi2

theorem gLoop_spec (c : Chart) (hf : ∀ s, c.fall s = false) (tp : List St) (T : St)
    (hb : Buf tp T (T.length + 1)) :
    ∀ (t : St) (k : Ctx), ¬ t <:+ T →
    ∃ (iq : Nat) (k' : Ctx), gLoop c tp T.length t k = .ok ((iq : Int) - 1, k') ∧ iq ≤ T.length ∧
      T.drop iq = lca t T ∧
      actions k'.log = actions k.log ++ (pathUp (lca t T) t).map (⟨·, Sig.exit⟩) := by
  intro t
  induction t with
  | nil => intro k h; exact absurd (List.nil_suffix) h
  | cons a p ih =>
    intro k h
    rw [lca_of_not_suffix h]
    cases hsc : scan p tp T.length with
    | some iq =>
      obtain ⟨h1, h2⟩ := scan_some hb hsc
      have hp : p <:+ T := suffix_iff_drop.mpr ⟨iq, h1, h2⟩
      refine ⟨iq, exitStep c (a :: p) k, ?_, h1, ?_, ?_⟩
      · rw [gLoop]; simp only [hsc, hf, Bool.false_eq_true, if_false]; rfl
      · rw [lca_of_suffix hp]; exact h2
      · rw [lca_of_suffix hp, pathUp_tail_self, exitStep_actions]; rfl
    | none =>
      have hp : ¬ p <:+ T := by
        intro hp
        obtain ⟨i, hi, e⟩ := suffix_iff_drop.mp hp
        exact scan_none hb hsc i hi e
      obtain ⟨iq, k', e, h1, h2, h3⟩ := ih (exitStep c (a :: p) k) hp
      refine ⟨iq, k', ?_, h1, h2, ?_⟩
      · rw [gLoop]; simp only [hsc, hf, Bool.false_eq_true, if_false]; exact e
      · rw [h3, exitStep_actions, pathUp_cons_of_ne (ne_of_suffix_cons a (lca_suffix_left p T))]
        simp

theorem trans_spec (c : Chart) (hf : ∀ s, c.fall s = false) (T S cur : St) (k : Ctx)
    (hT : T ≠ []) (hS : S ≠ []) :
    ∃ o, trans_ c [T, cur, S] 2 T S k = .ok o ∧ o.mx + 1 = o.tp.length ∧
      ∃ m : Nat, m ≤ T.length ∧ o.ip = (m : Int) - 1 ∧ T.drop m = boundary S T ∧ Buf o.tp T m ∧
        actions o.k.log = actions k.log ++ (pathUp (boundary S T) S).map (⟨·, Sig.exit⟩) := by
  obtain ⟨b, q, rfl⟩ := List.exists_cons_of_ne_nil hT
  obtain ⟨a, p, rfl⟩ := List.exists_cons_of_ne_nil hS
  have hbnd : ∀ (h : a :: p ≠ b :: q), boundary (a :: p) (b :: q) = lca (a :: p) (b :: q) := by
    intro h; simp only [boundary, if_neg h]
  have hbuf1 : ∀ x y : St, Buf [b :: q, x, y] (b :: q) 1 := by
    intro x y i hi
    have : i = 0 := by omega
    subst this; simp [rd]
  unfold trans_
  simp only [noSuper_eq_false hf, Bool.false_eq_true, if_false]
  by_cases hST : a :: p = b :: q
  · rw [if_pos hST]
    refine ⟨⟨0, [b :: q, cur, a :: p], 2, (callExit c (a :: p) k).2⟩, rfl, by simp, 1, by simp, by simp,
      ?_, hbuf1 _ _, ?_⟩
    · simp [boundary, hST]
    · simp only [boundary, if_pos hST, List.tail_cons, pathUp_tail_self, callExit_actions]; rfl
  · rw [if_neg hST, hbnd hST]
    by_cases h1 : a :: p = (probe (b :: q) k).temp
    · rw [if_pos h1]
      replace h1 : a :: p = q := h1
      have hsuf : (a :: p) <:+ (b :: q) := by rw [h1]; exact List.suffix_cons b q
      refine ⟨⟨0, [b :: q, cur, a :: p], 2, probe (b :: q) k⟩, rfl, by simp, 1, by simp, by simp, ?_, hbuf1 _ _, ?_⟩
      · rw [lca_of_suffix hsuf]; simp [h1]
      · rw [lca_of_suffix hsuf]; simp
    · rw [if_neg h1]
      replace h1 : a :: p ≠ q := h1
      by_cases h2 : (probe (a :: p) (probe (b :: q) k)).temp = (probe (b :: q) k).temp
      · rw [if_pos h2]
        replace h2 : p = q := h2
        have hns : ¬ (a :: p) <:+ (b :: q) := by
          intro h
          rcases List.suffix_cons_iff.mp h with h | h
          · exact hST h
          · rw [← h2] at h; exact cons_not_suffix_self a p h
        have hp : p <:+ b :: q := by rw [h2]; exact List.suffix_cons b q
        refine ⟨⟨0, [b :: q, cur, a :: p], 2, (callExit c (a :: p) (probe (a :: p) (probe (b :: q) k))).2⟩, rfl, by simp, 1, by simp, by simp, ?_, hbuf1 _ _, ?_⟩
        · rw [lca_of_not_suffix hns, lca_of_suffix hp]; simp [h2]
        · rw [lca_of_not_suffix hns, lca_of_suffix hp, pathUp_tail_self, callExit_actions]; simp
      · rw [if_neg h2]
        replace h2 : p ≠ q := h2
        by_cases h3 : (probe (a :: p) (probe (b :: q) k)).temp = b :: q
        · rw [if_pos h3]
          replace h3 : p = b :: q := h3
          have hns : ¬ (a :: p) <:+ (b :: q) := by
            rw [← h3]; exact cons_not_suffix_self a p
          have hp : p <:+ b :: q := by rw [h3]; exact List.suffix_refl _
          refine ⟨⟨-1, [b :: q, cur, a :: p], 2, (callExit c (a :: p) (probe (a :: p) (probe (b :: q) k))).2⟩, rfl, by simp, 0, by simp, by simp, ?_, fun i hi => absurd hi (by omega), ?_⟩
          · rw [lca_of_not_suffix hns, lca_of_suffix hp]; simp [h3]
          · rw [lca_of_not_suffix hns, lca_of_suffix hp, pathUp_tail_self, callExit_actions]; simp
        · rw [if_neg h3]
          replace h3 : p ≠ b :: q := h3
          simp only [probe_temp_cons]
          -- the (e) loop
          have hE : ∃ o, (match q with
                | [] => Outcome.ok (EOut.mk false 1 ([b :: q, cur, a :: p].set 1 q) 2
                          (probe q (probe (a :: p) (probe (b :: q) k))))
                | _ :: _ => eLoop c (a :: p) (probe q (probe (a :: p) (probe (b :: q) k))).temp
                          ([b :: q, cur, a :: p].set 1 q) 2 1
                          (probe q (probe (a :: p) (probe (b :: q) k)))) = .ok o ∧
              o.mx + 1 = o.tp.length ∧ actions o.k.log = actions k.log ∧
              ((o.found = true ∧ o.ip + 1 ≤ (b :: q).length ∧ (b :: q).drop (o.ip + 1) = a :: p ∧
                  Buf o.tp (b :: q) (o.ip + 1)) ∨
               (o.found = false ∧ o.ip = (b :: q).length ∧ Buf o.tp (b :: q) ((b :: q).length + 1) ∧
                  ∀ i, 1 < i → i ≤ (b :: q).length → (b :: q).drop i ≠ a :: p)) := by
            have hb2 : Buf ([b :: q, cur, a :: p].set 1 q) (b :: q) 2 := by
              intro i hi
              have : i = 0 ∨ i = 1 := by omega
              rcases this with rfl | rfl <;> simp [rd]
            cases q with
            | nil =>
              refine ⟨_, rfl, by simp, by simp, Or.inr ⟨rfl, by simp, by simpa using hb2, ?_⟩⟩
              intro i hi1 hi2; simp at hi2; omega
            | cons d q' =>
              obtain ⟨o, ho, g1, g2, g3⟩ := eLoop_spec c hf (b :: d :: q') (a :: p) q'
                ([b :: d :: q', cur, a :: p].set 1 (d :: q')) 2 1
                (probe (d :: q') (probe (a :: p) (probe (b :: d :: q') k))) (by simp) (by simp) hb2
                (by simp) (by omega)
              exact ⟨o, ho, g1, by rw [g2]; simp, g3⟩
          obtain ⟨o, ho, g1, g2, g3⟩ := hE
          split
          · rename_i heq; exact absurd (heq.symm.trans ho) (by simp)
          · rename_i heq; exact absurd (heq.symm.trans ho) (by simp)
          rename_i found ip tp2 mx2 k4 heq
          have hoo := heq.symm.trans ho
          simp only [Outcome.ok.injEq] at hoo
          subst hoo
          rcases g3 with ⟨f1, f2, f3, f4⟩ | ⟨f1, f2, f3, f4⟩
          · simp only at f1 f2 f3 f4 g1 g2
            subst f1
            have hsuf : (a :: p) <:+ (b :: q) := suffix_iff_drop.mpr ⟨ip + 1, f2, f3⟩
            simp only [if_true]
            refine ⟨_, rfl, g1, ip + 1, f2, by simp, ?_, f4, ?_⟩
            · rw [lca_of_suffix hsuf]; exact f3
            · rw [lca_of_suffix hsuf]; simp [g2]
          · simp only at f1 f2 f3 f4 g1 g2
            subst f1
            subst f2
            have hns : ¬ (a :: p) <:+ (b :: q) := by
              intro h
              obtain ⟨i, hi, e⟩ := suffix_iff_drop.mp h
              by_cases i0 : i = 0
              · subst i0; exact hST e.symm
              · by_cases i1 : i = 1
                · subst i1; exact h1 e.symm
                · exact f4 i (by omega) hi e
            simp only [Bool.false_eq_true, if_false]
            rw [lca_of_not_suffix hns]
            cases hsc : scan p tp2 (b :: q).length with
            | some iq =>
              obtain ⟨s1, s2⟩ := scan_some f3 hsc
              have hp : p <:+ b :: q := suffix_iff_drop.mpr ⟨iq, s1, s2⟩
              refine ⟨_, rfl, g1, iq, s1, rfl, ?_, f3.mono (by omega), ?_⟩
              · rw [lca_of_suffix hp]; exact s2
              · rw [lca_of_suffix hp, pathUp_tail_self, callExit_actions, g2]; simp
            | none =>
              have hp : ¬ p <:+ b :: q := by
                intro hp
                obtain ⟨i, hi, e⟩ := suffix_iff_drop.mp hp
                exact scan_none f3 hsc i hi e
              obtain ⟨iq, k', e, s1, s2, s3⟩ := gLoop_spec c hf tp2 (b :: q) f3 p (callExit c (a :: p) k4).2 hp
              simp only [e]
              refine ⟨_, rfl, g1, iq, s1, rfl, s2, f3.mono (by omega), ?_⟩
              rw [s3, callExit_actions, g2,
                pathUp_cons_of_ne (ne_of_suffix_cons a (lca_suffix_left p (b :: q)))]
              simp

end Miros.Hsm
