import MirosModel.Hsm.Spec
/-! Helper lemmas for layer 1 (property theorems live in `MirosModel/Props`). -/
namespace Miros.Hsm

@[simp] theorem actions_nil : actions [] = [] := rfl

@[simp] theorem actions_append (a b : Log) : actions (a ++ b) = actions a ++ actions b := by
  simp [actions]

@[simp] theorem actions_cons (x : Call) (l : Log) :
    actions (x :: l) = if isAction x then x :: actions l else actions l := by
  simp [actions, List.filter_cons]

@[simp] theorem isAction_search (s : St) : isAction ⟨s, .search⟩ = false := rfl
@[simp] theorem isAction_empty (s : St) : isAction ⟨s, .empty⟩ = false := rfl
@[simp] theorem isAction_refl (s : St) : isAction ⟨s, .refl⟩ = false := rfl
@[simp] theorem isAction_user (s : St) (n : Nat) : isAction ⟨s, .user n⟩ = true := rfl
@[simp] theorem isAction_entry (s : St) : isAction ⟨s, .entry⟩ = true := rfl
@[simp] theorem isAction_exit (s : St) : isAction ⟨s, .exit⟩ = true := rfl
@[simp] theorem isAction_init (s : St) : isAction ⟨s, .init⟩ = true := rfl

@[simp] theorem actions_search (s : St) : actions [⟨s, .search⟩] = [] := rfl
@[simp] theorem actions_empty (s : St) : actions [⟨s, .empty⟩] = [] := rfl
@[simp] theorem actions_user (s : St) (n : Nat) : actions [⟨s, .user n⟩] = [⟨s, .user n⟩] := rfl
@[simp] theorem actions_entry (s : St) : actions [⟨s, .entry⟩] = [⟨s, .entry⟩] := rfl
@[simp] theorem actions_exit (s : St) : actions [⟨s, .exit⟩] = [⟨s, .exit⟩] := rfl
@[simp] theorem actions_init (s : St) : actions [⟨s, .init⟩] = [⟨s, .init⟩] := rfl

/-- what the search loop found, as the spec's `Answer` -/
def Found.toAnswer : Found → St → Option Answer
  | .ignored, _ => some .ignored
  | .handled, _ => none   -- carries no state; compared separately
  | .tran s, t => some (.tran s t)
  | .bad, _ => none

/-- The outward search of `dispatch` offers the event exactly as the spec says. -/
theorem searchLoop_spec (c : Chart) (n : Nat) (hn : ∀ s, c.react s n ≠ .none)
    (hf : ∀ s, c.fall s = false) :
    ∀ (cur : St) (k : Ctx),
      actions (searchLoop c n cur k).2.log = actions k.log ++ (offers c n cur).1 ∧
      (match (offers c n cur).2 with
       | .ignored => (searchLoop c n cur k).1 = .ignored
       | .handled _ => (searchLoop c n cur k).1 = .handled
       | .tran S T => (searchLoop c n cur k).1 = .tran S ∧ (searchLoop c n cur k).2.temp = T) := by
  intro cur
  induction cur with
  | nil => intro k; simp [searchLoop, offers]
  | cons a p ih =>
    intro k
    have hne := hn (a :: p)
    cases hr : c.react (a :: p) n with
    | tran t => simp [searchLoop, offers, hr]
    | handled => simp [searchLoop, offers, hr]
    | none => exact absurd hr hne
    | unhandled =>
      have := ih { temp := p, log := k.log ++ [⟨a :: p, .user n⟩] ++ [⟨a :: p, .empty⟩] }
      simp only [searchLoop, offers, hr, hf, Bool.false_eq_true, if_false]
      constructor
      · simpa [List.append_assoc] using this.1
      · exact this.2
    | pass =>
      have := ih { temp := p, log := k.log ++ [⟨a :: p, .user n⟩] }
      simp only [searchLoop, offers, hr, hf, Bool.false_eq_true, if_false]
      constructor
      · simpa [List.append_assoc] using this.1
      · exact this.2

/-- the log only grows -/
theorem searchLoop_log_prefix (c : Chart) (n : Nat) :
    ∀ (cur : St) (k : Ctx), ∃ l, (searchLoop c n cur k).2.log = k.log ++ l ∧
      ∀ x ∈ l, x.sig = .user n ∨ x.sig = .empty := by
  intro cur
  induction cur with
  | nil => intro k; exact ⟨[], by simp [searchLoop]⟩
  | cons a p ih =>
    intro k
    cases hr : c.react (a :: p) n with
    | tran t => exact ⟨[⟨a :: p, .user n⟩], by simp [searchLoop, hr]⟩
    | handled => exact ⟨[⟨a :: p, .user n⟩], by simp [searchLoop, hr]⟩
    | none => exact ⟨[⟨a :: p, .user n⟩], by simp [searchLoop, hr]⟩
    | unhandled =>
      by_cases hfa : c.fall (a :: p) = true
      · exact ⟨[⟨a :: p, .user n⟩, ⟨a :: p, .empty⟩], by simp [searchLoop, hr, hfa]⟩
      replace hfa : c.fall (a :: p) = false := by simpa using hfa
      obtain ⟨l, h1, h2⟩ := ih { temp := p, log := k.log ++ [⟨a :: p, .user n⟩] ++ [⟨a :: p, .empty⟩] }
      refine ⟨[⟨a :: p, .user n⟩, ⟨a :: p, .empty⟩] ++ l, ?_, ?_⟩
      · simp only [searchLoop, hr, hfa, Bool.false_eq_true, if_false]; rw [h1]; simp
      · intro x hx; simp at hx; rcases hx with rfl | rfl | hx
        · simp
        · simp
        · exact h2 x hx
    | pass =>
      by_cases hfa : c.fall (a :: p) = true
      · exact ⟨[⟨a :: p, .user n⟩], by simp [searchLoop, hr, hfa]⟩
      replace hfa : c.fall (a :: p) = false := by simpa using hfa
      obtain ⟨l, h1, h2⟩ := ih { temp := p, log := k.log ++ [⟨a :: p, .user n⟩] }
      refine ⟨[⟨a :: p, .user n⟩] ++ l, ?_, ?_⟩
      · simp only [searchLoop, hr, hfa, Bool.false_eq_true, if_false]; rw [h1]; simp
      · intro x hx; simp at hx; rcases hx with rfl | hx
        · simp
        · exact h2 x hx

end Miros.Hsm
