import MirosModel.Conc.AO
import MirosModel.Gen.Constants
/-! Small scenarios for the non-vacuity examples and witnesses of C10, C11, C12, C31 -/
namespace Miros.Conc.AO.Ex
open Miros.Queue Miros.Conc.LD Miros.Conc.AO

/-- capacity 2, current posting algorithm, STOP is signal 8 -/
def exCfg : Config := ⟨Miros.Gen.ldAlg, 2, false, fun _ => [], 8⟩

/-- the generated tags with unlocked cancellation (the earlier code) -/
def tagsUnlocked : Tags := { Miros.Gen.aoTags with cancelLocked := false }
/-- the generated tags with ids / names compared by identity (the earlier code) -/
def tagsIdentity : Tags := { Miros.Gen.aoTags with cancelEq := false }

/-- run from the initial state with the given client programs and tracking capacity -/
def runEx (g : Tags) (clients : List (List Call)) (maxTimers : Nat) (sched : List Nat) : AO.State :=
  (AO.sys g exCfg).run (AO.init exCfg [] clients maxTimers) sched

/-- (results of the clients, number of timers, tracked indices, flags) -/
def view (s : AO.State) : List (List Nat) × Nat × List Nat × List Bool :=
  (s.clients.map (·.results), s.timers.length, s.order, s.timers.map (·.flag))

/-- per timer: (flag, pc, placement instants) -/
def tview (s : AO.State) : List (Bool × TmPc × List Nat) := s.timers.map fun t => (t.flag, t.pc, t.placedAt)

/-- per client: (remaining calls, pc) -/
def cview (s : AO.State) : List (Nat × CPc) := s.clients.map fun c => (c.calls.length, c.pc)

end Miros.Conc.AO.Ex
