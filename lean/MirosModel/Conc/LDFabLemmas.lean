import MirosModel.Conc.LDFab
import MirosModel.Conc.LDTermination
/-!
# Lemmas on `LDFab`: the consumer and the posters after the fabric flag was cleared

* the steps as relations (`CStep` for the consumer, `LD.PStep` for the posting programs);
* `FInv`: the program counters stay those of the current algorithm, the consumer is at `h` only
  with posts to make — enough for "a poster is never blocked" and "the consumer is blocked only at
  `w` with no token";
* a stopped system (`fabFlag = false`): the flag stays down, `dispatched` grows by at most the step
  in progress, `wakes` is stable, and every step decreases `stopMu`.
-/
namespace Miros.Conc.LDFab
open Miros.Queue Miros.Conc.LD

/-! ### the step function -/

theorem sys_step_iff {c : Config} {s s' : State} {t : Tid} :
    (sys c).step s t = some s' ↔ ∃ lbl, step c s t = some (s', lbl) := by
  simp only [sys, Option.map_eq_some_iff]
  constructor
  · rintro ⟨⟨s1, lbl⟩, h, rfl⟩; exact ⟨lbl, h⟩
  · rintro ⟨lbl, h⟩; exact ⟨(s', lbl), h, rfl⟩

theorem sys_step_none {c : Config} {s : State} {t : Tid} :
    (sys c).step s t = none ↔ step c s t = none := by
  simp [sys]

theorem stepL_succ {c : Config} {s s' : State} {i : Nat} {lbl : String}
    (h : stepL c s (i + 1) = some (s', lbl)) :
    ∃ p sh p', s.posters[i]? = some p ∧ posterStep c (shared s) p = some (sh, p', lbl) ∧
      s' = { (s.withShared sh) with posters := s.posters.set i p' } := by
  simp only [stepL] at h
  cases hp : s.posters[i]? with
  | none => simp [hp] at h
  | some p =>
    simp only [hp] at h
    cases hs : posterStep c (shared s) p with
    | none => simp [hs] at h
    | some r =>
      obtain ⟨sh, p', l⟩ := r
      simp only [hs, Option.some.injEq, Prod.mk.injEq] at h
      obtain ⟨h1, h2⟩ := h
      subst h2
      exact ⟨p, sh, p', rfl, hs, h1.symm⟩

/-- the three kinds of steps -/
theorem step_cases {c : Config} {s s' : State} {t : Tid} {lbl : String}
    (h : step c s t = some (s', lbl)) :
    (t = .fabstop ∧ s.fabFlag = true ∧ s' = { s with fabFlag := false }) ∨
    (t = .ld 0 ∧ consumerStep c s = some (s', lbl)) ∨
    (∃ i p sh p', t = .ld (i + 1) ∧ s.posters[i]? = some p ∧
      posterStep c (shared s) p = some (sh, p', lbl) ∧
      s' = { (s.withShared sh) with posters := s.posters.set i p' }) := by
  cases t with
  | fabstop =>
    simp only [step] at h
    split at h
    · rename_i hf
      simp only [Option.some.injEq, Prod.mk.injEq] at h
      exact .inl ⟨rfl, hf, h.1.symm⟩
    · cases h
  | ld k =>
    cases k with
    | zero => exact .inr (.inl ⟨rfl, h⟩)
    | succ i =>
      obtain ⟨p, sh, p', h1, h2, h3⟩ := stepL_succ (c := c) h
      exact .inr (.inr ⟨i, p, sh, p', rfl, h1, h2, h3⟩)

/-! ### the consumer's primitives as a relation -/

/-- moves of the consumer that change only its program counter (and possibly raise `err`) -/
def moveOk : CPc → CPc → Bool
  | .n, .p | .n, .d | .p, .d | .p, .r0 | .r0, .r1 | .r0, .q1 | .r0, .d | .r1, .d
  | .q1, .q2 | .q2, .d => true
  | _, _ => false

/-- one primitive of the consumer thread, without the label -/
inductive CStep (c : Config) (s : State) : State → Prop
  | tRun : s.cpc = .t → s.runFlag = true → CStep c s { s with cpc := .w }
  | tEnd : s.cpc = .t → s.runFlag = false → CStep c s { s with cpc := .fin }
  | get : s.cpc = .w → s.tok ≠ 0 → CStep c s { s with tok := s.tok - 1, cpc := .f }
  | fabUp : s.cpc = .f → s.fabFlag = true → CStep c s { s with cpc := .n }
  | fabDown : s.cpc = .f → s.fabFlag = false → CStep c s { s with runFlag := false, cpc := .d }
  | move (pc' : CPc) (e : Bool) : moveOk s.cpc pc' = true →
      CStep c s { s with cpc := pc', err := e }
  | pStop : s.cpc = .p → CStep c s { s with runFlag := false, cpc := .d }
  | pop (e : Ev) (rest : List Ev) (pc' : CPc) : s.cpc = .r1 → s.dq = e :: rest →
      (pc' = .h ∧ (mkInline c s.nextSelf (c.selfPosts e.sig)).posts ≠ [] ∨
       (pc' = .q1 ∨ pc' = .d) ∧ (mkInline c s.nextSelf (c.selfPosts e.sig)).posts = []) →
      CStep c s { s with dq := rest, dispatched := s.dispatched ++ [e],
                         inline := mkInline c s.nextSelf (c.selfPosts e.sig),
                         nextSelf := s.nextSelf + (mkInline c s.nextSelf (c.selfPosts e.sig)).posts.length,
                         cpc := pc' }
  | inl (sh : Shared) (p : Poster) (lbl : String) (pc' : CPc) : s.cpc = .h →
      posterStep c (shared s) s.inline = some (sh, p, lbl) →
      (pc' = .h ∧ p.posts ≠ [] ∨ (pc' = .q1 ∨ pc' = .d) ∧ p.posts = []) →
      CStep c s { (s.withShared sh) with inline := p, cpc := pc' }
  | ack (u : Nat) (e : Bool) : s.cpc = .d → CStep c s { s with unfinished := u, cpc := .t, err := e }

theorem afterDispatch_cases (c : Config) : afterDispatch c = .q1 ∨ afterDispatch c = .d := by
  unfold afterDispatch; split <;> simp

theorem consumerStep_CStep {c : Config} {s s' : State} {lbl : String}
    (h : consumerStep c s = some (s', lbl)) : CStep c s s' := by
  unfold consumerStep at h
  split at h
  · cases h
  · rename_i hc
    split at h <;> cases h
    · exact .tRun hc ‹_›
    · exact .tEnd hc (by simpa using ‹¬ s.runFlag = true›)
  · rename_i hc
    split at h <;> cases h
    exact .get hc ‹_›
  · rename_i hc
    split at h <;> cases h
    · exact .fabUp hc ‹_›
    · exact .fabDown hc (by simpa using ‹¬ s.fabFlag = true›)
  · rename_i hc
    split at h <;> cases h
    · exact .move .p s.err (by rw [hc]; rfl)
    · exact .move .d s.err (by rw [hc]; rfl)
  · rename_i hc
    split at h
    · cases h; exact .move .d true (by rw [hc]; rfl)
    · split at h <;> cases h
      · exact .pStop hc
      · exact .move .r0 s.err (by rw [hc]; rfl)
  · rename_i hc
    split at h <;> cases h
    · exact .move .r1 s.err (by rw [hc]; rfl)
    · rcases afterDispatch_cases c with h1 | h1 <;> rw [h1] <;>
        exact .move _ s.err (by rw [hc]; rfl)
  · rename_i hc
    split at h
    · cases h; exact .move .d true (by rw [hc]; rfl)
    · rename_i e rest hd
      dsimp only at h
      split at h <;> cases h
      · rename_i hp
        exact .pop e rest _ hc hd (.inr ⟨afterDispatch_cases c, hp⟩)
      · rename_i hp
        exact .pop e rest _ hc hd (.inl ⟨rfl, hp⟩)
  · rename_i hc
    split at h
    · cases h
    · rename_i sh p lbl' heq
      split at h <;> cases h
      · rename_i hp
        exact .inl sh p _ _ hc heq (.inr ⟨afterDispatch_cases c, hp⟩)
      · rename_i hp
        have e : ({ (s.withShared sh) with inline := p } : State) =
            { (s.withShared sh) with inline := p, cpc := .h } := by
          simp only [State.withShared, hc]
        rw [e]
        exact .inl sh p _ .h hc heq (.inl ⟨rfl, hp⟩)
  · rename_i hc
    cases h; exact .move .q2 s.err (by rw [hc]; rfl)
  · rename_i hc
    cases h; exact .move .d s.err (by rw [hc]; rfl)
  · rename_i hc
    split at h <;> cases h
    · exact .ack s.unfinished true hc
    · exact .ack _ s.err hc

/-! ### the fabric flag and `dispatched` -/

theorem CStep.fabFlag_eq {c : Config} {s s' : State} (h : CStep c s s') : s'.fabFlag = s.fabFlag := by
  cases h <;> rfl

theorem step_fab_down {c : Config} {s s' : State} {t : Tid} {lbl : String}
    (h : step c s t = some (s', lbl)) (hf : s.fabFlag = false) : s'.fabFlag = false := by
  rcases step_cases h with ⟨_, _, rfl⟩ | ⟨_, hc⟩ | ⟨i, p, sh, p', _, _, _, rfl⟩
  · rfl
  · rw [(consumerStep_CStep hc).fabFlag_eq]; exact hf
  · exact hf

theorem run_fab_down (c : Config) (s : State) (sch : List Tid) (hf : s.fabFlag = false) :
    (run c s sch).fabFlag = false :=
  (sys c).inv_run (fun s => s.fabFlag = false)
    (fun s t s' hI hs => by obtain ⟨lbl, h⟩ := sys_step_iff.mp hs; exact step_fab_down h hI) sch s hf

theorem moveOk_ne_h {a b : CPc} (h : moveOk a b = true) : b ≠ .h := by
  cases a <;> cases b <;> simp [moveOk] at h ⊢

theorem CStep.dispatched {c : Config} {s s' : State} (h : CStep c s s') (hf : s.fabFlag = false) :
    (pastTest s = false → pastTest s' = false ∧ s'.dispatched = s.dispatched) ∧
    (pastTest s = true → s'.dispatched = s.dispatched ∨
      (pastTest s' = false ∧ ∃ e, s'.dispatched = s.dispatched ++ [e])) := by
  cases h with
  | move pc' e hm =>
    cases hc : s.cpc <;> cases pc' <;> simp [moveOk, hc] at hm <;> simp [pastTest, hc]
  | fabUp hc hu => rw [hf] at hu; cases hu
  | pop e rest pc' hc hd hp =>
    refine ⟨fun h => by simp [pastTest, hc] at h, fun _ => .inr ⟨?_, e, rfl⟩⟩
    rcases hp with ⟨rfl, _⟩ | ⟨rfl | rfl, _⟩ <;> rfl
  | inl sh p lbl pc' hc hs hp =>
    refine ⟨fun _ => ⟨?_, rfl⟩, fun _ => .inl rfl⟩
    rcases hp with ⟨rfl, _⟩ | ⟨rfl | rfl, _⟩ <;> rfl
  | _ => simp_all [pastTest]

theorem step_dispatched {c : Config} {s s' : State} {t : Tid} {lbl : String}
    (h : step c s t = some (s', lbl)) (hf : s.fabFlag = false) :
    (pastTest s = false → pastTest s' = false ∧ s'.dispatched = s.dispatched) ∧
    (pastTest s = true → s'.dispatched = s.dispatched ∨
      (pastTest s' = false ∧ ∃ e, s'.dispatched = s.dispatched ++ [e])) := by
  rcases step_cases h with ⟨_, hu, rfl⟩ | ⟨_, hc⟩ | ⟨i, p, sh, p', _, _, _, rfl⟩
  · rw [hf] at hu; cases hu
  · exact (consumerStep_CStep hc).dispatched hf
  · exact ⟨fun h => ⟨h, rfl⟩, fun _ => .inl rfl⟩

/-- a stopped system whose consumer is not between the fabric test and the dispatch never
dispatches again -/
theorem run_no_dispatch (c : Config) (s : State) (sch : List Tid) (hf : s.fabFlag = false)
    (hp : pastTest s = false) :
    (run c s sch).fabFlag = false ∧ pastTest (run c s sch) = false ∧
      (run c s sch).dispatched = s.dispatched := by
  refine (sys c).inv_run
    (fun s' => s'.fabFlag = false ∧ pastTest s' = false ∧ s'.dispatched = s.dispatched) ?_ sch s
    ⟨hf, hp, rfl⟩
  intro s1 t s2 ⟨h1, h2, h3⟩ hs
  obtain ⟨lbl, h⟩ := sys_step_iff.mp hs
  have := (step_dispatched h h1).1 h2
  exact ⟨step_fab_down h h1, this.1, this.2.trans h3⟩

/-- a stopped system dispatches at most the event of the step in progress -/
theorem run_dispatch_le_one (c : Config) (s : State) (sch : List Tid) (hf : s.fabFlag = false) :
    (run c s sch).dispatched = s.dispatched ∨
    (pastTest s = true ∧ pastTest (run c s sch) = false ∧
      ∃ e, (run c s sch).dispatched = s.dispatched ++ [e]) := by
  have key := (sys c).inv_run
    (fun s' => s'.fabFlag = false ∧
      ((s'.dispatched = s.dispatched ∧ (pastTest s' = true → pastTest s = true)) ∨
       (pastTest s' = false ∧ pastTest s = true ∧ ∃ e, s'.dispatched = s.dispatched ++ [e])))
    ?_ sch s ⟨hf, .inl ⟨rfl, id⟩⟩
  · rcases key.2 with ⟨h, _⟩ | ⟨h1, h2, h3⟩
    · exact .inl h
    · exact .inr ⟨h2, h1, h3⟩
  · intro s1 t s2 ⟨h1, h2⟩ hs
    obtain ⟨lbl, h⟩ := sys_step_iff.mp hs
    have hd := step_dispatched h h1
    refine ⟨step_fab_down h h1, ?_⟩
    rcases h2 with ⟨ha, hb⟩ | ⟨ha, hb, e, he⟩
    · cases hp : pastTest s1 with
      | false =>
        have := hd.1 hp
        exact .inl ⟨this.2.trans ha, fun h' => by rw [this.1] at h'; cases h'⟩
      | true =>
        rcases hd.2 hp with h' | ⟨h', e, he⟩
        · exact .inl ⟨h'.trans ha, fun _ => hb hp⟩
        · exact .inr ⟨h', hb hp, e, by rw [he, ha]⟩
    · have := hd.1 ha
      exact .inr ⟨this.1, hb, e, this.2.trans he⟩

/-! ### a finished consumer -/

theorem step_fin {c : Config} {s s' : State} {t : Tid} {lbl : String}
    (h : step c s t = some (s', lbl)) (hfin : s.cpc = .fin) :
    s'.cpc = .fin ∧ s'.dispatched = s.dispatched := by
  rcases step_cases h with ⟨_, _, rfl⟩ | ⟨_, hc⟩ | ⟨i, p, sh, p', _, _, _, rfl⟩
  · exact ⟨hfin, rfl⟩
  · simp [consumerStep, hfin] at hc
  · exact ⟨hfin, rfl⟩

theorem run_fin (c : Config) (s : State) (sch : List Tid) (hfin : s.cpc = .fin) :
    (run c s sch).cpc = .fin ∧ (run c s sch).dispatched = s.dispatched := by
  refine (sys c).inv_run (fun s' => s'.cpc = .fin ∧ s'.dispatched = s.dispatched) ?_ sch s ⟨hfin, rfl⟩
  intro s1 t s2 ⟨h1, h2⟩ hs
  obtain ⟨lbl, h⟩ := sys_step_iff.mp hs
  have := step_fin h h1
  exact ⟨this.1, this.2.trans h2⟩

theorem consumer_disabled_of_fin (c : Config) (s : State) (hfin : s.cpc = .fin) :
    step c s (.ld 0) = none := by
  simp [step, stepL, consumerStep, hfin]

/-! ### the invariant on program counters -/

/-- program counters of the current algorithm; the consumer is at `h` only with posts to make -/
structure FInv (s : State) : Prop where
  progs : ∀ p ∈ allP s, p.posts ≠ [] → taPc p.pc = true
  inlBusy : s.cpc = .h → s.inline.posts ≠ []

theorem pstep_taPc_next {c : Config} {sh sh' : Shared} {p p' : Poster} (halg : c.alg = .tokenAfter)
    (h : PStep c sh p sh' p') : p'.posts ≠ [] → taPc p'.pc = true := by
  cases h with
  | adv x rest pc' hp hpc hc => rcases hc with ⟨rfl, _⟩ | ⟨rfl, _⟩ <;> intro _ <;> rfl
  | exit x rest hp hc =>
    rw [halg]; intro _
    rcases nextPost_pc hp with h | h <;> simp [h, taPc]
  | _ => intro _; rfl

theorem FInv.init {c : Config} (halg : c.alg = .tokenAfter) (progs : List (List (Kind × Ev))) :
    FInv (init c progs) := by
  refine ⟨?_, by simp [LDFab.init, LD.init]⟩
  intro p hp
  simp only [allP, LDFab.init, LD.init, List.mem_cons, List.mem_map] at hp
  rcases hp with rfl | ⟨pr, _, rfl⟩
  · intro h; exact absurd rfl h
  · cases pr with
    | nil => intro h; exact absurd rfl h
    | cons x rest =>
      obtain ⟨k, e⟩ := x
      intro _; simp only [halg]; cases k <;> rfl

theorem FInv.step {c : Config} (halg : c.alg = .tokenAfter) {s s' : State} {t : Tid} {lbl : String}
    (hI : FInv s) (h : step c s t = some (s', lbl)) : FInv s' := by
  rcases step_cases h with ⟨_, _, rfl⟩ | ⟨_, hc⟩ | ⟨i, p, sh, p', _, hp, hs, rfl⟩
  · exact ⟨hI.progs, hI.inlBusy⟩
  · have hcs := consumerStep_CStep hc
    clear hc h
    cases hcs with
    | move pc' e hm =>
      exact ⟨hI.progs, fun h => absurd h (moveOk_ne_h hm)⟩
    | pop e rest pc' hc hd hp =>
      refine ⟨?_, ?_⟩
      · intro q hq
        simp only [allP, List.mem_cons] at hq
        rcases hq with rfl | hq
        · intro _
          rcases mkInline_pc halg s.nextSelf (c.selfPosts e.sig) with h | h <;> simp [h, taPc]
        · exact hI.progs q (by simp [allP, hq])
      · rcases hp with ⟨_, hp⟩ | ⟨h1 | h1, _⟩
        · exact fun _ => hp
        · intro h2; rw [h1] at h2; cases h2
        · intro h2; rw [h1] at h2; cases h2
    | inl sh p lbl' pc' hc hs hp =>
      have hne := hI.inlBusy hc
      have hps := posterStep_PStep halg (hI.progs _ (by simp [allP]) hne) hs
      refine ⟨?_, ?_⟩
      · intro q hq
        simp only [allP, List.mem_cons] at hq
        rcases hq with rfl | hq
        · exact pstep_taPc_next halg hps
        · exact hI.progs q (by simp [allP, State.withShared] at hq ⊢; exact .inr hq)
      · rcases hp with ⟨_, hp⟩ | ⟨h1 | h1, _⟩
        · exact fun _ => hp
        · intro h2; rw [h1] at h2; cases h2
        · intro h2; rw [h1] at h2; cases h2
    | _ => exact ⟨hI.progs, fun h => by cases h⟩
  · have hmem : p ∈ allP s := by
      unfold allP; exact List.mem_cons_of_mem _ (List.mem_of_getElem? hp)
    have hne : p.posts ≠ [] := by
      intro h0; unfold posterStep at hs; rw [h0] at hs; simp at hs
    have hps := posterStep_PStep halg (hI.progs p hmem hne) hs
    refine ⟨?_, hI.inlBusy⟩
    intro q hq
    simp only [allP, List.mem_cons] at hq
    rcases hq with rfl | hq
    · exact hI.progs _ (by simp [allP, State.withShared])
    · rcases List.mem_or_eq_of_mem_set hq with hq | rfl
      · exact hI.progs q (by simp [allP] at hq ⊢; exact .inr hq)
      · exact pstep_taPc_next halg hps

theorem FInv.run {c : Config} (halg : c.alg = .tokenAfter) (sch : List Tid) (s : State)
    (hI : FInv s) : FInv (run c s sch) :=
  (sys c).inv_run FInv
    (fun _ _ _ hI hs => by obtain ⟨lbl, h⟩ := sys_step_iff.mp hs; exact hI.step halg h) sch s hI

/-! ### who is enabled -/

theorem poster_enabled {c : Config} (halg : c.alg = .tokenAfter) {s : State} (hI : FInv s)
    {i : Nat} {p : Poster} (hp : s.posters[i]? = some p) (hne : p.posts ≠ []) :
    step c s (.ld (i + 1)) ≠ none := by
  have hmem : p ∈ allP s := by
    unfold allP; exact List.mem_cons_of_mem _ (List.mem_of_getElem? hp)
  have hpc := hI.progs p hmem hne
  have hf1 : p.pc ≠ .f1 := by intro h; rw [h] at hpc; simp [taPc] at hpc
  have := posterStep_isSome halg (shared s) hne hf1
  simp only [step, stepL, hp]
  split
  · contradiction
  · simp

/-- a poster that is enabled has posts left -/
theorem poster_enabled_posts {c : Config} {s : State} {i : Nat}
    (h : step c s (.ld (i + 1)) ≠ none) : ∃ p, s.posters[i]? = some p ∧ p.posts ≠ [] := by
  simp only [step, stepL] at h
  cases hp : s.posters[i]? with
  | none => simp [hp] at h
  | some p =>
    refine ⟨p, rfl, fun h0 => ?_⟩
    simp [hp, posterStep, h0] at h

/-- the consumer is blocked only when it has ended or waits with no token available -/
theorem consumer_enabled {c : Config} (halg : c.alg = .tokenAfter) {s : State} (hI : FInv s)
    (hfin : s.cpc ≠ .fin) (hw : ¬ (s.cpc = .w ∧ s.tok = 0)) : step c s (.ld 0) ≠ none := by
  simp only [step, stepL]
  unfold consumerStep
  split
  · contradiction
  · split <;> simp
  · rename_i hc
    split
    · rename_i h0; exact absurd ⟨hc, h0⟩ hw
    · simp
  · split <;> simp
  · split <;> simp
  · split
    · simp
    · split <;> simp
  · split <;> simp
  · split
    · simp
    · dsimp only; split <;> simp
  · rename_i hc
    have hne := hI.inlBusy hc
    have hpc := hI.progs s.inline (by simp [allP]) hne
    have hf1 : s.inline.pc ≠ .f1 := by intro h; rw [h] at hpc; simp [taPc] at hpc
    have := posterStep_isSome halg (shared s) hne hf1
    split
    · contradiction
    · split <;> simp
  · simp
  · simp
  · split <;> simp

/-! ### the measure: posting programs -/

theorem pwork_nextPost {p : Poster} {x : Kind × Ev} {rest : List (Kind × Ev)}
    (hp : p.posts = x :: rest) : pwork (nextPost .tokenAfter p) ≤ 8 * rest.length := by
  have h1 := nextPost_posts .tokenAfter hp
  have h2 := nextPost_pc hp
  unfold pwork; rw [h1]
  cases rest with
  | nil => simp
  | cons y r => rcases h2 with h2 | h2 <;> simp [h2, pw] <;> omega

theorem pwork_cons {p : Poster} {x : Kind × Ev} {rest : List (Kind × Ev)}
    (hp : p.posts = x :: rest) : pwork p = 8 * rest.length + pw p.pc := by
  simp [pwork, hp]

/-- every primitive of a posting program decreases its work plus the room left for tokens -/
theorem pstep_work {c : Config} {sh sh' : Shared} {p p' : Poster} (halg : c.alg = .tokenAfter)
    (h : PStep c sh p sh' p') :
    pwork p' + 3 * (c.cap - sh'.tok) < pwork p + 3 * (c.cap - sh.tok) ∧ sh.tok ≤ sh'.tok := by
  cases h with
  | adv x rest pc' hp hpc hc =>
    have h0 := pwork_cons hp
    have h1 : pwork { p with pc := pc' } = 8 * rest.length + pw pc' := pwork_cons (p := { p with pc := pc' }) hp
    rw [h0, h1, hpc]
    rcases hc with ⟨rfl, _⟩ | ⟨rfl, _⟩ <;> simp [pw]
  | rot x rest hp hpc =>
    have h0 := pwork_cons hp
    have h1 : pwork { p with pc := .b2 } = 8 * rest.length + pw .b2 := pwork_cons (p := { p with pc := .b2 }) hp
    rw [h0, h1, hpc]; simp [pw]
  | place x rest r hp hc =>
    have h0 := pwork_cons hp
    have h1 : pwork { p with pc := .s0 } = 8 * rest.length + pw .s0 := pwork_cons (p := { p with pc := .s0 }) hp
    rw [h0, h1]
    rcases hc with ⟨h | h, _⟩ | ⟨h, _⟩ <;> simp [h, pw]
  | put x rest hp hpc hlt =>
    have h0 := pwork_cons hp
    have h1 : pwork { p with pc := .s1 } = 8 * rest.length + pw .s1 := pwork_cons (p := { p with pc := .s1 }) hp
    rw [h0, h1]
    rcases hpc with h | h <;> simp [h, pw] <;> omega
  | exit x rest hp hc =>
    rw [halg]
    have h1 := pwork_nextPost hp
    have h0 := pwork_cons hp
    have h2 : 1 ≤ pw p.pc := by rcases hc with ⟨h, _⟩ | ⟨h, _⟩ | ⟨h, _⟩ <;> simp [h, pw]
    exact ⟨by omega, Nat.le_refl _⟩
  | read x rest hp hpc =>
    have h0 := pwork_cons hp
    have h1 : pwork { p with pc := .s2, q := sh.tok } = 8 * rest.length + pw .s2 :=
      pwork_cons (p := { p with pc := .s2, q := sh.tok }) hp
    rw [h0, h1, hpc]; simp [pw]
  | again x rest hp hpc hq =>
    have h0 := pwork_cons hp
    have h1 : pwork { p with pc := .s3 } = 8 * rest.length + pw .s3 := pwork_cons (p := { p with pc := .s3 }) hp
    rw [h0, h1, hpc]; simp [pw]

/-- a primitive of a posting program brings no new event: what is in the deque afterwards was there
or is one of the program's posts; the program's posts only shrink -/
theorem pstep_evs {c : Config} {sh sh' : Shared} {p p' : Poster} (halg : c.alg = .tokenAfter)
    (h : PStep c sh p sh' p') :
    (∀ e ∈ sh'.dq, e ∈ sh.dq ∨ e ∈ p.posts.map (·.2)) ∧ (∀ x ∈ p'.posts, x ∈ p.posts) := by
  cases h with
  | rot x rest hp hpc => exact ⟨fun e he => .inl (mem_dqRotate he), fun x hx => hx⟩
  | place x rest r hp hc =>
    refine ⟨fun e he => ?_, fun x hx => hx⟩
    have : e ∈ sh.dq ∨ e = x.2 := by
      rcases hc with ⟨_, rfl⟩ | ⟨_, rfl⟩
      · exact mem_dqAppend he
      · exact mem_dqAppendLeft he
    rcases this with h | h
    · exact .inl h
    · exact .inr (by rw [hp, h]; simp)
  | exit x rest hp hc =>
    rw [halg]
    refine ⟨fun e he => .inl he, fun y hy => ?_⟩
    rw [nextPost_posts .tokenAfter hp] at hy; rw [hp]; exact List.mem_cons_of_mem _ hy
  | _ => exact ⟨fun e he => .inl he, fun x hx => hx⟩

theorem maxCost_le_iff (c : Config) (l : List Ev) (B : Nat) :
    maxCost c l ≤ B ↔ ∀ e ∈ l, evCost c e ≤ B := by
  induction l with
  | nil => simp [maxCost]
  | cons a l ih =>
    simp only [maxCost, List.foldr_cons] at ih ⊢
    rw [Nat.max_le, ih]; simp

theorem evCost_le_maxCost {c : Config} {l : List Ev} {e : Ev} (h : e ∈ l) :
    evCost c e ≤ maxCost c l := (maxCost_le_iff c l _).mp (Nat.le_refl _) e h

theorem maxCost_mono (c : Config) {l l' : List Ev} (h : ∀ e ∈ l', e ∈ l) :
    maxCost c l' ≤ maxCost c l :=
  (maxCost_le_iff c l' _).mpr fun e he => evCost_le_maxCost (h e he)

theorem selfBound_poster {c : Config} {s : State} {i : Nat} {p p' : Poster} {sh : Shared}
    (halg : c.alg = .tokenAfter) (hp : s.posters[i]? = some p) (hps : PStep c (shared s) p sh p') :
    selfBound c { (s.withShared sh) with posters := s.posters.set i p' } ≤ selfBound c s := by
  apply maxCost_mono
  intro e he
  have hev := pstep_evs halg hps
  have hmem := List.mem_of_getElem? hp
  simp only [pendEvs, State.withShared, List.mem_append, List.mem_flatMap, List.mem_map] at he ⊢
  rcases he with he | ⟨q, hq, x, hx, rfl⟩
  · rcases hev.1 e he with h | h
    · exact .inl h
    · simp only [List.mem_map] at h
      obtain ⟨x, hx, rfl⟩ := h
      exact .inr ⟨p, hmem, x, hx, rfl⟩
  · rcases List.mem_or_eq_of_mem_set hq with hq | rfl
    · exact .inr ⟨q, hq, x, hx, rfl⟩
    · exact .inr ⟨p, hmem, x, hev.2 x hx, rfl⟩

theorem cw_le_of {c : Config} {s s' : State} (hr : s'.runFlag = s.runFlag) (hc : s'.cpc = s.cpc)
    (hi : s'.inline = s.inline) (hb : selfBound c s' ≤ selfBound c s) : cw c s' ≤ cw c s := by
  unfold cw; rw [hr, hc, hi]
  cases s.cpc <;> simp <;> omega

theorem pwork_mkInline (c : Config) (first : Nat) (l : List (Kind × Nat)) :
    pwork (mkInline c first l) ≤ 8 * l.length := by
  have h1 := mkInline_posts c first l
  have h2 := inlPosts_length first l
  unfold pwork
  split
  · omega
  · rename_i y rest hp
    rw [h1] at hp; rw [hp] at h2; simp at h2
    have : pw (mkInline c first l).pc ≤ 7 := by cases (mkInline c first l).pc <;> simp [pw]
    omega

/-! ### the measure: every step of a stopped system decreases it -/

theorem cstep_mu {c : Config} (halg : c.alg = .tokenAfter) {s s' : State} (hI : FInv s)
    (hf : s.fabFlag = false) (h : CStep c s s') : stopMu c s' < stopMu c s := by
  cases h with
  | tRun hc hr => simp [stopMu, cw, hc, hr, dW]
  | tEnd hc hr => simp [stopMu, cw, hc, hr, dW]
  | get hc ht => simp [stopMu, cw, hc]; omega
  | fabUp hc hu => rw [hf] at hu; cases hu
  | fabDown hc _ => simp [stopMu, cw, hc, dW]
  | move pc' e hm =>
    cases hc : s.cpc <;> cases pc' <;> simp [moveOk, hc] at hm <;>
      simp [stopMu, cw, hc, selfBound, pendEvs] <;> omega
  | pStop hc =>
    have : 2 ≤ dW s.runFlag := by unfold dW; split <;> omega
    simp [stopMu, cw, hc, dW] at this ⊢; omega
  | pop e rest pc' hc hd hp =>
    have h1 : evCost c e ≤ selfBound c s :=
      evCost_le_maxCost (by simp [pendEvs, hd])
    have h2 := pwork_mkInline c s.nextSelf (c.selfPosts e.sig)
    unfold evCost at h1
    rcases hp with ⟨rfl, _⟩ | ⟨rfl | rfl, _⟩ <;> simp [stopMu, cw, hc] <;> omega
  | inl sh p lbl pc' hc hs hp =>
    have hne := hI.inlBusy hc
    have hps := posterStep_PStep halg (hI.progs _ (by simp [allP]) hne) hs
    have hw : pwork p + 3 * (c.cap - sh.tok) < pwork s.inline + 3 * (c.cap - s.tok) ∧ s.tok ≤ sh.tok :=
      pstep_work halg hps
    rcases hp with ⟨rfl, _⟩ | ⟨rfl | rfl, hp0⟩ <;>
      simp [stopMu, cw, hc, State.withShared] <;> omega
  | ack u e hc =>
    have : 2 ≤ dW s.runFlag := by unfold dW; split <;> omega
    simp [stopMu, cw, hc]; omega

theorem step_mu {c : Config} (halg : c.alg = .tokenAfter) {s s' : State} {t : Tid} {lbl : String}
    (hI : FInv s) (hf : s.fabFlag = false) (h : step c s t = some (s', lbl)) :
    stopMu c s' < stopMu c s := by
  rcases step_cases h with ⟨_, hu, rfl⟩ | ⟨_, hc⟩ | ⟨i, p, sh, p', _, hp, hs, rfl⟩
  · rw [hf] at hu; cases hu
  · exact cstep_mu halg hI hf (consumerStep_CStep hc)
  · have hmem : p ∈ allP s := by
      unfold allP; exact List.mem_cons_of_mem _ (List.mem_of_getElem? hp)
    have hne : p.posts ≠ [] := by
      intro h0; unfold posterStep at hs; rw [h0] at hs; simp at hs
    have hps := posterStep_PStep halg (hI.progs p hmem hne) hs
    have hw : pwork p' + 3 * (c.cap - sh.tok) < pwork p + 3 * (c.cap - s.tok) ∧ s.tok ≤ sh.tok :=
      pstep_work halg hps
    have hsum := sum_set pwork s.posters i p p' hp
    have hcw : cw c { (s.withShared sh) with posters := s.posters.set i p' } ≤ cw c s :=
      cw_le_of rfl rfl rfl (selfBound_poster halg hp hps)
    have e : stopMu c { (s.withShared sh) with posters := s.posters.set i p' } =
        ((s.posters.set i p').map pwork).sum +
          cw c { (s.withShared sh) with posters := s.posters.set i p' } + 3 * (c.cap - sh.tok) := rfl
    rw [e]; unfold stopMu; omega

/-! ### `wakes` is stable in a stopped system -/

theorem cstep_wakes {c : Config} (halg : c.alg = .tokenAfter) {s s' : State} (hI : FInv s)
    (hf : s.fabFlag = false) (hw : wakes s = true) (h : CStep c s s') : wakes s' = true := by
  cases h with
  | fabUp hc hu => rw [hf] at hu; cases hu
  | move pc' e hm =>
    cases hc : s.cpc <;> cases pc' <;> simp [moveOk, hc] at hm <;>
      simp_all [wakes]
  | pop e rest pc' hc hd hp =>
    rcases hp with ⟨rfl, _⟩ | ⟨rfl | rfl, _⟩ <;> simp_all [wakes]
  | inl sh p lbl pc' hc hs hp =>
    have hne := hI.inlBusy hc
    have hps := posterStep_PStep halg (hI.progs _ (by simp [allP]) hne) hs
    have ht : s.tok ≤ sh.tok := (pstep_work halg hps).2
    have h0 : 0 < s.tok ∨ s.runFlag = false := by
      simp [wakes, hc] at hw; exact hw
    rcases hp with ⟨rfl, _⟩ | ⟨rfl | rfl, _⟩ <;>
      (simp [wakes, State.withShared]
       rcases h0 with h0 | h0
       · exact .inl (decide_eq_true (by omega))
       · exact .inr h0)
  | _ => simp_all [wakes]

theorem wakes_iff (s : State) :
    wakes s = true ↔
      0 < s.tok ∨ s.cpc = .f ∨ (s.runFlag = false ∧ s.cpc ≠ .w) ∨ s.cpc = .fin := by
  simp [wakes, or_assoc]

theorem step_wakes {c : Config} (halg : c.alg = .tokenAfter) {s s' : State} {t : Tid} {lbl : String}
    (hI : FInv s) (hf : s.fabFlag = false) (hw : wakes s = true)
    (h : step c s t = some (s', lbl)) : wakes s' = true := by
  rcases step_cases h with ⟨_, hu, rfl⟩ | ⟨_, hc⟩ | ⟨i, p, sh, p', _, hp, hs, rfl⟩
  · rw [hf] at hu; cases hu
  · exact cstep_wakes halg hI hf hw (consumerStep_CStep hc)
  · have hmem : p ∈ allP s := by
      unfold allP; exact List.mem_cons_of_mem _ (List.mem_of_getElem? hp)
    have hne : p.posts ≠ [] := by
      intro h0; unfold posterStep at hs; rw [h0] at hs; simp at hs
    have hps := posterStep_PStep halg (hI.progs p hmem hne) hs
    have ht : s.tok ≤ sh.tok := (pstep_work halg hps).2
    rw [wakes_iff] at hw ⊢
    rcases hw with h | h | h | h
    · exact .inl (show 0 < sh.tok by omega)
    · exact .inr (.inl h)
    · exact .inr (.inr (.inl h))
    · exact .inr (.inr (.inr h))

/-! ### a stopped system with `n` posters -/

/-- the invariant of a stopped system with `n` posters -/
structure SInv (n : Nat) (s : State) : Prop where
  fab : s.fabFlag = false
  inv : FInv s
  len : s.posters.length = n

theorem CStep.posters_eq {c : Config} {s s' : State} (h : CStep c s s') : s'.posters = s.posters := by
  cases h <;> rfl

theorem step_posters_length {c : Config} {s s' : State} {t : Tid} {lbl : String}
    (h : step c s t = some (s', lbl)) : s'.posters.length = s.posters.length := by
  rcases step_cases h with ⟨_, _, rfl⟩ | ⟨_, hc⟩ | ⟨i, p, sh, p', _, _, _, rfl⟩
  · rfl
  · rw [(consumerStep_CStep hc).posters_eq]
  · simp

theorem SInv.step {c : Config} (halg : c.alg = .tokenAfter) {n : Nat} {s s' : State} {t : Tid}
    {lbl : String} (hI : SInv n s) (h : step c s t = some (s', lbl)) : SInv n s' :=
  ⟨step_fab_down h hI.fab, hI.inv.step halg h, (step_posters_length h).trans hI.len⟩

theorem SInv.sys_step {c : Config} (halg : c.alg = .tokenAfter) {n : Nat} (s : State) (t : Tid)
    (s' : State) (hI : SInv n s) (h : (sys c).step s t = some s') : SInv n s' := by
  obtain ⟨lbl, h⟩ := sys_step_iff.mp h; exact hI.step halg h

theorem SInv.sys_mu {c : Config} (halg : c.alg = .tokenAfter) {n : Nat} (s : State) (t : Tid)
    (s' : State) (hI : SInv n s) (h : (sys c).step s t = some s') : stopMu c s' < stopMu c s := by
  obtain ⟨lbl, h⟩ := sys_step_iff.mp h; exact step_mu halg hI.inv hI.fab h

theorem SInv.run {c : Config} (halg : c.alg = .tokenAfter) {n : Nat} (sch : List Tid) (s : State)
    (hI : SInv n s) : SInv n (run c s sch) :=
  (sys c).inv_run (SInv n) (SInv.sys_step halg) sch s hI

/-- **no infinite execution after the stop**: every schedule takes at most `stopMu` steps -/
theorem stopped_effective_le {c : Config} (halg : c.alg = .tokenAfter) {n : Nat} (s : State)
    (hI : SInv n s) (sch : List Tid) : (sys c).effective s sch ≤ stopMu c s :=
  (sys c).terminates_of_measure (SInv n) (stopMu c) (SInv.sys_step halg) (SInv.sys_mu halg) sch s hI

/-- the measure never increases along a run of a stopped system -/
theorem stopMu_run_le {c : Config} (halg : c.alg = .tokenAfter) {n : Nat} (s : State)
    (hI : SInv n s) (sch : List Tid) : stopMu c (run c s sch) ≤ stopMu c s := by
  have := (sys c).measure_run (SInv n) (stopMu c) (SInv.sys_step halg) (SInv.sys_mu halg) sch s hI
  unfold run; omega

/-- only the threads of `LD` can be enabled in a stopped system -/
theorem enabled_tid {c : Config} {n : Nat} {s : State} {t : Tid} (hI : SInv n s)
    (h : (sys c).step s t ≠ none) : ∃ k, k ≤ n ∧ t = .ld k := by
  rw [Ne, sys_step_none] at h
  cases t with
  | fabstop => simp [step, hI.fab] at h
  | ld k =>
    cases k with
    | zero => exact ⟨0, Nat.zero_le _, rfl⟩
    | succ i =>
      obtain ⟨p, hp, _⟩ := poster_enabled_posts h
      have : i < s.posters.length := (List.getElem?_eq_some_iff.mp hp).1
      exact ⟨i + 1, by rw [← hI.len]; omega, rfl⟩

/-- in a state where no thread is enabled every posting program has ended, and the consumer has
ended or waits with no token -/
theorem quiescent_facts {c : Config} (halg : c.alg = .tokenAfter) {s : State} (hI : FInv s)
    (hq : (sys c).Quiescent s) :
    (∀ p ∈ s.posters, p.posts = []) ∧ (s.cpc = .fin ∨ (s.cpc = .w ∧ s.tok = 0)) := by
  constructor
  · intro p hp
    obtain ⟨i, hi⟩ := List.getElem?_of_mem hp
    apply Classical.byContradiction
    intro hne
    exact poster_enabled halg hI hi hne (sys_step_none.mp (hq (.ld (i + 1))))
  · apply Classical.byContradiction
    intro h
    have h1 : s.cpc ≠ .fin := fun h' => h (.inl h')
    have h2 : ¬ (s.cpc = .w ∧ s.tok = 0) := fun h' => h (.inr h')
    exact consumer_enabled halg hI h1 h2 (sys_step_none.mp (hq (.ld 0)))

/-- **fair schedules end.**  More than `stopMu` rounds, each giving every thread of `LD` a turn,
lead a stopped system to a state where no thread is enabled. -/
theorem fair_quiescent {c : Config} (halg : c.alg = .tokenAfter) {n : Nat} (s : State)
    (hI : SInv n s) (rounds : List (List Tid)) (hfair : ∀ r ∈ rounds, ∀ k, k ≤ n → Tid.ld k ∈ r)
    (hlen : stopMu c s < rounds.length) : (sys c).Quiescent (run c s rounds.flatten) := by
  refine (sys c).fair_blocks_quiescent (SInv n) (stopMu c) (fun t => ∃ k, k ≤ n ∧ t = .ld k)
    (SInv.sys_step halg) (SInv.sys_mu halg) (fun s t hI h => enabled_tid hI h) rounds s hI ?_ hlen
  intro r hr t ⟨k, hk, ht⟩
  rw [ht]; exact hfair r hr k hk

/-! ### the consumer ends -/

theorem consumer_enabled_of_wakes {c : Config} (halg : c.alg = .tokenAfter) {s : State} (hI : FInv s)
    (hw : wakes s = true) (hfin : s.cpc ≠ .fin) : step c s (.ld 0) ≠ none := by
  refine consumer_enabled halg hI hfin ?_
  rintro ⟨h1, h2⟩
  rw [wakes_iff] at hw
  rcases hw with h | h | h | h
  · omega
  · rw [h1] at h; cases h
  · exact h.2 h1
  · exact hfin h

/-- **the consumer ends.**  In a stopped system whose consumer is certain to wake up, any schedule
that gives the consumer at least `stopMu` turns — whatever the other threads do in between — ends
with the consumer thread finished. -/
theorem consumer_turns_finish {c : Config} (halg : c.alg = .tokenAfter) {n : Nat} :
    ∀ (sch : List Tid) (s : State), SInv n s → wakes s = true →
      stopMu c s ≤ sch.count (.ld 0) → (run c s sch).cpc = .fin := by
  intro sch
  induction sch with
  | nil =>
    intro s hI hw hm
    apply Classical.byContradiction
    intro hfin
    have hen := consumer_enabled_of_wakes (c := c) halg hI.inv hw hfin
    cases hs : step c s (.ld 0) with
    | none => exact hen hs
    | some r =>
      have := step_mu halg hI.inv hI.fab (show step c s (.ld 0) = some (r.1, r.2) from hs)
      simp at hm; omega
  | cons t ts ih =>
    intro s hI hw hm
    simp only [run, System.run]
    cases hs : (sys c).step s t with
    | none =>
      simp only []
      by_cases hfin : s.cpc = .fin
      · exact (run_fin c s ts hfin).1
      · have hen := consumer_enabled_of_wakes (c := c) halg hI.inv hw hfin
        have hne : t ≠ .ld 0 := by
          intro h; rw [h] at hs; exact hen (sys_step_none.mp hs)
        refine ih s hI hw ?_
        rw [List.count_cons] at hm
        simp [hne] at hm
        exact hm
    | some s' =>
      simp only []
      obtain ⟨lbl, hst⟩ := sys_step_iff.mp hs
      have hmu := step_mu halg hI.inv hI.fab hst
      refine ih s' (hI.step halg hst) (step_wakes halg hI.inv hI.fab hw hst) ?_
      rw [List.count_cons] at hm
      split at hm <;> omega

/-! ### a token that is about to arrive -/

/-- the next wake-up of the consumer is certain, or a poster is inside a post and has not yet put
the token for it (and tokens exist: the capacity is not zero) -/
def WakesOrPost (c : Config) (s : State) : Prop :=
  wakes s = true ∨ (0 < c.cap ∧ ∃ (i : Nat) (p : Poster), s.posters[i]? = some p ∧ aboutToPut p = true)

theorem pstep_aboutToPut {c : Config} {sh sh' : Shared} {p p' : Poster} (hcap : 0 < c.cap)
    (ha : aboutToPut p = true) (h : PStep c sh p sh' p') : aboutToPut p' = true ∨ 0 < sh'.tok := by
  cases h with
  | adv x rest pc' hp hpc hc =>
    left; rcases hc with ⟨rfl, _⟩ | ⟨rfl, _⟩ <;> simp [aboutToPut, hp, prePut]
  | rot x rest hp hpc => left; simp [aboutToPut, hp, prePut]
  | place x rest r hp hc => left; simp [aboutToPut, hp, prePut]
  | put x rest hp hpc hlt => right; simp
  | exit x rest hp hc =>
    rcases hc with ⟨_, h⟩ | ⟨h, _⟩ | ⟨h, _⟩
    · right; omega
    · simp [aboutToPut, h, prePut] at ha
    · simp [aboutToPut, h, prePut] at ha
  | read x rest hp hpc => simp [aboutToPut, hpc, prePut] at ha
  | again x rest hp hpc hq => simp [aboutToPut, hpc, prePut] at ha

theorem step_wakesOrPost {c : Config} (halg : c.alg = .tokenAfter) {n : Nat} {s s' : State} {t : Tid}
    {lbl : String} (hI : SInv n s) (hw : WakesOrPost c s) (h : step c s t = some (s', lbl)) :
    WakesOrPost c s' := by
  rcases hw with hw | ⟨hcap, j, q, hq, ha⟩
  · exact .inl (step_wakes halg hI.inv hI.fab hw h)
  · rcases step_cases h with ⟨_, hu, rfl⟩ | ⟨_, hc⟩ | ⟨i, p, sh, p', _, hp, hs, rfl⟩
    · rw [hI.fab] at hu; cases hu
    · refine .inr ⟨hcap, j, q, ?_, ha⟩
      rw [(consumerStep_CStep hc).posters_eq]; exact hq
    · by_cases hij : i = j
      · subst hij
        have hpq : p = q := by rw [hp] at hq; exact Option.some.inj hq
        subst hpq
        have hmem : p ∈ allP s := by
          unfold allP; exact List.mem_cons_of_mem _ (List.mem_of_getElem? hp)
        have hne : p.posts ≠ [] := by
          intro h0; unfold posterStep at hs; rw [h0] at hs; simp at hs
        have hps := posterStep_PStep halg (hI.inv.progs p hmem hne) hs
        rcases pstep_aboutToPut hcap ha hps with h1 | h1
        · refine .inr ⟨hcap, i, p', ?_, h1⟩
          have : i < s.posters.length := (List.getElem?_eq_some_iff.mp hp).1
          simp [this]
        · exact .inl ((wakes_iff _).mpr (.inl h1))
      · refine .inr ⟨hcap, j, q, ?_, ha⟩
        show (s.posters.set i p')[j]? = some q
        rw [List.getElem?_set_ne hij]; exact hq

theorem WakesOrPost.run {c : Config} (halg : c.alg = .tokenAfter) {n : Nat} (sch : List Tid)
    (s : State) (hI : SInv n s) (hw : WakesOrPost c s) : WakesOrPost c (run c s sch) := by
  have := (sys c).inv_run (fun s => SInv n s ∧ WakesOrPost c s) ?_ sch s ⟨hI, hw⟩
  · exact this.2
  · intro s1 t s2 ⟨h1, h2⟩ hs
    obtain ⟨lbl, h⟩ := sys_step_iff.mp hs
    exact ⟨h1.step halg h, step_wakesOrPost halg h1 h2 h⟩

/-- in a quiescent state of a stopped system in which a token was available or about to arrive, the
consumer thread has ended -/
theorem quiescent_fin {c : Config} (halg : c.alg = .tokenAfter) {s : State} (hI : FInv s)
    (hw : WakesOrPost c s) (hq : (sys c).Quiescent s) : s.cpc = .fin := by
  obtain ⟨hp, hc⟩ := quiescent_facts halg hI hq
  have hwk : wakes s = true := by
    rcases hw with hw | ⟨_, i, p, hi, ha⟩
    · exact hw
    · have := hp p (List.mem_of_getElem? hi)
      simp [aboutToPut, this] at ha
  rcases hc with hc | ⟨h1, h2⟩
  · exact hc
  · rw [wakes_iff] at hwk
    rcases hwk with h | h | h | h
    · omega
    · rw [h1] at h; cases h
    · exact absurd h1 h.2
    · exact h

theorem wakes_run {c : Config} (halg : c.alg = .tokenAfter) {n : Nat} (sch : List Tid) (s : State)
    (hI : SInv n s) (hw : wakes s = true) : wakes (run c s sch) = true := by
  have := (sys c).inv_run (fun s => SInv n s ∧ wakes s = true) ?_ sch s ⟨hI, hw⟩
  · exact this.2
  · intro s1 t s2 ⟨h1, h2⟩ hs
    obtain ⟨lbl, h⟩ := sys_step_iff.mp hs
    exact ⟨h1.step halg h, step_wakes halg h1.inv h1.fab h2 h⟩

theorem putRank_pos {p : Poster} (ha : aboutToPut p = true) : 1 ≤ putRank p.pc := by
  unfold aboutToPut at ha
  cases hpc : p.pc <;> simp [hpc, prePut, putRank] at ha ⊢

theorem aboutToPut_posts {p : Poster} (ha : aboutToPut p = true) : p.posts ≠ [] := by
  intro h; simp [aboutToPut, h] at ha

theorem pstep_putRank {c : Config} {sh sh' : Shared} {p p' : Poster} (hcap : 0 < c.cap)
    (ha : aboutToPut p = true) (h : PStep c sh p sh' p') :
    (aboutToPut p' = true ∧ putRank p'.pc < putRank p.pc) ∨ 0 < sh'.tok := by
  cases h with
  | adv x rest pc' hp hpc hc =>
    left; rcases hc with ⟨rfl, _⟩ | ⟨rfl, _⟩ <;> simp [aboutToPut, hp, hpc, prePut, putRank]
  | rot x rest hp hpc => left; simp [aboutToPut, hp, hpc, prePut, putRank]
  | place x rest r hp hc =>
    left; rcases hc with ⟨h | h, _⟩ | ⟨h, _⟩ <;> simp [aboutToPut, hp, h, prePut, putRank]
  | put x rest hp hpc hlt => right; simp
  | exit x rest hp hc =>
    rcases hc with ⟨_, h⟩ | ⟨h, _⟩ | ⟨h, _⟩
    · right; omega
    · simp [aboutToPut, h, prePut] at ha
    · simp [aboutToPut, h, prePut] at ha
  | read x rest hp hpc => simp [aboutToPut, hpc, prePut] at ha
  | again x rest hp hpc hq => simp [aboutToPut, hpc, prePut] at ha

/-- **a post delivers a token.**  In a stopped system with a non-zero capacity, a poster that is
inside a post and has not yet put its token makes the consumer's wake-up certain after at most
`putRank` (≤ 4) turns of its own, whatever the other threads do in between. -/
theorem post_delivers_token {c : Config} (halg : c.alg = .tokenAfter) {n : Nat} (hcap : 0 < c.cap)
    (i : Nat) : ∀ (sch : List Tid) (s : State) (p : Poster), SInv n s → s.posters[i]? = some p →
      aboutToPut p = true → putRank p.pc ≤ sch.count (.ld (i + 1)) →
      wakes (run c s sch) = true := by
  intro sch
  induction sch with
  | nil =>
    intro s p _ _ ha hm
    have := putRank_pos ha
    simp at hm; omega
  | cons t ts ih =>
    intro s p hI hp ha hm
    simp only [run, System.run]
    cases hs : (sys c).step s t with
    | none =>
      simp only []
      have hne : t ≠ .ld (i + 1) := by
        intro h; rw [h] at hs
        exact poster_enabled halg hI.inv hp (aboutToPut_posts ha) (sys_step_none.mp hs)
      refine ih s p hI hp ha ?_
      rw [List.count_cons] at hm
      simp [hne] at hm
      exact hm
    | some s' =>
      simp only []
      obtain ⟨lbl, hst⟩ := sys_step_iff.mp hs
      have hI' := hI.step halg hst
      rcases step_cases hst with ⟨_, hu, _⟩ | ⟨rfl, hc⟩ | ⟨j, p0, sh, p', rfl, hp0, hps0, rfl⟩
      · rw [hI.fab] at hu; cases hu
      · refine ih s' p hI' ?_ ha ?_
        · rw [(consumerStep_CStep hc).posters_eq]; exact hp
        · rw [List.count_cons] at hm
          simp at hm
          exact hm
      · by_cases hij : j = i
        · subst hij
          have hpq : p0 = p := by rw [hp0] at hp; exact Option.some.inj hp
          subst hpq
          have hmem : p0 ∈ allP s := by
            unfold allP; exact List.mem_cons_of_mem _ (List.mem_of_getElem? hp0)
          have hps := posterStep_PStep halg (hI.inv.progs p0 hmem (aboutToPut_posts ha)) hps0
          rcases pstep_putRank hcap ha hps with ⟨h1, h2⟩ | h1
          · refine ih _ p' hI' ?_ h1 ?_
            · have : j < s.posters.length := (List.getElem?_eq_some_iff.mp hp0).1
              simp [this]
            · rw [List.count_cons] at hm
              simp at hm
              omega
          · exact wakes_run halg ts _ hI' ((wakes_iff _).mpr (.inl h1))
        · refine ih _ p hI' ?_ ha ?_
          · show (s.posters.set j p')[i]? = some p
            rw [List.getElem?_set_ne hij]; exact hp
          · rw [List.count_cons] at hm
            have : (Tid.ld (j + 1) == Tid.ld (i + 1)) = false := by simp [hij]
            simp [this] at hm
            exact hm

/-! ### reachable states -/

theorem run_append (c : Config) (s : State) (a b : List Tid) :
    run c s (a ++ b) = run c (run c s a) b := (sys c).run_append a b s

theorem run_posters_length (c : Config) (s : State) (sch : List Tid) :
    (run c s sch).posters.length = s.posters.length :=
  (sys c).inv_run (fun s' => s'.posters.length = s.posters.length)
    (fun _ _ _ hI hs => by
      obtain ⟨lbl, h⟩ := sys_step_iff.mp hs; exact (step_posters_length h).trans hI) sch s rfl

/-- a reachable state whose fabric flag is down satisfies the invariant of a stopped system -/
theorem sinv_of_reach {c : Config} (halg : c.alg = .tokenAfter) (progs : List (List (Kind × Ev)))
    (sch0 : List Tid) (hf : (run c (init c progs) sch0).fabFlag = false) :
    SInv progs.length (run c (init c progs) sch0) :=
  ⟨hf, FInv.run halg sch0 _ (FInv.init halg progs), by
    rw [run_posters_length]; simp [init, LD.init]⟩

/-- the `fabstop` step brings the flag down (or finds it down) -/
theorem run_fabstop (c : Config) (s : State) (sch : List Tid) :
    (run c s (.fabstop :: sch)).fabFlag = false := by
  simp only [run, System.run, sys, step]
  cases hf : s.fabFlag with
  | false => simp; exact run_fab_down c s sch hf
  | true => simp; exact run_fab_down c _ sch rfl

/-- the `fabstop` step dispatches nothing -/
theorem run_fabstop_dispatched (c : Config) (s : State) :
    (run c s [.fabstop]).dispatched = s.dispatched := by
  simp only [run, System.run, sys, step]
  cases hf : s.fabFlag <;> simp

/-- the wake-up after the stop, step by step: the consumer takes the token, finds the fabric flag
down, clears its own run flag, acknowledges the token, tests its run flag and leaves the loop -/
theorem next_wakeup_ends (c : Config) (s : State) (hf : s.fabFlag = false) (hc : s.cpc = .w)
    (ht : s.tok ≠ 0) :
    (run c s [.ld 0, .ld 0, .ld 0, .ld 0]).cpc = .fin ∧
    (run c s [.ld 0, .ld 0, .ld 0, .ld 0]).runFlag = false ∧
    (run c s [.ld 0, .ld 0, .ld 0, .ld 0]).dispatched = s.dispatched ∧
    (run c s [.ld 0, .ld 0, .ld 0, .ld 0]).dq = s.dq ∧
    (run c s [.ld 0, .ld 0, .ld 0, .ld 0]).tok = s.tok - 1 := by
  by_cases hu : s.unfinished = 0 <;>
    simp [run, System.run, sys, step, stepL, consumerStep, hc, ht, hf, hu]

end Miros.Conc.LDFab
