/-!
# Layer 4 — interleaving semantics

A concurrent system is a step function `σ → τ → Option σ` (`none`: thread `τ` is not enabled —
blocked or finished).  A *schedule* is any list of thread choices; a choice of a thread that is
not enabled is skipped.  Theorems about `run` quantify over **all** schedules of any length.
-/
namespace Miros.Conc

structure System (σ τ : Type) where
  step : σ → τ → Option σ

variable {σ τ : Type}

/-- run a schedule; choices of threads that are not enabled are skipped -/
def System.run (S : System σ τ) : σ → List τ → σ
  | s, [] => s
  | s, t :: ts =>
    match S.step s t with
    | some s' => S.run s' ts
    | none => S.run s ts

/-- states reachable from `s0` under some schedule -/
def System.Reachable (S : System σ τ) (s0 s : σ) : Prop := ∃ sched, S.run s0 sched = s

/-- an inductive invariant holds after every schedule -/
theorem System.inv_run (S : System σ τ) (I : σ → Prop)
    (hstep : ∀ s t s', I s → S.step s t = some s' → I s') :
    ∀ (sched : List τ) (s : σ), I s → I (S.run s sched) := by
  intro sched
  induction sched with
  | nil => intro s h; exact h
  | cons t ts ih =>
    intro s h
    unfold System.run
    cases hs : S.step s t with
    | none => exact ih s h
    | some s' => exact ih s' (hstep s t s' h hs)

theorem System.inv_reachable (S : System σ τ) (I : σ → Prop)
    (hstep : ∀ s t s', I s → S.step s t = some s' → I s') (s0 s : σ) (h0 : I s0)
    (hr : S.Reachable s0 s) : I s := by
  obtain ⟨sched, rfl⟩ := hr
  exact S.inv_run I hstep sched s0 h0

/-- number of effective (enabled) steps taken by a schedule -/
def System.effective (S : System σ τ) : σ → List τ → Nat
  | _, [] => 0
  | s, t :: ts =>
    match S.step s t with
    | some s' => S.effective s' ts + 1
    | none => S.effective s ts

/-- if every enabled step from a state satisfying `I` strictly decreases `μ`, every schedule
makes at most `μ s0` effective steps: no infinite execution exists (no fairness needed). -/
theorem System.terminates_of_measure (S : System σ τ) (I : σ → Prop) (μ : σ → Nat)
    (hinv : ∀ s t s', I s → S.step s t = some s' → I s')
    (hdec : ∀ s t s', I s → S.step s t = some s' → μ s' < μ s) :
    ∀ (sched : List τ) (s : σ), I s → S.effective s sched ≤ μ s := by
  intro sched
  induction sched with
  | nil => intro s _; simp [System.effective]
  | cons t ts ih =>
    intro s h
    unfold System.effective
    cases hs : S.step s t with
    | none => exact ih s h
    | some s' =>
      have h1 := ih s' (hinv s t s' h hs)
      have h2 := hdec s t s' h hs
      simp only []
      omega

/-- no thread is enabled -/
def System.Quiescent (S : System σ τ) (s : σ) : Prop := ∀ t, S.step s t = none

end Miros.Conc
