import MirosModel.Conc.Sys
/-!
# Small shared-state protocols: `SingletonDecorator`, the signal registry, thread-safe attributes

Each is a transition system in the sense of `Conc/Sys.lean`, at the granularity of the individual
reads and writes of shared state that the Python bytecode performs (one step per shared access).
-/
namespace Miros.Conc

/-! ## `SingletonDecorator.__call__` (singleton.py) -/
namespace Single

inductive Pc
  | check      -- `if self.instance is None`
  | acquire    -- `with self._lock:`           (locked variant only)
  | check2     -- `if self.instance is None`   (locked variant only)
  | construct  -- `self.klass(...)`: a new object
  | store      -- `self.instance = <it>`
  | release    -- leaving the `with`           (locked variant only)
  | read       -- `return self.instance`
  | done
deriving DecidableEq, Repr

structure Thread where
  pc : Pc
  mine : Option Nat      -- the object this thread constructed
  ret : Option Nat       -- what the call returned
deriving DecidableEq, Repr

structure State where
  instance_ : Option Nat
  lock : Option Nat      -- owner thread index
  nextObj : Nat
  threads : List Thread
deriving DecidableEq, Repr

def step (locked : Bool) (s : State) (i : Nat) : Option State :=
  match s.threads[i]? with
  | none => none
  | some t =>
    let put (t' : Thread) (s' : State) : State := { s' with threads := s'.threads.set i t' }
    match t.pc with
    | .done => none
    | .check =>
      if s.instance_.isNone then some (put { t with pc := if locked then .acquire else .construct } s)
      else some (put { t with pc := .read } s)
    | .acquire => if s.lock.isSome then none else some (put { t with pc := .check2 } { s with lock := some i })
    | .check2 =>
      if s.instance_.isNone then some (put { t with pc := .construct } s) else some (put { t with pc := .release } s)
    | .construct => some (put { t with pc := .store, mine := some s.nextObj } { s with nextObj := s.nextObj + 1 })
    | .store => some (put { t with pc := if locked then .release else .read } { s with instance_ := t.mine })
    | .release => some (put { t with pc := .read } { s with lock := none })
    | .read => some (put { t with pc := .done, ret := s.instance_ } s)

def sys (locked : Bool) : System State Nat where
  step := step locked

def init (n : Nat) : State :=
  { instance_ := none, lock := none, nextObj := 0, threads := List.replicate n ⟨.check, none, none⟩ }

end Single

/-! ## the signal registry (`SignalSource.append`, event.py) -/
namespace Registry

/-- the dictionary: names (as numbers) ↦ signal number, in insertion order -/
abbrev Dict := List (Nat × Nat)

def Dict.get (d : Dict) (name : Nat) : Option Nat := (d.find? (fun x => x.1 = name)).map (·.2)

/-- `name_for_signal`: `list(keys)[list(values).index(n)]` -/
def Dict.nameFor (d : Dict) (n : Nat) : Option Nat := (d.find? (fun x => x.2 = n)).map (·.1)

/-- sequential `append` -/
def Dict.append (d : Dict) (name : Nat) : Dict :=
  if (d.get name).isSome then d else d ++ [(name, d.length + 1)]

inductive Pc
  | acquire | contains | len | setitem | release | done
deriving DecidableEq, Repr

structure Thread where
  names : List Nat     -- names still to register; head = in progress
  pc : Pc
  n : Nat              -- the length read
deriving DecidableEq, Repr

structure State where
  dict : Dict
  lock : Option Nat
  threads : List Thread
deriving DecidableEq, Repr

def firstPc (locked : Bool) : Pc := if locked then .acquire else .contains

def nextName (locked : Bool) (t : Thread) : Thread :=
  match t.names.tail with
  | [] => { t with names := [], pc := .done }
  | l => { t with names := l, pc := firstPc locked }

def step (locked : Bool) (s : State) (i : Nat) : Option State :=
  match s.threads[i]? with
  | none => none
  | some t =>
    let put (t' : Thread) (s' : State) : State := { s' with threads := s'.threads.set i t' }
    match t.names with
    | [] => none
    | name :: _ =>
      match t.pc with
      | .done => none
      | .acquire => if s.lock.isSome then none else some (put { t with pc := .contains } { s with lock := some i })
      | .contains =>
        if (s.dict.get name).isSome then some (put (if locked then { t with pc := .release } else nextName locked t) s)
        else some (put { t with pc := .len } s)
      | .len => some (put { t with pc := .setitem, n := s.dict.length } s)
      | .setitem =>
        let d' := if (s.dict.get name).isSome then s.dict.map (fun x => if x.1 = name then (name, t.n + 1) else x)
                  else s.dict ++ [(name, t.n + 1)]
        some (put (if locked then { t with pc := .release } else nextName locked t) { s with dict := d' })
      | .release => some (put (nextName locked t) { s with lock := none })

def sys (locked : Bool) : System State Nat where
  step := step locked

def init (locked : Bool) (d0 : Dict) (progs : List (List Nat)) : State :=
  { dict := d0, lock := none,
    threads := progs.map fun p => match p with | [] => ⟨[], .done, 0⟩ | _ => ⟨p, firstPc locked, 0⟩ }

end Registry

/-! ## thread-safe attributes (`ThreadSafeAttribute.__get__/__set__`, thread_safe_attributes.py) -/
namespace Tsa

/-- the statement forms a thread executes on one attribute of one instance -/
inductive Stmt
  | read                  -- `y = o.x`            get; the line is classified atomic → lock released in get
  | assign (v : Int)      -- `o.x = v`            set
  | aug (d : Int)         -- `o.x += d`           get (line classified non-atomic: lock kept), then set
  | misread               -- a read on a line the classifier takes for non-atomic (`if o.x <= 3`, `z += o.x`):
                          --   get keeps the lock and no set follows
deriving DecidableEq, Repr

inductive Pc
  | getAcquire            -- `self._lock.acquire()` in __get__
  | getClassify           -- `_is_atomic = True`, inspect the source line, maybe release; read the value
  | setTestFlag           -- `if self._is_atomic:` in __set__
  | setAcquire
  | setWrite              -- write the value, `_is_atomic = True`
  | setRelease            -- `self._lock.release()`
deriving DecidableEq, Repr

structure Thread where
  stmts : List Stmt
  pc : Pc
  tmp : Int               -- value read by the get of an augmented assignment
  flag : Bool             -- this thread's `_is_atomic` (used when the flag is per thread)
deriving DecidableEq, Repr

structure State where
  value : Int
  owner : Option Nat      -- RLock owner
  count : Nat             -- RLock recursion count
  sharedFlag : Bool       -- the single `_is_atomic` of the earlier code
  threads : List Thread
  err : Bool              -- RuntimeError: release of a lock not owned
deriving DecidableEq, Repr

def startPc : Stmt → Pc
  | .assign _ => .setTestFlag
  | _ => .getAcquire

def nextStmt (t : Thread) : Thread :=
  match t.stmts.tail with
  | [] => { t with stmts := [] }
  | s :: r => { t with stmts := s :: r, pc := startPc s }

def getFlag (perThread : Bool) (s : State) (t : Thread) : Bool := if perThread then t.flag else s.sharedFlag
def setFlag (perThread : Bool) (s : State) (t : Thread) (b : Bool) : State × Thread :=
  if perThread then (s, { t with flag := b }) else ({ s with sharedFlag := b }, t)

/-- RLock.release by thread i -/
def rel (s : State) (i : Nat) : State :=
  if s.owner = some i ∧ s.count ≥ 1 then
    (if s.count = 1 then { s with owner := none, count := 0 } else { s with count := s.count - 1 })
  else { s with err := true }

def step (perThread : Bool) (s : State) (i : Nat) : Option State :=
  match s.threads[i]? with
  | none => none
  | some t =>
    let put (t' : Thread) (s' : State) : State := { s' with threads := s'.threads.set i t' }
    match t.stmts with
    | [] => none
    | st :: _ =>
      match t.pc with
      | .getAcquire =>
        if s.owner.isSome ∧ s.owner ≠ some i then none
        else some (put { t with pc := .getClassify } { s with owner := some i, count := s.count + 1 })
      | .getClassify =>
        let (s1, t1) := setFlag perThread s t true
        match st with
        | .read => some (put (nextStmt t1) (rel s1 i))                       -- atomic line: release, return value
        | .aug _ =>
          let (s2, t2) := setFlag perThread s1 t1 false
          some (put { t2 with pc := .setTestFlag, tmp := s.value } s2)        -- lock kept for the set that follows
        | .misread =>
          let (s2, t2) := setFlag perThread s1 t1 false
          some (put (nextStmt t2) s2)                                         -- lock kept, nothing follows
        | .assign _ => some (put (nextStmt t1) s1)
      | .setTestFlag =>
        if getFlag perThread s t then some (put { t with pc := .setAcquire } s)
        else some (put { t with pc := .setWrite } s)
      | .setAcquire =>
        if s.owner.isSome ∧ s.owner ≠ some i then none
        else some (put { t with pc := .setWrite } { s with owner := some i, count := s.count + 1 })
      | .setWrite =>
        let v := match st with | .assign v => v | .aug d => t.tmp + d | _ => s.value
        let (s1, t1) := setFlag perThread { s with value := v } t true
        some (put { t1 with pc := .setRelease } s1)
      | .setRelease => some (put (nextStmt t) (rel s i))

def sys (perThread : Bool) : System State Nat where
  step := step perThread

def init (v0 : Int) (progs : List (List Stmt)) : State :=
  { value := v0, owner := none, count := 0, sharedFlag := true, err := false,
    threads := progs.map fun p => match p with
      | [] => ⟨[], .getAcquire, 0, true⟩
      | st :: _ => ⟨p, startPc st, 0, true⟩ }

/-- per-instance storage (C29): `values` maps instance ids to values; `perInstance = false` is the
earlier code (one value on the descriptor, shared by every instance) -/
def readValue (perInstance : Bool) (vals : List (Nat × Int)) (shared : Int) (inst : Nat) : Int :=
  if perInstance then ((vals.find? (fun x => x.1 = inst)).map (·.2)).getD 0 else shared

def writeValue (perInstance : Bool) (vals : List (Nat × Int)) (shared : Int) (inst : Nat) (v : Int) :
    List (Nat × Int) × Int :=
  if perInstance then ((inst, v) :: vals.filter (fun x => x.1 ≠ inst), shared) else (vals, v)

end Tsa
end Miros.Conc
